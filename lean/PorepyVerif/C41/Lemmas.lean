/-
C41 — helper lemmas (property theorems are in Props.lean).
-/
import Mathlib.Tactic.Linarith
import Mathlib.Tactic.Ring
import Mathlib.Tactic.FieldSimp
import Mathlib.Algebra.Order.Field.Rat
import PorepyVerif.C41.Model
import PorepyVerif.C46.Lemmas

namespace PorepyVerif.C41
open PorepyVerif.C46 (Coord Store)

/-! ### sums -/

theorem sumQ_append (l₁ l₂ : List Rat) : sumQ (l₁ ++ l₂) = sumQ l₁ + sumQ l₂ := by
  induction l₁ with
  | nil => simp only [List.nil_append, sumQ]; grind
  | cons a l ih => simp only [List.cons_append, sumQ, ih]; grind

theorem sumQ_map_mul_left {α : Type} (c : Rat) (f : α → Rat) (l : List α) :
    sumQ (l.map (fun a => c * f a)) = c * sumQ (l.map f) := by
  induction l with
  | nil => simp [sumQ]
  | cons a l ih => simp only [List.map_cons, sumQ, ih]; grind

theorem sumQ_map_congr {α : Type} (f g : α → Rat) (l : List α) (h : ∀ a ∈ l, f a = g a) :
    sumQ (l.map f) = sumQ (l.map g) := by
  induction l with
  | nil => rfl
  | cons a l ih =>
    simp only [List.map_cons, sumQ]
    rw [h a (List.mem_cons_self), ih (fun b hb => h b (List.mem_cons_of_mem _ hb))]

/-! ### the tensor-product sum in recursive form -/

/-- `Σ_{vertices v of the cell with base b} Π_k (weight of v_k) · g v`, one axis at a time -/
def wsum : List (Rat × Int) → (List Int → Rat) → Rat
  | [], g => g []
  | (w, b) :: rest, g =>
    (1 - w) * wsum rest (fun is => g (b :: is)) + w * wsum rest (fun is => g ((b + 1) :: is))

/-- the gradient sum: on axis `k` the weights are `-1` (left) and `+1` (right) -/
def gsum : Nat → List (Rat × Int) → (List Int → Rat) → Rat
  | _, [], _ => 0
  | 0, (_, b) :: rest, g =>
    wsum rest (fun is => g ((b + 1) :: is)) - wsum rest (fun is => g (b :: is))
  | k + 1, (w, b) :: rest, g =>
    (1 - w) * gsum k rest (fun is => g (b :: is)) + w * gsum k rest (fun is => g ((b + 1) :: is))

/-- `v` is a vertex of the cell whose base vertex is given by the second components of `wb` -/
inductive InCube : List (Rat × Int) → List Int → Prop
  | nil : InCube [] []
  | cons {p : Rat × Int} {i : Int} {rest : List (Rat × Int)} {v : List Int} :
      (i = p.2 ∨ i = p.2 + 1) → InCube rest v → InCube (p :: rest) (i :: v)

theorem wsum_congr (wb : List (Rat × Int)) (g g' : List Int → Rat)
    (h : ∀ v, InCube wb v → g v = g' v) :
    wsum wb g = wsum wb g' := by
  induction wb generalizing g g' with
  | nil => exact h [] .nil
  | cons p rest ih =>
    obtain ⟨w, b⟩ := p
    simp only [wsum]
    rw [ih (fun is => g (b :: is)) (fun is => g' (b :: is)) (fun v hv => h (b :: v) (.cons (Or.inl rfl) hv)),
        ih (fun is => g ((b + 1) :: is)) (fun is => g' ((b + 1) :: is))
          (fun v hv => h ((b + 1) :: v) (.cons (Or.inr rfl) hv))]

theorem wsum_const (wb : List (Rat × Int)) (c : Rat) : wsum wb (fun _ => c) = c := by
  induction wb with
  | nil => rfl
  | cons p rest ih => obtain ⟨w, b⟩ := p; simp only [wsum, ih]; grind

theorem wsum_lin (wb : List (Rat × Int)) (g₁ g₂ : List Int → Rat) (c : Rat) :
    wsum wb (fun v => g₁ v + c * g₂ v) = wsum wb g₁ + c * wsum wb g₂ := by
  induction wb generalizing g₁ g₂ with
  | nil => rfl
  | cons p rest ih =>
    obtain ⟨w, b⟩ := p
    simp only [wsum]
    rw [ih (fun is => g₁ (b :: is)) (fun is => g₂ (b :: is)),
        ih (fun is => g₁ ((b + 1) :: is)) (fun is => g₂ ((b + 1) :: is))]
    grind

theorem gsum_lin (k : Nat) (wb : List (Rat × Int)) (g₁ g₂ : List Int → Rat) (c : Rat) :
    gsum k wb (fun v => g₁ v + c * g₂ v) = gsum k wb g₁ + c * gsum k wb g₂ := by
  induction wb generalizing k g₁ g₂ with
  | nil => cases k <;> simp only [gsum] <;> grind
  | cons p rest ih =>
    obtain ⟨w, b⟩ := p
    cases k with
    | zero =>
      simp only [gsum]
      rw [wsum_lin rest (fun is => g₁ (b :: is)) (fun is => g₂ (b :: is)),
          wsum_lin rest (fun is => g₁ ((b + 1) :: is)) (fun is => g₂ ((b + 1) :: is))]
      grind
    | succ k =>
      simp only [gsum]
      rw [ih k (fun is => g₁ (b :: is)) (fun is => g₂ (b :: is)),
          ih k (fun is => g₁ ((b + 1) :: is)) (fun is => g₂ ((b + 1) :: is))]
      grind

theorem gsum_const (k : Nat) (wb : List (Rat × Int)) (c : Rat) : gsum k wb (fun _ => c) = 0 := by
  induction wb generalizing k with
  | nil => cases k <;> rfl
  | cons p rest ih =>
    obtain ⟨w, b⟩ := p
    cases k with
    | zero => simp only [gsum, wsum_const]; grind
    | succ k => simp only [gsum, ih]; grind

/-! ### the enumerated sums of the code are the recursive sums -/

theorem enum_wsum : ∀ (bs : List Int) (ws : List Rat) (g : List Int → Rat), ws.length = bs.length →
    sumQ ((incrs bs.length).map (fun incr => vertexWeight ws incr * g (addIncr bs incr))) =
      wsum (ws.zip bs) g
  | [], ws, g, h => by
    cases ws with
    | nil => simp [incrs, sumQ, vertexWeight, addIncr, wsum]
    | cons _ _ => simp at h
  | b :: bs, [], g, h => by simp at h
  | b :: bs, w :: ws, g, h => by
    have hl : ws.length = bs.length := by simpa using h
    have ih0 := enum_wsum bs ws (fun is => g (b :: is)) hl
    have ih1 := enum_wsum bs ws (fun is => g ((b + 1) :: is)) hl
    simp only [List.length_cons, incrs, List.map_append, List.map_map, sumQ_append, List.zip_cons_cons, wsum]
    rw [← ih0, ← ih1, ← sumQ_map_mul_left, ← sumQ_map_mul_left]
    congr 1
    · apply sumQ_map_congr
      intro is _
      simp only [Function.comp, vertexWeight, addIncr, List.zipWith_cons_cons]
      push_cast
      rw [show b + 0 = b by omega]
      ring
    · apply sumQ_map_congr
      intro is _
      simp only [Function.comp, vertexWeight, addIncr, List.zipWith_cons_cons]
      push_cast
      ring

theorem enum_gsum : ∀ (k : Nat) (bs : List Int) (ws : List Rat) (g : List Int → Rat),
    ws.length = bs.length → k < bs.length →
    sumQ ((incrs bs.length).map (fun incr => gradWeight k ws incr * g (addIncr bs incr))) =
      gsum k (ws.zip bs) g
  | _, [], _, _, _, hk => by simp at hk
  | _, b :: bs, [], g, h, _ => by simp at h
  | 0, b :: bs, w :: ws, g, h, _ => by
    have hl : ws.length = bs.length := by simpa using h
    have ih0 := enum_wsum bs ws (fun is => g (b :: is)) hl
    have ih1 := enum_wsum bs ws (fun is => g ((b + 1) :: is)) hl
    simp only [List.length_cons, incrs, List.map_append, List.map_map, sumQ_append, List.zip_cons_cons, gsum]
    rw [← ih0, ← ih1]
    have e0 : sumQ (List.map ((fun incr => gradWeight 0 (w :: ws) incr * g (addIncr (b :: bs) incr)) ∘ fun x => 0 :: x)
        (incrs bs.length)) = (-1) * sumQ ((incrs bs.length).map (fun incr => vertexWeight ws incr * g (b :: addIncr bs incr))) := by
      rw [← sumQ_map_mul_left]
      apply sumQ_map_congr
      intro is _
      simp only [Function.comp, gradWeight, addIncr, List.zipWith_cons_cons]
      push_cast
      rw [show b + 0 = b by omega]
      ring
    have e1 : sumQ (List.map ((fun incr => gradWeight 0 (w :: ws) incr * g (addIncr (b :: bs) incr)) ∘ fun x => 1 :: x)
        (incrs bs.length)) = sumQ ((incrs bs.length).map (fun incr => vertexWeight ws incr * g ((b + 1) :: addIncr bs incr))) := by
      apply sumQ_map_congr
      intro is _
      simp only [Function.comp, gradWeight, addIncr, List.zipWith_cons_cons]
      push_cast
      ring
    rw [e0, e1]
    ring
  | k + 1, b :: bs, w :: ws, g, h, hk => by
    have hl : ws.length = bs.length := by simpa using h
    have hk' : k < bs.length := by simpa using hk
    have ih0 := enum_gsum k bs ws (fun is => g (b :: is)) hl hk'
    have ih1 := enum_gsum k bs ws (fun is => g ((b + 1) :: is)) hl hk'
    simp only [List.length_cons, incrs, List.map_append, List.map_map, sumQ_append, List.zip_cons_cons, gsum]
    rw [← ih0, ← ih1, ← sumQ_map_mul_left, ← sumQ_map_mul_left]
    congr 1
    · apply sumQ_map_congr
      intro is _
      simp only [Function.comp, gradWeight, addIncr, List.zipWith_cons_cons]
      push_cast
      rw [show b + 0 = b by omega]
      ring
    · apply sumQ_map_congr
      intro is _
      simp only [Function.comp, gradWeight, addIncr, List.zipWith_cons_cons]
      push_cast
      ring

/-! ### linear indices and the layout of the table -/

/-- `Σ v_k · stride_k` -/
def dotI : List Int → List Nat → Int
  | v :: vs, s :: ss => v * (s : Int) + dotI vs ss
  | _, _ => 0

theorem linIndex_eq_dot : ∀ (b incr : List Int) (ss : List Nat),
    linIndex b incr ss = dotI (addIncr b incr) ss
  | [], _, _ => by simp [linIndex, addIncr, dotI]
  | _ :: _, [], _ => by simp [linIndex, addIncr, dotI]
  | _ :: _, _ :: _, [] => by simp [linIndex, addIncr, dotI]
  | b :: bs, i :: is, s :: ss => by
    simp only [linIndex, addIncr, List.zipWith_cons_cons, dotI]
    rw [linIndex_eq_dot bs is ss]
    rfl

/-- the grid point with multi-index `v` -/
def gridPt : List Axis → List Int → List Rat
  | a :: as, i :: is => a.pt i :: gridPt as is
  | _, _ => []

/-- `v` is a multi-index of the grid -/
def inGrid : List Axis → List Int → Prop
  | a :: as, i :: is => 0 ≤ i ∧ i < (a.npt : Int) ∧ inGrid as is
  | [], [] => True
  | _, _ => False

/-- Fortran-order position of a multi-index -/
def ravel : List Axis → List Int → Int
  | a :: as, i :: is => i + (a.npt : Int) * ravel as is
  | _, _ => 0

theorem dot_strides : ∀ (axes : List Axis) (v : List Int) (s : Nat), axes.length = v.length →
    dotI v (strides s (axes.map (·.npt))) = (s : Int) * ravel axes v
  | [], [], s, _ => by simp [dotI, ravel]
  | [], _ :: _, _, h => by simp at h
  | _ :: _, [], _, h => by simp at h
  | a :: as, i :: is, s, h => by
    have hl : as.length = is.length := by simpa using h
    simp only [List.map_cons, strides, dotI, ravel]
    rw [dot_strides as is (s * a.npt) hl]
    push_cast
    ring

theorem flatMap_block {α β : Type} (g : α → List β) (n : Nat) (hg : ∀ a, (g a).length = n) :
    ∀ (l : List α) (i j : Nat), i < n → (l.flatMap g)[i + n * j]? = (l[j]?).bind (fun a => (g a)[i]?)
  | [], i, j, _ => by simp
  | a :: l, i, 0, hi => by
    simp only [List.flatMap_cons, Nat.mul_zero, Nat.add_zero, List.getElem?_cons_zero, Option.bind_some]
    exact List.getElem?_append_left (by rw [hg]; exact hi)
  | a :: l, i, j + 1, hi => by
    simp only [List.flatMap_cons, List.getElem?_cons_succ]
    rw [List.getElem?_append_right (by rw [hg]; nlinarith), hg,
      show i + n * (j + 1) - n = i + n * j by rw [Nat.mul_succ]; omega]
    exact flatMap_block g n hg l i j hi

theorem flatMap_block_length {α β : Type} (g : α → List β) (n : Nat) (hg : ∀ a, (g a).length = n) :
    ∀ (l : List α), (l.flatMap g).length = n * l.length
  | [] => by simp
  | a :: l => by
    simp only [List.flatMap_cons, List.length_append, hg, List.length_cons,
      flatMap_block_length g n hg l]
    ring

theorem coords_length_cons (a : Axis) (rest : List Axis) :
    (coords (a :: rest)).length = a.npt * (coords rest).length := by
  simp only [coords]
  exact flatMap_block_length _ a.npt (fun ys => by simp) _

/-- the value stored at the linear index of a multi-index of the grid is the value at that grid
    point: `zip(*self._coord)` enumerates the grid in Fortran order -/
theorem coords_get : ∀ (axes : List Axis) (v : List Int), inGrid axes v →
    0 ≤ ravel axes v ∧ ravel axes v < ((coords axes).length : Int) ∧
      (coords axes)[(ravel axes v).toNat]? = some (gridPt axes v)
  | [], [], _ => by simp [ravel, coords, gridPt]
  | [], _ :: _, h => by simp [inGrid] at h
  | _ :: _, [], h => by simp [inGrid] at h
  | a :: as, i :: is, h => by
    obtain ⟨hi0, hin, hrest⟩ := h
    obtain ⟨hr0, hrl, hget⟩ := coords_get as is hrest
    obtain ⟨n, rfl⟩ : ∃ n : Nat, i = n := ⟨i.toNat, by omega⟩
    obtain ⟨m, hm⟩ : ∃ m : Nat, ravel as is = m := ⟨(ravel as is).toNat, by omega⟩
    have hn : n < a.npt := by exact_mod_cast hin
    have hml : m < (coords as).length := by rw [hm] at hrl; exact_mod_cast hrl
    rw [hm, Int.toNat_natCast] at hget
    have hrav : ravel (a :: as) ((n : Int) :: is) = ((n + a.npt * m : Nat) : Int) := by
      simp only [ravel, hm]; push_cast; ring
    rw [hrav, coords_length_cons]
    refine ⟨by omega, ?_, ?_⟩
    · have : n + a.npt * m < a.npt * (coords as).length := by nlinarith
      exact_mod_cast this
    · rw [Int.toNat_natCast]
      simp only [coords]
      rw [flatMap_block _ a.npt (fun ys => by simp) _ n m hn, hget]
      simp [hn, gridPt]

end PorepyVerif.C41
