/-
C41 — helper lemmas (property theorems are in Props.lean).
-/
import Mathlib.Tactic.Linarith
import Mathlib.Tactic.Ring
import Mathlib.Tactic.FieldSimp
import Mathlib.Algebra.Order.Field.Rat
import PorepyVerif.C41.Model
import PorepyVerif.C46.Lemmas

namespace PorepyVerif.C41
open PorepyVerif.C46 (Coord Store)
open PorepyVerif

/-! ### sums -/

theorem sumQ_append (l₁ l₂ : List Rat) : sumQ (l₁ ++ l₂) = sumQ l₁ + sumQ l₂ := by
  induction l₁ with
  | nil => simp only [List.nil_append, sumQ]; grind
  | cons a l ih => simp only [List.cons_append, sumQ, ih]; grind

theorem sumQ_map_mul_left {α : Type} (c : Rat) (f : α → Rat) (l : List α) :
    sumQ (l.map (fun a => c * f a)) = c * sumQ (l.map f) := by
  induction l with
  | nil => simp [sumQ]
  | cons a l ih => simp only [List.map_cons, sumQ, ih]; grind

theorem sumQ_map_congr {α : Type} (f g : α → Rat) (l : List α) (h : ∀ a ∈ l, f a = g a) :
    sumQ (l.map f) = sumQ (l.map g) := by
  induction l with
  | nil => rfl
  | cons a l ih =>
    simp only [List.map_cons, sumQ]
    rw [h a (List.mem_cons_self), ih (fun b hb => h b (List.mem_cons_of_mem _ hb))]

/-! ### the tensor-product sum in recursive form -/

/-- `Σ_{vertices v of the cell with base b} Π_k (weight of v_k) · g v`, one axis at a time -/
def wsum : List (Rat × Int) → (List Int → Rat) → Rat
  | [], g => g []
  | (w, b) :: rest, g =>
    (1 - w) * wsum rest (fun is => g (b :: is)) + w * wsum rest (fun is => g ((b + 1) :: is))

/-- the gradient sum: on axis `k` the weights are `-1` (left) and `+1` (right) -/
def gsum : Nat → List (Rat × Int) → (List Int → Rat) → Rat
  | _, [], _ => 0
  | 0, (_, b) :: rest, g =>
    wsum rest (fun is => g ((b + 1) :: is)) - wsum rest (fun is => g (b :: is))
  | k + 1, (w, b) :: rest, g =>
    (1 - w) * gsum k rest (fun is => g (b :: is)) + w * gsum k rest (fun is => g ((b + 1) :: is))

/-- `v` is a vertex of the cell whose base vertex is given by the second components of `wb` -/
inductive InCube : List (Rat × Int) → List Int → Prop
  | nil : InCube [] []
  | cons {p : Rat × Int} {i : Int} {rest : List (Rat × Int)} {v : List Int} :
      (i = p.2 ∨ i = p.2 + 1) → InCube rest v → InCube (p :: rest) (i :: v)

theorem wsum_congr (wb : List (Rat × Int)) (g g' : List Int → Rat)
    (h : ∀ v, InCube wb v → g v = g' v) :
    wsum wb g = wsum wb g' := by
  induction wb generalizing g g' with
  | nil => exact h [] .nil
  | cons p rest ih =>
    obtain ⟨w, b⟩ := p
    simp only [wsum]
    rw [ih (fun is => g (b :: is)) (fun is => g' (b :: is)) (fun v hv => h (b :: v) (.cons (Or.inl rfl) hv)),
        ih (fun is => g ((b + 1) :: is)) (fun is => g' ((b + 1) :: is))
          (fun v hv => h ((b + 1) :: v) (.cons (Or.inr rfl) hv))]

theorem wsum_const (wb : List (Rat × Int)) (c : Rat) : wsum wb (fun _ => c) = c := by
  induction wb with
  | nil => rfl
  | cons p rest ih => obtain ⟨w, b⟩ := p; simp only [wsum, ih]; grind

theorem wsum_lin (wb : List (Rat × Int)) (g₁ g₂ : List Int → Rat) (c : Rat) :
    wsum wb (fun v => g₁ v + c * g₂ v) = wsum wb g₁ + c * wsum wb g₂ := by
  induction wb generalizing g₁ g₂ with
  | nil => rfl
  | cons p rest ih =>
    obtain ⟨w, b⟩ := p
    simp only [wsum]
    rw [ih (fun is => g₁ (b :: is)) (fun is => g₂ (b :: is)),
        ih (fun is => g₁ ((b + 1) :: is)) (fun is => g₂ ((b + 1) :: is))]
    grind

theorem gsum_lin (k : Nat) (wb : List (Rat × Int)) (g₁ g₂ : List Int → Rat) (c : Rat) :
    gsum k wb (fun v => g₁ v + c * g₂ v) = gsum k wb g₁ + c * gsum k wb g₂ := by
  induction wb generalizing k g₁ g₂ with
  | nil => cases k <;> simp only [gsum] <;> grind
  | cons p rest ih =>
    obtain ⟨w, b⟩ := p
    cases k with
    | zero =>
      simp only [gsum]
      rw [wsum_lin rest (fun is => g₁ (b :: is)) (fun is => g₂ (b :: is)),
          wsum_lin rest (fun is => g₁ ((b + 1) :: is)) (fun is => g₂ ((b + 1) :: is))]
      grind
    | succ k =>
      simp only [gsum]
      rw [ih k (fun is => g₁ (b :: is)) (fun is => g₂ (b :: is)),
          ih k (fun is => g₁ ((b + 1) :: is)) (fun is => g₂ ((b + 1) :: is))]
      grind

theorem gsum_const (k : Nat) (wb : List (Rat × Int)) (c : Rat) : gsum k wb (fun _ => c) = 0 := by
  induction wb generalizing k with
  | nil => cases k <;> rfl
  | cons p rest ih =>
    obtain ⟨w, b⟩ := p
    cases k with
    | zero => simp only [gsum, wsum_const]; grind
    | succ k => simp only [gsum, ih]; grind

/-! ### the enumerated sums of the code are the recursive sums -/

theorem enum_wsum : ∀ (bs : List Int) (ws : List Rat) (g : List Int → Rat), ws.length = bs.length →
    sumQ ((incrs bs.length).map (fun incr => vertexWeight ws incr * g (addIncr bs incr))) =
      wsum (ws.zip bs) g
  | [], ws, g, h => by
    cases ws with
    | nil => simp [incrs, sumQ, vertexWeight, addIncr, wsum]
    | cons _ _ => simp at h
  | b :: bs, [], g, h => by simp at h
  | b :: bs, w :: ws, g, h => by
    have hl : ws.length = bs.length := by simpa using h
    have ih0 := enum_wsum bs ws (fun is => g (b :: is)) hl
    have ih1 := enum_wsum bs ws (fun is => g ((b + 1) :: is)) hl
    simp only [List.length_cons, incrs, List.map_append, List.map_map, sumQ_append, List.zip_cons_cons, wsum]
    rw [← ih0, ← ih1, ← sumQ_map_mul_left, ← sumQ_map_mul_left]
    congr 1
    · apply sumQ_map_congr
      intro is _
      simp only [Function.comp, vertexWeight, addIncr, List.zipWith_cons_cons]
      push_cast
      rw [show b + 0 = b by omega]
      ring
    · apply sumQ_map_congr
      intro is _
      simp only [Function.comp, vertexWeight, addIncr, List.zipWith_cons_cons]
      push_cast
      ring

theorem enum_gsum : ∀ (k : Nat) (bs : List Int) (ws : List Rat) (g : List Int → Rat),
    ws.length = bs.length → k < bs.length →
    sumQ ((incrs bs.length).map (fun incr => gradWeight k ws incr * g (addIncr bs incr))) =
      gsum k (ws.zip bs) g
  | _, [], _, _, _, hk => by simp at hk
  | _, b :: bs, [], g, h, _ => by simp at h
  | 0, b :: bs, w :: ws, g, h, _ => by
    have hl : ws.length = bs.length := by simpa using h
    have ih0 := enum_wsum bs ws (fun is => g (b :: is)) hl
    have ih1 := enum_wsum bs ws (fun is => g ((b + 1) :: is)) hl
    simp only [List.length_cons, incrs, List.map_append, List.map_map, sumQ_append, List.zip_cons_cons, gsum]
    rw [← ih0, ← ih1]
    have e0 : sumQ (List.map ((fun incr => gradWeight 0 (w :: ws) incr * g (addIncr (b :: bs) incr)) ∘ fun x => 0 :: x)
        (incrs bs.length)) = (-1) * sumQ ((incrs bs.length).map (fun incr => vertexWeight ws incr * g (b :: addIncr bs incr))) := by
      rw [← sumQ_map_mul_left]
      apply sumQ_map_congr
      intro is _
      simp only [Function.comp, gradWeight, addIncr, List.zipWith_cons_cons]
      push_cast
      rw [show b + 0 = b by omega]
      ring
    have e1 : sumQ (List.map ((fun incr => gradWeight 0 (w :: ws) incr * g (addIncr (b :: bs) incr)) ∘ fun x => 1 :: x)
        (incrs bs.length)) = sumQ ((incrs bs.length).map (fun incr => vertexWeight ws incr * g ((b + 1) :: addIncr bs incr))) := by
      apply sumQ_map_congr
      intro is _
      simp only [Function.comp, gradWeight, addIncr, List.zipWith_cons_cons]
      push_cast
      ring
    rw [e0, e1]
    ring
  | k + 1, b :: bs, w :: ws, g, h, hk => by
    have hl : ws.length = bs.length := by simpa using h
    have hk' : k < bs.length := by simpa using hk
    have ih0 := enum_gsum k bs ws (fun is => g (b :: is)) hl hk'
    have ih1 := enum_gsum k bs ws (fun is => g ((b + 1) :: is)) hl hk'
    simp only [List.length_cons, incrs, List.map_append, List.map_map, sumQ_append, List.zip_cons_cons, gsum]
    rw [← ih0, ← ih1, ← sumQ_map_mul_left, ← sumQ_map_mul_left]
    congr 1
    · apply sumQ_map_congr
      intro is _
      simp only [Function.comp, gradWeight, addIncr, List.zipWith_cons_cons]
      push_cast
      rw [show b + 0 = b by omega]
      ring
    · apply sumQ_map_congr
      intro is _
      simp only [Function.comp, gradWeight, addIncr, List.zipWith_cons_cons]
      push_cast
      ring

/-! ### linear indices and the layout of the table -/

/-- `Σ v_k · stride_k` -/
def dotI : List Int → List Nat → Int
  | v :: vs, s :: ss => v * (s : Int) + dotI vs ss
  | _, _ => 0

theorem linIndex_eq_dot : ∀ (b incr : List Int) (ss : List Nat),
    linIndex b incr ss = dotI (addIncr b incr) ss
  | [], _, _ => by simp [linIndex, addIncr, dotI]
  | _ :: _, [], _ => by simp [linIndex, addIncr, dotI]
  | _ :: _, _ :: _, [] => by simp [linIndex, addIncr, dotI]
  | b :: bs, i :: is, s :: ss => by
    simp only [linIndex, addIncr, List.zipWith_cons_cons, dotI]
    rw [linIndex_eq_dot bs is ss]
    rfl

/-- the grid point with multi-index `v` -/
def gridPt : List Axis → List Int → List Rat
  | a :: as, i :: is => a.pt i :: gridPt as is
  | _, _ => []

/-- Fortran-order position of a multi-index -/
def ravel : List Axis → List Int → Int
  | a :: as, i :: is => i + (a.npt : Int) * ravel as is
  | _, _ => 0

theorem dot_strides : ∀ (axes : List Axis) (v : List Int) (s : Nat), axes.length = v.length →
    dotI v (strides s (axes.map (·.npt))) = (s : Int) * ravel axes v
  | [], [], s, _ => by simp [dotI, ravel]
  | [], _ :: _, _, h => by simp at h
  | _ :: _, [], _, h => by simp at h
  | a :: as, i :: is, s, h => by
    have hl : as.length = is.length := by simpa using h
    simp only [List.map_cons, strides, dotI, ravel]
    rw [dot_strides as is (s * a.npt) hl]
    push_cast
    ring

theorem flatMap_block {α β : Type} (g : α → List β) (n : Nat) (hg : ∀ a, (g a).length = n) :
    ∀ (l : List α) (i j : Nat), i < n → (l.flatMap g)[i + n * j]? = (l[j]?).bind (fun a => (g a)[i]?)
  | [], i, j, _ => by simp
  | a :: l, i, 0, hi => by
    simp only [List.flatMap_cons, Nat.mul_zero, Nat.add_zero, List.getElem?_cons_zero, Option.bind_some]
    exact List.getElem?_append_left (by rw [hg]; exact hi)
  | a :: l, i, j + 1, hi => by
    simp only [List.flatMap_cons, List.getElem?_cons_succ]
    rw [List.getElem?_append_right (by rw [hg]; nlinarith), hg,
      show i + n * (j + 1) - n = i + n * j by rw [Nat.mul_succ]; omega]
    exact flatMap_block g n hg l i j hi

theorem flatMap_block_length {α β : Type} (g : α → List β) (n : Nat) (hg : ∀ a, (g a).length = n) :
    ∀ (l : List α), (l.flatMap g).length = n * l.length
  | [] => by simp
  | a :: l => by
    simp only [List.flatMap_cons, List.length_append, hg, List.length_cons,
      flatMap_block_length g n hg l]
    ring

theorem coords_length_cons (a : Axis) (rest : List Axis) :
    (coords (a :: rest)).length = a.npt * (coords rest).length := by
  simp only [coords]
  exact flatMap_block_length _ a.npt (fun ys => by simp) _

/-- the value stored at the linear index of a multi-index of the grid is the value at that grid
    point: `zip(*self._coord)` enumerates the grid in Fortran order -/
theorem coords_get : ∀ (axes : List Axis) (v : List Int), inGrid axes v →
    0 ≤ ravel axes v ∧ ravel axes v < ((coords axes).length : Int) ∧
      (coords axes)[(ravel axes v).toNat]? = some (gridPt axes v)
  | [], [], _ => by simp [ravel, coords, gridPt]
  | [], _ :: _, h => by simp [inGrid] at h
  | _ :: _, [], h => by simp [inGrid] at h
  | a :: as, i :: is, h => by
    obtain ⟨hi0, hin, hrest⟩ := h
    obtain ⟨hr0, hrl, hget⟩ := coords_get as is hrest
    obtain ⟨n, rfl⟩ : ∃ n : Nat, i = n := ⟨i.toNat, by omega⟩
    obtain ⟨m, hm⟩ : ∃ m : Nat, ravel as is = m := ⟨(ravel as is).toNat, by omega⟩
    have hn : n < a.npt := by exact_mod_cast hin
    have hml : m < (coords as).length := by rw [hm] at hrl; exact_mod_cast hrl
    rw [hm, Int.toNat_natCast] at hget
    have hrav : ravel (a :: as) ((n : Int) :: is) = ((n + a.npt * m : Nat) : Int) := by
      simp only [ravel, hm]; push_cast; ring
    rw [hrav, coords_length_cons]
    refine ⟨by omega, ?_, ?_⟩
    · have : n + a.npt * m < a.npt * (coords as).length := by nlinarith
      exact_mod_cast this
    · rw [Int.toNat_natCast]
      simp only [coords]
      rw [flatMap_block _ a.npt (fun ys => by simp) _ n m hn, hget]
      simp [hn, gridPt]

/-! ### exactness of the tensor-product sums on multilinear functions -/

theorem pt_succ (a : Axis) (b : Int) : a.pt (b + 1) = a.pt b + a.h := by
  unfold Axis.pt; push_cast; ring

theorem weight_mul_h (a : Axis) (x : Rat) (b : Int) (hh : a.h ≠ 0) :
    a.rightWeight x b * a.h = x - a.pt b := by
  unfold Axis.rightWeight; field_simp

/-- Interpolation in ANY cell of the (infinite) grid reproduces a multilinear function. -/
theorem wsum_exact (t : ML) : ∀ (axes : List Axis) (xs : List Rat) (bs : List Int),
    axes.length = xs.length → xs.length = bs.length → (∀ a ∈ axes, a.h ≠ 0) →
    wsum ((rightWeights axes xs bs).zip bs) (fun v => t.eval (gridPt axes v)) = t.eval xs := by
  induction t with
  | const c => intro axes xs bs _ _ _; simp only [ML.eval]; exact wsum_const _ c
  | node a b iha ihb =>
    intro axes xs bs h1 h2 hh
    match axes, xs, bs, h1, h2 with
    | [], [], [], _, _ => simp [rightWeights, wsum, gridPt]
    | ax :: axes, x :: xs, b0 :: bs, h1, h2 =>
      have h1' : axes.length = xs.length := by simpa using h1
      have h2' : xs.length = bs.length := by simpa using h2
      have hh' : ∀ a ∈ axes, a.h ≠ 0 := fun a ha => hh a (List.mem_cons_of_mem _ ha)
      have hw := weight_mul_h ax x b0 (hh ax List.mem_cons_self)
      simp only [rightWeights, List.zip_cons_cons, wsum, gridPt, ML.eval]
      rw [wsum_lin, wsum_lin, iha axes xs bs h1' h2' hh', ihb axes xs bs h1' h2' hh', pt_succ]
      generalize ax.rightWeight x b0 = w at hw
      have : x = ax.pt b0 + w * ax.h := by rw [hw]; ring
      rw [this]; ring

/-- The difference quotient along axis `k` in ANY cell is the partial derivative of a multilinear
    function (times the mesh size). -/
theorem gsum_exact (t : ML) : ∀ (k : Nat) (axes : List Axis) (xs : List Rat) (bs : List Int),
    axes.length = xs.length → xs.length = bs.length → (∀ a ∈ axes, a.h ≠ 0) →
    gsum k ((rightWeights axes xs bs).zip bs) (fun v => t.eval (gridPt axes v)) =
      (match axes[k]? with | some ax => ax.h | none => 0) * t.deriv k xs := by
  induction t with
  | const c =>
    intro k axes xs bs _ _ _
    simp only [ML.eval, ML.deriv, gsum_const]; ring
  | node a b iha ihb =>
    intro k axes xs bs h1 h2 hh
    match axes, xs, bs, h1, h2 with
    | [], [], [], _, _ => cases k <;> simp [rightWeights, gsum, ML.deriv]
    | ax :: axes, x :: xs, b0 :: bs, h1, h2 =>
      have h1' : axes.length = xs.length := by simpa using h1
      have h2' : xs.length = bs.length := by simpa using h2
      have hh' : ∀ a ∈ axes, a.h ≠ 0 := fun a ha => hh a (List.mem_cons_of_mem _ ha)
      cases k with
      | zero =>
        simp only [rightWeights, List.zip_cons_cons, gsum, gridPt, ML.eval, ML.deriv,
          List.getElem?_cons_zero]
        rw [wsum_lin, wsum_lin, wsum_exact a axes xs bs h1' h2' hh',
          wsum_exact b axes xs bs h1' h2' hh', pt_succ]
        ring
      | succ k =>
        have hw := weight_mul_h ax x b0 (hh ax List.mem_cons_self)
        simp only [rightWeights, List.zip_cons_cons, gsum, gridPt, ML.eval, ML.deriv,
          List.getElem?_cons_succ]
        rw [gsum_lin, gsum_lin, iha k axes xs bs h1' h2' hh', ihb k axes xs bs h1' h2' hh', pt_succ]
        generalize ax.rightWeight x b0 = w at hw
        have : x = ax.pt b0 + w * ax.h := by rw [hw]; ring
        rw [this]; ring

/-! ### one axis: the base vertex and the weights are in range -/

theorem h_pos (a : Axis) (hn : 2 ≤ a.npt) (hlh : a.low < a.high) : 0 < a.h := by
  unfold Axis.h
  have : (2 : Rat) ≤ (a.npt : Rat) := by exact_mod_cast hn
  apply div_pos <;> linarith

theorem axis_range (a : Axis) (x : Rat) (hn : 2 ≤ a.npt) (hlh : a.low < a.high)
    (hx : a.low ≤ x) (hx2 : x ≤ a.high) :
    0 ≤ a.base x ∧ a.base x ≤ (a.npt : Int) - 2 ∧
      0 ≤ a.rightWeight x (a.base x) ∧ a.rightWeight x (a.base x) ≤ 1 := by
  have hh := h_pos a hn hlh
  have hq0 : 0 ≤ (x - a.low) / a.h := div_nonneg (by linarith) hh.le
  have hf0 : 0 ≤ ((x - a.low) / a.h).floor := Rat.le_floor_iff.mpr (by simpa using hq0)
  have hmax : max ((a.npt : Int) - 2) 0 = (a.npt : Int) - 2 := by omega
  have hfl := Rat.floor_le ((x - a.low) / a.h)
  have hfl2 := Rat.lt_floor_add_one ((x - a.low) / a.h)
  have hw : a.rightWeight x (a.base x) = (x - a.low) / a.h - (a.base x : Rat) := by
    unfold Axis.rightWeight Axis.pt
    field_simp
    ring
  have hqn : (x - a.low) / a.h ≤ (a.npt : Rat) - 1 := by
    rw [div_le_iff₀ hh]
    have : ((a.npt : Rat) - 1) * a.h = a.high - a.low := by
      unfold Axis.h
      have h2 : (2 : Rat) ≤ (a.npt : Rat) := by exact_mod_cast hn
      have hne : (a.npt : Rat) - 1 ≠ 0 := by intro h; linarith
      field_simp
    linarith
  refine ⟨?_, ?_, ?_, ?_⟩
  · unfold Axis.base; rw [hmax]; omega
  · unfold Axis.base; rw [hmax]; omega
  · rw [hw]
    have : a.base x ≤ ((x - a.low) / a.h).floor := by unfold Axis.base; omega
    have : (a.base x : Rat) ≤ (((x - a.low) / a.h).floor : Rat) := by exact_mod_cast this
    linarith
  · rw [hw]
    unfold Axis.base; rw [hmax]
    rcases le_total ((x - a.low) / a.h).floor ((a.npt : Int) - 2) with h | h
    · rw [min_eq_left h]
      push_cast at hfl2
      linarith
    · rw [min_eq_right h]
      push_cast
      linarith

/-! ### the standard table, row by row and point by point -/

theorem mapM_ok {α β : Type} (f : α → Except Err β) (g : α → β) :
    ∀ (l : List α), (∀ a ∈ l, f a = .ok (g a)) → l.mapM f = .ok (l.map g)
  | [], _ => rfl
  | a :: l, h => by
    rw [List.mapM_cons, h a List.mem_cons_self,
      mapM_ok f g l (fun b hb => h b (List.mem_cons_of_mem _ hb))]
    rfl

theorem mem_incrs_inCube : ∀ (bs : List Int) (ws : List Rat), ws.length = bs.length →
    ∀ incr ∈ incrs bs.length, InCube (ws.zip bs) (addIncr bs incr)
  | [], ws, h, incr, hi => by
    cases ws with
    | nil => simp [incrs] at hi; subst hi; exact .nil
    | cons _ _ => simp at h
  | b :: bs, [], h, _, _ => by simp at h
  | b :: bs, w :: ws, h, incr, hi => by
    have hl : ws.length = bs.length := by simpa using h
    simp only [List.length_cons, incrs, List.mem_append, List.mem_map] at hi
    rcases hi with ⟨is, his, rfl⟩ | ⟨is, his, rfl⟩
    · exact .cons (Or.inl (by simp)) (mem_incrs_inCube bs ws hl is his)
    · exact .cons (Or.inr (by simp)) (mem_incrs_inCube bs ws hl is his)

theorem inGrid_length : ∀ (axes : List Axis) (v : List Int), inGrid axes v → axes.length = v.length
  | [], [], _ => rfl
  | [], _ :: _, h => by simp [inGrid] at h
  | _ :: _, [], h => by simp [inGrid] at h
  | a :: as, i :: is, h => by simp [inGrid_length as is h.2.2]

/-- value lookup of a grid vertex in a table row -/
theorem row_lookup (axes : List Axis) (f : List Rat → Rat) (v : List Int) (hv : inGrid axes v) :
    let k := dotI v (strides 1 (axes.map (·.npt)))
    0 ≤ k ∧ k < (((coords axes).map f).length : Int) ∧ ((coords axes).map f).getD k.toNat 0 = f (gridPt axes v) := by
  intro k
  have hk : k = ravel axes v := by
    show dotI v (strides 1 (axes.map (·.npt))) = _
    rw [dot_strides axes v 1 (inGrid_length axes v hv)]; simp
  obtain ⟨h0, h1, h2⟩ := coords_get axes v hv
  rw [hk, List.length_map]
  refine ⟨h0, h1, ?_⟩
  rw [List.getD_eq_getElem?_getD, List.getElem?_map, h2]
  rfl

theorem interpRow_eq (axes : List Axis) (f : List Rat → Rat) (b : List Int) (rw : List Rat)
    (hl : rw.length = b.length) (hc : ∀ v, InCube (rw.zip b) v → inGrid axes v) :
    interpRow ((coords axes).map f) (strides 1 (axes.map (·.npt))) b rw =
      .ok (wsum (rw.zip b) (fun v => f (gridPt axes v))) := by
  unfold interpRow
  simp only [List.any_map, List.map_map]
  have hall : ∀ incr ∈ incrs b.length, inGrid axes (addIncr b incr) :=
    fun incr hi => hc _ (mem_incrs_inCube b rw hl incr hi)
  rw [if_neg]
  · congr 1
    rw [← enum_wsum b rw _ hl]
    apply sumQ_map_congr
    intro incr hi
    obtain ⟨_, h1, h2⟩ := row_lookup axes f _ (hall incr hi)
    simp only [Function.comp, linIndex_eq_dot]
    rw [if_pos h1, h2]
  · rw [List.any_eq_true]
    rintro ⟨incr, hi, hbad⟩
    obtain ⟨_, h1, _⟩ := row_lookup axes f _ (hall incr hi)
    simp only [Function.comp, linIndex_eq_dot, Bool.and_eq_true, Bool.not_eq_true', decide_eq_false_iff_not] at hbad
    exact hbad.1 h1

theorem gradRow_eq (axes : List Axis) (f : List Rat → Rat) (b : List Int) (rw : List Rat) (k : Nat) (hk : Rat)
    (hl : rw.length = b.length) (hkl : k < b.length) (hc : ∀ v, InCube (rw.zip b) v → inGrid axes v) :
    gradRow ((coords axes).map f) (strides 1 (axes.map (·.npt))) b rw k hk =
      .ok (gsum k (rw.zip b) (fun v => f (gridPt axes v)) / hk) := by
  unfold gradRow
  simp only [List.any_map, List.map_map]
  have hall : ∀ incr ∈ incrs b.length, inGrid axes (addIncr b incr) :=
    fun incr hi => hc _ (mem_incrs_inCube b rw hl incr hi)
  rw [if_neg]
  · congr 2
    rw [← enum_gsum k b rw _ hl hkl]
    apply sumQ_map_congr
    intro incr hi
    obtain ⟨_, _, h2⟩ := row_lookup axes f _ (hall incr hi)
    simp only [Function.comp, linIndex_eq_dot]
    rw [h2]
  · rw [List.any_eq_true]
    rintro ⟨incr, hi, hbad⟩
    obtain ⟨h0, h1, _⟩ := row_lookup axes f _ (hall incr hi)
    simp only [Function.comp, linIndex_eq_dot, Bool.not_eq_true', Bool.and_eq_false_iff, decide_eq_false_iff_not] at hbad
    rcases hbad with h | h
    · exact h h0
    · exact h h1


theorem inRange_iff (a : Axis) (x : Rat) : a.inRange x = true ↔ a.low ≤ x ∧ x ≤ a.high := by
  unfold Axis.inRange
  simp only [Bool.not_eq_true', Bool.or_eq_false_iff, decide_eq_false_iff_not, not_lt]

theorem tol_pos : 0 < tol := by unfold tol; norm_num

theorem point_facts : ∀ (axes : List Axis) (x : List Rat), WF axes → axes.length = x.length →
    inBox axes x = true →
    (bases axes x).length = x.length ∧ (rightWeights axes x (bases axes x)).length = x.length ∧
    weightsOk (rightWeights axes x (bases axes x)) = true ∧
    (∀ w ∈ rightWeights axes x (bases axes x), 0 ≤ w ∧ w ≤ 1) ∧
    ∀ v, InCube ((rightWeights axes x (bases axes x)).zip (bases axes x)) v → inGrid axes v
  | [], [], _, _, _ => by
    refine ⟨rfl, rfl, rfl, by simp [rightWeights], ?_⟩
    intro v hv
    cases hv
    trivial
  | [], _ :: _, _, h, _ => by simp at h
  | _ :: _, [], _, h, _ => by simp at h
  | a :: as, x :: xs, hwf, hl, hbox => by
    have hl' : as.length = xs.length := by simpa using hl
    simp only [inBox, Bool.and_eq_true] at hbox
    obtain ⟨hr, hbox'⟩ := hbox
    rw [inRange_iff] at hr
    obtain ⟨hn, hlh⟩ := hwf a List.mem_cons_self
    obtain ⟨hb0, hb1, hw0, hw1⟩ := axis_range a x hn hlh hr.1 hr.2
    obtain ⟨i1, i2, i3, i4, i5⟩ := point_facts as xs (fun b hb => hwf b (List.mem_cons_of_mem _ hb)) hl' hbox'
    have ht := tol_pos
    refine ⟨by simp [bases, i1], by simp [bases, rightWeights, i2], ?_, ?_, ?_⟩
    · simp only [bases, rightWeights, weightsOk, List.all_cons, Bool.and_eq_true, decide_eq_true_eq]
      refine ⟨⟨by linarith, by linarith⟩, i3⟩
    · intro w hw
      simp only [bases, rightWeights, List.mem_cons] at hw
      rcases hw with rfl | hw
      · exact ⟨hw0, hw1⟩
      · exact i4 w hw
    · intro v hv
      simp only [bases, rightWeights, List.zip_cons_cons] at hv
      cases hv with
      | cons hi hrest =>
        refine ⟨?_, ?_, i5 _ hrest⟩
        · rcases hi with rfl | rfl <;> simp only <;> omega
        · rcases hi with rfl | rfl <;> simp only <;> omega


theorem mapM_map_ok {α β γ : Type} (h : α → β) (f : β → Except Err γ) (g : α → γ) :
    ∀ (l : List α), (∀ a ∈ l, f (h a) = .ok (g a)) → (l.map h).mapM f = .ok (l.map g)
  | [], _ => rfl
  | a :: l, hh => by
    rw [List.map_cons, List.mapM_cons, hh a List.mem_cons_self,
      mapM_map_ok h f g l (fun b hb => hh b (List.mem_cons_of_mem _ hb))]
    rfl

theorem WF.h_ne {axes : List Axis} (hwf : WF axes) : ∀ a ∈ axes, a.h ≠ 0 :=
  fun a ha => (h_pos a (hwf a ha).1 (hwf a ha).2).ne'

/-- the two guards of `interpolate` / `gradient` pass for points of the closed box -/
theorem guards_pass (axes : List Axis) (xs : List (List Rat)) (hwf : WF axes)
    (hx : ∀ x ∈ xs, x.length = axes.length ∧ inBox axes x = true) :
    xs.all (inBox axes) = true ∧
    (xs.map (fun x => (bases axes x, rightWeights axes x (bases axes x)))).all (fun p => weightsOk p.2) = true := by
  constructor
  · exact List.all_eq_true.mpr (fun x hx' => (hx x hx').2)
  · rw [List.all_map, List.all_eq_true]
    intro x hx'
    exact (point_facts axes x hwf (hx x hx').1.symm (hx x hx').2).2.2.1

theorem std_interp_point (axes : List Axis) (t : ML) (x : List Rat) (hwf : WF axes)
    (hl : x.length = axes.length) (hb : inBox axes x = true) :
    interpRow ((coords axes).map t.eval) (strides 1 (axes.map (·.npt))) (bases axes x)
      (rightWeights axes x (bases axes x)) = .ok (t.eval x) := by
  obtain ⟨i1, i2, _, _, i5⟩ := point_facts axes x hwf hl.symm hb
  rw [interpRow_eq axes t.eval _ _ (by rw [i1, i2]) i5,
    wsum_exact t axes x _ hl.symm i1.symm hwf.h_ne]

theorem std_grad_point (axes : List Axis) (t : ML) (x : List Rat) (k : Nat) (ax : Axis) (hwf : WF axes)
    (hk : axes[k]? = some ax) (hl : x.length = axes.length) (hb : inBox axes x = true) :
    gradRow ((coords axes).map t.eval) (strides 1 (axes.map (·.npt))) (bases axes x)
      (rightWeights axes x (bases axes x)) k ax.h = .ok (t.deriv k x) := by
  obtain ⟨i1, i2, _, _, i5⟩ := point_facts axes x hwf hl.symm hb
  have hkl : k < axes.length := by
    rcases Nat.lt_or_ge k axes.length with h | h
    · exact h
    · rw [List.getElem?_eq_none h] at hk; cases hk
  rw [gradRow_eq axes t.eval _ _ k ax.h (by rw [i1, i2]) (by rw [i1, hl]; exact hkl) i5,
    gsum_exact t k axes x _ hl.symm i1.symm hwf.h_ne, hk]
  have : ax.h ≠ 0 := hwf.h_ne ax (List.mem_of_getElem? hk)
  simp only
  congr 1
  field_simp

/-! ### storage-order facts about the C46 sparse array -/

theorem get1_map (F : Coord → Rat) : ∀ (K : List Coord) (c : Coord),
    C46.get1 (K.map (fun i => (i, F i))) c = if c ∈ K then some (F c) else none
  | [], c => by simp [C46.get1]
  | k :: K, c => by
    simp only [List.map_cons, C46.get1, List.mem_cons]
    by_cases h : k = c
    · subst h; simp
    · have : ¬ c = k := fun e => h e.symm
      simp only [h, if_false, this, false_or]
      exact get1_map F K c

theorem upsert_fresh (a : Bool) : ∀ (s : Store) (u : Coord) (v : Rat), u ∉ s.map (·.1) →
    C46.upsert a s u v = s ++ [(u, v)]
  | [], u, v, _ => rfl
  | p :: s, u, v, h => by
    simp only [List.map_cons, List.mem_cons, not_or] at h
    have hp : ¬ p.1 = u := fun e => h.1 e.symm
    simp only [C46.upsert, if_neg hp, List.cons_append]
    rw [upsert_fresh a s u v h.2]

theorem foldl_upsert_fresh (a : Bool) (g : Coord → Rat) : ∀ (us : List Coord) (s : Store), us.Nodup →
    (∀ u ∈ us, u ∉ s.map (·.1)) →
    us.foldl (fun acc u => C46.upsert a acc u (g u)) s = s ++ us.map (fun u => (u, g u))
  | [], s, _, _ => by simp
  | u :: us, s, hn, hf => by
    rw [List.nodup_cons] at hn
    rw [List.foldl_cons, upsert_fresh a s u (g u) (hf u List.mem_cons_self),
      foldl_upsert_fresh a g us _ hn.2]
    · simp
    · intro u' hu'
      simp only [List.map_append, List.map_cons, List.map_nil, List.mem_append, List.mem_singleton, not_or]
      exact ⟨hf u' (List.mem_cons_of_mem _ hu'), fun e => hn.1 (e ▸ hu')⟩

theorem vals_map_fresh (F : Coord → Rat) (u : Coord) : ∀ (ks : List Coord), u ∉ ks →
    C46.vals u (ks.map (fun k => (k, F k))) = []
  | [], _ => rfl
  | k :: ks, h => by
    simp only [List.mem_cons, not_or] at h
    have : ¬ k = u := fun e => h.1 e.symm
    rw [List.map_cons, C46.vals_cons]
    simp only [this, if_false]
    exact vals_map_fresh F u ks h.2

theorem combine_map (F : Coord → Rat) : ∀ (ks : List Coord), ks.Nodup → ∀ u ∈ ks,
    C46.combine false (ks.map (fun k => (k, F k))) u = F u
  | [], _, u, hu => by simp at hu
  | k :: ks, hn, u, hu => by
    rw [List.nodup_cons] at hn
    unfold C46.combine
    simp only [Bool.false_eq_true, if_false]
    rw [List.map_cons, C46.vals_cons]
    by_cases h : k = u
    · subst h
      simp only [if_true]
      rw [vals_map_fresh F k ks hn.1]
      rfl
    · simp only [h, if_false]
      have hu' : u ∈ ks := by
        rcases List.mem_cons.mp hu with e | e
        · exact absurd e.symm h
        · exact e
      have := combine_map F ks hn.2 u hu'
      unfold C46.combine at this
      simpa using this

/-! lexicographic order -/

theorem lexLe_total : ∀ (a b : Coord), C46.lexLe a b = true ∨ C46.lexLe b a = true
  | [], _ => Or.inl rfl
  | _ :: _, [] => Or.inr rfl
  | a :: as, b :: bs => by
    simp only [C46.lexLe]
    rcases Int.lt_trichotomy a b with h | h | h
    · left; simp [h]
    · subst h; simp only [Int.lt_irrefl, if_false]; exact lexLe_total as bs
    · right; simp [h]

theorem lexLe_trans : ∀ (a b c : Coord), C46.lexLe a b = true → C46.lexLe b c = true → C46.lexLe a c = true
  | [], _, _, _, _ => rfl
  | _ :: _, [], _, h, _ => by simp [C46.lexLe] at h
  | _ :: _, _ :: _, [], _, h => by simp [C46.lexLe] at h
  | a :: as, b :: bs, c :: cs, h1, h2 => by
    simp only [C46.lexLe] at h1 h2 ⊢
    by_cases hab : a < b
    · by_cases hbc : b < c
      · have : a < c := by omega
        simp [this]
      · by_cases hcb : c < b
        · simp [hbc, hcb] at h2
        · have : a < c := by omega
          simp [this]
    · by_cases hba : b < a
      · simp [hab, hba] at h1
      · have hab' : a = b := by omega
        subst hab'
        simp only [Int.lt_irrefl, if_false] at h1
        by_cases hbc : a < c
        · simp [hbc]
        · by_cases hcb : c < a
          · simp [hbc, hcb] at h2
          · simp only [hbc, hcb, if_false] at h2 ⊢
            exact lexLe_trans as bs cs h1 h2

abbrev SortedL (l : List Coord) : Prop := l.Pairwise (fun a b => C46.lexLe a b = true)

theorem sorted_insertSorted (c : Coord) : ∀ (l : List Coord), SortedL l → SortedL (C46.insertSorted c l)
  | [], _ => by simp [C46.insertSorted, SortedL]
  | a :: l, h => by
    have h' := List.pairwise_cons.mp h
    unfold C46.insertSorted
    by_cases hca : C46.lexLe c a = true
    · rw [if_pos hca]
      refine List.pairwise_cons.mpr ⟨?_, h⟩
      intro b hb
      rcases List.mem_cons.mp hb with rfl | hb
      · exact hca
      · exact lexLe_trans c a b hca (h'.1 b hb)
    · rw [if_neg hca]
      have hac : C46.lexLe a c = true := (lexLe_total a c).resolve_right hca
      refine List.pairwise_cons.mpr ⟨?_, sorted_insertSorted c l h'.2⟩
      intro b hb
      rcases (C46.mem_insertSorted b c l).mp hb with rfl | hb
      · exact hac
      · exact h'.1 b hb

theorem sorted_isort : ∀ (l : List Coord), SortedL (C46.isort l)
  | [] => by simp [C46.isort, SortedL]
  | c :: l => sorted_insertSorted c _ (sorted_isort l)

theorem dedup_sublist : ∀ (l : List Coord), (C46.dedup l).Sublist l
  | [] => by simp [C46.dedup]
  | c :: l => by
    unfold C46.dedup
    split
    · exact (dedup_sublist l).cons c
    · exact (dedup_sublist l).cons_cons c

theorem sorted_uniqueCoords (l : List Coord) : SortedL (C46.uniqueCoords l) :=
  (sorted_isort l).sublist (dedup_sublist _)

theorem isort_of_sorted : ∀ (l : List Coord), SortedL l → C46.isort l = l
  | [], _ => rfl
  | c :: l, h => by
    have h' := List.pairwise_cons.mp h
    rw [C46.isort, isort_of_sorted l h'.2]
    cases l with
    | nil => rfl
    | cons a l => simp [C46.insertSorted, h'.1 a List.mem_cons_self]

theorem dedup_of_nodup : ∀ (l : List Coord), l.Nodup → C46.dedup l = l
  | [], _ => rfl
  | c :: l, h => by
    rw [List.nodup_cons] at h
    rw [C46.dedup, if_neg h.1, dedup_of_nodup l h.2]

/-- a filtered output of `np.unique` is left unchanged by `np.unique` -/
theorem uniqueCoords_filter (p : Coord → Bool) (l : List Coord) :
    C46.uniqueCoords ((C46.uniqueCoords l).filter p) = (C46.uniqueCoords l).filter p := by
  have hs : SortedL ((C46.uniqueCoords l).filter p) := (sorted_uniqueCoords l).sublist List.filter_sublist
  have hn : ((C46.uniqueCoords l).filter p).Nodup := (C46.nodup_uniqueCoords l).sublist List.filter_sublist
  show C46.dedup (C46.isort _) = _
  rw [isort_of_sorted _ hs, dedup_of_nodup _ hn]

/-- `SparseNdArray.add` of sorted, distinct, new coordinates appends them in that order -/
theorem add_fresh (s : Store) (ks : List Coord) (F : Coord → Rat) (hu : C46.uniqueCoords ks = ks)
    (hfresh : ∀ k ∈ ks, k ∉ s.map (·.1)) :
    (C46.add s (ks.map (fun k => (k, F k))) false).1 = s ++ ks.map (fun k => (k, F k)) := by
  have hn : ks.Nodup := hu ▸ C46.nodup_uniqueCoords ks
  unfold C46.add
  simp only [List.map_map]
  have hk : (ks.map ((fun p : Coord × Rat => p.1) ∘ fun k => (k, F k))) = ks := by
    have : ((fun p : Coord × Rat => p.1) ∘ fun k => (k, F k)) = id := rfl
    rw [this, List.map_id]
  rw [hk, hu, foldl_upsert_fresh false _ ks s hn hfresh]
  congr 1
  apply List.map_congr_left
  intro u hu'
  rw [combine_map F ks hn u hu']

/-! ### geometry of the adaptive table -/

theorem floorIdx_length : ∀ (bp h x : List Rat), bp.length = h.length → x.length = h.length →
    (floorIdx bp h x).length = h.length
  | [], [], [], _, _ => rfl
  | _ :: _, [], _, h, _ => by simp at h
  | [], _ :: _, _, h, _ => by simp at h
  | _, _ :: _, [], _, h => by simp at h
  | [], [], _ :: _, _, h => by simp at h
  | b :: bp, h :: hs, x :: xs, h1, h2 => by
    simp [floorIdx, floorIdx_length bp hs xs (by simpa using h1) (by simpa using h2)]

theorem danger_length : ∀ (bp h x : List Rat), bp.length = h.length → x.length = h.length →
    (danger bp h x).length = h.length
  | [], [], [], _, _ => rfl
  | _ :: _, [], _, h, _ => by simp at h
  | [], _ :: _, _, h, _ => by simp at h
  | _, _ :: _, [], _, h => by simp at h
  | [], [], _ :: _, _, h => by simp at h
  | b :: bp, h :: hs, x :: xs, h1, h2 => by
    simp [danger, danger_length bp hs xs (by simpa using h1) (by simpa using h2)]

theorem coordOf_inj : ∀ (bp h : List Rat) (i j : Coord), bp.length = h.length → i.length = h.length →
    j.length = h.length → (∀ hk ∈ h, hk ≠ 0) → coordOf bp h i = coordOf bp h j → i = j
  | [], [], [], [], _, _, _, _, _ => rfl
  | _ :: _, [], _, _, h, _, _, _, _ => by simp at h
  | [], _ :: _, _, _, h, _, _, _, _ => by simp at h
  | _, _ :: _, [], _, _, h, _, _, _ => by simp at h
  | _, _ :: _, _, [], _, _, h, _, _ => by simp at h
  | [], [], _ :: _, _, _, h, _, _, _ => by simp at h
  | [], [], [], _ :: _, _, _, h, _, _ => by simp at h
  | b :: bp, h :: hs, i :: is, j :: js, h1, h2, h3, hne, he => by
    simp only [coordOf, List.cons.injEq] at he
    have hh : h ≠ 0 := hne h List.mem_cons_self
    have hij : (i : Rat) = (j : Rat) := by
      have : h * (i : Rat) = h * (j : Rat) := by linarith [he.1]
      exact mul_left_cancel₀ hh this
    have := coordOf_inj bp hs is js (by simpa using h1) (by simpa using h2) (by simpa using h3)
      (fun hk hm => hne hk (List.mem_cons_of_mem _ hm)) he.2
    rw [this, Int.cast_inj.mp hij]

theorem addIncr_length (b incr : Coord) (h : b.length = incr.length) : (addIncr b incr).length = b.length := by
  simp [addIncr, h]

theorem addIncr_zeros : ∀ (b : Coord), addIncr b (List.replicate b.length 0) = b
  | [] => rfl
  | x :: b => by
    simp only [addIncr, List.length_cons, List.replicate_succ, List.zipWith_cons_cons, Int.add_zero]
    exact congrArg (x :: ·) (addIncr_zeros b)

theorem zeros_mem_incrs : ∀ (d : Nat), List.replicate d (0 : Int) ∈ incrs d
  | 0 => by simp [incrs]
  | d + 1 => by
    simp only [incrs, List.replicate_succ, List.mem_append, List.mem_map]
    exact Or.inl ⟨_, zeros_mem_incrs d, rfl⟩

theorem incrs_length : ∀ (d : Nat) (incr : List Int), incr ∈ incrs d → incr.length = d
  | 0, incr, h => by simp [incrs] at h; simp [h]
  | d + 1, incr, h => by
    simp only [incrs, List.mem_append, List.mem_map] at h
    rcases h with ⟨is, his, rfl⟩ | ⟨is, his, rfl⟩ <;> simp [incrs_length d is his]

theorem zeros_mem_bumps : ∀ (dg : List Bool), List.replicate dg.length (0 : Int) ∈ bumps dg
  | [] => by simp [bumps]
  | d :: dg => by
    simp only [bumps, List.length_cons, List.replicate_succ]
    split
    · exact List.mem_append_left _ (List.mem_map.mpr ⟨_, zeros_mem_bumps dg, rfl⟩)
    · exact List.mem_map.mpr ⟨_, zeros_mem_bumps dg, rfl⟩

theorem bumps_length : ∀ (dg : List Bool) (v : List Int), v ∈ bumps dg → v.length = dg.length
  | [], v, h => by simp [bumps] at h; simp [h]
  | d :: dg, v, h => by
    simp only [bumps] at h
    split at h
    · simp only [List.mem_append, List.mem_map] at h
      rcases h with ⟨is, his, rfl⟩ | ⟨is, his, rfl⟩ <;> simp [bumps_length dg is his]
    · simp only [List.mem_map] at h
      obtain ⟨is, his, rfl⟩ := h
      simp [bumps_length dg is his]

theorem safeBases_length (T : ATable) (hg : Geo T) (xs : List (List Rat))
    (hx : ∀ x ∈ xs, x.length = T.h.length) : ∀ b ∈ safeBases T xs, b.length = T.h.length := by
  intro b hb
  unfold safeBases at hb
  simp only at hb
  split at hb
  · simp only [List.mem_flatMap, List.mem_map] at hb
    obtain ⟨p, hp, v, hv, rfl⟩ := hb
    have hp' := List.of_mem_zip hp
    simp only [List.mem_map] at hp'
    obtain ⟨⟨x, hx1, e1⟩, ⟨x', hx2, e2⟩⟩ := hp'
    have l1 : p.1.length = T.h.length := by rw [← e1]; exact floorIdx_length _ _ _ hg.hb (hx x hx1)
    have l2 : p.2.length = T.h.length := by rw [← e2]; exact danger_length _ _ _ hg.hb (hx x' hx2)
    rw [addIncr_length _ _ (by rw [l1, bumps_length _ _ hv, l2]), l1]
  · simp only [List.mem_map] at hb
    obtain ⟨x, hx1, rfl⟩ := hb
    exact floorIdx_length _ _ _ hg.hb (hx x hx1)

theorem floor_mem_safeBases (T : ATable) (hg : Geo T) (xs : List (List Rat))
    (hx : ∀ x ∈ xs, x.length = T.h.length) : ∀ x ∈ xs, floorIdx T.basePt T.h x ∈ safeBases T xs := by
  intro x hx1
  unfold safeBases
  simp only
  split
  · simp only [List.mem_flatMap, List.mem_map]
    refine ⟨(floorIdx T.basePt T.h x, danger T.basePt T.h x), ?_, List.replicate (danger T.basePt T.h x).length 0,
      zeros_mem_bumps _, ?_⟩
    · rw [List.zip_map']
      exact List.mem_map.mpr ⟨x, hx1, rfl⟩
    · have : (danger T.basePt T.h x).length = (floorIdx T.basePt T.h x).length := by
        rw [danger_length _ _ _ hg.hb (hx x hx1), floorIdx_length _ _ _ hg.hb (hx x hx1)]
      rw [this]; exact addIncr_zeros _
  · exact List.mem_map.mpr ⟨x, hx1, rfl⟩

theorem mem_neededOf (d : Nat) (B : List Coord) (i : Coord) :
    i ∈ neededOf d B ↔ ∃ b ∈ B, ∃ incr ∈ incrs d, i = addIncr b incr := by
  unfold neededOf
  rw [C46.mem_uniqueCoords]
  simp only [List.mem_flatMap, hyper, List.mem_map]
  constructor
  · rintro ⟨b, hb, incr, hi, rfl⟩; exact ⟨b, hb, incr, hi, rfl⟩
  · rintro ⟨b, hb, incr, hi, rfl⟩; exact ⟨b, hb, incr, hi, rfl⟩

theorem neededOf_length (d : Nat) (B : List Coord) (hB : ∀ b ∈ B, b.length = d) :
    ∀ i ∈ neededOf d B, i.length = d := by
  intro i hi
  obtain ⟨b, hb, incr, hinc, rfl⟩ := (mem_neededOf d B i).mp hi
  have l1 := hB b hb
  rw [addIncr_length _ _ (by rw [l1, incrs_length _ _ hinc]), l1]

theorem mem_needed (T : ATable) (xs : List (List Rat)) (i : Coord) :
    i ∈ needed T xs ↔ ∃ b ∈ safeBases T xs, ∃ incr ∈ incrs T.h.length, i = addIncr b incr :=
  mem_neededOf _ _ i

theorem plainBases_length (T : ATable) (hg : Geo T) (xs : List (List Rat))
    (hx : ∀ x ∈ xs, x.length = T.h.length) : ∀ b ∈ plainBases T xs, b.length = T.h.length := by
  intro b hb
  obtain ⟨x, hx1, rfl⟩ := List.mem_map.mp hb
  exact floorIdx_length _ _ _ hg.hb (hx x hx1)

/-! ### the storage invariant of the adaptive table -/

theorem rowOf_keys (bp h : List Rat) (K : List Coord) (f : List Rat → Rat) :
    (rowOf bp h K f).map (·.1) = K := by
  unfold rowOf
  rw [List.map_map]
  have : ((fun p : Coord × Rat => p.1) ∘ fun i => (i, f (coordOf bp h i))) = id := rfl
  rw [this, List.map_id]

theorem Inv.keys_ne {fs : List (List Rat → Rat)} {T : ATable} {K : List Coord} (hI : Inv fs T K) (hfs : fs ≠ []) :
    T.keys = K := by
  unfold ATable.keys
  rw [hI.rows]
  cases fs with
  | nil => exact absurd rfl hfs
  | cons f fs => simp only [List.map_cons, List.headD_cons]; exact rowOf_keys _ _ _ _

theorem Inv.keys_sub {fs : List (List Rat → Rat)} {T : ATable} {K : List Coord} (hI : Inv fs T K) :
    ∀ i ∈ T.keys, i ∈ K := by
  cases fs with
  | nil =>
    intro i hi
    unfold ATable.keys at hi
    rw [hI.rows] at hi
    simp at hi
  | cons f fs => intro i hi; rw [hI.keys_ne (by simp)] at hi; exact hi

theorem zipWith_map_self {α β γ : Type} (g : β → α → γ) (r : α → β) : ∀ (l : List α),
    List.zipWith g (l.map r) l = l.map (fun a => g (r a) a)
  | [] => rfl
  | a :: l => by simp [zipWith_map_self g r l]

theorem empty_inv (h bp : List Rat) (fs : List (List Rat → Rat)) :
    Inv fs (ATable.empty h bp fs.length) [] := by
  refine ⟨?_, rfl, List.nodup_nil, by simp⟩
  simp only [ATable.empty]
  induction fs with
  | nil => rfl
  | cons f fs ih => simp only [List.length_cons, List.replicate_succ, List.map_cons, ih]; rfl

theorem quadPointsOf_fresh {fs : List (List Rat → Rat)} {T : ATable} {K : List Coord} (hI : Inv fs T K)
    (B : List Coord) : ∀ i ∈ quadPointsOf T B, i ∉ K := by
  intro i hi hK
  unfold quadPointsOf at hi
  rw [List.mem_filter] at hi
  have : coordOf T.basePt T.h i ∈ T.pt := by
    rw [hI.pt]
    exact List.mem_map.mpr ⟨i, hK, rfl⟩
  simp [this] at hi

theorem quadPoints_fresh {fs : List (List Rat → Rat)} {T : ATable} {K : List Coord} (hI : Inv fs T K)
    (xs : List (List Rat)) : ∀ i ∈ quadPoints T xs, i ∉ K := quadPointsOf_fresh hI _

theorem quadPointsOf_unique (T : ATable) (B : List Coord) :
    C46.uniqueCoords (quadPointsOf T B) = quadPointsOf T B := by
  unfold quadPointsOf neededOf
  exact uniqueCoords_filter _ _

/-- `_fill_values` (for any choice `B` of base vertices with `d` entries each) keeps the invariant, appends
    exactly the new quadrature points, and afterwards every vertex of the hypercube of every base vertex
    in `B` is stored. -/
theorem fillWith_inv {fs : List (List Rat → Rat)} {T : ATable} {K : List Coord} (hg : Geo T) (hI : Inv fs T K)
    (B : List Coord) (hB : ∀ b ∈ B, b.length = T.h.length) :
    (fillWith T fs B).h = T.h ∧ (fillWith T fs B).basePt = T.basePt ∧
    Inv fs (fillWith T fs B) (K ++ quadPointsOf T B) ∧
    ∀ b ∈ B, ∀ incr ∈ incrs T.h.length, addIncr b incr ∈ K ++ quadPointsOf T B := by
  have hfresh := quadPointsOf_fresh hI B
  have htodo : (quadPointsOf T B).filter (fun i => !(T.keys.contains i)) = quadPointsOf T B := by
    rw [List.filter_eq_self]
    intro i hi
    have : ¬ i ∈ T.keys := fun h => hfresh i hi (hI.keys_sub i h)
    simp [this]
  have hsub : ∀ i ∈ quadPointsOf T B, i ∈ neededOf T.h.length B := fun i hi => (List.mem_filter.mp hi).1
  have hnd : (K ++ quadPointsOf T B).Nodup := by
    rw [List.nodup_append]
    refine ⟨hI.nodup, (C46.nodup_uniqueCoords _).sublist List.filter_sublist, ?_⟩
    intro a ha b hb e
    subst e
    exact hfresh a hb ha
  have hlen : ∀ i ∈ K ++ quadPointsOf T B, i.length = T.h.length := by
    intro i hi
    rcases List.mem_append.mp hi with h | h
    · exact hI.len i h
    · exact neededOf_length _ B hB i (hsub i h)
  have hmem : ∀ b ∈ B, ∀ incr ∈ incrs T.h.length, addIncr b incr ∈ K ++ quadPointsOf T B := by
    intro b hb incr hinc
    have hn : addIncr b incr ∈ neededOf T.h.length B := (mem_neededOf _ _ _).mpr ⟨b, hb, incr, hinc, rfl⟩
    by_cases hK : addIncr b incr ∈ K
    · exact List.mem_append_left _ hK
    · refine List.mem_append_right _ ?_
      unfold quadPointsOf
      rw [List.mem_filter]
      refine ⟨hn, ?_⟩
      have : ¬ coordOf T.basePt T.h (addIncr b incr) ∈ T.pt := by
        rw [hI.pt]
        intro hm
        obtain ⟨k, hk, he⟩ := List.mem_map.mp hm
        have := coordOf_inj T.basePt T.h _ _ hg.hb (hI.len k hk) (neededOf_length _ B hB _ hn) hg.hne he
        exact hK (this ▸ hk)
      simp [this]
  unfold fillWith
  simp only [htodo]
  by_cases hemp : (quadPointsOf T B).isEmpty = true
  · rw [if_pos hemp]
    have : quadPointsOf T B = [] := List.isEmpty_iff.mp hemp
    rw [this, List.append_nil] at hnd hlen hmem ⊢
    exact ⟨rfl, rfl, hI, hmem⟩
  · rw [if_neg hemp]
    refine ⟨rfl, rfl, ⟨?_, ?_, hnd, hlen⟩, hmem⟩
    · simp only
      rw [hI.rows, zipWith_map_self]
      apply List.map_congr_left
      intro f _
      rw [add_fresh _ (quadPointsOf T B) (fun i => f (coordOf T.basePt T.h i)) (quadPointsOf_unique T B)
        (by intro k hk; rw [rowOf_keys]; exact hfresh k hk)]
      simp [rowOf]
    · simp only
      rw [hI.pt, List.map_append]

theorem fill_inv {fs : List (List Rat → Rat)} {T : ATable} {K : List Coord} (hg : Geo T) (hI : Inv fs T K)
    (xs : List (List Rat)) (hx : ∀ x ∈ xs, x.length = T.h.length) :
    (fill T fs xs).h = T.h ∧ (fill T fs xs).basePt = T.basePt ∧
    Inv fs (fill T fs xs) (K ++ quadPoints T xs) ∧
    ∀ x ∈ xs, ∀ incr ∈ incrs T.h.length,
      addIncr (floorIdx T.basePt T.h x) incr ∈ K ++ quadPoints T xs := by
  obtain ⟨e1, e2, hI', hmem⟩ := fillWith_inv (fs := fs) hg hI (safeBases T xs) (safeBases_length T hg xs hx)
  exact ⟨e1, e2, hI', fun x hx1 => hmem _ (floor_mem_safeBases T hg xs hx x hx1)⟩


/-! ### queries on a filled adaptive table -/

/-- right weights of the adaptive table at a point -/
def aw (T : ATable) (x : List Rat) : List Rat :=
  aRightWeights x (coordOf T.basePt T.h (floorIdx T.basePt T.h x)) T.h

theorem aw_facts : ∀ (bp h x : List Rat), bp.length = h.length → x.length = h.length → (∀ hk ∈ h, hk ≠ 0) →
    (aRightWeights x (coordOf bp h (floorIdx bp h x)) h).length = h.length ∧
    weightsOk (aRightWeights x (coordOf bp h (floorIdx bp h x)) h) = true ∧
    ∀ w ∈ aRightWeights x (coordOf bp h (floorIdx bp h x)) h, 0 ≤ w ∧ w < 1
  | [], [], [], _, _, _ => by simp [aRightWeights, weightsOk]
  | _ :: _, [], _, h, _, _ => by simp at h
  | [], _ :: _, _, h, _, _ => by simp at h
  | _, _ :: _, [], _, h, _ => by simp at h
  | [], [], _ :: _, _, h, _ => by simp at h
  | b :: bp, h :: hs, x :: xs, h1, h2, hne => by
    obtain ⟨i1, i2, i3⟩ := aw_facts bp hs xs (by simpa using h1) (by simpa using h2)
      (fun hk hm => hne hk (List.mem_cons_of_mem _ hm))
    have hh : h ≠ 0 := hne h List.mem_cons_self
    have hfl := Rat.floor_le ((x - b) / h)
    have hfl2 := Rat.lt_floor_add_one ((x - b) / h)
    push_cast at hfl2
    have hw : (x - (b + h * (((x - b) / h).floor : Rat))) / h = (x - b) / h - (((x - b) / h).floor : Rat) := by
      field_simp
      ring
    have ht := tol_pos
    simp only [floorIdx, coordOf, aRightWeights, List.length_cons, i1, weightsOk, List.all_cons,
      Bool.and_eq_true, decide_eq_true_eq, List.mem_cons, hw]
    refine ⟨trivial, ⟨⟨by linarith, by linarith⟩, i2⟩, ?_⟩
    rintro w (rfl | hw')
    · exact ⟨by linarith, by linarith⟩
    · exact i3 w hw'

theorem getD_idxOf_map {β : Type} (g : Coord → β) (d : β) : ∀ (K : List Coord) (b : Coord), b ∈ K →
    (K.map g).getD (K.idxOf b) d = g b
  | [], b, h => by simp at h
  | k :: K, b, h => by
    by_cases e : k = b
    · subst e; simp
    · have hb : b ∈ K := by
        rcases List.mem_cons.mp h with e' | e'
        · exact absurd e'.symm e
        · exact e'
      have := getD_idxOf_map g d K b hb
      simpa [e] using this

theorem aInterpRow_eq (bp h : List Rat) (K : List Coord) (f : List Rat → Rat) (b : Coord) (rw : List Rat)
    (hl : rw.length = b.length) (hmem : ∀ incr ∈ incrs b.length, addIncr b incr ∈ K) :
    aInterpRow b.length (rowOf bp h K f) (b, rw) = .ok (wsum (rw.zip b) (fun v => f (coordOf bp h v))) := by
  unfold aInterpRow rowOf
  simp only [List.any_map, List.map_map]
  rw [if_neg]
  · congr 1
    rw [← enum_wsum b rw _ hl]
    apply sumQ_map_congr
    intro incr hi
    simp only [Function.comp, get1_map, if_pos (hmem incr hi), Option.getD_some]
  · rw [List.any_eq_true]
    rintro ⟨incr, hi, hbad⟩
    simp [Function.comp, get1_map, hmem incr hi] at hbad

theorem aGradRow_eq (bp h : List Rat) (K : List Coord) (f : List Rat → Rat) (b : Coord) (rw : List Rat)
    (k : Nat) (hk : Rat) (hl : rw.length = b.length) (hkl : k < b.length)
    (hmem : ∀ incr ∈ incrs b.length, addIncr b incr ∈ K) :
    aGradRow b.length k hk (rowOf bp h K f) (b, rw) =
      .ok (gsum k (rw.zip b) (fun v => f (coordOf bp h v)) / hk) := by
  unfold aGradRow rowOf
  simp only [List.any_map, List.map_map]
  rw [if_neg]
  · congr 2
    rw [← enum_gsum k b rw _ hl hkl]
    apply sumQ_map_congr
    intro incr hi
    simp only [Function.comp, get1_map, if_pos (hmem incr hi), Option.getD_some]
  · rw [List.any_eq_true]
    rintro ⟨incr, hi, hbad⟩
    simp [Function.comp, get1_map, hmem incr hi] at hbad

/-- hypotheses under which a stored table answers: invariant, at least one component, all the
    hypercube vertices of the queried points stored -/
structure Ready (fs : List (List Rat → Rat)) (T : ATable) (K : List Coord) (xs : List (List Rat)) : Prop where
  geo : Geo T
  inv : Inv fs T K
  ne : fs ≠ []
  len : ∀ x ∈ xs, x.length = T.h.length
  mem : ∀ x ∈ xs, ∀ incr ∈ incrs T.h.length, addIncr (floorIdx T.basePt T.h x) incr ∈ K

theorem Ready.prep {fs T K xs} (hr : Ready fs T K xs) :
    xs.mapM (aPrep T) = .ok (xs.map (fun x => (floorIdx T.basePt T.h x, aw T x))) := by
  apply mapM_ok
  intro x hx1
  have hbl := floorIdx_length _ _ _ hr.geo.hb (hr.len x hx1)
  have hb : floorIdx T.basePt T.h x ∈ K := by
    have := hr.mem x hx1 _ (zeros_mem_incrs T.h.length)
    rwa [← hbl, addIncr_zeros] at this
  unfold aPrep
  simp only [hr.inv.keys_ne hr.ne, List.contains_iff_mem, hb, if_true]
  rw [hr.inv.pt, getD_idxOf_map _ _ K _ hb]
  rfl

theorem Ready.weights {fs T K xs} (hr : Ready fs T K xs) :
    (xs.map (fun x => (floorIdx T.basePt T.h x, aw T x))).all (fun p => weightsOk p.2) = true := by
  rw [List.all_map, List.all_eq_true]
  intro x hx1
  exact (aw_facts _ _ _ hr.geo.hb (hr.len x hx1) hr.geo.hne).2.1

theorem interpStored_eq {fs T K xs} (hr : Ready fs T K xs) :
    T.interpolateStored xs = .ok (fs.map (fun f => xs.map (fun x =>
      wsum ((aw T x).zip (floorIdx T.basePt T.h x)) (fun v => f (coordOf T.basePt T.h v))))) := by
  unfold ATable.interpolateStored
  rw [hr.prep]
  simp only [hr.weights, Bool.not_true, Bool.false_eq_true, if_false]
  rw [hr.inv.rows]
  apply mapM_map_ok
  intro f _
  apply mapM_map_ok
  intro x hx1
  have hbl := floorIdx_length _ _ _ hr.geo.hb (hr.len x hx1)
  have hwl := (aw_facts _ _ _ hr.geo.hb (hr.len x hx1) hr.geo.hne).1
  rw [← hbl]
  exact aInterpRow_eq _ _ K f _ _ (by unfold aw; rw [hwl, hbl]) (by rw [hbl]; exact hr.mem x hx1)

theorem gradStored_eq {fs T K xs} (hr : Ready fs T K xs) (k : Nat) (hk : Rat) (hkh : T.h[k]? = some hk) :
    T.gradientStored xs k = .ok (fs.map (fun f => xs.map (fun x =>
      gsum k ((aw T x).zip (floorIdx T.basePt T.h x)) (fun v => f (coordOf T.basePt T.h v)) / hk))) := by
  unfold ATable.gradientStored
  rw [hr.prep]
  simp only [hr.weights, Bool.not_true, Bool.false_eq_true, if_false, hkh]
  rw [hr.inv.rows]
  have hkl : k < T.h.length := by
    rcases Nat.lt_or_ge k T.h.length with h | h
    · exact h
    · rw [List.getElem?_eq_none h] at hkh; cases hkh
  apply mapM_map_ok
  intro f _
  apply mapM_map_ok
  intro x hx1
  have hbl := floorIdx_length _ _ _ hr.geo.hb (hr.len x hx1)
  have hwl := (aw_facts _ _ _ hr.geo.hb (hr.len x hx1) hr.geo.hne).1
  rw [← hbl]
  exact aGradRow_eq _ _ K f _ _ k hk (by unfold aw; rw [hwl, hbl]) (by rw [hbl]; exact hkl)
    (by rw [hbl]; exact hr.mem x hx1)

/-- after `_fill_values` the table is ready for the points whose floored base vertices were selected -/
theorem fillWith_ready {fs : List (List Rat → Rat)} {T : ATable} {K : List Coord} (hg : Geo T) (hI : Inv fs T K)
    (hfs : fs ≠ []) (B : List Coord) (hB : ∀ b ∈ B, b.length = T.h.length) (xs : List (List Rat))
    (hx : ∀ x ∈ xs, x.length = T.h.length) (hfl : ∀ x ∈ xs, floorIdx T.basePt T.h x ∈ B) :
    Ready fs (fillWith T fs B) (K ++ quadPointsOf T B) xs := by
  obtain ⟨e1, e2, hI', hmem⟩ := fillWith_inv (fs := fs) hg hI B hB
  exact ⟨⟨by rw [e1, e2]; exact hg.hb, by rw [e1]; exact hg.hne⟩, hI', hfs, by rw [e1]; exact hx,
    by rw [e1, e2]; exact fun x hx1 => hmem _ (hfl x hx1)⟩

theorem fill_ready {fs : List (List Rat → Rat)} {T : ATable} {K : List Coord} (hg : Geo T) (hI : Inv fs T K)
    (hfs : fs ≠ []) (xs : List (List Rat)) (hx : ∀ x ∈ xs, x.length = T.h.length) :
    Ready fs (fill T fs xs) (K ++ quadPoints T xs) xs :=
  fillWith_ready hg hI hfs _ (safeBases_length T hg xs hx) xs hx (floor_mem_safeBases T hg xs hx)


/-! ### the adaptive table laid over the grid of a standard table -/

/-- unclamped base vertex `floor((x - low) / h)` per axis -/
def floors (axes : List Axis) (x : List Rat) : List Int := floorIdx (lows axes) (hs axes) x

theorem coordOf_eq_gridPt : ∀ (axes : List Axis) (v : List Int),
    coordOf (lows axes) (hs axes) v = gridPt axes v
  | [], _ => by simp [lows, hs, coordOf, gridPt]
  | _ :: _, [] => by simp [lows, hs, coordOf, gridPt]
  | a :: as, i :: is => by
    have := coordOf_eq_gridPt as is
    simp only [lows, hs, List.map_cons, coordOf, gridPt, Axis.pt] at this ⊢
    rw [this, mul_comm]

theorem aRightWeights_eq : ∀ (axes : List Axis) (x : List Rat) (b : List Int),
    aRightWeights x (gridPt axes b) (hs axes) = rightWeights axes x b
  | [], x, b => by cases x <;> simp [hs, gridPt, aRightWeights, rightWeights]
  | _ :: _, [], _ => by simp [aRightWeights, rightWeights]
  | _ :: _, _ :: _, [] => by simp [gridPt, aRightWeights, rightWeights]
  | a :: as, x :: xs, b :: bs => by
    have := aRightWeights_eq as xs bs
    simp only [hs, List.map_cons, gridPt, aRightWeights, rightWeights, Axis.rightWeight] at this ⊢
    rw [this]

theorem axis_switch (a : Axis) (x : Rat) (hn : 2 ≤ a.npt) (hlh : a.low < a.high)
    (_hx : a.low ≤ x) (hx2 : x ≤ a.high) :
    a.base x = ((x - a.low) / a.h).floor ∨
    (a.rightWeight x (a.base x) = 1 ∧ a.rightWeight x ((x - a.low) / a.h).floor = 0 ∧
      ((x - a.low) / a.h).floor = a.base x + 1 ∧ x = a.high) := by
  have hh := h_pos a hn hlh
  have hmax : max ((a.npt : Int) - 2) 0 = (a.npt : Int) - 2 := by omega
  have hfl := Rat.floor_le ((x - a.low) / a.h)
  have hw : ∀ b : Int, a.rightWeight x b = (x - a.low) / a.h - (b : Rat) := by
    intro b
    unfold Axis.rightWeight Axis.pt
    field_simp
    ring
  have hqn : (x - a.low) / a.h ≤ (a.npt : Rat) - 1 := by
    rw [div_le_iff₀ hh]
    have : ((a.npt : Rat) - 1) * a.h = a.high - a.low := by
      unfold Axis.h
      have h2 : (2 : Rat) ≤ (a.npt : Rat) := by exact_mod_cast hn
      have hne : (a.npt : Rat) - 1 ≠ 0 := by intro h; linarith
      field_simp
    linarith
  rcases le_or_gt ((x - a.low) / a.h).floor ((a.npt : Int) - 2) with h | h
  · left; unfold Axis.base; rw [hmax]; exact min_eq_left h
  · right
    have hb : a.base x = (a.npt : Int) - 2 := by unfold Axis.base; rw [hmax]; exact min_eq_right h.le
    have hfle : ((x - a.low) / a.h).floor ≤ (a.npt : Int) - 1 := by
      have : ((((x - a.low) / a.h).floor : Int) : Rat) ≤ (((a.npt : Int) - 1 : Int) : Rat) := by
        push_cast; linarith
      exact_mod_cast this
    have hfeq : ((x - a.low) / a.h).floor = (a.npt : Int) - 1 := by omega
    have hq : (x - a.low) / a.h = (a.npt : Rat) - 1 := by
      have : ((((x - a.low) / a.h).floor : Int) : Rat) = (a.npt : Rat) - 1 := by rw [hfeq]; push_cast; ring
      linarith
    refine ⟨?_, ?_, by omega, ?_⟩
    · rw [hw, hb, hq]; push_cast; ring
    · rw [hw, hfeq, hq]; push_cast; ring
    · have hnh : ((a.npt : Rat) - 1) * a.h = a.high - a.low := by
        unfold Axis.h
        have h2 : (2 : Rat) ≤ (a.npt : Rat) := by exact_mod_cast hn
        have hne : (a.npt : Rat) - 1 ≠ 0 := by intro h; linarith
        field_simp
      have : x - a.low = ((a.npt : Rat) - 1) * a.h := by
        rw [← hq]; field_simp
      linarith

/-- Interpolating in the cell chosen by the standard table (base clamped to `npt - 2`) and in the cell chosen
    by the adaptive table (unclamped floor) gives the same value, for ANY grid function `g`. -/
theorem wsum_switch : ∀ (axes : List Axis) (x : List Rat), WF axes → axes.length = x.length →
    inBox axes x = true → ∀ (g : List Int → Rat),
    wsum ((rightWeights axes x (bases axes x)).zip (bases axes x)) g =
      wsum ((rightWeights axes x (floors axes x)).zip (floors axes x)) g
  | [], [], _, _, _, g => by simp [rightWeights, bases, floors, lows, hs, floorIdx]
  | [], _ :: _, _, h, _, _ => by simp at h
  | _ :: _, [], _, h, _, _ => by simp at h
  | a :: as, x :: xs, hwf, hl, hbox, g => by
    simp only [inBox, Bool.and_eq_true] at hbox
    obtain ⟨hr, hbox'⟩ := hbox
    rw [inRange_iff] at hr
    obtain ⟨hn, hlh⟩ := hwf a List.mem_cons_self
    have ih := wsum_switch as xs (fun b hb => hwf b (List.mem_cons_of_mem _ hb)) (by simpa using hl) hbox'
    simp only [floors, lows, hs] at ih ⊢
    simp only [bases, rightWeights, floorIdx, List.map_cons, List.zip_cons_cons, wsum]
    rw [ih, ih]
    rcases axis_switch a x hn hlh hr.1 hr.2 with h | ⟨h1, h2, h3, _⟩
    · rw [h]
    · rw [h1, h2, h3]; ring

theorem bases_eq_floors : ∀ (axes : List Axis) (x : List Rat), WF axes → axes.length = x.length →
    inBox axes x = true → offUpper axes x = true → bases axes x = floors axes x
  | [], [], _, _, _, _ => by simp [bases, floors, lows, hs, floorIdx]
  | [], _ :: _, _, h, _, _ => by simp at h
  | _ :: _, [], _, h, _, _ => by simp at h
  | a :: as, x :: xs, hwf, hl, hbox, hoff => by
    simp only [inBox, Bool.and_eq_true] at hbox
    simp only [offUpper, Bool.and_eq_true, decide_eq_true_eq] at hoff
    obtain ⟨hr, hbox'⟩ := hbox
    rw [inRange_iff] at hr
    obtain ⟨hn, hlh⟩ := hwf a List.mem_cons_self
    have ih := bases_eq_floors as xs (fun b hb => hwf b (List.mem_cons_of_mem _ hb)) (by simpa using hl) hbox' hoff.2
    simp only [floors, lows, hs] at ih ⊢
    simp only [bases, floorIdx, List.map_cons, ih, List.cons.injEq, and_true]
    rcases axis_switch a x hn hlh hr.1 hr.2 with h | ⟨_, _, _, h4⟩
    · exact h
    · exact absurd h4 (ne_of_lt hoff.1)

/-! ### histories: both tables against the same recursive sums -/

/-- what both tables compute, written with the recursive sums over the cell `floors axes x` -/
def idealAnswer (axes : List Axis) (fs : List (List Rat → Rat)) : Query → Except Err (List (List Rat))
  | .interp xs => .ok (fs.map (fun f => xs.map (fun x =>
      wsum ((rightWeights axes x (floors axes x)).zip (floors axes x)) (fun v => f (gridPt axes v)))))
  | .grad xs k =>
    match axes[k]? with
    | none => .error .indexError
    | some ax => .ok (fs.map (fun f => xs.map (fun x =>
        gsum k ((rightWeights axes x (floors axes x)).zip (floors axes x)) (fun v => f (gridPt axes v)) / ax.h)))

/-- the adaptive table lies over the grid of the standard table: `dx = h`, `base_point = low` -/
structure Over (axes : List Axis) (T : ATable) : Prop where
  h : T.h = hs axes
  bp : T.basePt = lows axes

theorem Over.geo {axes : List Axis} {T : ATable} (ho : Over axes T) (hwf : WF axes) : Geo T := by
  refine ⟨by rw [ho.h, ho.bp]; simp [hs, lows], ?_⟩
  rw [ho.h]
  intro hk hm
  obtain ⟨a, ha, rfl⟩ := List.mem_map.mp hm
  exact hwf.h_ne a ha

theorem gradStored_none {fs T K xs} (hr : Ready fs T K xs) (k : Nat) (hkh : T.h[k]? = none) :
    T.gradientStored xs k = .error .indexError := by
  unfold ATable.gradientStored
  rw [hr.prep]
  simp only [hr.weights, Bool.not_true, Bool.false_eq_true, if_false, hkh]

/-- a selection of base vertices for the filling step that is good enough: `d` entries per vertex, and the
    floored index of every queried point is among them -/
def GoodSel (sel : ATable → List (List Rat) → List Coord) : Prop :=
  ∀ (T : ATable) (xs : List (List Rat)), Geo T → (∀ x ∈ xs, x.length = T.h.length) →
    (∀ b ∈ sel T xs, b.length = T.h.length) ∧ ∀ x ∈ xs, floorIdx T.basePt T.h x ∈ sel T xs

theorem goodSel_safe : GoodSel safeBases :=
  fun T xs hg hx => ⟨safeBases_length T hg xs hx, floor_mem_safeBases T hg xs hx⟩

theorem goodSel_plain : GoodSel plainBases :=
  fun T xs hg hx => ⟨plainBases_length T hg xs hx, fun x hx1 => List.mem_map.mpr ⟨x, hx1, rfl⟩⟩

theorem step_with {sel : ATable → List (List Rat) → List Coord} (hsel : GoodSel sel)
    {axes : List Axis} {fs : List (List Rat → Rat)} {T : ATable} {K : List Coord}
    (hwf : WF axes) (ho : Over axes T) (hI : Inv fs T K) (hfs : fs ≠ []) (q : Query)
    (hq : ∀ x ∈ q.points, x.length = axes.length) :
    ∃ K', Over axes (T.answerWith sel fs q).1 ∧ Inv fs (T.answerWith sel fs q).1 K' ∧
      (T.answerWith sel fs q).2 = idealAnswer axes fs q := by
  have hg := ho.geo hwf
  have hlen : ∀ x ∈ q.points, x.length = T.h.length := by
    intro x hx; rw [ho.h, hq x hx]; simp [hs]
  obtain ⟨hB, hfl⟩ := hsel T q.points hg hlen
  have hr := fillWith_ready hg hI hfs (sel T q.points) hB q.points hlen hfl
  obtain ⟨e1, e2, _, _⟩ := fillWith_inv (fs := fs) hg hI (sel T q.points) hB
  have ho' : Over axes (fillWith T fs (sel T q.points)) := ⟨by rw [e1, ho.h], by rw [e2, ho.bp]⟩
  refine ⟨K ++ quadPointsOf T (sel T q.points), ho', hr.inv, ?_⟩
  cases q with
  | interp xs =>
    simp only [Query.points] at hr ho'
    show (fillWith T fs (sel T xs)).interpolateStored xs = _
    rw [interpStored_eq hr]
    simp only [aw, ho'.h, ho'.bp, coordOf_eq_gridPt, aRightWeights_eq, idealAnswer, floors]
  | grad xs k =>
    simp only [Query.points] at hr ho'
    show (fillWith T fs (sel T xs)).gradientStored xs k = _
    cases hk : axes[k]? with
    | none =>
      rw [gradStored_none hr k (by rw [ho'.h]; simp [hs, hk])]
      simp [idealAnswer, hk]
    | some ax =>
      rw [gradStored_eq hr k ax.h (by rw [ho'.h]; simp [hs, hk])]
      simp only [aw, ho'.h, ho'.bp, coordOf_eq_gridPt, aRightWeights_eq, idealAnswer, floors, hk]

theorem runWith_ideal {sel : ATable → List (List Rat) → List Coord} (hsel : GoodSel sel)
    {axes : List Axis} {fs : List (List Rat → Rat)} (hwf : WF axes) (hfs : fs ≠ []) :
    ∀ (qs : List Query) (T : ATable) (K : List Coord), Over axes T → Inv fs T K →
    (∀ q ∈ qs, ∀ x ∈ q.points, x.length = axes.length) →
    T.runWith sel fs qs = qs.map (idealAnswer axes fs)
  | [], _, _, _, _, _ => rfl
  | q :: qs, T, K, ho, hI, hq => by
    obtain ⟨K', ho', hI', he⟩ := step_with hsel hwf ho hI hfs q (hq q List.mem_cons_self)
    simp only [ATable.runWith, List.map_cons, he]
    rw [runWith_ideal hsel hwf hfs qs _ K' ho' hI' (fun q' hq' => hq q' (List.mem_cons_of_mem _ hq'))]

theorem answer_eq_with (T : ATable) (fs : List (List Rat → Rat)) (q : Query) :
    T.answer fs q = T.answerWith safeBases fs q := by
  cases q <;> rfl

theorem run_eq_with (fs : List (List Rat → Rat)) : ∀ (qs : List Query) (T : ATable),
    T.run fs qs = T.runWith safeBases fs qs
  | [], _ => rfl
  | q :: qs, T => by
    simp only [ATable.run, ATable.runWith, answer_eq_with]
    rw [run_eq_with fs qs]

theorem adaptive_step {axes : List Axis} {fs : List (List Rat → Rat)} {T : ATable} {K : List Coord}
    (hwf : WF axes) (ho : Over axes T) (hI : Inv fs T K) (hfs : fs ≠ []) (q : Query)
    (hq : ∀ x ∈ q.points, x.length = axes.length) :
    ∃ K', Over axes (T.answer fs q).1 ∧ Inv fs (T.answer fs q).1 K' ∧
      (T.answer fs q).2 = idealAnswer axes fs q := by
  rw [answer_eq_with]
  exact step_with goodSel_safe hwf ho hI hfs q hq

theorem adaptive_run_ideal {axes : List Axis} {fs : List (List Rat → Rat)} (hwf : WF axes) (hfs : fs ≠ [])
    (qs : List Query) (T : ATable) (K : List Coord) (ho : Over axes T) (hI : Inv fs T K)
    (hq : ∀ q ∈ qs, ∀ x ∈ q.points, x.length = axes.length) :
    T.run fs qs = qs.map (idealAnswer axes fs) := by
  rw [run_eq_with]
  exact runWith_ideal goodSel_safe hwf hfs qs T K ho hI hq

/-! the standard table against the same sums -/

theorem std_interp_general (axes : List Axis) (f : List Rat → Rat) (x : List Rat) (hwf : WF axes)
    (hl : x.length = axes.length) (hb : inBox axes x = true) :
    interpRow ((coords axes).map f) (strides 1 (axes.map (·.npt))) (bases axes x)
      (rightWeights axes x (bases axes x)) =
      .ok (wsum ((rightWeights axes x (floors axes x)).zip (floors axes x)) (fun v => f (gridPt axes v))) := by
  obtain ⟨i1, i2, _, _, i5⟩ := point_facts axes x hwf hl.symm hb
  rw [interpRow_eq axes f _ _ (by rw [i1, i2]) i5, wsum_switch axes x hwf hl.symm hb]

theorem std_answer_general (axes : List Axis) (fs : List (List Rat → Rat)) (q : Query) (hwf : WF axes)
    (hq : q.inBox axes) (hoff : q.gradOffUpper axes) :
    (mkTable axes fs).answer q = idealAnswer axes fs q := by
  obtain ⟨g1, g2⟩ := guards_pass axes q.points hwf hq
  cases q with
  | interp xs =>
    simp only [Query.points] at g1 g2
    unfold Table.answer Table.interpolate mkTable rowsPoints idealAnswer
    simp only [g1, g2, Bool.not_true, Bool.false_eq_true, if_false]
    apply mapM_map_ok
    intro f _
    apply mapM_map_ok
    intro x hx'
    exact std_interp_general axes f x hwf (hq x hx').1 (hq x hx').2
  | grad xs k =>
    simp only [Query.points] at g1 g2
    unfold Table.answer Table.gradient mkTable rowsPoints idealAnswer
    simp only [g1, g2, Bool.not_true, Bool.false_eq_true, if_false]
    cases hk : axes[k]? with
    | none => rfl
    | some ax =>
      simp only
      have hkl : k < axes.length := by
        rcases Nat.lt_or_ge k axes.length with h | h
        · exact h
        · rw [List.getElem?_eq_none h] at hk; cases hk
      apply mapM_map_ok
      intro f _
      apply mapM_map_ok
      intro x hx'
      obtain ⟨i1, i2, _, _, i5⟩ := point_facts axes x hwf (hq x hx').1.symm (hq x hx').2
      rw [gradRow_eq axes f _ _ k ax.h (by rw [i1, i2]) (by rw [i1, (hq x hx').1]; exact hkl) i5,
        bases_eq_floors axes x hwf (hq x hx').1.symm (hq x hx').2 (hoff x hx')]

/-! multilinear functions: the recursive sums are exact in every cell -/

theorem floors_length (axes : List Axis) (x : List Rat) (hl : x.length = axes.length) :
    (floors axes x).length = x.length := by
  unfold floors
  rw [floorIdx_length _ _ _ (by simp [lows, hs]) (by simp [hs, hl]), hl]; simp [hs]

theorem ideal_multilinear (axes : List Axis) (ts : List ML) (q : Query) (hwf : WF axes)
    (hq : ∀ x ∈ q.points, x.length = axes.length) (hk : q.axisOk axes.length) :
    idealAnswer axes (ts.map ML.eval) q = exactAnswer ts q := by
  cases q with
  | interp xs =>
    simp only [idealAnswer, exactAnswer, List.map_map]
    congr 1
    apply List.map_congr_left
    intro t _
    apply List.map_congr_left
    intro x hx
    exact wsum_exact t axes x _ (hq x hx).symm (floors_length axes x (hq x hx)).symm hwf.h_ne
  | grad xs k =>
    have hkl : k < axes.length := hk
    simp only [idealAnswer, exactAnswer, List.map_map, List.getElem?_eq_getElem hkl]
    congr 1
    apply List.map_congr_left
    intro t _
    apply List.map_congr_left
    intro x hx
    rw [gsum_exact t k axes x _ (hq x hx).symm (floors_length axes x (hq x hx)).symm hwf.h_ne,
      List.getElem?_eq_getElem hkl]
    have : axes[k].h ≠ 0 := hwf.h_ne _ (List.getElem_mem hkl)
    field_simp

theorem std_answer_multilinear (axes : List Axis) (ts : List ML) (q : Query) (hwf : WF axes)
    (hq : q.inBox axes) (hk : q.axisOk axes.length) :
    (mkTable axes (ts.map ML.eval)).answer q = exactAnswer ts q := by
  obtain ⟨g1, g2⟩ := guards_pass axes q.points hwf hq
  cases q with
  | interp xs =>
    simp only [Query.points] at g1 g2
    unfold Table.answer Table.interpolate mkTable rowsPoints exactAnswer
    simp only [g1, g2, Bool.not_true, Bool.false_eq_true, if_false, List.map_map]
    apply mapM_map_ok
    intro t _
    apply mapM_map_ok
    intro x hx'
    exact std_interp_point axes t x hwf (hq x hx').1 (hq x hx').2
  | grad xs k =>
    have hkl : k < axes.length := hk
    simp only [Query.points] at g1 g2
    unfold Table.answer Table.gradient mkTable rowsPoints exactAnswer
    simp only [g1, g2, Bool.not_true, Bool.false_eq_true, if_false, List.map_map]
    rw [List.getElem?_eq_getElem hkl]
    simp only
    apply mapM_map_ok
    intro t _
    apply mapM_map_ok
    intro x hx'
    exact std_grad_point axes t x k _ hwf (List.getElem?_eq_getElem hkl) (hq x hx').1 (hq x hx').2

/-! ### multilinear functions in coefficient form -/

theorem eval_ofCoefs : ∀ (x : List Rat) (cs : List Rat), (ML.ofCoefs x.length cs).eval x = evalCoefs cs x
  | [], cs => by simp [ML.ofCoefs, ML.eval, evalCoefs]
  | x :: xs, cs => by
    simp only [List.length_cons, ML.ofCoefs, ML.eval, evalCoefs]
    rw [eval_ofCoefs xs, eval_ofCoefs xs]

theorem tensorEval_cons (c : List Bool → Rat) (x : Rat) (xs : List Rat) :
    tensorEval c (x :: xs) =
      tensorEval (fun m => c (false :: m)) xs + x * tensorEval (fun m => c (true :: m)) xs := by
  unfold tensorEval
  simp only [List.length_cons, masks, List.map_append, List.map_map, sumQ_append]
  congr 1
  rw [← sumQ_map_mul_left]
  apply sumQ_map_congr
  intro m _
  simp only [Function.comp, monomial]
  ring

theorem eval_ofTensor : ∀ (x : List Rat) (c : List Bool → Rat), (ML.ofTensor x.length c).eval x = tensorEval c x
  | [], c => by simp [ML.ofTensor, ML.eval, tensorEval, masks, monomial, sumQ]
  | x :: xs, c => by
    rw [tensorEval_cons]
    simp only [List.length_cons, ML.ofTensor, ML.eval]
    rw [eval_ofTensor xs, eval_ofTensor xs]

theorem eval_affine (c0 : Rat) : ∀ (cs x : List Rat), cs.length = x.length →
    (ML.affine c0 cs).eval x = c0 + dotQ cs x
  | [], [], _ => by simp [ML.affine, ML.eval, dotQ]
  | [], _ :: _, h => by simp at h
  | _ :: _, [], h => by simp at h
  | c :: cs, x :: xs, h => by
    simp only [ML.affine, ML.eval, dotQ]
    rw [eval_affine c0 cs xs (by simpa using h)]
    ring

theorem deriv_affine (c0 : Rat) : ∀ (k : Nat) (cs x : List Rat), cs.length = x.length →
    (ML.affine c0 cs).deriv k x = cs.getD k 0
  | k, [], [], _ => by simp [ML.affine, ML.deriv]
  | _, [], _ :: _, h => by simp at h
  | _, _ :: _, [], h => by simp at h
  | 0, c :: cs, x :: xs, _ => by simp [ML.affine, ML.deriv, ML.eval]
  | k + 1, c :: cs, x :: xs, h => by
    simp only [ML.affine, ML.deriv, List.getD_cons_succ]
    rw [deriv_affine c0 k cs xs (by simpa using h)]
    ring

/-! ### partition of unity -/

theorem weights_sum_one (rw : List Rat) : sumQ ((incrs rw.length).map (vertexWeight rw)) = 1 := by
  have h := enum_wsum (List.replicate rw.length (0 : Int)) rw (fun _ => 1) (by simp)
  rw [wsum_const, List.length_replicate] at h
  rw [← h]
  apply sumQ_map_congr
  intro incr _
  ring

theorem gradWeights_sum_zero (rw : List Rat) (k : Nat) (hk : k < rw.length) :
    sumQ ((incrs rw.length).map (gradWeight k rw)) = 0 := by
  have h := enum_gsum k (List.replicate rw.length (0 : Int)) rw (fun _ => 1) (by simp) (by simpa using hk)
  rw [gsum_const, List.length_replicate] at h
  rw [← h]
  apply sumQ_map_congr
  intro incr _
  ring

theorem vertexWeight_nonneg : ∀ (d : Nat) (rw : List Rat), (∀ w ∈ rw, 0 ≤ w ∧ w ≤ 1) →
    ∀ incr ∈ incrs d, 0 ≤ vertexWeight rw incr
  | 0, rw, _, incr, hi => by
    simp only [incrs, List.mem_singleton] at hi
    subst hi
    cases rw <;> simp [vertexWeight]
  | d + 1, [], _, incr, _ => by cases incr <;> simp [vertexWeight]
  | d + 1, w :: rw, hw, incr, hi => by
    have h0 := hw w List.mem_cons_self
    have ih := vertexWeight_nonneg d rw (fun w' hw' => hw w' (List.mem_cons_of_mem _ hw'))
    simp only [incrs, List.mem_append, List.mem_map] at hi
    rcases hi with ⟨is, his, rfl⟩ | ⟨is, his, rfl⟩
    · simp only [vertexWeight]; push_cast
      exact mul_nonneg (by linarith [h0.1, h0.2]) (ih is his)
    · simp only [vertexWeight]; push_cast
      exact mul_nonneg (by linarith [h0.1, h0.2]) (ih is his)

/-! ### `assign_values`: a table fed from outside, columns in any order -/

theorem lexLe_antisymm : ∀ (a b : Coord), C46.lexLe a b = true → C46.lexLe b a = true → a = b
  | [], [], _, _ => rfl
  | [], _ :: _, _, h => by simp [C46.lexLe] at h
  | _ :: _, [], h, _ => by simp [C46.lexLe] at h
  | a :: as, b :: bs, h1, h2 => by
    simp only [C46.lexLe] at h1 h2
    by_cases hab : a < b
    · have hba : ¬ b < a := by omega
      simp [hab, hba] at h2
    · by_cases hba : b < a
      · simp [hab, hba] at h1
      · have e : a = b := by omega
        subst e
        simp only [Int.lt_irrefl, if_false] at h1 h2
        rw [lexLe_antisymm as bs h1 h2]

/-- `np.unique` of a permutation of a sorted list of distinct columns is that list -/
theorem uniqueCoords_perm (inds q : List Coord) (hp : inds.Perm q) (hq : C46.uniqueCoords q = q) :
    C46.uniqueCoords inds = q := by
  have hqs : SortedL q := hq ▸ sorted_uniqueCoords q
  have hqn : q.Nodup := hq ▸ C46.nodup_uniqueCoords q
  apply List.Perm.eq_of_pairwise (le := fun a b => C46.lexLe a b = true)
    (fun a b _ _ => lexLe_antisymm a b) (sorted_uniqueCoords inds) hqs
  rw [List.perm_ext_iff_of_nodup (C46.nodup_uniqueCoords inds) hqn]
  intro a
  rw [C46.mem_uniqueCoords]
  exact hp.mem_iff

theorem zip_map_self {α β : Type} (F : α → β) : ∀ (l : List α), l.zip (l.map F) = l.map (fun i => (i, F i))
  | [] => rfl
  | a :: l => by simp [zip_map_self F l]

theorem get1_none (s : Store) (u : Coord) (h : u ∉ s.map (·.1)) : C46.get1 s u = none := by
  induction s with
  | nil => rfl
  | cons p s ih =>
    simp only [List.map_cons, List.mem_cons, not_or] at h
    have : ¬ p.1 = u := fun e => h.1 e.symm
    simp only [C46.get1, this, if_false]
    exact ih h.2

/-- `SparseNdArray.add` of new, distinct coordinates given in ANY order stores them in sorted order and
    returns, for each stored column, its position in the batch. -/
theorem add_perm (s : Store) (q inds : List Coord) (F : Coord → Rat) (hp : inds.Perm q)
    (hq : C46.uniqueCoords q = q) (hfresh : ∀ k ∈ q, k ∉ s.map (·.1)) :
    C46.add s (inds.zip (inds.map F)) false =
      (s ++ q.map (fun k => (k, F k)), q.map (fun u => inds.idxOf u)) := by
  have hqn : q.Nodup := hq ▸ C46.nodup_uniqueCoords q
  have hin : inds.Nodup := hp.nodup_iff.mpr hqn
  rw [zip_map_self]
  unfold C46.add
  simp only [List.map_map]
  have hk : (inds.map ((fun p : Coord × Rat => p.1) ∘ fun k => (k, F k))) = inds := by
    have : ((fun p : Coord × Rat => p.1) ∘ fun k => (k, F k)) = id := rfl
    rw [this, List.map_id]
  rw [hk, uniqueCoords_perm inds q hp hq, foldl_upsert_fresh false _ q s hqn hfresh]
  congr 1
  · congr 1
    apply List.map_congr_left
    intro u hu
    rw [combine_map F inds hin u (hp.mem_iff.mpr hu)]
  · congr 1
    rw [List.filter_eq_self]
    intro u hu
    rw [get1_none s u (hfresh u hu)]
    rfl

theorem ATable.ext' (T : ATable) (h bp : List Rat) (rows : List Store) (pt : List (List Rat))
    (e1 : T.h = h) (e2 : T.basePt = bp) (e3 : T.rows = rows) (e4 : T.pt = pt) :
    T = { h := h, basePt := bp, rows := rows, pt := pt } := by
  cases T; simp_all

/-- Assigning the values at the missing quadrature points, columns in any order, produces exactly the
    table `_fill_values` would have produced. -/
theorem assign_eq_fill {fs : List (List Rat → Rat)} {T : ATable} {K : List Coord} (hg : Geo T) (hI : Inv fs T K)
    (hfs : fs ≠ []) (xs : List (List Rat)) (hx : ∀ x ∈ xs, x.length = T.h.length) (inds : List Coord)
    (hp : inds.Perm (quadPoints T xs)) :
    assign T (fs.map (fun f => (inds.map (coordOf T.basePt T.h)).map f)) (inds.map (coordOf T.basePt T.h)) inds =
      fill T fs xs := by
  obtain ⟨e1, e2, hI', _⟩ := fill_inv hg hI xs hx
  have hfresh := quadPoints_fresh hI xs
  have hq : C46.uniqueCoords (quadPoints T xs) = quadPoints T xs := quadPointsOf_unique T _
  -- the result of `SparseNdArray.add` for each component row
  have hres : List.zipWith (fun s row => C46.add s (inds.zip row) false) T.rows
      (fs.map (fun f => (inds.map (coordOf T.basePt T.h)).map f)) =
      fs.map (fun f => (rowOf T.basePt T.h (K ++ quadPoints T xs) f,
        (quadPoints T xs).map (fun u => inds.idxOf u))) := by
    rw [hI.rows]
    have : ∀ (l : List (List Rat → Rat)),
        List.zipWith (fun s row => C46.add s (inds.zip row) false) (l.map (rowOf T.basePt T.h K))
          (l.map (fun f => (inds.map (coordOf T.basePt T.h)).map f)) =
        l.map (fun f => (rowOf T.basePt T.h (K ++ quadPoints T xs) f,
          (quadPoints T xs).map (fun u => inds.idxOf u))) := by
      intro l
      induction l with
      | nil => rfl
      | cons f l ih =>
        simp only [List.map_cons, List.zipWith_cons_cons, ih, List.cons.injEq, and_true]
        rw [List.map_map]
        have := add_perm (rowOf T.basePt T.h K f) (quadPoints T xs) inds (fun i => f (coordOf T.basePt T.h i)) hp hq
          (by intro k hk; rw [rowOf_keys]; exact hfresh k hk)
        rw [show (f ∘ coordOf T.basePt T.h) = (fun i => f (coordOf T.basePt T.h i)) from rfl, this]
        simp [rowOf]
    exact this fs
  rw [ATable.ext' (fill T fs xs) T.h T.basePt _ _ e1 e2 hI'.rows hI'.pt]
  unfold assign
  simp only [hres]
  cases fs with
  | nil => exact absurd rfl hfs
  | cons f fs =>
    simp only [List.map_cons, List.map_map]
    congr 1
    · simp [e1, e2]
    · rw [hI.pt, List.map_append, e1, e2]
      congr 1
      apply List.map_congr_left
      intro u hu
      simp only [Function.comp]
      exact getD_idxOf_map (coordOf T.basePt T.h) [] inds u (hp.mem_iff.mpr hu)

theorem answerAssigned_eq {fs : List (List Rat → Rat)} {T : ATable} {K : List Coord} (hg : Geo T) (hI : Inv fs T K)
    (hfs : fs ≠ []) (q : Query) (hx : ∀ x ∈ q.points, x.length = T.h.length) (inds : List Coord)
    (hp : inds.Perm (quadPoints T q.points)) :
    T.answerAssigned fs q inds = T.answer fs q := by
  unfold ATable.answerAssigned
  simp only [assign_eq_fill hg hI hfs q.points hx inds hp]
  cases q <;> rfl

theorem runAssigned_eq_run {axes : List Axis} {fs : List (List Rat → Rat)} (hwf : WF axes) (hfs : fs ≠ []) :
    ∀ (hist : List (Query × List Coord)) (T : ATable) (K : List Coord), Over axes T → Inv fs T K →
    AssignedOK fs T hist → (∀ p ∈ hist, ∀ x ∈ p.1.points, x.length = axes.length) →
    T.runAssigned fs hist = T.run fs (hist.map (·.1))
  | [], _, _, _, _, _, _ => rfl
  | (q, inds) :: rest, T, K, ho, hI, hok, hq => by
    have hg := ho.geo hwf
    have hlen : ∀ x ∈ q.points, x.length = T.h.length := by
      intro x hx; rw [ho.h, hq (q, inds) List.mem_cons_self x hx]; simp [hs]
    have he := answerAssigned_eq hg hI hfs q hlen inds hok.1
    obtain ⟨K', ho', hI', _⟩ := adaptive_step hwf ho hI hfs q (hq (q, inds) List.mem_cons_self)
    have hok' := hok.2
    simp only [ATable.runAssigned, List.map_cons, ATable.run]
    rw [he] at hok' ⊢
    rw [runAssigned_eq_run hwf hfs rest _ K' ho' hI' hok' (fun p hp => hq p (List.mem_cons_of_mem _ hp))]

/-! ### what safeguarding does -/

theorem mem_bumps_iff : ∀ (dg : List Bool) (v : List Int), v ∈ bumps dg ↔ IsBump dg v
  | [], v => by cases v <;> simp [bumps, IsBump]
  | d :: ds, [] => by
    simp only [bumps, IsBump, iff_false]
    split <;> simp
  | d :: ds, i :: is => by
    have ih := mem_bumps_iff ds is
    simp only [bumps, IsBump]
    cases d with
    | true =>
      simp only [if_true, List.mem_append, List.mem_map]
      constructor
      · rintro (⟨w, hw, he⟩ | ⟨w, hw, he⟩)
        · obtain ⟨e1, e2⟩ := List.cons.inj he
          subst e1 e2
          exact ⟨Or.inl rfl, ih.mp hw⟩
        · obtain ⟨e1, e2⟩ := List.cons.inj he
          subst e1 e2
          exact ⟨Or.inr ⟨rfl, by simp⟩, ih.mp hw⟩
      · rintro ⟨h1 | ⟨h1, _⟩, h2⟩
        · exact Or.inl ⟨is, ih.mpr h2, by rw [h1]⟩
        · exact Or.inr ⟨is, ih.mpr h2, by rw [h1]⟩
    | false =>
      simp only [Bool.false_eq_true, if_false, List.mem_map]
      constructor
      · rintro ⟨w, hw, he⟩
        obtain ⟨e1, e2⟩ := List.cons.inj he
        subst e1 e2
        exact ⟨Or.inl rfl, ih.mp hw⟩
      · rintro ⟨h1 | ⟨_, h1⟩, h2⟩
        · exact ⟨is, ih.mpr h2, by rw [h1]⟩
        · cases h1

theorem mem_safeBases_iff (T : ATable) (xs : List (List Rat)) (b : Coord) :
    b ∈ safeBases T xs ↔
      if safeGuard T xs = true then
        ∃ x ∈ xs, ∃ v, IsBump (danger T.basePt T.h x) v ∧ b = addIncr (floorIdx T.basePt T.h x) v
      else ∃ x ∈ xs, b = floorIdx T.basePt T.h x := by
  unfold safeBases safeGuard
  simp only
  split
  · simp only [List.mem_flatMap, List.mem_map, List.zip_map']
    constructor
    · rintro ⟨p, ⟨x, hx, rfl⟩, v, hv, rfl⟩
      exact ⟨x, hx, v, (mem_bumps_iff _ _).mp hv, rfl⟩
    · rintro ⟨x, hx, v, hv, rfl⟩
      exact ⟨_, ⟨x, hx, rfl⟩, v, (mem_bumps_iff _ _).mpr hv, rfl⟩
  · simp only [List.mem_map]
    constructor
    · rintro ⟨x, hx, rfl⟩; exact ⟨x, hx, rfl⟩
    · rintro ⟨x, hx, rfl⟩; exact ⟨x, hx, rfl⟩

theorem safeBases_of_guard_false (T : ATable) (xs : List (List Rat)) (h : safeGuard T xs = false) :
    safeBases T xs = plainBases T xs := by
  unfold safeBases plainBases
  unfold safeGuard at h
  simp only [h, Bool.false_eq_true, if_false]

theorem danger_length_le : ∀ (bp h x : List Rat), (danger bp h x).length ≤ h.length
  | [], _, _ => by simp [danger]
  | _ :: _, [], _ => by simp [danger]
  | _ :: _, _ :: _, [] => by simp [danger]
  | b :: bp, h :: hs, x :: xs => by simp [danger, danger_length_le bp hs xs]

theorem safeGuard_one_param (T : ATable) (xs : List (List Rat)) (h1 : T.h.length ≤ 1) :
    safeGuard T xs = false := by
  unfold safeGuard
  rw [Bool.eq_false_iff]
  intro h
  rw [List.any_eq_true] at h
  obtain ⟨d, hd, hany⟩ := h
  obtain ⟨x, _, rfl⟩ := List.mem_map.mp hd
  have := danger_length_le T.basePt T.h x
  have : (danger T.basePt T.h x).drop 1 = [] := List.drop_eq_nil_of_le (by omega)
  simp [this] at hany

/-! ### decidable hypotheses, error branch, assignment without indices -/

theorem wfB_iff (axes : List Axis) : wfB axes = true ↔ WF axes := by
  unfold wfB WF
  simp only [List.all_eq_true, Bool.and_eq_true, decide_eq_true_eq]

theorem inBoxB_iff (axes : List Axis) (q : Query) : q.inBoxB axes = true ↔ q.inBox axes := by
  unfold Query.inBoxB Query.inBox
  simp only [List.all_eq_true, Bool.and_eq_true, decide_eq_true_eq]

theorem axisOkB_iff (d : Nat) (q : Query) : q.axisOkB d = true ↔ q.axisOk d := by
  cases q <;> simp [Query.axisOkB, Query.axisOk]

theorem outside_error (T : Table) (q : Query) (x : List Rat) (hx : x ∈ q.points)
    (hout : inBox T.axes x = false) : T.answer q = .error .valueError := by
  have hall : q.points.all (inBox T.axes) = false := by
    rw [Bool.eq_false_iff]
    intro h
    rw [List.all_eq_true] at h
    rw [h x hx] at hout
    cases hout
  cases q with
  | interp xs =>
    simp only [Query.points] at hall
    simp [Table.answer, Table.interpolate, hall]
  | grad xs k =>
    simp only [Query.points] at hall
    simp [Table.answer, Table.gradient, hall]

/-- `_find_base_vertex` recovers the index of a grid node from its coordinates -/
theorem floorIdx_coordOf : ∀ (bp h : List Rat) (i : Coord), bp.length = h.length → i.length = h.length →
    (∀ hk ∈ h, hk ≠ 0) → floorIdx bp h (coordOf bp h i) = i
  | [], [], [], _, _, _ => rfl
  | _ :: _, [], _, h, _, _ => by simp at h
  | [], _ :: _, _, h, _, _ => by simp at h
  | _, _ :: _, [], _, h, _ => by simp at h
  | [], [], _ :: _, _, h, _ => by simp at h
  | b :: bp, h :: hs, i :: is, h1, h2, hne => by
    have hh : h ≠ 0 := hne h List.mem_cons_self
    have e : (b + h * (i : Rat) - b) / h = (i : Rat) := by field_simp; ring
    simp only [coordOf, floorIdx, e, Rat.floor_intCast]
    rw [floorIdx_coordOf bp hs is (by simpa using h1) (by simpa using h2)
      (fun hk hm => hne hk (List.mem_cons_of_mem _ hm))]

theorem assignNoIdx_eq (T : ATable) (hg : Geo T) (vals : List (List Rat)) (inds : List Coord)
    (hl : ∀ i ∈ inds, i.length = T.h.length) :
    assignNoIdx T vals (inds.map (coordOf T.basePt T.h)) = assign T vals (inds.map (coordOf T.basePt T.h)) inds := by
  unfold assignNoIdx
  congr 1
  rw [List.map_map]
  conv => rhs; rw [← List.map_id inds]
  apply List.map_congr_left
  intro i hi
  exact floorIdx_coordOf _ _ i hg.hb (hl i hi) hg.hne

end PorepyVerif.C41
