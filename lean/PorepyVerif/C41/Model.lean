/-
C41 — executable model of `porepy.utils.interpolation_tables` (core Lean only).

`InterpolationTable` (pre-computed values on a Cartesian grid, piecewise multilinear interpolation,
piecewise constant gradient) and `AdaptiveInterpolationTable` (values computed on demand and kept in
a `SparseNdArray`, whose model is `PorepyVerif.C46`).

Numbers are rationals.  A point of the `d`-dimensional parameter space is a `List Rat` of length `d`
(one column of the `d × n` array the code receives); a vertex of the grid is a `List Int`
(numpy integer indices).  A function with `dim` components is a list of `dim` functions
`List Rat → Rat`; every component has its own row of table values, as in `_table_values[dim, :]`.

Not modelled: negative-index wrap-around of numpy (indices are proved to be in range), the order
in which the vectorised loop hits two different assertion failures (only the error class is
observable), `__repr__`.
-/
import PorepyVerif.C46.Model

namespace PorepyVerif.C41
open PorepyVerif.C46 (Coord Store)

inductive Err where
  | valueError
  | assertionError
  | indexError
  deriving DecidableEq, Repr

/-- left-to-right accumulation `values += …` (over `Rat` the order is immaterial) -/
def sumQ : List Rat → Rat
  | [] => 0
  | x :: xs => x + sumQ xs

/-! ### one coordinate axis of the grid -/

structure Axis where
  low : Rat
  high : Rat
  npt : Nat

namespace Axis

/-- `self._h = (high - low) / (npt - 1)` -/
def h (a : Axis) : Rat := (a.high - a.low) / ((a.npt : Rat) - 1)

/-- entry `i` of `np.linspace(low, high, npt)` -/
def pt (a : Axis) (i : Int) : Rat := a.low + (i : Rat) * a.h

/-- negation of `np.any(x_i < low_i) or np.any(high_i < x_i)` -/
def inRange (a : Axis) (x : Rat) : Bool := !(decide (x < a.low) || decide (a.high < x))

/-- `_find_base_vertex`, one axis: `np.minimum(((x - low) // h).astype(int), max(npt - 2, 0))` -/
def base (a : Axis) (x : Rat) : Int :=
  min ((x - a.low) / a.h).floor (max ((a.npt : Int) - 2) 0)

/-- `_right_left_weights`, one axis: `(x - pt_on_axes[base]) / h` -/
def rightWeight (a : Axis) (x : Rat) (b : Int) : Rat := (x - a.pt b) / a.h

end Axis

/-! ### vertex enumeration -/

/-- `itertools.product(range(2), repeat=d)` (first entry slowest) -/
def incrs : Nat → List (List Int)
  | 0 => [[]]
  | d + 1 => (incrs d).map (0 :: ·) ++ (incrs d).map (1 :: ·)

/-- `np.cumprod(np.hstack((1, npt)))[:d]`, started at `s` -/
def strides : Nat → List Nat → List Nat
  | _, [] => []
  | s, n :: ns => s :: strides (s * n) ns

/-- `np.prod(right_weight * incr + left_weight * (1 - incr), axis=0)` with `left = 1 - right` -/
def vertexWeight : List Rat → List Int → Rat
  | w :: ws, i :: is => (w * (i : Rat) + (1 - w) * (1 - (i : Rat))) * vertexWeight ws is
  | _, _ => 1

/-- the same product with `weight_ind[axis] = 2 * incr[axis] - 1` -/
def gradWeight : Nat → List Rat → List Int → Rat
  | 0, _ :: ws, i :: is => (2 * (i : Rat) - 1) * vertexWeight ws is
  | k + 1, w :: ws, i :: is => (w * (i : Rat) + (1 - w) * (1 - (i : Rat))) * gradWeight k ws is
  | _, _, _ => 1

/-- `np.sum((base_ind + incr) * self._strides, axis=0)` -/
def linIndex : List Int → List Int → List Nat → Int
  | b :: bs, i :: is, s :: ss => (b + i) * (s : Int) + linIndex bs is ss
  | _, _, _ => 0

/-! ### the standard table -/

structure Table where
  axes : List Axis
  /-- `_table_values`: one row per component of the function, Fortran-ravelled grid -/
  vals : List (List Rat)

/-- `zip(*self._coord)`: the grid points in the order of `meshgrid(..., indexing="ij")` ravelled
    Fortran style (first axis fastest) -/
def coords : List Axis → List (List Rat)
  | [] => [[]]
  | a :: rest => (coords rest).flatMap (fun ys => (List.range a.npt).map (fun (i : Nat) => a.pt (i : Int) :: ys))

/-- `InterpolationTable.__init__` -/
def mkTable (axes : List Axis) (fs : List (List Rat → Rat)) : Table :=
  { axes := axes, vals := fs.map (fun f => (coords axes).map f) }

def inBox : List Axis → List Rat → Bool
  | a :: as, x :: xs => a.inRange x && inBox as xs
  | _, _ => true

def bases : List Axis → List Rat → List Int
  | a :: as, x :: xs => a.base x :: bases as xs
  | _, _ => []

def rightWeights : List Axis → List Rat → List Int → List Rat
  | a :: as, x :: xs, b :: bs => a.rightWeight x b :: rightWeights as xs bs
  | _, _, _ => []

/-- `tol = 1e-13` of `_right_left_weights` -/
def tol : Rat := 1 / 10000000000000

/-- `np.all(right_weight >= -tol) and np.all(right_weight <= 1 + tol)` -/
def weightsOk (ws : List Rat) : Bool := ws.all (fun w => decide (-tol ≤ w) && decide (w ≤ 1 + tol))

/-- threshold of the assertion on skipped vertices in `interpolate` -/
def skipTol : Rat := 1 / 10000000000

/-- One row of values, one point: the loop over the vertices of the hypercube in `interpolate`.
    A vertex whose linear index is outside the value array is skipped, after asserting that its
    weight is (numerically) zero. -/
def interpRow (vals : List Rat) (ss : List Nat) (b : List Int) (rw : List Rat) : Except Err Rat :=
  let ts := (incrs b.length).map (fun incr => (vertexWeight rw incr, linIndex b incr ss))
  if ts.any (fun t => !(decide (t.2 < (vals.length : Int))) && !(decide (t.1 < skipTol))) then
    .error .assertionError
  else
    .ok (sumQ (ts.map (fun t => if t.2 < (vals.length : Int) then t.1 * vals.getD t.2.toNat 0 else 0)))

/-- One row, one point: the loop in `gradient` (plain indexing: an index outside the value array
    is an `IndexError`), followed by the division by `h[axis]`. -/
def gradRow (vals : List Rat) (ss : List Nat) (b : List Int) (rw : List Rat) (k : Nat) (hk : Rat) :
    Except Err Rat :=
  let ts := (incrs b.length).map (fun incr => (gradWeight k rw incr, linIndex b incr ss))
  if ts.any (fun t => !(decide (0 ≤ t.2) && decide (t.2 < (vals.length : Int)))) then
    .error .indexError
  else
    .ok (sumQ (ts.map (fun t => t.1 * vals.getD t.2.toNat 0)) / hk)

/-- all rows × all points (`values[dim, npts]`) -/
def rowsPoints (vals : List (List Rat)) (pts : List α) (f : List Rat → α → Except Err Rat) :
    Except Err (List (List Rat)) :=
  vals.mapM (fun row => pts.mapM (f row))

/-- `InterpolationTable.interpolate` on a batch of points -/
def Table.interpolate (T : Table) (xs : List (List Rat)) : Except Err (List (List Rat)) :=
  if !(xs.all (inBox T.axes)) then .error .valueError else
  let prep := xs.map (fun x => (bases T.axes x, rightWeights T.axes x (bases T.axes x)))
  if !(prep.all (fun p => weightsOk p.2)) then .error .assertionError else
  let ss := strides 1 (T.axes.map (·.npt))
  rowsPoints T.vals prep (fun row p => interpRow row ss p.1 p.2)

/-- `InterpolationTable.gradient` on a batch of points, along `axis = k` -/
def Table.gradient (T : Table) (xs : List (List Rat)) (k : Nat) : Except Err (List (List Rat)) :=
  if !(xs.all (inBox T.axes)) then .error .valueError else
  let prep := xs.map (fun x => (bases T.axes x, rightWeights T.axes x (bases T.axes x)))
  if !(prep.all (fun p => weightsOk p.2)) then .error .assertionError else
  match T.axes[k]? with
  | none => .error .indexError
  | some ax =>
    let ss := strides 1 (T.axes.map (·.npt))
    rowsPoints T.vals prep (fun row p => gradRow row ss p.1 p.2 k ax.h)

/-! ### multilinear functions -/

/-- A multilinear function of the remaining variables: a constant, or `a + x₀ · b` with `a`, `b`
    multilinear in the variables after `x₀`.  Every `Σ_{S} c_S Π_{i∈S} x_i` is of this form
    (`ML.ofCoefs`, `ML.ofTensor`) and every tree denotes such a function. -/
inductive ML where
  | const (c : Rat)
  | node (a b : ML)

namespace ML

def eval : ML → List Rat → Rat
  | .const c, _ => c
  | .node a _, [] => a.eval []
  | .node a b, x :: xs => a.eval xs + x * b.eval xs

/-- partial derivative with respect to variable `k` (a multilinear function again) -/
def deriv : Nat → ML → List Rat → Rat
  | _, .const _, _ => 0
  | _, .node _ _, [] => 0
  | 0, .node _ b, _ :: xs => b.eval xs
  | k + 1, .node a b, x :: xs => a.deriv k xs + x * b.deriv k xs

/-- the tree of a coefficient list of length `2^d` (first variable = most significant bit:
    first half of the list = monomials without `x₀`) -/
def ofCoefs : Nat → List Rat → ML
  | 0, cs => .const (cs.headD 0)
  | d + 1, cs => .node (ofCoefs d (cs.take (cs.length / 2))) (ofCoefs d (cs.drop (cs.length / 2)))

/-- the tree of a coefficient tensor `c : (subset of the axes, as a mask) → Rat` -/
def ofTensor : Nat → (List Bool → Rat) → ML
  | 0, c => .const (c [])
  | d + 1, c => .node (ofTensor d (fun m => c (false :: m))) (ofTensor d (fun m => c (true :: m)))

/-- `c₀ + Σ c_k x_k` -/
def affine (c0 : Rat) : List Rat → ML
  | [] => .const c0
  | c :: cs => .node (affine c0 cs) (.const c)

end ML

/-- all subsets of `d` axes, as masks -/
def masks : Nat → List (List Bool)
  | 0 => [[]]
  | d + 1 => (masks d).map (false :: ·) ++ (masks d).map (true :: ·)

/-- `Π_{i ∈ S} x_i` -/
def monomial : List Bool → List Rat → Rat
  | true :: m, x :: xs => x * monomial m xs
  | false :: m, _ :: xs => monomial m xs
  | _, _ => 1

/-- `Σ_{S ⊆ axes} c_S Π_{i∈S} x_i`, the textbook form of a multilinear function -/
def tensorEval (c : List Bool → Rat) (x : List Rat) : Rat :=
  sumQ ((masks x.length).map (fun m => c m * monomial m x))

/-- coefficient-list form used on the wire (driver): halves of the list = without / with `x₀` -/
def evalCoefs (cs : List Rat) : List Rat → Rat
  | [] => cs.headD 0
  | x :: xs => evalCoefs (cs.take (cs.length / 2)) xs + x * evalCoefs (cs.drop (cs.length / 2)) xs

/-- extra (not multilinear) monomials `c · Π x_i ^ e_i`, used by the correspondence check to
    exercise the tables on functions they do not reproduce exactly -/
def powProd : List Rat → List Nat → Rat
  | x :: xs, e :: es => x ^ e * powProd xs es
  | _, _ => 1

def evalExtra (terms : List (Rat × List Nat)) (x : List Rat) : Rat :=
  sumQ (terms.map (fun t => t.1 * powProd x t.2))

/-! ### the adaptive table -/

structure ATable where
  /-- `_h` (grid resolution `dx`) -/
  h : List Rat
  /-- `_base_point`: the point with index `(0, …, 0)` -/
  basePt : List Rat
  /-- `_table` (a `SparseNdArray`): one `Store` per component of the function -/
  rows : List Store
  /-- `_pt`: coordinates of the stored quadrature points, parallel to the storage of `_table` -/
  pt : List (List Rat)

def ATable.empty (h basePt : List Rat) (dim : Nat) : ATable :=
  { h := h, basePt := basePt, rows := List.replicate dim [], pt := [] }

/-- `self._base_point + self._h * ind` -/
def coordOf : List Rat → List Rat → Coord → List Rat
  | b :: bs, h :: hs, i :: is => (b + h * (i : Rat)) :: coordOf bs hs is
  | _, _, _ => []

/-- `((x_i - base_i) // h_i).astype(int)` per axis -/
def floorIdx : List Rat → List Rat → List Rat → Coord
  | b :: bs, h :: hs, x :: xs => ((x - b) / h).floor :: floorIdx bs hs xs
  | _, _, _ => []

/-- `rounding_error_danger`: `exact - floored_ind > 0.999` per axis -/
def danger : List Rat → List Rat → List Rat → List Bool
  | b :: bs, h :: hs, x :: xs =>
    decide ((x - b) / h - (((x - b) / h).floor : Rat) > 999 / 1000) :: danger bs hs xs
  | _, _, _ => []

def addIncr (b incr : Coord) : Coord := List.zipWith (· + ·) b incr

/-- all 0/1 vectors supported on the endangered axes (the zero vector first) -/
def bumps : List Bool → List (List Int)
  | [] => [[]]
  | d :: ds => if d then (bumps ds).map (0 :: ·) ++ (bumps ds).map (1 :: ·) else (bumps ds).map (0 :: ·)

/-- vertices of the hypercube with base vertex `b` (`_generate_indices(..., linear=False)`) -/
def hyper (d : Nat) (b : Coord) : List Coord := (incrs d).map (addIncr b)

/-- `_find_base_vertex(x, safeguarding=True)`: the floored index of every point and, if the guard
    `np.any(rows_with_repeats)` holds (some endangered axis has a number ≥ 1), for every point the
    indices raised by one on every non-empty set of its endangered axes. -/
def safeBases (T : ATable) (xs : List (List Rat)) : List Coord :=
  let fl := xs.map (floorIdx T.basePt T.h)
  let dg := xs.map (danger T.basePt T.h)
  if dg.any (fun d => (d.drop 1).any id) then
    (fl.zip dg).flatMap (fun p => (bumps p.2).map (addIncr p.1))
  else fl

/-- all vertices of the hypercubes with base vertices `B`, sorted and distinct
    (`np.unique(np.hstack(ind), axis=1)`) -/
def neededOf (d : Nat) (B : List Coord) : List Coord :=
  C46.uniqueCoords (B.flatMap (hyper d))

/-- `unique_ind` of `quadrature_points_from_coordinates` before known points are removed -/
def needed (T : ATable) (xs : List (List Rat)) : List Coord :=
  neededOf T.h.length (safeBases T xs)

/-- `_table._coords` -/
def ATable.keys (T : ATable) : List Coord := (T.rows.headD []).map (·.1)

/-- vertices needed for the base vertices `B` whose coordinates are not in `_pt` -/
def quadPointsOf (T : ATable) (B : List Coord) : List Coord :=
  (neededOf T.h.length B).filter (fun i => !(T.pt.contains (coordOf T.basePt T.h i)))

/-- `quadrature_points_from_coordinates(x)`: needed vertices whose coordinates are not in `_pt` -/
def quadPoints (T : ATable) (xs : List (List Rat)) : List Coord :=
  quadPointsOf T (safeBases T xs)

/-- `_fill_values`, for a given choice `B` of base vertices -/
def fillWith (T : ATable) (fs : List (List Rat → Rat)) (B : List Coord) : ATable :=
  let keep := quadPointsOf T B
  let todo := keep.filter (fun i => !(T.keys.contains i))
  if todo.isEmpty then T else
  { T with
    rows := List.zipWith
      (fun s f => (C46.add s (todo.map (fun i => (i, f (coordOf T.basePt T.h i)))) false).1) T.rows fs
    pt := T.pt ++ keep.map (coordOf T.basePt T.h) }

/-- `_fill_values` as coded: base vertices from `_find_base_vertex(x, safeguarding=True)` -/
def fill (T : ATable) (fs : List (List Rat → Rat)) (xs : List (List Rat)) : ATable :=
  fillWith T fs (safeBases T xs)

/-- base vertices WITHOUT safeguarding (`_find_base_vertex(x, safeguarding=False)`): the comparison point
    for the theorem that safeguarding never changes an answer -/
def plainBases (T : ATable) (xs : List (List Rat)) : List Coord := xs.map (floorIdx T.basePt T.h)

/-- `assign_values(val, coord, indices)`: `val[r][j]` belongs to index `inds[j]` / coordinate
    `crd[j]`; the coordinates are appended in the order returned by `SparseNdArray.add`. -/
def assign (T : ATable) (vals : List (List Rat)) (crd : List (List Rat)) (inds : List Coord) : ATable :=
  let res := List.zipWith (fun s row => C46.add s (inds.zip row) false) T.rows vals
  let perm : List Nat := match res with
    | [] => []
    | r :: _ => r.2
  { T with rows := res.map (·.1), pt := T.pt ++ perm.map (fun j => crd.getD j []) }

/-- `AdaptiveInterpolationTable._right_left_weights`, one point: `(x_i - _pt[i, pos]) / h_i` -/
def aRightWeights : List Rat → List Rat → List Rat → List Rat
  | x :: xs, p :: ps, h :: hs => (x - p) / h :: aRightWeights xs ps hs
  | _, _, _ => []

/-- base vertex and right weights of one point; the base vertex has to be stored (`assert np.all(ismem)`) -/
def aPrep (T : ATable) (x : List Rat) : Except Err (Coord × List Rat) :=
  let b := floorIdx T.basePt T.h x
  if T.keys.contains b then
    .ok (b, aRightWeights x (T.pt.getD (T.keys.idxOf b) []) T.h)
  else .error .assertionError

/-- one row, one point; every vertex has to be stored (`assert np.all(is_mem)`) -/
def aInterpRow (d : Nat) (row : Store) (p : Coord × List Rat) : Except Err Rat :=
  let ts := (incrs d).map (fun incr => (vertexWeight p.2 incr, C46.get1 row (addIncr p.1 incr)))
  if ts.any (fun t => t.2.isNone) then .error .assertionError
  else .ok (sumQ (ts.map (fun t => t.1 * t.2.getD 0)))

def aGradRow (d : Nat) (k : Nat) (hk : Rat) (row : Store) (p : Coord × List Rat) : Except Err Rat :=
  let ts := (incrs d).map (fun incr => (gradWeight k p.2 incr, C46.get1 row (addIncr p.1 incr)))
  if ts.any (fun t => t.2.isNone) then .error .assertionError
  else .ok (sumQ (ts.map (fun t => t.1 * t.2.getD 0)) / hk)

/-- parent `interpolate` with the overridden index / weight helpers (no filling) -/
def ATable.interpolateStored (T : ATable) (xs : List (List Rat)) : Except Err (List (List Rat)) :=
  match xs.mapM (aPrep T) with
  | .error e => .error e
  | .ok prep =>
    if !(prep.all (fun p => weightsOk p.2)) then .error .assertionError else
    T.rows.mapM (fun row => prep.mapM (aInterpRow T.h.length row))

def ATable.gradientStored (T : ATable) (xs : List (List Rat)) (k : Nat) : Except Err (List (List Rat)) :=
  match xs.mapM (aPrep T) with
  | .error e => .error e
  | .ok prep =>
    if !(prep.all (fun p => weightsOk p.2)) then .error .assertionError else
    match T.h[k]? with
    | none => .error .indexError
    | some hk => T.rows.mapM (fun row => prep.mapM (aGradRow T.h.length k hk row))

/-- `AdaptiveInterpolationTable.interpolate` of a table that owns its function -/
def ATable.interpolate (T : ATable) (fs : List (List Rat → Rat)) (xs : List (List Rat)) :
    ATable × Except Err (List (List Rat)) :=
  let T' := fill T fs xs
  (T', T'.interpolateStored xs)

def ATable.gradient (T : ATable) (fs : List (List Rat → Rat)) (xs : List (List Rat)) (k : Nat) :
    ATable × Except Err (List (List Rat)) :=
  let T' := fill T fs xs
  (T', T'.gradientStored xs k)

/-! ### histories of queries (both tables owning the same function) -/

inductive Query where
  | interp (xs : List (List Rat))
  | grad (xs : List (List Rat)) (k : Nat)

def Query.points : Query → List (List Rat)
  | .interp xs => xs
  | .grad xs _ => xs

def Table.answer (T : Table) : Query → Except Err (List (List Rat))
  | .interp xs => T.interpolate xs
  | .grad xs k => T.gradient xs k

def ATable.answer (T : ATable) (fs : List (List Rat → Rat)) : Query → ATable × Except Err (List (List Rat))
  | .interp xs => T.interpolate fs xs
  | .grad xs k => T.gradient fs xs k

/-- outputs of the adaptive table along a history of queries -/
def ATable.run (T : ATable) (fs : List (List Rat → Rat)) : List Query → List (Except Err (List (List Rat)))
  | [] => []
  | q :: qs => (T.answer fs q).2 :: ATable.run (T.answer fs q).1 fs qs

/-! ### vocabulary of the specification -/

/-- well-formed grid: at least two points per axis and a non-degenerate interval -/
def WF (axes : List Axis) : Prop := ∀ a ∈ axes, 2 ≤ a.npt ∧ a.low < a.high

/-- base point and resolution of the adaptive table laid over the grid of a standard table -/
def lows (axes : List Axis) : List Rat := axes.map (·.low)
def hs (axes : List Axis) : List Rat := axes.map (·.h)

/-- no coordinate of the point lies on an upper face of the box -/
def offUpper : List Axis → List Rat → Bool
  | a :: as, x :: xs => decide (x < a.high) && offUpper as xs
  | _, _ => true

/-- a query the standard table accepts: `d` coordinates per point, all points in the closed box -/
def Query.inBox (axes : List Axis) (q : Query) : Prop :=
  ∀ x ∈ q.points, x.length = axes.length ∧ PorepyVerif.C41.inBox axes x = true

/-- gradient queries avoid the upper faces of the box (where the two tables use different cells) -/
def Query.gradOffUpper (axes : List Axis) : Query → Prop
  | .interp _ => True
  | .grad xs _ => ∀ x ∈ xs, offUpper axes x = true

/-- the differentiation axis exists -/
def Query.axisOk (d : Nat) : Query → Prop
  | .interp _ => True
  | .grad _ k => k < d

/-- the exact answers for multilinear components: values, resp. partial derivatives -/
def exactAnswer (ts : List ML) : Query → Except Err (List (List Rat))
  | .interp xs => .ok (ts.map (fun t => xs.map t.eval))
  | .grad xs k => .ok (ts.map (fun t => xs.map (t.deriv k)))

/-- `v` is a multi-index of the grid -/
def inGrid : List Axis → List Int → Prop
  | a :: as, i :: is => 0 ≤ i ∧ i < (a.npt : Int) ∧ inGrid as is
  | [], [] => True
  | _, _ => False

/-- geometric well-formedness of an adaptive table -/
structure Geo (T : ATable) : Prop where
  hb : T.basePt.length = T.h.length
  hne : ∀ hk ∈ T.h, hk ≠ 0

/-- the row of a component `f` when the vertices `K` are stored (in this order) -/
def rowOf (bp h : List Rat) (K : List Coord) (f : List Rat → Rat) : Store :=
  K.map (fun i => (i, f (coordOf bp h i)))

/-- Storage invariant: every component row holds exactly the vertices `K`, in the same order, with the
    function values at their coordinates; `_pt` holds their coordinates in the same order. -/
structure Inv (fs : List (List Rat → Rat)) (T : ATable) (K : List Coord) : Prop where
  rows : T.rows = fs.map (rowOf T.basePt T.h K)
  pt : T.pt = K.map (coordOf T.basePt T.h)
  nodup : K.Nodup
  len : ∀ i ∈ K, i.length = T.h.length

/-- `Σ c_k x_k` -/
def dotQ : List Rat → List Rat → Rat
  | c :: cs, x :: xs => c * x + dotQ cs xs
  | _, _ => 0

/-! ### variants of the adaptive table used by the specification -/

/-- `v` raises the index by one on some of the endangered axes and leaves the others alone -/
def IsBump : List Bool → List Int → Prop
  | [], [] => True
  | d :: ds, i :: is => (i = 0 ∨ (i = 1 ∧ d = true)) ∧ IsBump ds is
  | _, _ => False

/-- the guard `np.any(rows_with_repeats)` of the code: some point is endangered on an axis with number ≥ 1
    (`rows_with_repeats` holds axis NUMBERS, so a lone `0` counts as false) -/
def safeGuard (T : ATable) (xs : List (List Rat)) : Bool :=
  (xs.map (danger T.basePt T.h)).any (fun d => (d.drop 1).any id)


/-- one query with a given selection of base vertices for the filling step -/
def ATable.answerWith (sel : ATable → List (List Rat) → List Coord) (T : ATable) (fs : List (List Rat → Rat))
    (q : Query) : ATable × Except Err (List (List Rat)) :=
  let T' := fillWith T fs (sel T q.points)
  (T', match q with
    | .interp xs => T'.interpolateStored xs
    | .grad xs k => T'.gradientStored xs k)

def ATable.runWith (sel : ATable → List (List Rat) → List Coord) (T : ATable) (fs : List (List Rat → Rat)) :
    List Query → List (Except Err (List (List Rat)))
  | [] => []
  | q :: qs => (T.answerWith sel fs q).2 :: ATable.runWith sel (T.answerWith sel fs q).1 fs qs

/-- A table WITHOUT a function, fed from outside: the caller obtains the missing quadrature points,
    evaluates the function there, and calls `assign_values(val, coord, indices)` with the columns in any
    order `inds`; then `interpolate` / `gradient` of the stored table. -/
def ATable.answerAssigned (T : ATable) (fs : List (List Rat → Rat)) (q : Query) (inds : List Coord) :
    ATable × Except Err (List (List Rat)) :=
  let crd := inds.map (coordOf T.basePt T.h)
  let T' := assign T (fs.map (fun f => crd.map f)) crd inds
  (T', match q with
    | .interp xs => T'.interpolateStored xs
    | .grad xs k => T'.gradientStored xs k)

def ATable.runAssigned (T : ATable) (fs : List (List Rat → Rat)) :
    List (Query × List Coord) → List (Except Err (List (List Rat)))
  | [] => []
  | (q, inds) :: rest => (T.answerAssigned fs q inds).2 :: ATable.runAssigned (T.answerAssigned fs q inds).1 fs rest

/-- the columns assigned before each query are the points `quadrature_points_from_coordinates` returned
    for that query, in some order -/
def AssignedOK (fs : List (List Rat → Rat)) : ATable → List (Query × List Coord) → Prop
  | _, [] => True
  | T, (q, inds) :: rest => inds.Perm (quadPoints T q.points) ∧ AssignedOK fs (T.answerAssigned fs q inds).1 rest

/-! ### decidable forms of the hypotheses (evaluated by the driver on every case) -/

/-- `WF` as a Boolean -/
def wfB (axes : List Axis) : Bool := axes.all (fun a => decide (2 ≤ a.npt) && decide (a.low < a.high))

/-- `Query.inBox` as a Boolean -/
def Query.inBoxB (axes : List Axis) (q : Query) : Bool :=
  q.points.all (fun x => decide (x.length = axes.length) && PorepyVerif.C41.inBox axes x)

/-- `Query.axisOk` as a Boolean -/
def Query.axisOkB (d : Nat) : Query → Bool
  | .interp _ => true
  | .grad _ k => decide (k < d)

/-- `assign_values(val, coord)` WITHOUT indices: the indices are recovered from the coordinates by
    `_find_base_vertex(coord)` (plain floor division) -/
def assignNoIdx (T : ATable) (vals : List (List Rat)) (crd : List (List Rat)) : ATable :=
  assign T vals crd (crd.map (floorIdx T.basePt T.h))

end PorepyVerif.C41
