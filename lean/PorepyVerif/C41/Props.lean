import PorepyVerif.C41.Model
