/-
C41 — property theorems (statements only use definitions of Model.lean; helper lemmas in Lemmas.lean).

Property: for any box, resolution and multilinear function (in any number of parameters), the interpolation
table reproduces the function exactly everywhere in the box, its gradient is exact for linear functions, and
the adaptive table agrees with the standard table at every queried point.

Conventions: a grid is a list of axes `(low, high, npt)` (its length `d` is the number of parameters), a point
is a list of `d` rationals, a function with several components is a list of functions, a query is a batch of
points.  `WF axes` = every axis has `npt ≥ 2` and `low < high` (otherwise the mesh size `h` is 0 or undefined).
Multilinear functions are the denotations `ML.eval t` of trees `t : ML`; `eval_ofTensor` shows that every
`Σ_{S ⊆ axes} c_S Π_{i∈S} x_i` is of this form (and `eval_ofCoefs` the same for the wire format of the driver).
-/
import PorepyVerif.C41.Lemmas

namespace PorepyVerif.C41

/-! ### the class of functions -/

/-- Every coefficient tensor `c : subsets of the axes → ℚ` is represented by a tree:
    `Σ_S c_S Π_{i∈S} x_i = (ML.ofTensor d c).eval x`. -/
theorem multilinear_as_tree (c : List Bool → Rat) (x : List Rat) :
    tensorEval c x = (ML.ofTensor x.length c).eval x := (eval_ofTensor x c).symm

/-- … and so is the coefficient-list form the driver evaluates. -/
theorem coefs_as_tree (cs : List Rat) (x : List Rat) :
    evalCoefs cs x = (ML.ofCoefs x.length cs).eval x := (eval_ofCoefs x cs).symm

/-- `ML.affine c₀ cs` denotes `c₀ + Σ c_k x_k`. -/
theorem affine_as_tree (c0 : Rat) (cs x : List Rat) (h : cs.length = x.length) :
    (ML.affine c0 cs).eval x = c0 + dotQ cs x := eval_affine c0 cs x h

/-! ### the standard table -/

/-- **Exactness of interpolation.** For every number of parameters, every well-formed grid, every list of
    multilinear component functions and every batch of points of the closed box (faces, edges, corners and
    grid nodes included), `InterpolationTable.interpolate` returns the function values. -/
theorem interp_multilinear_exact (axes : List Axis) (ts : List ML) (xs : List (List Rat)) (hwf : WF axes)
    (hx : ∀ x ∈ xs, x.length = axes.length ∧ inBox axes x = true) :
    (mkTable axes (ts.map ML.eval)).interpolate xs = .ok (ts.map (fun t => xs.map t.eval)) :=
  std_answer_multilinear axes ts (.interp xs) hwf hx trivial

/-- The same statement for functions given as coefficient tensors `Σ_S c_S Π_{i∈S} x_i`. -/
theorem interp_tensor_exact (axes : List Axis) (cs : List (List Bool → Rat)) (xs : List (List Rat))
    (hwf : WF axes) (hx : ∀ x ∈ xs, x.length = axes.length ∧ inBox axes x = true) :
    (mkTable axes (cs.map tensorEval)).interpolate xs = .ok (cs.map (fun c => xs.map (tensorEval c))) := by
  have h := interp_multilinear_exact axes (cs.map (ML.ofTensor axes.length)) xs hwf hx
  -- the table only evaluates the functions at points with `d` coordinates
  have hv : ∀ c, ∀ p ∈ coords axes, (ML.ofTensor axes.length c).eval p = tensorEval c p := by
    intro c p hp
    have : p.length = axes.length := by
      clear h hx
      induction axes generalizing p with
      | nil => simp [coords] at hp; simp [hp]
      | cons a as ih =>
        simp only [coords, List.mem_flatMap, List.mem_map] at hp
        obtain ⟨ys, hys, i, _, rfl⟩ := hp
        simp [ih (fun b hb => hwf b (List.mem_cons_of_mem _ hb)) ys hys]
    rw [← this]; exact eval_ofTensor p c
  have e1 : mkTable axes ((cs.map (ML.ofTensor axes.length)).map ML.eval) = mkTable axes (cs.map tensorEval) := by
    simp only [mkTable, List.map_map]
    congr 1
    apply List.map_congr_left
    intro c _
    exact List.map_congr_left (fun p hp => hv c p hp)
  rw [e1] at h
  rw [h, List.map_map]
  congr 1
  apply List.map_congr_left
  intro c _
  apply List.map_congr_left
  intro x hx'
  rw [← (hx x hx').1]; exact eval_ofTensor x c

/-- **Exactness of the gradient** for multilinear functions: along every axis `k` the piecewise constant
    gradient is the partial derivative, everywhere in the closed box (upper faces included: finding F7,
    repaired in /repo by clamping the base vertex to `npt - 2`). -/
theorem grad_multilinear_exact (axes : List Axis) (ts : List ML) (xs : List (List Rat)) (k : Nat)
    (hwf : WF axes) (hk : k < axes.length)
    (hx : ∀ x ∈ xs, x.length = axes.length ∧ inBox axes x = true) :
    (mkTable axes (ts.map ML.eval)).gradient xs k = .ok (ts.map (fun t => xs.map (t.deriv k))) :=
  std_answer_multilinear axes ts (.grad xs k) hwf hx hk

/-- **Exactness of the gradient for linear (affine) functions** `c₀ + Σ c_j x_j`: the gradient along axis `k`
    is `c_k` at every point of the closed box. -/
theorem grad_linear_exact (axes : List Axis) (cfs : List (Rat × List Rat)) (xs : List (List Rat)) (k : Nat)
    (hwf : WF axes) (hk : k < axes.length) (hc : ∀ p ∈ cfs, p.2.length = axes.length)
    (hx : ∀ x ∈ xs, x.length = axes.length ∧ inBox axes x = true) :
    (mkTable axes (cfs.map (fun p => (ML.affine p.1 p.2).eval))).gradient xs k =
      .ok (cfs.map (fun p => xs.map (fun _ => p.2.getD k 0))) := by
  have h := grad_multilinear_exact axes (cfs.map (fun p => ML.affine p.1 p.2)) xs k hwf hk hx
  rw [List.map_map] at h
  rw [show (cfs.map (fun p => (ML.affine p.1 p.2).eval)) = cfs.map (ML.eval ∘ fun p => ML.affine p.1 p.2) from rfl,
    h, List.map_map]
  congr 1
  apply List.map_congr_left
  intro p hp
  apply List.map_congr_left
  intro x hx'
  exact deriv_affine p.1 k p.2 x (by rw [hc p hp, (hx x hx').1])

/-- **Partition of unity**: the `2^d` vertex weights of `interpolate` sum to one (for any right weights),
    are non-negative when the right weights are in `[0, 1]`, and the weights of `gradient` sum to zero. -/
theorem weights_partition_unity (rw : List Rat) :
    sumQ ((incrs rw.length).map (vertexWeight rw)) = 1 ∧
    ((∀ w ∈ rw, 0 ≤ w ∧ w ≤ 1) → ∀ incr ∈ incrs rw.length, 0 ≤ vertexWeight rw incr) ∧
    ∀ k, k < rw.length → sumQ ((incrs rw.length).map (gradWeight k rw)) = 0 :=
  ⟨weights_sum_one rw, vertexWeight_nonneg rw.length rw, gradWeights_sum_zero rw⟩

/-- **Base vertex and weight in range**, one axis: for `x` in `[low, high]` the base index is in
    `[0, npt - 2]` (so that `base + 1` is still a grid index) and the right weight is in `[0, 1]`. -/
theorem base_in_range (a : Axis) (x : Rat) (hn : 2 ≤ a.npt) (hlh : a.low < a.high)
    (hx : a.low ≤ x) (hx2 : x ≤ a.high) :
    0 ≤ a.base x ∧ a.base x ≤ (a.npt : Int) - 2 ∧
      0 ≤ a.rightWeight x (a.base x) ∧ a.rightWeight x (a.base x) ≤ 1 :=
  axis_range a x hn hlh hx hx2

/-- … for a point of the box: the assertion of `_right_left_weights` holds, all weights are in `[0, 1]`, and
    every vertex of the hypercube used is a vertex of the grid (no index leaves the value array). -/
theorem point_in_range (axes : List Axis) (x : List Rat) (hwf : WF axes) (hl : x.length = axes.length)
    (hb : inBox axes x = true) :
    weightsOk (rightWeights axes x (bases axes x)) = true ∧
    (∀ w ∈ rightWeights axes x (bases axes x), 0 ≤ w ∧ w ≤ 1) ∧
    ∀ incr ∈ incrs (bases axes x).length, inGrid axes (addIncr (bases axes x) incr) := by
  obtain ⟨i1, i2, i3, i4, i5⟩ := point_facts axes x hwf hl.symm hb
  exact ⟨i3, i4, fun incr hi => i5 _ (mem_incrs_inCube _ _ (by rw [i1, i2]) incr hi)⟩

/-! ### the adaptive table -/

/-- **Adaptive = standard, arbitrary functions.** For ANY component functions `fs` (not only multilinear
    ones), any history of queries whose points lie in the closed box — interpolation anywhere in the box,
    gradients at points off the upper faces — an adaptive table with `dx = h`, `base_point = low`, started
    empty and filling its `SparseNdArray` on demand, gives exactly the answers of the standard table.
    (On an upper face the two tables differentiate in different cells, so gradients agree there only for
    functions whose difference quotients do not depend on the cell: see the next theorem.) -/
theorem adaptive_eq_standard (axes : List Axis) (fs : List (List Rat → Rat)) (qs : List Query)
    (hwf : WF axes) (hfs : fs ≠ [])
    (hq : ∀ q ∈ qs, q.inBox axes ∧ q.gradOffUpper axes) :
    (ATable.empty (hs axes) (lows axes) fs.length).run fs qs = qs.map (mkTable axes fs).answer := by
  rw [adaptive_run_ideal hwf hfs qs (ATable.empty (hs axes) (lows axes) fs.length) [] ⟨rfl, rfl⟩ (empty_inv _ _ fs)
    (fun q hq' x hx => ((hq q hq').1 x hx).1)]
  apply List.map_congr_left
  intro q hq'
  exact (std_answer_general axes fs q hwf (hq q hq').1 (hq q hq').2).symm

/-- **Adaptive = standard = exact, multilinear functions.** For multilinear components every query in the
    closed box (gradients on the upper faces included) is answered identically by both tables, namely
    with the exact values / partial derivatives. -/
theorem adaptive_eq_standard_multilinear (axes : List Axis) (ts : List ML) (qs : List Query)
    (hwf : WF axes) (hts : ts ≠ [])
    (hq : ∀ q ∈ qs, q.inBox axes ∧ q.axisOk axes.length) :
    (ATable.empty (hs axes) (lows axes) (ts.map ML.eval).length).run (ts.map ML.eval) qs =
        qs.map (mkTable axes (ts.map ML.eval)).answer ∧
    qs.map (mkTable axes (ts.map ML.eval)).answer = qs.map (exactAnswer ts) := by
  have h2 : qs.map (mkTable axes (ts.map ML.eval)).answer = qs.map (exactAnswer ts) :=
    List.map_congr_left (fun q hq' => std_answer_multilinear axes ts q hwf (hq q hq').1 (hq q hq').2)
  refine ⟨?_, h2⟩
  rw [h2, adaptive_run_ideal hwf (by simpa using hts) qs
    (ATable.empty (hs axes) (lows axes) (ts.map ML.eval).length) [] ⟨rfl, rfl⟩ (empty_inv _ _ _)
    (fun q hq' x hx => ((hq q hq').1 x hx).1)]
  apply List.map_congr_left
  intro q hq'
  exact ideal_multilinear axes ts q hwf (fun x hx => ((hq q hq').1 x hx).1) (hq q hq').2

/-- The adaptive table has no box: for multilinear components it is exact at EVERY point of the parameter
    space (any history, any points with `d` coordinates). -/
theorem adaptive_multilinear_exact (axes : List Axis) (ts : List ML) (qs : List Query)
    (hwf : WF axes) (hts : ts ≠ [])
    (hq : ∀ q ∈ qs, (∀ x ∈ q.points, x.length = axes.length) ∧ q.axisOk axes.length) :
    (ATable.empty (hs axes) (lows axes) (ts.map ML.eval).length).run (ts.map ML.eval) qs =
      qs.map (exactAnswer ts) := by
  rw [adaptive_run_ideal hwf (by simpa using hts) qs
    (ATable.empty (hs axes) (lows axes) (ts.map ML.eval).length) [] ⟨rfl, rfl⟩ (empty_inv _ _ _)
    (fun q hq' => (hq q hq').1)]
  apply List.map_congr_left
  intro q hq'
  exact ideal_multilinear axes ts q hwf (hq q hq').1 (hq q hq').2

/-- **On-demand storage** (refinement through the C46 sparse array): one call of `_fill_values` keeps the
    storage invariant (every component row and `_pt` hold the same vertices in the same order, each vertex
    once, with the function value at its coordinate), appends exactly the new quadrature points — each a
    vertex of a hypercube the query needs (or of a safeguarding neighbour) —, and afterwards every vertex
    of the hypercube of every queried point is stored. -/
theorem adaptive_fill_on_demand (fs : List (List Rat → Rat)) (T : ATable) (K : List C46.Coord) (hg : Geo T)
    (hI : Inv fs T K) (xs : List (List Rat)) (hx : ∀ x ∈ xs, x.length = T.h.length) :
    Inv fs (fill T fs xs) (K ++ quadPoints T xs) ∧
    (∀ i ∈ quadPoints T xs, i ∈ needed T xs ∧ i ∉ K) ∧
    ∀ x ∈ xs, ∀ incr ∈ incrs T.h.length,
      addIncr (floorIdx T.basePt T.h x) incr ∈ K ++ quadPoints T xs := by
  obtain ⟨_, _, h3, h4⟩ := fill_inv hg hI xs hx
  exact ⟨h3, fun i hi => ⟨(List.mem_filter.mp hi).1, quadPoints_fresh hI xs i hi⟩, h4⟩

/-! ### the adaptive table fed from outside (`quadrature_points_from_coordinates` / `assign_values`) -/

/-- **`assign_values` = `_fill_values`.** If the caller evaluates the function at the points returned by
    `quadrature_points_from_coordinates(x)` and passes values, coordinates and indices to `assign_values`
    with the columns in ANY order (`inds` is any permutation of the returned indices), the table afterwards
    is identical — storage order of the sparse array and of `_pt` included — to the table `_fill_values`
    would have produced. (`SparseNdArray.add` sorts the new columns; `assign_values` permutes the
    coordinates with the index vector `add` returns.) -/
theorem assign_values_eq_fill (fs : List (List Rat → Rat)) (T : ATable) (K : List C46.Coord) (hg : Geo T)
    (hI : Inv fs T K) (hfs : fs ≠ []) (xs : List (List Rat)) (hx : ∀ x ∈ xs, x.length = T.h.length)
    (inds : List C46.Coord) (hp : inds.Perm (quadPoints T xs)) :
    assign T (fs.map (fun f => (inds.map (coordOf T.basePt T.h)).map f)) (inds.map (coordOf T.basePt T.h)) inds =
      fill T fs xs :=
  assign_eq_fill hg hI hfs xs hx inds hp

/-- **Assigned table = standard table**, arbitrary functions: along any history in which, before each query,
    the missing quadrature points of that query are assigned in any column order, `interpolate` (anywhere in
    the closed box) and `gradient` (off the upper faces) of the function-less adaptive table equal the
    standard table's. -/
theorem assigned_eq_standard (axes : List Axis) (fs : List (List Rat → Rat)) (hist : List (Query × List C46.Coord))
    (hwf : WF axes) (hfs : fs ≠ [])
    (hok : AssignedOK fs (ATable.empty (hs axes) (lows axes) fs.length) hist)
    (hq : ∀ p ∈ hist, p.1.inBox axes ∧ p.1.gradOffUpper axes) :
    (ATable.empty (hs axes) (lows axes) fs.length).runAssigned fs hist =
      hist.map (fun p => (mkTable axes fs).answer p.1) := by
  rw [runAssigned_eq_run hwf hfs hist (ATable.empty (hs axes) (lows axes) fs.length) [] ⟨rfl, rfl⟩
    (empty_inv _ _ fs) hok (fun p hp x hx => ((hq p hp).1 x hx).1),
    adaptive_eq_standard axes fs (hist.map (·.1)) hwf hfs
      (fun q hq' => by obtain ⟨p, hp, rfl⟩ := List.mem_map.mp hq'; exact hq p hp),
    List.map_map]
  rfl

/-- … and for multilinear components, on the whole closed box (gradients on the upper faces included), the
    assigned table returns the exact values / partial derivatives, as the standard table does. -/
theorem assigned_eq_standard_multilinear (axes : List Axis) (ts : List ML) (hist : List (Query × List C46.Coord))
    (hwf : WF axes) (hts : ts ≠ [])
    (hok : AssignedOK (ts.map ML.eval) (ATable.empty (hs axes) (lows axes) (ts.map ML.eval).length) hist)
    (hq : ∀ p ∈ hist, p.1.inBox axes ∧ p.1.axisOk axes.length) :
    (ATable.empty (hs axes) (lows axes) (ts.map ML.eval).length).runAssigned (ts.map ML.eval) hist =
        hist.map (fun p => (mkTable axes (ts.map ML.eval)).answer p.1) ∧
    hist.map (fun p => (mkTable axes (ts.map ML.eval)).answer p.1) = hist.map (fun p => exactAnswer ts p.1) := by
  have hqs : ∀ q ∈ hist.map (·.1), q.inBox axes ∧ q.axisOk axes.length := fun q hq' => by
    obtain ⟨p, hp, rfl⟩ := List.mem_map.mp hq'; exact hq p hp
  obtain ⟨h1, h2⟩ := adaptive_eq_standard_multilinear axes ts (hist.map (·.1)) hwf hts hqs
  rw [List.map_map] at h1 h2
  rw [List.map_map] at h2
  refine ⟨?_, h2⟩
  rw [runAssigned_eq_run hwf (by simpa using hts) hist
    (ATable.empty (hs axes) (lows axes) (ts.map ML.eval).length) [] ⟨rfl, rfl⟩
    (empty_inv _ _ _) hok (fun p hp x hx => ((hq p hp).1 x hx).1), h1]
  rfl

/-! ### the safeguarding branch of the adaptive `_find_base_vertex` -/

/-- **What safeguarding computes.** With `danger x k` = "the fractional part of `(x_k − base_k)/h_k` exceeds
    0.999", and the guard `safeGuard` = "some queried point is endangered on an axis with number ≥ 1":
    if the guard holds, the base vertices are, for every point, its floored index raised by one on every
    subset (the empty one included) of ITS endangered axes; otherwise just the floored indices. -/
theorem safeguarding_spec (T : ATable) (xs : List (List Rat)) (b : C46.Coord) :
    b ∈ safeBases T xs ↔
      if safeGuard T xs = true then
        ∃ x ∈ xs, ∃ v, IsBump (danger T.basePt T.h x) v ∧ b = addIncr (floorIdx T.basePt T.h x) v
      else ∃ x ∈ xs, b = floorIdx T.basePt T.h x :=
  mem_safeBases_iff T xs b

/-- **The axis-0 quirk.** The guard tests the NUMBERS of the endangered axes (`np.any(rows_with_repeats)`), so
    endangerment on axis 0 alone never triggers safeguarding: whenever no point is endangered on an axis
    ≥ 1 the safeguarded base vertices are exactly the plain floored indices — in particular always for
    tables with one parameter. -/
theorem safeguarding_axis0_quirk (T : ATable) (xs : List (List Rat)) :
    (safeGuard T xs = false → safeBases T xs = plainBases T xs) ∧
    (T.h.length ≤ 1 → safeBases T xs = plainBases T xs) :=
  ⟨safeBases_of_guard_false T xs, fun h1 => safeBases_of_guard_false T xs (safeGuard_one_param T xs h1)⟩

/-- **Safeguarding never changes an answer** (exact arithmetic): for ANY component functions and any history of
    queries (any points with `d` coordinates, inside the box or not), the adaptive table as coded (filling
    with the safeguarded base vertices) and the table that fills with the plain floored indices return the
    same answers. Safeguarding only stores additional vertices. -/
theorem safeguarding_irrelevant (axes : List Axis) (fs : List (List Rat → Rat)) (qs : List Query)
    (hwf : WF axes) (hfs : fs ≠ []) (hq : ∀ q ∈ qs, ∀ x ∈ q.points, x.length = axes.length) :
    (ATable.empty (hs axes) (lows axes) fs.length).run fs qs =
      (ATable.empty (hs axes) (lows axes) fs.length).runWith plainBases fs qs := by
  rw [adaptive_run_ideal hwf hfs qs (ATable.empty (hs axes) (lows axes) fs.length) [] ⟨rfl, rfl⟩
      (empty_inv _ _ fs) hq,
    runWith_ideal goodSel_plain hwf hfs qs (ATable.empty (hs axes) (lows axes) fs.length) [] ⟨rfl, rfl⟩
      (empty_inv _ _ fs) hq]

/-! ### hypotheses as decidable input conditions; the error branch; assignment without indices -/

/-- The hypotheses of the theorems above are decidable conditions on the INPUT (grid and queries); the driver
    evaluates `wfB`, `Query.inBoxB`, `Query.axisOkB` on every generated case and the harness compares them
    with its own evaluation. -/
theorem hypotheses_decidable (axes : List Axis) (q : Query) :
    (wfB axes = true ↔ WF axes) ∧ (q.inBoxB axes = true ↔ q.inBox axes) ∧
    (q.axisOkB axes.length = true ↔ q.axisOk axes.length) :=
  ⟨wfB_iff axes, inBoxB_iff axes q, axisOkB_iff axes.length q⟩

/-- The whole property for the standard table with Boolean hypotheses only: on a well-formed grid, every
    in-box query on multilinear components is answered exactly. -/
theorem standard_exact_decidable (axes : List Axis) (ts : List ML) (q : Query)
    (h1 : wfB axes = true) (h2 : q.inBoxB axes = true) (h3 : q.axisOkB axes.length = true) :
    (mkTable axes (ts.map ML.eval)).answer q = exactAnswer ts q :=
  std_answer_multilinear axes ts q ((wfB_iff axes).mp h1) ((inBoxB_iff axes q).mp h2)
    ((axisOkB_iff axes.length q).mp h3)

/-- **Out-of-box queries raise `ValueError`**: if any point of the batch has a coordinate outside
    `[low, high]`, `interpolate` and `gradient` of ANY standard table answer `ValueError` (before any other
    check). -/
theorem outside_raises (T : Table) (q : Query) (x : List Rat) (hx : x ∈ q.points)
    (hout : inBox T.axes x = false) : T.answer q = .error .valueError :=
  outside_error T q x hx hout

/-- **`assign_values` without indices** recovers the indices from the coordinates by floor division; for
    coordinates that are grid nodes (as returned by `quadrature_points_from_coordinates`) this is the same
    assignment as with the indices passed, so `assign_values_eq_fill` and `assigned_eq_standard` apply. -/
theorem assign_without_indices (T : ATable) (hg : Geo T) (vals : List (List Rat)) (inds : List C46.Coord)
    (hl : ∀ i ∈ inds, i.length = T.h.length) :
    assignNoIdx T vals (inds.map (coordOf T.basePt T.h)) = assign T vals (inds.map (coordOf T.basePt T.h)) inds :=
  assignNoIdx_eq T hg vals inds hl

/-! ### non-vacuity: concrete grids, functions and points (the queries of finding F7 among them) -/

/-- 3 × 3 table on `[0,1]²` -/
def ax2 : List Axis := [⟨0, 1, 3⟩, ⟨0, 1, 3⟩]
/-- `2x + 3y` and `1 + 2x + 3y + 5xy` -/
def t23 : ML := .node (.node (.const 0) (.const 3)) (.const 2)
def t235 : ML := .node (.node (.const 1) (.const 3)) (.node (.const 2) (.const 5))

theorem ax2_wf : WF ax2 := by
  intro a ha
  simp only [ax2, List.mem_cons, List.mem_nil_iff, or_false] at ha
  rcases ha with rfl | rfl <;> exact ⟨by decide, by decide⟩

/-- the model computes: F7 queries (upper faces, the corner) and an interior point -/
example : (mkTable ax2 [t23.eval]).gradient [[1, 3/10]] 0 = .ok [[2]] := by decide +kernel
example : (mkTable ax2 [t23.eval]).gradient [[3/10, 1]] 0 = .ok [[2]] := by decide +kernel
example : (mkTable ax2 [t23.eval]).gradient [[3/10, 1], [1, 1]] 1 = .ok [[3, 3]] := by decide +kernel
example : (mkTable ax2 [t23.eval, t235.eval]).interpolate [[1, 1], [1/4, 1/2]] = .ok [[5, 2], [11, 29/8]] := by
  decide +kernel
example : (mkTable ax2 [t23.eval]).interpolate [[3/2, 1/2]] = .error .valueError := by decide +kernel
/-- a function that is NOT multilinear is not reproduced (x² at 1/4 on a grid of mesh 1/2 gives 1/8) -/
example : (mkTable ax2 [fun x => x.headD 0 * x.headD 0]).interpolate [[1/4, 0]] = .ok [[1/8]] := by decide +kernel

/-- the hypotheses of the theorems are satisfiable -/
example : (mkTable ax2 [t23.eval, t235.eval]).interpolate [[1, 3/10], [1, 1]] =
    .ok [[t23.eval [1, 3/10], t23.eval [1, 1]], [t235.eval [1, 3/10], t235.eval [1, 1]]] :=
  interp_multilinear_exact ax2 [t23, t235] [[1, 3/10], [1, 1]] ax2_wf (by decide +kernel)

example : (mkTable ax2 [(ML.affine 7 [2, 3]).eval]).gradient [[1, 3/10], [3/10, 1], [1, 1]] 1 = .ok [[3, 3, 3]] :=
  grad_linear_exact ax2 [(7, [2, 3])] [[1, 3/10], [3/10, 1], [1, 1]] 1 ax2_wf (by decide) (by decide) (by decide +kernel)

/-- adaptive table, history with a repeated point, a corner and an upper-face gradient -/
example : (ATable.empty (hs ax2) (lows ax2) 1).run [t235.eval]
      [.interp [[1/4, 1/2], [1, 1]], .grad [[1, 3/10]] 0, .interp [[1/4, 1/2]]] =
    [.ok [[29/8, 11]], .ok [[7/2]], .ok [[29/8]]] := by decide +kernel

example : Query.inBox ax2 (.grad [[1/2, 3/10]] 0) ∧ Query.gradOffUpper ax2 (.grad [[1/2, 3/10]] 0) := by
  constructor
  · intro x hx
    simp only [Query.points, List.mem_singleton] at hx
    subst hx
    exact ⟨rfl, by decide +kernel⟩
  · intro x hx
    simp only [List.mem_singleton] at hx
    subst hx
    decide +kernel

/-- table fed from outside: the four vertices around (1/4, 1/2) assigned in a scrambled order, then two more
    for the second query; the hypothesis `AssignedOK` holds and the answers are the exact values -/
def histA : List (Query × List C46.Coord) :=
  [(.interp [[1/4, 1/2]], [[1, 2], [0, 1], [1, 1], [0, 2]]), (.grad [[1/4, 1]] 0, [[1, 3], [0, 3]])]

example : AssignedOK [t235.eval] (ATable.empty (hs ax2) (lows ax2) 1) histA := by
  refine ⟨by decide +kernel, by decide +kernel, trivial⟩

example : (ATable.empty (hs ax2) (lows ax2) 1).runAssigned [t235.eval] histA = [.ok [[29/8]], .ok [[7]]] := by
  decide +kernel

/-- safeguarding on a grid of mesh 1: a point a hair below a grid line on axis 0 only is NOT safeguarded (quirk),
    on axis 1 it is; both give the same answers -/
def Tq : ATable := ATable.empty [1, 1] [0, 0] 1
example : safeBases Tq [[2047/1024, 1/2]] = [[1, 0]] := by decide +kernel
example : safeBases Tq [[1/2, 2047/1024]] = [[0, 1], [0, 2]] := by decide +kernel
example : safeBases Tq [[2047/1024, 2047/1024]] = [[1, 1], [1, 2], [2, 1], [2, 2]] := by decide +kernel
example : Tq.run [t235.eval] [.interp [[1/2, 2047/1024]]] = Tq.runWith plainBases [t235.eval] [.interp [[1/2, 2047/1024]]] := by
  decide +kernel

/-- decidable hypotheses evaluate on concrete data; an outside point gives ValueError; npt = 1 is rejected by `wfB` -/
example : wfB ax2 = true ∧ (Query.grad [[1, 3/10]] 1).inBoxB ax2 = true ∧ (Query.grad [[1, 3/10]] 1).axisOkB 2 = true := by
  decide +kernel
example : wfB [⟨0, 1, 1⟩] = false ∧ wfB [⟨1, 1, 3⟩] = false := by decide +kernel
example : (mkTable ax2 [t235.eval]).answer (.grad [[1, 3/10]] 1) = exactAnswer [t235] (.grad [[1, 3/10]] 1) :=
  standard_exact_decidable ax2 [t235] _ (by decide +kernel) (by decide +kernel) (by decide +kernel)
example : (mkTable ax2 [t235.eval]).answer (.grad [[1/2, 1/2], [1/2, 9/8]] 0) = .error .valueError :=
  outside_raises _ _ [1/2, 9/8] (by simp [Query.points]) (by decide +kernel)
example : assignNoIdx Tq [[5, 7]] ([[1, 2], [0, 3]].map (coordOf Tq.basePt Tq.h)) =
    assign Tq [[5, 7]] ([[1, 2], [0, 3]].map (coordOf Tq.basePt Tq.h)) [[1, 2], [0, 3]] :=
  assign_without_indices Tq ⟨rfl, by decide +kernel⟩ _ _ (by decide +kernel)
example : (assignNoIdx Tq [[5, 7]] [[1, 2], [0, 3]]).pt = [[0, 3], [1, 2]] := by decide +kernel

end PorepyVerif.C41
