import PorepyVerif.C41.Props
#print axioms PorepyVerif.C41.multilinear_as_tree
#print axioms PorepyVerif.C41.coefs_as_tree
#print axioms PorepyVerif.C41.affine_as_tree
#print axioms PorepyVerif.C41.interp_multilinear_exact
#print axioms PorepyVerif.C41.interp_tensor_exact
#print axioms PorepyVerif.C41.grad_multilinear_exact
#print axioms PorepyVerif.C41.grad_linear_exact
#print axioms PorepyVerif.C41.weights_partition_unity
#print axioms PorepyVerif.C41.base_in_range
#print axioms PorepyVerif.C41.point_in_range
#print axioms PorepyVerif.C41.adaptive_eq_standard
#print axioms PorepyVerif.C41.adaptive_eq_standard_multilinear
#print axioms PorepyVerif.C41.adaptive_multilinear_exact
#print axioms PorepyVerif.C41.adaptive_fill_on_demand
