import PorepyVerif.C41.Props
