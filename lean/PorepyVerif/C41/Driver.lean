/- C41 line-protocol driver: `lake env lean --run PorepyVerif/C41/Driver.lean` -/
import PorepyVerif.Common.Wire
import PorepyVerif.C41.Model
open Lean PV PorepyVerif.C41

structure St where
  tab : Option Table := none
  atab : Option ATable := none
  fns : List (List Rat → Rat) := []

def errJson : Err → Json
  | .valueError => err "ValueError"
  | .assertionError => err "AssertionError"
  | .indexError => err "IndexError"

def resJson : Except Err (List (List Rat)) → Json
  | .ok v => obj [("vals", ofList ofRats v)]
  | .error e => errJson e

/-- a component function on the wire: multilinear coefficient list (length 2^d) + extra monomials -/
def parseFn (j : Json) : R (List Rat → Rat) := do
  let cs ← fRats j "coefs"
  let ex ← field j "extra" >>= jList (fun t => do pure ((← fRat t "c"), (← fNats t "e")))
  pure (fun x => evalCoefs cs x + evalExtra ex x)

def mkAxes (low high : List Rat) (npt : List Nat) : List Axis :=
  List.zipWith (fun (lh : Rat × Rat) n => { low := lh.1, high := lh.2, npt := n }) (low.zip high) npt

def dumpJson (T : ATable) : Json :=
  obj [("coords", ofList ofInts T.keys), ("pt", ofList ofRats T.pt),
       ("values", ofList ofRats (T.rows.map (fun s => s.map (·.2))))]

def step (st : St) (j : Json) : R (St × Json) := do
  let op ← fStr j "op"
  match op with
  | "table" =>
    let fns ← field j "fns" >>= jList parseFn
    let axes := mkAxes (← fRats j "low") (← fRats j "high") (← fNats j "npt")
    pure ({ st with tab := some (mkTable axes fns) }, Json.str "ok")
  | "atable" =>
    let fns ← field j "fns" >>= jList parseFn
    let dim ← fNat j "dim"
    pure ({ st with atab := some (ATable.empty (← fRats j "dx") (← fRats j "base") dim), fns := fns }, Json.str "ok")
  | "precond" =>
    -- the decidable hypotheses of the theorems, evaluated on this case
    match st.tab with
    | none => throw "no table"
    | some T =>
      let calls ← field j "calls" >>= jList (fun c => do
        let pts ← fRatss c "pts"
        match (fieldD c "axis" Json.null) with
        | .null => pure (Query.interp pts)
        | a => pure (Query.grad pts (← jNat a)))
      pure (st, obj [("wf", Json.bool (wfB T.axes)),
                     ("inbox", ofList (fun q => Json.bool (Query.inBoxB T.axes q)) calls),
                     ("axisok", ofList (fun q => Json.bool (Query.axisOkB T.axes.length q)) calls)])
  | "aquad_all" =>
    -- quadrature_points_from_coordinates(x, remove_known_points=False)
    match st.atab with
    | none => throw "no adaptive table"
    | some T =>
      let q := needed T (← fRatss j "pts")
      pure (st, obj [("inds", ofList ofInts q), ("coord", ofList ofRats (q.map (coordOf T.basePt T.h)))])
  | "interp" =>
    match st.tab with
    | none => throw "no table"
    | some T => pure (st, resJson (T.interpolate (← fRatss j "pts")))
  | "grad" =>
    match st.tab with
    | none => throw "no table"
    | some T => pure (st, resJson (T.gradient (← fRatss j "pts") (← fNat j "axis")))
  | "ainterp" =>
    match st.atab with
    | none => throw "no adaptive table"
    | some T =>
      let r := T.interpolate st.fns (← fRatss j "pts")
      pure ({ st with atab := some r.1 }, resJson r.2)
  | "agrad" =>
    match st.atab with
    | none => throw "no adaptive table"
    | some T =>
      let r := T.gradient st.fns (← fRatss j "pts") (← fNat j "axis")
      pure ({ st with atab := some r.1 }, resJson r.2)
  | "aquad" =>
    match st.atab with
    | none => throw "no adaptive table"
    | some T =>
      let q := quadPoints T (← fRatss j "pts")
      pure (st, obj [("inds", ofList ofInts q), ("coord", ofList ofRats (q.map (coordOf T.basePt T.h)))])
  | "aquad_assign" =>
    -- harness glue of the assign mode: new quadrature points, evaluated externally, assigned in permuted order
    match st.atab with
    | none => throw "no adaptive table"
    | some T =>
      let q := quadPoints T (← fRatss j "pts")
      let rot ← fNat j "rot"
      let rev ← fBool j "rev"
      let n := q.length
      let p0 := (List.range n).drop (rot % n) ++ (List.range n).take (rot % n)
      let p := if rev then p0.reverse else p0
      let inds := p.map (fun k => q.getD k [])
      let crd := inds.map (coordOf T.basePt T.h)
      let noidx := (fieldD j "noidx" (Json.bool false)) == Json.bool true
      let T' := if n == 0 then T
        else if noidx then assignNoIdx T (st.fns.map (fun f => crd.map f)) crd
        else assign T (st.fns.map (fun f => crd.map f)) crd inds
      pure ({ st with atab := some T' },
            obj [("inds", ofList ofInts q), ("coord", ofList ofRats (q.map (coordOf T.basePt T.h)))])
  | "aassign" =>
    match st.atab with
    | none => throw "no adaptive table"
    | some T =>
      let T' := assign T (← fRatss j "vals") (← fRatss j "coord") (← fIntss j "inds")
      pure ({ st with atab := some T' }, Json.str "ok")
  | "ainterp_stored" =>
    match st.atab with
    | none => throw "no adaptive table"
    | some T => pure (st, resJson (T.interpolateStored (← fRatss j "pts")))
  | "agrad_stored" =>
    match st.atab with
    | none => throw "no adaptive table"
    | some T => pure (st, resJson (T.gradientStored (← fRatss j "pts") (← fNat j "axis")))
  | "adump" =>
    match st.atab with
    | none => throw "no adaptive table"
    | some T => pure (st, dumpJson T)
  | _ => throw s!"unknown op {op}"

def main : IO Unit := runDriver ({} : St) step
