/-
C30 — executable model of the distance kernels of `porepy.geometry.distances` (core Lean only).

Numbers are rationals (every binary64 is one); every length is carried SQUARED, so no square
root occurs.  Vectors are lists of rationals (any dimension; the polygon kernels use 3 entries).

Modelled functions (branch for branch where the property depends on it):
  `ptPtSq`        point_pointset (exponent 2)           squared distance
  `ptSeg`         points_segments, one (point, segment)  clamp of the projection parameter
  `segSegParams`  segment_segment_set, one pair          the clamped two-parameter algorithm
  `segSeg`        …  with closest points
  `segSet`        segment_set                            all pairs
  `ptPoly`        points_polygon                         plane projection + winding test, else edges
  `segPoly`       segments_polygon                       crossing / in-plane / general branch

History: the first version of this model followed the PROPERTY where the code deviated from it (zero-length
segments gave NaN, the tolerance tests of the segment-segment kernel were not scale invariant, the winding
test inspected edges that cannot contain the point, an in-plane segment with only its END point inside
reported its start point, `segment_set` always raised).  These defects were repaired in /repo (`fix:`
commits 184afbedd, 125ef57f2, 09e180387, 6d29d1a5f, 7143938de); the model is the code as it is now.
-/
namespace PorepyVerif.C30

abbrev Vec := List Rat

/-! ### vectors -/

def dot : Vec → Vec → Rat
  | x :: xs, y :: ys => x * y + dot xs ys
  | _, _ => 0

def vadd : Vec → Vec → Vec
  | x :: xs, y :: ys => (x + y) :: vadd xs ys
  | _, _ => []

def vsub : Vec → Vec → Vec
  | x :: xs, y :: ys => (x - y) :: vsub xs ys
  | _, _ => []

def smul (k : Rat) : Vec → Vec
  | [] => []
  | x :: xs => (k * x) :: smul k xs

/-- squared Euclidean norm -/
def nsq (v : Vec) : Rat := dot v v

/-- the point `a + s (b - a)` of the segment `ab` -/
def along (a b : Vec) (s : Rat) : Vec := vadd a (smul s (vsub b a))

def clamp01 (x : Rat) : Rat := if x ≤ 0 then 0 else if 1 ≤ x then 1 else x

/-! ### point – point -/

/-- `point_pointset(p, q)**2` -/
def ptPtSq (p q : Vec) : Rat := nsq (vsub p q)

def absR (x : Rat) : Rat := if x < 0 then -x else x

/-- `point_pointset(p, q, exponent=1)`: the 1-norm of the difference (the only other exponent with rational values) -/
def norm1 : Vec → Rat
  | [] => 0
  | x :: xs => absR x + norm1 xs

def ptPt1 (p q : Vec) : Rat := norm1 (vsub p q)

/-- maximum of a list of non-negative numbers (0 for the empty list) -/
def maxList : List Rat → Rat
  | [] => 0
  | x :: xs => if maxList xs < x then x else maxList xs

/-- one entry of `pointset(p, max_diag)`, squared: `|p_i - p_j|²` off the diagonal; on the diagonal 0, or with
    `max_diag` twice the row maximum, i.e. `4·max_j |p_i - p_j|²` -/
def pointSetEntry (maxDiag : Bool) (ps : List Vec) (pi pj : Vec × Nat) : Rat :=
  if pi.2 = pj.2 then (if maxDiag then 4 * maxList (ps.map (ptPtSq pi.1)) else 0) else ptPtSq pi.1 pj.1

/-- `pointset(p, max_diag)` squared (a single point gives the 1×1 zero matrix in the code as well: max = 0) -/
def pointSet (maxDiag : Bool) (ps : List Vec) : List (List Rat) :=
  let idx := ps.zip (List.range ps.length)
  idx.map fun pi => idx.map fun pj => pointSetEntry maxDiag ps pi pj

/-! ### point – segment (`points_segments`, one point and one segment) -/

structure PtSegOut where
  t : Rat      -- parameter of the closest point
  cp : Vec     -- closest point on the segment
  d2 : Rat     -- squared distance
deriving Repr

/-- `proj = (p-a)·(b-a)/|b-a|²`; `proj ≤ 0` → start, `proj ≥ 1` → end, else the projection.
    A zero-length segment has `proj = 0` (property; the code divides 0/0). -/
def ptSeg (p a b : Vec) : PtSegOut :=
  let line := vsub b a
  let l2 := nsq line
  let proj := if l2 = 0 then 0 else dot (vsub p a) line / l2
  if proj ≤ 0 then ⟨0, a, nsq (vsub p a)⟩
  else if 1 ≤ proj then ⟨1, b, nsq (vsub p b)⟩
  else
    let q := vadd a (smul proj line)
    ⟨proj, q, nsq (vsub p q)⟩

/-! ### segment – segment (`segment_segment_set`, one pair)

Scalars: `a = u·u`, `b = u·v`, `c = v·v`, `d = u·w`, `e = v·w` with `u = p1-p0`, `v = q1-q0`,
`w = p0-q0` (`dot_1_1, dot_1_2, dot_2_2, dot_1_starts, dot_2_starts` in the code). -/

structure Par where
  sN : Rat
  sD : Rat
  tN : Rat
  tD : Rat
deriving Repr

/-- parallel test and the `s = 0` / `s = 1` edge tests -/
def stage1 (tol a b c d e : Rat) : Par :=
  let D := a * c - b * b
  if D < tol * a * c then ⟨0, 1, e, c⟩
  else
    let sN := b * e - c * d
    let tN := a * e - b * d
    if sN < 0 then ⟨0, D, e, c⟩
    else if D < sN then ⟨D, D, b + e, c⟩
    else ⟨sN, D, tN, D⟩

/-- the `t = 0` edge (`t0_visible`): `t := 0`, `s := clamp(-d/a)` -/
def stage2a (a d : Rat) (q : Par) : Par :=
  if q.tN < 0 then
    if 0 < d then { q with tN := 0, sN := 0 }
    else if a < -d then { q with tN := 0, sN := q.sD }
    else { q with tN := 0, sN := -d, sD := a }
  else q

/-- the `t = 1` edge (`t1_visible`, evaluated after the `t = 0` update as in the code):
    `t := 1`, `s := clamp((b-d)/a)` -/
def stage2b (a b d : Rat) (q : Par) : Par :=
  if q.tD < q.tN then
    if -d + b < 0 then { q with tN := q.tD, sN := 0 }
    else if a < -d + b then { q with tN := q.tD, sN := q.sD }
    else { q with tN := q.tD, sN := -d + b, sD := a }
  else q

def stage2 (a b d : Rat) (q : Par) : Par := stage2b a b d (stage2a a d q)

/-- `sc = sN / sD; sc[sN < SMALL] = 0` -/
def snapDiv (tol n dn : Rat) : Rat := if n < tol * dn then 0 else n / dn

/-- the parameters `(sc, tc)` of the closest points -/
def segSegParams (tol a b c d e : Rat) : Rat × Rat :=
  if c = 0 then (if a = 0 then 0 else clamp01 (-d / a), 0)
  else if a = 0 then (0, clamp01 (e / c))
  else
    let q := stage2 a b d (stage1 tol a b c d e)
    (snapDiv tol q.sN q.sD, snapDiv tol q.tN q.tD)

/-- the inputs on which none of the two tolerance devices changes the exact algorithm:
    the parallel branch is taken only by exactly parallel segments, and the final snap to zero
    only hits numerators that are zero.  (Decidable; reported by the driver for every case.) -/
def exactRegime (tol a b c d e : Rat) : Bool :=
  let D := a * c - b * b
  let q := stage2 a b d (stage1 tol a b c d e)
  decide (a = 0) || decide (c = 0) ||
    ((!decide (D < tol * a * c) || decide (D ≤ 0)) &&
     (!decide (q.sN < tol * q.sD) || decide (q.sN ≤ 0)) &&
     (!decide (q.tN < tol * q.tD) || decide (q.tN ≤ 0)))

structure SegSegOut where
  s : Rat
  t : Rat
  cp1 : Vec
  cp2 : Vec
  d2 : Rat
  exact : Bool
deriving Repr

def segSeg (tol : Rat) (p0 p1 q0 q1 : Vec) : SegSegOut :=
  let u := vsub p1 p0
  let v := vsub q1 q0
  let w := vsub p0 q0
  let a := nsq u
  let b := dot u v
  let c := nsq v
  let d := dot u w
  let e := dot v w
  let st := segSegParams tol a b c d e
  -- `dist = d_starts + sc * d1 - tc * d2`
  let dist := vsub (vadd w (smul st.1 u)) (smul st.2 v)
  ⟨st.1, st.2, vadd p0 (smul st.1 u), vadd q0 (smul st.2 v), nsq dist, exactRegime tol a b c d e⟩

/-- one entry of `segment_set`: (squared distance, point on segment `i` closest to segment `j`).
    As in the code, the kernel is called once per unordered pair (`i < j`) and both closest points are used;
    diagonal: distance 0 and the midpoint. -/
def segSetEntry (tol : Rat) (si : (Vec × Vec) × Nat) (sj : (Vec × Vec) × Nat) : Rat × Vec :=
  if si.2 = sj.2 then (0, along si.1.1 si.1.2 (1 / 2))
  else if si.2 < sj.2 then
    let o := segSeg tol si.1.1 si.1.2 sj.1.1 sj.1.2
    (o.d2, o.cp1)
  else
    let o := segSeg tol sj.1.1 sj.1.2 si.1.1 si.1.2
    (o.d2, o.cp2)

/-- `segment_set`: the matrix of all entries -/
def segSet (tol : Rat) (segs : List (Vec × Vec)) : List (List (Rat × Vec)) :=
  let idx := segs.zip (List.range segs.length)
  idx.map fun si => idx.map fun sj => segSetEntry tol si sj

/-! ### polygons (3-d, planar) -/

def cross3 : Vec → Vec → Vec
  | [a1, a2, a3], [b1, b2, b3] => [a2 * b3 - a3 * b2, a3 * b1 - a1 * b3, a1 * b2 - a2 * b1]
  | _, _ => [0, 0, 0]

/-- cyclic list of edges `(v_i, v_{i+1})` -/
def edgesFrom {α : Type} (first : α) : List α → List (α × α)
  | [] => []
  | [v] => [(v, first)]
  | v :: w :: rest => (v, w) :: edgesFrom first (w :: rest)

def edges {α : Type} (poly : List α) : List (α × α) :=
  match poly with
  | [] => []
  | v :: _ => edgesFrom v poly

def vsum : List Vec → Vec
  | [] => [0, 0, 0]
  | v :: vs => vadd v (vsum vs)

/-- `np.mean(poly, axis=1)` -/
def centroid (poly : List Vec) : Vec := smul (1 / (poly.length : Rat)) (vsum poly)

/-- a normal of the polygon's plane (Newell's area vector `Σ v_i × v_{i+1}`; the code normalises the
    longest cross product of two centred vertices — any non-zero normal describes the same plane) -/
def normal (poly : List Vec) : Vec := vsum ((edges poly).map fun e => cross3 e.1 e.2)

/-- orthogonal projection onto the plane through `c` with normal `n` -/
def projPlane (c n x : Vec) : Vec := vsub x (smul (dot (vsub x c) n / nsq n) n)

def sgn (x : Rat) : Int := if x < 0 then -1 else if 0 < x then 1 else 0

def vsign (x y : Rat) : Int := if sgn x = 0 then sgn y else sgn x

/-- the two coordinates kept when the dominant axis of the normal is dropped
    (an affine bijection plane → ℚ²; the code rotates the plane onto z = 0 instead) -/
def to2d (n x : Vec) : Rat × Rat :=
  match n, x with
  | [n1, n2, n3], [x1, x2, x3] =>
    if absR n2 ≤ absR n1 ∧ absR n3 ≤ absR n1 then (x2, x3)
    else if absR n3 ≤ absR n2 then (x1, x3)
    else (x1, x2)
  | _, _ => (0, 0)

/-- position relative to the tested point -/
def rel (p v : Rat × Rat) : Rat × Rat := (v.1 - p.1, v.2 - p.2)

def cross2 (u v : Rat × Rat) : Rat := u.1 * v.2 - u.2 * v.1

/-- `vertex_sgn`: sign of x, ties broken by the sign of y -/
def vsign2 (u : Rat × Rat) : Int := vsign u.1 u.2

/-- `edge_boundary != 0`: the end points of the edge are on different sides of the point -/
def active (p : Rat × Rat) (e : (Rat × Rat) × (Rat × Rat)) : Bool :=
  vsign2 (rel p e.2) - vsign2 (rel p e.1) != 0

/-- `edge_sgn` -/
def edgeSgn (p : Rat × Rat) (e : (Rat × Rat) × (Rat × Rat)) : Int := sgn (cross2 (rel p e.1) (rel p e.2))

/-- `contrib`: `edge_sgn` on active edges, 0 elsewhere -/
def contrib (p : Rat × Rat) (e : (Rat × Rat) × (Rat × Rat)) : Int := if active p e then edgeSgn p e else 0

def sumInt : List Int → Int
  | [] => 0
  | x :: xs => x + sumInt xs

/-- `point_in_polygon` (winding number as coded, `default = False`): false on a vertex, false on an
    (active) edge; otherwise `|Σ contrib| / 2 > 0`. -/
def windingInside (es : List ((Rat × Rat) × (Rat × Rat))) (p : Rat × Rat) : Bool :=
  if es.any (fun e => (decide ((rel p e.1).1 = 0) && decide ((rel p e.1).2 = 0)) ||
                      (decide ((rel p e.2).1 = 0) && decide ((rel p e.2).2 = 0))) then false
  else if es.any (fun e => active p e && (edgeSgn p e == 0)) then false
  else sumInt (es.map (contrib p)) != 0

/-- membership of a point of the polygon's plane -/
def inPoly (poly : List Vec) (n x : Vec) : Bool :=
  windingInside ((edges poly).map fun e => (to2d n e.1, to2d n e.2)) (to2d n x)

/-! ### specification of a convex polygon as a point set (used by the theorems only) -/

/-- `((b - a) × (x - a)) · n`: positive iff `x` is to the left of the directed line `a → b` seen against `n` -/
def side3 (n a b x : Vec) : Rat := dot (cross3 (vsub b a) (vsub x a)) n

/-- the closed region of the polygon's plane cut out by the half-planes to the left of all edges
    (for a convex polygon, counter-clockwise about its Newell normal: the polygon itself) -/
def InRegion (poly : List Vec) (x : Vec) : Prop :=
  x.length = 3 ∧ dot (vsub x (centroid poly)) (normal poly) = 0 ∧
    ∀ g ∈ edges poly, 0 ≤ side3 (normal poly) g.1 g.2 x

/-- planar convex polygon with strictly convex corners: every edge has a predecessor and a successor with a
    strict left turn at the shared vertex, and every vertex lies in the half-plane of every edge -/
structure ConvexPoly (poly : List Vec) : Prop where
  nn : nsq (normal poly) ≠ 0
  nlen : (normal poly).length = 3
  clen : (centroid poly).length = 3
  len3 : ∀ g ∈ edges poly, g.1.length = 3 ∧ g.2.length = 3
  planar : ∀ g ∈ edges poly, dot (vsub g.1 (centroid poly)) (normal poly) = 0 ∧
    dot (vsub g.2 (centroid poly)) (normal poly) = 0
  corners : ∀ g ∈ edges poly, ∃ gp ∈ edges poly, ∃ gn ∈ edges poly, gp.2 = g.1 ∧ gn.1 = g.2 ∧
    0 < side3 (normal poly) gp.1 g.1 g.2 ∧ 0 < side3 (normal poly) g.1 g.2 gn.2
  vertsIn : ∀ g ∈ edges poly, ∀ h ∈ edges poly, 0 ≤ side3 (normal poly) h.1 h.2 g.1

/-- first minimum (as `np.argmin`) of the point–segment distances over a list of edges -/
def minPtSeg (p : Vec) : List (Vec × Vec) → Option PtSegOut
  | [] => none
  | e :: es =>
    let o := ptSeg p e.1 e.2
    match minPtSeg p es with
    | none => some o
    | some o' => if o'.d2 < o.d2 then some o' else some o

structure PtPolyOut where
  inside : Bool
  cp : Vec
  d2 : Rat
deriving Repr

/-- `points_polygon`, one point -/
def ptPoly (p : Vec) (poly : List Vec) : PtPolyOut :=
  let n := normal poly
  let c := centroid poly
  let h := dot (vsub p c) n
  let q := projPlane c n p
  if inPoly poly n q then ⟨true, q, h * h / nsq n⟩
  else
    match minPtSeg p (edges poly) with
    | some o => ⟨false, o.cp, o.d2⟩
    | none => ⟨false, p, 0⟩

/-- first minimum of the segment–segment distances between `s e` and a list of edges -/
def minSegSeg (tol : Rat) (s e : Vec) : List (Vec × Vec) → Option SegSegOut
  | [] => none
  | g :: gs =>
    let o := segSeg tol s e g.1 g.2
    match minSegSeg tol s e gs with
    | none => some o
    | some o' => if o'.d2 < o.d2 then some o' else some o

structure SegPolyOut where
  branch : Nat    -- 0 crosses the polygon, 1 lies in the plane with an end point inside, 2 general
  cp : Vec
  d2 : Rat
deriving Repr

/-- general branch of `segments_polygon`: the closer end point (ties: start), then the boundary segments -/
def segPolyGeneral (tolS : Rat) (s e : Vec) (poly : List Vec) : SegPolyOut :=
  let ps := ptPoly s poly
  let pe := ptPoly e poly
  let m : Rat × Vec := if pe.d2 < ps.d2 then (pe.d2, pe.cp) else (ps.d2, ps.cp)
  match minSegSeg tolS s e (edges poly) with
  | some o => if o.d2 < m.1 then ⟨2, o.cp1, o.d2⟩ else ⟨2, m.2, m.1⟩
  | none => ⟨2, m.2, m.1⟩

/-- parameter of the intersection of the segment with the plane: `some t` iff the incline is non-zero
    (`|dz| > tol`, heights are `h/|n|`, so `dz² > tol²·|n|²`) and `t = -hs/dz ∈ [0,1]` (`zero_along_segment`) -/
def crossParam (tolP nn hs he : Rat) : Option Rat :=
  if tolP * tolP * nn < (he - hs) * (he - hs) then
    if 0 ≤ -hs / (he - hs) ∧ -hs / (he - hs) ≤ 1 then some (-hs / (he - hs)) else none
  else none

/-- `crosses`: the intersection point with the plane, if it exists and passes the membership test -/
def crossPoint (tolP : Rat) (s e : Vec) (poly : List Vec) : Option Vec :=
  let n := normal poly
  let c := centroid poly
  match crossParam tolP (nsq n) (dot (vsub s c) n) (dot (vsub e c) n) with
  | some t => if inPoly poly n (projPlane c n (along s e t)) then some (along s e t) else none
  | none => none

/-- `segments_polygon`, one segment.  `tolP` is the argument `tol` (an absolute length; heights over the
    plane are `h/|n|`, so `|z| < tol` is `h² < tol²·|n|²`), `tolS` the constant 1e-8 of the
    segment–segment kernel. -/
def segPoly (tolP tolS : Rat) (s e : Vec) (poly : List Vec) : SegPolyOut :=
  match crossPoint tolP s e poly with
  | some x0 => ⟨0, x0, 0⟩
  | none =>
    let n := normal poly
    let c := centroid poly
    let nn := nsq n
    let hs := dot (vsub s c) n
    let he := dot (vsub e c) n
    let nonZeroIncline : Bool := decide (tolP * tolP * nn < (he - hs) * (he - hs))
    let inPlane : Bool := decide (hs * hs < tolP * tolP * nn) && !nonZeroIncline
    let startIn := inPoly poly n (projPlane c n s)
    let endIn := inPoly poly n (projPlane c n e)
    if inPlane && (startIn || endIn) then
      ⟨1, projPlane c n (if startIn then s else e), 0⟩
    else segPolyGeneral tolS s e poly

end PorepyVerif.C30
