/-
C30 — property theorems (statements only depend on Model.lean; helper lemmas in Lemmas.lean).

Property: the point–point, point–segment, segment–segment, point–polygon and segment–polygon distance
functions return the true Euclidean distance, and the returned closest points lie on the respective
objects at that distance.  Distances are squared throughout (no square roots in the model).

Vectors are lists of rationals; the theorems hold in every dimension (the length hypotheses say that
all points of a configuration have the same number of coordinates).  `along a b s = a + s (b - a)`.
-/
import PorepyVerif.C30.Lemmas

namespace PorepyVerif.C30

/-! ### point – point -/

/-- the distance is symmetric -/
theorem pt_pt_symm (p q : Vec) : ptPtSq p q = ptPtSq q p := nsq_vsub_comm p q

/-- … non-negative, and zero exactly for equal points -/
theorem pt_pt_zero_iff (p q : Vec) (h : p.length = q.length) :
    0 ≤ ptPtSq p q ∧ (ptPtSq p q = 0 ↔ p = q) :=
  ⟨nsq_nonneg _, ⟨vsub_self_of_nsq_zero p q h, fun e => by rw [e]; exact nsq_vsub_self q⟩⟩

example : ptPtSq [0, 0, 1] [3, 4, 1] = 25 := by decide +kernel

/-- `point_pointset(…, exponent=1)` (the 1-norm): symmetric, non-negative, zero exactly for equal points -/
theorem pt_pt1_metric (p q : Vec) (h : p.length = q.length) :
    ptPt1 p q = ptPt1 q p ∧ 0 ≤ ptPt1 p q ∧ (ptPt1 p q = 0 ↔ p = q) :=
  ⟨ptPt1_symm p q, norm1_nonneg _, ptPt1_zero p q h⟩

example : ptPt1 [0, 0] [3, -4] = 7 := by decide +kernel

/-- `pointset(p, max_diag)`: off the diagonal the entry is the (symmetric) squared distance of the two points; the
    diagonal is 0, or with `max_diag` it is `(2·max_j |p_i - p_j|)²`: four times the largest squared distance of
    the row, which is attained by a point of the set and dominates every entry of the row -/
theorem pointset_entry (maxDiag : Bool) (ps : List Vec) (pi pj : Vec × Nat) :
    (pi.2 ≠ pj.2 → pointSetEntry maxDiag ps pi pj = ptPtSq pi.1 pj.1 ∧
      pointSetEntry maxDiag ps pi pj = pointSetEntry maxDiag ps pj pi) ∧
    (pointSetEntry false ps pi pi = 0) ∧
    (∀ q ∈ ps, ptPtSq pi.1 q ≤ pointSetEntry true ps pi pi) ∧
    (ps ≠ [] → ∃ q ∈ ps, pointSetEntry true ps pi pi = 4 * ptPtSq pi.1 q) := by
  refine ⟨fun hne => ?_, by simp [pointSetEntry], fun q hq => ?_, fun hne => ?_⟩
  · unfold pointSetEntry
    rw [if_neg hne, if_neg (Ne.symm hne)]
    exact ⟨rfl, pt_pt_symm _ _⟩
  · simp only [pointSetEntry, if_true]
    have h1 := le_maxList (ps.map (ptPtSq pi.1)) _ (List.mem_map.mpr ⟨q, hq, rfl⟩)
    have h2 := maxList_nonneg (ps.map (ptPtSq pi.1))
    linarith
  · simp only [pointSetEntry, if_true]
    have hm := maxList_mem (ps.map (ptPtSq pi.1)) (by simpa using hne)
      (fun x hx => by obtain ⟨q, _, rfl⟩ := List.mem_map.mp hx; exact nsq_nonneg _)
    obtain ⟨q, hq, he⟩ := List.mem_map.mp hm
    exact ⟨q, hq, by rw [he]⟩

example : pointSet true [[0, 0], [3, 4], [0, 1]] = [[100, 25, 1], [25, 100, 18], [1, 18, 72]] := by decide +kernel

/-! ### point – segment -/

/-- the returned parameter lies in `[0,1]`, the returned closest point is the point of the segment
    with that parameter, and the returned distance is the distance to that point -/
theorem pt_seg_closest_on_seg (p a b : Vec) (h1 : p.length = a.length) (h2 : a.length = b.length) :
    0 ≤ (ptSeg p a b).t ∧ (ptSeg p a b).t ≤ 1 ∧ (ptSeg p a b).cp = along a b (ptSeg p a b).t ∧
      (ptSeg p a b).d2 = nsq (vsub p (ptSeg p a b).cp) :=
  ptSeg_spec p a b h1 h2

/-- no point of the segment is closer (every dimension; zero-length segments included) -/
theorem pt_seg_minimal (p a b : Vec) (h1 : p.length = a.length) (h2 : a.length = b.length)
    (s : Rat) (hs0 : 0 ≤ s) (hs1 : s ≤ 1) :
    (ptSeg p a b).d2 ≤ nsq (vsub p (along a b s)) :=
  ptSeg_min p a b h1 h2 s hs0 hs1

example : (ptSeg [1, 2] [0, 0] [4, 0]).d2 = 4 ∧ (ptSeg [1, 2] [0, 0] [4, 0]).cp = [1, 0] := by decide +kernel
example : (ptSeg [5, 5, 0] [1, 1, 0] [1, 1, 0]).d2 = 32 := by decide +kernel   -- zero-length segment

/-! ### segment – segment -/

/-- both parameters lie in `[0,1]`, the closest points are the points with these parameters, and the
    returned distance is the distance between them (all branches, no assumption on the placement) -/
theorem seg_seg_closest_on_segs (tol : Rat) (htol : 0 < tol) (p0 p1 q0 q1 : Vec)
    (h1 : p0.length = p1.length) (h2 : p0.length = q0.length) (h3 : q0.length = q1.length) :
    let o := segSeg tol p0 p1 q0 q1
    0 ≤ o.s ∧ o.s ≤ 1 ∧ 0 ≤ o.t ∧ o.t ≤ 1 ∧ o.cp1 = along p0 p1 o.s ∧ o.cp2 = along q0 q1 o.t ∧
      o.d2 = nsq (vsub o.cp1 o.cp2) :=
  segSeg_on_segs tol htol p0 p1 q0 q1 h1 h2 h3

/-- no pair of points of the two segments is closer: global minimality of the clamped two-parameter
    algorithm, including the parallel branch and zero-length segments.  `exact = true` (decidable, computed
    by the model) says that the two tolerance devices of the kernel fire only on quantities that are
    exactly zero; it holds for exactly parallel as well as for clearly non-parallel placements. -/
theorem seg_seg_minimal (tol : Rat) (htol : 0 < tol) (p0 p1 q0 q1 : Vec)
    (h1 : p0.length = p1.length) (h2 : p0.length = q0.length) (h3 : q0.length = q1.length)
    (hreg : (segSeg tol p0 p1 q0 q1).exact = true)
    (s t : Rat) (hs0 : 0 ≤ s) (hs1 : s ≤ 1) (ht0 : 0 ≤ t) (ht1 : t ≤ 1) :
    (segSeg tol p0 p1 q0 q1).d2 ≤ nsq (vsub (along p0 p1 s) (along q0 q1 t)) :=
  segSeg_min tol htol p0 p1 q0 q1 h1 h2 h3 hreg s t hs0 hs1 ht0 ht1

/-- the hypothesis `exact = true` is discharged for integer coordinates under an explicit bound:
    if `tol·|p1-p0|²·|q1-q0|² ≤ 1` (for the kernel's `tol = 1e-8`: product of the two lengths at most 10⁴),
    all numerators are integers and all denominators are at most `1/tol`, so neither tolerance test can
    fire on a non-zero quantity — global minimality holds unconditionally. -/
theorem seg_seg_minimal_int (tol : Rat) (htol : 0 < tol) (p0 p1 q0 q1 : Vec)
    (h1 : p0.length = p1.length) (h2 : p0.length = q0.length) (h3 : q0.length = q1.length)
    (i0 : IntVec p0) (i1 : IntVec p1) (j0 : IntVec q0) (j1 : IntVec q1)
    (hbound : tol * nsq (vsub p1 p0) * nsq (vsub q1 q0) ≤ 1)
    (s t : Rat) (hs0 : 0 ≤ s) (hs1 : s ≤ 1) (ht0 : 0 ≤ t) (ht1 : t ≤ 1) :
    (segSeg tol p0 p1 q0 q1).exact = true ∧
    (segSeg tol p0 p1 q0 q1).d2 ≤ nsq (vsub (along p0 p1 s) (along q0 q1 t)) := by
  have hreg : (segSeg tol p0 p1 q0 q1).exact = true := by
    rw [(segSeg_fields tol p0 p1 q0 q1).2.2.2.2.2]
    have iu := i1.vsub i0
    have iv := j1.vsub j0
    have iw := i0.vsub j0
    exact exactRegime_of_int htol (iu.dot iu) (iu.dot iv) (iv.dot iv) (iu.dot iw) (iv.dot iw)
      (nsq_nonneg _) (nsq_nonneg _) hbound
  exact ⟨hreg, segSeg_min tol htol p0 p1 q0 q1 h1 h2 h3 hreg s t hs0 hs1 ht0 ht1⟩

example : (1 / 100000000 : Rat) * nsq (vsub [30, 40, 0] [0, 0, 0]) * nsq (vsub [0, 7, 99] [0, 7, 0]) ≤ 1 := by decide +kernel

-- parallel, overlapping
example : (segSeg (1 / 100000000) [0, 0, 0] [2, 0, 0] [1, 1, 0] [3, 1, 0]).exact = true ∧
    (segSeg (1 / 100000000) [0, 0, 0] [2, 0, 0] [1, 1, 0] [3, 1, 0]).d2 = 1 := by decide +kernel
-- skew in 3-d, interior minimiser
example : (segSeg (1 / 100000000) [0, 0, 0] [2, 0, 0] [1, -1, 1] [1, 1, 1]).exact = true ∧
    (segSeg (1 / 100000000) [0, 0, 0] [2, 0, 0] [1, -1, 1] [1, 1, 1]).cp1 = [1, 0, 0] := by decide +kernel
-- zero-length second segment
example : (segSeg (1 / 100000000) [0, 0] [4, 0] [1, 3] [1, 3]).exact = true ∧
    (segSeg (1 / 100000000) [0, 0] [4, 0] [1, 3] [1, 3]).d2 = 9 := by decide +kernel
-- collinear, disjoint
example : (segSeg (1 / 100000000) [0, 0] [1, 0] [3, 0] [5, 0]).exact = true ∧
    (segSeg (1 / 100000000) [0, 0] [1, 0] [3, 0] [5, 0]).d2 = 4 := by decide +kernel

/-- `segment_set`: the distance entries are symmetric, the closest-point entry `(i, j)` lies on segment `i`,
    and off the diagonal the distance entry is the minimum over all pairs of points of the two segments -/
theorem seg_set_entry (tol : Rat) (htol : 0 < tol) (si sj : (Vec × Vec) × Nat)
    (h1 : si.1.1.length = si.1.2.length) (h2 : si.1.1.length = sj.1.1.length) (h3 : sj.1.1.length = sj.1.2.length) :
    (segSetEntry tol si sj).1 = (segSetEntry tol sj si).1 ∧
    (∃ t, 0 ≤ t ∧ t ≤ 1 ∧ (segSetEntry tol si sj).2 = along si.1.1 si.1.2 t) ∧
    (si.2 ≠ sj.2 → (segSeg tol si.1.1 si.1.2 sj.1.1 sj.1.2).exact = true →
      (segSeg tol sj.1.1 sj.1.2 si.1.1 si.1.2).exact = true →
      ∀ s t : Rat, 0 ≤ s → s ≤ 1 → 0 ≤ t → t ≤ 1 →
        (segSetEntry tol si sj).1 ≤ nsq (vsub (along si.1.1 si.1.2 s) (along sj.1.1 sj.1.2 t))) := by
  obtain ⟨a0, a1, a2, a3, a4, a5, _⟩ := segSeg_on_segs tol htol si.1.1 si.1.2 sj.1.1 sj.1.2 h1 h2 h3
  obtain ⟨b0, b1, b2, b3, b4, b5, _⟩ := segSeg_on_segs tol htol sj.1.1 sj.1.2 si.1.1 si.1.2 h3 h2.symm h1
  unfold segSetEntry
  rcases Nat.lt_trichotomy si.2 sj.2 with hlt | heq | hgt
  · have n1 : ¬ si.2 = sj.2 := by omega
    have n2 : ¬ sj.2 = si.2 := by omega
    have n3 : ¬ sj.2 < si.2 := by omega
    rw [if_neg n1, if_pos hlt, if_neg n2, if_neg n3]
    refine ⟨rfl, ⟨_, a0, a1, a4⟩, fun _ hr _ s t hs0 hs1 ht0 ht1 => ?_⟩
    exact segSeg_min tol htol _ _ _ _ h1 h2 h3 hr s t hs0 hs1 ht0 ht1
  · rw [if_pos heq, if_pos heq.symm]
    refine ⟨rfl, ⟨1 / 2, by norm_num, by norm_num, rfl⟩, fun h => absurd heq h⟩
  · have n1 : ¬ si.2 = sj.2 := by omega
    have n2 : ¬ sj.2 = si.2 := by omega
    have n3 : ¬ si.2 < sj.2 := by omega
    rw [if_neg n1, if_neg n3, if_neg n2, if_pos hgt]
    refine ⟨rfl, ⟨_, b2, b3, b5⟩, fun _ _ hr s t hs0 hs1 ht0 ht1 => ?_⟩
    rw [nsq_vsub_comm]
    exact segSeg_min tol htol _ _ _ _ h3 h2.symm h1 hr t s ht0 ht1 hs0 hs1

example : ((segSet (1 / 100000000) [([0, 0], [1, 1]), ([1, 0], [2, 1]), ([2, 0], [3, 1])]).map (·.map (·.1)))
    = [[0, 1 / 2, 2], [1 / 2, 0, 1 / 2], [2, 1 / 2, 0]] := by decide +kernel

/-! ### point – polygon (CORE: reduction to the plane distance, point–segment distances and membership)

Not formalised (correspondence + exact oracle only): that the winding test `inPoly` decides membership in
the polygon, and that a point whose projection is outside has its nearest polygon point on the boundary. -/

/-- if the membership test accepts the projection: the closest point is the orthogonal projection onto the
    polygon's plane, it lies in that plane, and no point of the plane (a fortiori of the polygon) is closer -/
theorem pt_poly_inside_plane_minimal (p : Vec) (poly : List Vec)
    (hc : (centroid poly).length = p.length) (hn : (normal poly).length = p.length)
    (hnn : nsq (normal poly) ≠ 0) (hin : (ptPoly p poly).inside = true) :
    dot (vsub (ptPoly p poly).cp (centroid poly)) (normal poly) = 0 ∧
    (ptPoly p poly).d2 = nsq (vsub p (ptPoly p poly).cp) ∧
    ∀ x : Vec, x.length = p.length → dot (vsub x (centroid poly)) (normal poly) = 0 →
      (ptPoly p poly).d2 ≤ nsq (vsub p x) := by
  have hI : inPoly poly (normal poly) (projPlane (centroid poly) (normal poly) p) = true := by
    by_contra hI
    unfold ptPoly at hin
    simp only [] at hin
    rw [if_neg hI] at hin
    split at hin <;> simp at hin
  have e : ptPoly p poly = ⟨true, projPlane (centroid poly) (normal poly) p,
      dot (vsub p (centroid poly)) (normal poly) * dot (vsub p (centroid poly)) (normal poly) / nsq (normal poly)⟩ := by
    unfold ptPoly
    simp only []
    rw [if_pos hI]
  rw [e]
  simp only []
  rw [← nsq_to_projPlane _ _ _ hn hnn]
  exact ⟨projPlane_in_plane _ _ _ hc hn hnn, rfl, fun x hx hp => projPlane_min _ _ _ x hc hn hx hnn hp⟩

/-- otherwise: the result is the minimum of the point–segment distances over the boundary segments, attained
    at the returned point, which lies on one of them -/
theorem pt_poly_outside_boundary_minimal (p : Vec) (poly : List Vec)
    (hl : ∀ g ∈ edges poly, p.length = g.1.length ∧ g.1.length = g.2.length)
    (hout : (ptPoly p poly).inside = false) :
    (∀ g ∈ edges poly, ∀ s : Rat, 0 ≤ s → s ≤ 1 → (ptPoly p poly).d2 ≤ nsq (vsub p (along g.1 g.2 s))) ∧
    (edges poly ≠ [] → ∃ g ∈ edges poly, ∃ t : Rat, 0 ≤ t ∧ t ≤ 1 ∧ (ptPoly p poly).cp = along g.1 g.2 t ∧
      (ptPoly p poly).d2 = nsq (vsub p (ptPoly p poly).cp)) := by
  have hI : ¬ inPoly poly (normal poly) (projPlane (centroid poly) (normal poly) p) = true := by
    intro hI
    unfold ptPoly at hout
    simp only [] at hout
    rw [if_pos hI] at hout
    simp at hout
  cases hm : minPtSeg p (edges poly) with
  | none =>
    have he := minPtSeg_none _ _ hm
    rw [he]
    exact ⟨fun g hg => by simp at hg, fun h => absurd rfl h⟩
  | some o =>
    have e : ptPoly p poly = ⟨false, o.cp, o.d2⟩ := by
      unfold ptPoly
      simp only []
      rw [if_neg hI, hm]
    obtain ⟨m1, g, hg, m2⟩ := minPtSeg_spec _ _ _ hm
    rw [e]
    simp only []
    refine ⟨fun g' hg' s hs0 hs1 => ?_, fun _ => ⟨g, hg, ?_⟩⟩
    · exact le_trans (m1 g' hg') (ptSeg_min p _ _ (hl g' hg').1 (hl g' hg').2 s hs0 hs1)
    · obtain ⟨t0, t1, tc, td⟩ := ptSeg_spec p g.1 g.2 (hl g hg).1 (hl g hg).2
      rw [m2]
      exact ⟨_, t0, t1, tc, td⟩

/-- in both cases, for a planar polygon: no boundary point is closer than the returned distance -/
theorem pt_poly_le_boundary (p : Vec) (poly : List Vec)
    (hc : (centroid poly).length = p.length) (hn : (normal poly).length = p.length)
    (hnn : nsq (normal poly) ≠ 0)
    (hl : ∀ g ∈ edges poly, p.length = g.1.length ∧ g.1.length = g.2.length)
    (hplanar : ∀ g ∈ edges poly, dot (vsub g.1 (centroid poly)) (normal poly) = 0 ∧
      dot (vsub g.2 (centroid poly)) (normal poly) = 0)
    (g : Vec × Vec) (hg : g ∈ edges poly) (s : Rat) (hs0 : 0 ≤ s) (hs1 : s ≤ 1) :
    (ptPoly p poly).d2 ≤ nsq (vsub p (along g.1 g.2 s)) := by
  cases hin : (ptPoly p poly).inside with
  | true =>
    obtain ⟨_, _, m⟩ := pt_poly_inside_plane_minimal p poly hc hn hnn hin
    refine m _ ?_ ?_
    · rw [length_along _ _ _ (hl g hg).2, (hl g hg).1]
    · exact along_in_plane _ _ _ _ s (hl g hg).2 (by rw [hc, (hl g hg).1]) (hplanar g hg).1 (hplanar g hg).2
  | false =>
    exact (pt_poly_outside_boundary_minimal p poly hl hin).1 g hg s hs0 hs1

-- unit square, a point above the interior and a point beside it
example : (ptPoly [1 / 2, 1 / 2, 3] [[0, 0, 0], [1, 0, 0], [1, 1, 0], [0, 1, 0]]).inside = true ∧
    (ptPoly [1 / 2, 1 / 2, 3] [[0, 0, 0], [1, 0, 0], [1, 1, 0], [0, 1, 0]]).d2 = 9 ∧
    nsq (normal [[0, 0, 0], [1, 0, 0], [1, 1, 0], [0, 1, 0]]) ≠ 0 := by decide +kernel
example : (ptPoly [2, 1 / 2, 1] [[0, 0, 0], [1, 0, 0], [1, 1, 0], [0, 1, 0]]).inside = false ∧
    (ptPoly [2, 1 / 2, 1] [[0, 0, 0], [1, 0, 0], [1, 1, 0], [0, 1, 0]]).d2 = 2 := by decide +kernel

/-! ### convex polygons: the membership test decides membership, and the distance is the minimum over
the WHOLE polygon (FULL for convex planar polygons)

`InRegion poly x`: `x` lies in the polygon's plane and to the left of (or on) every edge, seen against the
Newell normal — for a convex polygon (`ConvexPoly`: planar, strict left turn at every corner, every vertex in
the half-plane of every edge) this is the closed polygon as a point set. -/

/-- the winding-number test as coded decides membership for convex polygons: accepted points lie in the closed
    polygon, and every point strictly inside is accepted (points on the boundary get the default `False`) -/
theorem membership_convex (poly : List Vec) (C : ConvexPoly poly) (q : Vec) (hq : q.length = 3)
    (pq : dot (vsub q (centroid poly)) (normal poly) = 0) :
    (inPoly poly (normal poly) q = true → InRegion poly q) ∧
    ((∀ g ∈ edges poly, 0 < side3 (normal poly) g.1 g.2 q) → inPoly poly (normal poly) q = true) :=
  ⟨fun h => ⟨hq, pq, inPoly_sound poly C q hq pq h⟩, inPoly_complete poly C q hq pq⟩

/-- a point whose projection is not strictly inside a convex polygon has its nearest polygon point on the
    boundary: every point of the polygon is at least as far as some point of some edge -/
theorem convex_nearest_on_boundary (poly : List Vec) (C : ConvexPoly poly) (p : Vec) (hp : p.length = 3)
    (hout : ∃ g ∈ edges poly, side3 (normal poly) g.1 g.2 (projPlane (centroid poly) (normal poly) p) ≤ 0)
    (x : Vec) (hx : InRegion poly x) :
    ∃ g ∈ edges poly, ∃ t : Rat, 0 ≤ t ∧ t ≤ 1 ∧ nsq (vsub p (along g.1 g.2 t)) ≤ nsq (vsub p x) :=
  convex_outside_bound poly C p hp hout x hx

/-- `points_polygon` on a convex planar polygon returns the true distance: no point of the polygon is closer
    than the returned distance, and the returned closest point belongs to the polygon and realises it -/
theorem pt_polygon_minimal_convex (poly : List Vec) (C : ConvexPoly poly) (p : Vec) (hp : p.length = 3) :
    (∀ x : Vec, InRegion poly x → (ptPoly p poly).d2 ≤ nsq (vsub p x)) ∧
    InRegion poly (ptPoly p poly).cp ∧ (ptPoly p poly).d2 = nsq (vsub p (ptPoly p poly).cp) := by
  have hc : (centroid poly).length = p.length := by rw [C.clen, hp]
  have hn : (normal poly).length = p.length := by rw [C.nlen, hp]
  have lq : (projPlane (centroid poly) (normal poly) p).length = 3 := by rw [length_projPlane _ _ _ hn, hp]
  have pq := projPlane_in_plane (centroid poly) (normal poly) p hc hn C.nn
  have hl : ∀ g ∈ edges poly, p.length = g.1.length ∧ g.1.length = g.2.length := fun g hg => by
    obtain ⟨la, lb⟩ := C.len3 g hg
    exact ⟨by rw [hp, la], by rw [la, lb]⟩
  cases hin : (ptPoly p poly).inside with
  | true =>
    obtain ⟨m1, m2, m3⟩ := pt_poly_inside_plane_minimal p poly hc hn C.nn hin
    have hI : inPoly poly (normal poly) (projPlane (centroid poly) (normal poly) p) = true := by
      by_contra hI
      unfold ptPoly at hin
      simp only [] at hin
      rw [if_neg hI] at hin
      split at hin <;> simp at hin
    have ecp : (ptPoly p poly).cp = projPlane (centroid poly) (normal poly) p := by
      unfold ptPoly
      simp only []
      rw [if_pos hI]
    refine ⟨fun x hx => m3 x (by rw [hx.1, hp]) hx.2.1, ?_, m2⟩
    rw [ecp]
    exact (membership_convex poly C _ lq pq).1 hI
  | false =>
    obtain ⟨b1, b2⟩ := pt_poly_outside_boundary_minimal p poly hl hin
    have hI : ¬ inPoly poly (normal poly) (projPlane (centroid poly) (normal poly) p) = true := by
      intro hI
      unfold ptPoly at hin
      simp only [] at hin
      rw [if_pos hI] at hin
      simp at hin
    have hout : ∃ g ∈ edges poly, side3 (normal poly) g.1 g.2 (projPlane (centroid poly) (normal poly) p) ≤ 0 := by
      by_contra hno
      apply hI
      apply (membership_convex poly C _ lq pq).2
      intro g hg
      by_contra hle
      exact hno ⟨g, hg, not_lt.mp hle⟩
    have hne : edges poly ≠ [] := by
      obtain ⟨g, hg, _⟩ := hout
      intro h; rw [h] at hg; simp at hg
    obtain ⟨g, hg, t, t0, t1, ecp, ed⟩ := b2 hne
    refine ⟨fun x hx => ?_, ?_, ed⟩
    · obtain ⟨g', hg', t', t0', t1', hle⟩ := convex_outside_bound poly C p hp hout x hx
      exact le_trans (b1 g' hg' t' t0' t1') hle
    · rw [ecp]
      exact edge_in_region poly C g hg t t0 t1

-- the unit square and a tilted pentagon (plane x + y + z = 3) are convex polygons in this sense
example : ConvexPoly [[0, 0, 0], [1, 0, 0], [1, 1, 0], [0, 1, 0]] :=
  ⟨by decide +kernel, by decide +kernel, by decide +kernel, by decide +kernel, by decide +kernel,
   by decide +kernel, by decide +kernel⟩
example : ConvexPoly [[3, 0, 0], [2, 2, -1], [0, 3, 0], [-1, 2, 2], [1, -1, 3]] :=
  ⟨by decide +kernel, by decide +kernel, by decide +kernel, by decide +kernel, by decide +kernel,
   by decide +kernel, by decide +kernel⟩
example : (ptPoly [3, 1 / 2, 4] [[0, 0, 0], [1, 0, 0], [1, 1, 0], [0, 1, 0]]).d2 = 20 := by decide +kernel

/-! ### segment – polygon (CORE) -/

/-- crossing branch: the returned point lies on the segment and in the polygon's plane, the distance is 0
    (that the point is inside the polygon is the membership test, see above) -/
theorem seg_poly_cross_sound (tolP tolS : Rat) (s e : Vec) (poly : List Vec)
    (hse : s.length = e.length) (hc : (centroid poly).length = s.length)
    (hb : (segPoly tolP tolS s e poly).branch = 0) :
    (segPoly tolP tolS s e poly).d2 = 0 ∧
    ∃ t : Rat, 0 ≤ t ∧ t ≤ 1 ∧ (segPoly tolP tolS s e poly).cp = along s e t ∧
      dot (vsub (segPoly tolP tolS s e poly).cp (centroid poly)) (normal poly) = 0 := by
  cases hx : crossPoint tolP s e poly with
  | none =>
    rcases segPoly_none tolP tolS s e poly hx with h | h
    · rw [h] at hb; simp at hb
    · rw [h, segPolyGeneral_branch] at hb; simp at hb
  | some x0 =>
    rw [segPoly_some tolP tolS s e poly x0 hx]
    unfold crossPoint at hx
    simp only [] at hx
    cases hp : crossParam tolP (nsq (normal poly)) (dot (vsub s (centroid poly)) (normal poly))
        (dot (vsub e (centroid poly)) (normal poly)) with
    | none => rw [hp] at hx; simp at hx
    | some t =>
      rw [hp] at hx
      simp only [] at hx
      split_ifs at hx
      simp only [Option.some.injEq] at hx
      unfold crossParam at hp
      split_ifs at hp with hnz hr
      simp only [Option.some.injEq] at hp
      refine ⟨rfl, t, by rw [← hp]; exact hr.1, by rw [← hp]; exact hr.2, hx.symm, ?_⟩
      show dot (vsub x0 (centroid poly)) (normal poly) = 0
      rw [← hx, along_height _ _ _ _ _ hse hc, ← hp]
      have hdz : dot (vsub e (centroid poly)) (normal poly) - dot (vsub s (centroid poly)) (normal poly) ≠ 0 := by
        intro h0
        rw [h0] at hnz
        have : 0 ≤ tolP * tolP * nsq (normal poly) := mul_nonneg (mul_self_nonneg _) (nsq_nonneg _)
        simp at hnz
        linarith
      field_simp
      ring

/-- general branch: the result is the least of the two end-point distances to the polygon and the
    segment–segment distances to all boundary segments, and it is one of them -/
theorem seg_poly_general_min (tolP tolS : Rat) (s e : Vec) (poly : List Vec)
    (hb : (segPoly tolP tolS s e poly).branch = 2) :
    (segPoly tolP tolS s e poly).d2 ≤ (ptPoly s poly).d2 ∧ (segPoly tolP tolS s e poly).d2 ≤ (ptPoly e poly).d2 ∧
    (∀ g ∈ edges poly, (segPoly tolP tolS s e poly).d2 ≤ (segSeg tolS s e g.1 g.2).d2) ∧
    ((segPoly tolP tolS s e poly).d2 = (ptPoly s poly).d2 ∨ (segPoly tolP tolS s e poly).d2 = (ptPoly e poly).d2 ∨
      ∃ g ∈ edges poly, (segPoly tolP tolS s e poly).d2 = (segSeg tolS s e g.1 g.2).d2) := by
  have hg : segPoly tolP tolS s e poly = segPolyGeneral tolS s e poly := by
    cases hx : crossPoint tolP s e poly with
    | some x0 => rw [segPoly_some tolP tolS s e poly x0 hx] at hb; simp at hb
    | none =>
      rcases segPoly_none tolP tolS s e poly hx with h | h
      · rw [h] at hb; simp at hb
      · exact h
  rw [hg]
  exact segPolyGeneral_spec tolS s e poly

/-- `segments_polygon` on a convex planar polygon returns the true distance: no pair (point of the segment, point
    of the polygon) is closer than the returned distance.  Hypotheses (decidable, satisfied by every generated
    case): the segment–segment kernel is in its exact regime against every boundary segment (for integer data see
    `seg_seg_minimal_int`), and the incline of the segment over the polygon's plane is exactly zero or above the
    tolerance argument (`|dz| > tol`), i.e. not inside the tolerance band of `non_zero_incline`.
    Attainment: by `seg_poly_cross_sound` / `seg_poly_general_min` the value is 0 at a common point or equals one of
    the end-point / segment–edge distances, which are attained (`pt_polygon_minimal_convex`, `seg_seg_closest_on_segs`). -/
theorem seg_poly_minimal_convex (poly : List Vec) (C : ConvexPoly poly) (tolP tolS : Rat) (htol : 0 < tolS) (s e : Vec)
    (hs : s.length = 3) (he : e.length = 3)
    (hss : ∀ g ∈ edges poly, (segSeg tolS s e g.1 g.2).exact = true)
    (hinc : dot (vsub e (centroid poly)) (normal poly) - dot (vsub s (centroid poly)) (normal poly) = 0 ∨
      tolP * tolP * nsq (normal poly) <
        (dot (vsub e (centroid poly)) (normal poly) - dot (vsub s (centroid poly)) (normal poly)) *
        (dot (vsub e (centroid poly)) (normal poly) - dot (vsub s (centroid poly)) (normal poly)))
    (mu : Rat) (mu0 : 0 ≤ mu) (mu1 : mu ≤ 1) (x : Vec) (hx : InRegion poly x) :
    (segPoly tolP tolS s e poly).d2 ≤ nsq (vsub (along s e mu) x) :=
  segPoly_min_convex poly C tolP tolS htol s e hs he hss hinc mu mu0 mu1 x hx

/-- where the returned "closest point" of `segments_polygon` lies, for a convex planar polygon, branch by branch:
    * crossing: distance 0, and the point lies on the segment AND in the polygon;
    * in-plane: distance 0 is returned and the point lies in the polygon, within the tolerance `tol` (start point) or
      `2·tol` (end point) of an end point of the segment — the only branch where "at that distance" holds up to the
      tolerance argument only;
    * general: there are a point `y` of the segment and a point `z` of the polygon at exactly the returned distance, and
      the returned point is one of the two.
    With `seg_poly_minimal_convex` this is the property for segment–polygon: true distance, realised at the returned point. -/
theorem seg_poly_attained_convex (poly : List Vec) (C : ConvexPoly poly) (tolP tolS : Rat) (htol : 0 < tolS) (s e : Vec)
    (hs : s.length = 3) (he : e.length = 3) :
    ((segPoly tolP tolS s e poly).branch = 0 → (segPoly tolP tolS s e poly).d2 = 0 ∧
        InRegion poly (segPoly tolP tolS s e poly).cp ∧ ∃ t : Rat, 0 ≤ t ∧ t ≤ 1 ∧ (segPoly tolP tolS s e poly).cp = along s e t) ∧
    ((segPoly tolP tolS s e poly).branch = 1 → (segPoly tolP tolS s e poly).d2 = 0 ∧
        InRegion poly (segPoly tolP tolS s e poly).cp ∧
        (nsq (vsub s (segPoly tolP tolS s e poly).cp) < tolP * tolP ∨ nsq (vsub e (segPoly tolP tolS s e poly).cp) < 4 * (tolP * tolP))) ∧
    ((segPoly tolP tolS s e poly).branch = 2 → ∃ y z : Vec, (∃ t : Rat, 0 ≤ t ∧ t ≤ 1 ∧ y = along s e t) ∧ InRegion poly z ∧
        ((segPoly tolP tolS s e poly).cp = y ∨ (segPoly tolP tolS s e poly).cp = z) ∧
        (segPoly tolP tolS s e poly).d2 = nsq (vsub y z)) := by
  have hnn : 0 < nsq (normal poly) := lt_of_le_of_ne (nsq_nonneg _) (Ne.symm C.nn)
  have hse : s.length = e.length := by rw [hs, he]
  have hcs : (centroid poly).length = s.length := by rw [C.clen, hs]
  have accepted : ∀ w : Vec, w.length = 3 →
      inPoly poly (normal poly) (projPlane (centroid poly) (normal poly) w) = true →
      InRegion poly (projPlane (centroid poly) (normal poly) w) := by
    intro w lw hacc
    have lq : (projPlane (centroid poly) (normal poly) w).length = 3 := by rw [length_projPlane _ _ _ (by rw [C.nlen, lw]), lw]
    exact (membership_convex poly C _ lq (projPlane_in_plane _ _ _ (by rw [C.clen, lw]) (by rw [C.nlen, lw]) C.nn)).1 hacc
  refine ⟨fun hb => ?_, fun hb => ?_, fun hb => ?_⟩
  · -- crossing
    cases hx : crossPoint tolP s e poly with
    | none =>
      rcases segPoly_none tolP tolS s e poly hx with h | h
      · rw [h] at hb; simp at hb
      · rw [h, segPolyGeneral_branch] at hb; simp at hb
    | some x0 =>
      obtain ⟨t, t0, t1, ex, px, hacc⟩ := crossPoint_some tolP s e poly x0 hse hcs hx
      rw [segPoly_some tolP tolS s e poly x0 hx]
      have lx : x0.length = 3 := by rw [ex, length_along _ _ _ hse, hs]
      have hfix := projPlane_fix (centroid poly) (normal poly) x0 (by rw [C.nlen, lx]) px
      have := accepted x0 lx hacc
      rw [hfix] at this
      exact ⟨rfl, this, t, t0, t1, ex⟩
  · -- in the plane
    obtain ⟨h1, h2, h3, h4⟩ := segPoly_branch1 tolP tolS s e poly hb
    have T : 0 ≤ tolP * tolP := mul_self_nonneg _
    rcases h3 with ⟨hacc, ecp⟩ | ⟨hacc, ecp⟩
    · refine ⟨h4, by rw [ecp]; exact accepted s hs hacc, Or.inl ?_⟩
      rw [ecp, nsq_to_projPlane _ _ _ (by rw [C.nlen, hs]) C.nn, div_lt_iff₀ hnn]
      exact h1
    · refine ⟨h4, by rw [ecp]; exact accepted e he hacc, Or.inr ?_⟩
      rw [ecp, nsq_to_projPlane _ _ _ (by rw [C.nlen, he]) C.nn, div_lt_iff₀ hnn]
      have h2' := not_lt.mp h2
      nlinarith [mul_self_nonneg (dot (vsub e (centroid poly)) (normal poly) - 2 * dot (vsub s (centroid poly)) (normal poly))]
  · -- general
    have hg : segPoly tolP tolS s e poly = segPolyGeneral tolS s e poly := by
      cases hx : crossPoint tolP s e poly with
      | some x0 => rw [segPoly_some tolP tolS s e poly x0 hx] at hb; simp at hb
      | none =>
        rcases segPoly_none tolP tolS s e poly hx with h | h
        · rw [h] at hb; simp at hb
        · exact h
    rw [hg]
    rcases segPolyGeneral_cp tolS s e poly with ⟨c1, c2⟩ | ⟨c1, c2⟩ | ⟨g, hgm, c1, c2⟩
    · obtain ⟨_, m2, m3⟩ := pt_polygon_minimal_convex poly C s hs
      exact ⟨s, (ptPoly s poly).cp, ⟨0, le_refl _, by norm_num, (along_zero s e hse).symm⟩, m2, Or.inr c1, by rw [c2, m3]⟩
    · obtain ⟨_, m2, m3⟩ := pt_polygon_minimal_convex poly C e he
      exact ⟨e, (ptPoly e poly).cp, ⟨1, by norm_num, le_refl _, (along_one s e hse).symm⟩, m2, Or.inr c1, by rw [c2, m3]⟩
    · obtain ⟨la, lb⟩ := C.len3 g hgm
      obtain ⟨a0, a1, a2, a3, a4, a5, a6⟩ := segSeg_on_segs tolS htol s e g.1 g.2 hse (by rw [hs, la]) (by rw [la, lb])
      refine ⟨(segSeg tolS s e g.1 g.2).cp1, (segSeg tolS s e g.1 g.2).cp2, ⟨_, a0, a1, a4⟩, ?_, Or.inl c1, by rw [c2]; exact a6⟩
      rw [a5]
      exact edge_in_region poly C g hgm _ a2 a3

-- the hypotheses hold e.g. for a segment passing beside the unit square at an incline
example : (∀ g ∈ edges [[0, 0, 0], [1, 0, 0], [1, 1, 0], [0, 1, 0]],
      (segSeg (1 / 100000000) [2, 1 / 2, 1] [3, 1 / 2, -1] g.1 g.2).exact = true) ∧
    (segPoly (1 / 100000) (1 / 100000000) [2, 1 / 2, 1] [3, 1 / 2, -1] [[0, 0, 0], [1, 0, 0], [1, 1, 0], [0, 1, 0]]).d2 = 9 / 5 := by
  decide +kernel

-- a segment through the unit square, one parallel above it, one beside it
example : (segPoly (1 / 100000) (1 / 100000000) [1 / 2, 1 / 2, -1] [1 / 2, 1 / 2, 1]
    [[0, 0, 0], [1, 0, 0], [1, 1, 0], [0, 1, 0]]).branch = 0 := by decide +kernel
example : (segPoly (1 / 100000) (1 / 100000000) [-1, 1 / 2, 1] [2, 1 / 2, 1]
    [[0, 0, 0], [1, 0, 0], [1, 1, 0], [0, 1, 0]]).branch = 2 ∧
  (segPoly (1 / 100000) (1 / 100000000) [-1, 1 / 2, 1] [2, 1 / 2, 1]
    [[0, 0, 0], [1, 0, 0], [1, 1, 0], [0, 1, 0]]).d2 = 1 := by decide +kernel

end PorepyVerif.C30
