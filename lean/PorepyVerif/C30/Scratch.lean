import PorepyVerif.C30.Lemmas

namespace PorepyVerif.C30

/-! ### minima over lists of edges -/

theorem minPtSeg_spec (p : Vec) (es : List (Vec × Vec)) (o : PtSegOut) (h : minPtSeg p es = some o) :
    (∀ g ∈ es, o.d2 ≤ (ptSeg p g.1 g.2).d2) ∧ ∃ g ∈ es, o = ptSeg p g.1 g.2 := by
  induction es generalizing o with
  | nil => simp [minPtSeg] at h
  | cons g gs ih =>
    unfold minPtSeg at h
    simp only [] at h
    cases hm : minPtSeg p gs with
    | none =>
      rw [hm] at h
      simp only [Option.some.injEq] at h
      have hgs : gs = [] := by
        cases gs with
        | nil => rfl
        | cons g' gs' =>
          unfold minPtSeg at hm
          simp only [] at hm
          cases h' : minPtSeg p gs' <;> rw [h'] at hm <;> simp at hm
          split at hm <;> simp at hm
      subst hgs
      subst h
      exact ⟨fun g' hg' => by simp at hg'; rw [hg'], ⟨g, by simp, rfl⟩⟩
    | some o' =>
      rw [hm] at h
      simp only [] at h
      obtain ⟨ih1, g', hg', ih2⟩ := ih o' hm
      split at h
      · rename_i hlt
        simp only [Option.some.injEq] at h
        subst h
        refine ⟨fun g'' hg'' => ?_, ⟨g', List.mem_cons_of_mem _ hg', ih2⟩⟩
        rcases List.mem_cons.mp hg'' with rfl | hin
        · exact hlt.le
        · exact ih1 _ hin
      · rename_i hlt
        simp only [Option.some.injEq] at h
        subst h
        refine ⟨fun g'' hg'' => ?_, ⟨g, by simp, rfl⟩⟩
        rcases List.mem_cons.mp hg'' with rfl | hin
        · exact le_refl _
        · exact le_trans (not_lt.mp hlt) (ih1 _ hin)

theorem minPtSeg_none (p : Vec) (es : List (Vec × Vec)) (h : minPtSeg p es = none) : es = [] := by
  cases es with
  | nil => rfl
  | cons g gs =>
    unfold minPtSeg at h
    simp only [] at h
    cases h' : minPtSeg p gs <;> rw [h'] at h <;> simp at h
    split at h <;> simp at h

theorem minSegSeg_spec (tol : Rat) (s e : Vec) (es : List (Vec × Vec)) (o : SegSegOut)
    (h : minSegSeg tol s e es = some o) :
    (∀ g ∈ es, o.d2 ≤ (segSeg tol s e g.1 g.2).d2) ∧ ∃ g ∈ es, o = segSeg tol s e g.1 g.2 := by
  induction es generalizing o with
  | nil => simp [minSegSeg] at h
  | cons g gs ih =>
    unfold minSegSeg at h
    simp only [] at h
    cases hm : minSegSeg tol s e gs with
    | none =>
      rw [hm] at h
      simp only [Option.some.injEq] at h
      have hgs : gs = [] := by
        cases gs with
        | nil => rfl
        | cons g' gs' =>
          unfold minSegSeg at hm
          simp only [] at hm
          cases h' : minSegSeg tol s e gs' <;> rw [h'] at hm <;> simp at hm
          split at hm <;> simp at hm
      subst hgs
      subst h
      exact ⟨fun g' hg' => by simp at hg'; rw [hg'], ⟨g, by simp, rfl⟩⟩
    | some o' =>
      rw [hm] at h
      simp only [] at h
      obtain ⟨ih1, g', hg', ih2⟩ := ih o' hm
      split at h
      · rename_i hlt
        simp only [Option.some.injEq] at h
        subst h
        refine ⟨fun g'' hg'' => ?_, ⟨g', List.mem_cons_of_mem _ hg', ih2⟩⟩
        rcases List.mem_cons.mp hg'' with rfl | hin
        · exact hlt.le
        · exact ih1 _ hin
      · rename_i hlt
        simp only [Option.some.injEq] at h
        subst h
        refine ⟨fun g'' hg'' => ?_, ⟨g, by simp, rfl⟩⟩
        rcases List.mem_cons.mp hg'' with rfl | hin
        · exact le_refl _
        · exact le_trans (not_lt.mp hlt) (ih1 _ hin)

/-! ### planes -/

theorem vsub_vsub_cancel (x y : Vec) (h : x.length = y.length) : vsub x (vsub x y) = y := by
  induction x generalizing y with
  | nil => cases y with
    | nil => rfl
    | cons b bs => simp at h
  | cons a as ih => cases y with
    | nil => simp at h
    | cons b bs => simp at h; simp [ih bs h]

theorem nsq_smul (k : Rat) (v : Vec) : nsq (smul k v) = k * k * nsq v := by
  unfold nsq; rw [dot_smul_left, dot_smul_right]; ring

/-- the projection lies in the plane -/
theorem projPlane_in_plane (c n x : Vec) (hc : c.length = x.length) (hn : n.length = x.length) (hnn : nsq n ≠ 0) :
    dot (vsub (projPlane c n x) c) n = 0 := by
  unfold projPlane
  have l1 : (smul (dot (vsub x c) n / nsq n) n).length = x.length := by simp [hn]
  have l2 : (vsub x (smul (dot (vsub x c) n / nsq n) n)).length = c.length := by
    rw [length_vsub _ _ l1.symm, hc]
  rw [dot_vsub_left _ _ _ l2, dot_vsub_left _ _ _ l1.symm, dot_smul_left, dot_vsub_left _ _ _ hc.symm]
  have : dot n n = nsq n := rfl
  rw [this]
  field_simp
  ring

/-- distance from a point to its projection -/
theorem nsq_to_projPlane (c n x : Vec) (hn : n.length = x.length) (hnn : nsq n ≠ 0) :
    nsq (vsub x (projPlane c n x)) = dot (vsub x c) n * dot (vsub x c) n / nsq n := by
  unfold projPlane
  rw [vsub_vsub_cancel _ _ (by simp [hn]), nsq_smul]
  field_simp

theorem nsq_split (x q y : Vec) (hy : y.length = x.length) (hq : q.length = x.length) :
    nsq (vsub x y) = nsq (vsub x q) + 2 * dot (vsub x q) (vsub q y) + nsq (vsub q y) := by
  unfold nsq
  induction x generalizing y q with
  | nil =>
    have h1 : y = [] := List.length_eq_zero_iff.mp hy
    have h2 : q = [] := List.length_eq_zero_iff.mp hq
    subst h1; subst h2; simp
  | cons a as ih => cases y with
    | nil => simp at hy
    | cons b bs => cases q with
      | nil => simp at hq
      | cons r rs =>
        simp at hy hq
        simp [ih rs bs hy hq]
        ring

/-- Pythagoras: the projection is the closest point of the plane -/
theorem projPlane_min (c n x y : Vec) (hc : c.length = x.length) (hn : n.length = x.length) (hy : y.length = x.length)
    (hnn : nsq n ≠ 0) (hplane : dot (vsub y c) n = 0) :
    nsq (vsub x (projPlane c n x)) ≤ nsq (vsub x y) := by
  have hq := projPlane_in_plane c n x hc hn hnn
  have e1 : vsub x (projPlane c n x) = smul (dot (vsub x c) n / nsq n) n := by
    unfold projPlane; exact vsub_vsub_cancel _ _ (by simp [hn])
  have lq : (projPlane c n x).length = x.length := by
    unfold projPlane; rw [length_vsub _ _ (by simp [hn])]
  have split := nsq_split x (projPlane c n x) y hy lq
  have cross : dot (vsub x (projPlane c n x)) (vsub (projPlane c n x) y) = 0 := by
    rw [e1, dot_smul_left, dot_vsub_right _ _ _ (by rw [lq, hy])]
    have a1 : dot n (projPlane c n x) = dot c n := by
      have := hq
      rw [dot_vsub_left _ _ _ (by rw [lq, hc])] at this
      rw [dot_comm]; linarith
    have a2 : dot n y = dot c n := by
      rw [dot_vsub_left _ _ _ (by rw [hy, hc])] at hplane
      rw [dot_comm]; linarith
    rw [a1, a2]; ring
  rw [split, cross]
  have := nsq_nonneg (vsub (projPlane c n x) y)
  linarith

/-- points of a segment whose end points lie in the plane lie in the plane -/
theorem along_in_plane (c n a b : Vec) (s : Rat) (ha : a.length = b.length) (hc : c.length = a.length)
    (h1 : dot (vsub a c) n = 0) (h2 : dot (vsub b c) n = 0) : dot (vsub (along a b s) c) n = 0 := by
  have l1 : (along a b s).length = c.length := by rw [length_along _ _ _ ha, hc]
  rw [dot_vsub_left _ _ _ l1]
  unfold along
  rw [dot_vadd_left _ _ _ (by simp [length_vsub _ _ ha.symm, ha]), dot_smul_left, dot_vsub_left _ _ _ ha.symm]
  rw [dot_vsub_left _ _ _ hc.symm] at h1
  rw [dot_vsub_left _ _ _ (by rw [← ha, hc])] at h2
  have e1 : dot a n = dot c n := by linarith
  have e2 : dot b n = dot c n := by linarith
  rw [e1, e2]; ring

/-- height over the plane along a segment -/
theorem along_height (c n a b : Vec) (s : Rat) (ha : a.length = b.length) (hc : c.length = a.length) :
    dot (vsub (along a b s) c) n = dot (vsub a c) n + s * (dot (vsub b c) n - dot (vsub a c) n) := by
  have l1 : (along a b s).length = c.length := by rw [length_along _ _ _ ha, hc]
  rw [dot_vsub_left _ _ _ l1]
  unfold along
  rw [dot_vadd_left _ _ _ (by simp [length_vsub _ _ ha.symm, ha]), dot_smul_left, dot_vsub_left _ _ _ ha.symm,
    dot_vsub_left _ _ _ hc.symm, dot_vsub_left _ _ _ (by rw [← ha, hc])]
  ring

end PorepyVerif.C30
