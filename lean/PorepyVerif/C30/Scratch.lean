import PorepyVerif.C30.Lemmas

namespace PorepyVerif.C30

/-! ### point – segment -/

theorem ptSeg_spec (p a b : Vec) (h1 : p.length = a.length) (h2 : a.length = b.length) :
    0 ≤ (ptSeg p a b).t ∧ (ptSeg p a b).t ≤ 1 ∧ (ptSeg p a b).cp = along a b (ptSeg p a b).t ∧
      (ptSeg p a b).d2 = nsq (vsub p (ptSeg p a b).cp) := by
  unfold ptSeg
  simp only []
  generalize (if nsq (vsub b a) = 0 then 0 else dot (vsub p a) (vsub b a) / nsq (vsub b a)) = proj
  split_ifs with h3 h4
  · exact ⟨le_refl _, by norm_num, (along_zero a b h2).symm, rfl⟩
  · exact ⟨by norm_num, le_refl _, (along_one a b h2).symm, rfl⟩
  · exact ⟨by linarith, by linarith, rfl, rfl⟩

theorem ptSeg_min (p a b : Vec) (h1 : p.length = a.length) (h2 : a.length = b.length)
    (s : Rat) (hs0 : 0 ≤ s) (hs1 : s ≤ 1) :
    (ptSeg p a b).d2 ≤ nsq (vsub p (along a b s)) := by
  rw [nsq_sub_along p a b s h1 h2]
  have huu : 0 ≤ nsq (vsub b a) := nsq_nonneg _
  unfold ptSeg
  simp only []
  by_cases hl : nsq (vsub b a) = 0
  · -- zero-length segment
    have hz : dot (vsub p a) (vsub b a) = 0 := by
      rw [dot_comm]; exact dot_eq_zero_of_nsq_eq_zero _ _ hl
    rw [if_pos hl, if_pos (le_refl _)]
    simp only []
    rw [hz, hl]; simp
  · rw [if_neg hl]
    have hpos : 0 < nsq (vsub b a) := lt_of_le_of_ne huu (Ne.symm hl)
    split_ifs with h3 h4
    · -- projection before the start
      have hw : dot (vsub p a) (vsub b a) ≤ 0 := by
        by_contra h
        have : 0 < dot (vsub p a) (vsub b a) / nsq (vsub b a) := div_pos (not_le.mp h) hpos
        linarith
      simp only []
      nlinarith [mul_nonneg hs0 (neg_nonneg.mpr hw), mul_nonneg (mul_nonneg hs0 hs0) huu]
    · -- projection beyond the end
      have hw : nsq (vsub b a) ≤ dot (vsub p a) (vsub b a) := by
        have := (le_div_iff₀ hpos).mp h4
        linarith
      simp only []
      have e : nsq (vsub p b) = nsq (vsub p a) - 2 * 1 * dot (vsub p a) (vsub b a) + 1 * 1 * nsq (vsub b a) := by
        rw [← nsq_sub_along p a b 1 h1 h2, along_one a b h2]
      rw [e]
      nlinarith [mul_nonneg (sub_nonneg.mpr hs1) (sub_nonneg.mpr hw), mul_nonneg (sub_nonneg.mpr hs1) (mul_nonneg (sub_nonneg.mpr hs1) huu)]
    · simp only []
      have e := nsq_sub_along p a b (dot (vsub p a) (vsub b a) / nsq (vsub b a)) h1 h2
      unfold along at e
      rw [e]
      generalize dot (vsub p a) (vsub b a) = wu
      generalize nsq (vsub b a) = uu at hpos hl
      have hne : uu ≠ 0 := ne_of_gt hpos
      have : nsq (vsub p a) - 2 * s * wu + s * s * uu - (nsq (vsub p a) - 2 * (wu / uu) * wu + wu / uu * (wu / uu) * uu)
          = uu * ((s - wu / uu) * (s - wu / uu)) := by field_simp; ring
      nlinarith [mul_nonneg hpos.le (mul_self_nonneg (s - wu / uu))]

/-! ### segment – segment -/

theorem segSeg_fields (tol : Rat) (p0 p1 q0 q1 : Vec) :
    let st := segSegParams tol (nsq (vsub p1 p0)) (dot (vsub p1 p0) (vsub q1 q0)) (nsq (vsub q1 q0))
      (dot (vsub p1 p0) (vsub p0 q0)) (dot (vsub q1 q0) (vsub p0 q0))
    (segSeg tol p0 p1 q0 q1).s = st.1 ∧ (segSeg tol p0 p1 q0 q1).t = st.2 ∧
    (segSeg tol p0 p1 q0 q1).cp1 = along p0 p1 st.1 ∧ (segSeg tol p0 p1 q0 q1).cp2 = along q0 q1 st.2 ∧
    (segSeg tol p0 p1 q0 q1).d2 = nsq (vsub (vadd (vsub p0 q0) (smul st.1 (vsub p1 p0))) (smul st.2 (vsub q1 q0))) ∧
    (segSeg tol p0 p1 q0 q1).exact = exactRegime tol (nsq (vsub p1 p0)) (dot (vsub p1 p0) (vsub q1 q0)) (nsq (vsub q1 q0))
      (dot (vsub p1 p0) (vsub p0 q0)) (dot (vsub q1 q0) (vsub p0 q0)) :=
  ⟨rfl, rfl, rfl, rfl, rfl, rfl⟩

theorem segSeg_on_segs (tol : Rat) (htol : 0 < tol) (p0 p1 q0 q1 : Vec)
    (h1 : p0.length = p1.length) (h2 : p0.length = q0.length) (h3 : q0.length = q1.length) :
    let o := segSeg tol p0 p1 q0 q1
    0 ≤ o.s ∧ o.s ≤ 1 ∧ 0 ≤ o.t ∧ o.t ≤ 1 ∧ o.cp1 = along p0 p1 o.s ∧ o.cp2 = along q0 q1 o.t ∧
      o.d2 = nsq (vsub o.cp1 o.cp2) := by
  obtain ⟨e1, e2, e3, e4, e5, _⟩ := segSeg_fields tol p0 p1 q0 q1
  intro o
  show 0 ≤ (segSeg tol p0 p1 q0 q1).s ∧ (segSeg tol p0 p1 q0 q1).s ≤ 1 ∧ 0 ≤ (segSeg tol p0 p1 q0 q1).t ∧ (segSeg tol p0 p1 q0 q1).t ≤ 1 ∧
    (segSeg tol p0 p1 q0 q1).cp1 = along p0 p1 (segSeg tol p0 p1 q0 q1).s ∧ (segSeg tol p0 p1 q0 q1).cp2 = along q0 q1 (segSeg tol p0 p1 q0 q1).t ∧
    (segSeg tol p0 p1 q0 q1).d2 = nsq (vsub (segSeg tol p0 p1 q0 q1).cp1 (segSeg tol p0 p1 q0 q1).cp2)
  obtain ⟨b0, b1, b2, b3⟩ := params_bounds (tol := tol) (b := dot (vsub p1 p0) (vsub q1 q0))
    (d := dot (vsub p1 p0) (vsub p0 q0)) (e := dot (vsub q1 q0) (vsub p0 q0))
    (nsq_nonneg (vsub p1 p0)) (nsq_nonneg (vsub q1 q0)) htol
  rw [e1, e2, e3, e4, e5]
  exact ⟨b0, b1, b2, b3, rfl, rfl, by rw [dist_eq p0 p1 q0 q1 _ _ h1 h2 h3]⟩

theorem segSeg_min (tol : Rat) (htol : 0 < tol) (p0 p1 q0 q1 : Vec)
    (h1 : p0.length = p1.length) (h2 : p0.length = q0.length) (h3 : q0.length = q1.length)
    (hreg : (segSeg tol p0 p1 q0 q1).exact = true)
    (s t : Rat) (hs0 : 0 ≤ s) (hs1 : s ≤ 1) (ht0 : 0 ≤ t) (ht1 : t ≤ 1) :
    (segSeg tol p0 p1 q0 q1).d2 ≤ nsq (vsub (along p0 p1 s) (along q0 q1 t)) := by
  obtain ⟨_, _, _, _, e5, e6⟩ := segSeg_fields tol p0 p1 q0 q1
  rw [e6] at hreg
  rw [e5, dist_eq p0 p1 q0 q1 _ _ h1 h2 h3, nsq_along_along p0 p1 q0 q1 _ _ h1 h2 h3,
    nsq_along_along p0 p1 q0 q1 s t h1 h2 h3]
  have hl : (vsub p1 p0).length = (vsub q1 q0).length := by
    rw [length_vsub _ _ h1.symm, length_vsub _ _ h3.symm]; omega
  have G := gram_of_vectors (vsub p1 p0) (vsub q1 q0) (vsub p0 q0) hl
  have K := params_kkt G htol hreg
  have := kkt_min G.hQ K hs0 hs1 ht0 ht1
  unfold quad at this
  linarith

end PorepyVerif.C30
