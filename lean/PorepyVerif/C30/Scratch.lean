import PorepyVerif.C30.Props
namespace PorepyVerif.C30
example : ConvexPoly [[0, 0, 0], [1, 0, 0], [1, 1, 0], [0, 1, 0]] :=
  ⟨by decide +kernel, by decide +kernel, by decide +kernel, by decide +kernel, by decide +kernel,
   by decide +kernel, by decide +kernel⟩
-- a tilted pentagon (plane x + y + z = 3)
example : ConvexPoly [[3, 0, 0], [2, 2, -1], [0, 3, 0], [-1, 2, 2], [1, -1, 3]] :=
  ⟨by decide +kernel, by decide +kernel, by decide +kernel, by decide +kernel, by decide +kernel,
   by decide +kernel, by decide +kernel⟩
end PorepyVerif.C30
