/- C30 line-protocol driver: `lake env lean --run PorepyVerif/C30/Driver.lean` -/
import PorepyVerif.Common.Wire
import PorepyVerif.C30.Model
open Lean PV PorepyVerif.C30

def jVec (j : Json) : R Vec := jList jRat j
def jVecs (j : Json) : R (List Vec) := jList jVec j

def jSeg (j : Json) : R (Vec × Vec) := do
  match ← jVecs j with
  | [a, b] => if a.length = b.length then pure (a, b) else throw "segment end points of different dimension"
  | _ => throw "a segment is a pair of points"

def fVec (j : Json) (k : String) : R Vec := field j k >>= jVec
def fVecs (j : Json) (k : String) : R (List Vec) := field j k >>= jVecs
def fSegs (j : Json) (k : String) : R (List (Vec × Vec)) := field j k >>= jList jSeg

def sameDim (n : Nat) (vs : List Vec) : Bool := vs.all (·.length == n)

def run (j : Json) : R Json := do
  let op ← fStr j "op"
  match op with
  | "ptpt" =>
    let p ← fVec j "p"
    let qs ← fVecs j "q"
    if !sameDim p.length qs then throw "dimension mismatch" else
    pure (obj [("d2", ofRats (qs.map (ptPtSq p)))])
  | "ptpt1" =>
    let p ← fVec j "p"
    let qs ← fVecs j "q"
    if !sameDim p.length qs then throw "dimension mismatch" else
    pure (obj [("d1", ofRats (qs.map (ptPt1 p)))])
  | "ptset" =>
    let pts ← fVecs j "pts"
    let md ← fBool j "max_diag"
    if !sameDim ((pts.headD []).length) pts then throw "dimension mismatch" else
    pure (obj [("d2", ofList ofRats (pointSet md pts))])
  | "ptseg" =>
    let pts ← fVecs j "pts"
    let segs ← fSegs j "segs"
    let nd := (pts.headD []).length
    if !(sameDim nd pts && sameDim nd (segs.map (·.1))) then throw "dimension mismatch" else
    let res := pts.map fun p => segs.map fun s => ptSeg p s.1 s.2
    pure (obj [("d2", ofList ofRats (res.map (·.map (·.d2)))),
               ("cp", ofList (ofList ofRats) (res.map (·.map (·.cp)))),
               ("t", ofList ofRats (res.map (·.map (·.t))))])
  | "segseg" =>
    let tol ← fRat j "tol"
    let p0 ← fVec j "p0"
    let p1 ← fVec j "p1"
    let set ← fSegs j "set"
    if !(p1.length == p0.length && sameDim p0.length (set.map (·.1))) then throw "dimension mismatch" else
    let res := set.map fun s => segSeg tol p0 p1 s.1 s.2
    pure (ofList (fun (o : SegSegOut) => obj [("d2", ofRat o.d2), ("cp1", ofRats o.cp1), ("cp2", ofRats o.cp2),
      ("s", ofRat o.s), ("t", ofRat o.t), ("exact", Json.bool o.exact)]) res)
  | "segset" =>
    let tol ← fRat j "tol"
    let segs ← fSegs j "segs"
    let nd := ((segs.headD ([], [])).1).length
    if !sameDim nd (segs.map (·.1)) then throw "dimension mismatch" else
    let res := segSet tol segs
    pure (obj [("d2", ofList ofRats (res.map (·.map (·.1)))),
               ("cp", ofList (ofList ofRats) (res.map (·.map (·.2))))])
  | "ptpoly" =>
    let pts ← fVecs j "pts"
    let poly ← fVecs j "poly"
    if !(sameDim 3 pts && sameDim 3 poly && poly.length ≥ 3) then throw "polygons need >= 3 points in 3-d" else
    if nsq (normal poly) == 0 then pure (err "RuntimeError") else
    let res := pts.map fun p => ptPoly p poly
    pure (ofList (fun (o : PtPolyOut) => obj [("inside", Json.bool o.inside), ("cp", ofRats o.cp), ("d2", ofRat o.d2)]) res)
  | "segpoly" =>
    let tolP ← fRat j "tolP"
    let tolS ← fRat j "tolS"
    let segs ← fSegs j "segs"
    let poly ← fVecs j "poly"
    if !(sameDim 3 (segs.map (·.1)) && sameDim 3 poly && poly.length ≥ 3) then throw "polygons need >= 3 points in 3-d" else
    if nsq (normal poly) == 0 then pure (err "RuntimeError") else
    let res := segs.map fun s => segPoly tolP tolS s.1 s.2 poly
    pure (ofList (fun (o : SegPolyOut) => obj [("branch", ofNat o.branch), ("cp", ofRats o.cp), ("d2", ofRat o.d2)]) res)
  | _ => throw s!"unknown op {op}"

def main : IO Unit := runPure run
