/-
C30 — helper lemmas: list-vector algebra, the scalar analysis of the clamped two-parameter
algorithm (KKT conditions of the convex quadratic), minimum-of-list lemmas.
-/
import PorepyVerif.C30.Model
import Mathlib.Algebra.Order.Field.Rat
import Mathlib.Tactic.Ring
import Mathlib.Tactic.Linarith
import Mathlib.Tactic.Positivity
import Mathlib.Tactic.FieldSimp

namespace PorepyVerif.C30

/-! ### list-vector algebra -/

@[simp] theorem dot_nil_left (v : Vec) : dot [] v = 0 := by cases v <;> rfl
@[simp] theorem dot_nil_right (v : Vec) : dot v [] = 0 := by cases v <;> rfl
@[simp] theorem dot_cons (x y : Rat) (xs ys : Vec) : dot (x :: xs) (y :: ys) = x * y + dot xs ys := rfl
@[simp] theorem vadd_cons (x y : Rat) (xs ys : Vec) : vadd (x :: xs) (y :: ys) = (x + y) :: vadd xs ys := rfl
@[simp] theorem vsub_cons (x y : Rat) (xs ys : Vec) : vsub (x :: xs) (y :: ys) = (x - y) :: vsub xs ys := rfl
@[simp] theorem smul_cons (k x : Rat) (xs : Vec) : smul k (x :: xs) = (k * x) :: smul k xs := rfl
@[simp] theorem smul_nil (k : Rat) : smul k [] = [] := rfl
@[simp] theorem vadd_nil_left (v : Vec) : vadd [] v = [] := by cases v <;> rfl
@[simp] theorem vadd_nil_right (v : Vec) : vadd v [] = [] := by cases v <;> rfl
@[simp] theorem vsub_nil_left (v : Vec) : vsub [] v = [] := by cases v <;> rfl
@[simp] theorem vsub_nil_right (v : Vec) : vsub v [] = [] := by cases v <;> rfl

theorem dot_comm (u v : Vec) : dot u v = dot v u := by
  induction u generalizing v with
  | nil => simp
  | cons x xs ih => cases v with
    | nil => simp
    | cons y ys => simp [ih ys, mul_comm]

@[simp] theorem length_smul (k : Rat) (v : Vec) : (smul k v).length = v.length := by
  induction v with
  | nil => rfl
  | cons x xs ih => simp [ih]

theorem length_vadd (u v : Vec) (h : u.length = v.length) : (vadd u v).length = u.length := by
  induction u generalizing v with
  | nil => simp
  | cons x xs ih => cases v with
    | nil => simp at h
    | cons y ys => simp at h; simp [ih ys h]

theorem length_vsub (u v : Vec) (h : u.length = v.length) : (vsub u v).length = u.length := by
  induction u generalizing v with
  | nil => simp
  | cons x xs ih => cases v with
    | nil => simp at h
    | cons y ys => simp at h; simp [ih ys h]

theorem nsq_nonneg (v : Vec) : 0 ≤ nsq v := by
  unfold nsq
  induction v with
  | nil => simp
  | cons x xs ih => simp; nlinarith [mul_self_nonneg x]

theorem dot_smul_left (k : Rat) (u v : Vec) : dot (smul k u) v = k * dot u v := by
  induction u generalizing v with
  | nil => simp
  | cons x xs ih => cases v with
    | nil => simp
    | cons y ys => simp [ih ys]; ring

theorem dot_smul_right (k : Rat) (u v : Vec) : dot u (smul k v) = k * dot u v := by
  rw [dot_comm, dot_smul_left, dot_comm]

theorem dot_vadd_left (u v w : Vec) (h : u.length = v.length) :
    dot (vadd u v) w = dot u w + dot v w := by
  induction u generalizing v w with
  | nil => cases v with
    | nil => simp
    | cons y ys => simp at h
  | cons x xs ih => cases v with
    | nil => simp at h
    | cons y ys =>
      simp at h
      cases w with
      | nil => simp
      | cons z zs => simp [ih ys zs h]; ring

theorem dot_vsub_left (u v w : Vec) (h : u.length = v.length) :
    dot (vsub u v) w = dot u w - dot v w := by
  induction u generalizing v w with
  | nil => cases v with
    | nil => simp
    | cons y ys => simp at h
  | cons x xs ih => cases v with
    | nil => simp at h
    | cons y ys =>
      simp at h
      cases w with
      | nil => simp
      | cons z zs => simp [ih ys zs h]; ring

theorem dot_vadd_right (w u v : Vec) (h : u.length = v.length) :
    dot w (vadd u v) = dot w u + dot w v := by
  rw [dot_comm, dot_vadd_left _ _ _ h, dot_comm u, dot_comm v]

theorem dot_vsub_right (w u v : Vec) (h : u.length = v.length) :
    dot w (vsub u v) = dot w u - dot w v := by
  rw [dot_comm, dot_vsub_left _ _ _ h, dot_comm u, dot_comm v]

/-- a vector of squared norm zero is orthogonal to everything -/
theorem dot_eq_zero_of_nsq_eq_zero (z w : Vec) (h : nsq z = 0) : dot z w = 0 := by
  unfold nsq at h
  induction z generalizing w with
  | nil => simp
  | cons x xs ih =>
    simp at h
    have h1 : 0 ≤ dot xs xs := nsq_nonneg xs
    have h2 : 0 ≤ x * x := mul_self_nonneg x
    have hx : x * x = 0 := by linarith
    have hx0 : x = 0 := by simpa using hx
    have hxs : dot xs xs = 0 := by linarith
    cases w with
    | nil => simp
    | cons y ys => simp [hx0, ih ys hxs]

theorem vsub_self_of_nsq_zero (u v : Vec) (hl : u.length = v.length) (h : nsq (vsub u v) = 0) : u = v := by
  unfold nsq at h
  induction u generalizing v with
  | nil => cases v with
    | nil => rfl
    | cons y ys => simp at hl
  | cons x xs ih => cases v with
    | nil => simp at hl
    | cons y ys =>
      simp at hl h
      have h1 : 0 ≤ dot (vsub xs ys) (vsub xs ys) := nsq_nonneg _
      have h2 : 0 ≤ (x - y) * (x - y) := mul_self_nonneg _
      have hx : (x - y) * (x - y) = 0 := by linarith
      have hx0 : x - y = 0 := by simpa using hx
      have hxs : dot (vsub xs ys) (vsub xs ys) = 0 := by linarith
      rw [ih ys hl hxs]
      have : x = y := by linarith
      rw [this]

theorem nsq_vsub_self (u : Vec) : nsq (vsub u u) = 0 := by
  unfold nsq
  induction u with
  | nil => simp
  | cons x xs ih => simp [ih]

theorem nsq_vsub_comm (u v : Vec) : nsq (vsub u v) = nsq (vsub v u) := by
  unfold nsq
  induction u generalizing v with
  | nil => simp
  | cons x xs ih => cases v with
    | nil => simp
    | cons y ys => simp [ih ys]; ring

/-- `a + 0 (b - a) = a`, `a + 1 (b - a) = b` -/
theorem along_zero (a b : Vec) (h : a.length = b.length) : along a b 0 = a := by
  unfold along
  induction a generalizing b with
  | nil => simp
  | cons x xs ih => cases b with
    | nil => simp at h
    | cons y ys => simp at h; simp [ih ys h]

theorem along_one (a b : Vec) (h : a.length = b.length) : along a b 1 = b := by
  unfold along
  induction a generalizing b with
  | nil => cases b with
    | nil => simp
    | cons y ys => simp at h
  | cons x xs ih => cases b with
    | nil => simp at h
    | cons y ys => simp at h; simp [ih ys h]

theorem length_along (a b : Vec) (s : Rat) (h : a.length = b.length) : (along a b s).length = a.length := by
  unfold along
  rw [length_vadd]
  rw [length_smul, length_vsub _ _ h.symm, h]

/-- squared distance from `p` to the point `a + s (b - a)` as a quadratic in `s` -/
theorem nsq_sub_along (p a b : Vec) (s : Rat) (h1 : p.length = a.length) (h2 : a.length = b.length) :
    nsq (vsub p (along a b s)) =
      nsq (vsub p a) - 2 * s * dot (vsub p a) (vsub b a) + s * s * nsq (vsub b a) := by
  unfold nsq along
  induction p generalizing a b with
  | nil =>
    have ha : a = [] := List.length_eq_zero_iff.mp h1.symm
    subst ha
    have hb : b = [] := List.length_eq_zero_iff.mp h2.symm
    subst hb
    simp
  | cons x xs ih => cases a with
    | nil => simp at h1
    | cons y ys => cases b with
      | nil => simp at h2
      | cons z zs =>
        simp at h1 h2
        simp [ih ys zs h1 h2]
        ring

/-- squared distance between the points with parameters `s`, `t` of two segments as a quadratic -/
theorem nsq_along_along (p0 p1 q0 q1 : Vec) (s t : Rat)
    (h1 : p0.length = p1.length) (h2 : p0.length = q0.length) (h3 : q0.length = q1.length) :
    nsq (vsub (along p0 p1 s) (along q0 q1 t)) =
      nsq (vsub p0 q0) + s * s * nsq (vsub p1 p0) + t * t * nsq (vsub q1 q0)
        + 2 * s * dot (vsub p1 p0) (vsub p0 q0) - 2 * t * dot (vsub q1 q0) (vsub p0 q0)
        - 2 * s * t * dot (vsub p1 p0) (vsub q1 q0) := by
  unfold nsq along
  induction p0 generalizing p1 q0 q1 with
  | nil =>
    have ha : p1 = [] := List.length_eq_zero_iff.mp h1.symm
    subst ha
    have hb : q0 = [] := List.length_eq_zero_iff.mp h2.symm
    subst hb
    have hc : q1 = [] := List.length_eq_zero_iff.mp h3.symm
    subst hc
    simp
  | cons x xs ih => cases p1 with
    | nil => simp at h1
    | cons y ys => cases q0 with
      | nil => simp at h2
      | cons z zs => cases q1 with
        | nil => simp at h3
        | cons w ws =>
          simp at h1 h2 h3
          simp [ih ys zs ws h1 h2 h3]
          ring

/-- the vector `dist = w + s u - t v` of the code is the difference of the two closest points -/
theorem dist_eq (p0 p1 q0 q1 : Vec) (s t : Rat)
    (h1 : p0.length = p1.length) (h2 : p0.length = q0.length) (h3 : q0.length = q1.length) :
    vsub (vadd (vsub p0 q0) (smul s (vsub p1 p0))) (smul t (vsub q1 q0)) =
      vsub (along p0 p1 s) (along q0 q1 t) := by
  unfold along
  induction p0 generalizing p1 q0 q1 with
  | nil => simp
  | cons x xs ih => cases p1 with
    | nil => simp at h1
    | cons y ys => cases q0 with
      | nil => simp at h2
      | cons z zs => cases q1 with
        | nil => simp at h3
        | cons w ws =>
          simp at h1 h2 h3
          simp [ih ys zs ws h1 h2 h3]
          ring

/-- `|x u - y v|²` as a quadratic form -/
theorem nsq_comb (u v : Vec) (x y : Rat) (h : u.length = v.length) :
    nsq (vsub (smul x u) (smul y v)) = x * x * nsq u - 2 * x * y * dot u v + y * y * nsq v := by
  unfold nsq
  induction u generalizing v with
  | nil =>
    have hv : v = [] := List.length_eq_zero_iff.mp h.symm
    subst hv
    simp
  | cons a as ih => cases v with
    | nil => simp at h
    | cons b bs => simp at h; simp [ih bs h]; ring

theorem dot_comb (u v w : Vec) (x y : Rat) (h : u.length = v.length) :
    dot (vsub (smul x u) (smul y v)) w = x * dot u w - y * dot v w := by
  rw [dot_vsub_left _ _ _ (by simp [h]), dot_smul_left, dot_smul_left]

/-! ### scalar analysis of the clamped two-parameter algorithm -/

/-- facts about `a = u·u, b = u·v, c = v·v, d = u·w, e = v·w` that hold for all vectors -/
structure Gram (a b c d e : Rat) : Prop where
  ha : 0 ≤ a
  hc : 0 ≤ c
  hQ : ∀ x y : Rat, 0 ≤ x * x * a - 2 * x * y * b + y * y * c
  hker : ∀ x y : Rat, x * x * a - 2 * x * y * b + y * y * c = 0 → x * d - y * e = 0

theorem Gram.cs {a b c d e : Rat} (G : Gram a b c d e) : b * b ≤ a * c := by
  have h1 := G.hQ c b
  have h2 := G.hQ b a
  have h3 := G.hQ 1 b
  have ha := G.ha
  have hc := G.hc
  rcases lt_or_eq_of_le ha with ha' | ha'
  · by_contra hcon
    have : a * c - b * b < 0 := by linarith
    nlinarith [mul_pos ha' (neg_pos.mpr this)]
  · rcases lt_or_eq_of_le hc with hc' | hc'
    · by_contra hcon
      have : a * c - b * b < 0 := by linarith
      nlinarith [mul_pos hc' (neg_pos.mpr this)]
    · rw [← ha', ← hc'] at h3 ⊢
      nlinarith [mul_self_nonneg b]

theorem Gram.a0 {a b c d e : Rat} (G : Gram a b c d e) (h : a = 0) : b = 0 ∧ d = 0 := by
  have h1 := G.cs
  have h2 := G.hker 1 0 (by rw [h]; ring)
  rw [h] at h1
  constructor
  · have : b * b = 0 := le_antisymm (by linarith) (mul_self_nonneg b)
    simpa using this
  · linarith

theorem Gram.c0 {a b c d e : Rat} (G : Gram a b c d e) (h : c = 0) : b = 0 ∧ e = 0 := by
  have h1 := G.cs
  have h2 := G.hker 0 1 (by rw [h]; ring)
  rw [h] at h1
  constructor
  · have : b * b = 0 := le_antisymm (by linarith) (mul_self_nonneg b)
    simpa using this
  · linarith

/-- the part of the squared distance that depends on the parameters -/
def quad (a b c d e s t : Rat) : Rat := s * s * a + t * t * c + 2 * s * d - 2 * t * e - 2 * s * t * b

/-- half the partial derivatives of `quad` -/
def gs (a b d s t : Rat) : Rat := d + s * a - t * b
def gt (b c e s t : Rat) : Rat := -e - s * b + t * c

/-- KKT conditions of `quad` on the unit square at `(s, t)` -/
structure KKT (a b c d e s t : Rat) : Prop where
  s0 : 0 ≤ s
  s1 : s ≤ 1
  t0 : 0 ≤ t
  t1 : t ≤ 1
  sLo : s < 1 → 0 ≤ gs a b d s t
  sHi : 0 < s → gs a b d s t ≤ 0
  tLo : t < 1 → 0 ≤ gt b c e s t
  tHi : 0 < t → gt b c e s t ≤ 0

/-- variational inequality from the sign conditions -/
theorem vi {x0 g : Rat} (_h0 : 0 ≤ x0) (_h1 : x0 ≤ 1) (lo : x0 < 1 → 0 ≤ g) (hi : 0 < x0 → g ≤ 0)
    {x : Rat} (hx0 : 0 ≤ x) (hx1 : x ≤ 1) : 0 ≤ (x - x0) * g := by
  rcases lt_trichotomy x x0 with h | h | h
  · have hg := hi (by linarith)
    nlinarith [mul_nonneg (sub_nonneg.mpr h.le) (neg_nonneg.mpr hg)]
  · rw [h]; simp
  · have hg := lo (by linarith)
    exact mul_nonneg (by linarith) hg

/-- a KKT point of the convex quadratic is a global minimiser on the square -/
theorem kkt_min {a b c d e s0 t0 : Rat} (hQ : ∀ x y : Rat, 0 ≤ x * x * a - 2 * x * y * b + y * y * c)
    (K : KKT a b c d e s0 t0) {s t : Rat} (hs0 : 0 ≤ s) (hs1 : s ≤ 1) (ht0 : 0 ≤ t) (ht1 : t ≤ 1) :
    quad a b c d e s0 t0 ≤ quad a b c d e s t := by
  have key : quad a b c d e s t - quad a b c d e s0 t0 =
      2 * ((s - s0) * gs a b d s0 t0) + 2 * ((t - t0) * gt b c e s0 t0)
        + ((s - s0) * (s - s0) * a - 2 * (s - s0) * (t - t0) * b + (t - t0) * (t - t0) * c) := by
    unfold quad gs gt; ring
  have h1 := vi K.s0 K.s1 K.sLo K.sHi hs0 hs1
  have h2 := vi K.t0 K.t1 K.tLo K.tHi ht0 ht1
  have h3 := hQ (s - s0) (t - t0)
  linarith

/-- moving from the line `t = t1` (where `t1` is stationary for `s1`) to the line `t = t2`:
    if `s1`, `s2` are the constrained minimisers along the two lines, the `t`-derivative at
    `(s2, t2)` points away from `t1`. -/
theorem switch {a b c d e s1 t1 s2 t2 : Rat} (ha : 0 ≤ a) (hc : 0 ≤ c) (hcs : b * b ≤ a * c)
    (hst : c * t1 = e + s1 * b)
    (V1 : 0 ≤ (s2 - s1) * gs a b d s1 t1) (V2 : 0 ≤ (s1 - s2) * gs a b d s2 t2) :
    0 ≤ (t2 - t1) * gt b c e s2 t2 := by
  unfold gs at V1 V2
  unfold gt
  -- X = s2 - s1, τ = t2 - t1, Y = τ X b
  have hY : (s2 - s1) * (s2 - s1) * a ≤ (t2 - t1) * (s2 - s1) * b := by nlinarith
  have hY0 : 0 ≤ (t2 - t1) * (s2 - s1) * b := by nlinarith [mul_nonneg (mul_self_nonneg (s2 - s1)) ha]
  have hgoal : (t2 - t1) * (-e - s2 * b + t2 * c) = (t2 - t1) * (t2 - t1) * c - (t2 - t1) * (s2 - s1) * b := by
    have : e = c * t1 - s1 * b := by linarith
    rw [this]; ring
  rw [hgoal]
  have hτc : 0 ≤ (t2 - t1) * (t2 - t1) * c := mul_nonneg (mul_self_nonneg _) hc
  by_contra hcon
  have hlt : (t2 - t1) * (t2 - t1) * c < (t2 - t1) * (s2 - s1) * b := by linarith
  -- Y² = τ² X² b² ≤ τ² X² a c ≤ τ² c Y
  have hXX : 0 ≤ (s2 - s1) * (s2 - s1) := mul_self_nonneg _
  have hττ : 0 ≤ (t2 - t1) * (t2 - t1) := mul_self_nonneg _
  have e1 : ((t2 - t1) * (s2 - s1) * b) * ((t2 - t1) * (s2 - s1) * b)
      ≤ ((t2 - t1) * (t2 - t1)) * ((s2 - s1) * (s2 - s1)) * (a * c) := by
    have : ((t2 - t1) * (s2 - s1) * b) * ((t2 - t1) * (s2 - s1) * b)
        = ((t2 - t1) * (t2 - t1)) * ((s2 - s1) * (s2 - s1)) * (b * b) := by ring
    rw [this]
    exact mul_le_mul_of_nonneg_left hcs (mul_nonneg hττ hXX)
  have e2 : ((t2 - t1) * (t2 - t1)) * ((s2 - s1) * (s2 - s1)) * (a * c)
      ≤ ((t2 - t1) * (t2 - t1) * c) * ((t2 - t1) * (s2 - s1) * b) := by
    have : ((t2 - t1) * (t2 - t1)) * ((s2 - s1) * (s2 - s1)) * (a * c)
        = ((t2 - t1) * (t2 - t1) * c) * ((s2 - s1) * (s2 - s1) * a) := by ring
    rw [this]
    exact mul_le_mul_of_nonneg_left hY hτc
  have hYpos : 0 < (t2 - t1) * (s2 - s1) * b := lt_of_le_of_lt hτc hlt
  have e3 : ((t2 - t1) * (t2 - t1) * c) * ((t2 - t1) * (s2 - s1) * b)
      < ((t2 - t1) * (s2 - s1) * b) * ((t2 - t1) * (s2 - s1) * b) :=
    mul_lt_mul_of_pos_right hlt hYpos
  linarith

/-- `(sN, sD, tN, tD)` represent the parameters `s = sN/sD`, `t = tN/tD` with positive denominators -/
structure Rep (q : Par) (s t : Rat) : Prop where
  hs : q.sN = s * q.sD
  ht : q.tN = t * q.tD
  sD : 0 < q.sD
  tD : 0 < q.tD

/-- after stage 1: `s1` is the clamped optimum, `t1` is the unconstrained optimal `t` for `s1`,
    and `s1` satisfies the sign conditions along the line `t = t1` -/
structure S1 (a b c d e s t : Rat) : Prop where
  s0 : 0 ≤ s
  s1 : s ≤ 1
  st : c * t = e + s * b
  sLo : s < 1 → 0 ≤ gs a b d s t
  sHi : 0 < s → gs a b d s t ≤ 0

theorem stage1_spec {tol a b c d e : Rat} (G : Gram a b c d e) (ha : 0 < a) (hc : 0 < c) (htol : 0 < tol)
    (hreg : a * c - b * b < tol * a * c → a * c - b * b ≤ 0) :
    ∃ s1 t1, Rep (stage1 tol a b c d e) s1 t1 ∧ S1 a b c d e s1 t1 := by
  have hcs := G.cs
  have hne : c ≠ 0 := ne_of_gt hc
  unfold stage1
  simp only []
  split_ifs with hpar hs0 hs1
  · -- parallel: D = 0
    have hD : a * c - b * b = 0 := le_antisymm (hreg hpar) (by linarith)
    have hk := G.hker c b (by nlinarith)
    refine ⟨0, e / c, ⟨by simp, by field_simp, by norm_num, hc⟩, ⟨le_refl _, by norm_num, by field_simp; ring, ?_, ?_⟩⟩
    · intro _
      unfold gs
      have : d + 0 * a - e / c * b = (c * d - b * e) / c := by field_simp; ring
      rw [this, hk]; simp
    · intro h; exact absurd h (lt_irrefl _)
  · -- s = 0 edge
    have hD : 0 < a * c - b * b := by
      have : 0 < tol * a * c := by positivity
      linarith
    refine ⟨0, e / c, ⟨by simp, by field_simp, hD, hc⟩, ⟨le_refl _, by norm_num, by field_simp; ring, ?_, ?_⟩⟩
    · intro _
      unfold gs
      have : d + 0 * a - e / c * b = -(b * e - c * d) / c := by field_simp; ring
      rw [this]
      exact div_nonneg (by linarith) hc.le
    · intro h; exact absurd h (lt_irrefl _)
  · -- s = 1 edge
    have hD : 0 < a * c - b * b := by
      have : 0 < tol * a * c := by positivity
      linarith
    refine ⟨1, (b + e) / c, ⟨by simp, by field_simp, hD, hc⟩, ⟨by norm_num, le_refl _, by field_simp; ring, ?_, ?_⟩⟩
    · intro h; exact absurd h (lt_irrefl _)
    · intro _
      unfold gs
      have : d + 1 * a - (b + e) / c * b = ((a * c - b * b) - (b * e - c * d)) / c := by field_simp; ring
      rw [this]
      exact div_nonpos_of_nonpos_of_nonneg (by linarith) hc.le
  · -- interior stationary point
    have hD : 0 < a * c - b * b := by
      have : 0 < tol * a * c := by positivity
      linarith
    generalize hDdef : a * c - b * b = D at hD hs1 ⊢
    have hDne : D ≠ 0 := ne_of_gt hD
    have hg : gs a b d ((b * e - c * d) / D) ((a * e - b * d) / D) = 0 := by
      unfold gs
      have : d + (b * e - c * d) / D * a - (a * e - b * d) / D * b
          = (d * D + (b * e - c * d) * a - (a * e - b * d) * b) / D := by field_simp
      rw [this, ← hDdef]
      have : d * (a * c - b * b) + (b * e - c * d) * a - (a * e - b * d) * b = 0 := by ring
      rw [this]; simp
    have hst : c * ((a * e - b * d) / D) = e + (b * e - c * d) / D * b := by
      have h1 : c * ((a * e - b * d) / D) = (c * (a * e - b * d)) / D := by field_simp
      have h2 : e + (b * e - c * d) / D * b = (e * D + (b * e - c * d) * b) / D := by field_simp
      rw [h1, h2, ← hDdef]
      congr 1; ring
    refine ⟨(b * e - c * d) / D, (a * e - b * d) / D,
      ⟨(div_mul_cancel₀ _ hDne).symm, (div_mul_cancel₀ _ hDne).symm, hD, hD⟩,
      ⟨div_nonneg (by linarith) hD.le, (div_le_one hD).mpr (by linarith), hst, ?_, ?_⟩⟩
    · intro _; rw [hg]
    · intro _; rw [hg]

/-- the `s`-minimiser along a line `t = t2 ∈ {0, 1}`: clamp of `-(d - t2 b)/a` -/
theorem stage2_spec {a b c d e : Rat} (G : Gram a b c d e) (ha : 0 < a) (hc : 0 < c)
    {q : Par} {s1 t1 : Rat} (R : Rep q s1 t1) (H : S1 a b c d e s1 t1) :
    ∃ s2 t2, Rep (stage2 a b d q) s2 t2 ∧ KKT a b c d e s2 t2 := by
  obtain ⟨sN, sD, tN, tD⟩ := q
  obtain ⟨hs, ht, hsD, htD⟩ := R
  simp only at hs ht hsD htD
  have hcs := G.cs
  have hane : a ≠ 0 := ne_of_gt ha
  -- sign of gt at a new point (s2, t2) reached from (s1, t1)
  have sw : ∀ s2 t2 : Rat, 0 ≤ s2 → s2 ≤ 1 → (s2 < 1 → 0 ≤ gs a b d s2 t2) → (0 < s2 → gs a b d s2 t2 ≤ 0) →
      0 ≤ (t2 - t1) * gt b c e s2 t2 := by
    intro s2 t2 h0 h1 lo hi
    exact switch ha.le hc.le hcs H.st (vi H.s0 H.s1 H.sLo H.sHi h0 h1) (vi h0 h1 lo hi H.s0 H.s1)
  unfold stage2 stage2a stage2b
  simp only []
  by_cases hA : tN < 0
  · -- t = 0 edge
    have ht1 : t1 < 0 := by
      by_contra h
      have : 0 ≤ t1 * tD := mul_nonneg (not_lt.mp h) htD.le
      linarith
    rw [if_pos hA]
    by_cases hd : 0 < d
    · rw [if_pos hd]
      simp only []
      rw [if_neg (by linarith)]
      have lo : (0 : Rat) < 1 → 0 ≤ gs a b d 0 0 := fun _ => by unfold gs; linarith
      have hi : (0 : Rat) < 0 → gs a b d 0 0 ≤ 0 := fun h => absurd h (lt_irrefl _)
      have hgt := sw 0 0 (le_refl _) (by norm_num) lo hi
      refine ⟨0, 0, ⟨by simp, by simp, hsD, htD⟩, ⟨le_refl _, by norm_num, le_refl _, by norm_num, lo, hi, ?_, fun h => absurd h (lt_irrefl _)⟩⟩
      intro _
      nlinarith
    · rw [if_neg hd]
      by_cases hd1 : a < -d
      · rw [if_pos hd1]
        simp only []
        rw [if_neg (by linarith)]
        have lo : (1 : Rat) < 1 → 0 ≤ gs a b d 1 0 := fun h => absurd h (lt_irrefl _)
        have hi : (0 : Rat) < 1 → gs a b d 1 0 ≤ 0 := fun _ => by unfold gs; linarith
        have hgt := sw 1 0 (by norm_num) (le_refl _) lo hi
        refine ⟨1, 0, ⟨by simp, by simp, hsD, htD⟩, ⟨by norm_num, le_refl _, le_refl _, by norm_num, lo, hi, ?_, fun h => absurd h (lt_irrefl _)⟩⟩
        intro _
        nlinarith
      · rw [if_neg hd1]
        simp only []
        rw [if_neg (by linarith)]
        have hg : gs a b d (-d / a) 0 = 0 := by unfold gs; field_simp; ring
        have h0 : 0 ≤ -d / a := div_nonneg (by linarith) ha.le
        have h1 : -d / a ≤ 1 := (div_le_one ha).mpr (by linarith)
        have lo : -d / a < 1 → 0 ≤ gs a b d (-d / a) 0 := fun _ => by rw [hg]
        have hi : 0 < -d / a → gs a b d (-d / a) 0 ≤ 0 := fun _ => by rw [hg]
        have hgt := sw (-d / a) 0 h0 h1 lo hi
        refine ⟨-d / a, 0, ⟨by simp; field_simp, by simp, ha, htD⟩, ⟨h0, h1, le_refl _, by norm_num, lo, hi, ?_, fun h => absurd h (lt_irrefl _)⟩⟩
        intro _
        nlinarith
  · rw [if_neg hA]
    by_cases hB : tD < tN
    · -- t = 1 edge
      have ht1 : 1 < t1 := by
        by_contra h
        have : t1 * tD ≤ 1 * tD := mul_le_mul_of_nonneg_right (not_lt.mp h) htD.le
        linarith
      rw [if_pos hB]
      by_cases hd : -d + b < 0
      · rw [if_pos hd]
        have lo : (0 : Rat) < 1 → 0 ≤ gs a b d 0 1 := fun _ => by unfold gs; linarith
        have hi : (0 : Rat) < 0 → gs a b d 0 1 ≤ 0 := fun h => absurd h (lt_irrefl _)
        have hgt := sw 0 1 (le_refl _) (by norm_num) lo hi
        refine ⟨0, 1, ⟨by simp, by simp, hsD, htD⟩, ⟨le_refl _, by norm_num, by norm_num, le_refl _, lo, hi, fun h => absurd h (lt_irrefl _), ?_⟩⟩
        intro _
        nlinarith
      · rw [if_neg hd]
        by_cases hd1 : a < -d + b
        · rw [if_pos hd1]
          have lo : (1 : Rat) < 1 → 0 ≤ gs a b d 1 1 := fun h => absurd h (lt_irrefl _)
          have hi : (0 : Rat) < 1 → gs a b d 1 1 ≤ 0 := fun _ => by unfold gs; linarith
          have hgt := sw 1 1 (by norm_num) (le_refl _) lo hi
          refine ⟨1, 1, ⟨by simp, by simp, hsD, htD⟩, ⟨by norm_num, le_refl _, by norm_num, le_refl _, lo, hi, fun h => absurd h (lt_irrefl _), ?_⟩⟩
          intro _
          nlinarith
        · rw [if_neg hd1]
          have hg : gs a b d ((-d + b) / a) 1 = 0 := by unfold gs; field_simp; ring
          have h0 : 0 ≤ (-d + b) / a := div_nonneg (by linarith) ha.le
          have h1 : (-d + b) / a ≤ 1 := (div_le_one ha).mpr (by linarith)
          have lo : (-d + b) / a < 1 → 0 ≤ gs a b d ((-d + b) / a) 1 := fun _ => by rw [hg]
          have hi : 0 < (-d + b) / a → gs a b d ((-d + b) / a) 1 ≤ 0 := fun _ => by rw [hg]
          have hgt := sw ((-d + b) / a) 1 h0 h1 lo hi
          refine ⟨(-d + b) / a, 1, ⟨by simp; field_simp, by simp, ha, htD⟩, ⟨h0, h1, by norm_num, le_refl _, lo, hi, fun h => absurd h (lt_irrefl _), ?_⟩⟩
          intro _
          nlinarith
    · -- t1 ∈ [0, 1]: stage 1 already gave the minimiser
      rw [if_neg hB]
      have ht0 : 0 ≤ t1 := by
        by_contra h
        have : t1 * tD < 0 := mul_neg_of_neg_of_pos (not_le.mp h) htD
        linarith
      have ht1 : t1 ≤ 1 := by
        by_contra h
        have : 1 * tD < t1 * tD := mul_lt_mul_of_pos_right (not_le.mp h) htD
        linarith
      have hg : gt b c e s1 t1 = 0 := by unfold gt; linarith [H.st]
      exact ⟨s1, t1, ⟨hs, ht, hsD, htD⟩, ⟨H.s0, H.s1, ht0, ht1, H.sLo, H.sHi, fun _ => by rw [hg], fun _ => by rw [hg]⟩⟩

/-- one-dimensional clamp: `x = clamp(-g0/m)` minimises `g0 x + m x²/2` on `[0,1]` -/
theorem clamp_kkt {g0 m : Rat} (hm : 0 < m) :
    0 ≤ clamp01 (-g0 / m) ∧ clamp01 (-g0 / m) ≤ 1 ∧
    (clamp01 (-g0 / m) < 1 → 0 ≤ g0 + clamp01 (-g0 / m) * m) ∧
    (0 < clamp01 (-g0 / m) → g0 + clamp01 (-g0 / m) * m ≤ 0) := by
  have hne : m ≠ 0 := ne_of_gt hm
  unfold clamp01
  split_ifs with h1 h2
  · have : -g0 ≤ 0 := by
      by_contra h
      have : 0 < -g0 / m := div_pos (not_le.mp h) hm
      linarith
    refine ⟨le_refl _, by norm_num, fun _ => by linarith, fun h => absurd h (lt_irrefl _)⟩
  · have : m ≤ -g0 := by
      have := (le_div_iff₀ hm).mp h2
      linarith
    refine ⟨by norm_num, le_refl _, fun h => absurd h (lt_irrefl _), fun _ => by linarith⟩
  · have e : g0 + -g0 / m * m = 0 := by rw [div_mul_cancel₀ _ hne]; ring
    refine ⟨by linarith, by linarith, fun _ => by rw [e], fun _ => by rw [e]⟩

theorem snapDiv_eq {tol n dn x : Rat} (hn : n = x * dn) (hd : 0 < dn) (hx : 0 ≤ x)
    (hreg : n < tol * dn → n ≤ 0) : snapDiv tol n dn = x := by
  unfold snapDiv
  split_ifs with h
  · have h1 := hreg h
    rw [hn] at h1
    have : x ≤ 0 := by
      by_contra hc
      have : 0 < x * dn := mul_pos (not_le.mp hc) hd
      linarith
    linarith
  · rw [hn, mul_div_assoc, div_self (ne_of_gt hd), mul_one]

theorem exactRegime_main {tol a b c d e : Rat} (hreg : exactRegime tol a b c d e = true) (ha : a ≠ 0) (hc : c ≠ 0) :
    (a * c - b * b < tol * a * c → a * c - b * b ≤ 0) ∧
    ((stage2 a b d (stage1 tol a b c d e)).sN < tol * (stage2 a b d (stage1 tol a b c d e)).sD →
        (stage2 a b d (stage1 tol a b c d e)).sN ≤ 0) ∧
    ((stage2 a b d (stage1 tol a b c d e)).tN < tol * (stage2 a b d (stage1 tol a b c d e)).tD →
        (stage2 a b d (stage1 tol a b c d e)).tN ≤ 0) := by
  unfold exactRegime at hreg
  simp only [Bool.or_eq_true, Bool.and_eq_true, decide_eq_true_eq, Bool.not_eq_true', decide_eq_false_iff_not] at hreg
  rcases hreg with (h | h) | h
  · exact absurd h ha
  · exact absurd h hc
  · obtain ⟨⟨h1, h2⟩, h3⟩ := h
    refine ⟨fun h => ?_, fun h => ?_, fun h => ?_⟩
    · rcases h1 with h1 | h1
      · exact absurd h h1
      · exact h1
    · rcases h2 with h2 | h2
      · exact absurd h h2
      · exact h2
    · rcases h3 with h3 | h3
      · exact absurd h h3
      · exact h3

/-- the parameters returned by the algorithm satisfy the KKT conditions (all branches) -/
theorem params_kkt {tol a b c d e : Rat} (G : Gram a b c d e) (htol : 0 < tol)
    (hreg : exactRegime tol a b c d e = true) :
    KKT a b c d e (segSegParams tol a b c d e).1 (segSegParams tol a b c d e).2 := by
  unfold segSegParams
  by_cases hc : c = 0
  · -- the second segment is a point
    obtain ⟨hb, he⟩ := G.c0 hc
    rw [if_pos hc]
    by_cases ha : a = 0
    · obtain ⟨_, hd⟩ := G.a0 ha
      rw [if_pos ha]
      refine ⟨le_refl _, by norm_num, le_refl _, by norm_num, ?_, ?_, ?_, ?_⟩ <;> intro _ <;> simp [gs, gt, ha, hb, hc, hd, he]
    · rw [if_neg ha]
      have ha' : 0 < a := lt_of_le_of_ne G.ha (Ne.symm ha)
      obtain ⟨k0, k1, klo, khi⟩ := clamp_kkt (g0 := d) ha'
      refine ⟨k0, k1, le_refl _, by norm_num, ?_, ?_, ?_, ?_⟩
      · intro h; simpa [gs, hb] using klo h
      · intro h; simpa [gs, hb] using khi h
      · intro _; simp [gt, hb, hc, he]
      · intro _; simp [gt, hb, hc, he]
  · rw [if_neg hc]
    have hc' : 0 < c := lt_of_le_of_ne G.hc (Ne.symm hc)
    by_cases ha : a = 0
    · -- the first segment is a point
      obtain ⟨hb, hd⟩ := G.a0 ha
      rw [if_pos ha]
      obtain ⟨k0, k1, klo, khi⟩ := clamp_kkt (g0 := -e) hc'
      have he : - -e / c = e / c := by rw [neg_neg]
      rw [he] at k0 k1 klo khi
      refine ⟨le_refl _, by norm_num, k0, k1, ?_, ?_, ?_, ?_⟩
      · intro _; simp [gs, ha, hb, hd]
      · intro _; simp [gs, ha, hb, hd]
      · intro h; simpa [gt, hb] using klo h
      · intro h; simpa [gt, hb] using khi h
    · rw [if_neg ha]
      have ha' : 0 < a := lt_of_le_of_ne G.ha (Ne.symm ha)
      obtain ⟨r1, r2, r3⟩ := exactRegime_main hreg ha hc
      obtain ⟨s1, t1, R1, H1⟩ := stage1_spec G ha' hc' htol r1
      obtain ⟨s2, t2, R2, K⟩ := stage2_spec G ha' hc' R1 H1
      simp only []
      rw [snapDiv_eq R2.hs R2.sD K.s0 r2, snapDiv_eq R2.ht R2.tD K.t0 r3]
      exact K

/-- bounds of the parameters need no regime assumption -/
theorem snapDiv_bounds {tol n dn : Rat} (_htol : 0 ≤ tol) (hd : 0 < dn) (h0 : 0 ≤ n) (h1 : n ≤ dn) :
    0 ≤ snapDiv tol n dn ∧ snapDiv tol n dn ≤ 1 := by
  unfold snapDiv
  split_ifs
  · exact ⟨le_refl _, by norm_num⟩
  · exact ⟨div_nonneg h0 hd.le, (div_le_one hd).mpr h1⟩

theorem clamp01_bounds (x : Rat) : 0 ≤ clamp01 x ∧ clamp01 x ≤ 1 := by
  unfold clamp01
  split_ifs with h1 h2
  · exact ⟨le_refl _, by norm_num⟩
  · exact ⟨by norm_num, le_refl _⟩
  · exact ⟨by linarith, by linarith⟩

/-- invariant of the numerators/denominators: `0 ≤ sN ≤ sD`, `0 < sD` (and the same for `t` at the end) -/
theorem stage1_bounds {tol a b c d e : Rat} (ha : 0 < a) (hc : 0 < c) (htol : 0 < tol) :
    0 ≤ (stage1 tol a b c d e).sN ∧ (stage1 tol a b c d e).sN ≤ (stage1 tol a b c d e).sD ∧
      0 < (stage1 tol a b c d e).sD ∧ 0 < (stage1 tol a b c d e).tD := by
  have hp : 0 < tol * a * c := by positivity
  unfold stage1
  simp only []
  split_ifs with h1 h2 h3
  · exact ⟨le_refl _, by norm_num, by norm_num, hc⟩
  · exact ⟨le_refl _, by linarith, by linarith, hc⟩
  · exact ⟨by linarith, le_refl _, by linarith, hc⟩
  · exact ⟨by linarith, by linarith, by linarith, by linarith⟩

theorem stage2_bounds {a b d : Rat} (ha : 0 < a) {q : Par}
    (h : 0 ≤ q.sN ∧ q.sN ≤ q.sD ∧ 0 < q.sD ∧ 0 < q.tD) :
    let r := stage2 a b d q
    0 ≤ r.sN ∧ r.sN ≤ r.sD ∧ 0 < r.sD ∧ 0 ≤ r.tN ∧ r.tN ≤ r.tD ∧ 0 < r.tD := by
  obtain ⟨sN, sD, tN, tD⟩ := q
  obtain ⟨h0, h1, h2, h3⟩ := h
  simp only at h0 h1 h2 h3
  simp only [stage2, stage2a, stage2b]
  split_ifs <;> simp only [] <;> refine ⟨?_, ?_, ?_, ?_, ?_, ?_⟩ <;> linarith

theorem params_bounds {tol a b c d e : Rat} (ha0 : 0 ≤ a) (hc0 : 0 ≤ c) (htol : 0 < tol) :
    0 ≤ (segSegParams tol a b c d e).1 ∧ (segSegParams tol a b c d e).1 ≤ 1 ∧
    0 ≤ (segSegParams tol a b c d e).2 ∧ (segSegParams tol a b c d e).2 ≤ 1 := by
  unfold segSegParams
  by_cases hc : c = 0
  · rw [if_pos hc]
    by_cases ha : a = 0
    · rw [if_pos ha]; exact ⟨le_refl _, by norm_num, le_refl _, by norm_num⟩
    · rw [if_neg ha]
      exact ⟨(clamp01_bounds _).1, (clamp01_bounds _).2, le_refl _, by norm_num⟩
  · rw [if_neg hc]
    by_cases ha : a = 0
    · rw [if_pos ha]; exact ⟨le_refl _, by norm_num, (clamp01_bounds _).1, (clamp01_bounds _).2⟩
    · rw [if_neg ha]
      have ha' : 0 < a := lt_of_le_of_ne ha0 (Ne.symm ha)
      have hc' : 0 < c := lt_of_le_of_ne hc0 (Ne.symm hc)
      obtain ⟨b0, b1, b2, b3, b4, b5⟩ := stage2_bounds (b := b) (d := d) ha' (stage1_bounds (b := b) (d := d) (e := e) ha' hc' htol)
      simp only []
      exact ⟨(snapDiv_bounds htol.le b2 b0 b1).1, (snapDiv_bounds htol.le b2 b0 b1).2,
        (snapDiv_bounds htol.le b5 b3 b4).1, (snapDiv_bounds htol.le b5 b3 b4).2⟩

/-- the Gram facts hold for the dot products of any three vectors of equal length -/
theorem gram_of_vectors (u v w : Vec) (h1 : u.length = v.length) :
    Gram (nsq u) (dot u v) (nsq v) (dot u w) (dot v w) where
  ha := nsq_nonneg u
  hc := nsq_nonneg v
  hQ := fun x y => by rw [← nsq_comb u v x y h1]; exact nsq_nonneg _
  hker := fun x y h => by
    rw [← nsq_comb u v x y h1] at h
    rw [← dot_comb u v w x y h1]
    exact dot_eq_zero_of_nsq_eq_zero _ _ h

/-! ### point – segment -/

theorem ptSeg_spec (p a b : Vec) (_h1 : p.length = a.length) (h2 : a.length = b.length) :
    0 ≤ (ptSeg p a b).t ∧ (ptSeg p a b).t ≤ 1 ∧ (ptSeg p a b).cp = along a b (ptSeg p a b).t ∧
      (ptSeg p a b).d2 = nsq (vsub p (ptSeg p a b).cp) := by
  unfold ptSeg
  simp only []
  generalize (if nsq (vsub b a) = 0 then 0 else dot (vsub p a) (vsub b a) / nsq (vsub b a)) = proj
  split_ifs with h3 h4
  · exact ⟨le_refl _, by norm_num, (along_zero a b h2).symm, rfl⟩
  · exact ⟨by norm_num, le_refl _, (along_one a b h2).symm, rfl⟩
  · exact ⟨by linarith, by linarith, rfl, rfl⟩

theorem ptSeg_min (p a b : Vec) (h1 : p.length = a.length) (h2 : a.length = b.length)
    (s : Rat) (hs0 : 0 ≤ s) (hs1 : s ≤ 1) :
    (ptSeg p a b).d2 ≤ nsq (vsub p (along a b s)) := by
  rw [nsq_sub_along p a b s h1 h2]
  have huu : 0 ≤ nsq (vsub b a) := nsq_nonneg _
  unfold ptSeg
  simp only []
  by_cases hl : nsq (vsub b a) = 0
  · -- zero-length segment
    have hz : dot (vsub p a) (vsub b a) = 0 := by
      rw [dot_comm]; exact dot_eq_zero_of_nsq_eq_zero _ _ hl
    rw [if_pos hl, if_pos (le_refl _)]
    simp only []
    rw [hz, hl]; simp
  · rw [if_neg hl]
    have hpos : 0 < nsq (vsub b a) := lt_of_le_of_ne huu (Ne.symm hl)
    split_ifs with h3 h4
    · -- projection before the start
      have hw : dot (vsub p a) (vsub b a) ≤ 0 := by
        by_contra h
        have : 0 < dot (vsub p a) (vsub b a) / nsq (vsub b a) := div_pos (not_le.mp h) hpos
        linarith
      simp only []
      nlinarith [mul_nonneg hs0 (neg_nonneg.mpr hw), mul_nonneg (mul_nonneg hs0 hs0) huu]
    · -- projection beyond the end
      have hw : nsq (vsub b a) ≤ dot (vsub p a) (vsub b a) := by
        have := (le_div_iff₀ hpos).mp h4
        linarith
      simp only []
      have e : nsq (vsub p b) = nsq (vsub p a) - 2 * 1 * dot (vsub p a) (vsub b a) + 1 * 1 * nsq (vsub b a) := by
        rw [← nsq_sub_along p a b 1 h1 h2, along_one a b h2]
      rw [e]
      nlinarith [mul_nonneg (sub_nonneg.mpr hs1) (sub_nonneg.mpr hw), mul_nonneg (sub_nonneg.mpr hs1) (mul_nonneg (sub_nonneg.mpr hs1) huu)]
    · simp only []
      have e := nsq_sub_along p a b (dot (vsub p a) (vsub b a) / nsq (vsub b a)) h1 h2
      unfold along at e
      rw [e]
      generalize dot (vsub p a) (vsub b a) = wu
      generalize nsq (vsub b a) = uu at hpos hl
      have hne : uu ≠ 0 := ne_of_gt hpos
      have : nsq (vsub p a) - 2 * s * wu + s * s * uu - (nsq (vsub p a) - 2 * (wu / uu) * wu + wu / uu * (wu / uu) * uu)
          = uu * ((s - wu / uu) * (s - wu / uu)) := by field_simp; ring
      nlinarith [mul_nonneg hpos.le (mul_self_nonneg (s - wu / uu))]

/-! ### segment – segment -/

theorem segSeg_fields (tol : Rat) (p0 p1 q0 q1 : Vec) :
    let st := segSegParams tol (nsq (vsub p1 p0)) (dot (vsub p1 p0) (vsub q1 q0)) (nsq (vsub q1 q0))
      (dot (vsub p1 p0) (vsub p0 q0)) (dot (vsub q1 q0) (vsub p0 q0))
    (segSeg tol p0 p1 q0 q1).s = st.1 ∧ (segSeg tol p0 p1 q0 q1).t = st.2 ∧
    (segSeg tol p0 p1 q0 q1).cp1 = along p0 p1 st.1 ∧ (segSeg tol p0 p1 q0 q1).cp2 = along q0 q1 st.2 ∧
    (segSeg tol p0 p1 q0 q1).d2 = nsq (vsub (vadd (vsub p0 q0) (smul st.1 (vsub p1 p0))) (smul st.2 (vsub q1 q0))) ∧
    (segSeg tol p0 p1 q0 q1).exact = exactRegime tol (nsq (vsub p1 p0)) (dot (vsub p1 p0) (vsub q1 q0)) (nsq (vsub q1 q0))
      (dot (vsub p1 p0) (vsub p0 q0)) (dot (vsub q1 q0) (vsub p0 q0)) :=
  ⟨rfl, rfl, rfl, rfl, rfl, rfl⟩

theorem segSeg_on_segs (tol : Rat) (htol : 0 < tol) (p0 p1 q0 q1 : Vec)
    (h1 : p0.length = p1.length) (h2 : p0.length = q0.length) (h3 : q0.length = q1.length) :
    let o := segSeg tol p0 p1 q0 q1
    0 ≤ o.s ∧ o.s ≤ 1 ∧ 0 ≤ o.t ∧ o.t ≤ 1 ∧ o.cp1 = along p0 p1 o.s ∧ o.cp2 = along q0 q1 o.t ∧
      o.d2 = nsq (vsub o.cp1 o.cp2) := by
  obtain ⟨e1, e2, e3, e4, e5, _⟩ := segSeg_fields tol p0 p1 q0 q1
  intro o
  show 0 ≤ (segSeg tol p0 p1 q0 q1).s ∧ (segSeg tol p0 p1 q0 q1).s ≤ 1 ∧ 0 ≤ (segSeg tol p0 p1 q0 q1).t ∧ (segSeg tol p0 p1 q0 q1).t ≤ 1 ∧
    (segSeg tol p0 p1 q0 q1).cp1 = along p0 p1 (segSeg tol p0 p1 q0 q1).s ∧ (segSeg tol p0 p1 q0 q1).cp2 = along q0 q1 (segSeg tol p0 p1 q0 q1).t ∧
    (segSeg tol p0 p1 q0 q1).d2 = nsq (vsub (segSeg tol p0 p1 q0 q1).cp1 (segSeg tol p0 p1 q0 q1).cp2)
  obtain ⟨b0, b1, b2, b3⟩ := params_bounds (tol := tol) (b := dot (vsub p1 p0) (vsub q1 q0))
    (d := dot (vsub p1 p0) (vsub p0 q0)) (e := dot (vsub q1 q0) (vsub p0 q0))
    (nsq_nonneg (vsub p1 p0)) (nsq_nonneg (vsub q1 q0)) htol
  rw [e1, e2, e3, e4, e5]
  exact ⟨b0, b1, b2, b3, rfl, rfl, by rw [dist_eq p0 p1 q0 q1 _ _ h1 h2 h3]⟩

theorem segSeg_min (tol : Rat) (htol : 0 < tol) (p0 p1 q0 q1 : Vec)
    (h1 : p0.length = p1.length) (h2 : p0.length = q0.length) (h3 : q0.length = q1.length)
    (hreg : (segSeg tol p0 p1 q0 q1).exact = true)
    (s t : Rat) (hs0 : 0 ≤ s) (hs1 : s ≤ 1) (ht0 : 0 ≤ t) (ht1 : t ≤ 1) :
    (segSeg tol p0 p1 q0 q1).d2 ≤ nsq (vsub (along p0 p1 s) (along q0 q1 t)) := by
  obtain ⟨_, _, _, _, e5, e6⟩ := segSeg_fields tol p0 p1 q0 q1
  rw [e6] at hreg
  rw [e5, dist_eq p0 p1 q0 q1 _ _ h1 h2 h3, nsq_along_along p0 p1 q0 q1 _ _ h1 h2 h3,
    nsq_along_along p0 p1 q0 q1 s t h1 h2 h3]
  have hl : (vsub p1 p0).length = (vsub q1 q0).length := by
    rw [length_vsub _ _ h1.symm, length_vsub _ _ h3.symm]; omega
  have G := gram_of_vectors (vsub p1 p0) (vsub q1 q0) (vsub p0 q0) hl
  have K := params_kkt G htol hreg
  have := kkt_min G.hQ K hs0 hs1 ht0 ht1
  unfold quad at this
  linarith

/-! ### minima over lists of edges -/

theorem minPtSeg_spec (p : Vec) (es : List (Vec × Vec)) (o : PtSegOut) (h : minPtSeg p es = some o) :
    (∀ g ∈ es, o.d2 ≤ (ptSeg p g.1 g.2).d2) ∧ ∃ g ∈ es, o = ptSeg p g.1 g.2 := by
  induction es generalizing o with
  | nil => simp [minPtSeg] at h
  | cons g gs ih =>
    unfold minPtSeg at h
    simp only [] at h
    cases hm : minPtSeg p gs with
    | none =>
      rw [hm] at h
      simp only [Option.some.injEq] at h
      have hgs : gs = [] := by
        cases gs with
        | nil => rfl
        | cons g' gs' =>
          unfold minPtSeg at hm
          simp only [] at hm
          cases h' : minPtSeg p gs' <;> rw [h'] at hm <;> simp at hm
          split at hm <;> simp at hm
      subst hgs
      subst h
      exact ⟨fun g' hg' => by simp at hg'; rw [hg'], ⟨g, by simp, rfl⟩⟩
    | some o' =>
      rw [hm] at h
      simp only [] at h
      obtain ⟨ih1, g', hg', ih2⟩ := ih o' hm
      split at h
      · rename_i hlt
        simp only [Option.some.injEq] at h
        subst h
        refine ⟨fun g'' hg'' => ?_, ⟨g', List.mem_cons_of_mem _ hg', ih2⟩⟩
        rcases List.mem_cons.mp hg'' with rfl | hin
        · exact hlt.le
        · exact ih1 _ hin
      · rename_i hlt
        simp only [Option.some.injEq] at h
        subst h
        refine ⟨fun g'' hg'' => ?_, ⟨g, by simp, rfl⟩⟩
        rcases List.mem_cons.mp hg'' with rfl | hin
        · exact le_refl _
        · exact le_trans (not_lt.mp hlt) (ih1 _ hin)

theorem minPtSeg_none (p : Vec) (es : List (Vec × Vec)) (h : minPtSeg p es = none) : es = [] := by
  cases es with
  | nil => rfl
  | cons g gs =>
    unfold minPtSeg at h
    simp only [] at h
    cases h' : minPtSeg p gs <;> rw [h'] at h <;> simp at h
    split at h <;> simp at h

theorem minSegSeg_spec (tol : Rat) (s e : Vec) (es : List (Vec × Vec)) (o : SegSegOut)
    (h : minSegSeg tol s e es = some o) :
    (∀ g ∈ es, o.d2 ≤ (segSeg tol s e g.1 g.2).d2) ∧ ∃ g ∈ es, o = segSeg tol s e g.1 g.2 := by
  induction es generalizing o with
  | nil => simp [minSegSeg] at h
  | cons g gs ih =>
    unfold minSegSeg at h
    simp only [] at h
    cases hm : minSegSeg tol s e gs with
    | none =>
      rw [hm] at h
      simp only [Option.some.injEq] at h
      have hgs : gs = [] := by
        cases gs with
        | nil => rfl
        | cons g' gs' =>
          unfold minSegSeg at hm
          simp only [] at hm
          cases h' : minSegSeg tol s e gs' <;> rw [h'] at hm <;> simp at hm
          split at hm <;> simp at hm
      subst hgs
      subst h
      exact ⟨fun g' hg' => by simp at hg'; rw [hg'], ⟨g, by simp, rfl⟩⟩
    | some o' =>
      rw [hm] at h
      simp only [] at h
      obtain ⟨ih1, g', hg', ih2⟩ := ih o' hm
      split at h
      · rename_i hlt
        simp only [Option.some.injEq] at h
        subst h
        refine ⟨fun g'' hg'' => ?_, ⟨g', List.mem_cons_of_mem _ hg', ih2⟩⟩
        rcases List.mem_cons.mp hg'' with rfl | hin
        · exact hlt.le
        · exact ih1 _ hin
      · rename_i hlt
        simp only [Option.some.injEq] at h
        subst h
        refine ⟨fun g'' hg'' => ?_, ⟨g, by simp, rfl⟩⟩
        rcases List.mem_cons.mp hg'' with rfl | hin
        · exact le_refl _
        · exact le_trans (not_lt.mp hlt) (ih1 _ hin)

/-! ### planes -/

theorem vsub_vsub_cancel (x y : Vec) (h : x.length = y.length) : vsub x (vsub x y) = y := by
  induction x generalizing y with
  | nil => cases y with
    | nil => rfl
    | cons b bs => simp at h
  | cons a as ih => cases y with
    | nil => simp at h
    | cons b bs => simp at h; simp [ih bs h]

theorem nsq_smul (k : Rat) (v : Vec) : nsq (smul k v) = k * k * nsq v := by
  unfold nsq; rw [dot_smul_left, dot_smul_right]; ring

/-- the projection lies in the plane -/
theorem projPlane_in_plane (c n x : Vec) (hc : c.length = x.length) (hn : n.length = x.length) (hnn : nsq n ≠ 0) :
    dot (vsub (projPlane c n x) c) n = 0 := by
  unfold projPlane
  have l1 : (smul (dot (vsub x c) n / nsq n) n).length = x.length := by simp [hn]
  have l2 : (vsub x (smul (dot (vsub x c) n / nsq n) n)).length = c.length := by
    rw [length_vsub _ _ l1.symm, hc]
  rw [dot_vsub_left _ _ _ l2, dot_vsub_left _ _ _ l1.symm, dot_smul_left, dot_vsub_left _ _ _ hc.symm]
  have : dot n n = nsq n := rfl
  rw [this]
  field_simp
  ring

/-- distance from a point to its projection -/
theorem nsq_to_projPlane (c n x : Vec) (hn : n.length = x.length) (hnn : nsq n ≠ 0) :
    nsq (vsub x (projPlane c n x)) = dot (vsub x c) n * dot (vsub x c) n / nsq n := by
  unfold projPlane
  rw [vsub_vsub_cancel _ _ (by simp [hn]), nsq_smul]
  field_simp

theorem nsq_split (x q y : Vec) (hy : y.length = x.length) (hq : q.length = x.length) :
    nsq (vsub x y) = nsq (vsub x q) + 2 * dot (vsub x q) (vsub q y) + nsq (vsub q y) := by
  unfold nsq
  induction x generalizing y q with
  | nil =>
    have h1 : y = [] := List.length_eq_zero_iff.mp hy
    have h2 : q = [] := List.length_eq_zero_iff.mp hq
    subst h1; subst h2; simp
  | cons a as ih => cases y with
    | nil => simp at hy
    | cons b bs => cases q with
      | nil => simp at hq
      | cons r rs =>
        simp at hy hq
        simp [ih rs bs hy hq]
        ring

/-- Pythagoras: the projection is the closest point of the plane -/
theorem projPlane_min (c n x y : Vec) (hc : c.length = x.length) (hn : n.length = x.length) (hy : y.length = x.length)
    (hnn : nsq n ≠ 0) (hplane : dot (vsub y c) n = 0) :
    nsq (vsub x (projPlane c n x)) ≤ nsq (vsub x y) := by
  have hq := projPlane_in_plane c n x hc hn hnn
  have e1 : vsub x (projPlane c n x) = smul (dot (vsub x c) n / nsq n) n := by
    unfold projPlane; exact vsub_vsub_cancel _ _ (by simp [hn])
  have lq : (projPlane c n x).length = x.length := by
    unfold projPlane; rw [length_vsub _ _ (by simp [hn])]
  have split := nsq_split x (projPlane c n x) y hy lq
  have cross : dot (vsub x (projPlane c n x)) (vsub (projPlane c n x) y) = 0 := by
    rw [e1, dot_smul_left, dot_vsub_right _ _ _ (by rw [lq, hy])]
    have a1 : dot n (projPlane c n x) = dot c n := by
      have := hq
      rw [dot_vsub_left _ _ _ (by rw [lq, hc])] at this
      rw [dot_comm]; linarith
    have a2 : dot n y = dot c n := by
      rw [dot_vsub_left _ _ _ (by rw [hy, hc])] at hplane
      rw [dot_comm]; linarith
    rw [a1, a2]; ring
  rw [split, cross]
  have := nsq_nonneg (vsub (projPlane c n x) y)
  linarith

/-- points of a segment whose end points lie in the plane lie in the plane -/
theorem along_in_plane (c n a b : Vec) (s : Rat) (ha : a.length = b.length) (hc : c.length = a.length)
    (h1 : dot (vsub a c) n = 0) (h2 : dot (vsub b c) n = 0) : dot (vsub (along a b s) c) n = 0 := by
  have l1 : (along a b s).length = c.length := by rw [length_along _ _ _ ha, hc]
  rw [dot_vsub_left _ _ _ l1]
  unfold along
  rw [dot_vadd_left _ _ _ (by simp [length_vsub _ _ ha.symm, ha]), dot_smul_left, dot_vsub_left _ _ _ ha.symm]
  rw [dot_vsub_left _ _ _ hc.symm] at h1
  rw [dot_vsub_left _ _ _ (by rw [← ha, hc])] at h2
  have e1 : dot a n = dot c n := by linarith
  have e2 : dot b n = dot c n := by linarith
  rw [e1, e2]; ring

/-- height over the plane along a segment -/
theorem along_height (c n a b : Vec) (s : Rat) (ha : a.length = b.length) (hc : c.length = a.length) :
    dot (vsub (along a b s) c) n = dot (vsub a c) n + s * (dot (vsub b c) n - dot (vsub a c) n) := by
  have l1 : (along a b s).length = c.length := by rw [length_along _ _ _ ha, hc]
  rw [dot_vsub_left _ _ _ l1]
  unfold along
  rw [dot_vadd_left _ _ _ (by simp [length_vsub _ _ ha.symm, ha]), dot_smul_left, dot_vsub_left _ _ _ ha.symm,
    dot_vsub_left _ _ _ hc.symm, dot_vsub_left _ _ _ (by rw [← ha, hc])]
  ring

/-! ### branches of `segPoly` -/

theorem segPolyGeneral_branch (tolS : Rat) (s e : Vec) (poly : List Vec) :
    (segPolyGeneral tolS s e poly).branch = 2 := by
  unfold segPolyGeneral
  simp only []
  split <;> (try split_ifs) <;> rfl

theorem segPoly_some (tolP tolS : Rat) (s e : Vec) (poly : List Vec) (x0 : Vec)
    (hx : crossPoint tolP s e poly = some x0) : segPoly tolP tolS s e poly = ⟨0, x0, 0⟩ := by
  unfold segPoly; rw [hx]

theorem segPoly_none (tolP tolS : Rat) (s e : Vec) (poly : List Vec)
    (hx : crossPoint tolP s e poly = none) :
    (segPoly tolP tolS s e poly).branch = 1 ∨ segPoly tolP tolS s e poly = segPolyGeneral tolS s e poly := by
  unfold segPoly
  rw [hx]
  simp only []
  split_ifs
  · exact Or.inl rfl
  · exact Or.inl rfl
  · exact Or.inr rfl

end PorepyVerif.C30
