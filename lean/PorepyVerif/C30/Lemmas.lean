/-
C30 — helper lemmas: list-vector algebra, the scalar analysis of the clamped two-parameter
algorithm (KKT conditions of the convex quadratic), minimum-of-list lemmas.
-/
import PorepyVerif.C30.Model
import Mathlib.Algebra.Order.Field.Rat
import Mathlib.Tactic.Ring
import Mathlib.Tactic.Linarith
import Mathlib.Tactic.Positivity
import Mathlib.Tactic.FieldSimp
import Mathlib.Tactic.LinearCombination

namespace PorepyVerif.C30

/-! ### list-vector algebra -/

@[simp] theorem dot_nil_left (v : Vec) : dot [] v = 0 := by cases v <;> rfl
@[simp] theorem dot_nil_right (v : Vec) : dot v [] = 0 := by cases v <;> rfl
@[simp] theorem dot_cons (x y : Rat) (xs ys : Vec) : dot (x :: xs) (y :: ys) = x * y + dot xs ys := rfl
@[simp] theorem vadd_cons (x y : Rat) (xs ys : Vec) : vadd (x :: xs) (y :: ys) = (x + y) :: vadd xs ys := rfl
@[simp] theorem vsub_cons (x y : Rat) (xs ys : Vec) : vsub (x :: xs) (y :: ys) = (x - y) :: vsub xs ys := rfl
@[simp] theorem smul_cons (k x : Rat) (xs : Vec) : smul k (x :: xs) = (k * x) :: smul k xs := rfl
@[simp] theorem smul_nil (k : Rat) : smul k [] = [] := rfl
@[simp] theorem vadd_nil_left (v : Vec) : vadd [] v = [] := by cases v <;> rfl
@[simp] theorem vadd_nil_right (v : Vec) : vadd v [] = [] := by cases v <;> rfl
@[simp] theorem vsub_nil_left (v : Vec) : vsub [] v = [] := by cases v <;> rfl
@[simp] theorem vsub_nil_right (v : Vec) : vsub v [] = [] := by cases v <;> rfl

theorem dot_comm (u v : Vec) : dot u v = dot v u := by
  induction u generalizing v with
  | nil => simp
  | cons x xs ih => cases v with
    | nil => simp
    | cons y ys => simp [ih ys, mul_comm]

@[simp] theorem length_smul (k : Rat) (v : Vec) : (smul k v).length = v.length := by
  induction v with
  | nil => rfl
  | cons x xs ih => simp [ih]

theorem length_vadd (u v : Vec) (h : u.length = v.length) : (vadd u v).length = u.length := by
  induction u generalizing v with
  | nil => simp
  | cons x xs ih => cases v with
    | nil => simp at h
    | cons y ys => simp at h; simp [ih ys h]

theorem length_vsub (u v : Vec) (h : u.length = v.length) : (vsub u v).length = u.length := by
  induction u generalizing v with
  | nil => simp
  | cons x xs ih => cases v with
    | nil => simp at h
    | cons y ys => simp at h; simp [ih ys h]

theorem nsq_nonneg (v : Vec) : 0 ≤ nsq v := by
  unfold nsq
  induction v with
  | nil => simp
  | cons x xs ih => simp; nlinarith [mul_self_nonneg x]

theorem dot_smul_left (k : Rat) (u v : Vec) : dot (smul k u) v = k * dot u v := by
  induction u generalizing v with
  | nil => simp
  | cons x xs ih => cases v with
    | nil => simp
    | cons y ys => simp [ih ys]; ring

theorem dot_smul_right (k : Rat) (u v : Vec) : dot u (smul k v) = k * dot u v := by
  rw [dot_comm, dot_smul_left, dot_comm]

theorem dot_vadd_left (u v w : Vec) (h : u.length = v.length) :
    dot (vadd u v) w = dot u w + dot v w := by
  induction u generalizing v w with
  | nil => cases v with
    | nil => simp
    | cons y ys => simp at h
  | cons x xs ih => cases v with
    | nil => simp at h
    | cons y ys =>
      simp at h
      cases w with
      | nil => simp
      | cons z zs => simp [ih ys zs h]; ring

theorem dot_vsub_left (u v w : Vec) (h : u.length = v.length) :
    dot (vsub u v) w = dot u w - dot v w := by
  induction u generalizing v w with
  | nil => cases v with
    | nil => simp
    | cons y ys => simp at h
  | cons x xs ih => cases v with
    | nil => simp at h
    | cons y ys =>
      simp at h
      cases w with
      | nil => simp
      | cons z zs => simp [ih ys zs h]; ring

theorem dot_vadd_right (w u v : Vec) (h : u.length = v.length) :
    dot w (vadd u v) = dot w u + dot w v := by
  rw [dot_comm, dot_vadd_left _ _ _ h, dot_comm u, dot_comm v]

theorem dot_vsub_right (w u v : Vec) (h : u.length = v.length) :
    dot w (vsub u v) = dot w u - dot w v := by
  rw [dot_comm, dot_vsub_left _ _ _ h, dot_comm u, dot_comm v]

/-- a vector of squared norm zero is orthogonal to everything -/
theorem dot_eq_zero_of_nsq_eq_zero (z w : Vec) (h : nsq z = 0) : dot z w = 0 := by
  unfold nsq at h
  induction z generalizing w with
  | nil => simp
  | cons x xs ih =>
    simp at h
    have h1 : 0 ≤ dot xs xs := nsq_nonneg xs
    have h2 : 0 ≤ x * x := mul_self_nonneg x
    have hx : x * x = 0 := by linarith
    have hx0 : x = 0 := by simpa using hx
    have hxs : dot xs xs = 0 := by linarith
    cases w with
    | nil => simp
    | cons y ys => simp [hx0, ih ys hxs]

theorem vsub_self_of_nsq_zero (u v : Vec) (hl : u.length = v.length) (h : nsq (vsub u v) = 0) : u = v := by
  unfold nsq at h
  induction u generalizing v with
  | nil => cases v with
    | nil => rfl
    | cons y ys => simp at hl
  | cons x xs ih => cases v with
    | nil => simp at hl
    | cons y ys =>
      simp at hl h
      have h1 : 0 ≤ dot (vsub xs ys) (vsub xs ys) := nsq_nonneg _
      have h2 : 0 ≤ (x - y) * (x - y) := mul_self_nonneg _
      have hx : (x - y) * (x - y) = 0 := by linarith
      have hx0 : x - y = 0 := by simpa using hx
      have hxs : dot (vsub xs ys) (vsub xs ys) = 0 := by linarith
      rw [ih ys hl hxs]
      have : x = y := by linarith
      rw [this]

theorem nsq_vsub_self (u : Vec) : nsq (vsub u u) = 0 := by
  unfold nsq
  induction u with
  | nil => simp
  | cons x xs ih => simp [ih]

theorem nsq_vsub_comm (u v : Vec) : nsq (vsub u v) = nsq (vsub v u) := by
  unfold nsq
  induction u generalizing v with
  | nil => simp
  | cons x xs ih => cases v with
    | nil => simp
    | cons y ys => simp [ih ys]; ring

/-- `a + 0 (b - a) = a`, `a + 1 (b - a) = b` -/
theorem along_zero (a b : Vec) (h : a.length = b.length) : along a b 0 = a := by
  unfold along
  induction a generalizing b with
  | nil => simp
  | cons x xs ih => cases b with
    | nil => simp at h
    | cons y ys => simp at h; simp [ih ys h]

theorem along_one (a b : Vec) (h : a.length = b.length) : along a b 1 = b := by
  unfold along
  induction a generalizing b with
  | nil => cases b with
    | nil => simp
    | cons y ys => simp at h
  | cons x xs ih => cases b with
    | nil => simp at h
    | cons y ys => simp at h; simp [ih ys h]

theorem length_along (a b : Vec) (s : Rat) (h : a.length = b.length) : (along a b s).length = a.length := by
  unfold along
  rw [length_vadd]
  rw [length_smul, length_vsub _ _ h.symm, h]

/-- squared distance from `p` to the point `a + s (b - a)` as a quadratic in `s` -/
theorem nsq_sub_along (p a b : Vec) (s : Rat) (h1 : p.length = a.length) (h2 : a.length = b.length) :
    nsq (vsub p (along a b s)) =
      nsq (vsub p a) - 2 * s * dot (vsub p a) (vsub b a) + s * s * nsq (vsub b a) := by
  unfold nsq along
  induction p generalizing a b with
  | nil =>
    have ha : a = [] := List.length_eq_zero_iff.mp h1.symm
    subst ha
    have hb : b = [] := List.length_eq_zero_iff.mp h2.symm
    subst hb
    simp
  | cons x xs ih => cases a with
    | nil => simp at h1
    | cons y ys => cases b with
      | nil => simp at h2
      | cons z zs =>
        simp at h1 h2
        simp [ih ys zs h1 h2]
        ring

/-- squared distance between the points with parameters `s`, `t` of two segments as a quadratic -/
theorem nsq_along_along (p0 p1 q0 q1 : Vec) (s t : Rat)
    (h1 : p0.length = p1.length) (h2 : p0.length = q0.length) (h3 : q0.length = q1.length) :
    nsq (vsub (along p0 p1 s) (along q0 q1 t)) =
      nsq (vsub p0 q0) + s * s * nsq (vsub p1 p0) + t * t * nsq (vsub q1 q0)
        + 2 * s * dot (vsub p1 p0) (vsub p0 q0) - 2 * t * dot (vsub q1 q0) (vsub p0 q0)
        - 2 * s * t * dot (vsub p1 p0) (vsub q1 q0) := by
  unfold nsq along
  induction p0 generalizing p1 q0 q1 with
  | nil =>
    have ha : p1 = [] := List.length_eq_zero_iff.mp h1.symm
    subst ha
    have hb : q0 = [] := List.length_eq_zero_iff.mp h2.symm
    subst hb
    have hc : q1 = [] := List.length_eq_zero_iff.mp h3.symm
    subst hc
    simp
  | cons x xs ih => cases p1 with
    | nil => simp at h1
    | cons y ys => cases q0 with
      | nil => simp at h2
      | cons z zs => cases q1 with
        | nil => simp at h3
        | cons w ws =>
          simp at h1 h2 h3
          simp [ih ys zs ws h1 h2 h3]
          ring

/-- the vector `dist = w + s u - t v` of the code is the difference of the two closest points -/
theorem dist_eq (p0 p1 q0 q1 : Vec) (s t : Rat)
    (h1 : p0.length = p1.length) (h2 : p0.length = q0.length) (h3 : q0.length = q1.length) :
    vsub (vadd (vsub p0 q0) (smul s (vsub p1 p0))) (smul t (vsub q1 q0)) =
      vsub (along p0 p1 s) (along q0 q1 t) := by
  unfold along
  induction p0 generalizing p1 q0 q1 with
  | nil => simp
  | cons x xs ih => cases p1 with
    | nil => simp at h1
    | cons y ys => cases q0 with
      | nil => simp at h2
      | cons z zs => cases q1 with
        | nil => simp at h3
        | cons w ws =>
          simp at h1 h2 h3
          simp [ih ys zs ws h1 h2 h3]
          ring

/-- `|x u - y v|²` as a quadratic form -/
theorem nsq_comb (u v : Vec) (x y : Rat) (h : u.length = v.length) :
    nsq (vsub (smul x u) (smul y v)) = x * x * nsq u - 2 * x * y * dot u v + y * y * nsq v := by
  unfold nsq
  induction u generalizing v with
  | nil =>
    have hv : v = [] := List.length_eq_zero_iff.mp h.symm
    subst hv
    simp
  | cons a as ih => cases v with
    | nil => simp at h
    | cons b bs => simp at h; simp [ih bs h]; ring

theorem dot_comb (u v w : Vec) (x y : Rat) (h : u.length = v.length) :
    dot (vsub (smul x u) (smul y v)) w = x * dot u w - y * dot v w := by
  rw [dot_vsub_left _ _ _ (by simp [h]), dot_smul_left, dot_smul_left]

/-! ### scalar analysis of the clamped two-parameter algorithm -/

/-- facts about `a = u·u, b = u·v, c = v·v, d = u·w, e = v·w` that hold for all vectors -/
structure Gram (a b c d e : Rat) : Prop where
  ha : 0 ≤ a
  hc : 0 ≤ c
  hQ : ∀ x y : Rat, 0 ≤ x * x * a - 2 * x * y * b + y * y * c
  hker : ∀ x y : Rat, x * x * a - 2 * x * y * b + y * y * c = 0 → x * d - y * e = 0

theorem Gram.cs {a b c d e : Rat} (G : Gram a b c d e) : b * b ≤ a * c := by
  have h1 := G.hQ c b
  have h2 := G.hQ b a
  have h3 := G.hQ 1 b
  have ha := G.ha
  have hc := G.hc
  rcases lt_or_eq_of_le ha with ha' | ha'
  · by_contra hcon
    have : a * c - b * b < 0 := by linarith
    nlinarith [mul_pos ha' (neg_pos.mpr this)]
  · rcases lt_or_eq_of_le hc with hc' | hc'
    · by_contra hcon
      have : a * c - b * b < 0 := by linarith
      nlinarith [mul_pos hc' (neg_pos.mpr this)]
    · rw [← ha', ← hc'] at h3 ⊢
      nlinarith [mul_self_nonneg b]

theorem Gram.a0 {a b c d e : Rat} (G : Gram a b c d e) (h : a = 0) : b = 0 ∧ d = 0 := by
  have h1 := G.cs
  have h2 := G.hker 1 0 (by rw [h]; ring)
  rw [h] at h1
  constructor
  · have : b * b = 0 := le_antisymm (by linarith) (mul_self_nonneg b)
    simpa using this
  · linarith

theorem Gram.c0 {a b c d e : Rat} (G : Gram a b c d e) (h : c = 0) : b = 0 ∧ e = 0 := by
  have h1 := G.cs
  have h2 := G.hker 0 1 (by rw [h]; ring)
  rw [h] at h1
  constructor
  · have : b * b = 0 := le_antisymm (by linarith) (mul_self_nonneg b)
    simpa using this
  · linarith

/-- the part of the squared distance that depends on the parameters -/
def quad (a b c d e s t : Rat) : Rat := s * s * a + t * t * c + 2 * s * d - 2 * t * e - 2 * s * t * b

/-- half the partial derivatives of `quad` -/
def gs (a b d s t : Rat) : Rat := d + s * a - t * b
def gt (b c e s t : Rat) : Rat := -e - s * b + t * c

/-- KKT conditions of `quad` on the unit square at `(s, t)` -/
structure KKT (a b c d e s t : Rat) : Prop where
  s0 : 0 ≤ s
  s1 : s ≤ 1
  t0 : 0 ≤ t
  t1 : t ≤ 1
  sLo : s < 1 → 0 ≤ gs a b d s t
  sHi : 0 < s → gs a b d s t ≤ 0
  tLo : t < 1 → 0 ≤ gt b c e s t
  tHi : 0 < t → gt b c e s t ≤ 0

/-- variational inequality from the sign conditions -/
theorem vi {x0 g : Rat} (_h0 : 0 ≤ x0) (_h1 : x0 ≤ 1) (lo : x0 < 1 → 0 ≤ g) (hi : 0 < x0 → g ≤ 0)
    {x : Rat} (hx0 : 0 ≤ x) (hx1 : x ≤ 1) : 0 ≤ (x - x0) * g := by
  rcases lt_trichotomy x x0 with h | h | h
  · have hg := hi (by linarith)
    nlinarith [mul_nonneg (sub_nonneg.mpr h.le) (neg_nonneg.mpr hg)]
  · rw [h]; simp
  · have hg := lo (by linarith)
    exact mul_nonneg (by linarith) hg

/-- a KKT point of the convex quadratic is a global minimiser on the square -/
theorem kkt_min {a b c d e s0 t0 : Rat} (hQ : ∀ x y : Rat, 0 ≤ x * x * a - 2 * x * y * b + y * y * c)
    (K : KKT a b c d e s0 t0) {s t : Rat} (hs0 : 0 ≤ s) (hs1 : s ≤ 1) (ht0 : 0 ≤ t) (ht1 : t ≤ 1) :
    quad a b c d e s0 t0 ≤ quad a b c d e s t := by
  have key : quad a b c d e s t - quad a b c d e s0 t0 =
      2 * ((s - s0) * gs a b d s0 t0) + 2 * ((t - t0) * gt b c e s0 t0)
        + ((s - s0) * (s - s0) * a - 2 * (s - s0) * (t - t0) * b + (t - t0) * (t - t0) * c) := by
    unfold quad gs gt; ring
  have h1 := vi K.s0 K.s1 K.sLo K.sHi hs0 hs1
  have h2 := vi K.t0 K.t1 K.tLo K.tHi ht0 ht1
  have h3 := hQ (s - s0) (t - t0)
  linarith

/-- moving from the line `t = t1` (where `t1` is stationary for `s1`) to the line `t = t2`:
    if `s1`, `s2` are the constrained minimisers along the two lines, the `t`-derivative at
    `(s2, t2)` points away from `t1`. -/
theorem switch {a b c d e s1 t1 s2 t2 : Rat} (ha : 0 ≤ a) (hc : 0 ≤ c) (hcs : b * b ≤ a * c)
    (hst : c * t1 = e + s1 * b)
    (V1 : 0 ≤ (s2 - s1) * gs a b d s1 t1) (V2 : 0 ≤ (s1 - s2) * gs a b d s2 t2) :
    0 ≤ (t2 - t1) * gt b c e s2 t2 := by
  unfold gs at V1 V2
  unfold gt
  -- X = s2 - s1, τ = t2 - t1, Y = τ X b
  have hY : (s2 - s1) * (s2 - s1) * a ≤ (t2 - t1) * (s2 - s1) * b := by nlinarith
  have hY0 : 0 ≤ (t2 - t1) * (s2 - s1) * b := by nlinarith [mul_nonneg (mul_self_nonneg (s2 - s1)) ha]
  have hgoal : (t2 - t1) * (-e - s2 * b + t2 * c) = (t2 - t1) * (t2 - t1) * c - (t2 - t1) * (s2 - s1) * b := by
    have : e = c * t1 - s1 * b := by linarith
    rw [this]; ring
  rw [hgoal]
  have hτc : 0 ≤ (t2 - t1) * (t2 - t1) * c := mul_nonneg (mul_self_nonneg _) hc
  by_contra hcon
  have hlt : (t2 - t1) * (t2 - t1) * c < (t2 - t1) * (s2 - s1) * b := by linarith
  -- Y² = τ² X² b² ≤ τ² X² a c ≤ τ² c Y
  have hXX : 0 ≤ (s2 - s1) * (s2 - s1) := mul_self_nonneg _
  have hττ : 0 ≤ (t2 - t1) * (t2 - t1) := mul_self_nonneg _
  have e1 : ((t2 - t1) * (s2 - s1) * b) * ((t2 - t1) * (s2 - s1) * b)
      ≤ ((t2 - t1) * (t2 - t1)) * ((s2 - s1) * (s2 - s1)) * (a * c) := by
    have : ((t2 - t1) * (s2 - s1) * b) * ((t2 - t1) * (s2 - s1) * b)
        = ((t2 - t1) * (t2 - t1)) * ((s2 - s1) * (s2 - s1)) * (b * b) := by ring
    rw [this]
    exact mul_le_mul_of_nonneg_left hcs (mul_nonneg hττ hXX)
  have e2 : ((t2 - t1) * (t2 - t1)) * ((s2 - s1) * (s2 - s1)) * (a * c)
      ≤ ((t2 - t1) * (t2 - t1) * c) * ((t2 - t1) * (s2 - s1) * b) := by
    have : ((t2 - t1) * (t2 - t1)) * ((s2 - s1) * (s2 - s1)) * (a * c)
        = ((t2 - t1) * (t2 - t1) * c) * ((s2 - s1) * (s2 - s1) * a) := by ring
    rw [this]
    exact mul_le_mul_of_nonneg_left hY hτc
  have hYpos : 0 < (t2 - t1) * (s2 - s1) * b := lt_of_le_of_lt hτc hlt
  have e3 : ((t2 - t1) * (t2 - t1) * c) * ((t2 - t1) * (s2 - s1) * b)
      < ((t2 - t1) * (s2 - s1) * b) * ((t2 - t1) * (s2 - s1) * b) :=
    mul_lt_mul_of_pos_right hlt hYpos
  linarith

/-- `(sN, sD, tN, tD)` represent the parameters `s = sN/sD`, `t = tN/tD` with positive denominators -/
structure Rep (q : Par) (s t : Rat) : Prop where
  hs : q.sN = s * q.sD
  ht : q.tN = t * q.tD
  sD : 0 < q.sD
  tD : 0 < q.tD

/-- after stage 1: `s1` is the clamped optimum, `t1` is the unconstrained optimal `t` for `s1`,
    and `s1` satisfies the sign conditions along the line `t = t1` -/
structure S1 (a b c d e s t : Rat) : Prop where
  s0 : 0 ≤ s
  s1 : s ≤ 1
  st : c * t = e + s * b
  sLo : s < 1 → 0 ≤ gs a b d s t
  sHi : 0 < s → gs a b d s t ≤ 0

theorem stage1_spec {tol a b c d e : Rat} (G : Gram a b c d e) (ha : 0 < a) (hc : 0 < c) (htol : 0 < tol)
    (hreg : a * c - b * b < tol * a * c → a * c - b * b ≤ 0) :
    ∃ s1 t1, Rep (stage1 tol a b c d e) s1 t1 ∧ S1 a b c d e s1 t1 := by
  have hcs := G.cs
  have hne : c ≠ 0 := ne_of_gt hc
  unfold stage1
  simp only []
  split_ifs with hpar hs0 hs1
  · -- parallel: D = 0
    have hD : a * c - b * b = 0 := le_antisymm (hreg hpar) (by linarith)
    have hk := G.hker c b (by nlinarith)
    refine ⟨0, e / c, ⟨by simp, by field_simp, by norm_num, hc⟩, ⟨le_refl _, by norm_num, by field_simp; ring, ?_, ?_⟩⟩
    · intro _
      unfold gs
      have : d + 0 * a - e / c * b = (c * d - b * e) / c := by field_simp; ring
      rw [this, hk]; simp
    · intro h; exact absurd h (lt_irrefl _)
  · -- s = 0 edge
    have hD : 0 < a * c - b * b := by
      have : 0 < tol * a * c := by positivity
      linarith
    refine ⟨0, e / c, ⟨by simp, by field_simp, hD, hc⟩, ⟨le_refl _, by norm_num, by field_simp; ring, ?_, ?_⟩⟩
    · intro _
      unfold gs
      have : d + 0 * a - e / c * b = -(b * e - c * d) / c := by field_simp; ring
      rw [this]
      exact div_nonneg (by linarith) hc.le
    · intro h; exact absurd h (lt_irrefl _)
  · -- s = 1 edge
    have hD : 0 < a * c - b * b := by
      have : 0 < tol * a * c := by positivity
      linarith
    refine ⟨1, (b + e) / c, ⟨by simp, by field_simp, hD, hc⟩, ⟨by norm_num, le_refl _, by field_simp; ring, ?_, ?_⟩⟩
    · intro h; exact absurd h (lt_irrefl _)
    · intro _
      unfold gs
      have : d + 1 * a - (b + e) / c * b = ((a * c - b * b) - (b * e - c * d)) / c := by field_simp; ring
      rw [this]
      exact div_nonpos_of_nonpos_of_nonneg (by linarith) hc.le
  · -- interior stationary point
    have hD : 0 < a * c - b * b := by
      have : 0 < tol * a * c := by positivity
      linarith
    generalize hDdef : a * c - b * b = D at hD hs1 ⊢
    have hDne : D ≠ 0 := ne_of_gt hD
    have hg : gs a b d ((b * e - c * d) / D) ((a * e - b * d) / D) = 0 := by
      unfold gs
      have : d + (b * e - c * d) / D * a - (a * e - b * d) / D * b
          = (d * D + (b * e - c * d) * a - (a * e - b * d) * b) / D := by field_simp
      rw [this, ← hDdef]
      have : d * (a * c - b * b) + (b * e - c * d) * a - (a * e - b * d) * b = 0 := by ring
      rw [this]; simp
    have hst : c * ((a * e - b * d) / D) = e + (b * e - c * d) / D * b := by
      have h1 : c * ((a * e - b * d) / D) = (c * (a * e - b * d)) / D := by field_simp
      have h2 : e + (b * e - c * d) / D * b = (e * D + (b * e - c * d) * b) / D := by field_simp
      rw [h1, h2, ← hDdef]
      congr 1; ring
    refine ⟨(b * e - c * d) / D, (a * e - b * d) / D,
      ⟨(div_mul_cancel₀ _ hDne).symm, (div_mul_cancel₀ _ hDne).symm, hD, hD⟩,
      ⟨div_nonneg (by linarith) hD.le, (div_le_one hD).mpr (by linarith), hst, ?_, ?_⟩⟩
    · intro _; rw [hg]
    · intro _; rw [hg]

/-- the `s`-minimiser along a line `t = t2 ∈ {0, 1}`: clamp of `-(d - t2 b)/a` -/
theorem stage2_spec {a b c d e : Rat} (G : Gram a b c d e) (ha : 0 < a) (hc : 0 < c)
    {q : Par} {s1 t1 : Rat} (R : Rep q s1 t1) (H : S1 a b c d e s1 t1) :
    ∃ s2 t2, Rep (stage2 a b d q) s2 t2 ∧ KKT a b c d e s2 t2 := by
  obtain ⟨sN, sD, tN, tD⟩ := q
  obtain ⟨hs, ht, hsD, htD⟩ := R
  simp only at hs ht hsD htD
  have hcs := G.cs
  have hane : a ≠ 0 := ne_of_gt ha
  -- sign of gt at a new point (s2, t2) reached from (s1, t1)
  have sw : ∀ s2 t2 : Rat, 0 ≤ s2 → s2 ≤ 1 → (s2 < 1 → 0 ≤ gs a b d s2 t2) → (0 < s2 → gs a b d s2 t2 ≤ 0) →
      0 ≤ (t2 - t1) * gt b c e s2 t2 := by
    intro s2 t2 h0 h1 lo hi
    exact switch ha.le hc.le hcs H.st (vi H.s0 H.s1 H.sLo H.sHi h0 h1) (vi h0 h1 lo hi H.s0 H.s1)
  unfold stage2 stage2a stage2b
  simp only []
  by_cases hA : tN < 0
  · -- t = 0 edge
    have ht1 : t1 < 0 := by
      by_contra h
      have : 0 ≤ t1 * tD := mul_nonneg (not_lt.mp h) htD.le
      linarith
    rw [if_pos hA]
    by_cases hd : 0 < d
    · rw [if_pos hd]
      simp only []
      rw [if_neg (by linarith)]
      have lo : (0 : Rat) < 1 → 0 ≤ gs a b d 0 0 := fun _ => by unfold gs; linarith
      have hi : (0 : Rat) < 0 → gs a b d 0 0 ≤ 0 := fun h => absurd h (lt_irrefl _)
      have hgt := sw 0 0 (le_refl _) (by norm_num) lo hi
      refine ⟨0, 0, ⟨by simp, by simp, hsD, htD⟩, ⟨le_refl _, by norm_num, le_refl _, by norm_num, lo, hi, ?_, fun h => absurd h (lt_irrefl _)⟩⟩
      intro _
      nlinarith
    · rw [if_neg hd]
      by_cases hd1 : a < -d
      · rw [if_pos hd1]
        simp only []
        rw [if_neg (by linarith)]
        have lo : (1 : Rat) < 1 → 0 ≤ gs a b d 1 0 := fun h => absurd h (lt_irrefl _)
        have hi : (0 : Rat) < 1 → gs a b d 1 0 ≤ 0 := fun _ => by unfold gs; linarith
        have hgt := sw 1 0 (by norm_num) (le_refl _) lo hi
        refine ⟨1, 0, ⟨by simp, by simp, hsD, htD⟩, ⟨by norm_num, le_refl _, le_refl _, by norm_num, lo, hi, ?_, fun h => absurd h (lt_irrefl _)⟩⟩
        intro _
        nlinarith
      · rw [if_neg hd1]
        simp only []
        rw [if_neg (by linarith)]
        have hg : gs a b d (-d / a) 0 = 0 := by unfold gs; field_simp; ring
        have h0 : 0 ≤ -d / a := div_nonneg (by linarith) ha.le
        have h1 : -d / a ≤ 1 := (div_le_one ha).mpr (by linarith)
        have lo : -d / a < 1 → 0 ≤ gs a b d (-d / a) 0 := fun _ => by rw [hg]
        have hi : 0 < -d / a → gs a b d (-d / a) 0 ≤ 0 := fun _ => by rw [hg]
        have hgt := sw (-d / a) 0 h0 h1 lo hi
        refine ⟨-d / a, 0, ⟨by simp; field_simp, by simp, ha, htD⟩, ⟨h0, h1, le_refl _, by norm_num, lo, hi, ?_, fun h => absurd h (lt_irrefl _)⟩⟩
        intro _
        nlinarith
  · rw [if_neg hA]
    by_cases hB : tD < tN
    · -- t = 1 edge
      have ht1 : 1 < t1 := by
        by_contra h
        have : t1 * tD ≤ 1 * tD := mul_le_mul_of_nonneg_right (not_lt.mp h) htD.le
        linarith
      rw [if_pos hB]
      by_cases hd : -d + b < 0
      · rw [if_pos hd]
        have lo : (0 : Rat) < 1 → 0 ≤ gs a b d 0 1 := fun _ => by unfold gs; linarith
        have hi : (0 : Rat) < 0 → gs a b d 0 1 ≤ 0 := fun h => absurd h (lt_irrefl _)
        have hgt := sw 0 1 (le_refl _) (by norm_num) lo hi
        refine ⟨0, 1, ⟨by simp, by simp, hsD, htD⟩, ⟨le_refl _, by norm_num, by norm_num, le_refl _, lo, hi, fun h => absurd h (lt_irrefl _), ?_⟩⟩
        intro _
        nlinarith
      · rw [if_neg hd]
        by_cases hd1 : a < -d + b
        · rw [if_pos hd1]
          have lo : (1 : Rat) < 1 → 0 ≤ gs a b d 1 1 := fun h => absurd h (lt_irrefl _)
          have hi : (0 : Rat) < 1 → gs a b d 1 1 ≤ 0 := fun _ => by unfold gs; linarith
          have hgt := sw 1 1 (by norm_num) (le_refl _) lo hi
          refine ⟨1, 1, ⟨by simp, by simp, hsD, htD⟩, ⟨by norm_num, le_refl _, by norm_num, le_refl _, lo, hi, fun h => absurd h (lt_irrefl _), ?_⟩⟩
          intro _
          nlinarith
        · rw [if_neg hd1]
          have hg : gs a b d ((-d + b) / a) 1 = 0 := by unfold gs; field_simp; ring
          have h0 : 0 ≤ (-d + b) / a := div_nonneg (by linarith) ha.le
          have h1 : (-d + b) / a ≤ 1 := (div_le_one ha).mpr (by linarith)
          have lo : (-d + b) / a < 1 → 0 ≤ gs a b d ((-d + b) / a) 1 := fun _ => by rw [hg]
          have hi : 0 < (-d + b) / a → gs a b d ((-d + b) / a) 1 ≤ 0 := fun _ => by rw [hg]
          have hgt := sw ((-d + b) / a) 1 h0 h1 lo hi
          refine ⟨(-d + b) / a, 1, ⟨by simp; field_simp, by simp, ha, htD⟩, ⟨h0, h1, by norm_num, le_refl _, lo, hi, fun h => absurd h (lt_irrefl _), ?_⟩⟩
          intro _
          nlinarith
    · -- t1 ∈ [0, 1]: stage 1 already gave the minimiser
      rw [if_neg hB]
      have ht0 : 0 ≤ t1 := by
        by_contra h
        have : t1 * tD < 0 := mul_neg_of_neg_of_pos (not_le.mp h) htD
        linarith
      have ht1 : t1 ≤ 1 := by
        by_contra h
        have : 1 * tD < t1 * tD := mul_lt_mul_of_pos_right (not_le.mp h) htD
        linarith
      have hg : gt b c e s1 t1 = 0 := by unfold gt; linarith [H.st]
      exact ⟨s1, t1, ⟨hs, ht, hsD, htD⟩, ⟨H.s0, H.s1, ht0, ht1, H.sLo, H.sHi, fun _ => by rw [hg], fun _ => by rw [hg]⟩⟩

/-- one-dimensional clamp: `x = clamp(-g0/m)` minimises `g0 x + m x²/2` on `[0,1]` -/
theorem clamp_kkt {g0 m : Rat} (hm : 0 < m) :
    0 ≤ clamp01 (-g0 / m) ∧ clamp01 (-g0 / m) ≤ 1 ∧
    (clamp01 (-g0 / m) < 1 → 0 ≤ g0 + clamp01 (-g0 / m) * m) ∧
    (0 < clamp01 (-g0 / m) → g0 + clamp01 (-g0 / m) * m ≤ 0) := by
  have hne : m ≠ 0 := ne_of_gt hm
  unfold clamp01
  split_ifs with h1 h2
  · have : -g0 ≤ 0 := by
      by_contra h
      have : 0 < -g0 / m := div_pos (not_le.mp h) hm
      linarith
    refine ⟨le_refl _, by norm_num, fun _ => by linarith, fun h => absurd h (lt_irrefl _)⟩
  · have : m ≤ -g0 := by
      have := (le_div_iff₀ hm).mp h2
      linarith
    refine ⟨by norm_num, le_refl _, fun h => absurd h (lt_irrefl _), fun _ => by linarith⟩
  · have e : g0 + -g0 / m * m = 0 := by rw [div_mul_cancel₀ _ hne]; ring
    refine ⟨by linarith, by linarith, fun _ => by rw [e], fun _ => by rw [e]⟩

theorem snapDiv_eq {tol n dn x : Rat} (hn : n = x * dn) (hd : 0 < dn) (hx : 0 ≤ x)
    (hreg : n < tol * dn → n ≤ 0) : snapDiv tol n dn = x := by
  unfold snapDiv
  split_ifs with h
  · have h1 := hreg h
    rw [hn] at h1
    have : x ≤ 0 := by
      by_contra hc
      have : 0 < x * dn := mul_pos (not_le.mp hc) hd
      linarith
    linarith
  · rw [hn, mul_div_assoc, div_self (ne_of_gt hd), mul_one]

theorem exactRegime_main {tol a b c d e : Rat} (hreg : exactRegime tol a b c d e = true) (ha : a ≠ 0) (hc : c ≠ 0) :
    (a * c - b * b < tol * a * c → a * c - b * b ≤ 0) ∧
    ((stage2 a b d (stage1 tol a b c d e)).sN < tol * (stage2 a b d (stage1 tol a b c d e)).sD →
        (stage2 a b d (stage1 tol a b c d e)).sN ≤ 0) ∧
    ((stage2 a b d (stage1 tol a b c d e)).tN < tol * (stage2 a b d (stage1 tol a b c d e)).tD →
        (stage2 a b d (stage1 tol a b c d e)).tN ≤ 0) := by
  unfold exactRegime at hreg
  simp only [Bool.or_eq_true, Bool.and_eq_true, decide_eq_true_eq, Bool.not_eq_true', decide_eq_false_iff_not] at hreg
  rcases hreg with (h | h) | h
  · exact absurd h ha
  · exact absurd h hc
  · obtain ⟨⟨h1, h2⟩, h3⟩ := h
    refine ⟨fun h => ?_, fun h => ?_, fun h => ?_⟩
    · rcases h1 with h1 | h1
      · exact absurd h h1
      · exact h1
    · rcases h2 with h2 | h2
      · exact absurd h h2
      · exact h2
    · rcases h3 with h3 | h3
      · exact absurd h h3
      · exact h3

/-- the parameters returned by the algorithm satisfy the KKT conditions (all branches) -/
theorem params_kkt {tol a b c d e : Rat} (G : Gram a b c d e) (htol : 0 < tol)
    (hreg : exactRegime tol a b c d e = true) :
    KKT a b c d e (segSegParams tol a b c d e).1 (segSegParams tol a b c d e).2 := by
  unfold segSegParams
  by_cases hc : c = 0
  · -- the second segment is a point
    obtain ⟨hb, he⟩ := G.c0 hc
    rw [if_pos hc]
    by_cases ha : a = 0
    · obtain ⟨_, hd⟩ := G.a0 ha
      rw [if_pos ha]
      refine ⟨le_refl _, by norm_num, le_refl _, by norm_num, ?_, ?_, ?_, ?_⟩ <;> intro _ <;> simp [gs, gt, ha, hb, hc, hd, he]
    · rw [if_neg ha]
      have ha' : 0 < a := lt_of_le_of_ne G.ha (Ne.symm ha)
      obtain ⟨k0, k1, klo, khi⟩ := clamp_kkt (g0 := d) ha'
      refine ⟨k0, k1, le_refl _, by norm_num, ?_, ?_, ?_, ?_⟩
      · intro h; simpa [gs, hb] using klo h
      · intro h; simpa [gs, hb] using khi h
      · intro _; simp [gt, hb, hc, he]
      · intro _; simp [gt, hb, hc, he]
  · rw [if_neg hc]
    have hc' : 0 < c := lt_of_le_of_ne G.hc (Ne.symm hc)
    by_cases ha : a = 0
    · -- the first segment is a point
      obtain ⟨hb, hd⟩ := G.a0 ha
      rw [if_pos ha]
      obtain ⟨k0, k1, klo, khi⟩ := clamp_kkt (g0 := -e) hc'
      have he : - -e / c = e / c := by rw [neg_neg]
      rw [he] at k0 k1 klo khi
      refine ⟨le_refl _, by norm_num, k0, k1, ?_, ?_, ?_, ?_⟩
      · intro _; simp [gs, ha, hb, hd]
      · intro _; simp [gs, ha, hb, hd]
      · intro h; simpa [gt, hb] using klo h
      · intro h; simpa [gt, hb] using khi h
    · rw [if_neg ha]
      have ha' : 0 < a := lt_of_le_of_ne G.ha (Ne.symm ha)
      obtain ⟨r1, r2, r3⟩ := exactRegime_main hreg ha hc
      obtain ⟨s1, t1, R1, H1⟩ := stage1_spec G ha' hc' htol r1
      obtain ⟨s2, t2, R2, K⟩ := stage2_spec G ha' hc' R1 H1
      simp only []
      rw [snapDiv_eq R2.hs R2.sD K.s0 r2, snapDiv_eq R2.ht R2.tD K.t0 r3]
      exact K

/-- bounds of the parameters need no regime assumption -/
theorem snapDiv_bounds {tol n dn : Rat} (_htol : 0 ≤ tol) (hd : 0 < dn) (h0 : 0 ≤ n) (h1 : n ≤ dn) :
    0 ≤ snapDiv tol n dn ∧ snapDiv tol n dn ≤ 1 := by
  unfold snapDiv
  split_ifs
  · exact ⟨le_refl _, by norm_num⟩
  · exact ⟨div_nonneg h0 hd.le, (div_le_one hd).mpr h1⟩

theorem clamp01_bounds (x : Rat) : 0 ≤ clamp01 x ∧ clamp01 x ≤ 1 := by
  unfold clamp01
  split_ifs with h1 h2
  · exact ⟨le_refl _, by norm_num⟩
  · exact ⟨by norm_num, le_refl _⟩
  · exact ⟨by linarith, by linarith⟩

/-- invariant of the numerators/denominators: `0 ≤ sN ≤ sD`, `0 < sD` (and the same for `t` at the end) -/
theorem stage1_bounds {tol a b c d e : Rat} (ha : 0 < a) (hc : 0 < c) (htol : 0 < tol) :
    0 ≤ (stage1 tol a b c d e).sN ∧ (stage1 tol a b c d e).sN ≤ (stage1 tol a b c d e).sD ∧
      0 < (stage1 tol a b c d e).sD ∧ 0 < (stage1 tol a b c d e).tD := by
  have hp : 0 < tol * a * c := by positivity
  unfold stage1
  simp only []
  split_ifs with h1 h2 h3
  · exact ⟨le_refl _, by norm_num, by norm_num, hc⟩
  · exact ⟨le_refl _, by linarith, by linarith, hc⟩
  · exact ⟨by linarith, le_refl _, by linarith, hc⟩
  · exact ⟨by linarith, by linarith, by linarith, by linarith⟩

theorem stage2_bounds {a b d : Rat} (ha : 0 < a) {q : Par}
    (h : 0 ≤ q.sN ∧ q.sN ≤ q.sD ∧ 0 < q.sD ∧ 0 < q.tD) :
    let r := stage2 a b d q
    0 ≤ r.sN ∧ r.sN ≤ r.sD ∧ 0 < r.sD ∧ 0 ≤ r.tN ∧ r.tN ≤ r.tD ∧ 0 < r.tD := by
  obtain ⟨sN, sD, tN, tD⟩ := q
  obtain ⟨h0, h1, h2, h3⟩ := h
  simp only at h0 h1 h2 h3
  simp only [stage2, stage2a, stage2b]
  split_ifs <;> simp only [] <;> refine ⟨?_, ?_, ?_, ?_, ?_, ?_⟩ <;> linarith

theorem params_bounds {tol a b c d e : Rat} (ha0 : 0 ≤ a) (hc0 : 0 ≤ c) (htol : 0 < tol) :
    0 ≤ (segSegParams tol a b c d e).1 ∧ (segSegParams tol a b c d e).1 ≤ 1 ∧
    0 ≤ (segSegParams tol a b c d e).2 ∧ (segSegParams tol a b c d e).2 ≤ 1 := by
  unfold segSegParams
  by_cases hc : c = 0
  · rw [if_pos hc]
    by_cases ha : a = 0
    · rw [if_pos ha]; exact ⟨le_refl _, by norm_num, le_refl _, by norm_num⟩
    · rw [if_neg ha]
      exact ⟨(clamp01_bounds _).1, (clamp01_bounds _).2, le_refl _, by norm_num⟩
  · rw [if_neg hc]
    by_cases ha : a = 0
    · rw [if_pos ha]; exact ⟨le_refl _, by norm_num, (clamp01_bounds _).1, (clamp01_bounds _).2⟩
    · rw [if_neg ha]
      have ha' : 0 < a := lt_of_le_of_ne ha0 (Ne.symm ha)
      have hc' : 0 < c := lt_of_le_of_ne hc0 (Ne.symm hc)
      obtain ⟨b0, b1, b2, b3, b4, b5⟩ := stage2_bounds (b := b) (d := d) ha' (stage1_bounds (b := b) (d := d) (e := e) ha' hc' htol)
      simp only []
      exact ⟨(snapDiv_bounds htol.le b2 b0 b1).1, (snapDiv_bounds htol.le b2 b0 b1).2,
        (snapDiv_bounds htol.le b5 b3 b4).1, (snapDiv_bounds htol.le b5 b3 b4).2⟩

/-- the Gram facts hold for the dot products of any three vectors of equal length -/
theorem gram_of_vectors (u v w : Vec) (h1 : u.length = v.length) :
    Gram (nsq u) (dot u v) (nsq v) (dot u w) (dot v w) where
  ha := nsq_nonneg u
  hc := nsq_nonneg v
  hQ := fun x y => by rw [← nsq_comb u v x y h1]; exact nsq_nonneg _
  hker := fun x y h => by
    rw [← nsq_comb u v x y h1] at h
    rw [← dot_comb u v w x y h1]
    exact dot_eq_zero_of_nsq_eq_zero _ _ h

/-! ### point – segment -/

theorem ptSeg_spec (p a b : Vec) (_h1 : p.length = a.length) (h2 : a.length = b.length) :
    0 ≤ (ptSeg p a b).t ∧ (ptSeg p a b).t ≤ 1 ∧ (ptSeg p a b).cp = along a b (ptSeg p a b).t ∧
      (ptSeg p a b).d2 = nsq (vsub p (ptSeg p a b).cp) := by
  unfold ptSeg
  simp only []
  generalize (if nsq (vsub b a) = 0 then 0 else dot (vsub p a) (vsub b a) / nsq (vsub b a)) = proj
  split_ifs with h3 h4
  · exact ⟨le_refl _, by norm_num, (along_zero a b h2).symm, rfl⟩
  · exact ⟨by norm_num, le_refl _, (along_one a b h2).symm, rfl⟩
  · exact ⟨by linarith, by linarith, rfl, rfl⟩

theorem ptSeg_min (p a b : Vec) (h1 : p.length = a.length) (h2 : a.length = b.length)
    (s : Rat) (hs0 : 0 ≤ s) (hs1 : s ≤ 1) :
    (ptSeg p a b).d2 ≤ nsq (vsub p (along a b s)) := by
  rw [nsq_sub_along p a b s h1 h2]
  have huu : 0 ≤ nsq (vsub b a) := nsq_nonneg _
  unfold ptSeg
  simp only []
  by_cases hl : nsq (vsub b a) = 0
  · -- zero-length segment
    have hz : dot (vsub p a) (vsub b a) = 0 := by
      rw [dot_comm]; exact dot_eq_zero_of_nsq_eq_zero _ _ hl
    rw [if_pos hl, if_pos (le_refl _)]
    simp only []
    rw [hz, hl]; simp
  · rw [if_neg hl]
    have hpos : 0 < nsq (vsub b a) := lt_of_le_of_ne huu (Ne.symm hl)
    split_ifs with h3 h4
    · -- projection before the start
      have hw : dot (vsub p a) (vsub b a) ≤ 0 := by
        by_contra h
        have : 0 < dot (vsub p a) (vsub b a) / nsq (vsub b a) := div_pos (not_le.mp h) hpos
        linarith
      simp only []
      nlinarith [mul_nonneg hs0 (neg_nonneg.mpr hw), mul_nonneg (mul_nonneg hs0 hs0) huu]
    · -- projection beyond the end
      have hw : nsq (vsub b a) ≤ dot (vsub p a) (vsub b a) := by
        have := (le_div_iff₀ hpos).mp h4
        linarith
      simp only []
      have e : nsq (vsub p b) = nsq (vsub p a) - 2 * 1 * dot (vsub p a) (vsub b a) + 1 * 1 * nsq (vsub b a) := by
        rw [← nsq_sub_along p a b 1 h1 h2, along_one a b h2]
      rw [e]
      nlinarith [mul_nonneg (sub_nonneg.mpr hs1) (sub_nonneg.mpr hw), mul_nonneg (sub_nonneg.mpr hs1) (mul_nonneg (sub_nonneg.mpr hs1) huu)]
    · simp only []
      have e := nsq_sub_along p a b (dot (vsub p a) (vsub b a) / nsq (vsub b a)) h1 h2
      unfold along at e
      rw [e]
      generalize dot (vsub p a) (vsub b a) = wu
      generalize nsq (vsub b a) = uu at hpos hl
      have hne : uu ≠ 0 := ne_of_gt hpos
      have : nsq (vsub p a) - 2 * s * wu + s * s * uu - (nsq (vsub p a) - 2 * (wu / uu) * wu + wu / uu * (wu / uu) * uu)
          = uu * ((s - wu / uu) * (s - wu / uu)) := by field_simp; ring
      nlinarith [mul_nonneg hpos.le (mul_self_nonneg (s - wu / uu))]

/-! ### segment – segment -/

theorem segSeg_fields (tol : Rat) (p0 p1 q0 q1 : Vec) :
    let st := segSegParams tol (nsq (vsub p1 p0)) (dot (vsub p1 p0) (vsub q1 q0)) (nsq (vsub q1 q0))
      (dot (vsub p1 p0) (vsub p0 q0)) (dot (vsub q1 q0) (vsub p0 q0))
    (segSeg tol p0 p1 q0 q1).s = st.1 ∧ (segSeg tol p0 p1 q0 q1).t = st.2 ∧
    (segSeg tol p0 p1 q0 q1).cp1 = along p0 p1 st.1 ∧ (segSeg tol p0 p1 q0 q1).cp2 = along q0 q1 st.2 ∧
    (segSeg tol p0 p1 q0 q1).d2 = nsq (vsub (vadd (vsub p0 q0) (smul st.1 (vsub p1 p0))) (smul st.2 (vsub q1 q0))) ∧
    (segSeg tol p0 p1 q0 q1).exact = exactRegime tol (nsq (vsub p1 p0)) (dot (vsub p1 p0) (vsub q1 q0)) (nsq (vsub q1 q0))
      (dot (vsub p1 p0) (vsub p0 q0)) (dot (vsub q1 q0) (vsub p0 q0)) :=
  ⟨rfl, rfl, rfl, rfl, rfl, rfl⟩

theorem segSeg_on_segs (tol : Rat) (htol : 0 < tol) (p0 p1 q0 q1 : Vec)
    (h1 : p0.length = p1.length) (h2 : p0.length = q0.length) (h3 : q0.length = q1.length) :
    let o := segSeg tol p0 p1 q0 q1
    0 ≤ o.s ∧ o.s ≤ 1 ∧ 0 ≤ o.t ∧ o.t ≤ 1 ∧ o.cp1 = along p0 p1 o.s ∧ o.cp2 = along q0 q1 o.t ∧
      o.d2 = nsq (vsub o.cp1 o.cp2) := by
  obtain ⟨e1, e2, e3, e4, e5, _⟩ := segSeg_fields tol p0 p1 q0 q1
  intro o
  show 0 ≤ (segSeg tol p0 p1 q0 q1).s ∧ (segSeg tol p0 p1 q0 q1).s ≤ 1 ∧ 0 ≤ (segSeg tol p0 p1 q0 q1).t ∧ (segSeg tol p0 p1 q0 q1).t ≤ 1 ∧
    (segSeg tol p0 p1 q0 q1).cp1 = along p0 p1 (segSeg tol p0 p1 q0 q1).s ∧ (segSeg tol p0 p1 q0 q1).cp2 = along q0 q1 (segSeg tol p0 p1 q0 q1).t ∧
    (segSeg tol p0 p1 q0 q1).d2 = nsq (vsub (segSeg tol p0 p1 q0 q1).cp1 (segSeg tol p0 p1 q0 q1).cp2)
  obtain ⟨b0, b1, b2, b3⟩ := params_bounds (tol := tol) (b := dot (vsub p1 p0) (vsub q1 q0))
    (d := dot (vsub p1 p0) (vsub p0 q0)) (e := dot (vsub q1 q0) (vsub p0 q0))
    (nsq_nonneg (vsub p1 p0)) (nsq_nonneg (vsub q1 q0)) htol
  rw [e1, e2, e3, e4, e5]
  exact ⟨b0, b1, b2, b3, rfl, rfl, by rw [dist_eq p0 p1 q0 q1 _ _ h1 h2 h3]⟩

theorem segSeg_min (tol : Rat) (htol : 0 < tol) (p0 p1 q0 q1 : Vec)
    (h1 : p0.length = p1.length) (h2 : p0.length = q0.length) (h3 : q0.length = q1.length)
    (hreg : (segSeg tol p0 p1 q0 q1).exact = true)
    (s t : Rat) (hs0 : 0 ≤ s) (hs1 : s ≤ 1) (ht0 : 0 ≤ t) (ht1 : t ≤ 1) :
    (segSeg tol p0 p1 q0 q1).d2 ≤ nsq (vsub (along p0 p1 s) (along q0 q1 t)) := by
  obtain ⟨_, _, _, _, e5, e6⟩ := segSeg_fields tol p0 p1 q0 q1
  rw [e6] at hreg
  rw [e5, dist_eq p0 p1 q0 q1 _ _ h1 h2 h3, nsq_along_along p0 p1 q0 q1 _ _ h1 h2 h3,
    nsq_along_along p0 p1 q0 q1 s t h1 h2 h3]
  have hl : (vsub p1 p0).length = (vsub q1 q0).length := by
    rw [length_vsub _ _ h1.symm, length_vsub _ _ h3.symm]; omega
  have G := gram_of_vectors (vsub p1 p0) (vsub q1 q0) (vsub p0 q0) hl
  have K := params_kkt G htol hreg
  have := kkt_min G.hQ K hs0 hs1 ht0 ht1
  unfold quad at this
  linarith

/-! ### minima over lists of edges -/

theorem minPtSeg_spec (p : Vec) (es : List (Vec × Vec)) (o : PtSegOut) (h : minPtSeg p es = some o) :
    (∀ g ∈ es, o.d2 ≤ (ptSeg p g.1 g.2).d2) ∧ ∃ g ∈ es, o = ptSeg p g.1 g.2 := by
  induction es generalizing o with
  | nil => simp [minPtSeg] at h
  | cons g gs ih =>
    unfold minPtSeg at h
    simp only [] at h
    cases hm : minPtSeg p gs with
    | none =>
      rw [hm] at h
      simp only [Option.some.injEq] at h
      have hgs : gs = [] := by
        cases gs with
        | nil => rfl
        | cons g' gs' =>
          unfold minPtSeg at hm
          simp only [] at hm
          cases h' : minPtSeg p gs' <;> rw [h'] at hm <;> simp at hm
          split at hm <;> simp at hm
      subst hgs
      subst h
      exact ⟨fun g' hg' => by simp at hg'; rw [hg'], ⟨g, by simp, rfl⟩⟩
    | some o' =>
      rw [hm] at h
      simp only [] at h
      obtain ⟨ih1, g', hg', ih2⟩ := ih o' hm
      split at h
      · rename_i hlt
        simp only [Option.some.injEq] at h
        subst h
        refine ⟨fun g'' hg'' => ?_, ⟨g', List.mem_cons_of_mem _ hg', ih2⟩⟩
        rcases List.mem_cons.mp hg'' with rfl | hin
        · exact hlt.le
        · exact ih1 _ hin
      · rename_i hlt
        simp only [Option.some.injEq] at h
        subst h
        refine ⟨fun g'' hg'' => ?_, ⟨g, by simp, rfl⟩⟩
        rcases List.mem_cons.mp hg'' with rfl | hin
        · exact le_refl _
        · exact le_trans (not_lt.mp hlt) (ih1 _ hin)

theorem minPtSeg_none (p : Vec) (es : List (Vec × Vec)) (h : minPtSeg p es = none) : es = [] := by
  cases es with
  | nil => rfl
  | cons g gs =>
    unfold minPtSeg at h
    simp only [] at h
    cases h' : minPtSeg p gs <;> rw [h'] at h <;> simp at h
    split at h <;> simp at h

theorem minSegSeg_spec (tol : Rat) (s e : Vec) (es : List (Vec × Vec)) (o : SegSegOut)
    (h : minSegSeg tol s e es = some o) :
    (∀ g ∈ es, o.d2 ≤ (segSeg tol s e g.1 g.2).d2) ∧ ∃ g ∈ es, o = segSeg tol s e g.1 g.2 := by
  induction es generalizing o with
  | nil => simp [minSegSeg] at h
  | cons g gs ih =>
    unfold minSegSeg at h
    simp only [] at h
    cases hm : minSegSeg tol s e gs with
    | none =>
      rw [hm] at h
      simp only [Option.some.injEq] at h
      have hgs : gs = [] := by
        cases gs with
        | nil => rfl
        | cons g' gs' =>
          unfold minSegSeg at hm
          simp only [] at hm
          cases h' : minSegSeg tol s e gs' <;> rw [h'] at hm <;> simp at hm
          split at hm <;> simp at hm
      subst hgs
      subst h
      exact ⟨fun g' hg' => by simp at hg'; rw [hg'], ⟨g, by simp, rfl⟩⟩
    | some o' =>
      rw [hm] at h
      simp only [] at h
      obtain ⟨ih1, g', hg', ih2⟩ := ih o' hm
      split at h
      · rename_i hlt
        simp only [Option.some.injEq] at h
        subst h
        refine ⟨fun g'' hg'' => ?_, ⟨g', List.mem_cons_of_mem _ hg', ih2⟩⟩
        rcases List.mem_cons.mp hg'' with rfl | hin
        · exact hlt.le
        · exact ih1 _ hin
      · rename_i hlt
        simp only [Option.some.injEq] at h
        subst h
        refine ⟨fun g'' hg'' => ?_, ⟨g, by simp, rfl⟩⟩
        rcases List.mem_cons.mp hg'' with rfl | hin
        · exact le_refl _
        · exact le_trans (not_lt.mp hlt) (ih1 _ hin)

/-! ### planes -/

theorem vsub_vsub_cancel (x y : Vec) (h : x.length = y.length) : vsub x (vsub x y) = y := by
  induction x generalizing y with
  | nil => cases y with
    | nil => rfl
    | cons b bs => simp at h
  | cons a as ih => cases y with
    | nil => simp at h
    | cons b bs => simp at h; simp [ih bs h]

theorem nsq_smul (k : Rat) (v : Vec) : nsq (smul k v) = k * k * nsq v := by
  unfold nsq; rw [dot_smul_left, dot_smul_right]; ring

/-- the projection lies in the plane -/
theorem projPlane_in_plane (c n x : Vec) (hc : c.length = x.length) (hn : n.length = x.length) (hnn : nsq n ≠ 0) :
    dot (vsub (projPlane c n x) c) n = 0 := by
  unfold projPlane
  have l1 : (smul (dot (vsub x c) n / nsq n) n).length = x.length := by simp [hn]
  have l2 : (vsub x (smul (dot (vsub x c) n / nsq n) n)).length = c.length := by
    rw [length_vsub _ _ l1.symm, hc]
  rw [dot_vsub_left _ _ _ l2, dot_vsub_left _ _ _ l1.symm, dot_smul_left, dot_vsub_left _ _ _ hc.symm]
  have : dot n n = nsq n := rfl
  rw [this]
  field_simp
  ring

/-- distance from a point to its projection -/
theorem nsq_to_projPlane (c n x : Vec) (hn : n.length = x.length) (hnn : nsq n ≠ 0) :
    nsq (vsub x (projPlane c n x)) = dot (vsub x c) n * dot (vsub x c) n / nsq n := by
  unfold projPlane
  rw [vsub_vsub_cancel _ _ (by simp [hn]), nsq_smul]
  field_simp

theorem nsq_split (x q y : Vec) (hy : y.length = x.length) (hq : q.length = x.length) :
    nsq (vsub x y) = nsq (vsub x q) + 2 * dot (vsub x q) (vsub q y) + nsq (vsub q y) := by
  unfold nsq
  induction x generalizing y q with
  | nil =>
    have h1 : y = [] := List.length_eq_zero_iff.mp hy
    have h2 : q = [] := List.length_eq_zero_iff.mp hq
    subst h1; subst h2; simp
  | cons a as ih => cases y with
    | nil => simp at hy
    | cons b bs => cases q with
      | nil => simp at hq
      | cons r rs =>
        simp at hy hq
        simp [ih rs bs hy hq]
        ring

/-- Pythagoras: the projection is the closest point of the plane -/
theorem projPlane_min (c n x y : Vec) (hc : c.length = x.length) (hn : n.length = x.length) (hy : y.length = x.length)
    (hnn : nsq n ≠ 0) (hplane : dot (vsub y c) n = 0) :
    nsq (vsub x (projPlane c n x)) ≤ nsq (vsub x y) := by
  have hq := projPlane_in_plane c n x hc hn hnn
  have e1 : vsub x (projPlane c n x) = smul (dot (vsub x c) n / nsq n) n := by
    unfold projPlane; exact vsub_vsub_cancel _ _ (by simp [hn])
  have lq : (projPlane c n x).length = x.length := by
    unfold projPlane; rw [length_vsub _ _ (by simp [hn])]
  have split := nsq_split x (projPlane c n x) y hy lq
  have cross : dot (vsub x (projPlane c n x)) (vsub (projPlane c n x) y) = 0 := by
    rw [e1, dot_smul_left, dot_vsub_right _ _ _ (by rw [lq, hy])]
    have a1 : dot n (projPlane c n x) = dot c n := by
      have := hq
      rw [dot_vsub_left _ _ _ (by rw [lq, hc])] at this
      rw [dot_comm]; linarith
    have a2 : dot n y = dot c n := by
      rw [dot_vsub_left _ _ _ (by rw [hy, hc])] at hplane
      rw [dot_comm]; linarith
    rw [a1, a2]; ring
  rw [split, cross]
  have := nsq_nonneg (vsub (projPlane c n x) y)
  linarith

/-- points of a segment whose end points lie in the plane lie in the plane -/
theorem along_in_plane (c n a b : Vec) (s : Rat) (ha : a.length = b.length) (hc : c.length = a.length)
    (h1 : dot (vsub a c) n = 0) (h2 : dot (vsub b c) n = 0) : dot (vsub (along a b s) c) n = 0 := by
  have l1 : (along a b s).length = c.length := by rw [length_along _ _ _ ha, hc]
  rw [dot_vsub_left _ _ _ l1]
  unfold along
  rw [dot_vadd_left _ _ _ (by simp [length_vsub _ _ ha.symm, ha]), dot_smul_left, dot_vsub_left _ _ _ ha.symm]
  rw [dot_vsub_left _ _ _ hc.symm] at h1
  rw [dot_vsub_left _ _ _ (by rw [← ha, hc])] at h2
  have e1 : dot a n = dot c n := by linarith
  have e2 : dot b n = dot c n := by linarith
  rw [e1, e2]; ring

/-- height over the plane along a segment -/
theorem along_height (c n a b : Vec) (s : Rat) (ha : a.length = b.length) (hc : c.length = a.length) :
    dot (vsub (along a b s) c) n = dot (vsub a c) n + s * (dot (vsub b c) n - dot (vsub a c) n) := by
  have l1 : (along a b s).length = c.length := by rw [length_along _ _ _ ha, hc]
  rw [dot_vsub_left _ _ _ l1]
  unfold along
  rw [dot_vadd_left _ _ _ (by simp [length_vsub _ _ ha.symm, ha]), dot_smul_left, dot_vsub_left _ _ _ ha.symm,
    dot_vsub_left _ _ _ hc.symm, dot_vsub_left _ _ _ (by rw [← ha, hc])]
  ring

/-! ### branches of `segPoly` -/

theorem segPolyGeneral_branch (tolS : Rat) (s e : Vec) (poly : List Vec) :
    (segPolyGeneral tolS s e poly).branch = 2 := by
  unfold segPolyGeneral
  simp only []
  split <;> (try split_ifs) <;> rfl

theorem segPoly_some (tolP tolS : Rat) (s e : Vec) (poly : List Vec) (x0 : Vec)
    (hx : crossPoint tolP s e poly = some x0) : segPoly tolP tolS s e poly = ⟨0, x0, 0⟩ := by
  unfold segPoly; rw [hx]

theorem segPoly_none (tolP tolS : Rat) (s e : Vec) (poly : List Vec)
    (hx : crossPoint tolP s e poly = none) :
    (segPoly tolP tolS s e poly).branch = 1 ∨ segPoly tolP tolS s e poly = segPolyGeneral tolS s e poly := by
  unfold segPoly
  rw [hx]
  simp only []
  split_ifs
  · exact Or.inl rfl
  · exact Or.inl rfl
  · exact Or.inr rfl

/-! ### integer inputs: the tolerance devices cannot fire on non-zero quantities -/

def IsInt (x : Rat) : Prop := ∃ z : Int, x = (z : Rat)

theorem IsInt.zero : IsInt 0 := ⟨0, by simp⟩
theorem IsInt.one : IsInt 1 := ⟨1, by simp⟩
theorem IsInt.add {x y : Rat} (hx : IsInt x) (hy : IsInt y) : IsInt (x + y) := by
  obtain ⟨a, rfl⟩ := hx; obtain ⟨b, rfl⟩ := hy; exact ⟨a + b, by push_cast; ring⟩
theorem IsInt.sub {x y : Rat} (hx : IsInt x) (hy : IsInt y) : IsInt (x - y) := by
  obtain ⟨a, rfl⟩ := hx; obtain ⟨b, rfl⟩ := hy; exact ⟨a - b, by push_cast; ring⟩
theorem IsInt.mul {x y : Rat} (hx : IsInt x) (hy : IsInt y) : IsInt (x * y) := by
  obtain ⟨a, rfl⟩ := hx; obtain ⟨b, rfl⟩ := hy; exact ⟨a * b, by push_cast; ring⟩
theorem IsInt.neg {x : Rat} (hx : IsInt x) : IsInt (-x) := by
  obtain ⟨a, rfl⟩ := hx; exact ⟨-a, by push_cast; ring⟩

/-- an integer below 1 is at most 0 -/
theorem IsInt.le_zero_of_lt_one {x : Rat} (hx : IsInt x) (h : x < 1) : x ≤ 0 := by
  obtain ⟨z, rfl⟩ := hx
  have : z < 1 := by exact_mod_cast h
  have : z ≤ 0 := by omega
  exact_mod_cast this

/-- an integer that is not 0 and not negative is at least 1 -/
theorem IsInt.one_le {x : Rat} (hx : IsInt x) (h0 : 0 ≤ x) (hne : x ≠ 0) : 1 ≤ x := by
  obtain ⟨z, rfl⟩ := hx
  have h1 : (0 : Int) ≤ z := by exact_mod_cast h0
  have h2 : z ≠ 0 := by intro h; apply hne; rw [h]; simp
  have : 1 ≤ z := by omega
  exact_mod_cast this

def IntVec (v : Vec) : Prop := ∀ x ∈ v, IsInt x

theorem IntVec.tail {x : Rat} {xs : Vec} (h : IntVec (x :: xs)) : IntVec xs :=
  fun y hy => h y (List.mem_cons_of_mem _ hy)

theorem IntVec.head {x : Rat} {xs : Vec} (h : IntVec (x :: xs)) : IsInt x := h x (by simp)

theorem IntVec.vsub {u v : Vec} (hu : IntVec u) (hv : IntVec v) : IntVec (vsub u v) := by
  induction u generalizing v with
  | nil => intro x hx; simp at hx
  | cons a as ih => cases v with
    | nil => intro x hx; simp at hx
    | cons b bs =>
      intro x hx
      simp only [vsub_cons, List.mem_cons] at hx
      rcases hx with rfl | hx
      · exact hu.head.sub hv.head
      · exact ih hu.tail hv.tail x hx

theorem IntVec.dot {u v : Vec} (hu : IntVec u) (hv : IntVec v) : IsInt (dot u v) := by
  induction u generalizing v with
  | nil => simp; exact IsInt.zero
  | cons a as ih => cases v with
    | nil => simp; exact IsInt.zero
    | cons b bs => simp only [dot_cons]; exact (hu.head.mul hv.head).add (ih hu.tail hv.tail)

/-- invariants of the numerators and denominators for integer data -/
structure IntPar (m : Rat) (q : Par) : Prop where
  sN : IsInt q.sN
  tN : IsInt q.tN
  sD : q.sD ≤ m
  tD : q.tD ≤ m

theorem stage1_int {tol a b c d e : Rat} (ha : IsInt a) (hb : IsInt b) (hc : IsInt c) (hd : IsInt d) (he : IsInt e)
    (h1a : 1 ≤ a) (h1c : 1 ≤ c) : IntPar (a * c) (stage1 tol a b c d e) := by
  have hac : 1 ≤ a * c := by nlinarith
  have hca : c ≤ a * c := by nlinarith
  have hD : a * c - b * b ≤ a * c := by nlinarith [mul_self_nonneg b]
  have iD : IsInt (a * c - b * b) := (ha.mul hc).sub (hb.mul hb)
  unfold stage1
  simp only []
  split_ifs
  · exact ⟨IsInt.zero, he, hac, hca⟩
  · exact ⟨IsInt.zero, he, hD, hca⟩
  · exact ⟨iD, hb.add he, hD, hca⟩
  · exact ⟨(hb.mul he).sub (hc.mul hd), (ha.mul he).sub (hb.mul hd), hD, hD⟩

theorem stage2_int {m a b d : Rat} {q : Par} (ha : IsInt a) (hb : IsInt b) (hd : IsInt d) (ham : a ≤ m)
    (hsD : IsInt q.sD) (htD : IsInt q.tD) (h : IntPar m q) : IntPar m (stage2 a b d q) ∧ True := by
  obtain ⟨sN, sD, tN, tD⟩ := q
  obtain ⟨h1, h2, h3, h4⟩ := h
  simp only at h1 h2 h3 h4 hsD htD
  simp only [stage2, stage2a, stage2b]
  refine ⟨?_, trivial⟩
  split_ifs <;> (try simp only []) <;> constructor <;> (try simp only []) <;>
    first | assumption | exact IsInt.zero | exact hd.neg | exact hd.neg.add hb

theorem stage1_den_int {tol a b c d e : Rat} (ha : IsInt a) (hb : IsInt b) (hc : IsInt c) :
    IsInt (stage1 tol a b c d e).sD ∧ IsInt (stage1 tol a b c d e).tD := by
  have iD : IsInt (a * c - b * b) := (ha.mul hc).sub (hb.mul hb)
  unfold stage1
  simp only []
  split_ifs
  · exact ⟨IsInt.one, hc⟩
  · exact ⟨iD, hc⟩
  · exact ⟨iD, hc⟩
  · exact ⟨iD, iD⟩

/-- for integer dot products with `tol·|u|²·|v|² ≤ 1` the kernel is in its exact regime -/
theorem exactRegime_of_int {tol a b c d e : Rat} (htol : 0 < tol)
    (ha : IsInt a) (hb : IsInt b) (hc : IsInt c) (hd : IsInt d) (he : IsInt e)
    (ha0 : 0 ≤ a) (hc0 : 0 ≤ c) (hbound : tol * a * c ≤ 1) : exactRegime tol a b c d e = true := by
  unfold exactRegime
  simp only [Bool.or_eq_true, Bool.and_eq_true, decide_eq_true_eq, Bool.not_eq_true', decide_eq_false_iff_not]
  by_cases hz : a = 0
  · exact Or.inl (Or.inl hz)
  by_cases hzc : c = 0
  · exact Or.inl (Or.inr hzc)
  right
  have h1a := ha.one_le ha0 hz
  have h1c := hc.one_le hc0 hzc
  have iD : IsInt (a * c - b * b) := (ha.mul hc).sub (hb.mul hb)
  have I1 := stage1_int (tol := tol) ha hb hc hd he h1a h1c
  obtain ⟨d1, d2⟩ := stage1_den_int (tol := tol) (d := d) (e := e) ha hb hc
  have ham : a ≤ a * c := by nlinarith
  obtain ⟨I2, _⟩ := stage2_int ha hb hd ham d1 d2 I1
  have key : ∀ n dn : Rat, IsInt n → dn ≤ a * c → (¬ n < tol * dn ∨ n ≤ 0) := by
    intro n dn hn hdn
    by_cases h : n < tol * dn
    · right
      have : tol * dn ≤ tol * (a * c) := mul_le_mul_of_nonneg_left hdn htol.le
      exact hn.le_zero_of_lt_one (by nlinarith)
    · exact Or.inl h
  refine ⟨⟨?_, key _ _ I2.sN I2.sD⟩, key _ _ I2.tN I2.tD⟩
  by_cases h : a * c - b * b < tol * a * c
  · right; exact iD.le_zero_of_lt_one (by linarith)
  · exact Or.inl h

/-! ### three-dimensional helpers -/

theorem len3 (v : Vec) (h : v.length = 3) : ∃ x y z, v = [x, y, z] := by
  match v, h with
  | [x, y, z], _ => exact ⟨x, y, z, rfl⟩

/-- `side3` is affine along segments -/
theorem side3_along (n a b q x : Vec) (t : Rat) (hn : n.length = 3) (ha : a.length = 3) (hb : b.length = 3)
    (hq : q.length = 3) (hx : x.length = 3) :
    side3 n a b (along q x t) = side3 n a b q + t * (side3 n a b x - side3 n a b q) := by
  obtain ⟨n1, n2, n3, rfl⟩ := len3 n hn
  obtain ⟨a1, a2, a3, rfl⟩ := len3 a ha
  obtain ⟨b1, b2, b3, rfl⟩ := len3 b hb
  obtain ⟨q1, q2, q3, rfl⟩ := len3 q hq
  obtain ⟨x1, x2, x3, rfl⟩ := len3 x hx
  simp [side3, cross3, along]
  ring

/-- `side3` only depends on the differences: `((b-a)×(x-a))·n = ((a-x)×(b-x))·n` -/
theorem side3_rot (n a b x : Vec) (hn : n.length = 3) (ha : a.length = 3) (hb : b.length = 3) (hx : x.length = 3) :
    side3 n a b x = side3 n x a b := by
  obtain ⟨n1, n2, n3, rfl⟩ := len3 n hn
  obtain ⟨a1, a2, a3, rfl⟩ := len3 a ha
  obtain ⟨b1, b2, b3, rfl⟩ := len3 b hb
  obtain ⟨x1, x2, x3, rfl⟩ := len3 x hx
  simp [side3, cross3]
  ring

theorem side3_pred (n g a b : Vec) (t : Rat) (hn : n.length = 3) (hg : g.length = 3) (ha : a.length = 3) (hb : b.length = 3) :
    side3 n g a (along a b t) = t * side3 n g a b := by
  obtain ⟨n1, n2, n3, rfl⟩ := len3 n hn
  obtain ⟨a1, a2, a3, rfl⟩ := len3 a ha
  obtain ⟨b1, b2, b3, rfl⟩ := len3 b hb
  obtain ⟨g1, g2, g3, rfl⟩ := len3 g hg
  simp [side3, cross3, along]
  ring

theorem side3_succ (n a b g : Vec) (t : Rat) (hn : n.length = 3) (hg : g.length = 3) (ha : a.length = 3) (hb : b.length = 3) :
    side3 n b g (along a b t) = (1 - t) * side3 n a b g := by
  obtain ⟨n1, n2, n3, rfl⟩ := len3 n hn
  obtain ⟨a1, a2, a3, rfl⟩ := len3 a ha
  obtain ⟨b1, b2, b3, rfl⟩ := len3 b hb
  obtain ⟨g1, g2, g3, rfl⟩ := len3 g hg
  simp [side3, cross3, along]
  ring

theorem side3_self (n a b : Vec) (hn : n.length = 3) (ha : a.length = 3) (hb : b.length = 3) :
    side3 n a b b = 0 ∧ side3 n a b a = 0 ∧ side3 n a a b = 0 := by
  obtain ⟨n1, n2, n3, rfl⟩ := len3 n hn
  obtain ⟨a1, a2, a3, rfl⟩ := len3 a ha
  obtain ⟨b1, b2, b3, rfl⟩ := len3 b hb
  refine ⟨?_, ?_, ?_⟩ <;> (simp [side3, cross3]; try ring)

/-- a point of the plane on the carrier line of `a b` is `a + t (b - a)` -/
theorem collinear_param (n c a b y : Vec) (hn : n.length = 3) (hc : c.length = 3) (ha : a.length = 3)
    (hb : b.length = 3) (hy : y.length = 3) (hnn : nsq n ≠ 0) (hab : nsq (vsub b a) ≠ 0)
    (pa : dot (vsub a c) n = 0) (pb : dot (vsub b c) n = 0) (py : dot (vsub y c) n = 0)
    (h0 : side3 n a b y = 0) :
    y = along a b (dot (vsub b a) (vsub y a) / nsq (vsub b a)) := by
  obtain ⟨n1, n2, n3, rfl⟩ := len3 n hn
  obtain ⟨c1, c2, c3, rfl⟩ := len3 c hc
  obtain ⟨a1, a2, a3, rfl⟩ := len3 a ha
  obtain ⟨b1, b2, b3, rfl⟩ := len3 b hb
  obtain ⟨y1, y2, y3, rfl⟩ := len3 y hy
  simp [side3, cross3, nsq] at pa pb py h0 hnn hab ⊢
  -- e = b - a, w = y - a, both orthogonal to n
  have en : (b1 - a1) * n1 + ((b2 - a2) * n2 + (b3 - a3) * n3) = 0 := by linarith
  have wn : (y1 - a1) * n1 + ((y2 - a2) * n2 + (y3 - a3) * n3) = 0 := by linarith
  -- the cross product e × w vanishes
  have hN : n1 * n1 + (n2 * n2 + n3 * n3) ≠ 0 := hnn
  have C1 : (b2 - a2) * (y3 - a3) - (b3 - a3) * (y2 - a2) = 0 := by
    have : (n1 * n1 + (n2 * n2 + n3 * n3)) * ((b2 - a2) * (y3 - a3) - (b3 - a3) * (y2 - a2)) = 0 := by
      linear_combination n1 * h0 + (n2 * (y3 - a3) - n3 * (y2 - a2)) * en - (n2 * (b3 - a3) - n3 * (b2 - a2)) * wn
    rcases mul_eq_zero.mp this with h | h
    · exact absurd h hN
    · exact h
  have C2 : (b3 - a3) * (y1 - a1) - (b1 - a1) * (y3 - a3) = 0 := by
    have : (n1 * n1 + (n2 * n2 + n3 * n3)) * ((b3 - a3) * (y1 - a1) - (b1 - a1) * (y3 - a3)) = 0 := by
      linear_combination n2 * h0 + (n3 * (y1 - a1) - n1 * (y3 - a3)) * en - (n3 * (b1 - a1) - n1 * (b3 - a3)) * wn
    rcases mul_eq_zero.mp this with h | h
    · exact absurd h hN
    · exact h
  have C3 : (b1 - a1) * (y2 - a2) - (b2 - a2) * (y1 - a1) = 0 := by
    have : (n1 * n1 + (n2 * n2 + n3 * n3)) * ((b1 - a1) * (y2 - a2) - (b2 - a2) * (y1 - a1)) = 0 := by
      linear_combination n3 * h0 + (n1 * (y2 - a2) - n2 * (y1 - a1)) * en - (n1 * (b2 - a2) - n2 * (b1 - a1)) * wn
    rcases mul_eq_zero.mp this with h | h
    · exact absurd h hN
    · exact h
  have hE : (b1 - a1) * (b1 - a1) + ((b2 - a2) * (b2 - a2) + (b3 - a3) * (b3 - a3)) ≠ 0 := hab
  have k1 : y1 - a1 = ((b1 - a1) * (y1 - a1) + ((b2 - a2) * (y2 - a2) + (b3 - a3) * (y3 - a3))) /
      ((b1 - a1) * (b1 - a1) + ((b2 - a2) * (b2 - a2) + (b3 - a3) * (b3 - a3))) * (b1 - a1) := by
    rw [div_mul_eq_mul_div, eq_div_iff hE]
    linear_combination (b3 - a3) * C2 - (b2 - a2) * C3
  have k2 : y2 - a2 = ((b1 - a1) * (y1 - a1) + ((b2 - a2) * (y2 - a2) + (b3 - a3) * (y3 - a3))) /
      ((b1 - a1) * (b1 - a1) + ((b2 - a2) * (b2 - a2) + (b3 - a3) * (b3 - a3))) * (b2 - a2) := by
    rw [div_mul_eq_mul_div, eq_div_iff hE]
    linear_combination (b1 - a1) * C3 - (b3 - a3) * C1
  have k3 : y3 - a3 = ((b1 - a1) * (y1 - a1) + ((b2 - a2) * (y2 - a2) + (b3 - a3) * (y3 - a3))) /
      ((b1 - a1) * (b1 - a1) + ((b2 - a2) * (b2 - a2) + (b3 - a3) * (b3 - a3))) * (b3 - a3) := by
    rw [div_mul_eq_mul_div, eq_div_iff hE]
    linear_combination (b2 - a2) * C1 - (b1 - a1) * C2
  simp only [along, vsub_cons, vsub_nil_left, smul_cons, smul_nil, vadd_cons, vadd_nil_left]
  rw [← k1, ← k2, ← k3]
  simp

/-! ### entering a convex region along a segment -/

/-- affine constraints `c + λ d ≥ 0` that all hold at `λ = 1`: there is a first parameter `λ* ∈ [0,1]` from
    which on all hold, and either `λ* = 0` or one constraint is tight at `λ*` -/
theorem first_feasible (fs : List (Rat × Rat)) (h1 : ∀ f ∈ fs, 0 ≤ f.1 + f.2) :
    ∃ l : Rat, 0 ≤ l ∧ l ≤ 1 ∧ (∀ f ∈ fs, 0 ≤ f.1 + l * f.2) ∧ (l = 0 ∨ ∃ f ∈ fs, f.1 + l * f.2 = 0) := by
  induction fs with
  | nil => exact ⟨0, le_refl _, by norm_num, fun f hf => by simp at hf, Or.inl rfl⟩
  | cons f fs ih =>
    obtain ⟨l0, h0, h1', hall, htight⟩ := ih (fun g hg => h1 g (List.mem_cons_of_mem _ hg))
    by_cases hf : 0 ≤ f.1 + l0 * f.2
    · refine ⟨l0, h0, h1', ?_, ?_⟩
      · intro g hg
        rcases List.mem_cons.mp hg with rfl | hg
        · exact hf
        · exact hall g hg
      · rcases htight with h | ⟨g, hg, hg0⟩
        · exact Or.inl h
        · exact Or.inr ⟨g, List.mem_cons_of_mem _ hg, hg0⟩
    · have hneg : f.1 + l0 * f.2 < 0 := not_le.mp hf
      have hf1 : 0 ≤ f.1 + f.2 := h1 f (by simp)
      have hl0 : l0 < 1 := by
        by_contra h
        have : l0 = 1 := le_antisymm h1' (not_lt.mp h)
        rw [this] at hneg; linarith
      have hd : 0 < f.2 := by nlinarith
      have hdne : f.2 ≠ 0 := ne_of_gt hd
      have hroot : f.1 + (-f.1 / f.2) * f.2 = 0 := by rw [div_mul_cancel₀ _ hdne]; ring
      have hgt : l0 < -f.1 / f.2 := by rw [lt_div_iff₀ hd]; linarith
      have hle : -f.1 / f.2 ≤ 1 := by rw [div_le_one hd]; linarith
      refine ⟨-f.1 / f.2, by linarith, hle, ?_, Or.inr ⟨f, by simp, hroot⟩⟩
      intro g hg
      rcases List.mem_cons.mp hg with rfl | hg
      · rw [hroot]
      · have ha := hall g hg
        have hb := h1 g (List.mem_cons_of_mem _ hg)
        -- g(l) (1 - l0) = (1 - l) g(l0) + (l - l0) g(1)
        have key : (g.1 + (-f.1 / f.2) * g.2) * (1 - l0)
            = (1 - -f.1 / f.2) * (g.1 + l0 * g.2) + (-f.1 / f.2 - l0) * (g.1 + g.2) := by ring
        have hpos : 0 ≤ (g.1 + (-f.1 / f.2) * g.2) * (1 - l0) := by
          rw [key]
          exact add_nonneg (mul_nonneg (by linarith) ha) (mul_nonneg (by linarith) hb)
        by_contra hc
        have : (g.1 + (-f.1 / f.2) * g.2) * (1 - l0) < 0 := mul_neg_of_neg_of_pos (not_le.mp hc) (by linarith)
        linarith

/-- a point of the plane that is on the carrier line of an edge and in the half-planes of the two
    neighbouring edges lies on the edge -/
theorem on_edge (poly : List Vec) (C : ConvexPoly poly) (g : Vec × Vec) (hg : g ∈ edges poly) (y : Vec)
    (hy : y.length = 3) (py : dot (vsub y (centroid poly)) (normal poly) = 0)
    (hall : ∀ h ∈ edges poly, 0 ≤ side3 (normal poly) h.1 h.2 y)
    (h0 : side3 (normal poly) g.1 g.2 y = 0) :
    ∃ t : Rat, 0 ≤ t ∧ t ≤ 1 ∧ y = along g.1 g.2 t := by
  obtain ⟨gp, hgp, gn, hgn, e1, e2, tp, tn⟩ := C.corners g hg
  obtain ⟨la, lb⟩ := C.len3 g hg
  have lgp := (C.len3 gp hgp).1
  have lgn := (C.len3 gn hgn).2
  -- the edge is not degenerate
  have hab : nsq (vsub g.2 g.1) ≠ 0 := by
    intro h
    have : g.1 = g.2 := (vsub_self_of_nsq_zero g.2 g.1 (by rw [la, lb]) h).symm
    rw [← this] at tn
    have := (side3_self (normal poly) g.1 gn.2 C.nlen la lgn).2.2
    linarith
  have hy' := collinear_param (normal poly) (centroid poly) g.1 g.2 y C.nlen C.clen la lb hy C.nn hab
    (C.planar g hg).1 (C.planar g hg).2 py h0
  refine ⟨_, ?_, ?_, hy'⟩
  · -- predecessor
    have h := hall gp hgp
    rw [e1, hy', side3_pred _ _ _ _ _ C.nlen lgp la lb] at h
    by_contra hc
    have := mul_neg_of_neg_of_pos (not_le.mp hc) tp
    linarith
  · have h := hall gn hgn
    rw [e2, hy', side3_succ _ _ _ _ _ C.nlen lgn la lb] at h
    by_contra hc
    have : (1 - dot (vsub g.2 g.1) (vsub y g.1) / nsq (vsub g.2 g.1)) * side3 (normal poly) g.1 g.2 gn.2 < 0 :=
      mul_neg_of_neg_of_pos (by linarith [not_le.mp hc]) tn
    linarith

theorem length_projPlane (c n x : Vec) (hn : n.length = x.length) : (projPlane c n x).length = x.length := by
  unfold projPlane; rw [length_vsub _ _ (by simp [hn])]

/-- Pythagoras in the plane through `c` with normal `n`: for `z` in the plane,
    `|p - z|² = |p - q|² + |q - z|²` with `q` the projection of `p` -/
theorem pythagoras_plane (c n p z : Vec) (hc : c.length = p.length) (hn : n.length = p.length)
    (hz : z.length = p.length) (hnn : nsq n ≠ 0) (hplane : dot (vsub z c) n = 0) :
    nsq (vsub p z) = nsq (vsub p (projPlane c n p)) + nsq (vsub (projPlane c n p) z) := by
  have hq := projPlane_in_plane c n p hc hn hnn
  have e1 : vsub p (projPlane c n p) = smul (dot (vsub p c) n / nsq n) n := by
    unfold projPlane; exact vsub_vsub_cancel _ _ (by simp [hn])
  have lq := length_projPlane c n p hn
  have split := nsq_split p (projPlane c n p) z hz lq
  have cross : dot (vsub p (projPlane c n p)) (vsub (projPlane c n p) z) = 0 := by
    rw [e1, dot_smul_left, dot_vsub_right _ _ _ (by rw [lq, hz])]
    have a1 : dot n (projPlane c n p) = dot c n := by
      have := hq
      rw [dot_vsub_left _ _ _ (by rw [lq, hc])] at this
      rw [dot_comm]; linarith
    have a2 : dot n z = dot c n := by
      rw [dot_vsub_left _ _ _ (by rw [hz, hc])] at hplane
      rw [dot_comm]; linarith
    rw [a1, a2]; ring
  rw [split, cross]; ring

/-- a segment from a point `q` of the plane that is not strictly inside the region to a point `x` of the
    region meets the boundary: some point of it lies on an edge -/
theorem convex_entry (poly : List Vec) (C : ConvexPoly poly) (q x : Vec) (hq : q.length = 3)
    (pq : dot (vsub q (centroid poly)) (normal poly) = 0) (hx : InRegion poly x)
    (hout : ∃ g ∈ edges poly, side3 (normal poly) g.1 g.2 q ≤ 0) :
    ∃ g ∈ edges poly, ∃ t l : Rat, 0 ≤ t ∧ t ≤ 1 ∧ 0 ≤ l ∧ l ≤ 1 ∧ along q x l = along g.1 g.2 t := by
  obtain ⟨lx, px, sx⟩ := hx
  obtain ⟨l, l0, l1, hall, htight⟩ := first_feasible
    ((edges poly).map fun g => (side3 (normal poly) g.1 g.2 q, side3 (normal poly) g.1 g.2 x - side3 (normal poly) g.1 g.2 q))
    (by
      intro f hf
      obtain ⟨g, hg, rfl⟩ := List.mem_map.mp hf
      simp only []
      have := sx g hg
      linarith)
  have ly : (along q x l).length = 3 := by rw [length_along _ _ _ (by rw [hq, lx]), hq]
  have py : dot (vsub (along q x l) (centroid poly)) (normal poly) = 0 :=
    along_in_plane _ _ _ _ l (by rw [hq, lx]) (by rw [C.clen, hq]) pq px
  have sy : ∀ h ∈ edges poly, side3 (normal poly) h.1 h.2 (along q x l)
      = side3 (normal poly) h.1 h.2 q + l * (side3 (normal poly) h.1 h.2 x - side3 (normal poly) h.1 h.2 q) :=
    fun h hh => side3_along _ _ _ _ _ l C.nlen (C.len3 h hh).1 (C.len3 h hh).2 hq lx
  have hally : ∀ h ∈ edges poly, 0 ≤ side3 (normal poly) h.1 h.2 (along q x l) := by
    intro h hh
    rw [sy h hh]
    exact hall _ (List.mem_map.mpr ⟨h, hh, rfl⟩)
  have fin : ∀ g ∈ edges poly, side3 (normal poly) g.1 g.2 (along q x l) = 0 →
      ∃ g ∈ edges poly, ∃ t l : Rat, 0 ≤ t ∧ t ≤ 1 ∧ 0 ≤ l ∧ l ≤ 1 ∧ along q x l = along g.1 g.2 t := by
    intro g hg h0
    obtain ⟨t, t0, t1, e⟩ := on_edge poly C g hg _ ly py hally h0
    exact ⟨g, hg, t, l, t0, t1, l0, l1, e⟩
  rcases htight with h | ⟨f, hf, hf0⟩
  · obtain ⟨g, hg, hle⟩ := hout
    apply fin g hg
    have h1 := hally g hg
    rw [sy g hg, h] at h1 ⊢
    simp at h1 ⊢
    linarith
  · obtain ⟨g, hg, rfl⟩ := List.mem_map.mp hf
    apply fin g hg
    rw [sy g hg]
    exact hf0

/-- nearest point on the boundary: if the projection of `p` is not strictly inside the region, every point of
    the region is at least as far from `p` as some point of some edge -/
theorem convex_outside_bound (poly : List Vec) (C : ConvexPoly poly) (p : Vec) (hp : p.length = 3)
    (hout : ∃ g ∈ edges poly, side3 (normal poly) g.1 g.2 (projPlane (centroid poly) (normal poly) p) ≤ 0)
    (x : Vec) (hx : InRegion poly x) :
    ∃ g ∈ edges poly, ∃ t : Rat, 0 ≤ t ∧ t ≤ 1 ∧ nsq (vsub p (along g.1 g.2 t)) ≤ nsq (vsub p x) := by
  have hc : (centroid poly).length = p.length := by rw [C.clen, hp]
  have hn : (normal poly).length = p.length := by rw [C.nlen, hp]
  have lq : (projPlane (centroid poly) (normal poly) p).length = 3 := by rw [length_projPlane _ _ _ hn, hp]
  have pq := projPlane_in_plane (centroid poly) (normal poly) p hc hn C.nn
  obtain ⟨g, hg, t, l, t0, t1, l0, l1, e⟩ := convex_entry poly C _ x lq pq hx hout
  obtain ⟨lx, px, _⟩ := hx
  refine ⟨g, hg, t, t0, t1, ?_⟩
  rw [← e]
  have ly : (along (projPlane (centroid poly) (normal poly) p) x l).length = p.length := by
    rw [length_along _ _ _ (by rw [lq, lx]), lq, hp]
  have py : dot (vsub (along (projPlane (centroid poly) (normal poly) p) x l) (centroid poly)) (normal poly) = 0 :=
    along_in_plane _ _ _ _ l (by rw [lq, lx]) (by rw [C.clen, lq]) pq px
  rw [pythagoras_plane _ _ p _ hc hn ly C.nn py, pythagoras_plane _ _ p x hc hn (by rw [lx, hp]) C.nn px]
  have hq0 : nsq (vsub (projPlane (centroid poly) (normal poly) p) (projPlane (centroid poly) (normal poly) p)) = 0 :=
    nsq_vsub_self _
  rw [nsq_sub_along _ _ _ l rfl (by rw [lq, lx]), hq0, dot_eq_zero_of_nsq_eq_zero _ _ hq0,
    nsq_vsub_comm x]
  have hnn := nsq_nonneg (vsub (projPlane (centroid poly) (normal poly) p) x)
  nlinarith [mul_nonneg (mul_nonneg l0 (sub_nonneg.mpr l1)) hnn, mul_nonneg (sub_nonneg.mpr l1) hnn]

/-! ### the winding test in two dimensions -/

theorem sgn_pos {x : Rat} (h : 0 < x) : sgn x = 1 := by
  unfold sgn; rw [if_neg (by linarith), if_pos h]
theorem sgn_neg {x : Rat} (h : x < 0) : sgn x = -1 := by
  unfold sgn; rw [if_pos h]
theorem sgn_zero : sgn 0 = 0 := by unfold sgn; simp

/-- `vertex_sgn = 1`: the open right half-plane plus the positive y-axis -/
theorem vsign2_cases (u : Rat × Rat) :
    (vsign2 u = 1 ∧ (0 < u.1 ∨ (u.1 = 0 ∧ 0 < u.2))) ∨
    (vsign2 u = -1 ∧ (u.1 < 0 ∨ (u.1 = 0 ∧ u.2 < 0))) ∨
    (vsign2 u = 0 ∧ u.1 = 0 ∧ u.2 = 0) := by
  unfold vsign2 vsign
  rcases lt_trichotomy u.1 0 with h | h | h
  · right; left
    rw [sgn_neg h]; simp; exact Or.inl h
  · have hs : sgn u.1 = 0 := by rw [h]; exact sgn_zero
    rw [if_pos hs]
    rcases lt_trichotomy u.2 0 with h2 | h2 | h2
    · right; left; exact ⟨sgn_neg h2, Or.inr ⟨h, h2⟩⟩
    · right; right; exact ⟨by rw [h2]; exact sgn_zero, h, h2⟩
    · left; exact ⟨sgn_pos h2, Or.inr ⟨h, h2⟩⟩
  · left
    rw [sgn_pos h]; simp; exact Or.inl h

theorem cross2_self (u : Rat × Rat) : cross2 u u = 0 := by unfold cross2; ring
theorem cross2_anti (u v : Rat × Rat) : cross2 v u = -cross2 u v := by unfold cross2; ring

/-- "same half-plane, counter-clockwise (times ρ)" relation between direction vectors -/
def Rturn (ρ : Rat) (u v : Rat × Rat) : Prop :=
  vsign2 u = vsign2 v ∧ vsign2 u ≠ 0 ∧ 0 < ρ * cross2 u v

/-- within one of the two half-planes of the vertex-sign rule the angular order is transitive -/
theorem Rturn_trans {ρ : Rat} {u v w : Rat × Rat} (h1 : Rturn ρ u v) (h2 : Rturn ρ v w) : Rturn ρ u w := by
  obtain ⟨e1, n1, c1⟩ := h1
  obtain ⟨e2, _, c2⟩ := h2
  refine ⟨e1.trans e2, n1, ?_⟩
  have key : v.1 * (ρ * cross2 u w) = u.1 * (ρ * cross2 v w) + w.1 * (ρ * cross2 u v) := by
    unfold cross2; ring
  unfold cross2 at c1 c2 key ⊢
  rcases vsign2_cases u with ⟨su, hu⟩ | ⟨su, hu⟩ | ⟨su, _⟩
  · -- all three in H+
    have sv : vsign2 v = 1 := by rw [← e1, su]
    have sw : vsign2 w = 1 := by rw [← e2, sv]
    rcases vsign2_cases v with ⟨_, hv⟩ | ⟨h, _⟩ | ⟨h, _⟩
    rcases vsign2_cases w with ⟨_, hw⟩ | ⟨h, _⟩ | ⟨h, _⟩
    · rcases hv with hv | ⟨hv0, hv2⟩
      · -- v.1 > 0
        have hu1 : 0 ≤ u.1 := by rcases hu with h | ⟨h, _⟩ <;> linarith
        have hw1 : 0 ≤ w.1 := by rcases hw with h | ⟨h, _⟩ <;> linarith
        by_contra hc
        have hle : ρ * (u.1 * w.2 - u.2 * w.1) ≤ 0 := not_lt.mp hc
        have hr : 0 ≤ u.1 * (ρ * (v.1 * w.2 - v.2 * w.1)) + w.1 * (ρ * (u.1 * v.2 - u.2 * v.1)) :=
          add_nonneg (mul_nonneg hu1 c2.le) (mul_nonneg hw1 c1.le)
        have hl : v.1 * (ρ * (u.1 * w.2 - u.2 * w.1)) ≤ 0 := mul_nonpos_of_nonneg_of_nonpos hv.le hle
        have hz : u.1 * (ρ * (v.1 * w.2 - v.2 * w.1)) + w.1 * (ρ * (u.1 * v.2 - u.2 * v.1)) = 0 := by linarith
        have hu0 : u.1 = 0 := by
          by_contra h
          have : 0 < u.1 := lt_of_le_of_ne hu1 (Ne.symm h)
          nlinarith [mul_pos this c2, mul_nonneg hw1 c1.le]
        have hw0 : w.1 = 0 := by
          by_contra h
          have : 0 < w.1 := lt_of_le_of_ne hw1 (Ne.symm h)
          nlinarith [mul_pos this c1, mul_nonneg hu1 c2.le]
        have hu2 : 0 < u.2 := by rcases hu with h | ⟨_, h⟩ <;> linarith
        have hw2 : 0 < w.2 := by rcases hw with h | ⟨_, h⟩ <;> linarith
        rw [hu0] at c1; rw [hw0] at c2
        -- c1 : 0 < ρ (-(u.2 v.1)),  c2 : 0 < ρ (v.1 w.2)
        have p1 : 0 < (ρ * (0 * v.2 - u.2 * v.1)) * w.2 := mul_pos c1 hw2
        have p2 : 0 < (ρ * (v.1 * w.2 - v.2 * 0)) * u.2 := mul_pos c2 hu2
        nlinarith
      · -- v on the positive y-axis: impossible
        rw [hv0] at c1 c2
        have hu1 : 0 ≤ u.1 := by rcases hu with h | ⟨h, _⟩ <;> linarith
        have hw1 : 0 ≤ w.1 := by rcases hw with h | ⟨h, _⟩ <;> linarith
        have p1 : 0 ≤ (ρ * (u.1 * v.2 - u.2 * 0)) * w.1 := mul_nonneg c1.le hw1
        have p2 : 0 ≤ (ρ * (0 * w.2 - v.2 * w.1)) * u.1 := mul_nonneg c2.le hu1
        have hw0 : w.1 = 0 ∨ u.1 = 0 := by
          by_contra h
          have h := not_or.mp h
          have a : 0 < w.1 := lt_of_le_of_ne hw1 (Ne.symm h.1)
          have b : 0 < u.1 := lt_of_le_of_ne hu1 (Ne.symm h.2)
          nlinarith [mul_pos (mul_pos c1 a) b, mul_pos (mul_pos c2 b) a]
        rcases hw0 with h | h
        · rw [h] at c2; simp at c2
        · rw [h] at c1; simp at c1
    · rw [sw] at h; exact absurd h (by decide)
    · rw [sw] at h; exact absurd h (by decide)
    · rw [sv] at h; exact absurd h (by decide)
    · rw [sv] at h; exact absurd h (by decide)
  · -- all three in H-
    have sv : vsign2 v = -1 := by rw [← e1, su]
    have sw : vsign2 w = -1 := by rw [← e2, sv]
    rcases vsign2_cases v with ⟨h, _⟩ | ⟨_, hv⟩ | ⟨h, _⟩
    · rw [sv] at h; exact absurd h (by decide)
    rcases vsign2_cases w with ⟨h, _⟩ | ⟨_, hw⟩ | ⟨h, _⟩
    · rw [sw] at h; exact absurd h (by decide)
    · rcases hv with hv | ⟨hv0, hv2⟩
      · have hu1 : u.1 ≤ 0 := by rcases hu with h | ⟨h, _⟩ <;> linarith
        have hw1 : w.1 ≤ 0 := by rcases hw with h | ⟨h, _⟩ <;> linarith
        by_contra hc
        have hle : ρ * (u.1 * w.2 - u.2 * w.1) ≤ 0 := not_lt.mp hc
        have hr : u.1 * (ρ * (v.1 * w.2 - v.2 * w.1)) + w.1 * (ρ * (u.1 * v.2 - u.2 * v.1)) ≤ 0 :=
          add_nonpos (mul_nonpos_of_nonpos_of_nonneg hu1 c2.le) (mul_nonpos_of_nonpos_of_nonneg hw1 c1.le)
        have hl : 0 ≤ v.1 * (ρ * (u.1 * w.2 - u.2 * w.1)) := mul_nonneg_of_nonpos_of_nonpos hv.le hle
        have hu0 : u.1 = 0 := by
          by_contra h
          have : u.1 < 0 := lt_of_le_of_ne hu1 h
          nlinarith [mul_pos (neg_pos.mpr this) c2, mul_nonpos_of_nonpos_of_nonneg hw1 c1.le]
        have hw0 : w.1 = 0 := by
          by_contra h
          have : w.1 < 0 := lt_of_le_of_ne hw1 h
          nlinarith [mul_pos (neg_pos.mpr this) c1, mul_nonpos_of_nonpos_of_nonneg hu1 c2.le]
        have hu2 : u.2 < 0 := by rcases hu with h | ⟨_, h⟩ <;> linarith
        have hw2 : w.2 < 0 := by rcases hw with h | ⟨_, h⟩ <;> linarith
        rw [hu0] at c1; rw [hw0] at c2
        have p1 : 0 < (ρ * (0 * v.2 - u.2 * v.1)) * (-w.2) := mul_pos c1 (by linarith)
        have p2 : 0 < (ρ * (v.1 * w.2 - v.2 * 0)) * (-u.2) := mul_pos c2 (by linarith)
        nlinarith
      · rw [hv0] at c1 c2
        have hu1 : u.1 ≤ 0 := by rcases hu with h | ⟨h, _⟩ <;> linarith
        have hw1 : w.1 ≤ 0 := by rcases hw with h | ⟨h, _⟩ <;> linarith
        have hw0 : w.1 = 0 ∨ u.1 = 0 := by
          by_contra h
          have h := not_or.mp h
          have a : 0 < -w.1 := by have := lt_of_le_of_ne hw1 h.1; linarith
          have b : 0 < -u.1 := by have := lt_of_le_of_ne hu1 h.2; linarith
          nlinarith [mul_pos (mul_pos c1 a) b, mul_pos (mul_pos c2 b) a]
        rcases hw0 with h | h
        · rw [h] at c2; simp at c2
        · rw [h] at c1; simp at c1
    · rw [sw] at h; exact absurd h (by decide)
    · rw [sv] at h; exact absurd h (by decide)
  · exact absurd su n1

theorem Rturn_irrefl {ρ : Rat} {u : Rat × Rat} (h : Rturn ρ u u) : False := by
  have := h.2.2; rw [cross2_self] at this; simp at this

theorem Rturn_asymm {ρ : Rat} {u v : Rat × Rat} (h1 : Rturn ρ u v) (h2 : Rturn ρ v u) : False :=
  Rturn_irrefl (Rturn_trans h1 h2)

/-- a closed chain cannot turn the same way at every step inside one half-plane -/
theorem no_closed_chain (ρ : Rat) (first a : Rat × Rat) (l : List (Rat × Rat))
    (hstart : first = a ∨ Rturn ρ first a)
    (hall : ∀ e ∈ edgesFrom first (a :: l), Rturn ρ e.1 e.2) : False := by
  induction l generalizing a with
  | nil =>
    have h := hall (a, first) (by simp [edgesFrom])
    rcases hstart with rfl | h'
    · exact Rturn_irrefl h
    · exact Rturn_asymm h' h
  | cons b l ih =>
    have hab := hall (a, b) (by simp [edgesFrom])
    apply ih b
    · right
      rcases hstart with rfl | h'
      · exact hab
      · exact Rturn_trans h' hab
    · intro e he
      exact hall e (by simp only [edgesFrom, List.mem_cons]; exact Or.inr he)

/-! cyclic edge lists -/

theorem edgesFrom_map {α β : Type} (f : α → β) (first : α) (l : List α) :
    edgesFrom (f first) (l.map f) = (edgesFrom first l).map (fun e => (f e.1, f e.2)) := by
  induction l with
  | nil => rfl
  | cons a l ih =>
    cases l with
    | nil => rfl
    | cons b l => simp only [List.map_cons, edgesFrom] at ih ⊢; rw [ih]

theorem edges_map {α β : Type} (f : α → β) (l : List α) :
    edges (l.map f) = (edges l).map (fun e => (f e.1, f e.2)) := by
  cases l with
  | nil => rfl
  | cons a l => exact edgesFrom_map f a (a :: l)

theorem sum_telescope {α : Type} (φ : α → Int) (first a : α) (l : List α) :
    sumInt ((edgesFrom first (a :: l)).map (fun e => φ e.2 - φ e.1)) = φ first - φ a := by
  induction l generalizing a with
  | nil => simp [edgesFrom, sumInt]
  | cons b l ih =>
    simp only [edgesFrom, List.map_cons, sumInt]
    rw [ih b]; ring

theorem sum_telescope_edges {α : Type} (φ : α → Int) (l : List α) :
    sumInt ((edges l).map (fun e => φ e.2 - φ e.1)) = 0 := by
  cases l with
  | nil => rfl
  | cons a l => unfold edges; rw [sum_telescope]; ring

theorem sumInt_ge_one (l : List Int) (h0 : ∀ x ∈ l, 0 ≤ x) (h1 : ∃ x ∈ l, 1 ≤ x) : 1 ≤ sumInt l := by
  induction l with
  | nil => obtain ⟨x, hx, _⟩ := h1; simp at hx
  | cons a l ih =>
    have hnn : 0 ≤ sumInt l := by
      clear ih h1
      induction l with
      | nil => simp [sumInt]
      | cons b l ih2 =>
        have hb := h0 b (by simp)
        have := ih2 (fun x hx => h0 x (by
          rcases List.mem_cons.mp hx with rfl | hx
          · simp
          · simp [hx]))
        simp only [sumInt]; omega
    have ha := h0 a (by simp)
    obtain ⟨x, hx, hx1⟩ := h1
    simp only [sumInt]
    rcases List.mem_cons.mp hx with rfl | hx
    · omega
    · have := ih (fun y hy => h0 y (List.mem_cons_of_mem _ hy)) ⟨x, hx, hx1⟩
      omega

theorem sumInt_map_mul {α : Type} (k : Int) (f : α → Int) (l : List α) :
    sumInt (l.map (fun e => k * f e)) = k * sumInt (l.map f) := by
  induction l with
  | nil => simp [sumInt]
  | cons a l ih => simp only [List.map_cons, sumInt, ih]; ring

theorem sgn_eq_zero {x : Rat} (h : sgn x = 0) : x = 0 := by
  rcases lt_trichotomy x 0 with h1 | h1 | h1
  · rw [sgn_neg h1] at h; exact absurd h (by decide)
  · exact h1
  · rw [sgn_pos h1] at h; exact absurd h (by decide)

theorem sgn_of_mul_pos {b c : Rat} (h : 0 < b * c) : sgn c = sgn b ∧ sgn b * sgn b = 1 := by
  rcases lt_trichotomy b 0 with hb | hb | hb
  · have : c < 0 := by
      by_contra hc
      have := mul_nonpos_of_nonpos_of_nonneg hb.le (not_lt.mp hc)
      linarith
    rw [sgn_neg this, sgn_neg hb]; exact ⟨rfl, by decide⟩
  · rw [hb] at h; simp at h
  · have : 0 < c := by
      by_contra hc
      have := mul_nonpos_of_nonneg_of_nonpos hb.le (not_lt.mp hc)
      linarith
    rw [sgn_pos this, sgn_pos hb]; exact ⟨rfl, by decide⟩

/-- completeness: if the point is strictly on the same side of all edges (all `cross2` have the sign of `ρ`),
    the winding test accepts it -/
theorem winding_complete (vs : List (Rat × Rat)) (p : Rat × Rat) (ρ : Rat) (hne : vs ≠ [])
    (hpos : ∀ e ∈ edges vs, 0 < ρ * cross2 (rel p e.1) (rel p e.2)) :
    windingInside (edges vs) p = true := by
  have hsg : ∀ e ∈ edges vs, edgeSgn p e = sgn ρ ∧ sgn ρ * sgn ρ = 1 := fun e he => by
    have := sgn_of_mul_pos (hpos e he); exact this
  have hnz1 : ∀ e ∈ edges vs, vsign2 (rel p e.1) ≠ 0 := by
    intro e he h0
    rcases vsign2_cases (rel p e.1) with ⟨h, _⟩ | ⟨h, _⟩ | ⟨_, h1, h2⟩
    · rw [h] at h0; exact absurd h0 (by decide)
    · rw [h] at h0; exact absurd h0 (by decide)
    · have := hpos e he
      unfold cross2 at this
      rw [h1, h2] at this
      simp at this
  have hnz2 : ∀ e ∈ edges vs, ¬ ((rel p e.2).1 = 0 ∧ (rel p e.2).2 = 0) := by
    intro e he h0
    have := hpos e he
    unfold cross2 at this
    rw [h0.1, h0.2] at this
    simp at this
  unfold windingInside
  have a1 : ¬ ((edges vs).any (fun e => (decide ((rel p e.1).1 = 0) && decide ((rel p e.1).2 = 0)) ||
      (decide ((rel p e.2).1 = 0) && decide ((rel p e.2).2 = 0))) = true) := by
    intro h
    obtain ⟨e, he, h⟩ := List.any_eq_true.mp h
    simp only [Bool.or_eq_true, Bool.and_eq_true, decide_eq_true_eq] at h
    rcases h with h | h
    · apply hnz1 e he
      unfold vsign2 vsign
      rw [h.1, h.2]; simp [sgn_zero]
    · exact hnz2 e he h
  have a2 : ¬ ((edges vs).any (fun e => active p e && (edgeSgn p e == 0)) = true) := by
    intro h
    obtain ⟨e, he, h⟩ := List.any_eq_true.mp h
    simp only [Bool.and_eq_true, beq_iff_eq] at h
    have := hsg e he
    rw [h.2] at this
    rw [← this.1] at this
    simp at this
  rw [if_neg a1, if_neg a2]
  -- some edge is active
  have hact : ∃ e ∈ edges vs, active p e = true := by
    by_contra hno
    have hin : ∀ e ∈ edges vs, vsign2 (rel p e.1) = vsign2 (rel p e.2) := by
      intro e he
      by_contra hd
      apply hno
      refine ⟨e, he, ?_⟩
      unfold active
      simp only [bne_iff_ne, ne_eq]
      intro h0
      apply hd
      omega
    cases vs with
    | nil => exact hne rfl
    | cons a l =>
      apply no_closed_chain ρ (rel p a) (rel p a) (l.map (rel p)) (Or.inl rfl)
      intro e he
      have : edgesFrom (rel p a) (rel p a :: l.map (rel p)) = (edges (a :: l)).map (fun e => (rel p e.1, rel p e.2)) := by
        have := edges_map (rel p) (a :: l)
        simpa [edges] using this
      rw [this] at he
      obtain ⟨e', he', rfl⟩ := List.mem_map.mp he
      exact ⟨hin e' he', hnz1 e' he', hpos e' he'⟩
  -- the sum of the contributions is sgn ρ times a positive count
  obtain ⟨e0, he0, hact0⟩ := hact
  have hs2 : sgn ρ * sgn ρ = 1 := (hsg e0 he0).2
  have hsum : 1 ≤ sumInt ((edges vs).map (fun e => sgn ρ * contrib p e)) := by
    apply sumInt_ge_one
    · intro x hx
      obtain ⟨e, he, rfl⟩ := List.mem_map.mp hx
      unfold contrib
      split_ifs
      · rw [(hsg e he).1, hs2]; decide
      · simp
    · refine ⟨sgn ρ * contrib p e0, List.mem_map.mpr ⟨e0, he0, rfl⟩, ?_⟩
      unfold contrib
      rw [if_pos hact0, (hsg e0 he0).1, hs2]
  rw [sumInt_map_mul] at hsum
  simp only [bne_iff_ne, ne_eq]
  intro h0
  rw [h0] at hsum
  simp at hsum

/-- two direction vectors of an open half-plane `α x + β y > 0`, one in each half-plane of the vertex-sign rule -/
theorem half_plane_cross {α β : Rat} {u v : Rat × Rat}
    (hu : 0 < u.1 ∨ (u.1 = 0 ∧ 0 < u.2)) (hv : v.1 < 0 ∨ (v.1 = 0 ∧ v.2 < 0))
    (Lu : 0 < α * u.1 + β * u.2) (Lv : 0 < α * v.1 + β * v.2) : 0 < β * cross2 u v := by
  unfold cross2
  rcases hu with hu | ⟨hu1, hu2⟩
  · rcases hv with hv | ⟨hv1, hv2⟩
    · nlinarith [mul_pos hu Lv, mul_pos (neg_pos.mpr hv) Lu]
    · rw [hv1] at Lv ⊢
      nlinarith [mul_pos hu Lv]
  · rcases hv with hv | ⟨hv1, hv2⟩
    · rw [hu1] at Lu ⊢
      nlinarith [mul_pos (neg_pos.mpr hv) Lu]
    · rw [hu1] at Lu; rw [hv1] at Lv
      nlinarith [mul_pos Lu (neg_pos.mpr hv2)]

/-- soundness: if all vertices (relative to the point) lie in an open half-plane, the winding sum vanishes -/
theorem winding_sum_zero (vs : List (Rat × Rat)) (p : Rat × Rat) (α β : Rat)
    (hG : ∀ e ∈ edges vs, 0 < α * (rel p e.1).1 + β * (rel p e.1).2 ∧ 0 < α * (rel p e.2).1 + β * (rel p e.2).2) :
    sumInt ((edges vs).map (contrib p)) = 0 := by
  have per : ∀ e ∈ edges vs, 2 * contrib p e = -(sgn β) * (vsign2 (rel p e.2) - vsign2 (rel p e.1)) := by
    intro e he
    obtain ⟨Lu, Lv⟩ := hG e he
    unfold contrib active
    rcases vsign2_cases (rel p e.1) with ⟨su, hu⟩ | ⟨su, hu⟩ | ⟨_, h1, h2⟩
    · rcases vsign2_cases (rel p e.2) with ⟨sv, hv⟩ | ⟨sv, hv⟩ | ⟨_, h1, h2⟩
      · rw [su, sv]; simp
      · rw [su, sv]
        have hc := sgn_of_mul_pos (half_plane_cross hu hv Lu Lv)
        unfold edgeSgn
        rw [hc.1]; simp; ring
      · rw [h1, h2] at Lv; simp at Lv
    · rcases vsign2_cases (rel p e.2) with ⟨sv, hv⟩ | ⟨sv, hv⟩ | ⟨_, h1, h2⟩
      · rw [su, sv]
        have hpos := half_plane_cross hv hu Lv Lu
        rw [cross2_anti] at hpos
        have hc := sgn_of_mul_pos (b := -β) (c := cross2 (rel p e.1) (rel p e.2)) (by linarith)
        unfold edgeSgn
        rw [hc.1]
        have : sgn (-β) = -sgn β := by
          rcases lt_trichotomy β 0 with hb | hb | hb
          · rw [sgn_neg hb, sgn_pos (by linarith)]; rfl
          · rw [hb]; simp [sgn_zero]
          · rw [sgn_pos hb, sgn_neg (by linarith)]
        rw [this]; simp; ring
      · rw [su, sv]; simp
      · rw [h1, h2] at Lv; simp at Lv
    · rw [h1, h2] at Lu; simp at Lu
  have gen : ∀ es : List ((Rat × Rat) × (Rat × Rat)),
      (∀ e ∈ es, 2 * contrib p e = -(sgn β) * (vsign2 (rel p e.2) - vsign2 (rel p e.1))) →
      2 * sumInt (es.map (contrib p)) = -(sgn β) * sumInt (es.map (fun e => vsign2 (rel p e.2) - vsign2 (rel p e.1))) := by
    intro es
    induction es with
    | nil => intro _; simp [sumInt]
    | cons e es ih =>
      intro h
      have h1 := h e (by simp)
      have h2 := ih (fun x hx => h x (List.mem_cons_of_mem _ hx))
      simp only [List.map_cons, sumInt]
      rw [mul_add, h1, h2]; ring
  have := gen (edges vs) per
  rw [sum_telescope_edges (fun v => vsign2 (rel p v)) vs] at this
  omega

theorem windingInside_sum_ne {es : List ((Rat × Rat) × (Rat × Rat))} {p : Rat × Rat}
    (h : windingInside es p = true) : sumInt (es.map (contrib p)) ≠ 0 := by
  unfold windingInside at h
  split_ifs at h
  simpa using h

/-! ### from the plane to the two kept coordinates -/

theorem absR_nonneg (x : Rat) : 0 ≤ absR x := by unfold absR; split_ifs <;> linarith
theorem absR_eq_zero {x : Rat} (h : absR x ≤ 0) : x = 0 := by
  unfold absR at h; split_ifs at h <;> linarith

/-- for points of a plane with normal `n`, the 2-d cross product of the kept coordinates is a fixed non-zero
    multiple of the 3-d orientation `side3` -/
theorem to2d_bridge (n : Vec) (hn : n.length = 3) (hnn : nsq n ≠ 0) :
    ∃ r : Rat, r ≠ 0 ∧ ∀ q a b : Vec, q.length = 3 → a.length = 3 → b.length = 3 →
      dot (vsub a q) n = 0 → dot (vsub b q) n = 0 →
      cross2 (rel (to2d n q) (to2d n a)) (rel (to2d n q) (to2d n b)) * nsq n = r * side3 n q a b := by
  obtain ⟨n1, n2, n3, rfl⟩ := len3 n hn
  have hN : n1 * n1 + (n2 * n2 + n3 * n3) ≠ 0 := by simpa [nsq] using hnn
  by_cases c1 : absR n2 ≤ absR n1 ∧ absR n3 ≤ absR n1
  · refine ⟨n1, ?_, ?_⟩
    · intro h0
      have a2 : n2 = 0 := absR_eq_zero (by rw [h0] at c1; simpa [absR] using c1.1)
      have a3 : n3 = 0 := absR_eq_zero (by rw [h0] at c1; simpa [absR] using c1.2)
      apply hN; rw [h0, a2, a3]; ring
    · intro q a b hq ha hb pa pb
      obtain ⟨q1, q2, q3, rfl⟩ := len3 q hq
      obtain ⟨a1, a2, a3, rfl⟩ := len3 a ha
      obtain ⟨b1, b2, b3, rfl⟩ := len3 b hb
      simp at pa pb
      simp only [to2d, if_pos c1, rel, cross2, side3, cross3, nsq, vsub_cons, vsub_nil_left, dot_cons, dot_nil_left]
      linear_combination (n2 * (b3 - q3) - n3 * (b2 - q2)) * pa - (n2 * (a3 - q3) - n3 * (a2 - q2)) * pb
  · by_cases c2 : absR n3 ≤ absR n2
    · refine ⟨-n2, ?_, ?_⟩
      · intro h0
        have h2 : n2 = 0 := by linarith
        have a3 : n3 = 0 := absR_eq_zero (by rw [h2] at c2; simpa [absR] using c2)
        apply c1
        rw [h2, a3]
        exact ⟨by simp [absR]; exact absR_nonneg n1, by simp [absR]; exact absR_nonneg n1⟩
      · intro q a b hq ha hb pa pb
        obtain ⟨q1, q2, q3, rfl⟩ := len3 q hq
        obtain ⟨a1, a2, a3, rfl⟩ := len3 a ha
        obtain ⟨b1, b2, b3, rfl⟩ := len3 b hb
        simp at pa pb
        simp only [to2d, if_neg c1, if_pos c2, rel, cross2, side3, cross3, nsq, vsub_cons, vsub_nil_left, dot_cons, dot_nil_left]
        linear_combination (-(n3 * (b1 - q1) - n1 * (b3 - q3))) * pa + (n3 * (a1 - q1) - n1 * (a3 - q3)) * pb
    · refine ⟨n3, ?_, ?_⟩
      · intro h0
        apply c2
        rw [h0]; simp [absR]; exact absR_nonneg n2
      · intro q a b hq ha hb pa pb
        obtain ⟨q1, q2, q3, rfl⟩ := len3 q hq
        obtain ⟨a1, a2, a3, rfl⟩ := len3 a ha
        obtain ⟨b1, b2, b3, rfl⟩ := len3 b hb
        simp at pa pb
        simp only [to2d, if_neg c1, if_neg c2, rel, cross2, side3, cross3, nsq, vsub_cons, vsub_nil_left, dot_cons, dot_nil_left]
        linear_combination (n1 * (b2 - q2) - n2 * (b1 - q1)) * pa - (n1 * (a2 - q2) - n2 * (a1 - q1)) * pb

/-- two points of the plane differ by a vector orthogonal to the normal -/
theorem rel_plane (c n a q : Vec) (ha : a.length = q.length) (hc : c.length = q.length)
    (pa : dot (vsub a c) n = 0) (pq : dot (vsub q c) n = 0) : dot (vsub a q) n = 0 := by
  rw [dot_vsub_left _ _ _ ha]
  rw [dot_vsub_left _ _ _ (by rw [ha, hc])] at pa
  rw [dot_vsub_left _ _ _ hc.symm] at pq
  linarith

theorem convex_nonempty (poly : List Vec) (C : ConvexPoly poly) : poly ≠ [] := by
  intro h
  apply C.nn
  rw [h]
  decide +kernel

theorem inPoly_eq (poly : List Vec) (n x : Vec) :
    inPoly poly n x = windingInside (edges (poly.map (to2d n))) (to2d n x) := by
  unfold inPoly; rw [edges_map]

/-- completeness of the membership test for convex polygons: strictly inside ⇒ accepted -/
theorem inPoly_complete (poly : List Vec) (C : ConvexPoly poly) (q : Vec) (hq : q.length = 3)
    (pq : dot (vsub q (centroid poly)) (normal poly) = 0)
    (hin : ∀ g ∈ edges poly, 0 < side3 (normal poly) g.1 g.2 q) :
    inPoly poly (normal poly) q = true := by
  obtain ⟨r, hr, hbr⟩ := to2d_bridge (normal poly) C.nlen C.nn
  have hnn : 0 < nsq (normal poly) := lt_of_le_of_ne (nsq_nonneg _) (Ne.symm C.nn)
  rw [inPoly_eq]
  apply winding_complete _ _ r
  · intro h
    exact convex_nonempty poly C (List.map_eq_nil_iff.mp h)
  · intro e he
    rw [edges_map] at he
    obtain ⟨g, hg, rfl⟩ := List.mem_map.mp he
    obtain ⟨la, lb⟩ := C.len3 g hg
    have pa := rel_plane _ _ g.1 q (by rw [la, hq]) (by rw [C.clen, hq]) (C.planar g hg).1 pq
    have pb := rel_plane _ _ g.2 q (by rw [lb, hq]) (by rw [C.clen, hq]) (C.planar g hg).2 pq
    have hb := hbr q g.1 g.2 hq la lb pa pb
    have hs : 0 < side3 (normal poly) q g.1 g.2 := by
      rw [← side3_rot _ _ _ _ C.nlen la lb hq]; exact hin g hg
    simp only []
    have h1 : (r * cross2 (rel (to2d (normal poly) q) (to2d (normal poly) g.1))
        (rel (to2d (normal poly) q) (to2d (normal poly) g.2))) * nsq (normal poly)
        = r * r * side3 (normal poly) q g.1 g.2 := by rw [mul_assoc, hb]; ring
    have h2 : 0 < r * r * side3 (normal poly) q g.1 g.2 :=
      mul_pos (mul_self_pos.mpr hr) hs
    by_contra hc
    have := mul_nonpos_of_nonpos_of_nonneg (not_lt.mp hc) hnn.le
    linarith

/-- soundness of the membership test for convex polygons: accepted ⇒ in the closed region -/
theorem inPoly_sound (poly : List Vec) (C : ConvexPoly poly) (q : Vec) (hq : q.length = 3)
    (pq : dot (vsub q (centroid poly)) (normal poly) = 0)
    (hacc : inPoly poly (normal poly) q = true) :
    ∀ g ∈ edges poly, 0 ≤ side3 (normal poly) g.1 g.2 q := by
  intro k hk
  by_contra hneg
  have hneg : side3 (normal poly) k.1 k.2 q < 0 := not_le.mp hneg
  obtain ⟨r, hr, hbr⟩ := to2d_bridge (normal poly) C.nlen C.nn
  have hnn : 0 < nsq (normal poly) := lt_of_le_of_ne (nsq_nonneg _) (Ne.symm C.nn)
  obtain ⟨lka, lkb⟩ := C.len3 k hk
  rw [inPoly_eq] at hacc
  apply windingInside_sum_ne hacc
  -- direction of the separating edge in the kept coordinates
  have pkb := rel_plane _ _ k.2 k.1 (by rw [lkb, lka]) (by rw [C.clen, lka]) (C.planar k hk).2 (C.planar k hk).1
  have pkq := rel_plane _ _ q k.1 (by rw [hq, lka]) (by rw [C.clen, lka]) pq (C.planar k hk).1
  have hq2 := hbr k.1 k.2 q lka lkb hq pkb pkq
  -- every vertex is strictly on the positive side of the parallel line through q
  have vert : ∀ v : Vec, v.length = 3 → dot (vsub v (centroid poly)) (normal poly) = 0 →
      0 ≤ side3 (normal poly) k.1 k.2 v →
      0 < (-(r * (rel (to2d (normal poly) k.1) (to2d (normal poly) k.2)).2)) * (rel (to2d (normal poly) q) (to2d (normal poly) v)).1
        + (r * (rel (to2d (normal poly) k.1) (to2d (normal poly) k.2)).1) * (rel (to2d (normal poly) q) (to2d (normal poly) v)).2 := by
    intro v lv pv sv
    have pkv := rel_plane _ _ v k.1 (by rw [lv, lka]) (by rw [C.clen, lka]) pv (C.planar k hk).1
    have hv2 := hbr k.1 k.2 v lka lkb lv pkb pkv
    have key : ((-(r * (rel (to2d (normal poly) k.1) (to2d (normal poly) k.2)).2)) * (rel (to2d (normal poly) q) (to2d (normal poly) v)).1
        + (r * (rel (to2d (normal poly) k.1) (to2d (normal poly) k.2)).1) * (rel (to2d (normal poly) q) (to2d (normal poly) v)).2) * nsq (normal poly)
        = r * r * (side3 (normal poly) k.1 k.2 v - side3 (normal poly) k.1 k.2 q) := by
      have e : (-(r * (rel (to2d (normal poly) k.1) (to2d (normal poly) k.2)).2)) * (rel (to2d (normal poly) q) (to2d (normal poly) v)).1
          + (r * (rel (to2d (normal poly) k.1) (to2d (normal poly) k.2)).1) * (rel (to2d (normal poly) q) (to2d (normal poly) v)).2
          = r * (cross2 (rel (to2d (normal poly) k.1) (to2d (normal poly) k.2)) (rel (to2d (normal poly) k.1) (to2d (normal poly) v))
            - cross2 (rel (to2d (normal poly) k.1) (to2d (normal poly) k.2)) (rel (to2d (normal poly) k.1) (to2d (normal poly) q))) := by
        unfold cross2 rel; ring
      rw [e, mul_assoc, sub_mul, hv2, hq2]; ring
    have hpos : 0 < r * r * (side3 (normal poly) k.1 k.2 v - side3 (normal poly) k.1 k.2 q) :=
      mul_pos (mul_self_pos.mpr hr) (by linarith)
    by_contra hc
    have := mul_nonpos_of_nonpos_of_nonneg (not_lt.mp hc) hnn.le
    linarith
  apply winding_sum_zero _ _ (-(r * (rel (to2d (normal poly) k.1) (to2d (normal poly) k.2)).2))
    (r * (rel (to2d (normal poly) k.1) (to2d (normal poly) k.2)).1)
  intro e he
  rw [edges_map] at he
  obtain ⟨g, hg, rfl⟩ := List.mem_map.mp he
  obtain ⟨_, _, gn, hgn, _, e2, _, _⟩ := C.corners g hg
  refine ⟨vert g.1 (C.len3 g hg).1 (C.planar g hg).1 (C.vertsIn g hg k hk), ?_⟩
  have := vert gn.1 (C.len3 gn hgn).1 (C.planar gn hgn).1 (C.vertsIn gn hgn k hk)
  rw [e2] at this
  exact this

/-- the vertices and hence all points of the edges belong to the region -/
theorem edge_in_region (poly : List Vec) (C : ConvexPoly poly) (g : Vec × Vec) (hg : g ∈ edges poly)
    (t : Rat) (t0 : 0 ≤ t) (t1 : t ≤ 1) : InRegion poly (along g.1 g.2 t) := by
  obtain ⟨la, lb⟩ := C.len3 g hg
  obtain ⟨_, _, gn, hgn, _, e2, _, _⟩ := C.corners g hg
  refine ⟨by rw [length_along _ _ _ (by rw [la, lb]), la], ?_, ?_⟩
  · exact along_in_plane _ _ _ _ t (by rw [la, lb]) (by rw [C.clen, la]) (C.planar g hg).1 (C.planar g hg).2
  · intro h hh
    rw [side3_along _ _ _ _ _ t C.nlen (C.len3 h hh).1 (C.len3 h hh).2 la lb]
    have s1 := C.vertsIn g hg h hh
    have s2 := C.vertsIn gn hgn h hh
    rw [e2] at s2
    nlinarith [mul_nonneg (sub_nonneg.mpr t1) s1, mul_nonneg t0 s2]

/-! ### segment – convex polygon -/

theorem projPlane_along (c n a b : Vec) (t : Rat) (hc : c.length = 3) (hn : n.length = 3) (ha : a.length = 3)
    (hb : b.length = 3) (hnn : nsq n ≠ 0) :
    projPlane c n (along a b t) = along (projPlane c n a) (projPlane c n b) t := by
  obtain ⟨n1, n2, n3, rfl⟩ := len3 n hn
  obtain ⟨c1, c2, c3, rfl⟩ := len3 c hc
  obtain ⟨a1, a2, a3, rfl⟩ := len3 a ha
  obtain ⟨b1, b2, b3, rfl⟩ := len3 b hb
  have hN : n1 * n1 + (n2 * n2 + n3 * n3) ≠ 0 := by simpa [nsq] using hnn
  simp only [projPlane, along, nsq, vsub_cons, vsub_nil_left, smul_cons, smul_nil, vadd_cons, vadd_nil_left,
    dot_cons, dot_nil_left, add_zero]
  refine List.cons_eq_cons.mpr ⟨?_, List.cons_eq_cons.mpr ⟨?_, List.cons_eq_cons.mpr ⟨?_, rfl⟩⟩⟩ <;>
    (field_simp; ring)

theorem along_along (s e : Vec) (a b l : Rat) (h : s.length = e.length) :
    along (along s e a) (along s e b) l = along s e (a + l * (b - a)) := by
  unfold along
  induction s generalizing e with
  | nil => simp
  | cons x xs ih => cases e with
    | nil => simp at h
    | cons y ys =>
      simp at h
      simp only [vsub_cons, smul_cons, vadd_cons]
      rw [ih ys h]
      congr 1
      ring

theorem projPlane_fix (c n x : Vec) (hn : n.length = x.length) (h : dot (vsub x c) n = 0) : projPlane c n x = x := by
  unfold projPlane
  rw [h]
  simp only [zero_div]
  clear h
  induction x generalizing n with
  | nil => simp
  | cons a as ih => cases n with
    | nil => simp at hn
    | cons m ms => simp at hn; simp [ih ms hn]

theorem sq_interp {h0 hm l : Rat} (hle : h0 * h0 ≤ hm * hm) (l0 : 0 ≤ l) (l1 : l ≤ 1) :
    ((1 - l) * h0 + l * hm) * ((1 - l) * h0 + l * hm) ≤ hm * hm := by
  have e : hm * hm - ((1 - l) * h0 + l * hm) * ((1 - l) * h0 + l * hm)
      = (1 - l) * (1 - l) * (hm * hm - h0 * h0) + 2 * l * (1 - l) * (hm * hm - h0 * hm) := by ring
  have h2 : 0 ≤ hm * hm - h0 * hm := by nlinarith [mul_self_nonneg (hm - h0)]
  have : 0 ≤ (1 - l) * (1 - l) * (hm * hm - h0 * h0) + 2 * l * (1 - l) * (hm * hm - h0 * hm) :=
    add_nonneg (mul_nonneg (mul_self_nonneg _) (by linarith))
      (mul_nonneg (mul_nonneg (by linarith) (by linarith)) h2)
  linarith

/-- spec of the general branch -/
theorem segPolyGeneral_spec (tolS : Rat) (s e : Vec) (poly : List Vec) :
    (segPolyGeneral tolS s e poly).d2 ≤ (ptPoly s poly).d2 ∧ (segPolyGeneral tolS s e poly).d2 ≤ (ptPoly e poly).d2 ∧
    (∀ g ∈ edges poly, (segPolyGeneral tolS s e poly).d2 ≤ (segSeg tolS s e g.1 g.2).d2) ∧
    ((segPolyGeneral tolS s e poly).d2 = (ptPoly s poly).d2 ∨ (segPolyGeneral tolS s e poly).d2 = (ptPoly e poly).d2 ∨
      ∃ g ∈ edges poly, (segPolyGeneral tolS s e poly).d2 = (segSeg tolS s e g.1 g.2).d2) := by
  unfold segPolyGeneral
  simp only []
  cases hm : minSegSeg tolS s e (edges poly) with
  | none =>
    have he : edges poly = [] := by
      cases hE : edges poly with
      | nil => rfl
      | cons g gs =>
        rw [hE] at hm
        unfold minSegSeg at hm
        simp only [] at hm
        cases h' : minSegSeg tolS s e gs <;> rw [h'] at hm <;> simp at hm
        split at hm <;> simp at hm
    simp only []
    rw [he]
    split_ifs with hlt
    · exact ⟨hlt.le, le_refl _, fun g hg => by simp at hg, Or.inr (Or.inl rfl)⟩
    · exact ⟨le_refl _, not_lt.mp hlt, fun g hg => by simp at hg, Or.inl rfl⟩
  | some o =>
    obtain ⟨m1, g, hg, m2⟩ := minSegSeg_spec _ _ _ _ _ hm
    simp only []
    split_ifs with hlt h2 h2
    · exact ⟨by simp only [] at h2 ⊢; linarith, by simp only [] at h2 ⊢; exact h2.le, fun g' hg' => m1 g' hg',
        Or.inr (Or.inr ⟨g, hg, by rw [m2]⟩)⟩
    · exact ⟨hlt.le, le_refl _, fun g' hg' => le_trans (not_lt.mp h2) (m1 g' hg'), Or.inr (Or.inl rfl)⟩
    · exact ⟨by simp only [] at h2 ⊢; exact h2.le, by simp only [] at h2 ⊢; linarith [not_lt.mp hlt],
        fun g' hg' => m1 g' hg', Or.inr (Or.inr ⟨g, hg, by rw [m2]⟩)⟩
    · exact ⟨le_refl _, not_lt.mp hlt, fun g' hg' => le_trans (not_lt.mp h2) (m1 g' hg'), Or.inl rfl⟩

theorem segPoly_cases (tolP tolS : Rat) (s e : Vec) (poly : List Vec) :
    (segPoly tolP tolS s e poly).d2 = 0 ∨
      (crossPoint tolP s e poly = none ∧ segPoly tolP tolS s e poly = segPolyGeneral tolS s e poly) := by
  cases hx : crossPoint tolP s e poly with
  | some x0 => left; rw [segPoly_some tolP tolS s e poly x0 hx]
  | none =>
    unfold segPoly
    rw [hx]
    simp only []
    split_ifs
    · exact Or.inl rfl
    · exact Or.inl rfl
    · exact Or.inr ⟨trivial, rfl⟩

theorem ptPoly_inside_d2 (p : Vec) (poly : List Vec) (hin : (ptPoly p poly).inside = true) :
    (ptPoly p poly).d2 = dot (vsub p (centroid poly)) (normal poly) * dot (vsub p (centroid poly)) (normal poly) / nsq (normal poly) := by
  have hI : inPoly poly (normal poly) (projPlane (centroid poly) (normal poly) p) = true := by
    by_contra hI
    unfold ptPoly at hin
    simp only [] at hin
    rw [if_neg hI] at hin
    split at hin <;> simp at hin
  unfold ptPoly
  simp only []
  rw [if_pos hI]

theorem ptPoly_outside_test (p : Vec) (poly : List Vec) (hout : (ptPoly p poly).inside = false) :
    inPoly poly (normal poly) (projPlane (centroid poly) (normal poly) p) = false := by
  by_contra hI
  have hI : inPoly poly (normal poly) (projPlane (centroid poly) (normal poly) p) = true := by
    cases h : inPoly poly (normal poly) (projPlane (centroid poly) (normal poly) p) with
    | true => rfl
    | false => exact absurd h hI
  unfold ptPoly at hout
  simp only [] at hout
  rw [if_pos hI] at hout
  simp at hout

/-- from a parameter `ν0` whose projected point is not strictly inside the polygon towards a parameter `μ` whose
    projection is in the polygon one meets a point over the boundary; its height bounds a segment–edge distance -/
theorem seg_poly_key (poly : List Vec) (C : ConvexPoly poly) (tolS : Rat) (htol : 0 < tolS) (s e : Vec)
    (hs : s.length = 3) (he : e.length = 3)
    (hss : ∀ g ∈ edges poly, (segSeg tolS s e g.1 g.2).exact = true)
    (v0 mu : Rat) (v00 : 0 ≤ v0) (v01 : v0 ≤ 1) (mu0 : 0 ≤ mu) (mu1 : mu ≤ 1)
    (hout : ∃ g ∈ edges poly, side3 (normal poly) g.1 g.2 (projPlane (centroid poly) (normal poly) (along s e v0)) ≤ 0)
    (hin : InRegion poly (projPlane (centroid poly) (normal poly) (along s e mu)))
    (hle : dot (vsub (along s e v0) (centroid poly)) (normal poly) * dot (vsub (along s e v0) (centroid poly)) (normal poly)
      ≤ dot (vsub (along s e mu) (centroid poly)) (normal poly) * dot (vsub (along s e mu) (centroid poly)) (normal poly)) :
    ∃ g ∈ edges poly, (segSeg tolS s e g.1 g.2).d2 ≤
      dot (vsub (along s e mu) (centroid poly)) (normal poly) * dot (vsub (along s e mu) (centroid poly)) (normal poly) / nsq (normal poly) := by
  have hnn : 0 < nsq (normal poly) := lt_of_le_of_ne (nsq_nonneg _) (Ne.symm C.nn)
  have hse : s.length = e.length := by rw [hs, he]
  have lP : ∀ v : Rat, (along s e v).length = 3 := fun v => by rw [length_along _ _ _ hse, hs]
  have lQ : ∀ v : Rat, (projPlane (centroid poly) (normal poly) (along s e v)).length = 3 := fun v => by
    rw [length_projPlane _ _ _ (by rw [C.nlen, lP v]), lP v]
  have pQ : ∀ v : Rat, dot (vsub (projPlane (centroid poly) (normal poly) (along s e v)) (centroid poly)) (normal poly) = 0 :=
    fun v => projPlane_in_plane _ _ _ (by rw [C.clen, lP v]) (by rw [C.nlen, lP v]) C.nn
  obtain ⟨g, hg, t, l, t0, t1, l0, l1, e1⟩ := convex_entry poly C _ _ (lQ v0) (pQ v0) hin hout
  refine ⟨g, hg, ?_⟩
  obtain ⟨la, lb⟩ := C.len3 g hg
  -- the boundary point is the projection of the point with parameter v = v0 + l (mu - v0)
  have e2 : along (projPlane (centroid poly) (normal poly) (along s e v0)) (projPlane (centroid poly) (normal poly) (along s e mu)) l
      = projPlane (centroid poly) (normal poly) (along s e (v0 + l * (mu - v0))) := by
    rw [← projPlane_along _ _ _ _ l C.clen C.nlen (lP v0) (lP mu) C.nn, along_along _ _ _ _ _ hse]
  have v0' : 0 ≤ v0 + l * (mu - v0) := by nlinarith [mul_nonneg l0 mu0, mul_nonneg (sub_nonneg.mpr l1) v00]
  have v1' : v0 + l * (mu - v0) ≤ 1 := by nlinarith [mul_nonneg l0 (sub_nonneg.mpr mu1), mul_nonneg (sub_nonneg.mpr l1) (sub_nonneg.mpr v01)]
  have hmin := segSeg_min tolS htol s e g.1 g.2 hse (by rw [hs, la]) (by rw [la, lb]) (hss g hg)
    (v0 + l * (mu - v0)) t v0' v1' t0 t1
  rw [← e1, e2, nsq_to_projPlane _ _ _ (by rw [C.nlen, lP]) C.nn] at hmin
  refine le_trans hmin ?_
  rw [div_le_div_iff_of_pos_right hnn]
  -- heights are affine in the parameter
  rw [along_height _ _ _ _ _ hse (by rw [C.clen, hs])] at hle ⊢
  rw [along_height _ _ _ _ mu hse (by rw [C.clen, hs])] at hle ⊢
  generalize dot (vsub s (centroid poly)) (normal poly) = a at hle ⊢
  generalize dot (vsub e (centroid poly)) (normal poly) = b at hle ⊢
  have := sq_interp (h0 := a + v0 * (b - a)) (hm := a + mu * (b - a)) (l := l) hle l0 l1
  have e3 : a + (v0 + l * (mu - v0)) * (b - a) = (1 - l) * (a + v0 * (b - a)) + l * (a + mu * (b - a)) := by ring
  rw [e3]
  exact this

/-- an accepted/rejected projection is not strictly inside unless the test says so (contrapositive of completeness) -/
theorem not_strictly_inside (poly : List Vec) (C : ConvexPoly poly) (q : Vec) (hq : q.length = 3)
    (pq : dot (vsub q (centroid poly)) (normal poly) = 0) (h : inPoly poly (normal poly) q = false) :
    ∃ g ∈ edges poly, side3 (normal poly) g.1 g.2 q ≤ 0 := by
  by_contra hno
  have := inPoly_complete poly C q hq pq (fun g hg => by
    by_contra hle
    exact hno ⟨g, hg, not_lt.mp hle⟩)
  rw [this] at h
  exact absurd h (by decide)

/-- an end point of the segment as reference parameter -/
theorem seg_poly_endpoint (poly : List Vec) (C : ConvexPoly poly) (tolS : Rat) (htol : 0 < tolS) (s e : Vec)
    (hs : s.length = 3) (he : e.length = 3)
    (hss : ∀ g ∈ edges poly, (segSeg tolS s e g.1 g.2).exact = true)
    (v0 mu : Rat) (hv : v0 = 0 ∨ v0 = 1) (mu0 : 0 ≤ mu) (mu1 : mu ≤ 1)
    (hin : InRegion poly (projPlane (centroid poly) (normal poly) (along s e mu)))
    (hle : dot (vsub (along s e v0) (centroid poly)) (normal poly) * dot (vsub (along s e v0) (centroid poly)) (normal poly)
      ≤ dot (vsub (along s e mu) (centroid poly)) (normal poly) * dot (vsub (along s e mu) (centroid poly)) (normal poly)) :
    (segPolyGeneral tolS s e poly).d2 ≤
      dot (vsub (along s e mu) (centroid poly)) (normal poly) * dot (vsub (along s e mu) (centroid poly)) (normal poly) / nsq (normal poly) := by
  have hnn : 0 < nsq (normal poly) := lt_of_le_of_ne (nsq_nonneg _) (Ne.symm C.nn)
  have hse : s.length = e.length := by rw [hs, he]
  obtain ⟨g1, g2, g3, _⟩ := segPolyGeneral_spec tolS s e poly
  have lw : (along s e v0).length = 3 := by rw [length_along _ _ _ hse, hs]
  have hw : (segPolyGeneral tolS s e poly).d2 ≤ (ptPoly (along s e v0) poly).d2 := by
    rcases hv with h | h
    · rw [h, along_zero _ _ hse]; exact g1
    · rw [h, along_one _ _ hse]; exact g2
  cases hI : (ptPoly (along s e v0) poly).inside with
  | true =>
    refine le_trans hw ?_
    rw [ptPoly_inside_d2 _ _ hI, div_le_div_iff_of_pos_right hnn]
    exact hle
  | false =>
    have ht := ptPoly_outside_test _ _ hI
    have hout := not_strictly_inside poly C _ (by rw [length_projPlane _ _ _ (by rw [C.nlen, lw]), lw])
      (projPlane_in_plane _ _ _ (by rw [C.clen, lw]) (by rw [C.nlen, lw]) C.nn) ht
    have v00 : 0 ≤ v0 := by rcases hv with h | h <;> rw [h] <;> norm_num
    have v01 : v0 ≤ 1 := by rcases hv with h | h <;> rw [h] <;> norm_num
    obtain ⟨g, hg, hk⟩ := seg_poly_key poly C tolS htol s e hs he hss v0 mu v00 v01 mu0 mu1 hout hin hle
    exact le_trans (g3 g hg) hk

/-- `segments_polygon` on a convex planar polygon returns the true distance (lower-bound part): no pair of a point of
    the segment and a point of the polygon is closer than the returned distance.  Hypotheses: the segment–segment
    kernel is in its exact regime for every boundary segment, and the incline of the segment over the plane is
    either exactly zero or above the tolerance `tolP` (no incline inside the tolerance band). -/
theorem segPoly_min_convex (poly : List Vec) (C : ConvexPoly poly) (tolP tolS : Rat) (htol : 0 < tolS) (s e : Vec)
    (hs : s.length = 3) (he : e.length = 3)
    (hss : ∀ g ∈ edges poly, (segSeg tolS s e g.1 g.2).exact = true)
    (hinc : dot (vsub e (centroid poly)) (normal poly) - dot (vsub s (centroid poly)) (normal poly) = 0 ∨
      tolP * tolP * nsq (normal poly) <
        (dot (vsub e (centroid poly)) (normal poly) - dot (vsub s (centroid poly)) (normal poly)) *
        (dot (vsub e (centroid poly)) (normal poly) - dot (vsub s (centroid poly)) (normal poly)))
    (mu : Rat) (mu0 : 0 ≤ mu) (mu1 : mu ≤ 1) (x : Vec) (hx : InRegion poly x) :
    (segPoly tolP tolS s e poly).d2 ≤ nsq (vsub (along s e mu) x) := by
  rcases segPoly_cases tolP tolS s e poly with h0 | ⟨hcp, hgen⟩
  · rw [h0]; exact nsq_nonneg _
  rw [hgen]
  have hnn : 0 < nsq (normal poly) := lt_of_le_of_ne (nsq_nonneg _) (Ne.symm C.nn)
  have hse : s.length = e.length := by rw [hs, he]
  obtain ⟨_, _, g3, _⟩ := segPolyGeneral_spec tolS s e poly
  have lz : (along s e mu).length = 3 := by rw [length_along _ _ _ hse, hs]
  have hcl : (centroid poly).length = (along s e mu).length := by rw [C.clen, lz]
  have hnl : (normal poly).length = (along s e mu).length := by rw [C.nlen, lz]
  have lQ : (projPlane (centroid poly) (normal poly) (along s e mu)).length = 3 := by rw [length_projPlane _ _ _ hnl, lz]
  have pQ := projPlane_in_plane (centroid poly) (normal poly) (along s e mu) hcl hnl C.nn
  by_cases hA : ∃ g ∈ edges poly, side3 (normal poly) g.1 g.2 (projPlane (centroid poly) (normal poly) (along s e mu)) ≤ 0
  · -- the nearest polygon point is on the boundary
    obtain ⟨g, hg, t, t0, t1, hle⟩ := convex_outside_bound poly C _ lz hA x hx
    obtain ⟨la, lb⟩ := C.len3 g hg
    exact le_trans (g3 g hg) (le_trans
      (segSeg_min tolS htol s e g.1 g.2 hse (by rw [hs, la]) (by rw [la, lb]) (hss g hg) mu t mu0 mu1 t0 t1) hle)
  · -- the projection is strictly inside: the distance is at least the height over the plane
    have hinR : InRegion poly (projPlane (centroid poly) (normal poly) (along s e mu)) :=
      ⟨lQ, pQ, fun g hg => by
        by_contra h
        exact hA ⟨g, hg, le_of_lt (not_le.mp h)⟩⟩
    have hpy := pythagoras_plane (centroid poly) (normal poly) (along s e mu) x hcl hnl (by rw [hx.1, lz]) C.nn hx.2.1
    have hd : dot (vsub (along s e mu) (centroid poly)) (normal poly) * dot (vsub (along s e mu) (centroid poly)) (normal poly)
        / nsq (normal poly) ≤ nsq (vsub (along s e mu) x) := by
      rw [hpy, nsq_to_projPlane _ _ _ hnl C.nn]
      linarith [nsq_nonneg (vsub (projPlane (centroid poly) (normal poly) (along s e mu)) x)]
    refine le_trans ?_ hd
    have hH : ∀ v : Rat, dot (vsub (along s e v) (centroid poly)) (normal poly)
        = dot (vsub s (centroid poly)) (normal poly) + v * (dot (vsub e (centroid poly)) (normal poly) - dot (vsub s (centroid poly)) (normal poly)) :=
      fun v => along_height _ _ _ _ v hse (by rw [C.clen, hs])
    rcases hinc with hdz | hnz
    · -- constant height: start point as reference
      apply seg_poly_endpoint poly C tolS htol s e hs he hss 0 mu (Or.inl rfl) mu0 mu1 hinR
      rw [hH 0, hH mu, hdz]; simp
    · have hdz : dot (vsub e (centroid poly)) (normal poly) - dot (vsub s (centroid poly)) (normal poly) ≠ 0 := by
        intro h0
        rw [h0] at hnz
        have : 0 ≤ tolP * tolP * nsq (normal poly) := mul_nonneg (mul_self_nonneg _) hnn.le
        simp at hnz
        linarith
      generalize hb : dot (vsub e (centroid poly)) (normal poly) = b at hnz hdz hH
      generalize ha : dot (vsub s (centroid poly)) (normal poly) = a at hnz hdz hH
      have hsq : 0 < (b - a) * (b - a) := mul_self_pos.mpr hdz
      have ht : -a / (b - a) * ((b - a) * (b - a)) = -a * (b - a) := by field_simp
      by_cases hr : 0 ≤ -a / (b - a) ∧ -a / (b - a) ≤ 1
      · -- the carrier line meets the plane inside the segment, at a point rejected by the membership test
        have hparam : crossParam tolP (nsq (normal poly)) a b = some (-a / (b - a)) := by
          unfold crossParam
          rw [if_pos hnz, if_pos hr]
        have hrej : inPoly poly (normal poly) (projPlane (centroid poly) (normal poly) (along s e (-a / (b - a)))) = false := by
          unfold crossPoint at hcp
          simp only [] at hcp
          rw [ha, hb, hparam] at hcp
          simp only [] at hcp
          split_ifs at hcp with h
          simpa using h
        have lw : (along s e (-a / (b - a))).length = 3 := by rw [length_along _ _ _ hse, hs]
        have hout := not_strictly_inside poly C _ (by rw [length_projPlane _ _ _ (by rw [C.nlen, lw]), lw])
          (projPlane_in_plane _ _ _ (by rw [C.clen, lw]) (by rw [C.nlen, lw]) C.nn) hrej
        have hzero : dot (vsub (along s e (-a / (b - a))) (centroid poly)) (normal poly) = 0 := by
          rw [hH]; field_simp; ring
        obtain ⟨g, hg, hk⟩ := seg_poly_key poly C tolS htol s e hs he hss (-a / (b - a)) mu hr.1 hr.2 mu0 mu1 hout hinR
          (by rw [hzero]; simp; exact mul_self_nonneg _)
        exact le_trans (g3 g hg) hk
      · by_cases hr0 : 0 ≤ -a / (b - a)
        · -- beyond the end point
          have hr1 : 1 < -a / (b - a) := by
            by_contra h
            exact hr ⟨hr0, not_lt.mp h⟩
          have hbd : b * (b - a) < 0 := by nlinarith
          apply seg_poly_endpoint poly C tolS htol s e hs he hss 1 mu (Or.inr rfl) mu0 mu1 hinR
          rw [hH 1, hH mu]
          nlinarith [mul_nonneg (sub_nonneg.mpr mu1) (mul_nonneg (sub_nonneg.mpr mu1) hsq.le),
            mul_nonneg (sub_nonneg.mpr mu1) (neg_nonneg.mpr hbd.le)]
        · -- before the start point
          have had : 0 < a * (b - a) := by nlinarith [not_le.mp hr0]
          apply seg_poly_endpoint poly C tolS htol s e hs he hss 0 mu (Or.inl rfl) mu0 mu1 hinR
          rw [hH 0, hH mu]
          nlinarith [mul_nonneg mu0 (mul_nonneg mu0 hsq.le), mul_nonneg mu0 had.le]

/-! ### 1-norm and `pointset` -/

theorem absR_neg (x : Rat) : absR (-x) = absR x := by
  unfold absR; split_ifs <;> linarith

theorem norm1_nonneg (v : Vec) : 0 ≤ norm1 v := by
  induction v with
  | nil => simp [norm1]
  | cons x xs ih => simp only [norm1]; linarith [absR_nonneg x]

theorem ptPt1_symm (p q : Vec) : ptPt1 p q = ptPt1 q p := by
  unfold ptPt1
  induction p generalizing q with
  | nil => simp [norm1]
  | cons x xs ih => cases q with
    | nil => simp [norm1]
    | cons y ys =>
      simp only [vsub_cons, norm1, ih ys]
      rw [← absR_neg (x - y)]; congr 2; ring

theorem ptPt1_zero (p q : Vec) (h : p.length = q.length) : ptPt1 p q = 0 ↔ p = q := by
  unfold ptPt1
  induction p generalizing q with
  | nil => cases q with
    | nil => simp [norm1]
    | cons y ys => simp at h
  | cons x xs ih => cases q with
    | nil => simp at h
    | cons y ys =>
      simp at h
      simp only [vsub_cons, norm1]
      constructor
      · intro h0
        have h1 := absR_nonneg (x - y)
        have h2 := norm1_nonneg (vsub xs ys)
        have hx : x - y = 0 := absR_eq_zero (by linarith)
        have := (ih ys h).mp (by linarith)
        rw [this]
        have : x = y := by linarith
        rw [this]
      · intro he
        injection he with h1 h2
        rw [h1, (ih ys h).mpr h2]
        simp [absR]

theorem maxList_nonneg (l : List Rat) : 0 ≤ maxList l := by
  induction l with
  | nil => simp [maxList]
  | cons x xs ih => simp only [maxList]; split_ifs <;> linarith

theorem le_maxList (l : List Rat) (x : Rat) (hx : x ∈ l) : x ≤ maxList l := by
  induction l with
  | nil => simp at hx
  | cons y ys ih =>
    simp only [maxList]
    rcases List.mem_cons.mp hx with rfl | h
    · split_ifs <;> linarith
    · have := ih h
      split_ifs <;> linarith

theorem maxList_mem (l : List Rat) (h : l ≠ []) (hpos : ∀ x ∈ l, 0 ≤ x) : maxList l ∈ l := by
  induction l with
  | nil => exact absurd rfl h
  | cons y ys ih =>
    simp only [maxList]
    split_ifs with hlt
    · simp
    · cases ys with
      | nil =>
        simp only [maxList] at hlt ⊢
        have := hpos y (by simp)
        have : y = 0 := by linarith
        simp [this]
      | cons z zs =>
        exact List.mem_cons_of_mem _ (ih (by simp) (fun x hx => hpos x (List.mem_cons_of_mem _ hx)))

/-! ### where the returned point of `segPoly` lies -/

theorem crossPoint_some (tolP : Rat) (s e : Vec) (poly : List Vec) (x0 : Vec) (hse : s.length = e.length)
    (hc : (centroid poly).length = s.length) (hx : crossPoint tolP s e poly = some x0) :
    ∃ t : Rat, 0 ≤ t ∧ t ≤ 1 ∧ x0 = along s e t ∧ dot (vsub x0 (centroid poly)) (normal poly) = 0 ∧
      inPoly poly (normal poly) (projPlane (centroid poly) (normal poly) x0) = true := by
  unfold crossPoint at hx
  simp only [] at hx
  cases hp : crossParam tolP (nsq (normal poly)) (dot (vsub s (centroid poly)) (normal poly))
      (dot (vsub e (centroid poly)) (normal poly)) with
  | none => rw [hp] at hx; simp at hx
  | some t =>
    rw [hp] at hx
    simp only [] at hx
    split_ifs at hx with hacc
    simp only [Option.some.injEq] at hx
    unfold crossParam at hp
    split_ifs at hp with hnz hr
    simp only [Option.some.injEq] at hp
    refine ⟨t, by rw [← hp]; exact hr.1, by rw [← hp]; exact hr.2, hx.symm, ?_, by rw [← hx]; exact hacc⟩
    rw [← hx, along_height _ _ _ _ _ hse hc, ← hp]
    have hdz : dot (vsub e (centroid poly)) (normal poly) - dot (vsub s (centroid poly)) (normal poly) ≠ 0 := by
      intro h0
      rw [h0] at hnz
      have : 0 ≤ tolP * tolP * nsq (normal poly) := mul_nonneg (mul_self_nonneg _) (nsq_nonneg _)
      simp at hnz
      linarith
    field_simp
    ring

theorem segPolyGeneral_cp (tolS : Rat) (s e : Vec) (poly : List Vec) :
    ((segPolyGeneral tolS s e poly).cp = (ptPoly s poly).cp ∧ (segPolyGeneral tolS s e poly).d2 = (ptPoly s poly).d2) ∨
    ((segPolyGeneral tolS s e poly).cp = (ptPoly e poly).cp ∧ (segPolyGeneral tolS s e poly).d2 = (ptPoly e poly).d2) ∨
    ∃ g ∈ edges poly, (segPolyGeneral tolS s e poly).cp = (segSeg tolS s e g.1 g.2).cp1 ∧
      (segPolyGeneral tolS s e poly).d2 = (segSeg tolS s e g.1 g.2).d2 := by
  unfold segPolyGeneral
  simp only []
  cases hm : minSegSeg tolS s e (edges poly) with
  | none =>
    simp only []
    split_ifs
    · exact Or.inr (Or.inl ⟨rfl, rfl⟩)
    · exact Or.inl ⟨rfl, rfl⟩
  | some o =>
    obtain ⟨_, g, hg, m2⟩ := minSegSeg_spec _ _ _ _ _ hm
    simp only []
    split_ifs
    · exact Or.inr (Or.inr ⟨g, hg, by rw [m2], by rw [m2]⟩)
    · exact Or.inr (Or.inl ⟨rfl, rfl⟩)
    · exact Or.inr (Or.inr ⟨g, hg, by rw [m2], by rw [m2]⟩)
    · exact Or.inl ⟨rfl, rfl⟩

/-- explicit form of the in-plane branch -/
theorem segPoly_branch1 (tolP tolS : Rat) (s e : Vec) (poly : List Vec) (hb : (segPoly tolP tolS s e poly).branch = 1) :
    dot (vsub s (centroid poly)) (normal poly) * dot (vsub s (centroid poly)) (normal poly) < tolP * tolP * nsq (normal poly) ∧
    ¬ (tolP * tolP * nsq (normal poly) <
      (dot (vsub e (centroid poly)) (normal poly) - dot (vsub s (centroid poly)) (normal poly)) *
      (dot (vsub e (centroid poly)) (normal poly) - dot (vsub s (centroid poly)) (normal poly))) ∧
    ((inPoly poly (normal poly) (projPlane (centroid poly) (normal poly) s) = true ∧
        (segPoly tolP tolS s e poly).cp = projPlane (centroid poly) (normal poly) s) ∨
     (inPoly poly (normal poly) (projPlane (centroid poly) (normal poly) e) = true ∧
        (segPoly tolP tolS s e poly).cp = projPlane (centroid poly) (normal poly) e)) ∧
    (segPoly tolP tolS s e poly).d2 = 0 := by
  cases hx : crossPoint tolP s e poly with
  | some x0 => rw [segPoly_some tolP tolS s e poly x0 hx] at hb; simp at hb
  | none =>
    unfold segPoly at hb ⊢
    rw [hx] at hb ⊢
    simp only [] at hb ⊢
    split_ifs at hb ⊢ with hcond hst
    · simp only [Bool.and_eq_true, Bool.or_eq_true, decide_eq_true_eq, Bool.not_eq_true', decide_eq_false_iff_not] at hcond
      exact ⟨hcond.1.1, hcond.1.2, Or.inl ⟨hst, rfl⟩, rfl⟩
    · simp only [Bool.and_eq_true, Bool.or_eq_true, decide_eq_true_eq, Bool.not_eq_true', decide_eq_false_iff_not] at hcond
      rcases hcond.2 with h3 | h3
      · exact absurd h3 hst
      · exact ⟨hcond.1.1, hcond.1.2, Or.inr ⟨h3, rfl⟩, rfl⟩
    · rw [segPolyGeneral_branch] at hb
      simp at hb

end PorepyVerif.C30
