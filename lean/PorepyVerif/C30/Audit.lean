import PorepyVerif.C30.Props
#print axioms PorepyVerif.C30.pt_pt_symm
#print axioms PorepyVerif.C30.pt_pt_zero_iff
#print axioms PorepyVerif.C30.pt_seg_closest_on_seg
#print axioms PorepyVerif.C30.pt_seg_minimal
#print axioms PorepyVerif.C30.seg_seg_closest_on_segs
#print axioms PorepyVerif.C30.seg_seg_minimal
#print axioms PorepyVerif.C30.seg_set_entry
#print axioms PorepyVerif.C30.pt_poly_inside_plane_minimal
#print axioms PorepyVerif.C30.pt_poly_outside_boundary_minimal
#print axioms PorepyVerif.C30.pt_poly_le_boundary
#print axioms PorepyVerif.C30.seg_poly_cross_sound
#print axioms PorepyVerif.C30.seg_poly_general_min
#print axioms PorepyVerif.C30.seg_seg_minimal_int
#print axioms PorepyVerif.C30.membership_convex
#print axioms PorepyVerif.C30.convex_nearest_on_boundary
#print axioms PorepyVerif.C30.pt_polygon_minimal_convex
#print axioms PorepyVerif.C30.seg_poly_minimal_convex
