/-
C18 — property theorems (statements only depend on Model.lean; helper lemmas in Lemmas.lean).

Property: for any 1-D, 2-D or 3-D simplex grid and constant permeability, RT0 and MVEM with
Dirichlet data from a linear pressure give the exact face fluxes and cell-centre pressures, and
their mass matrices are symmetric positive definite.

What is proved here (over ℚ, for EVERY dimension `d ≥ 1`, all simplices, tensors, signs):
  * the local RT0 mass matrix as coded (`rt0Mass`) is symmetric, is a Gram matrix (sum of squares),
    hence positive semidefinite, and positive definite on every non-degenerate simplex;
  * the RT0 interpolant of a constant velocity is that velocity; the exact fluxes `−K∇p·n_f` and
    exact pressures of a linear `p` satisfy every face row and the cell row of the saddle-point
    system that belong to one cell (`localResidual = 0`, `localDivergence = 0`), for RT0 and MVEM;
  * MVEM: projector consistency, symmetry, positive definiteness (any polytope with `m` faces);
  * in dimension 1, 2, 3: the as-coded explicit inverses are inverses, explicit normals satisfy the
    divergence theorem, Sylvester's criterion gives the positive-definiteness hypotheses.
Global exactness = these local identities + unique solvability of the assembled system (not proved:
observed by the oracle on the real solve).
-/
import PorepyVerif.C18.Lemmas

open Finset BigOperators
namespace PorepyVerif.C18

/-! ## RT0 local mass matrix -/

/-- `RT0.massHdiv` is symmetric whenever `K⁻¹` is. -/
theorem rt0_local_mass_symmetric (d : Nat) (Kinv : Mat d d) (V : Rat) (x : Fin (d + 1) → Vec d)
    (s : Vec (d + 1)) (hK : IsSymm Kinv) : IsSymm (rt0Mass d Kinv V x s) :=
  fun j k => rt0Mass_symm d Kinv hK V x s j k

/-- Gram (sum of squares) representation: with `t_j = s_j y_j`, `w_i = Σ_j t_j (x_i − x_j)` and
    `q(v) = vᵀ (K⁻¹/V) v`:  `yᵀ M y = (Σ_i q(w_i) + q(Σ_i w_i)) / (d·d·(d+1)·(d+2))`.
    (This is `∫_T |Σ_j t_j φ_j|²_{K⁻¹}` with the vertex quadrature that is exact for P1·P1.) -/
theorem rt0_local_mass_gram (d : Nat) (Kinv : Mat d d) (V : Rat) (x : Fin (d + 1) → Vec d)
    (s y : Vec (d + 1)) :
    quadForm (rt0Mass d Kinv V x s) y
      = 1 / ((d : Rat) * d * (d + 1) * (d + 2)) *
        (sumFin (d + 1) (fun i => quadForm (fun a b => Kinv a b / V) (rt0Field x (fun j => s j * y j) i))
          + quadForm (fun a b => Kinv a b / V)
              (fun a => sumFin (d + 1) fun i => rt0Field x (fun j => s j * y j) i a)) := by
  have hw : ∀ i, wvec x (fun j => s j * y j) i = rt0Field x (fun j => s j * y j) i := by
    intro i; funext a
    simp only [wvec, rt0Field, sumFin_eq, Finset.sum_apply, Pi.smul_apply, Pi.sub_apply, smul_eq_mul]
  have hsum : (∑ i, wvec x (fun j => s j * y j) i)
      = fun a => sumFin (d + 1) fun i => rt0Field x (fun j => s j * y j) i a := by
    funext a; simp only [Finset.sum_apply, sumFin_eq, hw]
  rw [rt0_quad_gram, hsum]
  simp only [hw, sumFin_eq, quadForm_bf]
  rfl

/-- positive semidefinite for every simplex (even a degenerate one) -/
theorem rt0_local_mass_psd (d : Nat) (Kinv : Mat d d) (V : Rat) (x : Fin (d + 1) → Vec d)
    (s : Vec (d + 1)) (hK : PosSemidef Kinv) (hV : 0 < V) : PosSemidef (rt0Mass d Kinv V x s) :=
  rt0_psd d Kinv V x s hK hV

/-- positive definite on every non-degenerate simplex: `yᵀ M y > 0` for `y ≠ 0` -/
theorem rt0_local_mass_spd (d : Nat) (hd : 1 ≤ d) (Kinv : Mat d d) (V : Rat) (x : Fin (d + 1) → Vec d)
    (s : Vec (d + 1)) (hK : PosDef Kinv) (hV : 0 < V) (hx : AffineIndep x) (hs : ∀ j, s j ≠ 0) :
    PosDef (rt0Mass d Kinv V x s) :=
  rt0_spd d hd Kinv V x s hK hV hx hs

/-! ## RT0 reproduces linear pressures -/

/-- The RT0 interpolant of a constant velocity `U` is `U`: with the basis
    `φ_g(y) = (y − x_g)/(d·V)` and outward fluxes `s_g (U·n_g)`:  `Σ_g s_g (U·n_g) φ_g(y) = U`
    at every point `y`. -/
theorem rt0_interpolation_exact (d : Nat) (hd : 1 ≤ d) (V : Rat) (hV : V ≠ 0) (x nrm : Fin (d + 1) → Vec d)
    (s : Vec (d + 1)) (hdiv : DivThm V s (faceCentre x) nrm) (U y : Vec d) (b : Fin d) :
    sumFin (d + 1) (fun g => s g * faceFlux U nrm g * ((y b - x g b) / ((d : Rat) * V))) = U b := by
  have hd0 : (d : ℚ) ≠ 0 := by
    have : (0 : ℚ) < d := by exact_mod_cast hd
    exact this.ne'
  have h := rt0_interp hd0 V x nrm s hdiv U y b
  rw [sumFin_eq]
  have e : ∀ g, s g * faceFlux U nrm g * ((y b - x g b) / ((d : ℚ) * V))
      = (s g * dot U (nrm g) * (y b - x g b)) / ((d : ℚ) * V) := by
    intro g; simp only [faceFlux]; ring
  simp only [e, ← Finset.sum_div, h]
  field_simp

/-- LOCAL EXACTNESS (RT0).  Let `p(y) = a·y + b`, `U = −K a`, face unknowns `u_g = U·n_g`
    (global normal orientation), cell unknown `p(x_c)` at the cell centre, Dirichlet / neighbour
    value `p(x_f)` at the face centres.  Then every face row of `[[M, divᵀ],[div, 0]]` restricted
    to one cell is satisfied, and so is the cell row. -/
theorem rt0_linear_exact_local (d : Nat) (hd : 1 ≤ d) (K Kinv : Mat d d) (V : Rat) (hV : V ≠ 0)
    (x nrm : Fin (d + 1) → Vec d) (s : Vec (d + 1)) (hinv : IsInverse Kinv K)
    (hdiv : DivThm V s (faceCentre x) nrm) (a : Vec d) (b : Rat) :
    (∀ f, localResidual (rt0Mass d Kinv V x s) s (faceFlux (darcy K a) nrm) (linP a b (centroid x))
        (fun g => linP a b (faceCentre x g)) f = 0)
    ∧ localDivergence s (faceFlux (darcy K a) nrm) = 0 :=
  ⟨fun f => rt0_exact hd K Kinv V hV x nrm s hinv hdiv a b f,
   faceFlux_divfree V s (faceCentre x) nrm hdiv (darcy K a)⟩

/-- `RT0.faces_to_cell` (used by `project_flux`) returns the constant velocity from its fluxes. -/
theorem rt0_projection_exact (d : Nat) (hd : 1 ≤ d) (V : Rat) (hV : V ≠ 0) (x nrm : Fin (d + 1) → Vec d)
    (s : Vec (d + 1)) (hs : ∀ g, s g * s g = 1) (hdiv : DivThm V s (faceCentre x) nrm)
    (hden : ∀ g, dot (vsub (faceCentre x g) (x g)) (nrm g) = s g * (d * V)) (U pt : Vec d) (a : Fin d) :
    sumFin (d + 1) (fun g => faceFlux U nrm g * rt0Proj d pt x (faceCentre x) nrm g a) = U a := by
  rw [sumFin_eq]
  exact rt0Proj_exact hd V hV x (faceCentre x) nrm s hs rfl hdiv hden U pt a

/-! ## MVEM (any cell with `m` faces for which the divergence theorem holds) -/

/-- consistency: `Π_s` reproduces the gradient `g` of a linear polynomial from the face fluxes
    `D g` of `K∇(g·m)`; the stabilisation `(I − D Π_s)` vanishes on them; `A (D g) = Fᵀ g`. -/
theorem mvem_consistency (d m : Nat) (K Kinv Ginv : Mat d d) (c : Vec d) (V diam weight : Rat)
    (fc nrm : Fin m → Vec d) (s : Vec m) (hK : IsSymm K) (hinv : IsInverse Ginv (mvemG d K V diam))
    (hdiv : DivThm V s fc nrm) (g : Vec d) :
    mulVec (mvemPi Ginv (mvemF d m c fc s diam)) (mulVec (mvemD d m K nrm diam) g) = g
    ∧ (∀ f, mulVec (mvemD d m K nrm diam) g f
          - mulVec (mvemD d m K nrm diam)
              (mulVec (mvemPi Ginv (mvemF d m c fc s diam)) (mulVec (mvemD d m K nrm diam) g)) f = 0)
    ∧ mulVec (mvemMassWith d m Ginv K Kinv c V fc nrm s diam weight) (mulVec (mvemD d m K nrm diam) g)
        = mulVec (transpose (mvemF d m c fc s diam)) g := by
  obtain ⟨c1, c2, c3⟩ := mvem_consistency' (mvemG d K V diam) Ginv (mvemF d m c fc s diam)
    (mvemD d m K nrm diam) (weight * normInf Kinv) hinv (mvemG_symm d K V diam hK)
    (mvem_FD d m K c V diam fc nrm s hdiv)
  exact ⟨c1 g, fun f => congrFun (c2 g) f, c3 g⟩

/-- `MVEM.massHdiv` is symmetric for symmetric `K` (whatever the solve returns). -/
theorem mvem_local_mass_symmetric (d m : Nat) (K Kinv Ginv : Mat d d) (c : Vec d) (V diam weight : Rat)
    (fc nrm : Fin m → Vec d) (s : Vec m) (hK : IsSymm K) :
    IsSymm (mvemMassWith d m Ginv K Kinv c V fc nrm s diam weight) :=
  mvem_symm _ _ _ _ (mvemG_symm d K V diam hK)

/-- `MVEM.massHdiv` is positive definite: consistency part PSD + stabilisation PD on its kernel. -/
theorem mvem_local_mass_spd (d m : Nat) (K Kinv Ginv : Mat d d) (c : Vec d) (V diam weight : Rat)
    (fc nrm : Fin m → Vec d) (s : Vec m) (hK : PosDef K) (hV : 0 < V) (hdiam : diam ≠ 0)
    (hw : 0 < weight) (hKinv : ∃ i j, Kinv i j ≠ 0) :
    PosDef (mvemMassWith d m Ginv K Kinv c V fc nrm s diam weight) :=
  mvem_spd _ _ _ _ (mvemG_posDef d K V diam hK hV hdiam) (mul_pos hw (normInf_pos Kinv hKinv))

/-- LOCAL EXACTNESS (MVEM), same statement as for RT0 with the cell centre `c` handed to `massHdiv`. -/
theorem mvem_linear_exact_local (d m : Nat) (K Kinv Ginv : Mat d d) (c : Vec d) (V diam weight : Rat)
    (hdiam : diam ≠ 0) (fc nrm : Fin m → Vec d) (s : Vec m) (hK : IsSymm K)
    (hinv : IsInverse Ginv (mvemG d K V diam)) (hdiv : DivThm V s fc nrm) (a : Vec d) (b : Rat) :
    (∀ f, localResidual (mvemMassWith d m Ginv K Kinv c V fc nrm s diam weight) s
        (faceFlux (darcy K a) nrm) (linP a b c) (fun g => linP a b (fc g)) f = 0)
    ∧ localDivergence s (faceFlux (darcy K a) nrm) = 0 :=
  ⟨fun f => mvem_exact K Kinv Ginv c V diam weight hdiam fc nrm s hK hinv hdiv a b f,
   faceFlux_divfree V s fc nrm hdiv (darcy K a)⟩

/-! ## dimension 1, 2, 3: the as-coded inverses, explicit normals, decidable hypotheses -/

theorem inv_matrix_correct_1d (K : Mat 1 1) (h : K 0 0 ≠ 0) : IsInverse (invMatrix 1 K) K :=
  inv1d_correct K h

theorem inv_matrix_correct_2d (K : Mat 2 2) (hK : IsSymm K) (h : det2 K ≠ 0) : IsInverse (invMatrix 2 K) K :=
  inv2d_correct K hK h

/-- includes the entry of `_inv_matrix_3d` that reads `K[1,0]` instead of `K[0,1]` -/
theorem inv_matrix_correct_3d (K : Mat 3 3) (hK : IsSymm K) (h : det3 K ≠ 0) : IsInverse (invMatrix 3 K) K :=
  inv3d_correct K hK h

/-- divergence theorem on a segment / triangle / tetrahedron with the explicit normals
    `s_f · σ · n_f` (`σ = ±1` orientation of the vertex numbering, `s_f = ±1` the `cell_faces` sign)
    and volume `σ · signedVol` -/
theorem simplex_divthm_1d (x : Fin 2 → Vec 1) (s : Vec 2) (σ : Rat) (hs : ∀ f, s f * s f = 1) :
    DivThm (σ * signedVol1 x) s (faceCentre x) (fun f b => s f * (σ * simplexNormal1 x f b)) :=
  divThm_scale _ _ _ s σ hs (divThm_simplex1 x)

theorem simplex_divthm_2d (x : Fin 3 → Vec 2) (s : Vec 3) (σ : Rat) (hs : ∀ f, s f * s f = 1) :
    DivThm (σ * signedVol2 x) s (faceCentre x) (fun f b => s f * (σ * simplexNormal2 x f b)) :=
  divThm_scale _ _ _ s σ hs (divThm_simplex2 x)

theorem simplex_divthm_3d (x : Fin 4 → Vec 3) (s : Vec 4) (σ : Rat) (hs : ∀ f, s f * s f = 1) :
    DivThm (σ * signedVol3 x) s (faceCentre x) (fun f b => s f * (σ * simplexNormal3 x f b)) :=
  divThm_scale _ _ _ s σ hs (divThm_simplex3 x)

/-- SPD of the RT0 local matrix built from `K` by the as-coded pipeline, explicit hypotheses. -/
theorem rt0_spd_segment (K : Mat 1 1) (V : Rat) (x : Fin 2 → Vec 1) (s : Vec 2)
    (h1 : 0 < K 0 0) (hV : 0 < V) (hx : signedVol1 x ≠ 0) (hs : ∀ j, s j ≠ 0) :
    PosDef (rt0Mass 1 (invMatrix 1 K) V x s) :=
  rt0_spd 1 (le_refl _) (invMatrix1d K) V x s
    (posDef_inv K _ (posDef_1d K h1) (inv1d_correct K h1.ne')) hV (affineIndep_1d x hx) hs

theorem rt0_spd_triangle (K : Mat 2 2) (V : Rat) (x : Fin 3 → Vec 2) (s : Vec 3)
    (hK : IsSymm K) (h1 : 0 < K 0 0) (h2 : 0 < det2 K) (hV : 0 < V) (hx : signedVol2 x ≠ 0)
    (hs : ∀ j, s j ≠ 0) : PosDef (rt0Mass 2 (invMatrix 2 K) V x s) :=
  rt0_spd 2 (by norm_num) (invMatrix2d K) V x s
    (posDef_inv K _ (posDef_2d K hK h1 h2) (inv2d_correct K hK h2.ne')) hV (affineIndep_2d x hx) hs

theorem rt0_spd_tetrahedron (K : Mat 3 3) (V : Rat) (x : Fin 4 → Vec 3) (s : Vec 4)
    (hK : IsSymm K) (h1 : 0 < K 0 0) (h2 : 0 < minor2 K 0 1) (h3 : 0 < det3 K) (hV : 0 < V)
    (hx : signedVol3 x ≠ 0) (hs : ∀ j, s j ≠ 0) : PosDef (rt0Mass 3 (invMatrix 3 K) V x s) :=
  rt0_spd 3 (by norm_num) (invMatrix3d K) V x s
    (posDef_inv K _ (posDef_3d K hK h1 h2 h3) (inv3d_correct K hK h3.ne')) hV (affineIndep_3d x hx) hs

/-- local exactness of the whole as-coded RT0 pipeline on a segment / triangle / tetrahedron -/
theorem rt0_exact_segment (K : Mat 1 1) (V σ : Rat) (x : Fin 2 → Vec 1) (s : Vec 2) (a : Vec 1) (b : Rat)
    (hdet : K 0 0 ≠ 0) (hs : ∀ j, s j * s j = 1) (hV : V = σ * signedVol1 x) (hV0 : V ≠ 0) :
    (∀ f, localResidual (rt0Mass 1 (invMatrix 1 K) V x s) s
        (faceFlux (darcy K a) (fun f c => s f * (σ * simplexNormal1 x f c))) (linP a b (centroid x))
        (fun g => linP a b (faceCentre x g)) f = 0)
    ∧ localDivergence s (faceFlux (darcy K a) (fun f c => s f * (σ * simplexNormal1 x f c))) = 0 := by
  have hdiv := simplex_divthm_1d x s σ hs
  rw [← hV] at hdiv
  exact rt0_linear_exact_local 1 (le_refl _) K (invMatrix1d K) V hV0 x _ s (inv1d_correct K hdet) hdiv a b

theorem rt0_exact_triangle (K : Mat 2 2) (V σ : Rat) (x : Fin 3 → Vec 2) (s : Vec 3) (a : Vec 2) (b : Rat)
    (hK : IsSymm K) (hdet : det2 K ≠ 0) (hs : ∀ j, s j * s j = 1) (hV : V = σ * signedVol2 x) (hV0 : V ≠ 0) :
    (∀ f, localResidual (rt0Mass 2 (invMatrix 2 K) V x s) s
        (faceFlux (darcy K a) (fun f c => s f * (σ * simplexNormal2 x f c))) (linP a b (centroid x))
        (fun g => linP a b (faceCentre x g)) f = 0)
    ∧ localDivergence s (faceFlux (darcy K a) (fun f c => s f * (σ * simplexNormal2 x f c))) = 0 := by
  have hdiv := simplex_divthm_2d x s σ hs
  rw [← hV] at hdiv
  exact rt0_linear_exact_local 2 (by norm_num) K (invMatrix2d K) V hV0 x _ s (inv2d_correct K hK hdet) hdiv a b

theorem rt0_exact_tetrahedron (K : Mat 3 3) (V σ : Rat) (x : Fin 4 → Vec 3) (s : Vec 4) (a : Vec 3) (b : Rat)
    (hK : IsSymm K) (hdet : det3 K ≠ 0) (hs : ∀ j, s j * s j = 1) (hV : V = σ * signedVol3 x) (hV0 : V ≠ 0) :
    (∀ f, localResidual (rt0Mass 3 (invMatrix 3 K) V x s) s
        (faceFlux (darcy K a) (fun f c => s f * (σ * simplexNormal3 x f c))) (linP a b (centroid x))
        (fun g => linP a b (faceCentre x g)) f = 0)
    ∧ localDivergence s (faceFlux (darcy K a) (fun f c => s f * (σ * simplexNormal3 x f c))) = 0 := by
  have hdiv := simplex_divthm_3d x s σ hs
  rw [← hV] at hdiv
  exact rt0_linear_exact_local 3 (by norm_num) K (invMatrix3d K) V hV0 x _ s (inv3d_correct K hK hdet) hdiv a b

/-- local exactness of the as-coded MVEM pipeline (`mvemMass`: solve with the explicit inverse of
    `G`) on a triangle and on a tetrahedron with the explicit normals -/
theorem mvem_exact_triangle (K Kinv : Mat 2 2) (c : Vec 2) (V σ diam weight : Rat) (x : Fin 3 → Vec 2)
    (s : Vec 3) (a : Vec 2) (b : Rat) (hK : IsSymm K) (hdiam : diam ≠ 0)
    (hG : det2 (mvemG 2 K V diam) ≠ 0) (hs : ∀ j, s j * s j = 1) (hV : V = σ * signedVol2 x) :
    ∀ f, localResidual
        (mvemMass 2 3 K Kinv c V (faceCentre x) (fun f c => s f * (σ * simplexNormal2 x f c)) s diam weight) s
        (faceFlux (darcy K a) (fun f c => s f * (σ * simplexNormal2 x f c))) (linP a b c)
        (fun g => linP a b (faceCentre x g)) f = 0 := by
  have hdiv := simplex_divthm_2d x s σ hs
  rw [← hV] at hdiv
  exact (mvem_linear_exact_local 2 3 K Kinv (invMatrix2d (mvemG 2 K V diam)) c V diam weight hdiam _ _ s hK
    (inv2d_correct _ (mvemG_symm 2 K V diam hK) hG) hdiv a b).1

theorem mvem_exact_tetrahedron (K Kinv : Mat 3 3) (c : Vec 3) (V σ diam weight : Rat) (x : Fin 4 → Vec 3)
    (s : Vec 4) (a : Vec 3) (b : Rat) (hK : IsSymm K) (hdiam : diam ≠ 0)
    (hG : det3 (mvemG 3 K V diam) ≠ 0) (hs : ∀ j, s j * s j = 1) (hV : V = σ * signedVol3 x) :
    ∀ f, localResidual
        (mvemMass 3 4 K Kinv c V (faceCentre x) (fun f c => s f * (σ * simplexNormal3 x f c)) s diam weight) s
        (faceFlux (darcy K a) (fun f c => s f * (σ * simplexNormal3 x f c))) (linP a b c)
        (fun g => linP a b (faceCentre x g)) f = 0 := by
  have hdiv := simplex_divthm_3d x s σ hs
  rw [← hV] at hdiv
  exact (mvem_linear_exact_local 3 4 K Kinv (invMatrix3d (mvemG 3 K V diam)) c V diam weight hdiam _ _ s hK
    (inv3d_correct _ (mvemG_symm 3 K V diam hK) hG) hdiv a b).1

/-! ## from one cell to the grid: global mass matrices, unique solvability, global exactness -/

/-- The assembled RT0 mass matrix (local matrices scattered by the face map) is symmetric positive
    definite on every grid of non-degenerate simplices in which each face belongs to a cell. -/
theorem rt0_global_mass_spd (d nf nc : Nat) (hd : 1 ≤ d) (f : Fin nc → Fin (d + 1) → Fin nf)
    (Kinv : Fin nc → Mat d d) (V : Fin nc → Rat) (x : Fin nc → Fin (d + 1) → Vec d) (s : Fin nc → Vec (d + 1))
    (hK : ∀ c, PosDef (Kinv c)) (hKs : ∀ c, IsSymm (Kinv c)) (hV : ∀ c, 0 < V c)
    (hx : ∀ c, AffineIndep (x c)) (hs : ∀ c j, s c j ≠ 0) (hcov : ∀ F, ∃ c j, f c j = F) :
    IsSymm (assemble nf nc (d + 1) f fun c => rt0Mass d (Kinv c) (V c) (x c) (s c)) ∧
    PosDef (assemble nf nc (d + 1) f fun c => rt0Mass d (Kinv c) (V c) (x c) (s c)) :=
  ⟨assemble_symm _ _ _ f _ (fun c => rt0_local_mass_symmetric d (Kinv c) (V c) (x c) (s c) (hKs c)),
   assemble_spd _ _ _ f _
     (fun c => rt0_local_mass_psd d (Kinv c) (V c) (x c) (s c) (posDef_semidef _ (hK c)) (hV c))
     (fun F => by
        obtain ⟨c, j, h⟩ := hcov F
        exact ⟨c, j, h, rt0_local_mass_spd d hd (Kinv c) (V c) (x c) (s c) (hK c) (hV c) (hx c) (hs c)⟩)⟩

/-- … and so is the assembled MVEM mass matrix (cells with `m` faces each). -/
theorem mvem_global_mass_spd (d m nf nc : Nat) (f : Fin nc → Fin m → Fin nf)
    (K Kinv Ginv : Fin nc → Mat d d) (cen : Fin nc → Vec d) (V diam weight : Fin nc → Rat)
    (fc nrm : Fin nc → Fin m → Vec d) (s : Fin nc → Vec m)
    (hK : ∀ c, PosDef (K c)) (hKs : ∀ c, IsSymm (K c)) (hV : ∀ c, 0 < V c) (hdiam : ∀ c, diam c ≠ 0)
    (hw : ∀ c, 0 < weight c) (hKinv : ∀ c, ∃ i j, Kinv c i j ≠ 0) (hcov : ∀ F, ∃ c j, f c j = F) :
    IsSymm (assemble nf nc m f fun c =>
      mvemMassWith d m (Ginv c) (K c) (Kinv c) (cen c) (V c) (fc c) (nrm c) (s c) (diam c) (weight c)) ∧
    PosDef (assemble nf nc m f fun c =>
      mvemMassWith d m (Ginv c) (K c) (Kinv c) (cen c) (V c) (fc c) (nrm c) (s c) (diam c) (weight c)) :=
  ⟨assemble_symm _ _ _ f _ (fun c => mvem_local_mass_symmetric d m (K c) (Kinv c) (Ginv c) (cen c) (V c)
      (diam c) (weight c) (fc c) (nrm c) (s c) (hKs c)),
   assemble_spd _ _ _ f _
     (fun c => posDef_semidef _ (mvem_local_mass_spd d m (K c) (Kinv c) (Ginv c) (cen c) (V c) (diam c)
        (weight c) (fc c) (nrm c) (s c) (hK c) (hV c) (hdiam c) (hw c) (hKinv c)))
     (fun F => by
        obtain ⟨c, j, h⟩ := hcov F
        exact ⟨c, j, h, mvem_local_mass_spd d m (K c) (Kinv c) (Ginv c) (cen c) (V c) (diam c)
          (weight c) (fc c) (nrm c) (s c) (hK c) (hV c) (hdiam c) (hw c) (hKinv c)⟩)⟩

/-- UNIQUE SOLVABILITY of the saddle-point system `[[M, Bᵀ],[B, 0]]`: `M` positive definite and
    `Bᵀ` injective (`B` of full row rank) ⇒ two solutions for the same right-hand side coincide. -/
theorem saddle_point_unique {nf nc : Nat} (M : Mat nf nf) (B : Mat nc nf) (hM : PosDef M)
    (hB : ∀ p : Vec nc, (∀ F, mulVec (transpose B) p F = 0) → ∀ c, p c = 0)
    (r1 : Vec nf) (r2 : Vec nc) (u u' : Vec nf) (p p' : Vec nc)
    (h1 : ∀ F, mulVec M u F + mulVec (transpose B) p F = r1 F) (h2 : ∀ c, mulVec B u c = r2 c)
    (h1' : ∀ F, mulVec M u' F + mulVec (transpose B) p' F = r1 F) (h2' : ∀ c, mulVec B u' c = r2 c) :
    (∀ F, u F = u' F) ∧ ∀ c, p c = p' c :=
  saddle_unique' M B hM hB r1 r2 u u' p p' h1 h2 h1' h2'

/-- FULL ROW RANK of `B = -cell_facesᵀ` from a spanning-tree certificate (= the grid is connected
    and has a boundary, i.e. Dirichlet, face): a root cell with a face `rootFace` that no other cell
    touches, and for every other cell a face `link c` shared only with a cell `parent c` of smaller
    rank.  Then `Bᵀ p = 0 ⇒ p = 0`. -/
theorem div_full_row_rank {nf nc : Nat} (B : Mat nc nf) (root : Fin nc) (rootFace : Fin nf)
    (parent : Fin nc → Fin nc) (link : Fin nc → Fin nf) (rank : Fin nc → Nat)
    (hroot : B root rootFace ≠ 0) (hroot' : ∀ c, c ≠ root → B c rootFace = 0)
    (hlink : ∀ c, c ≠ root → B c (link c) ≠ 0 ∧ rank (parent c) < rank c ∧
      ∀ c', c' ≠ c → c' ≠ parent c → B c' (link c) = 0)
    (p : Vec nc) (hp : ∀ F, mulVec (transpose B) p F = 0) : ∀ c, p c = 0 :=
  full_rank_of_tree' B root rootFace parent link rank hroot hroot' hlink p hp

/-- GLOBAL EXACTNESS, generic in the local matrices: if in every cell the exact values satisfy the
    local face rows and the local cell row, then they satisfy the assembled system with the
    Dirichlet right-hand side `-faceSign F · P F`; if moreover the global mass matrix is positive
    definite and `Bᵀ` is injective, EVERY solution of the assembled system is the exact one. -/
theorem mixed_linear_exact_global (nf nc m : Nat) (f : Fin nc → Fin m → Fin nf) (L : Fin nc → Mat m m)
    (s : Fin nc → Vec m) (uex : Vec nf) (pex : Vec nc) (P : Vec nf)
    (hloc : ∀ c j, localResidual (L c) (s c) (restrict uex (f c)) (pex c) (restrict P (f c)) j = 0)
    (hdiv : ∀ c, localDivergence (s c) (restrict uex (f c)) = 0)
    (hM : PosDef (assemble nf nc m f L))
    (hB : ∀ p : Vec nc, (∀ F, mulVec (transpose (divMat nf nc m f s)) p F = 0) → ∀ c, p c = 0)
    (u : Vec nf) (p : Vec nc)
    (h1 : ∀ F, mulVec (assemble nf nc m f L) u F + mulVec (transpose (divMat nf nc m f s)) p F
        = - faceSign nf nc m f s F * P F)
    (h2 : ∀ c, mulVec (divMat nf nc m f s) u c = 0) :
    (∀ F, u F = uex F) ∧ ∀ c, p c = pex c := by
  obtain ⟨g1, g2⟩ := global_rows_exact' nf nc m f L s uex pex P hloc hdiv
  exact saddle_unique' _ _ hM hB (fun F => - faceSign nf nc m f s F * P F) (fun _ => 0) u uex p pex h1 h2 g1 g2

/-- GLOBAL EXACTNESS OF RT0 on a simplex grid: global normals `N F`, face centres `XF F`, per cell
    vertices `x c` (vertex `j` opposite to local face `j`), constant `K`.  Any solution `(u, p)` of the
    assembled RT0 system with Dirichlet data from `p(y) = a·y + b` has `u F = −K a · N F` on every
    face and `p c = p(x_c)` in every cell. -/
theorem rt0_linear_exact_global (d nf nc : Nat) (hd : 1 ≤ d) (f : Fin nc → Fin (d + 1) → Fin nf)
    (K Kinv : Mat d d) (V : Fin nc → Rat) (x : Fin nc → Fin (d + 1) → Vec d) (s : Fin nc → Vec (d + 1))
    (N XF : Fin nf → Vec d) (hinv : IsInverse Kinv K) (hKpd : PosDef Kinv) (hV : ∀ c, 0 < V c)
    (hx : ∀ c, AffineIndep (x c)) (hs : ∀ c j, s c j ≠ 0) (hcov : ∀ F, ∃ c j, f c j = F)
    (hXF : ∀ c j, faceCentre (x c) j = XF (f c j))
    (hdivthm : ∀ c, DivThm (V c) (s c) (faceCentre (x c)) (fun j => N (f c j)))
    (hB : ∀ p : Vec nc, (∀ F, mulVec (transpose (divMat nf nc (d + 1) f s)) p F = 0) → ∀ c, p c = 0)
    (a : Vec d) (b : Rat) (u : Vec nf) (p : Vec nc)
    (h1 : ∀ F, mulVec (assemble nf nc (d + 1) f fun c => rt0Mass d Kinv (V c) (x c) (s c)) u F
        + mulVec (transpose (divMat nf nc (d + 1) f s)) p F
        = - faceSign nf nc (d + 1) f s F * linP a b (XF F))
    (h2 : ∀ c, mulVec (divMat nf nc (d + 1) f s) u c = 0) :
    (∀ F, u F = dot (darcy K a) (N F)) ∧ ∀ c, p c = linP a b (centroid (x c)) := by
  refine mixed_linear_exact_global nf nc (d + 1) f (fun c => rt0Mass d Kinv (V c) (x c) (s c)) s
    (fun F => dot (darcy K a) (N F)) (fun c => linP a b (centroid (x c))) (fun F => linP a b (XF F))
    (fun c j => ?_) (fun c => ?_) ?_ hB u p h1 h2
  · have h := (rt0_linear_exact_local d hd K Kinv (V c) (hV c).ne' (x c) (fun j => N (f c j)) (s c) hinv
      (hdivthm c) a b).1 j
    simp only [hXF] at h
    exact h
  · exact (rt0_linear_exact_local d hd K Kinv (V c) (hV c).ne' (x c) (fun j => N (f c j)) (s c) hinv
      (hdivthm c) a b).2
  · exact assemble_spd _ _ _ f _
      (fun c => rt0_local_mass_psd d Kinv (V c) (x c) (s c) (posDef_semidef _ hKpd) (hV c))
      (fun F => by
        obtain ⟨c, j, h⟩ := hcov F
        exact ⟨c, j, h, rt0_local_mass_spd d hd Kinv (V c) (x c) (s c) hKpd (hV c) (hx c) (hs c)⟩)

/-- `project_flux` at grid level: from the global vector of exact face fluxes of a constant velocity
    `U`, the P0 reconstruction in every cell (at any evaluation point) is `U`. -/
theorem project_flux_exact_global (d nf nc : Nat) (hd : 1 ≤ d) (f : Fin nc → Fin (d + 1) → Fin nf)
    (V : Fin nc → Rat) (x : Fin nc → Fin (d + 1) → Vec d) (s : Fin nc → Vec (d + 1)) (N : Fin nf → Vec d)
    (hV : ∀ c, V c ≠ 0) (hs : ∀ c g, s c g * s c g = 1)
    (hdivthm : ∀ c, DivThm (V c) (s c) (faceCentre (x c)) (fun j => N (f c j)))
    (hden : ∀ c g, dot (vsub (faceCentre (x c) g) (x c g)) (N (f c g)) = s c g * (d * V c))
    (U : Vec d) (u : Vec nf) (hu : ∀ F, u F = dot U (N F)) (pt : Fin nc → Vec d) (c : Fin nc) (a' : Fin d) :
    sumFin (d + 1) (fun g => u (f c g) *
      rt0Proj d (pt c) (x c) (faceCentre (x c)) (fun j => N (f c j)) g a') = U a' := by
  have h := rt0_projection_exact d hd (V c) (hV c) (x c) (fun j => N (f c j)) (s c) (hs c) (hdivthm c)
    (hden c) U (pt c) a'
  simp only [hu]
  exact h

/-! ## non-vacuity: every hypothesis above is satisfied by concrete, non-trivial rational data
(segment `[1/2, 2]`, a negatively oriented triangle, a tetrahedron; anisotropic tensors; mixed signs) -/

-- the model reproduces the hand-computed reference matrix of tests/numerics/vem/test_rt0.py
-- (unit triangle, K = I): M = [[1/6,0,0],[0,1/3,-1/6],[0,-1/6,1/3]]
example : rt0Mass 2 (idMat 2) (1/2) (pts3 (vec2 0 0) (vec2 1 0) (vec2 0 1)) (fun _ => 1) 1 2 = -1/6 := by
  decide +kernel
example : rt0Mass 2 (idMat 2) (1/2) (pts3 (vec2 0 0) (vec2 1 0) (vec2 0 1)) (fun _ => 1) 0 0 = 1/6 := by
  decide +kernel

-- hypotheses of the generic theorems on the concrete data
example : signedVol1 exSeg = 3/2 := by decide +kernel
example : signedVol2 exTri = -23/16 := by decide +kernel
example : signedVol3 exTet = 11/32 := by decide +kernel
example : IsSymm exK2 ∧ 0 < exK2 0 0 ∧ 0 < det2 exK2 := by unfold IsSymm; decide +kernel
example : IsSymm exK3 ∧ 0 < exK3 0 0 ∧ 0 < minor2 exK3 0 1 ∧ 0 < det3 exK3 := by unfold IsSymm; decide +kernel

example : PosDef (rt0Mass 1 (invMatrix 1 exK1) (3/2) exSeg exS2) :=
  rt0_spd_segment exK1 (3/2) exSeg exS2 (by decide +kernel) (by decide +kernel) (by decide +kernel)
    (by decide +kernel)

example : PosDef (rt0Mass 2 (invMatrix 2 exK2) (23/16) exTri exS3) :=
  rt0_spd_triangle exK2 (23/16) exTri exS3 (by unfold IsSymm; decide +kernel) (by decide +kernel)
    (by decide +kernel) (by decide +kernel) (by decide +kernel) (by decide +kernel)

example : PosDef (rt0Mass 3 (invMatrix 3 exK3) (11/32) exTet exS4) :=
  rt0_spd_tetrahedron exK3 (11/32) exTet exS4 (by unfold IsSymm; decide +kernel) (by decide +kernel)
    (by decide +kernel) (by decide +kernel) (by decide +kernel) (by decide +kernel) (by decide +kernel)

/-- generic SPD / PSD / symmetry theorems instantiated (d = 2, negatively oriented triangle) -/
example : PosDef (rt0Mass 2 (invMatrix 2 exK2) (23/16) exTri exS3)
    ∧ PosSemidef (rt0Mass 2 (invMatrix 2 exK2) (23/16) exTri exS3)
    ∧ IsSymm (rt0Mass 2 (invMatrix 2 exK2) (23/16) exTri exS3) := by
  have hinv := inv_matrix_correct_2d exK2 (by unfold IsSymm; decide +kernel) (by decide +kernel)
  have hpd : PosDef (invMatrix 2 exK2) :=
    posDef_inv exK2 _ (posDef_2d exK2 (by unfold IsSymm; decide +kernel) (by decide +kernel) (by decide +kernel)) hinv
  exact ⟨rt0_local_mass_spd 2 (by norm_num) _ _ exTri exS3 hpd (by decide +kernel)
      (affineIndep_2d exTri (by decide +kernel)) (by decide +kernel),
    rt0_local_mass_psd 2 _ _ exTri exS3 (posDef_semidef _ hpd) (by decide +kernel),
    rt0_local_mass_symmetric 2 _ _ exTri exS3 (by unfold IsSymm; decide +kernel)⟩

/-- the Gram identity evaluated: both sides are the same non-zero number -/
example : quadForm (rt0Mass 2 (invMatrix 2 exK2) (23/16) exTri exS3) (vec3 1 2 (-1)) ≠ 0 := by decide +kernel

/-- exactness on the negatively oriented triangle (σ = −1, V = 23/16), mixed signs, anisotropic K -/
example : (∀ f, localResidual (rt0Mass 2 (invMatrix 2 exK2) (23/16) exTri exS3) exS3
      (faceFlux (darcy exK2 (vec2 1 (-2))) (fun f c => exS3 f * (-1 * simplexNormal2 exTri f c)))
      (linP (vec2 1 (-2)) (1/2) (centroid exTri)) (fun g => linP (vec2 1 (-2)) (1/2) (faceCentre exTri g)) f = 0)
    ∧ localDivergence exS3
      (faceFlux (darcy exK2 (vec2 1 (-2))) (fun f c => exS3 f * (-1 * simplexNormal2 exTri f c))) = 0 :=
  rt0_exact_triangle exK2 (23/16) (-1) exTri exS3 (vec2 1 (-2)) (1/2) (by unfold IsSymm; decide +kernel)
    (by decide +kernel) (by decide +kernel) (by decide +kernel) (by decide +kernel)

-- … and the conclusion is not an accident of the statement: the same residual with the flux of
-- a WRONG velocity (tensor not applied) does not vanish
example : localResidual (rt0Mass 2 (invMatrix 2 exK2) (23/16) exTri exS3) exS3
      (faceFlux (darcy (idMat 2) (vec2 1 (-2))) (fun f c => exS3 f * (-1 * simplexNormal2 exTri f c)))
      (linP (vec2 1 (-2)) (1/2) (centroid exTri)) (fun g => linP (vec2 1 (-2)) (1/2) (faceCentre exTri g)) 0 ≠ 0 := by
  decide +kernel

example : DivThm (1 * signedVol3 exTet) exS4 (faceCentre exTet) (fun f b => exS4 f * (1 * simplexNormal3 exTet f b)) :=
  simplex_divthm_3d exTet exS4 1 (by decide +kernel)

example : ∀ f, localResidual (rt0Mass 3 (invMatrix 3 exK3) (11/32) exTet exS4) exS4
      (faceFlux (darcy exK3 (vec3 1 (-2) (1/2))) (fun f c => exS4 f * (1 * simplexNormal3 exTet f c)))
      (linP (vec3 1 (-2) (1/2)) 3 (centroid exTet)) (fun g => linP (vec3 1 (-2) (1/2)) 3 (faceCentre exTet g)) f = 0 :=
  (rt0_exact_tetrahedron exK3 (11/32) 1 exTet exS4 (vec3 1 (-2) (1/2)) 3 (by unfold IsSymm; decide +kernel)
    (by decide +kernel) (by decide +kernel) (by decide +kernel) (by decide +kernel)).1

example : ∀ f, localResidual (rt0Mass 1 (invMatrix 1 exK1) (3/2) exSeg exS2) exS2
      (faceFlux (darcy exK1 (vec1 2)) (fun f c => exS2 f * (1 * simplexNormal1 exSeg f c)))
      (linP (vec1 2) 1 (centroid exSeg)) (fun g => linP (vec1 2) 1 (faceCentre exSeg g)) f = 0 :=
  (rt0_exact_segment exK1 (3/2) 1 exSeg exS2 (vec1 2) 1 (by decide +kernel) (by decide +kernel)
    (by decide +kernel) (by decide +kernel)).1

/-- MVEM on the same triangle: SPD, symmetric, exact (diam = 5/2, weight = 1) -/
example : PosDef (mvemMass 2 3 exK2 (invMatrix 2 exK2) (centroid exTri) (23/16) (faceCentre exTri)
      (fun f c => exS3 f * (-1 * simplexNormal2 exTri f c)) exS3 (5/2) 1) :=
  mvem_local_mass_spd 2 3 exK2 _ _ _ _ _ _ _ _ exS3
    (posDef_2d exK2 (by unfold IsSymm; decide +kernel) (by decide +kernel) (by decide +kernel))
    (by decide +kernel) (by decide +kernel) (by decide +kernel) ⟨0, 0, by decide +kernel⟩

example : ∀ f, localResidual (mvemMass 2 3 exK2 (invMatrix 2 exK2) (centroid exTri) (23/16) (faceCentre exTri)
      (fun f c => exS3 f * (-1 * simplexNormal2 exTri f c)) exS3 (5/2) 1) exS3
      (faceFlux (darcy exK2 (vec2 1 (-2))) (fun f c => exS3 f * (-1 * simplexNormal2 exTri f c)))
      (linP (vec2 1 (-2)) (1/2) (centroid exTri)) (fun g => linP (vec2 1 (-2)) (1/2) (faceCentre exTri g)) f = 0 :=
  mvem_exact_triangle exK2 _ (centroid exTri) (23/16) (-1) (5/2) 1 exTri exS3 (vec2 1 (-2)) (1/2)
    (by unfold IsSymm; decide +kernel) (by decide +kernel) (by decide +kernel) (by decide +kernel) (by decide +kernel)

example : mulVec (mvemPiOf 2 3 exK2 (centroid exTri) (23/16) (faceCentre exTri) exS3 (5/2))
      (mulVec (mvemD 2 3 exK2 (fun f c => exS3 f * (-1 * simplexNormal2 exTri f c)) (5/2)) (vec2 3 (-1))) 0 = 3 := by
  decide +kernel

/-- the two-triangle grid: every face is covered, `B = -cell_facesᵀ` has full row rank by the
    spanning-tree certificate (root cell 0 with boundary face 0, cell 1 linked through face 2) -/
example : ∀ F : Fin 5, ∃ c j, exF c j = F := by decide +kernel

example : ∀ p : Vec 2, (∀ F, mulVec (transpose (divMat 5 2 3 exF exSg)) p F = 0) → ∀ c, p c = 0 :=
  div_full_row_rank (divMat 5 2 3 exF exSg) 0 0 (fun _ => 0) (fun _ => 2) (fun c => c.val)
    (by decide +kernel) (by decide +kernel) (by decide +kernel)

example : PosDef (assemble 5 2 3 exF fun c => rt0Mass 2 (invMatrix 2 exK2) (23/16) exTri (exSg c)) := by
  have hinv := inv_matrix_correct_2d exK2 (by unfold IsSymm; decide +kernel) (by decide +kernel)
  have hpd : PosDef (invMatrix 2 exK2) :=
    posDef_inv exK2 _ (posDef_2d exK2 (by unfold IsSymm; decide +kernel) (by decide +kernel) (by decide +kernel)) hinv
  exact (rt0_global_mass_spd 2 5 2 (by norm_num) exF (fun _ => invMatrix 2 exK2) (fun _ => 23/16) (fun _ => exTri) exSg
    (fun _ => hpd) (fun _ => by unfold IsSymm; decide +kernel) (fun _ => by decide +kernel)
    (fun _ => affineIndep_2d exTri (by decide +kernel)) (by decide +kernel) (by decide +kernel)).2

/-- uniqueness is not vacuous: the assembled 2-cell system satisfies its hypotheses (previous two examples) -/
example : faceSign 5 2 3 exF exSg 2 = 0 ∧ faceSign 5 2 3 exF exSg 0 = 1 := by decide +kernel

end PorepyVerif.C18
