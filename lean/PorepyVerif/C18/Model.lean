/-
C18 — executable model of the LOCAL matrices of the two mixed discretisations (core Lean only).

  * `porepy.numerics.fem.rt0.RT0.massHdiv`        → `rt0Mass`
  * `porepy.numerics.fem.rt0.RT0.faces_to_cell`   → `rt0Proj`   (before the rotation `R.T`)
  * `porepy.numerics.vem.mvem.MVEM.massHdiv`      → `mvemD / mvemG / mvemF / mvemPi / mvemMass`
  * `DualElliptic._inv_matrix_{1,2,3}d`           → `invMatrix1d / 2d / 3d`
  * the local part of `DualElliptic.assemble_matrix` / `assemble_rhs` (one cell's rows of
    `[[M, divᵀ],[div, 0]]` with `div = -cell_facesᵀ`, Dirichlet term `-sign·p_bc`) → `localResidual`

All numbers are rationals; a simplex of dimension `d` is given by its `d+1` vertices
`x j : Vec d`, vertex `j` being the one OPPOSITE to local face `j` (this is exactly the array
`coord_loc = node_coords[:, cell_face_to_opposite_node[c]]` handed to `RT0.massHdiv`).
Vectors are functions `Fin d → Rat`, sums are the structural recursion `sumFin`, so the
definitions are generic in the dimension and the theorems hold for every `d` (1-D segment,
2-D triangle, 3-D tetrahedron and beyond).
-/
namespace PorepyVerif.C18

/-- `Σ_{i<n} f i` by structural recursion on `n`. -/
def sumFin : (n : Nat) → (Fin n → Rat) → Rat
  | 0, _ => 0
  | n + 1, f => f 0 + sumFin n (fun i => f i.succ)

abbrev Vec (d : Nat) := Fin d → Rat
abbrev Mat (m n : Nat) := Fin m → Fin n → Rat

def dot {d : Nat} (u v : Vec d) : Rat := sumFin d fun a => u a * v a
def mulVec {m n : Nat} (A : Mat m n) (v : Vec n) : Vec m := fun i => sumFin n fun j => A i j * v j
def vsub {d : Nat} (u v : Vec d) : Vec d := fun a => u a - v a
def matMul {m n k : Nat} (A : Mat m n) (B : Mat n k) : Mat m k := fun i j => sumFin n fun l => A i l * B l j
def transpose {m n : Nat} (A : Mat m n) : Mat n m := fun i j => A j i
def idMat (n : Nat) : Mat n n := fun i j => if i = j then 1 else 0

/-- `yᵀ A y` -/
def quadForm {n : Nat} (A : Mat n n) (y : Vec n) : Rat := dot y (mulVec A y)

/-! ### explicit inverses of symmetric matrices, `DualElliptic._inv_matrix_{1,2,3}d` -/

def mk2 (a b c d : Rat) : Mat 2 2 := fun i j =>
  match i.val, j.val with
  | 0, 0 => a | 0, _ => b
  | _, 0 => c | _, _ => d

def mk3 (a b c d e f g h k : Rat) : Mat 3 3 := fun i j =>
  match i.val, j.val with
  | 0, 0 => a | 0, 1 => b | 0, _ => c
  | 1, 0 => d | 1, 1 => e | 1, _ => f
  | _, 0 => g | _, 1 => h | _, _ => k

def invMatrix1d (K : Mat 1 1) : Mat 1 1 := fun _ _ => 1 / K 0 0

def det2 (K : Mat 2 2) : Rat := K 0 0 * K 1 1 - K 0 1 * K 0 1

def invMatrix2d (K : Mat 2 2) : Mat 2 2 := fun i j =>
  mk2 (K 1 1) (-K 0 1) (-K 0 1) (K 0 0) i j / det2 K

def det3 (K : Mat 3 3) : Rat :=
  K 0 0 * K 1 1 * K 2 2 - K 0 0 * K 1 2 * K 1 2 - K 0 1 * K 0 1 * K 2 2
    + 2 * K 0 1 * K 0 2 * K 1 2 - K 0 2 * K 0 2 * K 1 1

/-- as coded, including the entry `K[0,2]*K[1,0] - K[0,0]*K[1,2]` that reads the LOWER triangle -/
def invMatrix3d (K : Mat 3 3) : Mat 3 3 := fun i j =>
  mk3 (K 1 1 * K 2 2 - K 1 2 * K 1 2) (K 0 2 * K 1 2 - K 0 1 * K 2 2) (K 0 1 * K 1 2 - K 0 2 * K 1 1)
      (K 0 2 * K 1 2 - K 0 1 * K 2 2) (K 0 0 * K 2 2 - K 0 2 * K 0 2) (K 0 2 * K 1 0 - K 0 0 * K 1 2)
      (K 0 1 * K 1 2 - K 0 2 * K 1 1) (K 0 1 * K 0 2 - K 0 0 * K 1 2) (K 0 0 * K 1 1 - K 0 1 * K 0 1) i j / det3 K

/-- the dispatch `inv_matrix = self._inv_matrix_{sd.dim}d` of `discretize` (only 1, 2, 3 exist) -/
def invMatrix : (d : Nat) → Mat d d → Mat d d
  | 1, K => invMatrix1d K
  | 2, K => invMatrix2d K
  | 3, K => invMatrix3d K
  | _, K => K

/-! ### RT0 -/

/-- Entry of `HB` between the blocks of vertex `i` and vertex `l`: `HB = (I + 1·1ᵀ) ⊗ I_d /
    (d·d·(d+1)·(d+2))`, built in `RT0.discretize` from shifted diagonals. -/
def hbCoef (d : Nat) (i l : Fin (d + 1)) : Rat :=
  (if i = l then 2 else 1) / ((d : Rat) * d * (d + 1) * (d + 2))

/-- `RT0.massHdiv(inv_K, c_volume, coord, sign, dim, HB)` = `Cᵀ Nᵀ HB (I ⊗ inv_K / V) N C`,
    where column `k` of `N` stacks the vectors `x l − x k` (all vertices `l`) and `C = diag(sign)`. -/
def rt0Mass (d : Nat) (Kinv : Mat d d) (V : Rat) (x : Fin (d + 1) → Vec d) (s : Fin (d + 1) → Rat) :
    Mat (d + 1) (d + 1) := fun j k =>
  s j * (sumFin (d + 1) fun i => sumFin (d + 1) fun l =>
    hbCoef d i l * dot (vsub (x i) (x j)) (mulVec (fun a b => Kinv a b / V) (vsub (x l) (x k)))) * s k

/-- `RT0.faces_to_cell` in the mapped coordinates (the final `R.T @ P` is glue): column `j` is
    `(pt − x_j) / ((fc_j − x_j)·n_j)` with `fc_j`, `n_j` centre and (area weighted, globally oriented)
    normal of the face opposite to `x_j`. -/
def rt0Proj (d : Nat) (pt : Vec d) (x fc nrm : Fin (d + 1) → Vec d) : Fin (d + 1) → Vec d :=
  fun j a => (pt a - x j a) / dot (vsub (fc j) (x j)) (nrm j)

/-! ### MVEM (any polytope with `m` faces) -/

/-- `grad = eye(dim) / diam` (row `a`) -/
def mvemGrad (d : Nat) (diam : Rat) : Mat d d := fun a b => (if a = b then 1 else 0) / diam

/-- `D[f, a] = normals[:, f] · (K @ grad[a])` -/
def mvemD (d m : Nat) (K : Mat d d) (nrm : Fin m → Vec d) (diam : Rat) : Mat m d :=
  fun f a => dot (nrm f) (mulVec K (mvemGrad d diam a))

/-- `G = grad K gradᵀ · c_volume` -/
def mvemG (d : Nat) (K : Mat d d) (V diam : Rat) : Mat d d :=
  fun a b => dot (mvemGrad d diam a) (mulVec K (mvemGrad d diam b)) * V

/-- `F[a, f] = sign_f · (f_centers[a, f] − c_center[a]) / diam` -/
def mvemF (d m : Nat) (c : Vec d) (fc : Fin m → Vec d) (s : Fin m → Rat) (diam : Rat) : Mat d m :=
  fun a f => s f * ((fc f a - c a) / diam)

/-- `Pi_s = solve(G, F)`, with the inverse of `G` as a parameter -/
def mvemPi {d m : Nat} (Ginv : Mat d d) (F : Mat d m) : Mat d m := matMul Ginv F

/-- maximum of `f i`, `i < n` (0 for `n = 0`) -/
def maxFin : (n : Nat) → (Fin n → Rat) → Rat
  | 0, _ => 0
  | n + 1, f => let r := maxFin n (fun i => f i.succ); if f 0 ≤ r then r else f 0

def absR (q : Rat) : Rat := if q < 0 then -q else q

/-- `np.linalg.norm(inv_K, np.inf)`: largest absolute row sum -/
def normInf {n : Nat} (A : Mat n n) : Rat := maxFin n fun i => sumFin n fun j => absR (A i j)

/-- `A = Pi_sᵀ G Pi_s + w (I − D Pi_s)ᵀ (I − D Pi_s)` for given `G`, `Pi_s`, `D`, `w` -/
def mvemAssemble {d m : Nat} (G : Mat d d) (Pi : Mat d m) (D : Mat m d) (w : Rat) : Mat m m :=
  let IPi : Mat m m := fun f g => idMat m f g - matMul D Pi f g
  fun f g => matMul (transpose Pi) (matMul G Pi) f g + w * matMul (transpose IPi) IPi f g

/-- `MVEM.massHdiv(K, inv_K, c_center, c_volume, f_centers, normals, sign, diam, weight)[0]`
    with `Ginv` standing for the solve with `G`. -/
def mvemMassWith (d m : Nat) (Ginv : Mat d d) (K Kinv : Mat d d) (c : Vec d) (V : Rat)
    (fc nrm : Fin m → Vec d) (s : Fin m → Rat) (diam weight : Rat) : Mat m m :=
  mvemAssemble (mvemG d K V diam) (mvemPi Ginv (mvemF d m c fc s diam)) (mvemD d m K nrm diam)
    (weight * normInf Kinv)

/-- … the solve modelled by the explicit inverse of `G` (dimension 1, 2, 3) -/
def mvemMass (d m : Nat) (K Kinv : Mat d d) (c : Vec d) (V : Rat)
    (fc nrm : Fin m → Vec d) (s : Fin m → Rat) (diam weight : Rat) : Mat m m :=
  mvemMassWith d m (invMatrix d (mvemG d K V diam)) K Kinv c V fc nrm s diam weight

/-- second output of `MVEM.massHdiv` -/
def mvemPiOf (d m : Nat) (K : Mat d d) (c : Vec d) (V : Rat)
    (fc : Fin m → Vec d) (s : Fin m → Rat) (diam : Rat) : Mat d m :=
  mvemPi (invMatrix d (mvemG d K V diam)) (mvemF d m c fc s diam)

/-! ### the rows of the saddle-point system that belong to one cell

`DualElliptic.assemble_matrix` builds `[[M, divᵀ], [div, 0]]` with `div = -cell_facesᵀ`, and
`assemble_rhs` puts `-sign_f · bc_val_f` on Dirichlet faces.  The contribution of ONE cell (local
mass matrix `A`, signs `s`, cell pressure `pc`) to the face row `f` is
`Σ_g A f g · u g − s f · pc`; summed over the (one or two) cells of `f` it has to equal
`-sign_f·p_bc(f)` on a Dirichlet face and `0` on an interior face.  `localResidual` is that
contribution plus `s f · pf` (`pf` the pressure value at the face centre): if it vanishes in
every cell, the face rows hold, because on an interior face the two signs cancel. -/
def localResidual {m : Nat} (A : Mat m m) (s : Fin m → Rat) (u : Vec m) (pc : Rat) (pf : Fin m → Rat)
    (f : Fin m) : Rat :=
  sumFin m (fun g => A f g * u g) - s f * pc + s f * pf f

/-- the cell row: `-(cell_facesᵀ u)_c` (zero source) -/
def localDivergence {m : Nat} (s : Fin m → Rat) (u : Vec m) : Rat := - sumFin m fun g => s g * u g

/-! ### predicates and data used by the property theorems -/

def IsSymm {n : Nat} (A : Mat n n) : Prop := ∀ i j, A i j = A j i
def NonZero {n : Nat} (v : Vec n) : Prop := ∃ i, v i ≠ 0
def PosDef {n : Nat} (A : Mat n n) : Prop := ∀ v : Vec n, NonZero v → 0 < quadForm A v
def PosSemidef {n : Nat} (A : Mat n n) : Prop := ∀ v : Vec n, 0 ≤ quadForm A v
/-- `B` is a two-sided inverse of `A` -/
def IsInverse {n : Nat} (B A : Mat n n) : Prop :=
  (∀ i j, matMul B A i j = idMat n i j) ∧ (∀ i j, matMul A B i j = idMat n i j)

/-- the `d+1` vertices are affinely independent (the simplex is not degenerate) -/
def AffineIndep {d : Nat} (x : Fin (d + 1) → Vec d) : Prop :=
  ∀ t : Vec (d + 1), sumFin (d + 1) t = 0 → (∀ a, sumFin (d + 1) (fun j => t j * x j a) = 0) → ∀ j, t j = 0

/-- cell centre of a simplex -/
def centroid {d : Nat} (x : Fin (d + 1) → Vec d) : Vec d :=
  fun a => sumFin (d + 1) (fun i => x i a) / ((d : Rat) + 1)

/-- centre of the face opposite to vertex `j` -/
def faceCentre {d : Nat} (x : Fin (d + 1) → Vec d) (j : Fin (d + 1)) : Vec d :=
  fun a => (sumFin (d + 1) (fun i => x i a) - x j a) / (d : Rat)

/-- The divergence theorem for constant and linear fields on one cell with `m` faces (this is
    what property C19 establishes for the grid geometry): with `s f · nrm f` the outward, area
    weighted normal of face `f` and `fc f` its centre, `Σ s n = 0` and `Σ s fc ⊗ n = V · I`.
    `MVEM.massHdiv` asserts exactly this (`G = F D`). -/
def DivThm {d m : Nat} (V : Rat) (s : Vec m) (fc nrm : Fin m → Vec d) : Prop :=
  (∀ b, sumFin m (fun f => s f * nrm f b) = 0) ∧
  (∀ a b, sumFin m (fun f => s f * fc f a * nrm f b) = if a = b then V else 0)

/-- Darcy velocity `−K a` of the linear pressure `p(y) = a·y + b` -/
def darcy {d : Nat} (K : Mat d d) (a : Vec d) : Vec d := fun i => - mulVec K a i
def linP {d : Nat} (a : Vec d) (b : Rat) (y : Vec d) : Rat := dot a y + b
/-- flux of the constant velocity `U` through every face (global normal orientation) -/
def faceFlux {d m : Nat} (U : Vec d) (nrm : Fin m → Vec d) : Vec m := fun f => dot U (nrm f)

/-! explicit outward normals (for positive orientation) and signed volumes of simplices -/

def cross (u v : Vec 3) : Vec 3 := fun a =>
  match a.val with
  | 0 => u 1 * v 2 - u 2 * v 1
  | 1 => u 2 * v 0 - u 0 * v 2
  | _ => u 0 * v 1 - u 1 * v 0

def simplexNormal1 (_x : Fin 2 → Vec 1) : Fin 2 → Vec 1 := fun j _ =>
  match j.val with
  | 0 => 1
  | _ => -1
def signedVol1 (x : Fin 2 → Vec 1) : Rat := x 1 0 - x 0 0

/-- edge `p → q` rotated by −90° -/
def rotEdge (p q : Vec 2) : Vec 2 := fun a =>
  match a.val with
  | 0 => q 1 - p 1
  | _ => p 0 - q 0
def simplexNormal2 (x : Fin 3 → Vec 2) : Fin 3 → Vec 2 := fun j =>
  match j.val with
  | 0 => rotEdge (x 1) (x 2)
  | 1 => rotEdge (x 2) (x 0)
  | _ => rotEdge (x 0) (x 1)
def signedVol2 (x : Fin 3 → Vec 2) : Rat :=
  ((x 1 0 - x 0 0) * (x 2 1 - x 0 1) - (x 2 0 - x 0 0) * (x 1 1 - x 0 1)) / 2

def simplexNormal3 (x : Fin 4 → Vec 3) : Fin 4 → Vec 3 := fun j a =>
  (match j.val with
   | 0 => cross (vsub (x 2) (x 1)) (vsub (x 3) (x 1)) a
   | 1 => cross (vsub (x 3) (x 0)) (vsub (x 2) (x 0)) a
   | 2 => cross (vsub (x 1) (x 0)) (vsub (x 3) (x 0)) a
   | _ => cross (vsub (x 2) (x 0)) (vsub (x 1) (x 0)) a) / 2
def signedVol3 (x : Fin 4 → Vec 3) : Rat :=
  dot (vsub (x 1) (x 0)) (cross (vsub (x 2) (x 0)) (vsub (x 3) (x 0))) / 6

/-- leading principal minors (Sylvester's criterion) -/
def minor2 {n : Nat} (K : Mat n n) (i j : Fin n) : Rat := K i i * K j j - K i j * K i j

/-- the RT0 field `Σ_j t_j (x − x_j)` (i.e. `d·V·Σ_j t_j φ_j`) evaluated at vertex `i` -/
def rt0Field {d : Nat} (x : Fin (d + 1) → Vec d) (t : Vec (d + 1)) (i : Fin (d + 1)) : Vec d :=
  fun a => sumFin (d + 1) fun j => t j * (x i a - x j a)

/-! ### concrete data for the non-vacuity examples -/

def vec1 (a : Rat) : Vec 1 := fun _ => a
def vec2 (a b : Rat) : Vec 2 := fun i => match i.val with | 0 => a | _ => b
def vec3 (a b c : Rat) : Vec 3 := fun i => match i.val with | 0 => a | 1 => b | _ => c
def vec4 (a b c d : Rat) : Vec 4 := fun i => match i.val with | 0 => a | 1 => b | 2 => c | _ => d
def pts2 {d : Nat} (p q : Vec d) : Fin 2 → Vec d := fun i => match i.val with | 0 => p | _ => q
def pts3 {d : Nat} (p q r : Vec d) : Fin 3 → Vec d := fun i => match i.val with | 0 => p | 1 => q | _ => r
def pts4 {d : Nat} (p q r t : Vec d) : Fin 4 → Vec d := fun i => match i.val with | 0 => p | 1 => q | 2 => r | _ => t

/-- a segment, a triangle of negative orientation and a tetrahedron with rational vertices -/
def exSeg : Fin 2 → Vec 1 := pts2 (vec1 (1/2)) (vec1 2)
def exTri : Fin 3 → Vec 2 := pts3 (vec2 0 0) (vec2 (1/2) 2) (vec2 (3/2) (1/4))
def exTet : Fin 4 → Vec 3 := pts4 (vec3 0 0 0) (vec3 1 0 (1/2)) (vec3 (1/4) 1 0) (vec3 0 (1/2) 2)
def exK1 : Mat 1 1 := fun _ _ => 3/2
def exK2 : Mat 2 2 := mk2 2 (1/2) (1/2) 1
def exK3 : Mat 3 3 := mk3 2 (1/2) (1/4) (1/2) 1 0 (1/4) 0 1
def exS2 : Vec 2 := vec2 1 (-1)
def exS3 : Vec 3 := vec3 1 (-1) 1
def exS4 : Vec 4 := vec4 (-1) 1 1 (-1)

/-! ### from one cell to the grid: assembly of the global saddle-point system

A grid with `nf` faces and `nc` cells, every cell with `m` local faces; `f c j` is the global
number of local face `j` of cell `c` (`faces_loc` in `discretize`), `s c j` its `cell_faces` sign. -/

def delta {n : Nat} (a b : Fin n) : Rat := if a = b then 1 else 0

/-- `mass = coo_matrix((data_A, (rows_A, cols_A)))`: local matrices scattered by the face map
    (duplicates are summed) -/
def assemble (nf nc m : Nat) (f : Fin nc → Fin m → Fin nf) (L : Fin nc → Mat m m) : Mat nf nf :=
  fun F G => sumFin nc fun c => sumFin m fun j => sumFin m fun k => delta (f c j) F * L c j k * delta (f c k) G

def restrict {nf m : Nat} (y : Vec nf) (fc : Fin m → Fin nf) : Vec m := fun j => y (fc j)

/-- `div = -sd.cell_faces.T` -/
def divMat (nf nc m : Nat) (f : Fin nc → Fin m → Fin nf) (s : Fin nc → Vec m) : Mat nc nf :=
  fun c F => - sumFin m fun j => delta (f c j) F * s c j

/-- sum of the `cell_faces` signs of a face over its cells: `±1` on a boundary face, `0` on an
    interior face of a well formed grid; `assemble_rhs` puts `-sign_F · p_bc(F)` on Dirichlet faces,
    i.e. the right-hand side of face row `F` is `-faceSign F · p(x_F)` -/
def faceSign (nf nc m : Nat) (f : Fin nc → Fin m → Fin nf) (s : Fin nc → Vec m) (F : Fin nf) : Rat :=
  sumFin nc fun c => sumFin m fun j => delta (f c j) F * s c j

/-- example grid: two triangles sharing face 2 (faces 0,1,2 and 2,3,4) -/
def exF : Fin 2 → Fin 3 → Fin 5 := fun c j =>
  match c.val, j.val with
  | 0, 0 => 0 | 0, 1 => 1 | 0, _ => 2
  | _, 0 => 2 | _, 1 => 3 | _, _ => 4
def exSg : Fin 2 → Vec 3 := fun c => match c.val with | 0 => vec3 1 (-1) 1 | _ => vec3 (-1) 1 1

end PorepyVerif.C18
