/-
C18 — helper lemmas: bridge from the structural sums of `Model.lean` to `Finset.sum`, bilinear
algebra of the RT0 local mass matrix (Gram / sum-of-squares representation), the interpolation
identity, matrix algebra of the MVEM local matrix.
-/
import Mathlib.Algebra.BigOperators.Fin
import Mathlib.Algebra.BigOperators.Field
import Mathlib.LinearAlgebra.Matrix.BilinearForm
import Mathlib.Tactic.Ring
import Mathlib.Tactic.Linarith
import Mathlib.Tactic.FieldSimp
import Mathlib.Tactic.Positivity
import Mathlib.Tactic.FinCases
import Mathlib.Tactic.LinearCombination
import Mathlib.Tactic.NormNum
import PorepyVerif.C18.Model

open Finset BigOperators
namespace PorepyVerif.C18

/-! ### bridge -/

theorem sumFin_eq (n : Nat) (f : Fin n → ℚ) : sumFin n f = ∑ i, f i := by
  induction n with
  | zero => simp [sumFin]
  | succ n ih => rw [sumFin, ih, Fin.sum_univ_succ]

theorem dot_eq {d : Nat} (u v : Vec d) : dot u v = ∑ a, u a * v a := sumFin_eq _ _

theorem mulVec_apply {m n : Nat} (A : Mat m n) (v : Vec n) (i : Fin m) :
    mulVec A v i = ∑ j, A i j * v j := sumFin_eq _ _

theorem matMul_apply {m n k : Nat} (A : Mat m n) (B : Mat n k) (i : Fin m) (j : Fin k) :
    matMul A B i j = ∑ l, A i l * B l j := sumFin_eq _ _

theorem vsub_eq {d : Nat} (u v : Vec d) : vsub u v = u - v := rfl

theorem quadForm_eq {n : Nat} (A : Mat n n) (y : Vec n) :
    quadForm A y = ∑ j, y j * ∑ k, A j k * y k := by
  simp only [quadForm, dot_eq, mulVec_apply]

theorem dot_comm {d : Nat} (u v : Vec d) : dot u v = dot v u := by
  simp only [dot_eq]; exact Finset.sum_congr rfl fun a _ => mul_comm _ _

theorem dot_sub_right {d : Nat} (u v w : Vec d) : dot u (v - w) = dot u v - dot u w := by
  simp only [dot_eq, Pi.sub_apply, mul_sub, Finset.sum_sub_distrib]

theorem dot_self_nonneg {d : Nat} (u : Vec d) : 0 ≤ dot u u := by
  rw [dot_eq]; exact Finset.sum_nonneg fun a _ => mul_self_nonneg _

theorem dot_self_eq_zero {d : Nat} (u : Vec d) (h : dot u u = 0) : u = 0 := by
  rw [dot_eq] at h
  funext a
  have := (Finset.sum_eq_zero_iff_of_nonneg (fun a _ => mul_self_nonneg (u a))).mp h a (Finset.mem_univ _)
  simpa using this

/-- the bilinear form `(u, v) ↦ uᵀ A v` -/
noncomputable def bf {d : Nat} (A : Mat d d) : LinearMap.BilinForm ℚ (Fin d → ℚ) :=
  Matrix.toBilin' (Matrix.of A)

theorem dot_mulVec {d : Nat} (A : Mat d d) (u v : Vec d) : dot u (mulVec A v) = bf A u v := by
  rw [bf, Matrix.toBilin'_apply', dot_eq]
  simp only [dotProduct, Matrix.mulVec, Matrix.of_apply, mulVec_apply]

theorem bf_apply {d : Nat} (A : Mat d d) (u v : Vec d) : bf A u v = ∑ i, ∑ j, u i * A i j * v j := by
  rw [bf, Matrix.toBilin'_apply]; rfl

theorem quadForm_bf {n : Nat} (A : Mat n n) (y : Vec n) : quadForm A y = bf A y y := dot_mulVec A y y

theorem bf_symm {d : Nat} (A : Mat d d) (hA : IsSymm A) (u v : Vec d) : bf A u v = bf A v u := by
  rw [bf_apply, bf_apply, Finset.sum_comm]
  refine Finset.sum_congr rfl fun i _ => Finset.sum_congr rfl fun j _ => ?_
  rw [hA j i]; ring

theorem bf_div {d : Nat} (A : Mat d d) (V : ℚ) (u v : Vec d) :
    bf (fun a b => A a b / V) u v = bf A u v / V := by
  rw [bf_apply, bf_apply, div_eq_mul_inv, Finset.sum_mul]
  refine Finset.sum_congr rfl fun i _ => ?_
  rw [Finset.sum_mul]
  refine Finset.sum_congr rfl fun j _ => ?_
  ring

theorem nonZero_iff {n : Nat} (v : Vec n) : NonZero v ↔ v ≠ 0 := by
  unfold NonZero
  constructor
  · rintro ⟨i, hi⟩ h; exact hi (by rw [h]; rfl)
  · intro h; by_contra hc
    apply h; funext i
    by_contra hi; exact hc ⟨i, hi⟩

/-! ### RT0: Gram representation of the local mass matrix -/

theorem sum_comm4 {n m : Nat} (F : Fin n → Fin n → Fin m → Fin m → ℚ) :
    ∑ i, ∑ l, ∑ j, ∑ k, F i l j k = ∑ j, ∑ k, ∑ i, ∑ l, F i l j k := by
  calc ∑ i, ∑ l, ∑ j, ∑ k, F i l j k
      = ∑ i, ∑ j, ∑ l, ∑ k, F i l j k := Finset.sum_congr rfl fun i _ => Finset.sum_comm
    _ = ∑ j, ∑ i, ∑ l, ∑ k, F i l j k := Finset.sum_comm
    _ = ∑ j, ∑ i, ∑ k, ∑ l, F i l j k :=
        Finset.sum_congr rfl fun j _ => Finset.sum_congr rfl fun i _ => Finset.sum_comm
    _ = ∑ j, ∑ k, ∑ i, ∑ l, F i l j k := Finset.sum_congr rfl fun j _ => Finset.sum_comm

/-- `1 / (d·d·(d+1)·(d+2))` -/
def hbC (d : Nat) : ℚ := 1 / ((d : ℚ) * d * (d + 1) * (d + 2))

theorem hbC_nonneg (d : Nat) : 0 ≤ hbC d := by unfold hbC; positivity

theorem hbC_pos (d : Nat) (hd : 1 ≤ d) : 0 < hbC d := by
  unfold hbC
  have : (0 : ℚ) < d := by exact_mod_cast hd
  positivity

theorem hb_split (d : Nat) (g : Fin (d + 1) → Fin (d + 1) → ℚ) :
    ∑ i, ∑ l, hbCoef d i l * g i l = hbC d * (∑ i, g i i + ∑ i, ∑ l, g i l) := by
  have h : ∀ i l, hbCoef d i l * g i l = hbC d * ((if i = l then g i l else 0) + g i l) := by
    intro i l; unfold hbCoef hbC; split_ifs <;> ring
  simp only [h, ← Finset.mul_sum, Finset.sum_add_distrib, Finset.sum_ite_eq, Finset.mem_univ, if_true]

/-- `w_i = Σ_j t_j (x_i − x_j)`: the RT0 field with coefficients `t` evaluated at vertex `i` (times `d·V`) -/
noncomputable def wvec {d : Nat} (x : Fin (d + 1) → Vec d) (t : Fin (d + 1) → ℚ) (i : Fin (d + 1)) : Vec d :=
  ∑ j, t j • (x i - x j)

theorem rt0Mass_apply (d : Nat) (Kinv : Mat d d) (V : ℚ) (x : Fin (d + 1) → Vec d) (s : Fin (d + 1) → ℚ)
    (j k : Fin (d + 1)) :
    rt0Mass d Kinv V x s j k =
      s j * (∑ i, ∑ l, hbCoef d i l * bf (fun a b => Kinv a b / V) (x i - x j) (x l - x k)) * s k := by
  simp only [rt0Mass, sumFin_eq, dot_mulVec, vsub_eq]

theorem rt0_quad_wvec (d : Nat) (Kinv : Mat d d) (V : ℚ) (x : Fin (d + 1) → Vec d) (s y : Fin (d + 1) → ℚ) :
    quadForm (rt0Mass d Kinv V x s) y =
      ∑ i, ∑ l, hbCoef d i l *
        bf (fun a b => Kinv a b / V) (wvec x (fun j => s j * y j) i) (wvec x (fun j => s j * y j) l) := by
  rw [quadForm_eq]
  simp only [rt0Mass_apply, wvec, LinearMap.BilinForm.sum_left, LinearMap.BilinForm.sum_right,
    LinearMap.BilinForm.smul_left, LinearMap.BilinForm.smul_right, Finset.mul_sum, Finset.sum_mul]
  rw [sum_comm4]
  refine Finset.sum_congr rfl fun i _ => Finset.sum_congr rfl fun l _ => ?_
  rw [Finset.sum_comm]
  refine Finset.sum_congr rfl fun j _ => Finset.sum_congr rfl fun k _ => ?_
  ring

/-- Gram / sum-of-squares representation: `yᵀ M y = c (Σ_i q(w_i) + q(Σ_i w_i))`, `q(v) = vᵀ (K⁻¹/V) v`. -/
theorem rt0_quad_gram (d : Nat) (Kinv : Mat d d) (V : ℚ) (x : Fin (d + 1) → Vec d) (s y : Fin (d + 1) → ℚ) :
    quadForm (rt0Mass d Kinv V x s) y =
      hbC d * ((∑ i, bf (fun a b => Kinv a b / V) (wvec x (fun j => s j * y j) i) (wvec x (fun j => s j * y j) i))
        + bf (fun a b => Kinv a b / V) (∑ i, wvec x (fun j => s j * y j) i) (∑ i, wvec x (fun j => s j * y j) i)) := by
  rw [rt0_quad_wvec, hb_split]
  congr 2
  rw [LinearMap.BilinForm.sum_left]
  refine Finset.sum_congr rfl fun i _ => ?_
  rw [LinearMap.BilinForm.sum_right]

theorem wvec_apply {d : Nat} (x : Fin (d + 1) → Vec d) (t : Fin (d + 1) → ℚ) (i : Fin (d + 1)) (a : Fin d) :
    wvec x t i a = (∑ j, t j) * x i a - ∑ j, t j * x j a := by
  simp only [wvec, Finset.sum_apply, Pi.smul_apply, Pi.sub_apply, smul_eq_mul, mul_sub,
    Finset.sum_sub_distrib, Finset.sum_mul]

/-- `N` has a trivial kernel on a non-degenerate simplex. -/
theorem wvec_injective {d : Nat} (hd : 1 ≤ d) (x : Fin (d + 1) → Vec d) (hx : AffineIndep x)
    (t : Fin (d + 1) → ℚ) (hw : ∀ i, wvec x t i = 0) : ∀ j, t j = 0 := by
  have hw' : ∀ i a, (∑ j, t j) * x i a = ∑ j, t j * x j a := by
    intro i a
    have := congrFun (hw i) a
    rw [wvec_apply] at this
    simpa [sub_eq_zero] using this
  by_cases hT : (∑ j, t j) = 0
  · apply hx t
    · rw [sumFin_eq]; exact hT
    · intro a; rw [sumFin_eq, ← hw' 0 a, hT, zero_mul]
  · -- all vertices coincide: contradiction with affine independence
    exfalso
    have hne : (0 : Fin (d + 1)) ≠ Fin.last d := by
      intro h
      have := congrArg Fin.val h
      simp at this
      omega
    have hxx : ∀ a, x 0 a = x (Fin.last d) a := by
      intro a
      have h1 := hw' 0 a
      have h2 := hw' (Fin.last d) a
      exact mul_left_cancel₀ hT (h1.trans h2.symm)
    have := hx (fun j => (if j = 0 then 1 else 0) - (if j = Fin.last d then 1 else 0))
      (by rw [sumFin_eq]; simp [Finset.sum_sub_distrib])
      (by intro a; rw [sumFin_eq]; simp [sub_mul, Finset.sum_sub_distrib, hxx a]) 0
    simp [hne] at this

theorem hbCoef_symm (d : Nat) (i l : Fin (d + 1)) : hbCoef d i l = hbCoef d l i := by
  unfold hbCoef
  by_cases h : i = l
  · subst h; rfl
  · rw [if_neg h, if_neg (Ne.symm h)]

theorem rt0Mass_symm (d : Nat) (Kinv : Mat d d) (hK : IsSymm Kinv) (V : ℚ) (x : Fin (d + 1) → Vec d)
    (s : Fin (d + 1) → ℚ) (j k : Fin (d + 1)) :
    rt0Mass d Kinv V x s j k = rt0Mass d Kinv V x s k j := by
  have hA : IsSymm (fun a b => Kinv a b / V) := fun a b => by
    show Kinv a b / V = Kinv b a / V
    rw [hK a b]
  rw [rt0Mass_apply, rt0Mass_apply]
  have h : ∑ i, ∑ l, hbCoef d i l * bf (fun a b => Kinv a b / V) (x i - x k) (x l - x j)
      = ∑ i, ∑ l, hbCoef d i l * bf (fun a b => Kinv a b / V) (x i - x j) (x l - x k) := by
    rw [Finset.sum_comm]
    refine Finset.sum_congr rfl fun i _ => Finset.sum_congr rfl fun l _ => ?_
    rw [bf_symm _ hA, hbCoef_symm]
  rw [h]; ring

theorem posDef_semidef {n : Nat} (A : Mat n n) (hA : PosDef A) : PosSemidef A := by
  intro v
  by_cases hv : v = 0
  · subst hv
    rw [quadForm_bf]; simp
  · exact (hA v ((nonZero_iff v).mpr hv)).le

theorem bfdiv_nonneg {d : Nat} (Kinv : Mat d d) (V : ℚ) (hK : PosSemidef Kinv) (hV : 0 < V) (v : Vec d) :
    0 ≤ bf (fun a b => Kinv a b / V) v v := by
  rw [bf_div, ← quadForm_bf]; exact div_nonneg (hK v) hV.le

theorem bfdiv_pos {d : Nat} (Kinv : Mat d d) (V : ℚ) (hK : PosDef Kinv) (hV : 0 < V) (v : Vec d) (hv : v ≠ 0) :
    0 < bf (fun a b => Kinv a b / V) v v := by
  rw [bf_div, ← quadForm_bf]; exact div_pos (hK v ((nonZero_iff v).mpr hv)) hV

theorem rt0_psd (d : Nat) (Kinv : Mat d d) (V : ℚ) (x : Fin (d + 1) → Vec d) (s : Fin (d + 1) → ℚ)
    (hK : PosSemidef Kinv) (hV : 0 < V) : PosSemidef (rt0Mass d Kinv V x s) := by
  intro y
  rw [rt0_quad_gram]
  exact mul_nonneg (hbC_nonneg d) (add_nonneg (Finset.sum_nonneg fun i _ => bfdiv_nonneg Kinv V hK hV _)
    (bfdiv_nonneg Kinv V hK hV _))

theorem rt0_spd (d : Nat) (hd : 1 ≤ d) (Kinv : Mat d d) (V : ℚ) (x : Fin (d + 1) → Vec d) (s : Fin (d + 1) → ℚ)
    (hK : PosDef Kinv) (hV : 0 < V) (hx : AffineIndep x) (hs : ∀ j, s j ≠ 0) :
    PosDef (rt0Mass d Kinv V x s) := by
  intro y hy
  have hK0 := posDef_semidef Kinv hK
  rw [rt0_quad_gram]
  apply mul_pos (hbC_pos d hd)
  have hex : ∃ i, wvec x (fun j => s j * y j) i ≠ 0 := by
    by_contra hcon
    have hcon' : ∀ i, wvec x (fun j => s j * y j) i = 0 := fun i => by
      by_contra h; exact hcon ⟨i, h⟩
    have ht := wvec_injective hd x hx (fun j => s j * y j) hcon'
    obtain ⟨j, hj⟩ := hy
    rcases mul_eq_zero.mp (ht j) with h | h
    · exact hs j h
    · exact hj h
  obtain ⟨i, hi⟩ := hex
  apply add_pos_of_pos_of_nonneg
  · exact Finset.sum_pos' (fun i _ => bfdiv_nonneg Kinv V hK0 hV _)
      ⟨i, Finset.mem_univ _, bfdiv_pos Kinv V hK hV _ hi⟩
  · exact bfdiv_nonneg Kinv V hK0 hV _

/-! ### interpolation identity and local exactness of RT0 -/

theorem divThm_iff {d m : Nat} (V : ℚ) (s : Vec m) (fc nrm : Fin m → Vec d) :
    DivThm V s fc nrm ↔ (∀ b, ∑ f, s f * nrm f b = 0) ∧
      (∀ a b, ∑ f, s f * fc f a * nrm f b = if a = b then V else 0) := by
  simp only [DivThm, sumFin_eq]

theorem faceCentre_apply {d : Nat} (x : Fin (d + 1) → Vec d) (j : Fin (d + 1)) (a : Fin d) :
    faceCentre x j a = ((∑ i, x i a) - x j a) / d := by
  simp only [faceCentre, sumFin_eq]

theorem centroid_apply {d : Nat} (x : Fin (d + 1) → Vec d) (a : Fin d) :
    centroid x a = (∑ i, x i a) / ((d : ℚ) + 1) := by
  simp only [centroid, sumFin_eq]

/-- `Σ_g s_g n_g ⊗ (y − x_g) = d V · I` on a simplex for which the divergence theorem holds -/
theorem simplex_moment {d : Nat} (hd : (d : ℚ) ≠ 0) (V : ℚ) (x nrm : Fin (d + 1) → Vec d) (s : Vec (d + 1))
    (hdiv : DivThm V s (faceCentre x) nrm) (y : Vec d) (a b : Fin d) :
    ∑ g, s g * nrm g a * (y b - x g b) = if b = a then d * V else 0 := by
  obtain ⟨h1, h2⟩ := (divThm_iff _ _ _ _).mp hdiv
  have e : ∀ g, s g * nrm g a * (y b - x g b)
      = (y b - ∑ i, x i b) * (s g * nrm g a) + d * (s g * faceCentre x g b * nrm g a) := by
    intro g; rw [faceCentre_apply]; field_simp; ring
  simp only [e, Finset.sum_add_distrib, ← Finset.mul_sum]
  rw [h1 a, h2 b a]
  split_ifs <;> ring

/-- interpolation: `Σ_g (s_g U·n_g) (y − x_g) = d V U` -/
theorem rt0_interp {d : Nat} (hd : (d : ℚ) ≠ 0) (V : ℚ) (x nrm : Fin (d + 1) → Vec d) (s : Vec (d + 1))
    (hdiv : DivThm V s (faceCentre x) nrm) (U y : Vec d) (b : Fin d) :
    ∑ g, s g * dot U (nrm g) * (y b - x g b) = d * V * U b := by
  have e : ∀ g, s g * dot U (nrm g) * (y b - x g b) = ∑ a, U a * (s g * nrm g a * (y b - x g b)) := by
    intro g
    rw [dot_eq, Finset.mul_sum, Finset.sum_mul]
    exact Finset.sum_congr rfl fun a _ => by ring
  simp only [e]
  rw [Finset.sum_comm]
  simp only [← Finset.mul_sum, simplex_moment hd V x nrm s hdiv]
  simp only [mul_ite, mul_zero, Finset.sum_ite_eq, Finset.mem_univ, if_true]
  ring

theorem isInverse_iff {n : Nat} (B A : Mat n n) :
    IsInverse B A ↔ (∀ i j, ∑ l, B i l * A l j = if i = j then 1 else 0) ∧
      (∀ i j, ∑ l, A i l * B l j = if i = j then 1 else 0) := by
  simp only [IsInverse, matMul_apply, idMat]

theorem isInverse_mulVec {n : Nat} (B A : Mat n n) (h : IsInverse B A) (v : Vec n) :
    mulVec B (mulVec A v) = v := by
  obtain ⟨h1, _⟩ := (isInverse_iff B A).mp h
  funext i
  simp only [mulVec_apply, Finset.mul_sum]
  rw [Finset.sum_comm]
  have e : ∀ l, ∑ j, B i j * (A j l * v l) = (∑ j, B i j * A j l) * v l := by
    intro l; rw [Finset.sum_mul]; exact Finset.sum_congr rfl fun j _ => by ring
  simp only [e, h1, ite_mul, one_mul, zero_mul, Finset.sum_ite_eq, Finset.mem_univ, if_true]

theorem mulVec_darcy {d : Nat} (K Kinv : Mat d d) (V : ℚ) (hinv : IsInverse Kinv K) (a : Vec d) :
    mulVec (fun i j => Kinv i j / V) (darcy K a) = fun c => - a c / V := by
  funext c
  have h := congrFun (isInverse_mulVec Kinv K hinv a) c
  rw [mulVec_apply] at h
  rw [mulVec_apply, ← h, neg_div, Finset.sum_div, ← Finset.sum_neg_distrib]
  refine Finset.sum_congr rfl fun j _ => ?_
  simp only [darcy]; ring

theorem dot_centroid {d : Nat} (a : Vec d) (x : Fin (d + 1) → Vec d) :
    dot a (centroid x) = (∑ i, dot a (x i)) / ((d : ℚ) + 1) := by
  simp only [dot_eq, centroid_apply]
  rw [Finset.sum_comm, Finset.sum_div]
  refine Finset.sum_congr rfl fun c _ => ?_
  rw [← Finset.mul_sum, mul_div_assoc]

theorem dot_faceCentre {d : Nat} (a : Vec d) (x : Fin (d + 1) → Vec d) (f : Fin (d + 1)) :
    dot a (faceCentre x f) = ((∑ i, dot a (x i)) - dot a (x f)) / (d : ℚ) := by
  simp only [dot_eq, faceCentre_apply]
  rw [Finset.sum_comm, ← Finset.sum_sub_distrib, Finset.sum_div]
  refine Finset.sum_congr rfl fun c _ => ?_
  rw [← Finset.mul_sum, ← mul_sub, mul_div_assoc]

/-- `vᵀ (K⁻¹/V) (−K a) = −(a·v)/V` -/
theorem bf_darcy {d : Nat} (K Kinv : Mat d d) (V : ℚ) (hinv : IsInverse Kinv K) (a v w : Vec d) :
    bf (fun i j => Kinv i j / V) (v - w) (darcy K a) = -(dot a v - dot a w) / V := by
  rw [← dot_mulVec, mulVec_darcy K Kinv V hinv a, dot_eq, dot_eq, dot_eq, ← Finset.sum_sub_distrib,
    neg_div, Finset.sum_div, ← Finset.sum_neg_distrib]
  refine Finset.sum_congr rfl fun c _ => ?_
  simp only [Pi.sub_apply]; ring

/-- the mass-matrix row applied to the exact fluxes -/
theorem rt0_row_exact {d : Nat} (hd : 1 ≤ d) (K Kinv : Mat d d) (V : ℚ) (hV : V ≠ 0)
    (x nrm : Fin (d + 1) → Vec d) (s : Vec (d + 1)) (hinv : IsInverse Kinv K)
    (hdiv : DivThm V s (faceCentre x) nrm) (a : Vec d) (f : Fin (d + 1)) :
    ∑ g, rt0Mass d Kinv V x s f g * faceFlux (darcy K a) nrm g
      = - s f * ((∑ i, dot a (x i)) - ((d : ℚ) + 1) * dot a (x f)) / ((d : ℚ) * (d + 1)) := by
  have hd0 : (d : ℚ) ≠ 0 := by
    have : (0 : ℚ) < d := by exact_mod_cast hd
    exact this.ne'
  set U := darcy K a with hU
  set A : Mat d d := fun i j => Kinv i j / V with hA
  -- Σ_g (s_g u_g) (x_l − x_g) = d V U
  have hr : ∀ l, ∑ g, (s g * faceFlux U nrm g) • (x l - x g) = ((d : ℚ) * V) • U := by
    intro l; funext b
    simp only [Finset.sum_apply, Pi.smul_apply, Pi.sub_apply, smul_eq_mul, faceFlux]
    exact rt0_interp hd0 V x nrm s hdiv U (x l) b
  have hB : ∀ i l, ∑ g, (s g * faceFlux U nrm g) * bf A (x i - x f) (x l - x g)
      = (d : ℚ) * V * bf A (x i - x f) U := by
    intro i l
    have := congrArg (fun r => bf A (x i - x f) r) (hr l)
    simp only [LinearMap.BilinForm.sum_right, LinearMap.BilinForm.smul_right] at this
    exact this
  have e1 : ∀ g, rt0Mass d Kinv V x s f g * faceFlux U nrm g
      = ∑ i, ∑ l, s f * hbCoef d i l * ((s g * faceFlux U nrm g) * bf A (x i - x f) (x l - x g)) := by
    intro g
    rw [rt0Mass_apply]
    simp only [Finset.mul_sum, Finset.sum_mul]
    exact Finset.sum_congr rfl fun i _ => Finset.sum_congr rfl fun l _ => by ring
  calc ∑ g, rt0Mass d Kinv V x s f g * faceFlux U nrm g
      = ∑ g, ∑ i, ∑ l, s f * hbCoef d i l * ((s g * faceFlux U nrm g) * bf A (x i - x f) (x l - x g)) :=
        Finset.sum_congr rfl fun g _ => e1 g
    _ = ∑ i, ∑ l, ∑ g, s f * hbCoef d i l * ((s g * faceFlux U nrm g) * bf A (x i - x f) (x l - x g)) := by
        rw [Finset.sum_comm]; exact Finset.sum_congr rfl fun i _ => Finset.sum_comm
    _ = ∑ i, ∑ l, hbCoef d i l * (-(s f * d * (dot a (x i) - dot a (x f)))) := by
        refine Finset.sum_congr rfl fun i _ => Finset.sum_congr rfl fun l _ => ?_
        rw [← Finset.mul_sum, hB i l, bf_darcy K Kinv V hinv a]
        field_simp
    _ = - s f * ((∑ i, dot a (x i)) - ((d : ℚ) + 1) * dot a (x f)) / ((d : ℚ) * (d + 1)) := by
        rw [hb_split]
        simp only [Finset.sum_const, Finset.card_univ, Fintype.card_fin, nsmul_eq_mul, Nat.cast_add,
          Nat.cast_one, Finset.sum_neg_distrib, ← Finset.mul_sum, Finset.sum_sub_distrib]
        unfold hbC
        have h1 : (d : ℚ) + 1 ≠ 0 := by positivity
        have h2 : (d : ℚ) + 2 ≠ 0 := by positivity
        field_simp
        ring

theorem rt0_exact {d : Nat} (hd : 1 ≤ d) (K Kinv : Mat d d) (V : ℚ) (hV : V ≠ 0)
    (x nrm : Fin (d + 1) → Vec d) (s : Vec (d + 1)) (hinv : IsInverse Kinv K)
    (hdiv : DivThm V s (faceCentre x) nrm) (a : Vec d) (b : ℚ) (f : Fin (d + 1)) :
    localResidual (rt0Mass d Kinv V x s) s (faceFlux (darcy K a) nrm) (linP a b (centroid x))
      (fun g => linP a b (faceCentre x g)) f = 0 := by
  have hd0 : (d : ℚ) ≠ 0 := by
    have : (0 : ℚ) < d := by exact_mod_cast hd
    exact this.ne'
  have h1 : (d : ℚ) + 1 ≠ 0 := by positivity
  simp only [localResidual, sumFin_eq, linP]
  rw [rt0_row_exact hd K Kinv V hV x nrm s hinv hdiv a f, dot_centroid, dot_faceCentre]
  field_simp
  ring

theorem faceFlux_divfree {d m : Nat} (V : ℚ) (s : Vec m) (fc nrm : Fin m → Vec d)
    (hdiv : DivThm V s fc nrm) (U : Vec d) : localDivergence s (faceFlux U nrm) = 0 := by
  obtain ⟨h1, _⟩ := (divThm_iff _ _ _ _).mp hdiv
  simp only [localDivergence, faceFlux, sumFin_eq, dot_eq, Finset.mul_sum]
  rw [Finset.sum_comm]
  have e : ∀ a, ∑ g, s g * (U a * nrm g a) = U a * ∑ g, s g * nrm g a := by
    intro a; rw [Finset.mul_sum]; exact Finset.sum_congr rfl fun g _ => by ring
  simp only [e, h1, mul_zero, Finset.sum_const_zero, neg_zero]

/-- `RT0.faces_to_cell` reproduces a constant velocity from its face fluxes -/
theorem rt0Proj_exact {d : Nat} (hd : 1 ≤ d) (V : ℚ) (hV : V ≠ 0) (x fc nrm : Fin (d + 1) → Vec d) (s : Vec (d + 1))
    (hs : ∀ g, s g * s g = 1) (hfc : fc = faceCentre x) (hdiv : DivThm V s fc nrm)
    (hden : ∀ g, dot (vsub (fc g) (x g)) (nrm g) = s g * (d * V)) (U pt : Vec d) (a : Fin d) :
    ∑ g, faceFlux U nrm g * rt0Proj d pt x fc nrm g a = U a := by
  have hd0 : (d : ℚ) ≠ 0 := by
    have : (0 : ℚ) < d := by exact_mod_cast hd
    exact this.ne'
  subst hfc
  have e : ∀ g, faceFlux U nrm g * rt0Proj d pt x (faceCentre x) nrm g a
      = (s g * dot U (nrm g) * (pt a - x g a)) / (d * V) := by
    intro g
    have hsg : s g ≠ 0 := fun h => by have := hs g; rw [h] at this; simp at this
    simp only [rt0Proj, faceFlux, hden g]
    have hs2 : s g ^ 2 = 1 := by rw [pow_two]; exact hs g
    field_simp
    rw [hs2, mul_one]
  simp only [e, ← Finset.sum_div]
  rw [rt0_interp hd0 V x nrm s hdiv U pt a]
  field_simp


open Matrix

/-! ### MVEM: matrix algebra -/

/-- view a model matrix as a Mathlib matrix -/
abbrev toM {m n : Nat} (A : Mat m n) : Matrix (Fin m) (Fin n) ℚ := Matrix.of A

theorem toM_matMul {m n k : Nat} (A : Mat m n) (B : Mat n k) : toM (matMul A B) = toM A * toM B := by
  ext i j; simp only [Matrix.of_apply, matMul_apply, Matrix.mul_apply]

theorem mulVec_toM {m n : Nat} (A : Mat m n) (v : Vec n) : mulVec A v = toM A *ᵥ v := by
  funext i; simp only [mulVec_apply, Matrix.mulVec, dotProduct, Matrix.of_apply]

theorem quadForm_toM {n : Nat} (A : Mat n n) (y : Vec n) : quadForm A y = y ⬝ᵥ (toM A *ᵥ y) := by
  rw [quadForm, ← mulVec_toM, dot_eq]; rfl

theorem dot_dotProduct {n : Nat} (u v : Vec n) : dot u v = u ⬝ᵥ v := by rw [dot_eq]; rfl

theorem toM_mvemAssemble {d m : Nat} (G : Mat d d) (Pi : Mat d m) (D : Mat m d) (w : ℚ) :
    toM (mvemAssemble G Pi D w) = (toM Pi)ᵀ * (toM G * toM Pi)
      + w • ((1 - toM D * toM Pi)ᵀ * (1 - toM D * toM Pi)) := by
  ext f g
  simp only [mvemAssemble, matMul_apply, transpose, idMat, Matrix.add_apply, Matrix.smul_apply,
    Matrix.mul_apply, Matrix.transpose_apply, Matrix.sub_apply, Matrix.one_apply, Matrix.of_apply,
    smul_eq_mul]

theorem isInverse_toM {n : Nat} (B A : Mat n n) (h : IsInverse B A) : toM B * toM A = 1 ∧ toM A * toM B = 1 := by
  obtain ⟨h1, h2⟩ := h
  constructor
  · ext i j; rw [← toM_matMul]; simp only [Matrix.of_apply, h1, idMat, Matrix.one_apply]
  · ext i j; rw [← toM_matMul]; simp only [Matrix.of_apply, h2, idMat, Matrix.one_apply]

theorem isSymm_toM {n : Nat} (A : Mat n n) (h : IsSymm A) : (toM A)ᵀ = toM A := by
  ext i j; simp only [Matrix.transpose_apply, Matrix.of_apply]; exact h j i

/-- `yᵀ A y = (Π y)ᵀ G (Π y) + w ‖(I − D Π) y‖²` -/
theorem mvem_quad {d m : Nat} (G : Mat d d) (Pi : Mat d m) (D : Mat m d) (w : ℚ) (y : Vec m) :
    quadForm (mvemAssemble G Pi D w) y
      = quadForm G (mulVec Pi y) + w * dot (y - mulVec D (mulVec Pi y)) (y - mulVec D (mulVec Pi y)) := by
  rw [quadForm_toM, quadForm_toM, toM_mvemAssemble, dot_dotProduct, mulVec_toM, mulVec_toM]
  rw [Matrix.add_mulVec, dotProduct_add, Matrix.smul_mulVec, dotProduct_smul, smul_eq_mul]
  congr 1
  · rw [← Matrix.mulVec_mulVec, Matrix.dotProduct_mulVec, Matrix.vecMul_transpose, Matrix.mulVec_mulVec]
  · rw [← Matrix.mulVec_mulVec, Matrix.dotProduct_mulVec, Matrix.vecMul_transpose]
    rw [Matrix.sub_mulVec, Matrix.one_mulVec, Matrix.mulVec_mulVec]

theorem mvem_spd {d m : Nat} (G : Mat d d) (Pi : Mat d m) (D : Mat m d) (w : ℚ) (hG : PosDef G) (hw : 0 < w) :
    PosDef (mvemAssemble G Pi D w) := by
  intro y hy
  rw [mvem_quad]
  have hy0 : y ≠ 0 := (nonZero_iff y).mp hy
  by_cases hP : mulVec Pi y = 0
  · have h0 : quadForm G (mulVec Pi y) = 0 := by rw [hP, quadForm_bf]; simp
    have hD : mulVec D (0 : Vec d) = 0 := by funext i; simp [mulVec_apply]
    rw [h0, hP, hD, sub_zero, zero_add]
    apply mul_pos hw
    rcases (dot_self_nonneg y).lt_or_eq with h | h
    · exact h
    · exact absurd (dot_self_eq_zero y h.symm) hy0
  · have h1 := hG (mulVec Pi y) ((nonZero_iff _).mpr hP)
    have h2 := dot_self_nonneg (y - mulVec D (mulVec Pi y))
    have := mul_nonneg hw.le h2
    linarith

theorem mvem_symm {d m : Nat} (G : Mat d d) (Pi : Mat d m) (D : Mat m d) (w : ℚ) (hG : IsSymm G) :
    IsSymm (mvemAssemble G Pi D w) := by
  have h : (toM (mvemAssemble G Pi D w))ᵀ = toM (mvemAssemble G Pi D w) := by
    rw [toM_mvemAssemble]
    simp only [Matrix.transpose_add, Matrix.transpose_smul, Matrix.transpose_mul, Matrix.transpose_transpose,
      isSymm_toM G hG, Matrix.mul_assoc]
  intro f g
  have := congrFun (congrFun h g) f
  simpa only [Matrix.transpose_apply, Matrix.of_apply] using this

/-- consistency: if `F D = G` (divergence theorem) the projector reproduces polynomial gradients,
    the stabilisation vanishes on them and `A D = Fᵀ` -/
theorem mvem_consistency' {d m : Nat} (G Ginv : Mat d d) (F : Mat d m) (D : Mat m d) (w : ℚ)
    (hinv : IsInverse Ginv G) (hG : IsSymm G) (hFD : ∀ a b, matMul F D a b = G a b) :
    (∀ g : Vec d, mulVec (mvemPi Ginv F) (mulVec D g) = g) ∧
    (∀ g : Vec d, mulVec D g - mulVec D (mulVec (mvemPi Ginv F) (mulVec D g)) = 0) ∧
    (∀ g : Vec d, mulVec (mvemAssemble G (mvemPi Ginv F) D w) (mulVec D g) = mulVec (transpose F) g) := by
  obtain ⟨hi1, hi2⟩ := isInverse_toM Ginv G hinv
  have hFD' : toM F * toM D = toM G := by
    ext a b; rw [← toM_matMul]; simp only [Matrix.of_apply, hFD]
  have hPi : toM (mvemPi Ginv F) = toM Ginv * toM F := toM_matMul Ginv F
  have hPD : toM (mvemPi Ginv F) * toM D = 1 := by rw [hPi, Matrix.mul_assoc, hFD', hi1]
  have hGs := isSymm_toM G hG
  have hGiT : (toM Ginv)ᵀ * toM G = 1 := by
    rw [← hGs, ← Matrix.transpose_mul, hi2, Matrix.transpose_one]
  have c1 : ∀ g : Vec d, mulVec (mvemPi Ginv F) (mulVec D g) = g := by
    intro g; rw [mulVec_toM, mulVec_toM, Matrix.mulVec_mulVec, hPD, Matrix.one_mulVec]
  refine ⟨c1, fun g => by rw [c1 g, sub_self], fun g => ?_⟩
  rw [mulVec_toM, mulVec_toM, mulVec_toM, toM_mvemAssemble, Matrix.mulVec_mulVec, Matrix.add_mul,
    Matrix.smul_mul, Matrix.mul_assoc, Matrix.mul_assoc, Matrix.mul_assoc, hPD, Matrix.sub_mul,
    Matrix.mul_assoc, hPD, Matrix.one_mul, Matrix.mul_one, Matrix.mul_one, sub_self, Matrix.mul_zero,
    smul_zero, add_zero, hPi, Matrix.transpose_mul, Matrix.mul_assoc, hGiT, Matrix.mul_one]
  rfl

/-! ### MVEM: the concrete matrices -/

theorem mvemD_apply (d m : Nat) (K : Mat d d) (nrm : Fin m → Vec d) (diam : ℚ) (f : Fin m) (a : Fin d) :
    mvemD d m K nrm diam f a = (∑ e, nrm f e * K e a) / diam := by
  simp only [mvemD, dot_eq, mulVec_apply, mvemGrad]
  rw [Finset.sum_div]
  refine Finset.sum_congr rfl fun e _ => ?_
  simp only [ite_div, zero_div, mul_ite, mul_zero, Finset.sum_ite_eq, Finset.mem_univ, if_true]
  ring

theorem mvemG_apply (d : Nat) (K : Mat d d) (V diam : ℚ) (a b : Fin d) :
    mvemG d K V diam a b = K a b * V / (diam * diam) := by
  simp only [mvemG, dot_eq, mulVec_apply, mvemGrad]
  simp only [ite_div, zero_div, mul_ite, mul_zero, ite_mul, zero_mul, Finset.sum_ite_eq, Finset.mem_univ, if_true]
  ring

theorem mvemG_symm (d : Nat) (K : Mat d d) (V diam : ℚ) (hK : IsSymm K) : IsSymm (mvemG d K V diam) := by
  intro a b; rw [mvemG_apply, mvemG_apply, hK a b]

theorem mvemG_quad (d : Nat) (K : Mat d d) (V diam : ℚ) (v : Vec d) :
    quadForm (mvemG d K V diam) v = quadForm K v * (V / (diam * diam)) := by
  simp only [quadForm_eq, mvemG_apply, Finset.sum_mul, Finset.mul_sum]
  exact Finset.sum_congr rfl fun j _ => Finset.sum_congr rfl fun k _ => by ring

theorem mvemG_posDef (d : Nat) (K : Mat d d) (V diam : ℚ) (hK : PosDef K) (hV : 0 < V) (hdiam : diam ≠ 0) :
    PosDef (mvemG d K V diam) := by
  intro v hv
  rw [mvemG_quad]
  have : 0 < diam * diam := mul_self_pos.mpr hdiam
  exact mul_pos (hK v hv) (div_pos hV this)

/-- `F D = G` is the divergence theorem on the cell (the assertion inside `MVEM.massHdiv`) -/
theorem mvem_FD (d m : Nat) (K : Mat d d) (c : Vec d) (V diam : ℚ) (fc nrm : Fin m → Vec d) (s : Vec m)
    (hdiv : DivThm V s fc nrm) (a b : Fin d) :
    matMul (mvemF d m c fc s diam) (mvemD d m K nrm diam) a b = mvemG d K V diam a b := by
  obtain ⟨h1, h2⟩ := (divThm_iff _ _ _ _).mp hdiv
  rw [matMul_apply, mvemG_apply]
  have e1 : ∀ f, mvemF d m c fc s diam a f * mvemD d m K nrm diam f b
      = ∑ e, K e b / (diam * diam) * (s f * fc f a * nrm f e - c a * (s f * nrm f e)) := by
    intro f
    rw [mvemD_apply, mvemF, Finset.sum_div, Finset.mul_sum]
    exact Finset.sum_congr rfl fun e _ => by ring
  simp only [e1]
  rw [Finset.sum_comm]
  simp only [← Finset.mul_sum, Finset.sum_sub_distrib, h1, h2, mul_zero, sub_zero, mul_ite,
    Finset.sum_ite_eq, Finset.mem_univ, if_true]
  ring

theorem flux_eq_D (d m : Nat) (K : Mat d d) (nrm : Fin m → Vec d) (diam : ℚ) (hdiam : diam ≠ 0) (a : Vec d) :
    faceFlux (darcy K a) nrm = mulVec (mvemD d m K nrm diam) (fun b => -diam * a b) := by
  funext f
  simp only [faceFlux, darcy, dot_eq, mulVec_apply, mvemD_apply]
  have r : ∀ b, (∑ e, nrm f e * K e b) / diam * (-diam * a b) = ∑ e, -(K e b * a b * nrm f e) := by
    intro b
    rw [Finset.sum_div, Finset.sum_mul]
    refine Finset.sum_congr rfl fun e _ => ?_
    field_simp
  have l : ∀ e, (-∑ l, K e l * a l) * nrm f e = ∑ l, -(K e l * a l * nrm f e) := by
    intro e; rw [neg_mul, Finset.sum_mul, Finset.sum_neg_distrib]
  simp only [l, r]
  exact Finset.sum_comm

theorem mvem_row_exact {d m : Nat} (K Kinv Ginv : Mat d d) (c : Vec d) (V diam weight : ℚ) (hdiam : diam ≠ 0)
    (fc nrm : Fin m → Vec d) (s : Vec m) (hK : IsSymm K) (hinv : IsInverse Ginv (mvemG d K V diam))
    (hdiv : DivThm V s fc nrm) (a : Vec d) (f : Fin m) :
    ∑ g, mvemMassWith d m Ginv K Kinv c V fc nrm s diam weight f g * faceFlux (darcy K a) nrm g
      = - s f * (dot a (fc f) - dot a c) := by
  have hc := (mvem_consistency' (mvemG d K V diam) Ginv (mvemF d m c fc s diam) (mvemD d m K nrm diam)
    (weight * normInf Kinv) hinv (mvemG_symm d K V diam hK) (mvem_FD d m K c V diam fc nrm s hdiv)).2.2
    (fun b => -diam * a b)
  have := congrFun hc f
  rw [← flux_eq_D d m K nrm diam hdiam a] at this
  rw [mulVec_apply] at this
  unfold mvemMassWith
  rw [this, mulVec_apply]
  simp only [transpose, mvemF, dot_eq]
  rw [← Finset.sum_sub_distrib, Finset.mul_sum]
  refine Finset.sum_congr rfl fun b _ => ?_
  field_simp

theorem mvem_exact {d m : Nat} (K Kinv Ginv : Mat d d) (c : Vec d) (V diam weight : ℚ) (hdiam : diam ≠ 0)
    (fc nrm : Fin m → Vec d) (s : Vec m) (hK : IsSymm K) (hinv : IsInverse Ginv (mvemG d K V diam))
    (hdiv : DivThm V s fc nrm) (a : Vec d) (b : ℚ) (f : Fin m) :
    localResidual (mvemMassWith d m Ginv K Kinv c V fc nrm s diam weight) s (faceFlux (darcy K a) nrm)
      (linP a b c) (fun g => linP a b (fc g)) f = 0 := by
  simp only [localResidual, sumFin_eq, linP]
  rw [mvem_row_exact K Kinv Ginv c V diam weight hdiam fc nrm s hK hinv hdiv a f]
  ring

/-! ### `np.linalg.norm(·, inf)` is positive on a non-zero matrix -/

theorem le_maxFin : ∀ (n : Nat) (f : Fin n → ℚ) (i : Fin n), f i ≤ maxFin n f := by
  intro n
  induction n with
  | zero => intro f i; exact i.elim0
  | succ n ih =>
    intro f i
    simp only [maxFin]
    refine Fin.cases ?_ (fun j => ?_) i
    · split_ifs with h
      · exact h
      · exact le_refl _
    · have := ih (fun i => f i.succ) j
      split_ifs with h
      · exact this
      · exact le_trans this (le_of_lt (not_le.mp h))

theorem absR_nonneg (q : ℚ) : 0 ≤ absR q := by
  unfold absR; split_ifs with h
  · linarith
  · exact not_lt.mp h

theorem absR_pos (q : ℚ) (hq : q ≠ 0) : 0 < absR q := by
  unfold absR; split_ifs with h
  · linarith
  · exact lt_of_le_of_ne (not_lt.mp h) (Ne.symm hq)

theorem normInf_pos {n : Nat} (A : Mat n n) (h : ∃ i j, A i j ≠ 0) : 0 < normInf A := by
  obtain ⟨i, j, hij⟩ := h
  have h1 : absR (A i j) ≤ ∑ j, absR (A i j) :=
    Finset.single_le_sum (f := fun j => absR (A i j)) (fun j _ => absR_nonneg _) (Finset.mem_univ j)
  have h2 := le_maxFin n (fun i => sumFin n fun j => absR (A i j)) i
  simp only [sumFin_eq] at h2
  unfold normInf
  simp only [sumFin_eq]
  exact lt_of_lt_of_le (lt_of_lt_of_le (absR_pos _ hij) h1) h2

/-! ### positive definiteness of the inverse -/

theorem isInverse_symm {n : Nat} (B A : Mat n n) (h : IsInverse B A) : IsInverse A B := ⟨h.2, h.1⟩

theorem posDef_inv {n : Nat} (K Kinv : Mat n n) (hK : PosDef K) (hinv : IsInverse Kinv K) : PosDef Kinv := by
  intro v hv
  have hvz : mulVec K (mulVec Kinv v) = v := isInverse_mulVec K Kinv (isInverse_symm _ _ hinv) v
  have hz : NonZero (mulVec Kinv v) := by
    rw [nonZero_iff]; intro h0
    have : v = 0 := by
      rw [← hvz, h0]; funext i; simp [mulVec_apply]
    exact ((nonZero_iff v).mp hv) this
  have := hK _ hz
  unfold quadForm at this ⊢
  rw [hvz, dot_comm] at this
  exact this

/-! ### dimension 1, 2, 3: explicit inverses -/

@[simp] theorem mk2_00 (a b c d : ℚ) : mk2 a b c d 0 0 = a := rfl
@[simp] theorem mk2_01 (a b c d : ℚ) : mk2 a b c d 0 1 = b := rfl
@[simp] theorem mk2_10 (a b c d : ℚ) : mk2 a b c d 1 0 = c := rfl
@[simp] theorem mk2_11 (a b c d : ℚ) : mk2 a b c d 1 1 = d := rfl
@[simp] theorem mk3_00 (a b c d e f g h k : ℚ) : mk3 a b c d e f g h k 0 0 = a := rfl
@[simp] theorem mk3_01 (a b c d e f g h k : ℚ) : mk3 a b c d e f g h k 0 1 = b := rfl
@[simp] theorem mk3_02 (a b c d e f g h k : ℚ) : mk3 a b c d e f g h k 0 2 = c := rfl
@[simp] theorem mk3_10 (a b c d e f g h k : ℚ) : mk3 a b c d e f g h k 1 0 = d := rfl
@[simp] theorem mk3_11 (a b c d e f g h k : ℚ) : mk3 a b c d e f g h k 1 1 = e := rfl
@[simp] theorem mk3_12 (a b c d e f g h k : ℚ) : mk3 a b c d e f g h k 1 2 = f := rfl
@[simp] theorem mk3_20 (a b c d e f g h k : ℚ) : mk3 a b c d e f g h k 2 0 = g := rfl
@[simp] theorem mk3_21 (a b c d e f g h k : ℚ) : mk3 a b c d e f g h k 2 1 = h := rfl
@[simp] theorem mk3_22 (a b c d e f g h k : ℚ) : mk3 a b c d e f g h k 2 2 = k := rfl

theorem forall_fin3 {P : Fin 3 → Prop} : (∀ i, P i) ↔ P 0 ∧ P 1 ∧ P 2 := by
  constructor
  · intro h; exact ⟨h 0, h 1, h 2⟩
  · rintro ⟨h0, h1, h2⟩ i; fin_cases i <;> assumption

theorem forall_fin4 {P : Fin 4 → Prop} : (∀ i, P i) ↔ P 0 ∧ P 1 ∧ P 2 ∧ P 3 := by
  constructor
  · intro h; exact ⟨h 0, h 1, h 2, h 3⟩
  · rintro ⟨h0, h1, h2, h3⟩ i; fin_cases i <;> assumption

theorem inv1d_correct (K : Mat 1 1) (h : K 0 0 ≠ 0) : IsInverse (invMatrix1d K) K := by
  rw [isInverse_iff]
  constructor <;> intro i j <;>
  · have hi : i = 0 := Subsingleton.elim _ _
    have hj : j = 0 := Subsingleton.elim _ _
    subst hi; subst hj
    simp only [Fin.sum_univ_one, invMatrix1d, if_true]
    field_simp

theorem inv2d_correct (K : Mat 2 2) (hK : IsSymm K) (h : det2 K ≠ 0) : IsInverse (invMatrix2d K) K := by
  have h10 : K 1 0 = K 0 1 := hK 1 0
  rw [isInverse_iff]
  simp only [Fin.forall_fin_two, Fin.sum_univ_two, invMatrix2d, mk2_00, mk2_01, mk2_10, mk2_11, h10]
  refine ⟨⟨⟨?_, ?_⟩, ⟨?_, ?_⟩⟩, ⟨⟨?_, ?_⟩, ⟨?_, ?_⟩⟩⟩
  all_goals simp only [Fin.isValue, Fin.reduceEq, ↓reduceIte]
  all_goals field_simp
  all_goals (try unfold det2)
  all_goals ring

theorem inv3d_correct (K : Mat 3 3) (hK : IsSymm K) (h : det3 K ≠ 0) : IsInverse (invMatrix3d K) K := by
  have h10 : K 1 0 = K 0 1 := hK 1 0
  have h20 : K 2 0 = K 0 2 := hK 2 0
  have h21 : K 2 1 = K 1 2 := hK 2 1
  rw [isInverse_iff]
  simp only [forall_fin3, Fin.sum_univ_three, invMatrix3d, mk3_00, mk3_01, mk3_02, mk3_10, mk3_11, mk3_12,
    mk3_20, mk3_21, mk3_22, h10, h20, h21]
  refine ⟨⟨⟨?_, ?_, ?_⟩, ⟨?_, ?_, ?_⟩, ⟨?_, ?_, ?_⟩⟩, ⟨⟨?_, ?_, ?_⟩, ⟨?_, ?_, ?_⟩, ⟨?_, ?_, ?_⟩⟩⟩
  all_goals simp only [Fin.isValue, Fin.reduceEq, ↓reduceIte]
  all_goals field_simp
  all_goals (try unfold det3)
  all_goals ring

/-! ### Sylvester's criterion in dimension 1, 2, 3 -/

theorem posDef_1d (K : Mat 1 1) (h : 0 < K 0 0) : PosDef K := by
  intro v hv
  obtain ⟨i, hi⟩ := hv
  have hi0 : i = 0 := Subsingleton.elim _ _
  subst hi0
  rw [quadForm_eq]
  simp only [Fin.sum_univ_one]
  have : v 0 * (K 0 0 * v 0) = K 0 0 * v 0 ^ 2 := by ring
  rw [this]; positivity

theorem posDef_2d (K : Mat 2 2) (hK : IsSymm K) (h1 : 0 < K 0 0) (h2 : 0 < det2 K) : PosDef K := by
  intro v hv
  have h10 : K 1 0 = K 0 1 := hK 1 0
  rw [quadForm_eq]
  simp only [Fin.sum_univ_two, h10]
  unfold det2 at h2
  have key : K 0 0 * (v 0 * (K 0 0 * v 0 + K 0 1 * v 1) + v 1 * (K 0 1 * v 0 + K 1 1 * v 1))
      = (K 0 0 * v 0 + K 0 1 * v 1) ^ 2 + (K 0 0 * K 1 1 - K 0 1 * K 0 1) * v 1 ^ 2 := by ring
  have hpos : 0 < (K 0 0 * v 0 + K 0 1 * v 1) ^ 2 + (K 0 0 * K 1 1 - K 0 1 * K 0 1) * v 1 ^ 2 := by
    by_cases hv1 : v 1 = 0
    · have hv0 : v 0 ≠ 0 := by
        obtain ⟨i, hi⟩ := hv
        fin_cases i
        · exact hi
        · exact absurd hv1 hi
      rw [hv1]
      have : K 0 0 * v 0 ≠ 0 := mul_ne_zero h1.ne' hv0
      have : 0 < (K 0 0 * v 0 + K 0 1 * 0) ^ 2 := by
        rw [mul_zero, add_zero]; positivity
      linarith [this]
    · have : 0 < (K 0 0 * K 1 1 - K 0 1 * K 0 1) * v 1 ^ 2 := mul_pos h2 (by positivity)
      have := sq_nonneg (K 0 0 * v 0 + K 0 1 * v 1)
      linarith
  rw [← key] at hpos
  exact pos_of_mul_pos_right hpos h1.le

theorem posDef_3d (K : Mat 3 3) (hK : IsSymm K) (h1 : 0 < K 0 0) (h2 : 0 < minor2 K 0 1) (h3 : 0 < det3 K) :
    PosDef K := by
  intro v hv
  have h10 : K 1 0 = K 0 1 := hK 1 0
  have h20 : K 2 0 = K 0 2 := hK 2 0
  have h21 : K 2 1 = K 1 2 := hK 2 1
  rw [quadForm_eq]
  simp only [Fin.sum_univ_three, h10, h20, h21]
  unfold minor2 at h2
  unfold det3 at h3
  set a := K 0 0; set b := K 0 1; set c := K 0 2; set dd := K 1 1; set e := K 1 2; set f := K 2 2
  set v0 := v 0; set v1 := v 1; set v2 := v 2
  have key : a * (a * dd - b * b) *
      (v0 * (a * v0 + b * v1 + c * v2) + v1 * (b * v0 + dd * v1 + e * v2) + v2 * (c * v0 + e * v1 + f * v2))
      = (a * dd - b * b) * (a * v0 + b * v1 + c * v2) ^ 2 + ((a * dd - b * b) * v1 + (a * e - b * c) * v2) ^ 2
        + a * (a * dd * f - a * e * e - b * b * f + 2 * b * c * e - c * c * dd) * v2 ^ 2 := by ring
  have n1 : 0 ≤ (a * dd - b * b) * (a * v0 + b * v1 + c * v2) ^ 2 := mul_nonneg h2.le (sq_nonneg _)
  have n2 : 0 ≤ ((a * dd - b * b) * v1 + (a * e - b * c) * v2) ^ 2 := sq_nonneg _
  have n3 : 0 ≤ a * (a * dd * f - a * e * e - b * b * f + 2 * b * c * e - c * c * dd) * v2 ^ 2 :=
    mul_nonneg (mul_pos h1 h3).le (sq_nonneg _)
  have hpos : 0 < (a * dd - b * b) * (a * v0 + b * v1 + c * v2) ^ 2
      + ((a * dd - b * b) * v1 + (a * e - b * c) * v2) ^ 2
      + a * (a * dd * f - a * e * e - b * b * f + 2 * b * c * e - c * c * dd) * v2 ^ 2 := by
    by_cases hv2 : v2 = 0
    · by_cases hv1 : v1 = 0
      · have hv0 : v0 ≠ 0 := by
          obtain ⟨i, hi⟩ := hv
          fin_cases i
          · exact hi
          · exact absurd hv1 hi
          · exact absurd hv2 hi
        have : 0 < (a * dd - b * b) * (a * v0 + b * v1 + c * v2) ^ 2 := by
          rw [hv1, hv2, mul_zero, mul_zero, add_zero, add_zero]
          have : a * v0 ≠ 0 := mul_ne_zero h1.ne' hv0
          exact mul_pos h2 (by positivity)
        linarith
      · have : 0 < ((a * dd - b * b) * v1 + (a * e - b * c) * v2) ^ 2 := by
          rw [hv2, mul_zero, add_zero]
          have : (a * dd - b * b) * v1 ≠ 0 := mul_ne_zero h2.ne' hv1
          positivity
        linarith
    · have : 0 < a * (a * dd * f - a * e * e - b * b * f + 2 * b * c * e - c * c * dd) * v2 ^ 2 :=
        mul_pos (mul_pos h1 h3) (by positivity)
      linarith
  rw [← key] at hpos
  have hc : 0 < a * (a * dd - b * b) := mul_pos h1 h2
  exact pos_of_mul_pos_right hpos hc.le

/-! ### explicit simplices: normals, divergence theorem, affine independence -/

@[simp] theorem cross_0 (u v : Vec 3) : cross u v 0 = u 1 * v 2 - u 2 * v 1 := rfl
@[simp] theorem cross_1 (u v : Vec 3) : cross u v 1 = u 2 * v 0 - u 0 * v 2 := rfl
@[simp] theorem cross_2 (u v : Vec 3) : cross u v 2 = u 0 * v 1 - u 1 * v 0 := rfl
@[simp] theorem rotEdge_0 (p q : Vec 2) : rotEdge p q 0 = q 1 - p 1 := rfl
@[simp] theorem rotEdge_1 (p q : Vec 2) : rotEdge p q 1 = p 0 - q 0 := rfl
@[simp] theorem sn1_0 (x : Fin 2 → Vec 1) (a : Fin 1) : simplexNormal1 x 0 a = 1 := rfl
@[simp] theorem sn1_1 (x : Fin 2 → Vec 1) (a : Fin 1) : simplexNormal1 x 1 a = -1 := rfl
@[simp] theorem sn2_0 (x : Fin 3 → Vec 2) : simplexNormal2 x 0 = rotEdge (x 1) (x 2) := rfl
@[simp] theorem sn2_1 (x : Fin 3 → Vec 2) : simplexNormal2 x 1 = rotEdge (x 2) (x 0) := rfl
@[simp] theorem sn2_2 (x : Fin 3 → Vec 2) : simplexNormal2 x 2 = rotEdge (x 0) (x 1) := rfl
@[simp] theorem sn3_0 (x : Fin 4 → Vec 3) (a : Fin 3) :
    simplexNormal3 x 0 a = cross (vsub (x 2) (x 1)) (vsub (x 3) (x 1)) a / 2 := rfl
@[simp] theorem sn3_1 (x : Fin 4 → Vec 3) (a : Fin 3) :
    simplexNormal3 x 1 a = cross (vsub (x 3) (x 0)) (vsub (x 2) (x 0)) a / 2 := rfl
@[simp] theorem sn3_2 (x : Fin 4 → Vec 3) (a : Fin 3) :
    simplexNormal3 x 2 a = cross (vsub (x 1) (x 0)) (vsub (x 3) (x 0)) a / 2 := rfl
@[simp] theorem sn3_3 (x : Fin 4 → Vec 3) (a : Fin 3) :
    simplexNormal3 x 3 a = cross (vsub (x 2) (x 0)) (vsub (x 1) (x 0)) a / 2 := rfl
theorem vsub_apply {d : Nat} (u v : Vec d) (a : Fin d) : vsub u v a = u a - v a := rfl

/-- passing from outward normals to globally oriented normals `s_f · σ · n_f` (`s_f = ±1` the
    `cell_faces` sign, `σ = ±1` the orientation of the vertex numbering) -/
theorem divThm_scale {d m : Nat} (V : ℚ) (fc n : Fin m → Vec d) (s : Vec m) (σ : ℚ) (hs : ∀ f, s f * s f = 1)
    (h : DivThm V (fun _ => 1) fc n) : DivThm (σ * V) s fc (fun f b => s f * (σ * n f b)) := by
  rw [divThm_iff] at h ⊢
  obtain ⟨h1, h2⟩ := h
  constructor
  · intro b
    have e : ∀ f, s f * (s f * (σ * n f b)) = σ * (1 * n f b) := by
      intro f; linear_combination (σ * n f b) * hs f
    simp only [e, ← Finset.mul_sum, h1, mul_zero]
  · intro a b
    have e : ∀ f, s f * fc f a * (s f * (σ * n f b)) = σ * (1 * fc f a * n f b) := by
      intro f; linear_combination (σ * fc f a * n f b) * hs f
    simp only [e, ← Finset.mul_sum, h2]
    split_ifs <;> ring

theorem succ2_eq : (Fin.succ (2 : Fin 3) : Fin 4) = 3 := rfl

theorem divThm_simplex1 (x : Fin 2 → Vec 1) :
    DivThm (signedVol1 x) (fun _ => 1) (faceCentre x) (simplexNormal1 x) := by
  unfold DivThm faceCentre
  simp only [sumFin]
  refine ⟨fun b => ?_, fun a b => ?_⟩
  · simp
  · have ha : a = 0 := Subsingleton.elim _ _
    have hb : b = 0 := Subsingleton.elim _ _
    subst ha; subst hb
    simp [signedVol1]
    ring

theorem divThm_simplex2 (x : Fin 3 → Vec 2) :
    DivThm (signedVol2 x) (fun _ => 1) (faceCentre x) (simplexNormal2 x) := by
  unfold DivThm faceCentre
  simp only [sumFin]
  simp only [Fin.forall_fin_two]
  refine ⟨⟨?_, ?_⟩, ⟨⟨?_, ?_⟩, ⟨?_, ?_⟩⟩⟩
  all_goals simp [signedVol2]
  all_goals ring

theorem divThm_simplex3 (x : Fin 4 → Vec 3) :
    DivThm (signedVol3 x) (fun _ => 1) (faceCentre x) (simplexNormal3 x) := by
  unfold DivThm faceCentre signedVol3 dot
  simp only [sumFin]
  simp only [forall_fin3]
  refine ⟨⟨?_, ?_, ?_⟩, ⟨⟨?_, ?_, ?_⟩, ⟨?_, ?_, ?_⟩, ⟨?_, ?_, ?_⟩⟩⟩
  all_goals simp [succ2_eq, vsub_apply]
  all_goals ring

theorem affineIndep_1d (x : Fin 2 → Vec 1) (h : signedVol1 x ≠ 0) : AffineIndep x := by
  intro t h1 h2 j
  have e := h2 0
  simp only [sumFin, add_zero, Fin.succ_zero_eq_one] at h1 e
  unfold signedVol1 at h
  have t1 : t 1 * (x 1 0 - x 0 0) = 0 := by linear_combination e - x 0 0 * h1
  have ht1 : t 1 = 0 := (mul_eq_zero.mp t1).resolve_right h
  have ht0 : t 0 = 0 := by rw [ht1, add_zero] at h1; exact h1
  fin_cases j
  · exact ht0
  · exact ht1

theorem affineIndep_2d (x : Fin 3 → Vec 2) (h : signedVol2 x ≠ 0) : AffineIndep x := by
  intro t h1 h2 j
  have ex := h2 0
  have ey := h2 1
  simp only [sumFin, add_zero, Fin.succ_zero_eq_one, Fin.succ_one_eq_two] at h1 ex ey
  have hdet : (x 1 0 - x 0 0) * (x 2 1 - x 0 1) - (x 2 0 - x 0 0) * (x 1 1 - x 0 1) ≠ 0 := by
    intro h0; apply h; unfold signedVol2; rw [h0]; simp
  have t1 : t 1 * ((x 1 0 - x 0 0) * (x 2 1 - x 0 1) - (x 2 0 - x 0 0) * (x 1 1 - x 0 1)) = 0 := by
    linear_combination (x 2 1 - x 0 1) * (ex - x 0 0 * h1) - (x 2 0 - x 0 0) * (ey - x 0 1 * h1)
  have t2 : t 2 * ((x 1 0 - x 0 0) * (x 2 1 - x 0 1) - (x 2 0 - x 0 0) * (x 1 1 - x 0 1)) = 0 := by
    linear_combination (x 1 0 - x 0 0) * (ey - x 0 1 * h1) - (x 1 1 - x 0 1) * (ex - x 0 0 * h1)
  have ht1 : t 1 = 0 := (mul_eq_zero.mp t1).resolve_right hdet
  have ht2 : t 2 = 0 := (mul_eq_zero.mp t2).resolve_right hdet
  have ht0 : t 0 = 0 := by rw [ht1, ht2, add_zero, add_zero] at h1; exact h1
  fin_cases j
  · exact ht0
  · exact ht1
  · exact ht2

theorem affineIndep_3d (x : Fin 4 → Vec 3) (h : signedVol3 x ≠ 0) : AffineIndep x := by
  intro t h1 h2 j
  have e0 := h2 0
  have e1 := h2 1
  have e2 := h2 2
  simp only [sumFin, add_zero, Fin.succ_zero_eq_one, Fin.succ_one_eq_two, succ2_eq] at h1 e0 e1 e2
  have hD : signedVol3 x = ((x 1 0 - x 0 0) * ((x 2 1 - x 0 1) * (x 3 2 - x 0 2) - (x 2 2 - x 0 2) * (x 3 1 - x 0 1))
      + (x 1 1 - x 0 1) * ((x 2 2 - x 0 2) * (x 3 0 - x 0 0) - (x 2 0 - x 0 0) * (x 3 2 - x 0 2))
      + (x 1 2 - x 0 2) * ((x 2 0 - x 0 0) * (x 3 1 - x 0 1) - (x 2 1 - x 0 1) * (x 3 0 - x 0 0))) / 6 := by
    unfold signedVol3 dot
    simp only [sumFin, add_zero, Fin.succ_zero_eq_one, Fin.succ_one_eq_two, cross_0, cross_1, cross_2, vsub_apply]
    ring
  have hdet : (x 1 0 - x 0 0) * ((x 2 1 - x 0 1) * (x 3 2 - x 0 2) - (x 2 2 - x 0 2) * (x 3 1 - x 0 1))
      + (x 1 1 - x 0 1) * ((x 2 2 - x 0 2) * (x 3 0 - x 0 0) - (x 2 0 - x 0 0) * (x 3 2 - x 0 2))
      + (x 1 2 - x 0 2) * ((x 2 0 - x 0 0) * (x 3 1 - x 0 1) - (x 2 1 - x 0 1) * (x 3 0 - x 0 0)) ≠ 0 := by
    intro h0; apply h; rw [hD, h0]; simp
  have E0 : t 1 * (x 1 0 - x 0 0) + t 2 * (x 2 0 - x 0 0) + t 3 * (x 3 0 - x 0 0) = 0 := by
    linear_combination e0 - x 0 0 * h1
  have E1 : t 1 * (x 1 1 - x 0 1) + t 2 * (x 2 1 - x 0 1) + t 3 * (x 3 1 - x 0 1) = 0 := by
    linear_combination e1 - x 0 1 * h1
  have E2 : t 1 * (x 1 2 - x 0 2) + t 2 * (x 2 2 - x 0 2) + t 3 * (x 3 2 - x 0 2) = 0 := by
    linear_combination e2 - x 0 2 * h1
  generalize x 1 0 - x 0 0 = p0 at *
  generalize x 1 1 - x 0 1 = p1 at *
  generalize x 1 2 - x 0 2 = p2 at *
  generalize x 2 0 - x 0 0 = q0 at *
  generalize x 2 1 - x 0 1 = q1 at *
  generalize x 2 2 - x 0 2 = q2 at *
  generalize x 3 0 - x 0 0 = r0 at *
  generalize x 3 1 - x 0 1 = r1 at *
  generalize x 3 2 - x 0 2 = r2 at *
  have t1 : t 1 * (p0 * (q1 * r2 - q2 * r1) + p1 * (q2 * r0 - q0 * r2) + p2 * (q0 * r1 - q1 * r0)) = 0 := by
    linear_combination (q1 * r2 - q2 * r1) * E0 + (q2 * r0 - q0 * r2) * E1 + (q0 * r1 - q1 * r0) * E2
  have t2 : t 2 * (p0 * (q1 * r2 - q2 * r1) + p1 * (q2 * r0 - q0 * r2) + p2 * (q0 * r1 - q1 * r0)) = 0 := by
    linear_combination (r1 * p2 - r2 * p1) * E0 + (r2 * p0 - r0 * p2) * E1 + (r0 * p1 - r1 * p0) * E2
  have t3 : t 3 * (p0 * (q1 * r2 - q2 * r1) + p1 * (q2 * r0 - q0 * r2) + p2 * (q0 * r1 - q1 * r0)) = 0 := by
    linear_combination (p1 * q2 - p2 * q1) * E0 + (p2 * q0 - p0 * q2) * E1 + (p0 * q1 - p1 * q0) * E2
  have ht1 : t 1 = 0 := (mul_eq_zero.mp t1).resolve_right hdet
  have ht2 : t 2 = 0 := (mul_eq_zero.mp t2).resolve_right hdet
  have ht3 : t 3 = 0 := (mul_eq_zero.mp t3).resolve_right hdet
  have ht0 : t 0 = 0 := by rw [ht1, ht2, ht3, add_zero, add_zero, add_zero] at h1; exact h1
  fin_cases j
  · exact ht0
  · exact ht1
  · exact ht2
  · exact ht3

/-! ### assembly, uniqueness of the saddle-point solve, global exactness -/

theorem delta_sum {n : Nat} (a : Fin n) (g : Fin n → ℚ) : ∑ F, delta a F * g F = g a := by
  simp only [delta, ite_mul, one_mul, zero_mul, Finset.sum_ite_eq, Finset.mem_univ, if_true]

theorem assemble_quad (nf nc m : Nat) (f : Fin nc → Fin m → Fin nf) (L : Fin nc → Mat m m) (y : Vec nf) :
    quadForm (assemble nf nc m f L) y = ∑ c, quadForm (L c) (restrict y (f c)) := by
  have inner : ∀ c j k, ∑ F, ∑ G, y F * (delta (f c j) F * L c j k * delta (f c k) G) * y G
      = y (f c j) * (L c j k * y (f c k)) := by
    intro c j k
    have h : ∀ F, ∑ G, y F * (delta (f c j) F * L c j k * delta (f c k) G) * y G
        = (delta (f c j) F * y F) * (L c j k * ∑ G, delta (f c k) G * y G) := by
      intro F; rw [Finset.mul_sum, Finset.mul_sum]
      exact Finset.sum_congr rfl fun G _ => by ring
    simp only [h, ← Finset.sum_mul, delta_sum]
  have e : ∀ F, y F * ∑ G, (∑ c, ∑ j, ∑ k, delta (f c j) F * L c j k * delta (f c k) G) * y G
      = ∑ G, ∑ c, ∑ j, ∑ k, y F * (delta (f c j) F * L c j k * delta (f c k) G) * y G := by
    intro F; simp only [Finset.mul_sum, Finset.sum_mul]
    exact Finset.sum_congr rfl fun G _ => Finset.sum_congr rfl fun c _ => Finset.sum_congr rfl fun j _ =>
      Finset.sum_congr rfl fun k _ => by ring
  rw [quadForm_eq]
  simp only [assemble, sumFin_eq, quadForm_eq, restrict, e]
  calc ∑ F, ∑ G, ∑ c, ∑ j, ∑ k, y F * (delta (f c j) F * L c j k * delta (f c k) G) * y G
      = ∑ F, ∑ c, ∑ G, ∑ j, ∑ k, y F * (delta (f c j) F * L c j k * delta (f c k) G) * y G :=
        Finset.sum_congr rfl fun F _ => Finset.sum_comm
    _ = ∑ c, ∑ F, ∑ G, ∑ j, ∑ k, y F * (delta (f c j) F * L c j k * delta (f c k) G) * y G := Finset.sum_comm
    _ = ∑ c, ∑ j, ∑ k, ∑ F, ∑ G, y F * (delta (f c j) F * L c j k * delta (f c k) G) * y G :=
        Finset.sum_congr rfl fun c _ =>
          sum_comm4 (fun F G j k => y F * (delta (f c j) F * L c j k * delta (f c k) G) * y G)
    _ = ∑ c, ∑ j, ∑ k, y (f c j) * (L c j k * y (f c k)) := by simp only [inner]
    _ = ∑ c, ∑ j, y (f c j) * ∑ k, L c j k * y (f c k) := by simp only [Finset.mul_sum]

theorem assemble_symm (nf nc m : Nat) (f : Fin nc → Fin m → Fin nf) (L : Fin nc → Mat m m)
    (hL : ∀ c, IsSymm (L c)) : IsSymm (assemble nf nc m f L) := by
  intro F G
  simp only [assemble, sumFin_eq]
  refine Finset.sum_congr rfl fun c _ => ?_
  rw [Finset.sum_comm]
  refine Finset.sum_congr rfl fun j _ => Finset.sum_congr rfl fun k _ => ?_
  rw [hL c j k]; ring

theorem assemble_spd (nf nc m : Nat) (f : Fin nc → Fin m → Fin nf) (L : Fin nc → Mat m m)
    (hpsd : ∀ c, PosSemidef (L c)) (hcov : ∀ F, ∃ c j, f c j = F ∧ PosDef (L c)) :
    PosDef (assemble nf nc m f L) := by
  intro y hy
  obtain ⟨F, hF⟩ := hy
  rw [assemble_quad]
  obtain ⟨c, j, hj, hpd⟩ := hcov F
  refine Finset.sum_pos' (fun c _ => hpsd c _) ⟨c, Finset.mem_univ _, hpd _ ⟨j, ?_⟩⟩
  simp only [restrict, hj]; exact hF

theorem mulVec_sub' {m n : Nat} (A : Mat m n) (v w : Vec n) (i : Fin m) :
    mulVec A (v - w) i = mulVec A v i - mulVec A w i := by
  simp only [mulVec_apply, Pi.sub_apply, mul_sub, Finset.sum_sub_distrib]

theorem saddle_unique' {nf nc : Nat} (M : Mat nf nf) (B : Mat nc nf) (hM : PosDef M)
    (hB : ∀ p : Vec nc, (∀ F, mulVec (transpose B) p F = 0) → ∀ c, p c = 0)
    (r1 : Vec nf) (r2 : Vec nc) (u u' : Vec nf) (p p' : Vec nc)
    (h1 : ∀ F, mulVec M u F + mulVec (transpose B) p F = r1 F) (h2 : ∀ c, mulVec B u c = r2 c)
    (h1' : ∀ F, mulVec M u' F + mulVec (transpose B) p' F = r1 F) (h2' : ∀ c, mulVec B u' c = r2 c) :
    (∀ F, u F = u' F) ∧ ∀ c, p c = p' c := by
  have e1 : ∀ F, mulVec M (u - u') F + mulVec (transpose B) (p - p') F = 0 := by
    intro F; rw [mulVec_sub', mulVec_sub']; linarith [h1 F, h1' F]
  have e2 : ∀ c, mulVec B (u - u') c = 0 := by
    intro c; rw [mulVec_sub']; linarith [h2 c, h2' c]
  have t : ∑ F, (u - u') F * mulVec (transpose B) (p - p') F = ∑ c, mulVec B (u - u') c * (p - p') c := by
    simp only [mulVec_apply, transpose, Finset.mul_sum, Finset.sum_mul]
    rw [Finset.sum_comm]
    exact Finset.sum_congr rfl fun c _ => Finset.sum_congr rfl fun F _ => by ring
  have q : quadForm M (u - u') = 0 := by
    unfold quadForm; rw [dot_eq]
    have h : ∀ F, (u - u') F * mulVec M (u - u') F = -((u - u') F * mulVec (transpose B) (p - p') F) := by
      intro F; linear_combination (u - u') F * e1 F
    simp only [h, Finset.sum_neg_distrib, t, e2, zero_mul, Finset.sum_const_zero, neg_zero]
  have hdu : ∀ F, (u - u') F = 0 := by
    intro F; by_contra hF
    have := hM (u - u') ⟨F, hF⟩
    rw [q] at this; exact lt_irrefl 0 this
  have hMdu : ∀ F, mulVec M (u - u') F = 0 := by
    intro F; simp only [mulVec_apply, hdu, mul_zero, Finset.sum_const_zero]
  have hdp := hB (p - p') (fun F => by have := e1 F; rw [hMdu F, zero_add] at this; exact this)
  exact ⟨fun F => sub_eq_zero.mp (hdu F), fun c => sub_eq_zero.mp (hdp c)⟩

theorem full_rank_of_tree' {nf nc : Nat} (B : Mat nc nf) (root : Fin nc) (rootFace : Fin nf)
    (parent : Fin nc → Fin nc) (link : Fin nc → Fin nf) (rank : Fin nc → Nat)
    (hroot : B root rootFace ≠ 0) (hroot' : ∀ c, c ≠ root → B c rootFace = 0)
    (hlink : ∀ c, c ≠ root → B c (link c) ≠ 0 ∧ rank (parent c) < rank c ∧
      ∀ c', c' ≠ c → c' ≠ parent c → B c' (link c) = 0)
    (p : Vec nc) (hp : ∀ F, mulVec (transpose B) p F = 0) : ∀ c, p c = 0 := by
  simp only [mulVec_apply, transpose] at hp
  have hr : p root = 0 := by
    have := hp rootFace
    rw [Finset.sum_eq_single root (fun c _ hc => by rw [hroot' c hc, zero_mul])
      (fun h => absurd (Finset.mem_univ _) h)] at this
    exact (mul_eq_zero.mp this).resolve_left hroot
  have key : ∀ n c, rank c < n → p c = 0 := by
    intro n
    induction n with
    | zero => intro c h; exact absurd h (Nat.not_lt_zero _)
    | succ n ih =>
      intro c hc
      by_cases hcr : c = root
      · rw [hcr]; exact hr
      · obtain ⟨hne, hrank, hoth⟩ := hlink c hcr
        have hpar : p (parent c) = 0 := ih (parent c) (by omega)
        have := hp (link c)
        rw [Finset.sum_eq_single c (fun c' _ hc' => by
            by_cases hpc : c' = parent c
            · rw [hpc, hpar, mul_zero]
            · rw [hoth c' hc' hpc, zero_mul])
          (fun h => absurd (Finset.mem_univ _) h)] at this
        exact (mul_eq_zero.mp this).resolve_left hne
  exact fun c => key (rank c + 1) c (Nat.lt_succ_self _)

theorem global_rows_exact' (nf nc m : Nat) (f : Fin nc → Fin m → Fin nf) (L : Fin nc → Mat m m)
    (s : Fin nc → Vec m) (u : Vec nf) (pc : Vec nc) (P : Vec nf)
    (hloc : ∀ c j, localResidual (L c) (s c) (restrict u (f c)) (pc c) (restrict P (f c)) j = 0)
    (hdiv : ∀ c, localDivergence (s c) (restrict u (f c)) = 0) :
    (∀ F, mulVec (assemble nf nc m f L) u F + mulVec (transpose (divMat nf nc m f s)) pc F
        = - faceSign nf nc m f s F * P F)
    ∧ (∀ c, mulVec (divMat nf nc m f s) u c = 0) := by
  constructor
  · intro F
    have g : ∀ c j k, ∑ G, delta (f c j) F * L c j k * delta (f c k) G * u G
        = delta (f c j) F * (L c j k * u (f c k)) := by
      intro c j k
      have h : ∀ G, delta (f c j) F * L c j k * delta (f c k) G * u G
          = (delta (f c j) F * L c j k) * (delta (f c k) G * u G) := by intro G; ring
      simp only [h, ← Finset.mul_sum, delta_sum]; ring
    have hA : mulVec (assemble nf nc m f L) u F = ∑ c, ∑ j, delta (f c j) F * ∑ k, L c j k * u (f c k) := by
      simp only [mulVec_apply, assemble, sumFin_eq, Finset.sum_mul]
      rw [Finset.sum_comm]
      refine Finset.sum_congr rfl fun c _ => ?_
      rw [Finset.sum_comm]
      refine Finset.sum_congr rfl fun j _ => ?_
      rw [Finset.sum_comm]
      simp only [g, Finset.mul_sum]
    have hB : mulVec (transpose (divMat nf nc m f s)) pc F
        = ∑ c, ∑ j, delta (f c j) F * (-(s c j * pc c)) := by
      simp only [mulVec_apply, transpose, divMat, sumFin_eq]
      refine Finset.sum_congr rfl fun c _ => ?_
      rw [neg_mul, Finset.sum_mul, ← Finset.sum_neg_distrib]
      exact Finset.sum_congr rfl fun j _ => by ring
    have hR : - faceSign nf nc m f s F * P F = ∑ c, ∑ j, -(delta (f c j) F * s c j * P F) := by
      simp only [faceSign, sumFin_eq, neg_mul, Finset.sum_mul, Finset.sum_neg_distrib]
    rw [hA, hB, hR, ← Finset.sum_add_distrib]
    refine Finset.sum_congr rfl fun c _ => ?_
    rw [← Finset.sum_add_distrib]
    refine Finset.sum_congr rfl fun j _ => ?_
    have hl := hloc c j
    simp only [localResidual, sumFin_eq, restrict] at hl
    unfold delta
    split_ifs with h
    · rw [← h]; linear_combination hl
    · ring
  · intro c
    have hd := hdiv c
    simp only [localDivergence, sumFin_eq, restrict] at hd
    simp only [mulVec_apply, divMat, sumFin_eq]
    have e : ∀ F, (-∑ j, delta (f c j) F * s c j) * u F = -∑ j, s c j * (delta (f c j) F * u F) := by
      intro F; rw [neg_mul, Finset.sum_mul]
      congr 1
      exact Finset.sum_congr rfl fun j _ => by ring
    simp only [e, Finset.sum_neg_distrib]
    rw [Finset.sum_comm]
    simp only [← Finset.mul_sum, delta_sum]
    exact hd

end PorepyVerif.C18
