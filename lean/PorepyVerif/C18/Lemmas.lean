/-
C18 — helper lemmas: bridge from the structural sums of `Model.lean` to `Finset.sum`, bilinear
algebra of the RT0 local mass matrix (Gram / sum-of-squares representation), the interpolation
identity, matrix algebra of the MVEM local matrix.
-/
import Mathlib.Algebra.BigOperators.Fin
import Mathlib.Algebra.BigOperators.Field
import Mathlib.LinearAlgebra.Matrix.BilinearForm
import Mathlib.Tactic.Ring
import Mathlib.Tactic.Linarith
import Mathlib.Tactic.FieldSimp
import Mathlib.Tactic.Positivity
import Mathlib.Tactic.FinCases
import PorepyVerif.C18.Model

open Finset BigOperators
namespace PorepyVerif.C18

/-! ### bridge -/

theorem sumFin_eq (n : Nat) (f : Fin n → ℚ) : sumFin n f = ∑ i, f i := by
  induction n with
  | zero => simp [sumFin]
  | succ n ih => rw [sumFin, ih, Fin.sum_univ_succ]

theorem dot_eq {d : Nat} (u v : Vec d) : dot u v = ∑ a, u a * v a := sumFin_eq _ _

theorem mulVec_apply {m n : Nat} (A : Mat m n) (v : Vec n) (i : Fin m) :
    mulVec A v i = ∑ j, A i j * v j := sumFin_eq _ _

theorem matMul_apply {m n k : Nat} (A : Mat m n) (B : Mat n k) (i : Fin m) (j : Fin k) :
    matMul A B i j = ∑ l, A i l * B l j := sumFin_eq _ _

theorem vsub_eq {d : Nat} (u v : Vec d) : vsub u v = u - v := rfl

theorem quadForm_eq {n : Nat} (A : Mat n n) (y : Vec n) :
    quadForm A y = ∑ j, y j * ∑ k, A j k * y k := by
  simp only [quadForm, dot_eq, mulVec_apply]

theorem dot_comm {d : Nat} (u v : Vec d) : dot u v = dot v u := by
  simp only [dot_eq]; exact Finset.sum_congr rfl fun a _ => mul_comm _ _

theorem dot_sub_right {d : Nat} (u v w : Vec d) : dot u (v - w) = dot u v - dot u w := by
  simp only [dot_eq, Pi.sub_apply, mul_sub, Finset.sum_sub_distrib]

theorem dot_self_nonneg {d : Nat} (u : Vec d) : 0 ≤ dot u u := by
  rw [dot_eq]; exact Finset.sum_nonneg fun a _ => mul_self_nonneg _

theorem dot_self_eq_zero {d : Nat} (u : Vec d) (h : dot u u = 0) : u = 0 := by
  rw [dot_eq] at h
  funext a
  have := (Finset.sum_eq_zero_iff_of_nonneg (fun a _ => mul_self_nonneg (u a))).mp h a (Finset.mem_univ _)
  simpa using this

/-- the bilinear form `(u, v) ↦ uᵀ A v` -/
noncomputable def bf {d : Nat} (A : Mat d d) : LinearMap.BilinForm ℚ (Fin d → ℚ) :=
  Matrix.toBilin' (Matrix.of A)

theorem dot_mulVec {d : Nat} (A : Mat d d) (u v : Vec d) : dot u (mulVec A v) = bf A u v := by
  rw [bf, Matrix.toBilin'_apply', dot_eq]
  simp only [dotProduct, Matrix.mulVec, Matrix.of_apply, mulVec_apply]

theorem bf_apply {d : Nat} (A : Mat d d) (u v : Vec d) : bf A u v = ∑ i, ∑ j, u i * A i j * v j := by
  rw [bf, Matrix.toBilin'_apply]; rfl

theorem quadForm_bf {n : Nat} (A : Mat n n) (y : Vec n) : quadForm A y = bf A y y := dot_mulVec A y y

theorem bf_symm {d : Nat} (A : Mat d d) (hA : IsSymm A) (u v : Vec d) : bf A u v = bf A v u := by
  rw [bf_apply, bf_apply, Finset.sum_comm]
  refine Finset.sum_congr rfl fun i _ => Finset.sum_congr rfl fun j _ => ?_
  rw [hA j i]; ring

theorem bf_div {d : Nat} (A : Mat d d) (V : ℚ) (u v : Vec d) :
    bf (fun a b => A a b / V) u v = bf A u v / V := by
  rw [bf_apply, bf_apply, div_eq_mul_inv, Finset.sum_mul]
  refine Finset.sum_congr rfl fun i _ => ?_
  rw [Finset.sum_mul]
  refine Finset.sum_congr rfl fun j _ => ?_
  ring

theorem nonZero_iff {n : Nat} (v : Vec n) : NonZero v ↔ v ≠ 0 := by
  unfold NonZero
  constructor
  · rintro ⟨i, hi⟩ h; exact hi (by rw [h]; rfl)
  · intro h; by_contra hc
    apply h; funext i
    by_contra hi; exact hc ⟨i, hi⟩

/-! ### RT0: Gram representation of the local mass matrix -/

theorem sum_comm4 {n m : Nat} (F : Fin n → Fin n → Fin m → Fin m → ℚ) :
    ∑ i, ∑ l, ∑ j, ∑ k, F i l j k = ∑ j, ∑ k, ∑ i, ∑ l, F i l j k := by
  calc ∑ i, ∑ l, ∑ j, ∑ k, F i l j k
      = ∑ i, ∑ j, ∑ l, ∑ k, F i l j k := Finset.sum_congr rfl fun i _ => Finset.sum_comm
    _ = ∑ j, ∑ i, ∑ l, ∑ k, F i l j k := Finset.sum_comm
    _ = ∑ j, ∑ i, ∑ k, ∑ l, F i l j k :=
        Finset.sum_congr rfl fun j _ => Finset.sum_congr rfl fun i _ => Finset.sum_comm
    _ = ∑ j, ∑ k, ∑ i, ∑ l, F i l j k := Finset.sum_congr rfl fun j _ => Finset.sum_comm

/-- `1 / (d·d·(d+1)·(d+2))` -/
def hbC (d : Nat) : ℚ := 1 / ((d : ℚ) * d * (d + 1) * (d + 2))

theorem hbC_nonneg (d : Nat) : 0 ≤ hbC d := by unfold hbC; positivity

theorem hbC_pos (d : Nat) (hd : 1 ≤ d) : 0 < hbC d := by
  unfold hbC
  have : (0 : ℚ) < d := by exact_mod_cast hd
  positivity

theorem hb_split (d : Nat) (g : Fin (d + 1) → Fin (d + 1) → ℚ) :
    ∑ i, ∑ l, hbCoef d i l * g i l = hbC d * (∑ i, g i i + ∑ i, ∑ l, g i l) := by
  have h : ∀ i l, hbCoef d i l * g i l = hbC d * ((if i = l then g i l else 0) + g i l) := by
    intro i l; unfold hbCoef hbC; split_ifs <;> ring
  simp only [h, ← Finset.mul_sum, Finset.sum_add_distrib, Finset.sum_ite_eq, Finset.mem_univ, if_true]

/-- `w_i = Σ_j t_j (x_i − x_j)`: the RT0 field with coefficients `t` evaluated at vertex `i` (times `d·V`) -/
noncomputable def wvec {d : Nat} (x : Fin (d + 1) → Vec d) (t : Fin (d + 1) → ℚ) (i : Fin (d + 1)) : Vec d :=
  ∑ j, t j • (x i - x j)

theorem rt0Mass_apply (d : Nat) (Kinv : Mat d d) (V : ℚ) (x : Fin (d + 1) → Vec d) (s : Fin (d + 1) → ℚ)
    (j k : Fin (d + 1)) :
    rt0Mass d Kinv V x s j k =
      s j * (∑ i, ∑ l, hbCoef d i l * bf (fun a b => Kinv a b / V) (x i - x j) (x l - x k)) * s k := by
  simp only [rt0Mass, sumFin_eq, dot_mulVec, vsub_eq]

theorem rt0_quad_wvec (d : Nat) (Kinv : Mat d d) (V : ℚ) (x : Fin (d + 1) → Vec d) (s y : Fin (d + 1) → ℚ) :
    quadForm (rt0Mass d Kinv V x s) y =
      ∑ i, ∑ l, hbCoef d i l *
        bf (fun a b => Kinv a b / V) (wvec x (fun j => s j * y j) i) (wvec x (fun j => s j * y j) l) := by
  rw [quadForm_eq]
  simp only [rt0Mass_apply, wvec, LinearMap.BilinForm.sum_left, LinearMap.BilinForm.sum_right,
    LinearMap.BilinForm.smul_left, LinearMap.BilinForm.smul_right, Finset.mul_sum, Finset.sum_mul]
  rw [sum_comm4]
  refine Finset.sum_congr rfl fun i _ => Finset.sum_congr rfl fun l _ => ?_
  rw [Finset.sum_comm]
  refine Finset.sum_congr rfl fun j _ => Finset.sum_congr rfl fun k _ => ?_
  ring

/-- Gram / sum-of-squares representation: `yᵀ M y = c (Σ_i q(w_i) + q(Σ_i w_i))`, `q(v) = vᵀ (K⁻¹/V) v`. -/
theorem rt0_quad_gram (d : Nat) (Kinv : Mat d d) (V : ℚ) (x : Fin (d + 1) → Vec d) (s y : Fin (d + 1) → ℚ) :
    quadForm (rt0Mass d Kinv V x s) y =
      hbC d * ((∑ i, bf (fun a b => Kinv a b / V) (wvec x (fun j => s j * y j) i) (wvec x (fun j => s j * y j) i))
        + bf (fun a b => Kinv a b / V) (∑ i, wvec x (fun j => s j * y j) i) (∑ i, wvec x (fun j => s j * y j) i)) := by
  rw [rt0_quad_wvec, hb_split]
  congr 2
  rw [LinearMap.BilinForm.sum_left]
  refine Finset.sum_congr rfl fun i _ => ?_
  rw [LinearMap.BilinForm.sum_right]

theorem wvec_apply {d : Nat} (x : Fin (d + 1) → Vec d) (t : Fin (d + 1) → ℚ) (i : Fin (d + 1)) (a : Fin d) :
    wvec x t i a = (∑ j, t j) * x i a - ∑ j, t j * x j a := by
  simp only [wvec, Finset.sum_apply, Pi.smul_apply, Pi.sub_apply, smul_eq_mul, mul_sub,
    Finset.sum_sub_distrib, Finset.sum_mul]

/-- `N` has a trivial kernel on a non-degenerate simplex. -/
theorem wvec_injective {d : Nat} (hd : 1 ≤ d) (x : Fin (d + 1) → Vec d) (hx : AffineIndep x)
    (t : Fin (d + 1) → ℚ) (hw : ∀ i, wvec x t i = 0) : ∀ j, t j = 0 := by
  have hw' : ∀ i a, (∑ j, t j) * x i a = ∑ j, t j * x j a := by
    intro i a
    have := congrFun (hw i) a
    rw [wvec_apply] at this
    simpa [sub_eq_zero] using this
  by_cases hT : (∑ j, t j) = 0
  · apply hx t
    · rw [sumFin_eq]; exact hT
    · intro a; rw [sumFin_eq, ← hw' 0 a, hT, zero_mul]
  · -- all vertices coincide: contradiction with affine independence
    exfalso
    have hne : (0 : Fin (d + 1)) ≠ Fin.last d := by
      intro h
      have := congrArg Fin.val h
      simp at this
      omega
    have hxx : ∀ a, x 0 a = x (Fin.last d) a := by
      intro a
      have h1 := hw' 0 a
      have h2 := hw' (Fin.last d) a
      exact mul_left_cancel₀ hT (h1.trans h2.symm)
    have := hx (fun j => (if j = 0 then 1 else 0) - (if j = Fin.last d then 1 else 0))
      (by rw [sumFin_eq]; simp [Finset.sum_sub_distrib])
      (by intro a; rw [sumFin_eq]; simp [sub_mul, Finset.sum_sub_distrib, hxx a]) 0
    simp [hne] at this

theorem hbCoef_symm (d : Nat) (i l : Fin (d + 1)) : hbCoef d i l = hbCoef d l i := by
  unfold hbCoef
  by_cases h : i = l
  · subst h; rfl
  · rw [if_neg h, if_neg (Ne.symm h)]

theorem rt0Mass_symm (d : Nat) (Kinv : Mat d d) (hK : IsSymm Kinv) (V : ℚ) (x : Fin (d + 1) → Vec d)
    (s : Fin (d + 1) → ℚ) (j k : Fin (d + 1)) :
    rt0Mass d Kinv V x s j k = rt0Mass d Kinv V x s k j := by
  have hA : IsSymm (fun a b => Kinv a b / V) := fun a b => by
    show Kinv a b / V = Kinv b a / V
    rw [hK a b]
  rw [rt0Mass_apply, rt0Mass_apply]
  have h : ∑ i, ∑ l, hbCoef d i l * bf (fun a b => Kinv a b / V) (x i - x k) (x l - x j)
      = ∑ i, ∑ l, hbCoef d i l * bf (fun a b => Kinv a b / V) (x i - x j) (x l - x k) := by
    rw [Finset.sum_comm]
    refine Finset.sum_congr rfl fun i _ => Finset.sum_congr rfl fun l _ => ?_
    rw [bf_symm _ hA, hbCoef_symm]
  rw [h]; ring

theorem posDef_semidef {n : Nat} (A : Mat n n) (hA : PosDef A) : PosSemidef A := by
  intro v
  by_cases hv : v = 0
  · subst hv
    rw [quadForm_bf]; simp
  · exact (hA v ((nonZero_iff v).mpr hv)).le

theorem bfdiv_nonneg {d : Nat} (Kinv : Mat d d) (V : ℚ) (hK : PosSemidef Kinv) (hV : 0 < V) (v : Vec d) :
    0 ≤ bf (fun a b => Kinv a b / V) v v := by
  rw [bf_div, ← quadForm_bf]; exact div_nonneg (hK v) hV.le

theorem bfdiv_pos {d : Nat} (Kinv : Mat d d) (V : ℚ) (hK : PosDef Kinv) (hV : 0 < V) (v : Vec d) (hv : v ≠ 0) :
    0 < bf (fun a b => Kinv a b / V) v v := by
  rw [bf_div, ← quadForm_bf]; exact div_pos (hK v ((nonZero_iff v).mpr hv)) hV

theorem rt0_psd (d : Nat) (Kinv : Mat d d) (V : ℚ) (x : Fin (d + 1) → Vec d) (s : Fin (d + 1) → ℚ)
    (hK : PosSemidef Kinv) (hV : 0 < V) : PosSemidef (rt0Mass d Kinv V x s) := by
  intro y
  rw [rt0_quad_gram]
  exact mul_nonneg (hbC_nonneg d) (add_nonneg (Finset.sum_nonneg fun i _ => bfdiv_nonneg Kinv V hK hV _)
    (bfdiv_nonneg Kinv V hK hV _))

theorem rt0_spd (d : Nat) (hd : 1 ≤ d) (Kinv : Mat d d) (V : ℚ) (x : Fin (d + 1) → Vec d) (s : Fin (d + 1) → ℚ)
    (hK : PosDef Kinv) (hV : 0 < V) (hx : AffineIndep x) (hs : ∀ j, s j ≠ 0) :
    PosDef (rt0Mass d Kinv V x s) := by
  intro y hy
  have hK0 := posDef_semidef Kinv hK
  rw [rt0_quad_gram]
  apply mul_pos (hbC_pos d hd)
  have hex : ∃ i, wvec x (fun j => s j * y j) i ≠ 0 := by
    by_contra hcon
    have hcon' : ∀ i, wvec x (fun j => s j * y j) i = 0 := fun i => by
      by_contra h; exact hcon ⟨i, h⟩
    have ht := wvec_injective hd x hx (fun j => s j * y j) hcon'
    obtain ⟨j, hj⟩ := hy
    rcases mul_eq_zero.mp (ht j) with h | h
    · exact hs j h
    · exact hj h
  obtain ⟨i, hi⟩ := hex
  apply add_pos_of_pos_of_nonneg
  · exact Finset.sum_pos' (fun i _ => bfdiv_nonneg Kinv V hK0 hV _)
      ⟨i, Finset.mem_univ _, bfdiv_pos Kinv V hK hV _ hi⟩
  · exact bfdiv_nonneg Kinv V hK0 hV _

/-! ### interpolation identity and local exactness of RT0 -/

theorem divThm_iff {d m : Nat} (V : ℚ) (s : Vec m) (fc nrm : Fin m → Vec d) :
    DivThm V s fc nrm ↔ (∀ b, ∑ f, s f * nrm f b = 0) ∧
      (∀ a b, ∑ f, s f * fc f a * nrm f b = if a = b then V else 0) := by
  simp only [DivThm, sumFin_eq]

theorem faceCentre_apply {d : Nat} (x : Fin (d + 1) → Vec d) (j : Fin (d + 1)) (a : Fin d) :
    faceCentre x j a = ((∑ i, x i a) - x j a) / d := by
  simp only [faceCentre, sumFin_eq]

theorem centroid_apply {d : Nat} (x : Fin (d + 1) → Vec d) (a : Fin d) :
    centroid x a = (∑ i, x i a) / ((d : ℚ) + 1) := by
  simp only [centroid, sumFin_eq]

/-- `Σ_g s_g n_g ⊗ (y − x_g) = d V · I` on a simplex for which the divergence theorem holds -/
theorem simplex_moment {d : Nat} (hd : (d : ℚ) ≠ 0) (V : ℚ) (x nrm : Fin (d + 1) → Vec d) (s : Vec (d + 1))
    (hdiv : DivThm V s (faceCentre x) nrm) (y : Vec d) (a b : Fin d) :
    ∑ g, s g * nrm g a * (y b - x g b) = if b = a then d * V else 0 := by
  obtain ⟨h1, h2⟩ := (divThm_iff _ _ _ _).mp hdiv
  have e : ∀ g, s g * nrm g a * (y b - x g b)
      = (y b - ∑ i, x i b) * (s g * nrm g a) + d * (s g * faceCentre x g b * nrm g a) := by
    intro g; rw [faceCentre_apply]; field_simp; ring
  simp only [e, Finset.sum_add_distrib, ← Finset.mul_sum]
  rw [h1 a, h2 b a]
  split_ifs <;> ring

/-- interpolation: `Σ_g (s_g U·n_g) (y − x_g) = d V U` -/
theorem rt0_interp {d : Nat} (hd : (d : ℚ) ≠ 0) (V : ℚ) (x nrm : Fin (d + 1) → Vec d) (s : Vec (d + 1))
    (hdiv : DivThm V s (faceCentre x) nrm) (U y : Vec d) (b : Fin d) :
    ∑ g, s g * dot U (nrm g) * (y b - x g b) = d * V * U b := by
  have e : ∀ g, s g * dot U (nrm g) * (y b - x g b) = ∑ a, U a * (s g * nrm g a * (y b - x g b)) := by
    intro g
    rw [dot_eq, Finset.mul_sum, Finset.sum_mul]
    exact Finset.sum_congr rfl fun a _ => by ring
  simp only [e]
  rw [Finset.sum_comm]
  simp only [← Finset.mul_sum, simplex_moment hd V x nrm s hdiv]
  simp only [mul_ite, mul_zero, Finset.sum_ite_eq, Finset.mem_univ, if_true]
  ring

theorem isInverse_iff {n : Nat} (B A : Mat n n) :
    IsInverse B A ↔ (∀ i j, ∑ l, B i l * A l j = if i = j then 1 else 0) ∧
      (∀ i j, ∑ l, A i l * B l j = if i = j then 1 else 0) := by
  simp only [IsInverse, matMul_apply, idMat]

theorem isInverse_mulVec {n : Nat} (B A : Mat n n) (h : IsInverse B A) (v : Vec n) :
    mulVec B (mulVec A v) = v := by
  obtain ⟨h1, _⟩ := (isInverse_iff B A).mp h
  funext i
  simp only [mulVec_apply, Finset.mul_sum]
  rw [Finset.sum_comm]
  have e : ∀ l, ∑ j, B i j * (A j l * v l) = (∑ j, B i j * A j l) * v l := by
    intro l; rw [Finset.sum_mul]; exact Finset.sum_congr rfl fun j _ => by ring
  simp only [e, h1, ite_mul, one_mul, zero_mul, Finset.sum_ite_eq, Finset.mem_univ, if_true]

theorem mulVec_darcy {d : Nat} (K Kinv : Mat d d) (V : ℚ) (hinv : IsInverse Kinv K) (a : Vec d) :
    mulVec (fun i j => Kinv i j / V) (darcy K a) = fun c => - a c / V := by
  funext c
  have h := congrFun (isInverse_mulVec Kinv K hinv a) c
  rw [mulVec_apply] at h
  rw [mulVec_apply, ← h, neg_div, Finset.sum_div, ← Finset.sum_neg_distrib]
  refine Finset.sum_congr rfl fun j _ => ?_
  simp only [darcy]; ring

theorem dot_centroid {d : Nat} (a : Vec d) (x : Fin (d + 1) → Vec d) :
    dot a (centroid x) = (∑ i, dot a (x i)) / ((d : ℚ) + 1) := by
  simp only [dot_eq, centroid_apply]
  rw [Finset.sum_comm, Finset.sum_div]
  refine Finset.sum_congr rfl fun c _ => ?_
  rw [← Finset.mul_sum, mul_div_assoc]

theorem dot_faceCentre {d : Nat} (a : Vec d) (x : Fin (d + 1) → Vec d) (f : Fin (d + 1)) :
    dot a (faceCentre x f) = ((∑ i, dot a (x i)) - dot a (x f)) / (d : ℚ) := by
  simp only [dot_eq, faceCentre_apply]
  rw [Finset.sum_comm, ← Finset.sum_sub_distrib, Finset.sum_div]
  refine Finset.sum_congr rfl fun c _ => ?_
  rw [← Finset.mul_sum, ← mul_sub, mul_div_assoc]

/-- `vᵀ (K⁻¹/V) (−K a) = −(a·v)/V` -/
theorem bf_darcy {d : Nat} (K Kinv : Mat d d) (V : ℚ) (hinv : IsInverse Kinv K) (a v w : Vec d) :
    bf (fun i j => Kinv i j / V) (v - w) (darcy K a) = -(dot a v - dot a w) / V := by
  rw [← dot_mulVec, mulVec_darcy K Kinv V hinv a, dot_eq, dot_eq, dot_eq, ← Finset.sum_sub_distrib,
    neg_div, Finset.sum_div, ← Finset.sum_neg_distrib]
  refine Finset.sum_congr rfl fun c _ => ?_
  simp only [Pi.sub_apply]; ring

/-- the mass-matrix row applied to the exact fluxes -/
theorem rt0_row_exact {d : Nat} (hd : 1 ≤ d) (K Kinv : Mat d d) (V : ℚ) (hV : V ≠ 0)
    (x nrm : Fin (d + 1) → Vec d) (s : Vec (d + 1)) (hinv : IsInverse Kinv K)
    (hdiv : DivThm V s (faceCentre x) nrm) (a : Vec d) (f : Fin (d + 1)) :
    ∑ g, rt0Mass d Kinv V x s f g * faceFlux (darcy K a) nrm g
      = - s f * ((∑ i, dot a (x i)) - ((d : ℚ) + 1) * dot a (x f)) / ((d : ℚ) * (d + 1)) := by
  have hd0 : (d : ℚ) ≠ 0 := by
    have : (0 : ℚ) < d := by exact_mod_cast hd
    exact this.ne'
  set U := darcy K a with hU
  set A : Mat d d := fun i j => Kinv i j / V with hA
  -- Σ_g (s_g u_g) (x_l − x_g) = d V U
  have hr : ∀ l, ∑ g, (s g * faceFlux U nrm g) • (x l - x g) = ((d : ℚ) * V) • U := by
    intro l; funext b
    simp only [Finset.sum_apply, Pi.smul_apply, Pi.sub_apply, smul_eq_mul, faceFlux]
    exact rt0_interp hd0 V x nrm s hdiv U (x l) b
  have hB : ∀ i l, ∑ g, (s g * faceFlux U nrm g) * bf A (x i - x f) (x l - x g)
      = (d : ℚ) * V * bf A (x i - x f) U := by
    intro i l
    have := congrArg (fun r => bf A (x i - x f) r) (hr l)
    simp only [LinearMap.BilinForm.sum_right, LinearMap.BilinForm.smul_right] at this
    exact this
  have e1 : ∀ g, rt0Mass d Kinv V x s f g * faceFlux U nrm g
      = ∑ i, ∑ l, s f * hbCoef d i l * ((s g * faceFlux U nrm g) * bf A (x i - x f) (x l - x g)) := by
    intro g
    rw [rt0Mass_apply]
    simp only [Finset.mul_sum, Finset.sum_mul]
    exact Finset.sum_congr rfl fun i _ => Finset.sum_congr rfl fun l _ => by ring
  calc ∑ g, rt0Mass d Kinv V x s f g * faceFlux U nrm g
      = ∑ g, ∑ i, ∑ l, s f * hbCoef d i l * ((s g * faceFlux U nrm g) * bf A (x i - x f) (x l - x g)) :=
        Finset.sum_congr rfl fun g _ => e1 g
    _ = ∑ i, ∑ l, ∑ g, s f * hbCoef d i l * ((s g * faceFlux U nrm g) * bf A (x i - x f) (x l - x g)) := by
        rw [Finset.sum_comm]; exact Finset.sum_congr rfl fun i _ => Finset.sum_comm
    _ = ∑ i, ∑ l, hbCoef d i l * (-(s f * d * (dot a (x i) - dot a (x f)))) := by
        refine Finset.sum_congr rfl fun i _ => Finset.sum_congr rfl fun l _ => ?_
        rw [← Finset.mul_sum, hB i l, bf_darcy K Kinv V hinv a]
        field_simp
    _ = - s f * ((∑ i, dot a (x i)) - ((d : ℚ) + 1) * dot a (x f)) / ((d : ℚ) * (d + 1)) := by
        rw [hb_split]
        simp only [Finset.sum_const, Finset.card_univ, Fintype.card_fin, nsmul_eq_mul, Nat.cast_add,
          Nat.cast_one, Finset.sum_neg_distrib, ← Finset.mul_sum, Finset.sum_sub_distrib]
        unfold hbC
        have h1 : (d : ℚ) + 1 ≠ 0 := by positivity
        have h2 : (d : ℚ) + 2 ≠ 0 := by positivity
        field_simp
        ring

theorem rt0_exact {d : Nat} (hd : 1 ≤ d) (K Kinv : Mat d d) (V : ℚ) (hV : V ≠ 0)
    (x nrm : Fin (d + 1) → Vec d) (s : Vec (d + 1)) (hinv : IsInverse Kinv K)
    (hdiv : DivThm V s (faceCentre x) nrm) (a : Vec d) (b : ℚ) (f : Fin (d + 1)) :
    localResidual (rt0Mass d Kinv V x s) s (faceFlux (darcy K a) nrm) (linP a b (centroid x))
      (fun g => linP a b (faceCentre x g)) f = 0 := by
  have hd0 : (d : ℚ) ≠ 0 := by
    have : (0 : ℚ) < d := by exact_mod_cast hd
    exact this.ne'
  have h1 : (d : ℚ) + 1 ≠ 0 := by positivity
  simp only [localResidual, sumFin_eq, linP]
  rw [rt0_row_exact hd K Kinv V hV x nrm s hinv hdiv a f, dot_centroid, dot_faceCentre]
  field_simp
  ring

theorem faceFlux_divfree {d m : Nat} (V : ℚ) (s : Vec m) (fc nrm : Fin m → Vec d)
    (hdiv : DivThm V s fc nrm) (U : Vec d) : localDivergence s (faceFlux U nrm) = 0 := by
  obtain ⟨h1, _⟩ := (divThm_iff _ _ _ _).mp hdiv
  simp only [localDivergence, faceFlux, sumFin_eq, dot_eq, Finset.mul_sum]
  rw [Finset.sum_comm]
  have e : ∀ a, ∑ g, s g * (U a * nrm g a) = U a * ∑ g, s g * nrm g a := by
    intro a; rw [Finset.mul_sum]; exact Finset.sum_congr rfl fun g _ => by ring
  simp only [e, h1, mul_zero, Finset.sum_const_zero, neg_zero]

/-- `RT0.faces_to_cell` reproduces a constant velocity from its face fluxes -/
theorem rt0Proj_exact {d : Nat} (hd : 1 ≤ d) (V : ℚ) (hV : V ≠ 0) (x fc nrm : Fin (d + 1) → Vec d) (s : Vec (d + 1))
    (hs : ∀ g, s g * s g = 1) (hfc : fc = faceCentre x) (hdiv : DivThm V s fc nrm)
    (hden : ∀ g, dot (vsub (fc g) (x g)) (nrm g) = s g * (d * V)) (U pt : Vec d) (a : Fin d) :
    ∑ g, faceFlux U nrm g * rt0Proj d pt x fc nrm g a = U a := by
  have hd0 : (d : ℚ) ≠ 0 := by
    have : (0 : ℚ) < d := by exact_mod_cast hd
    exact this.ne'
  subst hfc
  have e : ∀ g, faceFlux U nrm g * rt0Proj d pt x (faceCentre x) nrm g a
      = (s g * dot U (nrm g) * (pt a - x g a)) / (d * V) := by
    intro g
    have hsg : s g ≠ 0 := fun h => by have := hs g; rw [h] at this; simp at this
    simp only [rt0Proj, faceFlux, hden g]
    have hs2 : s g ^ 2 = 1 := by rw [pow_two]; exact hs g
    field_simp
    rw [hs2, mul_one]
  simp only [e, ← Finset.sum_div]
  rw [rt0_interp hd0 V x nrm s hdiv U pt a]
  field_simp


open Matrix

/-! ### MVEM: matrix algebra -/

/-- view a model matrix as a Mathlib matrix -/
abbrev toM {m n : Nat} (A : Mat m n) : Matrix (Fin m) (Fin n) ℚ := Matrix.of A

theorem toM_matMul {m n k : Nat} (A : Mat m n) (B : Mat n k) : toM (matMul A B) = toM A * toM B := by
  ext i j; simp only [Matrix.of_apply, matMul_apply, Matrix.mul_apply]

theorem mulVec_toM {m n : Nat} (A : Mat m n) (v : Vec n) : mulVec A v = toM A *ᵥ v := by
  funext i; simp only [mulVec_apply, Matrix.mulVec, dotProduct, Matrix.of_apply]

theorem quadForm_toM {n : Nat} (A : Mat n n) (y : Vec n) : quadForm A y = y ⬝ᵥ (toM A *ᵥ y) := by
  rw [quadForm, ← mulVec_toM, dot_eq]; rfl

theorem dot_dotProduct {n : Nat} (u v : Vec n) : dot u v = u ⬝ᵥ v := by rw [dot_eq]; rfl

theorem toM_mvemAssemble {d m : Nat} (G : Mat d d) (Pi : Mat d m) (D : Mat m d) (w : ℚ) :
    toM (mvemAssemble G Pi D w) = (toM Pi)ᵀ * (toM G * toM Pi)
      + w • ((1 - toM D * toM Pi)ᵀ * (1 - toM D * toM Pi)) := by
  ext f g
  simp only [mvemAssemble, matMul_apply, transpose, idMat, Matrix.add_apply, Matrix.smul_apply,
    Matrix.mul_apply, Matrix.transpose_apply, Matrix.sub_apply, Matrix.one_apply, Matrix.of_apply,
    smul_eq_mul]

theorem isInverse_toM {n : Nat} (B A : Mat n n) (h : IsInverse B A) : toM B * toM A = 1 ∧ toM A * toM B = 1 := by
  obtain ⟨h1, h2⟩ := h
  constructor
  · ext i j; rw [← toM_matMul]; simp only [Matrix.of_apply, h1, idMat, Matrix.one_apply]
  · ext i j; rw [← toM_matMul]; simp only [Matrix.of_apply, h2, idMat, Matrix.one_apply]

theorem isSymm_toM {n : Nat} (A : Mat n n) (h : IsSymm A) : (toM A)ᵀ = toM A := by
  ext i j; simp only [Matrix.transpose_apply, Matrix.of_apply]; exact h j i

/-- `yᵀ A y = (Π y)ᵀ G (Π y) + w ‖(I − D Π) y‖²` -/
theorem mvem_quad {d m : Nat} (G : Mat d d) (Pi : Mat d m) (D : Mat m d) (w : ℚ) (y : Vec m) :
    quadForm (mvemAssemble G Pi D w) y
      = quadForm G (mulVec Pi y) + w * dot (y - mulVec D (mulVec Pi y)) (y - mulVec D (mulVec Pi y)) := by
  rw [quadForm_toM, quadForm_toM, toM_mvemAssemble, dot_dotProduct, mulVec_toM, mulVec_toM]
  rw [Matrix.add_mulVec, dotProduct_add, Matrix.smul_mulVec, dotProduct_smul, smul_eq_mul]
  congr 1
  · rw [← Matrix.mulVec_mulVec, Matrix.dotProduct_mulVec, Matrix.vecMul_transpose, Matrix.mulVec_mulVec]
  · rw [← Matrix.mulVec_mulVec, Matrix.dotProduct_mulVec, Matrix.vecMul_transpose]
    rw [Matrix.sub_mulVec, Matrix.one_mulVec, Matrix.mulVec_mulVec]

theorem mvem_spd {d m : Nat} (G : Mat d d) (Pi : Mat d m) (D : Mat m d) (w : ℚ) (hG : PosDef G) (hw : 0 < w) :
    PosDef (mvemAssemble G Pi D w) := by
  intro y hy
  rw [mvem_quad]
  have hy0 : y ≠ 0 := (nonZero_iff y).mp hy
  by_cases hP : mulVec Pi y = 0
  · have h0 : quadForm G (mulVec Pi y) = 0 := by rw [hP, quadForm_bf]; simp
    have hD : mulVec D (0 : Vec d) = 0 := by funext i; simp [mulVec_apply]
    rw [h0, hP, hD, sub_zero, zero_add]
    apply mul_pos hw
    rcases (dot_self_nonneg y).lt_or_eq with h | h
    · exact h
    · exact absurd (dot_self_eq_zero y h.symm) hy0
  · have h1 := hG (mulVec Pi y) ((nonZero_iff _).mpr hP)
    have h2 := dot_self_nonneg (y - mulVec D (mulVec Pi y))
    have := mul_nonneg hw.le h2
    linarith

theorem mvem_symm {d m : Nat} (G : Mat d d) (Pi : Mat d m) (D : Mat m d) (w : ℚ) (hG : IsSymm G) :
    IsSymm (mvemAssemble G Pi D w) := by
  have h : (toM (mvemAssemble G Pi D w))ᵀ = toM (mvemAssemble G Pi D w) := by
    rw [toM_mvemAssemble]
    simp only [Matrix.transpose_add, Matrix.transpose_smul, Matrix.transpose_mul, Matrix.transpose_transpose,
      isSymm_toM G hG, Matrix.mul_assoc]
  intro f g
  have := congrFun (congrFun h g) f
  simpa only [Matrix.transpose_apply, Matrix.of_apply] using this

/-- consistency: if `F D = G` (divergence theorem) the projector reproduces polynomial gradients,
    the stabilisation vanishes on them and `A D = Fᵀ` -/
theorem mvem_consistency {d m : Nat} (G Ginv : Mat d d) (F : Mat d m) (D : Mat m d) (w : ℚ)
    (hinv : IsInverse Ginv G) (hG : IsSymm G) (hFD : ∀ a b, matMul F D a b = G a b) :
    (∀ g : Vec d, mulVec (mvemPi Ginv F) (mulVec D g) = g) ∧
    (∀ g : Vec d, mulVec D g - mulVec D (mulVec (mvemPi Ginv F) (mulVec D g)) = 0) ∧
    (∀ g : Vec d, mulVec (mvemAssemble G (mvemPi Ginv F) D w) (mulVec D g) = mulVec (transpose F) g) := by
  obtain ⟨hi1, hi2⟩ := isInverse_toM Ginv G hinv
  have hFD' : toM F * toM D = toM G := by
    ext a b; rw [← toM_matMul]; simp only [Matrix.of_apply, hFD]
  have hPi : toM (mvemPi Ginv F) = toM Ginv * toM F := toM_matMul Ginv F
  have hPD : toM (mvemPi Ginv F) * toM D = 1 := by rw [hPi, Matrix.mul_assoc, hFD', hi1]
  have hGs := isSymm_toM G hG
  have hGiT : (toM Ginv)ᵀ * toM G = 1 := by
    rw [← hGs, ← Matrix.transpose_mul, hi2, Matrix.transpose_one]
  have c1 : ∀ g : Vec d, mulVec (mvemPi Ginv F) (mulVec D g) = g := by
    intro g; rw [mulVec_toM, mulVec_toM, Matrix.mulVec_mulVec, hPD, Matrix.one_mulVec]
  refine ⟨c1, fun g => by rw [c1 g, sub_self], fun g => ?_⟩
  rw [mulVec_toM, mulVec_toM, mulVec_toM, toM_mvemAssemble, Matrix.mulVec_mulVec, Matrix.add_mul,
    Matrix.smul_mul, Matrix.mul_assoc, Matrix.mul_assoc, Matrix.mul_assoc, hPD, Matrix.sub_mul,
    Matrix.mul_assoc, hPD, Matrix.one_mul, Matrix.mul_one, Matrix.mul_one, sub_self, Matrix.mul_zero,
    smul_zero, add_zero, hPi, Matrix.transpose_mul, Matrix.mul_assoc, hGiT, Matrix.mul_one]
  rfl

end PorepyVerif.C18
