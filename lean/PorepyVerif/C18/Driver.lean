/- C18 line-protocol driver: `lake env lean --run PorepyVerif/C18/Driver.lean`

Evaluates the model functions of `Model.lean` on rational data.  Intermediate matrices are
tabulated (`tabulate`, a value computed once) and read back (`fromTab`) before they are handed
on, so that the closures `Fin m → Fin n → Rat` are not re-evaluated exponentially often;
`fromTab (tabulate A)` is extensionally `A`. -/
import PorepyVerif.Common.Wire
import PorepyVerif.C18.Model
open Lean PV PorepyVerif.C18

def vecOf (d : Nat) (l : List Rat) : Vec d := fun a => l.getD a.val 0
def matOf (m n : Nat) (l : List (List Rat)) : Mat m n := fun i j => (l.getD i.val []).getD j.val 0
def vecsOf (m d : Nat) (l : List (List Rat)) : Fin m → Vec d := fun i => vecOf d (l.getD i.val [])

def tabulate {m n : Nat} (A : Mat m n) : Array (Array Rat) :=
  Array.ofFn fun i : Fin m => Array.ofFn fun j : Fin n => A i j

def fromTab {m n : Nat} (t : Array (Array Rat)) : Mat m n :=
  fun i j => (t.getD i.val #[]).getD j.val 0

def listOfVec {d : Nat} (v : Vec d) : List Rat := (List.finRange d).map v
def ofVec {d : Nat} (v : Vec d) : Json := ofRats (listOfVec v)
def ofMat {m n : Nat} (A : Mat m n) : Json := ofList ofRats ((List.finRange m).map fun i => listOfVec (A i))

def checkShape (name : String) (l : List (List Rat)) (m n : Nat) : R Unit :=
  if l.length != m || l.any (fun r => r.length != n) then throw s!"{name}: expected {m} x {n}" else pure ()

def checkLen (name : String) (l : List Rat) (n : Nat) : R Unit :=
  if l.length != n then throw s!"{name}: expected length {n}" else pure ()

def run (j : Json) : R Json := do
  let op ← fStr j "op"
  let d ← fNat j "d"
  if d == 0 || d > 3 then throw "d must be 1, 2 or 3" else
  match op with
  | "inv" =>
    let K ← fRatss j "K"
    checkShape "K" K d d
    pure (obj [("inv", ofMat (invMatrix d (matOf d d K)))])
  | "rt0_mass" =>
    -- K given; inverse by the as-coded formula, then RT0.massHdiv
    let K ← fRatss j "K"
    let V ← fRat j "V"
    let x ← fRatss j "coord"
    let s ← fRats j "sign"
    checkShape "K" K d d
    checkShape "coord" x (d + 1) d
    checkLen "sign" s (d + 1)
    let tKinv := tabulate (invMatrix d (matOf d d K))
    let Kinv : Mat d d := fromTab tKinv
    let tx := tabulate (fun i a => vecsOf (d + 1) d x i a)
    let xs : Fin (d + 1) → Vec d := fromTab tx
    let M := rt0Mass d Kinv V xs (vecOf (d + 1) s)
    pure (obj [("inv", ofMat Kinv), ("M", ofMat M)])
  | "rt0_proj" =>
    let pt ← fRats j "pt"
    let x ← fRatss j "coord"
    let fc ← fRatss j "fc"
    let nrm ← fRatss j "normals"
    checkLen "pt" pt d
    checkShape "coord" x (d + 1) d
    checkShape "fc" fc (d + 1) d
    checkShape "normals" nrm (d + 1) d
    let P := rt0Proj d (vecOf d pt) (vecsOf (d + 1) d x) (vecsOf (d + 1) d fc) (vecsOf (d + 1) d nrm)
    -- returned as a (d+1) x d list: row j = column j of the local P
    pure (obj [("P", ofMat (fun j a => P j a))])
  | "mvem_mass" =>
    let m ← fNat j "m"
    let K ← fRatss j "K"
    let c ← fRats j "c"
    let V ← fRat j "V"
    let fc ← fRatss j "fc"
    let nrm ← fRatss j "normals"
    let s ← fRats j "sign"
    let diam ← fRat j "diam"
    let weight ← fRat j "weight"
    checkShape "K" K d d
    checkLen "c" c d
    checkShape "fc" fc m d
    checkShape "normals" nrm m d
    checkLen "sign" s m
    let tK := tabulate (matOf d d K)
    let Km : Mat d d := fromTab tK
    let tKinv := tabulate (invMatrix d Km)
    let Kinv : Mat d d := fromTab tKinv
    let tG := tabulate (mvemG d Km V diam)
    let G : Mat d d := fromTab tG
    let tGinv := tabulate (invMatrix d G)
    let Ginv : Mat d d := fromTab tGinv
    let tF := tabulate (mvemF d m (vecOf d c) (vecsOf m d fc) (vecOf m s) diam)
    let F : Mat d m := fromTab tF
    let tPi := tabulate (mvemPi Ginv F)
    let Pi : Mat d m := fromTab tPi
    let tD := tabulate (mvemD d m Km (vecsOf m d nrm) diam)
    let D : Mat m d := fromTab tD
    let w := weight * normInf Kinv
    let tA := tabulate (mvemAssemble G Pi D w)
    pure (obj [("A", ofMat (fromTab tA : Mat m m)), ("Pi", ofMat Pi)])
  | _ => throw s!"unknown op {op}"

def main : IO Unit := runPure run
