import PorepyVerif.C38.Props
#print axioms PorepyVerif.C38.groups_partition_cells
#print axioms PorepyVerif.C38.groups_partition_cells_as_coded
#print axioms PorepyVerif.C38.chop_concat_id
#print axioms PorepyVerif.C38.import_export_id
#print axioms PorepyVerif.C38.import_export_id_vector
#print axioms PorepyVerif.C38.gatherCols_eq_gather
#print axioms PorepyVerif.C38.roundtrip_dim
#print axioms PorepyVerif.C38.time_info_roundtrip
#print axioms PorepyVerif.C38.time_history_roundtrip
#print axioms PorepyVerif.C38.restart_time_restored
#print axioms PorepyVerif.C38.restart_time_restored_last
#print axioms PorepyVerif.C38.pvd_selects_latest
