/-
C38 — helper lemmas (core Lean only; no Mathlib needed).
-/
import PorepyVerif.C38.Model

namespace PorepyVerif.C38

/-! ### chop / flatten -/

theorem chop_flatten (parts : List (List α)) : chop (parts.map List.length) parts.flatten = parts := by
  induction parts with
  | nil => rfl
  | cons p ps ih =>
    simp only [List.map_cons, List.flatten_cons, chop, List.take_left', List.drop_left', ih]

theorem flatten_chop (sizes : List Nat) (v : List α) (h : v.length ≤ sizes.sum) :
    (chop sizes v).flatten = v := by
  induction sizes generalizing v with
  | nil =>
    simp only [List.sum_nil, Nat.le_zero_eq, List.length_eq_zero_iff] at h
    subst h; rfl
  | cons n ns ih =>
    simp only [chop, List.flatten_cons]
    rw [ih]
    · exact List.take_append_drop n v
    · simp only [List.length_drop, List.sum_cons] at *; omega

theorem length_chop (sizes : List Nat) (v : List α) : (chop sizes v).length = sizes.length := by
  induction sizes generalizing v with
  | nil => rfl
  | cons n ns ih => simp [chop, ih]

/-! ### gather / scatter -/

theorem flatten_map_gather (d : α) (v : List α) (ids : List (List Nat)) :
    (ids.map (gather d v)).flatten = gather d v ids.flatten := by
  induction ids with
  | nil => rfl
  | cons b bs ih => simp [gather, List.flatten_cons, List.map_append] at *; rw [ih]

theorem length_scatter (out : List α) (ids : List Nat) (vals : List α) :
    (scatter out ids vals).length = out.length := by
  induction ids generalizing out vals with
  | nil => cases vals <;> rfl
  | cons i is ih =>
    cases vals with
    | nil => rfl
    | cons x xs => simp [scatter, ih]

theorem scatter_getD_not_mem (d : α) (out : List α) (ids : List Nat) (vals : List α) (j : Nat)
    (hj : j ∉ ids) : (scatter out ids vals).getD j d = out.getD j d := by
  induction ids generalizing out vals with
  | nil => cases vals <;> rfl
  | cons i is ih =>
    cases vals with
    | nil => rfl
    | cons x xs =>
      simp only [List.mem_cons, not_or] at hj
      simp only [scatter]
      rw [ih _ _ hj.2]
      simp only [List.getD_eq_getElem?_getD]
      rw [List.getElem?_set_ne (Ne.symm hj.1)]

theorem scatter_map_getD (d : α) (f : Nat → α) (out : List α) (ids : List Nat) (j : Nat)
    (hj : j ∈ ids) (hnd : ids.Nodup) (hb : ∀ i ∈ ids, i < out.length) :
    (scatter out ids (ids.map f)).getD j d = f j := by
  induction ids generalizing out with
  | nil => cases hj
  | cons i is ih =>
    simp only [List.map_cons, scatter]
    have hnd' := List.nodup_cons.mp hnd
    by_cases hmem : j ∈ is
    · exact ih _ hmem hnd'.2 (fun k hk => by simp [hb k (List.mem_cons_of_mem _ hk)])
    · have hji : j = i := by
        rcases List.mem_cons.mp hj with h | h
        · exact h
        · exact absurd h hmem
      subst hji
      rw [scatter_getD_not_mem d _ _ _ _ hmem]
      have : j < out.length := hb j (List.mem_cons_self)
      simp [List.getD_eq_getElem?_getD, this]

/-- `ids` lists every index below `n` exactly once -/
def IsPerm (ids : List Nat) (n : Nat) : Prop := ids.Nodup ∧ ∀ i, i ∈ ids ↔ i < n

theorem ext_getD (d : α) (a b : List α) (hl : a.length = b.length)
    (h : ∀ j, j < a.length → a.getD j d = b.getD j d) : a = b := by
  apply List.ext_getElem hl
  intro j h1 h2
  have := h j h1
  simpa [List.getD_eq_getElem?_getD, h1, h2] using this

/-- scattering gathered values through a permutation of the indices restores the array -/
theorem scatter_gather (d : α) (v : List α) (ids : List Nat) (h : IsPerm ids v.length) :
    scatter (List.replicate v.length d) ids (gather d v ids) = v := by
  apply ext_getD d
  · simp [length_scatter]
  · intro j hj
    rw [length_scatter, List.length_replicate] at hj
    exact scatter_map_getD d (fun i => v.getD i d) (List.replicate v.length d) ids j
      ((h.2 j).mpr hj) h.1 (fun i hi => by simpa using (h.2 i).mp hi)

theorem length_gather (d : α) (v : List α) (ids : List Nat) : (gather d v ids).length = ids.length := by
  simp [gather]

/-- a nodup list of numbers below `n` that covers them has length `n` -/
theorem IsPerm.length_eq {ids : List Nat} {n : Nat} (h : IsPerm ids n) : ids.length = n := by
  have hp : ids.Perm (List.range n) := by
    rw [List.perm_ext_iff_of_nodup h.1 List.nodup_range]
    intro a; rw [h.2 a, List.mem_range]
  simpa using hp.length_eq

/-! ### uniqueKeys -/

theorem mem_insertKey (x k : Nat) (l : List Nat) : x ∈ insertKey k l ↔ x = k ∨ x ∈ l := by
  induction l with
  | nil => simp [insertKey]
  | cons a l ih =>
    simp only [insertKey]
    split
    · simp
    · split
      · rename_i h; subst h; simp
      · simp only [List.mem_cons, ih]
        constructor
        · rintro (h | h | h) <;> simp [h]
        · rintro (h | h | h) <;> simp [h]

theorem mem_uniqueKeys (x : Nat) (l : List Nat) : x ∈ uniqueKeys l ↔ x ∈ l := by
  induction l with
  | nil => simp [uniqueKeys]
  | cons a l ih => simp [uniqueKeys, mem_insertKey, ih]

theorem pairwise_insertKey (k : Nat) (l : List Nat) (h : l.Pairwise (· < ·)) :
    (insertKey k l).Pairwise (· < ·) := by
  induction l with
  | nil => simp [insertKey]
  | cons a l ih =>
    have ha := List.pairwise_cons.mp h
    simp only [insertKey]
    split
    · rename_i hk
      refine List.pairwise_cons.mpr ⟨?_, h⟩
      intro b hb
      rcases List.mem_cons.mp hb with rfl | hb
      · exact hk
      · exact Nat.lt_trans hk (ha.1 b hb)
    · split
      · exact h
      · rename_i h1 h2
        refine List.pairwise_cons.mpr ⟨?_, ih ha.2⟩
        intro b hb
        rcases (mem_insertKey b k l).mp hb with rfl | hb
        · omega
        · exact ha.1 b hb

theorem pairwise_uniqueKeys (l : List Nat) : (uniqueKeys l).Pairwise (· < ·) := by
  induction l with
  | nil => simp [uniqueKeys]
  | cons a l ih => exact pairwise_insertKey a _ ih

theorem nodup_uniqueKeys (l : List Nat) : (uniqueKeys l).Nodup :=
  (pairwise_uniqueKeys l).imp (fun h => Nat.ne_of_lt h)

/-! ### cellsOf -/

theorem mem_cellsOf (k off i : Nat) (kinds : List Nat) :
    i ∈ cellsOf k off kinds ↔ off ≤ i ∧ kinds[i - off]? = some k := by
  induction kinds generalizing off with
  | nil => simp [cellsOf]
  | cons x xs ih =>
    have key : (i ∈ cellsOf k (off + 1) xs) ↔ (off + 1 ≤ i ∧ xs[i - (off + 1)]? = some k) := ih (off + 1)
    by_cases hi : i = off
    · subst hi
      simp only [cellsOf]
      split
      · rename_i hx; simp [hx]
      · rename_i hx
        rw [key]; simp [hx]
        intro h; omega
    · simp only [cellsOf]
      have e : (x :: xs)[i - off]? = xs[i - (off + 1)]? ∨ i < off := by
        by_cases hlt : i < off
        · exact Or.inr hlt
        · left
          have : i - off = (i - (off + 1)) + 1 := by omega
          rw [this, List.getElem?_cons_succ]
      split
      · rw [List.mem_cons, key]
        constructor
        · rintro (h | h)
          · exact absurd h hi
          · rcases e with e | e
            · exact ⟨by omega, e ▸ h.2⟩
            · omega
        · rintro ⟨h1, h2⟩
          right
          rcases e with e | e
          · exact ⟨by omega, e ▸ h2⟩
          · omega
      · rw [key]
        constructor
        · rintro ⟨h1, h2⟩
          rcases e with e | e
          · exact ⟨by omega, e ▸ h2⟩
          · omega
        · rintro ⟨h1, h2⟩
          rcases e with e | e
          · exact ⟨by omega, e ▸ h2⟩
          · omega

theorem nodup_cellsOf (k off : Nat) (kinds : List Nat) : (cellsOf k off kinds).Nodup := by
  induction kinds generalizing off with
  | nil => simp [cellsOf]
  | cons x xs ih =>
    simp only [cellsOf]
    split
    · refine List.nodup_cons.mpr ⟨?_, ih _⟩
      intro h
      have := ((mem_cellsOf k (off + 1) off xs).mp h).1
      omega
    · exact ih _

/-! ### groups -/

theorem allIds_cons (g : Nat × List Nat) (gs : Groups) : allIds (g :: gs) = g.2 ++ allIds gs := by
  simp [allIds]

theorem mem_allIds_addGroup (i k : Nat) (ids : List Nat) (gs : Groups) :
    i ∈ allIds (addGroup k ids gs) ↔ i ∈ allIds gs ∨ i ∈ ids := by
  induction gs with
  | nil => simp [addGroup, allIds]
  | cons g gs ih =>
    simp only [addGroup]
    split
    · simp only [allIds_cons, List.mem_append]
      constructor
      · rintro ((h | h) | h) <;> simp [h]
      · rintro ((h | h) | h) <;> simp [h]
    · simp only [allIds_cons, List.mem_append, ih]
      constructor
      · rintro (h | h | h) <;> simp [h]
      · rintro ((h | h) | h) <;> simp [h]

theorem nodup_allIds_addGroup (k : Nat) (ids : List Nat) (gs : Groups)
    (h1 : (allIds gs).Nodup) (h2 : ids.Nodup) (h3 : ∀ i ∈ ids, i ∉ allIds gs) :
    (allIds (addGroup k ids gs)).Nodup := by
  induction gs with
  | nil => simpa [addGroup, allIds] using h2
  | cons g gs ih =>
    rw [allIds_cons] at h1 h3
    have hn := List.nodup_append.mp h1
    simp only [addGroup]
    split
    · rw [allIds_cons]
      show ((g.2 ++ ids) ++ allIds gs).Nodup
      refine List.nodup_append.mpr ⟨List.nodup_append.mpr ⟨hn.1, h2, ?_⟩, hn.2.1, ?_⟩
      · intro a ha b hb hab
        subst hab
        exact h3 a hb (List.mem_append_left _ ha)
      · intro a ha b hb hab
        subst hab
        rcases List.mem_append.mp ha with ha | ha
        · exact hn.2.2 a ha a hb rfl
        · exact h3 a ha (List.mem_append_right _ hb)
    · rw [allIds_cons]
      refine List.nodup_append.mpr ⟨hn.1, ih hn.2.1 (fun i hi hm => h3 i hi (List.mem_append_right _ hm)), ?_⟩
      intro a ha b hb hab
      subst hab
      rcases (mem_allIds_addGroup a k ids gs).mp hb with hb | hb
      · exact hn.2.2 a ha a hb rfl
      · exact h3 a hb (List.mem_append_left _ ha)

/-- folding `addGroup` over distinct keys with pairwise disjoint, duplicate-free id lists -/
theorem foldl_addGroup (f : Nat → List Nat) (keys : List Nat) (gs : Groups)
    (hk : keys.Nodup) (hf : ∀ k, (f k).Nodup)
    (hdis : ∀ k k' i, i ∈ f k → i ∈ f k' → k = k')
    (hnew : ∀ k ∈ keys, ∀ i ∈ f k, i ∉ allIds gs) (hgs : (allIds gs).Nodup) :
    (allIds (keys.foldl (fun acc k => addGroup k (f k) acc) gs)).Nodup ∧
    ∀ i, i ∈ allIds (keys.foldl (fun acc k => addGroup k (f k) acc) gs) ↔
      i ∈ allIds gs ∨ ∃ k ∈ keys, i ∈ f k := by
  induction keys generalizing gs with
  | nil => simp [hgs]
  | cons k ks ih =>
    have hk' := List.nodup_cons.mp hk
    simp only [List.foldl_cons]
    have step := ih (addGroup k (f k) gs) hk'.2
      (by
        intro k' hk'mem i hi hm
        rcases (mem_allIds_addGroup i k (f k) gs).mp hm with hm | hm
        · exact hnew k' (List.mem_cons_of_mem _ hk'mem) i hi hm
        · have := hdis k' k i hi hm
          subst this
          exact hk'.1 hk'mem)
      (nodup_allIds_addGroup k (f k) gs hgs (hf k) (hnew k List.mem_cons_self))
    refine ⟨step.1, ?_⟩
    intro i
    rw [step.2 i, mem_allIds_addGroup]
    constructor
    · rintro ((h | h) | ⟨k', hk'm, h⟩)
      · exact Or.inl h
      · exact Or.inr ⟨k, List.mem_cons_self, h⟩
      · exact Or.inr ⟨k', List.mem_cons_of_mem _ hk'm, h⟩
    · rintro (h | ⟨k', hk'm, h⟩)
      · exact Or.inl (Or.inl h)
      · rcases List.mem_cons.mp hk'm with rfl | hk'm
        · exact Or.inl (Or.inr h)
        · exact Or.inr ⟨k', hk'm, h⟩

theorem groupGrid_spec (off : Nat) (kinds : List Nat) (gs : Groups)
    (hgs : (allIds gs).Nodup) (hlt : ∀ i ∈ allIds gs, i < off) :
    (allIds (groupGrid off kinds gs)).Nodup ∧
    ∀ i, i ∈ allIds (groupGrid off kinds gs) ↔ i ∈ allIds gs ∨ (off ≤ i ∧ i < off + kinds.length) := by
  have h := foldl_addGroup (fun k => cellsOf k off kinds) (uniqueKeys kinds) gs
    (nodup_uniqueKeys kinds) (fun k => nodup_cellsOf k off kinds)
    (by
      intro k k' i h1 h2
      have a := ((mem_cellsOf k off i kinds).mp h1).2
      have b := ((mem_cellsOf k' off i kinds).mp h2).2
      rw [a] at b
      exact Option.some.inj b)
    (by
      intro k _ i hi hm
      have := ((mem_cellsOf k off i kinds).mp hi).1
      have := hlt i hm
      omega)
    hgs
  refine ⟨h.1, ?_⟩
  intro i
  show i ∈ allIds (List.foldl _ gs (uniqueKeys kinds)) ↔ _
  rw [h.2 i]
  constructor
  · rintro (h | ⟨k, _, hk⟩)
    · exact Or.inl h
    · right
      have := (mem_cellsOf k off i kinds).mp hk
      refine ⟨this.1, ?_⟩
      have hlt := (List.getElem?_eq_some_iff.mp this.2).1
      omega
  · rintro (h | ⟨h1, h2⟩)
    · exact Or.inl h
    · right
      have hlt : i - off < kinds.length := by omega
      refine ⟨kinds[i - off], (mem_uniqueKeys _ _).mpr (List.getElem_mem hlt), ?_⟩
      exact (mem_cellsOf _ off i kinds).mpr ⟨h1, List.getElem?_eq_getElem hlt⟩

theorem groupGrids_spec (off : Nat) (grids : List (List Nat)) (gs : Groups)
    (hgs : (allIds gs).Nodup) (hlt : ∀ i ∈ allIds gs, i < off) :
    (allIds (groupGrids off grids gs)).Nodup ∧
    ∀ i, i ∈ allIds (groupGrids off grids gs) ↔
      i ∈ allIds gs ∨ (off ≤ i ∧ i < off + (grids.map List.length).sum) := by
  induction grids generalizing off gs with
  | nil =>
    refine ⟨hgs, fun i => ?_⟩
    simp only [groupGrids, List.map_nil, List.sum_nil, Nat.add_zero]
    constructor
    · exact Or.inl
    · rintro (h | h)
      · exact h
      · omega
  | cons g rest ih =>
    have hg := groupGrid_spec off g gs hgs hlt
    have hlt' : ∀ i ∈ allIds (groupGrid off g gs), i < off + g.length := by
      intro i hi
      rcases (hg.2 i).mp hi with h | h
      · have := hlt i h; omega
      · exact h.2
    have step := ih (off + g.length) (groupGrid off g gs) hg.1 hlt'
    refine ⟨step.1, fun i => ?_⟩
    show i ∈ allIds (groupGrids (off + g.length) rest (groupGrid off g gs)) ↔ _
    rw [step.2 i, hg.2 i]
    simp only [List.map_cons, List.sum_cons]
    constructor
    · rintro ((h | h) | h)
      · exact Or.inl h
      · right; omega
      · right; omega
    · rintro (h | h)
      · exact Or.inl (Or.inl h)
      · by_cases hc : i < off + g.length
        · exact Or.inl (Or.inr ⟨h.1, hc⟩)
        · right; omega

/-! ### consecutive -/

theorem consecutive_eq_range' (off : Nat) (sizes : List Nat) :
    consecutive off sizes = List.range' off sizes.sum := by
  induction sizes generalizing off with
  | nil => simp [consecutive]
  | cons n ns ih =>
    simp only [consecutive, List.sum_cons, ih]
    rw [List.range'_append_1]

theorem isPerm_consecutive (sizes : List Nat) : IsPerm (consecutive 0 sizes) sizes.sum := by
  rw [consecutive_eq_range']
  refine ⟨List.nodup_range', fun i => ?_⟩
  simp [List.mem_range']

/-! ### sorting blocks -/

theorem perm_insertGroup (g : Nat × α) (l : List (Nat × α)) : (insertGroup g l).Perm (g :: l) := by
  induction l with
  | nil => exact List.Perm.refl _
  | cons h t ih =>
    simp only [insertGroup]
    split
    · exact List.Perm.refl _
    · exact (List.Perm.cons h ih).trans (List.Perm.swap g h t)

theorem perm_sortGroups (l : List (Nat × α)) : (sortGroups l).Perm l := by
  induction l with
  | nil => exact List.Perm.refl _
  | cons g gs ih => exact (perm_insertGroup g _).trans (List.Perm.cons g ih)

theorem pairwise_insertGroup (g : Nat × α) (l : List (Nat × α)) (h : l.Pairwise (fun a b => a.1 ≤ b.1)) :
    (insertGroup g l).Pairwise (fun a b => a.1 ≤ b.1) := by
  induction l with
  | nil => simp [insertGroup]
  | cons a t ih =>
    have ha := List.pairwise_cons.mp h
    simp only [insertGroup]
    split
    · rename_i hle
      refine List.pairwise_cons.mpr ⟨?_, h⟩
      intro b hb
      rcases List.mem_cons.mp hb with rfl | hb
      · exact hle
      · exact Nat.le_trans hle (ha.1 b hb)
    · rename_i hle
      refine List.pairwise_cons.mpr ⟨?_, ih ha.2⟩
      intro b hb
      rcases List.mem_cons.mp ((perm_insertGroup g t).mem_iff.mp hb) with rfl | hb
      · omega
      · exact ha.1 b hb

theorem pairwise_sortGroups (l : List (Nat × α)) : (sortGroups l).Pairwise (fun a b => a.1 ≤ b.1) := by
  induction l with
  | nil => simp [sortGroups]
  | cons g gs ih => exact pairwise_insertGroup g _ ih

/-- sorting blocks that are already in ascending order changes nothing -/
theorem sortGroups_of_sorted (l : List (Nat × α)) (h : l.Pairwise (fun a b => a.1 ≤ b.1)) :
    sortGroups l = l := by
  induction l with
  | nil => rfl
  | cons g gs ih =>
    have hg := List.pairwise_cons.mp h
    simp only [sortGroups, ih hg.2]
    cases gs with
    | nil => rfl
    | cons a t => simp [insertGroup, hg.1 a List.mem_cons_self]


/-! ### decimal digits and `"%f"` labels -/

theorem digitsAux_lt (f n : Nat) : ∀ d ∈ digitsAux f n, d < 10 := by
  induction f generalizing n with
  | zero => simp [digitsAux]
  | succ f ih =>
    intro d hd
    simp only [digitsAux] at hd
    split at hd
    · simp only [List.mem_singleton] at hd; omega
    · rcases List.mem_cons.mp hd with h | h
      · omega
      · exact ih _ d h

theorem ofLE_digitsAux (f n : Nat) (h : n < f) : ofLE (digitsAux f n) = n := by
  induction f generalizing n with
  | zero => omega
  | succ f ih =>
    simp only [digitsAux]
    split
    · simp [ofLE]
    · simp only [ofLE]
      rw [ih (n / 10) (by omega)]
      omega

theorem ofLE_digitsLE (n : Nat) : ofLE (digitsLE n) = n := ofLE_digitsAux (n + 1) n (by omega)

theorem foldl_ofBE_append (acc : Nat) (l : List Nat) (d : Nat) :
    (l ++ [d]).foldl (fun acc d => 10 * acc + d) acc = 10 * l.foldl (fun acc d => 10 * acc + d) acc + d := by
  simp [List.foldl_append]

theorem ofBE_reverse (l : List Nat) : ofBE l.reverse = ofLE l := by
  induction l with
  | nil => rfl
  | cons d ds ih =>
    unfold ofBE at *
    rw [List.reverse_cons, foldl_ofBE_append, ih]
    simp only [ofLE]; omega

theorem ofBE_pad6 (m : Nat) (h : m < 1000000) : ofBE (pad6 m) = m := by
  simp only [ofBE, pad6, List.foldl_cons, List.foldl_nil]
  omega

theorem ofBE_zero_pad (k : Nat) (ds : List Nat) : ofBE (List.replicate k 0 ++ ds) = ofBE ds := by
  unfold ofBE
  rw [List.foldl_append]
  have : (List.replicate k 0).foldl (fun acc d => 10 * acc + d) 0 = 0 := by
    induction k with
    | zero => rfl
    | succ k ih => simp [List.replicate_succ, ih]
  rw [this]

theorem takeWhile_append_stop (p : Nat → Bool) (a b : List Nat) (x : Nat)
    (ha : ∀ y ∈ a, p y = true) (hx : p x = false) : (a ++ x :: b).takeWhile p = a := by
  induction a with
  | nil => simp [hx]
  | cons y ys ih =>
    simp only [List.cons_append, List.takeWhile, ha y List.mem_cons_self]
    rw [ih (fun z hz => ha z (List.mem_cons_of_mem _ hz))]

theorem dropWhile_append_stop (p : Nat → Bool) (a b : List Nat) (x : Nat)
    (ha : ∀ y ∈ a, p y = true) (hx : p x = false) : (a ++ x :: b).dropWhile p = x :: b := by
  induction a with
  | nil => simp [hx]
  | cons y ys ih =>
    simp only [List.cons_append, List.dropWhile, ha y List.mem_cons_self]
    exact ih (fun z hz => ha z (List.mem_cons_of_mem _ hz))

theorem map_add_sub (l : List Nat) : (l.map (· + 48)).map (· - 48) = l := by
  induction l with
  | nil => rfl
  | cons a t ih => simp [ih]

/-- reading a `"%f"` label as a number gives back the number it was rendered from -/
theorem valueF_renderF (N : Nat) : valueF (renderF N) = N := by
  have hint : ∀ y ∈ (digitsLE (N / 1000000)).reverse.map (· + 48), (y != 46) = true := by
    intro y hy
    rcases List.mem_map.mp hy with ⟨d, hd, rfl⟩
    have := digitsAux_lt _ _ d (List.mem_reverse.mp hd)
    simp only [bne_iff_ne, ne_eq]; omega
  have h46 : ((46 : Nat) != 46) = false := by decide
  unfold valueF renderF
  rw [takeWhile_append_stop _ _ _ _ hint h46, dropWhile_append_stop _ _ _ _ hint h46]
  simp only [List.drop_succ_cons, List.drop_zero, map_add_sub]
  rw [ofBE_reverse, ofLE_digitsLE, ofBE_pad6 _ (Nat.mod_lt _ (by decide))]
  omega

theorem renderF_injective (a b : Nat) (h : renderF a = renderF b) : a = b := by
  have := congrArg valueF h
  simpa [valueF_renderF] using this

theorem argmaxFirst_spec (key : σ → Nat) (l : List σ) (m : σ) (h : argmaxFirst key l = some m) :
    m ∈ l ∧ ∀ x ∈ l, key x ≤ key m := by
  induction l generalizing m with
  | nil => simp [argmaxFirst] at h
  | cons s ss ih =>
    simp only [argmaxFirst] at h
    cases hl : argmaxFirst key ss with
    | none =>
      rw [hl] at h
      have hs : ss = [] := by
        cases ss with
        | nil => rfl
        | cons a t =>
          simp only [argmaxFirst] at hl
          cases h2 : argmaxFirst key t <;> simp [h2] at hl
      subst hs
      simp only [Option.some.injEq] at h
      subst h
      simp
    | some m' =>
      rw [hl] at h
      have hm := ih m' hl
      simp only [Option.some.injEq] at h
      subst h
      constructor
      · split
        · exact List.mem_cons_self
        · exact List.mem_cons_of_mem _ hm.1
      · intro x hx
        rcases List.mem_cons.mp hx with rfl | hx
        · split <;> omega
        · have := hm.2 x hx
          split <;> omega

theorem argmaxFirst_isSome (key : σ → Nat) (l : List σ) (h : l ≠ []) : (argmaxFirst key l).isSome := by
  cases l with
  | nil => exact absurd rfl h
  | cons s ss =>
    simp only [argmaxFirst]
    cases argmaxFirst key ss <;> rfl

theorem zip_map_fst_snd (l : List (Nat × List β)) (f : List β → γ) :
    (l.map (·.1)).zip (l.map (fun g => f g.2)) = l.map (fun g => (g.1, f g.2)) := by
  induction l with
  | nil => rfl
  | cons a t ih => simp [ih]

end PorepyVerif.C38
