/-
C38 — property theorems (statements only depend on Model.lean; helper lemmas in Lemmas.lean).

Property: for any mixed-dimensional grid (any cell shapes, several subdomains per dimension,
interfaces) and any cell data written to vtu/pvd by the exporter, importing the files back
restores, for every subdomain and interface, the values written at the most recent time-step
index, cell by cell; time and time-step information written alongside is restored likewise.
-/
import PorepyVerif.C38.Lemmas

namespace PorepyVerif.C38

/-! ## the cell-id lists partition the cells -/

theorem isPartition_groupGrids (grids : List (List Nat)) :
    IsPartition ((groupGrids 0 grids []).map (·.2)) (grids.map List.length).sum := by
  have h := groupGrids_spec 0 grids [] (by simp [allIds]) (by simp [allIds])
  refine ⟨h.1, fun i => ?_⟩
  have := h.2 i
  simp only [allIds, List.map_nil, List.flatten_nil, List.not_mem_nil, false_or, Nat.zero_le,
    true_and, Nat.zero_add] at this
  exact this

theorem isPartition_sortGroups (gs : Groups) (n : Nat) (h : IsPartition (gs.map (·.2)) n) :
    IsPartition ((sortGroups gs).map (·.2)) n := by
  have hp : (((sortGroups gs).map (·.2)).flatten).Perm ((gs.map (·.2)).flatten) :=
    ((perm_sortGroups gs).map _).flatten
  exact ⟨hp.nodup_iff.mpr h.1, fun i => (hp.mem_iff).trans (h.2 i)⟩

theorem isPartition_single (sizes : List Nat) : IsPartition [consecutive 0 sizes] sizes.sum := by
  have := isPerm_consecutive sizes
  simpa [IsPartition, IsPerm] using this

/-- groups_partition_cells: for every dimension and every list of grids, the cell-id lists the
    exporter builds (`Meshio_Geom.cell_ids`) are pairwise disjoint, duplicate free and cover
    exactly the cells `0 .. total-1` of the concatenated grids. -/
theorem groups_partition_cells (dim : Nat) (gs : List GridInfo) :
    IsPartition (cellIds dim gs) (totalCells gs) := by
  have hlen : (gs.map (·.nnodes)).map List.length = gs.map (·.ncells) := by
    simp [GridInfo.ncells, Function.comp_def]
  unfold cellIds groupsDim totalCells
  split
  · exact isPartition_single _
  · split
    · rw [← hlen]; exact isPartition_groupGrids _
    · split
      · rw [← hlen]; exact isPartition_sortGroups _ _ (isPartition_groupGrids _)
      · exact isPartition_single _

/-- the same for the block order of the present code (first occurrence) -/
theorem groups_partition_cells_as_coded (dim : Nat) (gs : List GridInfo) :
    IsPartition (cellIdsAsCoded dim gs) (totalCells gs) := by
  have hlen : (gs.map (·.nnodes)).map List.length = gs.map (·.ncells) := by
    simp [GridInfo.ncells, Function.comp_def]
  unfold cellIdsAsCoded groupsDimAsCoded totalCells
  split
  · exact isPartition_single _
  · split
    · rw [← hlen]; exact isPartition_groupGrids _
    · split
      · rw [← hlen]; exact isPartition_groupGrids _
      · exact isPartition_single _

/-! ## chop is inverse to concatenation -/

/-- chop_concat_id: cutting the stacked array at the entity offsets returns the entities. -/
theorem chop_concat_id (parts : List (List α)) :
    chop (parts.map List.length) parts.flatten = parts := chop_flatten parts

/-! ## import ∘ export = id -/

/-- import_export_id: for EVERY grouping of the cells that is a partition, any number of
    entities and any data, importing the exported blocks returns the data, entity by entity and
    cell by cell (`α` = numbers for scalar data, = one column per cell for vector data). -/
theorem import_export_id (d : α) (ids : List (List Nat)) (parts : List (List α))
    (h : IsPartition ids parts.flatten.length) :
    importField d ids (exportField d ids parts) (parts.map List.length) = parts := by
  unfold importField exportField
  simp only [flatten_map_gather]
  have hl : (gather d parts.flatten ids.flatten).length = parts.flatten.length := by
    rw [length_gather]; exact IsPerm.length_eq h
  rw [hl, scatter_gather d parts.flatten ids.flatten h]
  exact chop_flatten parts

/-- `values[:, ids].T` of an array given by its rows is the list of the columns `ids`. -/
theorem gatherCols_eq_gather (d : α) (rows : List (List α)) (n : Nat) (ids : List Nat)
    (h : ∀ i ∈ ids, i < n) :
    gatherCols d rows ids = gather (rows.map (fun _ => d)) (columns d rows n) ids := by
  unfold gatherCols gather columns
  apply List.map_congr_left
  intro i hi
  have := h i hi
  simp [List.getD_eq_getElem?_getD, this]

theorem toColumns_length (nd n : Nat) (x : List α) : (toColumns nd n x).length = n := by
  simp [toColumns, length_chop]

theorem toColumns_flatten (nd n : Nat) (x : List α) (h : x.length = nd * n) :
    (toColumns nd n x).flatten = x := by
  apply flatten_chop
  simp [h, Nat.mul_comm]

/-- import_export_id for vector-valued data handed over flat (cell-major, what
    `_to_vector_format` reshapes to `nd × cells` in Fortran order): the importer returns the
    same flat arrays. -/
theorem import_export_id_vector (nd : Nat) (ids : List (List Nat)) (sizes : List Nat)
    (flat : List (List α)) (hlen : sizes.length = flat.length)
    (hflat : ∀ p ∈ sizes.zip flat, p.2.length = nd * p.1)
    (h : IsPartition ids sizes.sum) :
    (importField [] ids
        (exportField [] ids ((sizes.zip flat).map (fun p => toColumns nd p.1 p.2))) sizes).map
      List.flatten = flat := by
  have hsz : ((sizes.zip flat).map (fun p => toColumns nd p.1 p.2)).map List.length = sizes := by
    rw [List.map_map]
    have : (List.length ∘ fun p : Nat × List α => toColumns nd p.1 p.2) = (·.1) := by
      funext p; simp [toColumns_length]
    rw [this]
    exact List.map_fst_zip (Nat.le_of_eq hlen)
  have htot : ((sizes.zip flat).map (fun p => toColumns nd p.1 p.2)).flatten.length = sizes.sum := by
    rw [List.length_flatten, hsz]
  have key := import_export_id ([] : List α) ids ((sizes.zip flat).map (fun p => toColumns nd p.1 p.2))
    (by rw [htot]; exact h)
  rw [hsz] at key
  rw [key, List.map_map]
  have : ∀ p ∈ sizes.zip flat, (List.flatten ∘ fun p : Nat × List α => toColumns nd p.1 p.2) p = p.2 := by
    intro p hp
    exact toColumns_flatten nd p.1 p.2 (hflat p hp)
  rw [List.map_congr_left this]
  exact List.map_snd_zip (Nat.le_of_eq hlen.symm)

/-! ## the whole path of one dimension: grids → groups → file → meshio reader → import -/

theorem sum_map_sum (l : List (List Nat)) : (l.map List.sum).sum = l.flatten.sum := by
  induction l with
  | nil => rfl
  | cons a t ih => simp [ih]

theorem sum_entitySizes (sides sizes : List Nat) (h : sizes.length ≤ sides.sum) :
    (entitySizes sides sizes).sum = sizes.sum := by
  unfold entitySizes
  rw [sum_map_sum, flatten_chop sides sizes h]

theorem readBack_groups (poly : Bool) (gs : Groups) (f : List Nat → List α)
    (h : poly = true → gs.Pairwise (fun a b => a.1 ≤ b.1)) :
    readBack poly (gs.map (·.1)) (gs.map (fun g => f g.2)) = gs.map (fun g => f g.2) := by
  unfold readBack
  split
  · rename_i hp
    rw [zip_map_fst_snd, sortGroups_of_sorted]
    · simp [Function.comp_def]
    · exact List.pairwise_map.mpr (h hp)
  · rfl

theorem groupsDim_sorted (dim : Nat) (gs : List GridInfo) (h : isPoly dim gs = true) :
    (groupsDim dim gs).Pairwise (fun a b => a.1 ≤ b.1) := by
  unfold isPoly at h
  simp only [Bool.and_eq_true, decide_eq_true_eq, beq_iff_eq] at h
  unfold groupsDim
  rw [if_neg (by omega), if_neg (by omega), h.2]
  exact pairwise_sortGroups _

/-- roundtrip_dim: for every dimension, every list of grids (any cell shapes), subdomains
    (`sides` all 1) or mortar grids (`sides` = number of side grids of each interface) and any
    data with one value per cell, export followed by import (including meshio's regrouping of
    polyhedral cell data by ascending number of nodes) returns the data of every entity. -/
theorem roundtrip_dim (d : α) (dim : Nat) (gs : List GridInfo) (sides : List Nat)
    (parts : List (List α)) (hs : gs.length ≤ sides.sum)
    (hp : parts.map List.length = entitySizes sides (gs.map (·.ncells))) :
    roundTrip d dim gs sides parts = parts := by
  unfold roundTrip
  have hrb := readBack_groups (isPoly dim gs) (groupsDim dim gs) (gather d parts.flatten)
    (groupsDim_sorted dim gs)
  simp only [exportField, List.map_map, Function.comp_def] at hrb ⊢
  rw [hrb, ← hp]
  have htot : parts.flatten.length = totalCells gs := by
    rw [List.length_flatten, hp, sum_entitySizes _ _ (by simpa using hs)]
    rfl
  have := import_export_id d (cellIds dim gs) parts (by rw [htot]; exact groups_partition_cells dim gs)
  simpa [importField, exportField, cellIds, List.map_map, Function.comp_def] using this

/-! ## time information -/

theorem mapM_dec_enc (enc : ν → τ) (dec : τ → Option ν) (hc : ∀ x, dec (enc x) = some x)
    (l : List ν) : (l.map enc).mapM dec = some l := by
  induction l with
  | nil => rfl
  | cons a t ih => simp [List.mapM_cons, hc, ih]

theorem load_fileOf (enc : ν → τ) (dec : τ → Option ν) (hc : ∀ x, dec (enc x) = some x)
    (m m' : TM ν) :
    TM.load dec m' (TM.fileOf enc m) = some { m' with expTimes := m.expTimes, expDt := m.expDt } := by
  unfold TM.load TM.fileOf
  simp only [mapM_dec_enc enc dec hc]

/-- time_info_roundtrip: with a number codec that round-trips (`dec (enc x) = some x`), loading
    the file written by `write_time_information` gives any manager exactly the written history:
    the previous history followed by the current time and time step. -/
theorem time_info_roundtrip (enc : ν → τ) (dec : τ → Option ν) (hc : ∀ x, dec (enc x) = some x)
    (m m' : TM ν) :
    TM.load dec m' (TM.write enc m).2 =
      some { m' with expTimes := m.expTimes ++ [m.time], expDt := m.expDt ++ [m.dt] } :=
  load_fileOf enc dec hc { m with expTimes := m.expTimes ++ [m.time], expDt := m.expDt ++ [m.dt] } m'

theorem steps_history (enc : ν → τ) (m : TM ν) (ws : List (ν × ν)) :
    (TM.steps enc m ws).expTimes = m.expTimes ++ ws.map (·.1) ∧
    (TM.steps enc m ws).expDt = m.expDt ++ ws.map (·.2) := by
  induction ws generalizing m with
  | nil => simp [TM.steps]
  | cons w ws ih =>
    have := ih { time := w.1, dt := w.2, expTimes := m.expTimes ++ [w.1], expDt := m.expDt ++ [w.2] }
    simp only [TM.steps, TM.write]
    rw [this.1, this.2]
    simp

/-- the file left on disk by a whole simulation restores the whole sequence of written
    (time, dt) pairs, in order -/
theorem time_history_roundtrip (enc : ν → τ) (dec : τ → Option ν) (hc : ∀ x, dec (enc x) = some x)
    (m m' : TM ν) (ws : List (ν × ν)) :
    TM.load dec m' (TM.fileOf enc (TM.steps enc m ws)) =
      some { m' with expTimes := m.expTimes ++ ws.map (·.1), expDt := m.expDt ++ ws.map (·.2) } := by
  have h := steps_history enc m ws
  rw [load_fileOf enc dec hc, h.1, h.2]

/-- restart at exported step `k`: the manager gets the time and the time step written at step
    `k`, and keeps the history before it -/
theorem restart_time_restored (m : TM ν) (ws : List (ν × ν)) (k : Nat) (hk : k < ws.length) :
    TM.setFromExported { m with expTimes := ws.map (·.1), expDt := ws.map (·.2) } (k : Int) =
      some { time := ws[k].1, dt := ws[k].2,
             expTimes := (ws.take k).map (·.1), expDt := (ws.take k).map (·.2) } := by
  simp [TM.setFromExported, pyGet, pyTake, hk, List.map_take]

/-- ... and with the default index `-1`: the last written pair -/
theorem restart_time_restored_last (m : TM ν) (ws : List (ν × ν)) (w : ν × ν) :
    TM.setFromExported { m with expTimes := (ws ++ [w]).map (·.1), expDt := (ws ++ [w]).map (·.2) } (-1) =
      some { time := w.1, dt := w.2, expTimes := ws.map (·.1), expDt := ws.map (·.2) } := by
  have e : ((ws.length : Int) + 1 + -1).toNat = ws.length := by omega
  have e2 : (0 : Int) ≤ (ws.length : Int) + 1 + -1 := by omega
  simp [TM.setFromExported, pyGet, pyTake, e, e2]

/-! ## the time step restored from a pvd file -/

theorem latest_spec (steps : List Nat) (m : Nat) (h : latest steps = some m) :
    m ∈ steps ∧ ∀ s ∈ steps, s ≤ m := by
  induction steps generalizing m with
  | nil => simp [latest] at h
  | cons s ss ih =>
    simp only [latest] at h
    cases hl : latest ss with
    | none =>
      rw [hl] at h
      have hs : ss = [] := by
        cases ss with
        | nil => rfl
        | cons a t =>
          simp only [latest] at hl
          cases h2 : latest t <;> simp [h2] at hl
      subst hs
      simp only [Option.some.injEq] at h
      subst h
      simp
    | some m' =>
      rw [hl] at h
      have := ih m' hl
      simp only [Option.some.injEq] at h
      subst h
      constructor
      · split
        · exact List.mem_cons_self
        · exact List.mem_cons_of_mem _ this.1
      · intro x hx
        rcases List.mem_cons.mp hx with rfl | hx
        · split <;> omega
        · have := this.2 x hx
          split <;> omega

/-- pvd_selects_latest: the importer picks an exported time-step index that is at least every
    other one, and exactly the files listed for it, in the listed order. -/
theorem pvd_selects_latest (entries : List (Nat × φ)) (m : Nat) (files : List φ)
    (h : pvdSelect entries = some (m, files)) :
    m ∈ entries.map (·.1) ∧ (∀ e ∈ entries, e.1 ≤ m) ∧
    files = (entries.filter (fun e => e.1 == m)).map (·.2) := by
  unfold pvdSelect at h
  cases hl : latest (entries.map (·.1)) with
  | none => simp [hl] at h
  | some m' =>
    simp only [hl, Option.some.injEq, Prod.mk.injEq] at h
    obtain ⟨rfl, rfl⟩ := h
    have := latest_spec _ _ hl
    exact ⟨this.1, fun e he => this.2 e.1 (List.mem_map_of_mem he), rfl⟩

theorem pvd_select_some (entries : List (Nat × φ)) (h : entries ≠ []) :
    (pvdSelect entries).isSome := by
  cases entries with
  | nil => exact absurd rfl h
  | cons e es =>
    simp only [pvdSelect, List.map_cons, latest]
    cases latest (es.map (·.1)) <;> rfl

/-! ## point data and the length scale -/

/-- point_data_roundtrip: stacking the point data of the entities and chopping them again by
    node counts returns every entity its values, node by node. -/
theorem point_data_roundtrip (parts : List (List α)) :
    importPointField (parts.map List.length) (exportPointField parts) = parts := chop_flatten parts

theorem meshPoints_length (L : Rat) (grids : List (List Pt)) :
    (meshPoints L grids).length = (grids.map List.length).sum := by
  simp [meshPoints, List.length_flatten, List.map_map, Function.comp_def]

/-- ... for subdomains (`sides` all 1) and mortar grids (points of the side grids, unrolled),
    with one value per point of the file -/
theorem point_data_roundtrip_dim (L : Rat) (gridPts : List (List Pt)) (sides : List Nat)
    (parts : List (List α)) (hs : gridPts.length ≤ sides.sum)
    (hp : parts.map List.length = entitySizes sides (gridPts.map List.length)) :
    importPointField (entitySizes sides (gridPts.map List.length)) (exportPointField parts) = parts ∧
    (exportPointField parts).length = (meshPoints L gridPts).length := by
  constructor
  · rw [← hp]; exact chop_flatten parts
  · rw [meshPoints_length, exportPointField, List.length_flatten, hp,
      sum_entitySizes _ _ (by simpa using hs)]

/-- vector-valued point data handed over flat (node-major) come back flat -/
theorem point_data_roundtrip_vector (nd : Nat) (sizes : List Nat) (flat : List (List α))
    (hlen : sizes.length = flat.length) (hflat : ∀ p ∈ sizes.zip flat, p.2.length = nd * p.1) :
    (importPointField sizes
        (exportPointField ((sizes.zip flat).map (fun p => toColumns nd p.1 p.2)))).map List.flatten
      = flat := by
  have hsz : ((sizes.zip flat).map (fun p => toColumns nd p.1 p.2)).map List.length = sizes := by
    rw [List.map_map]
    have : (List.length ∘ fun p : Nat × List α => toColumns nd p.1 p.2) = (·.1) := by
      funext p; simp [toColumns_length]
    rw [this]
    exact List.map_fst_zip (Nat.le_of_eq hlen)
  have key := point_data_roundtrip ((sizes.zip flat).map (fun p => toColumns nd p.1 p.2))
  rw [hsz] at key
  rw [key, List.map_map]
  have : ∀ p ∈ sizes.zip flat, (List.flatten ∘ fun p : Nat × List α => toColumns nd p.1 p.2) p = p.2 := by
    intro p hp
    exact toColumns_flatten nd p.1 p.2 (hflat p hp)
  rw [List.map_congr_left this]
  exact List.map_snd_zip (Nat.le_of_eq hlen.symm)

theorem scalePt_one (p : Pt) : scalePt 1 p = p := by
  simp [scalePt, Rat.mul_one]

/-- length_scale_points: the exported coordinates are the grid coordinates times the length scale -/
theorem length_scale_points (L : Rat) (grids : List (List Pt)) :
    meshPoints L grids = (grids.flatten).map (scalePt L) := by
  simp [meshPoints, List.map_flatten]

theorem length_scale_one (grids : List (List Pt)) : meshPoints 1 grids = grids.flatten := by
  rw [length_scale_points]
  have : (scalePt 1 : Pt → Pt) = id := by funext p; exact scalePt_one p
  rw [this, List.map_id]

/-- length_scale_data_untouched: the length scale changes the points of the file and nothing
    else: cell blocks and point values are those of the unscaled export. -/
theorem length_scale_data_untouched (d : α) (L L' : Rat) (gridPts : List (List Pt))
    (ids : List (List Nat)) (cellParts : List (List α)) (pointParts : List (List β)) :
    (exportMesh d L gridPts ids cellParts pointParts).cellBlocks =
      (exportMesh d L' gridPts ids cellParts pointParts).cellBlocks ∧
    (exportMesh d L gridPts ids cellParts pointParts).pointValues =
      (exportMesh d L' gridPts ids cellParts pointParts).pointValues := ⟨rfl, rfl⟩

/-- an exporter with the same length scale accepts the file (the point check of the importer) -/
theorem points_compatible_same_scale (d : α) (L : Rat) (gridPts : List (List Pt))
    (ids : List (List Nat)) (cellParts : List (List α)) (pointParts : List (List β)) :
    pointsCompatible L gridPts (exportMesh d L gridPts ids cellParts pointParts).pts = true := by
  simp [pointsCompatible, exportMesh]

/-! ## file names, automatic and manual resolution, time index from the suffix -/

theorem isSd_aux (stem : List Piece) (app : Appendix) (hstem : ∀ p ∈ stem, p ≠ Piece.word 0) :
    (!((app.pieces.reverse ++ stem.reverse).head? == some (Piece.word 0) ||
        ((app.pieces.reverse ++ stem.reverse).head? == some (Piece.word 1) &&
          (app.pieces.reverse ++ stem.reverse)[1]? == some (Piece.word 0)))) = !app.isMortar := by
  have h0 : stem.reverse.head? ≠ some (Piece.word 0) := by
    intro h
    exact hstem _ (List.mem_reverse.mp (List.mem_of_mem_head? h)) rfl
  have h1 : stem.reverse[1]? ≠ some (Piece.word 0) := by
    intro h
    exact hstem _ (List.mem_reverse.mp (List.mem_of_getElem? h)) rfl
  have h0' : stem.reverse[0]? ≠ some (Piece.word 0) := by
    intro h
    exact hstem _ (List.mem_reverse.mp (List.mem_of_getElem? h)) rfl
  cases app
  · have h0'' : stem.getLast? ≠ some (Piece.word 0) := by simpa [List.head?_reverse] using h0
    simp only [Appendix.pieces, List.reverse_nil, List.nil_append, Appendix.isMortar]
    simp [h0'', h1]
  · simp [Appendix.pieces, Appendix.isMortar]
  · simp [Appendix.pieces, Appendix.isMortar, h0']
  · simp [Appendix.pieces, Appendix.isMortar]

/-- parse_makeName: for files named by the exporter with a time step, the automatic detection
    finds the dimension and the kind (subdomain / interface), whatever the stem, provided the
    stem does not contain the word "mortar". -/
theorem parse_makeName (stem : List Piece) (app : Appendix) (dim s : Nat)
    (hstem : ∀ p ∈ stem, p ≠ Piece.word 0) :
    parseName (makeName stem app dim (some s)) = some (dim, !app.isMortar) := by
  unfold parseName makeName
  simp only [List.reverse_append, List.reverse_cons, List.reverse_nil, List.nil_append,
    List.cons_append]
  rw [isSd_aux stem app hstem]

/-- ... and without a time step, if moreover the name does not end in a number before the
    dimension (a stem like "run_3" is misread: explicit hypothesis) -/
theorem parse_makeName_nostep (stem : List Piece) (app : Appendix) (dim : Nat)
    (hstem : ∀ p ∈ stem, p ≠ Piece.word 0)
    (hlast : ∀ n, (app.pieces.reverse ++ stem.reverse).head? ≠ some (Piece.num n)) :
    parseName (makeName stem app dim none) = some (dim, !app.isMortar) := by
  unfold parseName makeName
  simp only [List.reverse_append, List.reverse_cons, List.reverse_nil, List.nil_append,
    List.singleton_append, List.append_nil]
  cases hb : app.pieces.reverse ++ stem.reverse with
  | nil =>
    have := isSd_aux stem app hstem
    rw [hb] at this
    simpa using this
  | cons b rest =>
    have hnum : ∀ n, b ≠ Piece.num n := by
      intro n h; apply hlast n; rw [hb, h]; rfl
    have := isSd_aux stem app hstem
    rw [hb] at this
    cases b with
    | num n => exact absurd rfl (hnum n)
    | word t => simpa using this

/-- suffix_index: the time index read from the file suffix is the exported time step -/
theorem suffix_index (stem : List Piece) (app : Appendix) (dim s : Nat) :
    suffixIndex (makeName stem app dim (some s)) = some s := by
  simp [suffixIndex, makeName]

/-- zero padding of the suffix does not change the number (`int("000012") = 12`) -/
theorem suffix_zero_padding (k n : Nat) :
    ofBE (List.replicate k 0 ++ (digitsLE n).reverse) = n := by
  rw [ofBE_zero_pad, ofBE_reverse, ofLE_digitsLE]

/-- manual_resolution: with `automatic=False` the i-th file gets the i-th dimension and flag,
    whatever its name; on names given by the exporter this agrees with automatic detection. -/
theorem manual_resolution (dims : List Nat) (flags : List Bool) (i d : Nat) (f : Bool)
    (hd : dims[i]? = some d) (hf : flags[i]? = some f) :
    resolveManual (.inl dims) (some (.inl flags)) i = some (d, f) := by
  simp [resolveManual, hd, hf]

theorem manual_agrees_with_automatic (dims : List Nat) (flags : List Bool) (i : Nat)
    (stem : List Piece) (app : Appendix) (dim s : Nat) (hstem : ∀ p ∈ stem, p ≠ Piece.word 0)
    (hd : dims[i]? = some dim) (hf : flags[i]? = some (!app.isMortar)) :
    resolveManual (.inl dims) (some (.inl flags)) i = parseName (makeName stem app dim (some s)) := by
  rw [parse_makeName stem app dim s hstem]
  simp [resolveManual, hd, hf]

/-! ## the time step restored from a conventional pvd file: `"%f"` labels -/

theorem filter_rendered (entries : List (Nat × Nat × φ)) (M : Nat) :
    (rendered entries).filter (fun e => e.1 == renderF M) =
      rendered (entries.filter (fun e => e.1 == M)) := by
  unfold rendered
  rw [List.filter_map]
  congr 1
  apply List.filter_congr
  intro e _
  by_cases h : e.1 = M
  · simp [h]
  · have h1 : renderF e.1 ≠ renderF M := fun hh => h (renderF_injective _ _ hh)
    show (renderF e.1 == renderF M) = (e.1 == M)
    rw [beq_eq_false_iff_ne.mpr h1, beq_eq_false_iff_ne.mpr h]

/-- pvd_selects_latest_labels: `import_from_pvd` as coded now, on labels produced by "%f" from
    non-negative finite times (N = round(t·10⁶)): the chosen files are exactly those whose time
    is numerically maximal (string order plays no role), in listed order, and the returned time
    index is the file suffix of the first of them. -/
theorem pvd_selects_latest_labels (entries : List (Nat × Nat × φ)) (idx : Nat) (files : List φ)
    (h : pvdSelectLabels (rendered entries) = some (idx, files)) :
    ∃ M, (∃ e ∈ entries, e.1 = M) ∧ (∀ e ∈ entries, e.1 ≤ M) ∧
      files = (entries.filter (fun e => e.1 == M)).map (·.2.2) ∧
      (entries.filter (fun e => e.1 == M)).head?.map (·.2.1) = some idx := by
  unfold pvdSelectLabels at h
  cases ha : argmaxFirst valueF ((rendered entries).map (·.1)) with
  | none => simp [ha] at h
  | some lab =>
    have hspec := argmaxFirst_spec valueF _ lab ha
    have hmap : (rendered entries).map (·.1) = entries.map (fun e => renderF e.1) := by
      simp [rendered, List.map_map, Function.comp_def]
    rw [hmap] at hspec
    rcases List.mem_map.mp hspec.1 with ⟨e0, he0, rfl⟩
    refine ⟨e0.1, ⟨e0, he0, rfl⟩, ?_, ?_⟩
    · intro e he
      have := hspec.2 (renderF e.1) (List.mem_map_of_mem he)
      simpa [valueF_renderF] using this
    · simp only [ha, filter_rendered] at h
      cases hf : entries.filter (fun e => e.1 == e0.1) with
      | nil => simp [hf, rendered] at h
      | cons a t =>
        simp only [hf, rendered, List.map_cons, Option.some.injEq, Prod.mk.injEq] at h
        obtain ⟨h1, h2⟩ := h
        subst h1; subst h2
        simp [List.map_map, Function.comp_def]

/-- pvd_index_is_latest_step: if a later exported step never has a smaller time, the returned
    index is the most recent exported time-step index. -/
theorem pvd_index_is_latest_step (entries : List (Nat × Nat × φ)) (idx : Nat) (files : List φ)
    (hmono : ∀ e ∈ entries, ∀ e' ∈ entries, e.1 ≤ e'.1 → e.2.1 ≤ e'.2.1)
    (h : pvdSelectLabels (rendered entries) = some (idx, files)) :
    ∀ e ∈ entries, e.2.1 ≤ idx := by
  obtain ⟨M, _, hmax, _, hidx⟩ := pvd_selects_latest_labels entries idx files h
  cases hf : entries.filter (fun e => e.1 == M) with
  | nil => simp [hf] at hidx
  | cons a t =>
    simp only [hf, List.head?_cons, Option.map_some, Option.some.injEq] at hidx
    have ha : a ∈ entries.filter (fun e => e.1 == M) := by rw [hf]; exact List.mem_cons_self
    have ha' := List.mem_filter.mp ha
    have haM : a.1 = M := by simpa using ha'.2
    intro e he
    rw [← hidx]
    exact hmono e he a ha'.1 (by rw [haM]; exact hmax e he)

theorem pvd_select_labels_some (entries : List (Nat × Nat × φ)) (h : entries ≠ []) :
    (pvdSelectLabels (rendered entries)).isSome := by
  unfold pvdSelectLabels
  have hne : (rendered entries).map (·.1) ≠ [] := by
    cases entries with
    | nil => exact absurd rfl h
    | cons e es => simp [rendered]
  cases ha : argmaxFirst valueF ((rendered entries).map (·.1)) with
  | none => have := argmaxFirst_isSome valueF _ hne; simp [ha] at this
  | some lab =>
    have hspec := argmaxFirst_spec valueF _ lab ha
    rcases List.mem_map.mp hspec.1 with ⟨e, he, hl⟩
    cases hf : (rendered entries).filter (fun e => e.1 == lab) with
    | nil =>
      have : e ∈ (rendered entries).filter (fun e => e.1 == lab) :=
        List.mem_filter.mpr ⟨he, by simp [hl]⟩
      rw [hf] at this; cases this
    | cons a t => simp [hf]

/-! ## input handling, error branches -/

/-- `_to_vector_format` accepts an array iff its size is a multiple of the number of cells / nodes -/
theorem toVectorFormat_ok_iff (size ndofs : Nat) (h : ndofs ≠ 0) :
    toVectorFormat size ndofs = .ok () ↔ size % ndofs = 0 := by
  unfold toVectorFormat
  simp only [h, and_false, if_false]
  split <;> simp [*]

theorem length_filterMap_id_lt (vals : List (Option β)) (h : none ∈ vals) :
    (vals.filterMap id).length < vals.length := by
  induction vals with
  | nil => cases h
  | cons a t ih =>
    cases a with
    | none =>
      have := List.length_filterMap_le id t
      simp only [List.filterMap_cons, id, List.length_cons]
      omega
    | some v =>
      have hm : none ∈ t := by
        rcases List.mem_cons.mp h with h | h
        · cases h
        · exact h
      simp only [List.filterMap_cons, id, List.length_cons]
      have := ih hm
      omega

/-- build_field_all: with data on every entity the field is the stacked data, in listing order -/
theorem buildField_all (parts : List (List α)) (h : parts ≠ []) :
    buildField (parts.map some) = .ok (some parts.flatten) := by
  have e : (parts.map some).filterMap id = parts := by
    induction parts with
    | nil => rfl
    | cons a t ih =>
      simp only [List.map_cons, List.filterMap_cons, id]
      cases t with
      | nil => rfl
      | cons b u => rw [ih (by simp)]
  unfold buildField
  simp only [e, List.length_map]
  have : parts.length ≠ 0 := by
    intro h0; exact h (List.length_eq_zero_iff.mp h0)
  simp [this]

/-- build_field_partial: data on some but not all entities of a dimension is rejected -/
theorem buildField_partial (vals : List (Option (List α))) (v : List α)
    (hsome : some v ∈ vals) (hnone : none ∈ vals) : buildField vals = .error "ValueError" := by
  have hlt := length_filterMap_id_lt vals hnone
  have hpos : (vals.filterMap id).length ≠ 0 := by
    intro h0
    have hm : v ∈ vals.filterMap id := List.mem_filterMap.mpr ⟨some v, hsome, rfl⟩
    rw [List.length_eq_zero_iff.mp h0] at hm
    cases hm
  unfold buildField
  simp only [hpos, if_false]
  rw [if_neg (by omega)]

theorem counterSteps_eq (c k : Nat) : counterSteps c k = List.range' c k := by
  induction k generalizing c with
  | zero => rfl
  | succ k ih => simp [counterSteps, ih, List.range'_succ]

/-- the input condition the driver evaluates is the hypothesis of `pvd_index_is_latest_step` -/
theorem monoEntries_spec (entries : List (Nat × Nat × φ)) (h : monoEntries entries = true) :
    ∀ e ∈ entries, ∀ e' ∈ entries, e.1 ≤ e'.1 → e.2.1 ≤ e'.2.1 := by
  intro e he e' he' hle
  unfold monoEntries at h
  have := List.all_eq_true.mp (List.all_eq_true.mp h e he) e' he'
  simp only [Bool.or_eq_true, Bool.not_eq_true', decide_eq_false_iff_not, decide_eq_true_eq] at this
  rcases this with h1 | h1
  · exact absurd hle h1
  · exact h1

theorem wellFormedLabel_spec (s : List Nat) (h : wellFormedLabel s = true) : ∃ N, s = renderF N :=
  ⟨valueF s, by simpa [wellFormedLabel] using (beq_iff_eq.mp h).symm⟩

/-- pvd_index_is_max_step: the returned index is an exported step and no exported step is larger -/
theorem pvd_index_is_max_step (entries : List (Nat × Nat × φ)) (idx : Nat) (files : List φ)
    (hmono : monoEntries entries = true)
    (h : pvdSelectLabels (rendered entries) = some (idx, files)) :
    (∃ e ∈ entries, e.2.1 = idx) ∧ ∀ e ∈ entries, e.2.1 ≤ idx := by
  refine ⟨?_, pvd_index_is_latest_step entries idx files (monoEntries_spec entries hmono) h⟩
  obtain ⟨M, _, _, _, hidx⟩ := pvd_selects_latest_labels entries idx files h
  cases hf : entries.filter (fun e => e.1 == M) with
  | nil => simp [hf] at hidx
  | cons a t =>
    simp only [hf, List.head?_cons, Option.map_some, Option.some.injEq] at hidx
    have ha : a ∈ entries.filter (fun e => e.1 == M) := by rw [hf]; exact List.mem_cons_self
    exact ⟨a, (List.mem_filter.mp ha).1, hidx⟩

/-- restart_restores_latest: several time steps exported (any grids of the dimension, any data
    fitting them), listed in a conventional pvd with "%f" labels; what `import_from_pvd` hands to
    the importer and the importer returns is exactly the data written at the numerically latest
    time - the clause "values written at the most recent time-step index, cell by cell". -/
theorem restart_restores_latest (d : α) (dim : Nat) (gs : List GridInfo) (sides : List Nat)
    (exports : List (Nat × Nat × List (List α))) (hs : gs.length ≤ sides.sum)
    (hfit : ∀ e ∈ exports, e.2.2.map List.length = entitySizes sides (gs.map (·.ncells)))
    (idx : Nat) (files : List (List (List α)))
    (h : pvdSelectLabels (rendered (exports.map (fun e => (e.1, e.2.1, roundTrip d dim gs sides e.2.2))))
      = some (idx, files)) :
    ∃ M, (∀ e ∈ exports, e.1 ≤ M) ∧ files = (exports.filter (fun e => e.1 == M)).map (·.2.2) := by
  obtain ⟨M, _, hmax, hfiles, _⟩ := pvd_selects_latest_labels _ idx files h
  refine ⟨M, ?_, ?_⟩
  · intro e he
    exact hmax (e.1, e.2.1, roundTrip d dim gs sides e.2.2) (List.mem_map_of_mem (f := fun e => (e.1, e.2.1, roundTrip d dim gs sides e.2.2)) he)
  · rw [hfiles, List.filter_map, List.map_map]
    apply List.map_congr_left
    intro e he
    exact roundtrip_dim d dim gs sides e.2.2 hs (hfit e (List.mem_filter.mp he).1)

/-! ## non-vacuity and regression witnesses -/

/-- regression case F5 (corpus/C38/f5.json): quadrilateral, triangle, quadrilateral -/
def gF5 : GridInfo := ⟨false, [4, 3, 4], [4, 3, 4]⟩

example : cellIds 2 [gF5] = [[1], [0, 2]] := by decide +kernel
example : IsPartition (cellIds 2 [gF5]) 3 := groups_partition_cells 2 [gF5]
example : exportField (0 : Int) (cellIds 2 [gF5]) [[10, 20, 30]] = [[20], [10, 30]] := by decide +kernel
example : roundTrip (0 : Int) 2 [gF5] [1] [[10, 20, 30]] = [[10, 20, 30]] := by decide +kernel
/-- the importer before the repair of F5 returned the blocks unpermuted -/
example : importFieldNoInverse (exportField (0 : Int) (cellIds 2 [gF5]) [[10, 20, 30]]) [3]
    = [[20, 10, 30]] := by decide +kernel

/-- two 2-d subdomains (triangle+pentagon, then quad+triangle), type order = first occurrence -/
example : cellIds 2 [⟨false, [3, 5], [3, 5]⟩, ⟨false, [4, 3], [4, 3]⟩] = [[0, 3], [1], [2]] := by
  decide +kernel

/-- an interface with two side grids of two cells each, vector data with 2 components -/
example : roundTripVec 1 [⟨false, [2, 2], [2, 2]⟩, ⟨false, [2, 2], [2, 2]⟩] [2] 2
    [[(1 : Int), 2, 3, 4, 5, 6, 7, 8]] = [[1, 2, 3, 4, 5, 6, 7, 8]] := by decide +kernel

/-- hypotheses of `import_export_id_vector` are satisfiable -/
example : (importField [] [[1], [0, 2]]
    (exportField [] [[1], [0, 2]] (([3].zip [[(1 : Int), 2, 3, 4, 5, 6]]).map (fun p => toColumns 2 p.1 p.2))) [3]).map
      List.flatten = [[1, 2, 3, 4, 5, 6]] := by decide +kernel

/-- finding "polyhedron block order": a Cartesian 3-d grid listed before a tetrahedral one, two
    cells each.  With the block order of the present code (first occurrence: polyhedron8,
    polyhedron4) and meshio's reader (cell data by ascending number of nodes) the two subdomains
    get each other's values; with ascending blocks the data come back. -/
def gCart2 : GridInfo := ⟨true, [6, 6], [8, 8]⟩
def gTet2 : GridInfo := ⟨false, [4, 4], [4, 4]⟩

example : roundTripAsCoded (0 : Int) 3 [gCart2, gTet2] [1, 1] [[1, 2], [3, 4]] = [[3, 4], [1, 2]] := by
  decide +kernel
example : roundTrip (0 : Int) 3 [gCart2, gTet2] [1, 1] [[1, 2], [3, 4]] = [[1, 2], [3, 4]] := by
  decide +kernel
example : roundTripAsCoded (0 : Int) 3 [gTet2, gCart2] [1, 1] [[1, 2], [3, 4]] = [[1, 2], [3, 4]] := by
  decide +kernel

/-- finding "pvd string sort": the present code takes the last of the labels `"%f" % time`
    sorted as strings; after exporting the steps 0..10 that is step 9, not step 10. -/
example : latestLex (List.range 11) = some 9 := by decide +kernel
example : latest (List.range 11) = some 10 := by decide +kernel
example : pvdSelect [(0, "a_000000.vtu"), (1, "a_000001.vtu"), (10, "a_000010.vtu"), (9, "a_000009.vtu")]
    = some (10, ["a_000010.vtu"]) := by decide +kernel

/-- the labels "%f" of the times 9 and 10: as strings "10.000000" sorts first, as numbers last -/
example : renderF 10000000 = [49, 48, 46, 48, 48, 48, 48, 48, 48] := by decide +kernel
example : lexLt (renderF 10000000) (renderF 9000000) = true := by decide +kernel
example : valueF (renderF 9000000) < valueF (renderF 10000000) := by decide +kernel
/-- steps 9 and 10 with times 9.0 and 10.0: the files of step 10 and index 10 -/
example : pvdSelectLabels (rendered [(9000000, 9, "a_1_000009.vtu"), (10000000, 10, "a_1_000010.vtu")])
    = some (10, ["a_1_000010.vtu"]) := by decide +kernel
/-- times 0, 0.5, 1.0 at steps 0, 1, 2 (two files per step): index 2, not int(1.0) -/
example : pvdSelectLabels (rendered [(0, 0, "a"), (0, 0, "b"), (500000, 1, "c"), (500000, 1, "d"),
    (1000000, 2, "e"), (1000000, 2, "f")]) = some (2, ["e", "f"]) := by decide +kernel
/-- file names: "run_mortar_1_000003" is interface data of dimension 1, time index 3; a stem
    ending in a number without time step is misread (hypothesis of `parse_makeName_nostep`) -/
example : parseName (makeName [.word 7] .mortar 1 (some 3)) = some (1, false) := by decide +kernel
example : suffixIndex (makeName [.word 7] .mortar 1 (some 3)) = some 3 := by decide +kernel
example : parseName (makeName [.word 7, .num 3] .none 2 none) = some (3, true) := by decide +kernel
/-- before the repair, the second file of an `automatic=False` call was resolved by its name -/
example : resolveAsCodedBefore (.inl [2, 1]) (some (.inl [true, false])) 1 [.word 9] = none := by decide +kernel
example : resolveManual (.inl [2, 1]) (some (.inl [true, false])) 1 = some (1, false) := by decide +kernel
/-- point data of two entities and a length scale 1/2 -/
example : importPointField [2, 1] (exportPointField [[(1 : Int), 2], [3]]) = [[1, 2], [3]] := by decide +kernel
example : meshPoints (1 / 2) [[[1, 2, 0]], [[4, 0, 0]]] = [[1 / 2, 1, 0], [2, 0, 0]] := by decide +kernel

/-- input handling: sizes, all-or-none data per dimension, the step counter -/
example : toVectorFormat 6 3 = .ok () ∧ toVectorFormat 7 3 = .error "ValueError" := ⟨rfl, rfl⟩
example : buildField [some [(1 : Int), 2], some [3]] = .ok (some [1, 2, 3]) := rfl
example : buildField [some [(1 : Int), 2], none] = .error "ValueError" := rfl
example : buildField ([none, none] : List (Option (List Int))) = .ok none := rfl
example : counterSteps 0 3 = [0, 1, 2] := by decide +kernel
example : monoEntries [(0, 0, "a"), (500000, 1, "b"), (1000000, 2, "c")] = true := by decide +kernel
example : wellFormedLabel (renderF 10500000) = true ∧ wellFormedLabel [48, 49, 46, 48] = false := by decide +kernel
/-- two exported steps of the F5 grid, labels 9.0 and 10.0: the restart gets the data of step 10 -/
example : pvdSelectLabels (rendered ([(9000000, 9, [[(1 : Int), 2, 3]]), (10000000, 10, [[4, 5, 6]])].map
    (fun e => (e.1, e.2.1, roundTrip 0 2 [gF5] [1] e.2.2)))) = some (10, [[[4, 5, 6]]]) := by decide +kernel
/-- the mixin path over 11 steps with dt = 1: restart at index 10 with time 10 -/
example : (mixinRestart ((List.range 11).map (fun i => (i * 1000000, (i : Int), (1 : Int))))).map
    (fun r => (r.1, r.2.time, r.2.dt, r.2.expTimes.length)) = some (10, 10, 1, 10) := by decide +kernel

/-- time information: two writes, then a restart at index 1 -/
example : TM.load (fun (x : Int) => some x) ⟨0, 0, [], []⟩
    (TM.fileOf (fun (x : Int) => x) (TM.steps (fun (x : Int) => x) ⟨0, 1, [], []⟩ [(0, 1), (1, 2)]))
    = some ⟨0, 0, [0, 1], [1, 2]⟩ := by decide +kernel

end PorepyVerif.C38
