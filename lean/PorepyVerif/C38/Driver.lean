/- C38 line-protocol driver: `lake env lean --run PorepyVerif/C38/Driver.lean` -/
import PorepyVerif.Common.Wire
import PorepyVerif.C38.Model
open Lean PV PorepyVerif.C38

def jGrid (j : Json) : R GridInfo := do
  let c ← fBool j "cart"
  let nf ← fNats j "nfaces"
  let nn ← fNats j "nnodes"
  if nf.length != nn.length then throw "nfaces/nnodes length mismatch" else
  pure ⟨c, nf, nn⟩

def ofNatss (l : List (List Nat)) : Json := ofList ofNats l
def ofRatss (l : List (List Rat)) : Json := ofList ofRats l
def ofRatsss (l : List (List (List Rat))) : Json := ofList ofRatss l

/-- export → file → reader → import for one dimension; everything the harness compares -/
def runDim (j : Json) : R Json := do
  let dim ← fNat j "dim"
  let gs ← field j "grids" >>= jList jGrid
  let sides ← fNats j "sides"
  let scalar ← fRatss j "scalar"
  let vector ← field j "vector" >>= jList (jList (jList jRat))
  let groups := groupsDim dim gs
  let ids := groups.map (·.2)
  let keys := groups.map (·.1)
  let sizes := entitySizes sides (gs.map (·.ncells))
  if scalar.map List.length != sizes then throw "scalar data do not fit the entity sizes" else
  if vector.map List.length != sizes then throw "vector data do not fit the entity sizes" else
  let poly := isPoly dim gs
  let sBlocks := exportField (0 : Rat) ids scalar
  let vBlocks := exportField ([] : List Rat) ids vector
  let sImp := importField (0 : Rat) ids (readBack poly keys sBlocks) sizes
  let vImp := (importField ([] : List Rat) ids (readBack poly keys vBlocks) sizes).map List.flatten
  pure (obj [("poly", Json.bool poly), ("keys", ofNats keys), ("cell_ids", ofNatss ids),
             ("cell_ids_as_coded", ofNatss (cellIdsAsCoded dim gs)),
             ("sizes", ofNats sizes),
             ("s_blocks", ofRatss sBlocks), ("v_blocks", ofRatsss vBlocks),
             ("s_imp", ofRatss sImp), ("v_imp", ofRatss vImp)])

def jPair (j : Json) : R (Rat × Rat) := do
  match ← jList jRat j with
  | [a, b] => pure (a, b)
  | _ => throw "not a pair"

/-- write the time information after every step, load it into a fresh manager, restart at `index` -/
def runTime (j : Json) : R Json := do
  let ws ← field j "writes" >>= jList jPair
  let idx ← fInt j "index"
  let m0 : TM Rat := ⟨0, 0, [], []⟩
  let file := TM.fileOf ratToString (TM.steps ratToString m0 ws)
  match TM.load parseRat? m0 file with
  | none => pure (err "ValueError")
  | some m =>
    let setj := match TM.setFromExported m idx with
      | none => err "IndexError"
      | some r => obj [("time", ofRat r.time), ("dt", ofRat r.dt), ("times", ofRats r.expTimes), ("dts", ofRats r.expDt)]
    pure (obj [("times", ofRats m.expTimes), ("dts", ofRats m.expDt), ("set", setj)])

def runPvd (j : Json) : R Json := do
  let steps ← fNats j "steps"
  match pvdSelect (steps.map (fun s => (s, s))) with
  | none => pure (err "IndexError")
  | some (m, files) => pure (obj [("step", ofNat m), ("files", ofNats files)])

def step (_ : Unit) (j : Json) : R (Unit × Json) := do
  let op ← fStr j "op"
  let out ← match op with
    | "dim" => runDim j
    | "time" => runTime j
    | "pvd" => runPvd j
    | _ => throw s!"unknown op {op}"
  pure ((), out)

def main : IO Unit := runDriver () step
