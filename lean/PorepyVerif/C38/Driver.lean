/- C38 line-protocol driver: `lake env lean --run PorepyVerif/C38/Driver.lean` -/
import PorepyVerif.Common.Wire
import PorepyVerif.C38.Model
open Lean PV PorepyVerif.C38

structure GridIn where
  info : GridInfo
  dim : Nat
  nodes : List Pt
  centers : List Pt

def jGrid (j : Json) : R GridIn := do
  let c ← fBool j "cart"
  let nf ← fNats j "nfaces"
  let nn ← fNats j "nnodes"
  let d ← fNat j "dim"
  let nodes ← fRatss j "nodes"
  let centers ← fRatss j "centers"
  if nf.length != nn.length then throw "nfaces/nnodes length mismatch" else
  pure ⟨⟨c, nf, nn⟩, d, nodes, centers⟩

def ofNatss (l : List (List Nat)) : Json := ofList ofNats l
def ofRatss (l : List (List Rat)) : Json := ofList ofRats l
def ofRatsss (l : List (List (List Rat))) : Json := ofList ofRatss l

/-- export → file → reader → import for one dimension; everything the harness compares -/
def runDim (j : Json) : R Json := do
  let dim ← fNat j "dim"
  let L ← fRat j "L"
  let gin ← field j "grids" >>= jList jGrid
  let gs := gin.map (·.info)
  let sides ← fNats j "sides"
  let scalar ← fRatss j "scalar"
  let vector ← field j "vector" >>= jList (jList (jList jRat))
  let pscalar ← fRatss j "pscalar"
  let pvector ← field j "pvector" >>= jList (jList (jList jRat))
  let groups := groupsDim dim gs
  let ids := groups.map (·.2)
  let keys := groups.map (·.1)
  let sizes := entitySizes sides (gs.map (·.ncells))
  if sides.sum != gs.length then throw "sides do not add up to the number of grids" else
  if scalar.map List.length != sizes then throw "scalar data do not fit the entity sizes" else
  if vector.map List.length != sizes then throw "vector data do not fit the entity sizes" else
  let gridPts := gin.map (fun g => gridPoints g.dim g.nodes g.centers)
  let nodeSizes := entitySizes sides (gridPts.map List.length)
  if pscalar.map List.length != nodeSizes then throw "point scalar data do not fit the node counts" else
  if pvector.map List.length != nodeSizes then throw "point vector data do not fit the node counts" else
  let poly := isPoly dim gs
  let fileS := exportMesh (0 : Rat) L gridPts ids scalar pscalar
  let fileV := exportMesh ([] : List Rat) L gridPts ids vector pvector
  if !pointsCompatible L gridPts fileS.pts then throw "points rejected" else
  let sImp := importField (0 : Rat) ids (readBack poly keys fileS.cellBlocks) sizes
  let vImp := (importField ([] : List Rat) ids (readBack poly keys fileV.cellBlocks) sizes).map List.flatten
  let psImp := importPointField nodeSizes fileS.pointValues
  let pvImp := (importPointField nodeSizes fileV.pointValues).map List.flatten
  pure (obj [("poly", Json.bool poly), ("keys", ofNats keys), ("cell_ids", ofNatss ids),
             ("cell_ids_as_coded", ofNatss (cellIdsAsCoded dim gs)),
             ("sizes", ofNats sizes), ("node_sizes", ofNats nodeSizes), ("pts", ofRatss fileS.pts),
             ("s_blocks", ofRatss fileS.cellBlocks), ("v_blocks", ofRatsss fileV.cellBlocks),
             ("ps_file", ofRats fileS.pointValues), ("pv_file", ofRatss fileV.pointValues),
             ("s_imp", ofRatss sImp), ("v_imp", ofRatss vImp), ("ps_imp", ofRatss psImp), ("pv_imp", ofRatss pvImp)])

def jPair (j : Json) : R (Rat × Rat) := do
  match ← jList jRat j with
  | [a, b] => pure (a, b)
  | _ => throw "not a pair"

/-- write the time information after every step, load it into a fresh manager, restart at `index` -/
def runTime (j : Json) : R Json := do
  let ws ← field j "writes" >>= jList jPair
  let idx ← fInt j "index"
  let m0 : TM Rat := ⟨0, 0, [], []⟩
  let file := TM.fileOf ratToString (TM.steps ratToString m0 ws)
  match TM.load parseRat? m0 file with
  | none => pure (err "ValueError")
  | some m =>
    let setj := match TM.setFromExported m idx with
      | none => err "IndexError"
      | some r => obj [("time", ofRat r.time), ("dt", ofRat r.dt), ("times", ofRats r.expTimes), ("dts", ofRats r.expDt)]
    pure (obj [("times", ofRats m.expTimes), ("dts", ofRats m.expDt), ("set", setj)])

/-- the conventional pvd file: entries (label as character codes, file suffix, file name) -/
def runPvdLabels (j : Json) : R Json := do
  let es ← field j "entries" >>= jList (fun e => do
    let l ← fNats e "label"
    let s ← fNat e "suffix"
    let f ← fStr e "file"
    pure (l, s, f))
  let consts ← field j "entries" >>= jList (fun e => fBool e "const")
  -- input conditions of pvd_selects_latest_labels / pvd_index_is_max_step, evaluated on every case
  let wf := es.all (fun e => wellFormedLabel e.1)
  -- separately exported constant data keep the suffix of the step they were written at and are
  -- listed after the data files: the monotonicity condition concerns the data files
  let dataEs := ((es.zip consts).filter (fun p => !p.2)).map (·.1)
  let mono := monoEntries (dataEs.map (fun e => (valueF e.1, e.2.1, e.2.2)))
  match pvdSelectLabels es with
  | none => pure (err "ValueError")
  | some (i, files) => pure (obj [("index", ofNat i), ("files", ofList Json.str files),
                                  ("wellformed", Json.bool wf), ("mono", Json.bool mono)])

def appOf : Nat → Appendix
  | 0 => .none
  | 1 => .mortar
  | 2 => .constant
  | _ => .constantMortar

def pieceStr (padded : Bool) : Piece → String
  | .num n => let s := toString n; if padded then "".pushn '0' (6 - s.length) ++ s else s
  | .word 0 => "mortar"
  | .word 1 => "constant"
  | .word _ => "c38"

/-- render a name; only the time step (last piece when present) is zero padded -/
def nameStr (ps : List Piece) (hasStep : Bool) : String :=
  let n := ps.length
  "_".intercalate ((ps.zipIdx).map (fun (p, i) => pieceStr (hasStep && i + 1 == n) p)) ++ ".vtu"

def runNames (j : Json) : R Json := do
  let fs ← field j "files" >>= jList (fun e => do
    let a ← fNat e "app"
    let d ← fNat e "dim"
    let s ← field e "step" >>= jOpt jNat
    pure (a, d, s))
  let names := fs.map (fun (a, d, s) => makeName [.word 2] (appOf a) d s)
  let parsed := names.map (fun ps => match parseName ps, suffixIndex ps with
    | some (d, sd), some i => Json.arr #[ofNat d, Json.bool sd, ofNat i]
    | _, _ => Json.null)
  pure (obj [("names", ofList Json.str ((names.zip fs).map (fun (ps, f) => nameStr ps f.2.2.isSome))),
             ("parsed", Json.arr parsed.toArray)])

def runResolve (j : Json) : R Json := do
  let n ← fNat j "n"
  let dj ← field j "dims"
  let dims : List Nat ⊕ Nat ← match dj with
    | .arr _ => do pure (.inl (← jList jNat dj))
    | _ => do pure (.inr (← jNat dj))
  let fj := fieldD j "flags" Json.null
  let flags : Option (List Bool ⊕ Bool) ← match fj with
    | .null => pure none
    | .arr _ => do pure (some (.inl (← jList jBool fj)))
    | _ => do pure (some (.inr (← jBool fj)))
  let res := (List.range n).map (resolveManual dims flags)
  if res.any (·.isNone) then pure (err "IndexError") else
  pure (obj [("resolved", Json.arr (res.map (fun r => match r with
    | some (d, f) => Json.arr #[ofNat d, Json.bool f]
    | none => Json.null)).toArray)])

def exceptJson (r : Except String Json) : Json :=
  match r with
  | .ok j => j
  | .error k => err k

/-- `_build_field` on a dimension where `present[i]` says whether entity i carries the key, and
    `_to_vector_format` on (size, ndofs) pairs -/
def runInput (j : Json) : R Json := do
  let present ← field j "present" >>= jList jBool
  let sizes ← fNatss j "sizes"
  let bf := buildField (present.map (fun b => if b then some [(0 : Nat)] else none))
  let vf := sizes.map (fun p => match p with
    | [a, b] => exceptJson ((toVectorFormat a b).map (fun _ => Json.str "ok"))
    | _ => err "bad-op")
  pure (obj [("build", exceptJson (bf.map (fun o => Json.str (if o.isSome then "field" else "nothing")))),
             ("vecfmt", Json.arr vf.toArray)])

/-- the DataSavingMixin path: `ws` = (micro-time, time, dt) per step -/
def runMixin (j : Json) : R Json := do
  let ws ← field j "ws" >>= jList (fun e => do
    match ← jList jRat e with
    | [n, t, h] => if n.den == 1 && n.num ≥ 0 then pure (n.num.toNat, t, h) else throw "bad micro-time"
    | _ => throw "not a triple")
  match mixinRestart ws with
  | none => pure (err "IndexError")
  | some (idx, m) => pure (obj [("index", ofNat idx), ("time", ofRat m.time), ("dt", ofRat m.dt),
                                ("times", ofRats m.expTimes), ("dts", ofRats m.expDt),
                                ("steps", ofNats (counterSteps 0 ws.length))])

def step (_ : Unit) (j : Json) : R (Unit × Json) := do
  let op ← fStr j "op"
  let out ← match op with
    | "dim" => runDim j
    | "time" => runTime j
    | "pvd_labels" => runPvdLabels j
    | "names" => runNames j
    | "resolve" => runResolve j
    | "input" => runInput j
    | "mixin" => runMixin j
    | _ => throw s!"unknown op {op}"
  pure ((), out)

def main : IO Unit := runDriver () step
