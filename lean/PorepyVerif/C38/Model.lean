/-
C38 — executable model of the permutation logic of `porepy.viz.exporter.Exporter`
(export of cell data to vtu, import back) and of the time-information files (core Lean only).

What the exporter does with cell data, per grid dimension and separately for subdomains and
interfaces:

* all grids of the dimension are concatenated in listing order (cell offsets accumulate); for
  interfaces the grids are the side grids of the mortar grids, unrolled;
* the cells are grouped by cell type into `cell_ids` lists (`Meshio_Geom.cell_ids`):
  0-d, 1-d, pure tetrahedral and pure Cartesian-hexahedral 3-d: one group `0 .. total-1`;
  2-d: by number of nodes (triangle, quad, polygon5, ...), 3-d otherwise: by number of nodes
  (`polyhedron<n>`); the order of the groups is the order of first occurrence, within a grid
  ascending (`np.unique`);
* a field (values of all entities of the dimension stacked, `np.hstack`) is written block by
  block, `values[ids]` (`values[:, ids].T` for vector data);
* import: the blocks read from the file are concatenated, scattered back through the
  concatenated `cell_ids` (`out[ids] = value`), and chopped per entity by offsets.

Polyhedral files: meshio's vtu reader returns the *cell data* of a polyhedral mesh grouped by
ascending number of nodes, whatever the order in the file (`readBack`).  The exporter writes the
polyhedron groups in ascending order (`sortGroups`, since fix a4b1c63a0); `cellIdsAsCoded` keeps
the order of first occurrence of the code before that fix so that the defect stays expressible.

Further down: point data (no permutation, only stacking and chopping by node counts), the
length scale (coordinates scaled, data untouched), file names and their parsing, the `"%f"` time
labels of pvd files with their numeric value, and the time-information files.
-/
namespace PorepyVerif.C38

/-! ## grouping of cells by type -/

/-- groups in dictionary (insertion) order: type key (number of nodes) and cell ids -/
abbrev Groups := List (Nat × List Nat)

/-- insert into a strictly ascending list, ignoring a key already present -/
def insertKey (k : Nat) : List Nat → List Nat
  | [] => [k]
  | a :: l => if k < a then k :: a :: l else if k = a then a :: l else a :: insertKey k l

/-- `np.unique`: ascending, distinct -/
def uniqueKeys : List Nat → List Nat
  | [] => []
  | k :: l => insertKey k (uniqueKeys l)

/-- `np.nonzero(kinds == k)[0] + off` -/
def cellsOf (k off : Nat) : List Nat → List Nat
  | [] => []
  | x :: xs => if x = k then off :: cellsOf k (off + 1) xs else cellsOf k (off + 1) xs

/-- `cell_id[type] += ids` on an insertion-ordered dictionary (new keys go last) -/
def addGroup (k : Nat) (ids : List Nat) : Groups → Groups
  | [] => [(k, ids)]
  | g :: gs => if g.1 = k then (g.1, g.2 ++ ids) :: gs else g :: addGroup k ids gs

/-- one grid: `for n in np.unique(num_nodes_per_cell): cell_id[type(n)] += cells(n) + offset` -/
def groupGrid (off : Nat) (kinds : List Nat) (gs : Groups) : Groups :=
  (uniqueKeys kinds).foldl (fun acc k => addGroup k (cellsOf k off kinds) acc) gs

/-- all grids of a dimension in listing order; `off` is the running `cell_offset` -/
def groupGrids : Nat → List (List Nat) → Groups → Groups
  | _, [], gs => gs
  | off, g :: rest, gs => groupGrids (off + g.length) rest (groupGrid off g gs)

/-- all cell ids of a dictionary, in block order -/
def allIds (gs : Groups) : List Nat := (gs.map (·.2)).flatten

/-- `cell_id += arange(num_cells) + cell_offset` for every grid: the single-type exports -/
def consecutive : Nat → List Nat → List Nat
  | _, [] => []
  | off, n :: ns => List.range' off n ++ consecutive (off + n) ns

/-- stable insertion by key (ascending) -/
def insertGroup (g : Nat × α) : List (Nat × α) → List (Nat × α)
  | [] => [g]
  | h :: t => if g.1 ≤ h.1 then g :: h :: t else h :: insertGroup g t

/-- blocks in ascending order of their key -/
def sortGroups : List (Nat × α) → List (Nat × α)
  | [] => []
  | g :: gs => insertGroup g (sortGroups gs)

/-- what the exporter knows about one grid: is it a `CartGrid`, faces per cell, nodes per cell -/
structure GridInfo where
  isCart : Bool
  nfaces : List Nat
  nnodes : List Nat
  deriving Repr

def GridInfo.ncells (g : GridInfo) : Nat := g.nnodes.length

inductive Ty3 where
  | tetra | hex | poly
  deriving DecidableEq, Repr

/-- `_export_grid_3d`: type of one 3-d grid -/
def gridTy3 (g : GridInfo) : Ty3 :=
  match uniqueKeys g.nfaces with
  | [n] => if n = 4 then .tetra else if n = 6 && g.isCart then .hex else .poly
  | _ => .poly

/-- `_export_grid_3d`: dedicated export only if all grids have the same special type -/
def mode3 (gs : List GridInfo) : Ty3 :=
  let tys := gs.map gridTy3
  if !tys.isEmpty && tys.all (· == .tetra) then .tetra
  else if !tys.isEmpty && tys.all (· == .hex) then .hex
  else .poly

/-- is the dimension exported with the polyhedron writer (only then does meshio regroup) -/
def isPoly (dim : Nat) (gs : List GridInfo) : Bool := dim ≥ 3 && mode3 gs == .poly

/-- the blocks (key, ids) of a dimension, as the PROPERTY needs them (polyhedra ascending) -/
def groupsDim (dim : Nat) (gs : List GridInfo) : Groups :=
  if dim ≤ 1 then [(0, consecutive 0 (gs.map (·.ncells)))]
  else if dim = 2 then groupGrids 0 (gs.map (·.nnodes)) []
  else match mode3 gs with
    | .poly => sortGroups (groupGrids 0 (gs.map (·.nnodes)) [])
    | _ => [(0, consecutive 0 (gs.map (·.ncells)))]

/-- the code before fix a4b1c63a0: polyhedron blocks in order of first occurrence -/
def groupsDimAsCoded (dim : Nat) (gs : List GridInfo) : Groups :=
  if dim ≤ 1 then [(0, consecutive 0 (gs.map (·.ncells)))]
  else if dim = 2 then groupGrids 0 (gs.map (·.nnodes)) []
  else match mode3 gs with
    | .poly => groupGrids 0 (gs.map (·.nnodes)) []
    | _ => [(0, consecutive 0 (gs.map (·.ncells)))]

/-- `Meshio_Geom.cell_ids` -/
def cellIds (dim : Nat) (gs : List GridInfo) : List (List Nat) := (groupsDim dim gs).map (·.2)

def cellIdsAsCoded (dim : Nat) (gs : List GridInfo) : List (List Nat) :=
  (groupsDimAsCoded dim gs).map (·.2)

/-- the lists `ids` are pairwise disjoint, duplicate free, and cover exactly `0 .. n-1` -/
def IsPartition (ids : List (List Nat)) (n : Nat) : Prop :=
  ids.flatten.Nodup ∧ ∀ i, i ∈ ids.flatten ↔ i < n

/-- total number of cells of a dimension -/
def totalCells (gs : List GridInfo) : Nat := (gs.map (·.ncells)).sum

/-! ## entities, data, export and import -/

/-- `value[offset : offset + n]; offset += n` for every entity -/
def chop : List Nat → List α → List (List α)
  | [], _ => []
  | n :: ns, v => v.take n :: chop ns (v.drop n)

/-- number of cells of the entities: a subdomain is one grid, a mortar grid is the
    concatenation of its side grids (`sides` = number of side grids per entity) -/
def entitySizes (sides : List Nat) (gridSizes : List Nat) : List Nat :=
  (chop sides gridSizes).map List.sum

/-- `values[ids]` -/
def gather (d : α) (v : List α) (ids : List Nat) : List α := ids.map (fun i => v.getD i d)

/-- `_build_field` + `_write`: stack the entities, one block per cell-id list -/
def exportField (d : α) (ids : List (List Nat)) (parts : List (List α)) : List (List α) :=
  ids.map (gather d parts.flatten)

/-- `out[ids] = vals` (later assignments win) -/
def scatter (out : List α) : List Nat → List α → List α
  | i :: is, x :: xs => scatter (out.set i x) is xs
  | _, _ => out

/-- `import_state_from_vtu`, cell data of one key: concatenate blocks, invert grouping, chop -/
def importField (d : α) (ids : List (List Nat)) (blocks : List (List α)) (sizes : List Nat) :
    List (List α) :=
  let value := blocks.flatten
  chop sizes (scatter (List.replicate value.length d) ids.flatten value)

/-- the importer before the repair of F5 (no inverse permutation); kept for the regression example -/
def importFieldNoInverse (blocks : List (List α)) (sizes : List Nat) : List (List α) :=
  chop sizes blocks.flatten

/-- meshio's reader: cell data of a polyhedral mesh come back grouped by ascending number of
    nodes; other meshes come back block by block as written -/
def readBack (poly : Bool) (keys : List Nat) (blocks : List (List α)) : List (List α) :=
  if poly then (sortGroups (keys.zip blocks)).map (·.2) else blocks

/-- export, file, import for one dimension (scalar data or one column per cell) -/
def roundTrip (d : α) (dim : Nat) (gs : List GridInfo) (sides : List Nat) (parts : List (List α)) :
    List (List α) :=
  let groups := groupsDim dim gs
  let ids := groups.map (·.2)
  let blocks := exportField d ids parts
  importField d ids (readBack (isPoly dim gs) (groups.map (·.1)) blocks)
    (entitySizes sides (gs.map (·.ncells)))

/-- the same with the block order of the code before fix a4b1c63a0 -/
def roundTripAsCoded (d : α) (dim : Nat) (gs : List GridInfo) (sides : List Nat)
    (parts : List (List α)) : List (List α) :=
  let groups := groupsDimAsCoded dim gs
  let ids := groups.map (·.2)
  let blocks := exportField d ids parts
  importField d ids (readBack (isPoly dim gs) (groups.map (·.1)) blocks)
    (entitySizes sides (gs.map (·.ncells)))

/-! ### vector data

A vector field on `n` cells is handled as the list of its `n` columns (one vector per cell):
`_to_vector_format` reshapes a flat array in Fortran order, i.e. cuts it into consecutive pieces
of `nd` entries; `values[:, ids].T` is the list of the columns `ids`; `_from_vector_format`
ravels the (cells × nd) array in C order, i.e. concatenates the columns. -/

/-- `np.reshape(x, (nd, n), order="F")` as list of columns -/
def toColumns (nd n : Nat) (x : List α) : List (List α) := chop (List.replicate n nd) x

/-- `values[:, ids].T` for an array given by its rows -/
def gatherCols (d : α) (rows : List (List α)) (ids : List Nat) : List (List α) :=
  ids.map (fun i => rows.map (fun r => r.getD i d))

/-- columns `0 .. n-1` of an array given by its rows -/
def columns (d : α) (rows : List (List α)) (n : Nat) : List (List α) :=
  (List.range n).map (fun i => rows.map (fun r => r.getD i d))

/-- export/import of vector data given flat (cell-major) per entity; result flat per entity -/
def roundTripVec (dim : Nat) (gs : List GridInfo) (sides : List Nat) (nd : Nat)
    (flat : List (List α)) : List (List α) :=
  let sizes := entitySizes sides (gs.map (·.ncells))
  let parts := (sizes.zip flat).map (fun p => toColumns nd p.1 p.2)
  (roundTrip [] dim gs sides parts).map List.flatten


/-! ## point data and the length scale

Points of a dimension: the nodes of the grids, concatenated in listing order (node offsets); a
0-d grid contributes its cell centre(s) (`_num_grid_entities`: a 0-d grid has as many "nodes" as
cells).  All coordinates are multiplied by `length_scale`.  Point data are stacked over the
entities (`np.hstack`), written as they are (`values` / `values.T`), and chopped per entity by
node counts on import; no permutation is involved. -/

abbrev Pt := List Rat

/-- `_num_grid_entities(grid, "nodes")` -/
def numPoints (dim numNodes numCells : Nat) : Nat := if dim = 0 then numCells else numNodes

/-- the points a grid contributes -/
def gridPoints (dim : Nat) (nodes centers : List Pt) : List Pt := if dim = 0 then centers else nodes

def scalePt (L : Rat) (p : Pt) : Pt := p.map (· * L)

/-- `meshio_pts`: all grids, with node offsets, scaled -/
def meshPoints (L : Rat) (grids : List (List Pt)) : List Pt := (grids.map (·.map (scalePt L))).flatten

/-- `_build_field` + `_write` for point data -/
def exportPointField (parts : List (List α)) : List α := parts.flatten

/-- `_save_to_mdg(key, value, "nodes")` -/
def importPointField (sizes : List Nat) (v : List α) : List (List α) := chop sizes v

/-- everything `_write` hands to meshio for one dimension -/
structure MeshFile (α β : Type) where
  pts : List Pt
  cellBlocks : List (List α)
  pointValues : List β

def exportMesh (d : α) (L : Rat) (gridPts : List (List Pt)) (ids : List (List Nat))
    (cellParts : List (List α)) (pointParts : List (List β)) : MeshFile α β :=
  { pts := meshPoints L gridPts, cellBlocks := exportField d ids cellParts,
    pointValues := exportPointField pointParts }

/-- step 2 of `import_state_from_vtu`: the points of the file must be those of the importing
    exporter (`np.isclose`, exact in the model) -/
def pointsCompatible (L : Rat) (gridPts : List (List Pt)) (filePts : List Pt) : Bool :=
  meshPoints L gridPts == filePts

/-! ## file names

`_make_file_name`: stem, appendix ("", "mortar", "constant", "constant_mortar"), dimension, time
step (zero padded), joined by "_".  A name is modelled as its list of pieces. -/

inductive Piece where
  | num (n : Nat)
  | word (tag : Nat)   -- 0 = "mortar", 1 = "constant", anything else: some other word
  deriving DecidableEq, Repr

inductive Appendix where
  | none | mortar | constant | constantMortar
  deriving DecidableEq, Repr

def Appendix.pieces : Appendix → List Piece
  | .none => []
  | .mortar => [.word 0]
  | .constant => [.word 1]
  | .constantMortar => [.word 1, .word 0]

def Appendix.isMortar : Appendix → Bool
  | .mortar | .constantMortar => true
  | _ => false

def makeName (stem : List Piece) (app : Appendix) (dim : Nat) (step : Option Nat) : List Piece :=
  stem ++ app.pieces ++ [.num dim] ++ (match step with | none => [] | some s => [.num s])

/-- automatic detection in `import_state_from_vtu`: (dimension, is subdomain data); `none` = the
    assertion on the last piece fails -/
def parseName (ps : List Piece) : Option (Nat × Bool) :=
  let isSd (before : List Piece) : Bool :=
    !(before.head? == some (.word 0) || (before.head? == some (.word 1) && before[1]? == some (.word 0)))
  match ps.reverse with
  | .num _ :: .num b :: before => some (b, isSd before)
  | .num a :: before => some (a, isSd before)
  | _ => none

/-- `int(Path(file).stem.split("_")[-1])`: the time index of a conventional pvd file is the
    suffix of its vtu files (since fix 3945e5db4) -/
def suffixIndex (ps : List Piece) : Option Nat :=
  match ps.reverse with
  | .num n :: _ => some n
  | _ => none

/-- `automatic=False`: dimension and kind of the i-th file from the arguments
    (`dims` a list or one number, `are_subdomain_data` a list, one flag, or absent = True) -/
def resolveManual (dims : List Nat ⊕ Nat) (flags : Option (List Bool ⊕ Bool)) (i : Nat) : Option (Nat × Bool) :=
  let dim := match dims with
    | .inl l => l[i]?
    | .inr n => some n
  let flag := match flags with
    | none => some true
    | some (.inl l) => l[i]?
    | some (.inr b) => some b
  match dim, flag with
  | some d, some f => some (d, f)
  | _, _ => none

/-- the code before the repair of finding "automatic=False, second file": the keyword arguments
    were popped while handling the first file, every later file fell back to its name -/
def resolveAsCodedBefore (dims : List Nat ⊕ Nat) (flags : Option (List Bool ⊕ Bool)) (i : Nat)
    (name : List Piece) : Option (Nat × Bool) :=
  if i = 0 then resolveManual dims flags 0 else parseName name

/-! ## decimal digits, `"%f"` labels -/

/-- little-endian decimal digits (fuel = n + 1 suffices) -/
def digitsAux : Nat → Nat → List Nat
  | 0, _ => []
  | f + 1, n => if n < 10 then [n] else (n % 10) :: digitsAux f (n / 10)

def digitsLE (n : Nat) : List Nat := digitsAux (n + 1) n

def ofLE : List Nat → Nat
  | [] => 0
  | d :: ds => d + 10 * ofLE ds

/-- value of big-endian digits (leading zeros allowed: `int("000012")`) -/
def ofBE (ds : List Nat) : Nat := ds.foldl (fun acc d => 10 * acc + d) 0

/-- six decimals -/
def pad6 (m : Nat) : List Nat :=
  [m / 100000 % 10, m / 10000 % 10, m / 1000 % 10, m / 100 % 10, m / 10 % 10, m % 10]

/-- ASCII codes of `"%f" % t` for a finite t ≥ 0, where `N = round(t · 10⁶)` -/
def renderF (N : Nat) : List Nat :=
  (digitsLE (N / 1000000)).reverse.map (· + 48) ++ 46 :: (pad6 (N % 1000000)).map (· + 48)

/-- `float(label) · 10⁶` for a label of the form digits "." digits(6) -/
def valueF (s : List Nat) : Nat :=
  ofBE ((s.takeWhile (· != 46)).map (· - 48)) * 1000000 +
    ofBE (((s.dropWhile (· != 46)).drop 1).map (· - 48))

/-- python `max(xs, key=key)`: the first maximal element -/
def argmaxFirst (key : σ → Nat) : List σ → Option σ
  | [] => none
  | s :: ss => match argmaxFirst key ss with
    | none => some s
    | some m => some (if key m ≤ key s then s else m)

/-- `import_from_pvd` on a conventional pvd file as coded now: entries = (label, suffix of the
    file name, file); the label with the largest numeric value, the files carrying exactly that
    label (string comparison), the time index from the suffix of the first of them -/
def pvdSelectLabels (entries : List (List Nat × Nat × φ)) : Option (Nat × List φ) :=
  match argmaxFirst valueF (entries.map (·.1)) with
  | none => none
  | some lab =>
    match entries.filter (fun e => e.1 == lab) with
    | [] => none
    | e :: rest => some (e.2.1, (e :: rest).map (·.2.2))

/-- entries of a pvd file written by `write_pvd`: micro-time, step, file -/
def rendered (entries : List (Nat × Nat × φ)) : List (List Nat × Nat × φ) :=
  entries.map (fun e => (renderF e.1, e.2.1, e.2.2))

/-! ## time information (`TimeManager.write_time_information` / `load_time_information`) -/

structure TM (ν : Type) where
  time : ν
  dt : ν
  expTimes : List ν
  expDt : List ν
  deriving DecidableEq, Repr

/-- the file: `{"time": [...], "dt": [...]}` as two token lists -/
abbrev TimeFile (τ : Type) := List τ × List τ

/-- the file written for a history -/
def TM.fileOf (enc : ν → τ) (m : TM ν) : TimeFile τ := (m.expTimes.map enc, m.expDt.map enc)

/-- append the current time and step to the history, dump the whole history -/
def TM.write (enc : ν → τ) (m : TM ν) : TM ν × TimeFile τ :=
  let m' := { m with expTimes := m.expTimes ++ [m.time], expDt := m.expDt ++ [m.dt] }
  (m', TM.fileOf enc m')

/-- replace the history by the content of the file (`none`: the file does not parse) -/
def TM.load (dec : τ → Option ν) (m : TM ν) (f : TimeFile τ) : Option (TM ν) :=
  match f.1.mapM dec, f.2.mapM dec with
  | some ts, some ds => some { m with expTimes := ts, expDt := ds }
  | _, _ => none

/-- python `l[i]` with negative indices (`none` = IndexError) -/
def pyGet (l : List α) (i : Int) : Option α :=
  if 0 ≤ i then l[i.toNat]? else if 0 ≤ (l.length : Int) + i then l[((l.length : Int) + i).toNat]? else none

/-- python `l[:i]` -/
def pyTake (l : List α) (i : Int) : List α :=
  if 0 ≤ i then l.take i.toNat else l.take ((l.length : Int) + i).toNat

/-- `set_time_and_dt_from_exported_steps` -/
def TM.setFromExported (m : TM ν) (i : Int) : Option (TM ν) :=
  match pyGet m.expTimes i, pyGet m.expDt i with
  | some t, some h => some { time := t, dt := h, expTimes := pyTake m.expTimes i, expDt := pyTake m.expDt i }
  | _, _ => none

/-- a simulation: for every entry move to (time, dt) and write the time information;
    the file on disk afterwards is `TM.fileOf` of the final state (each write overwrites) -/
def TM.steps (enc : ν → τ) : TM ν → List (ν × ν) → TM ν
  | m, [] => m
  | m, w :: ws => TM.steps enc (TM.write enc { m with time := w.1, dt := w.2 }).1 ws


/-! ## input handling on export (`_sort_and_unify_data`, `_build_field`, `write_vtu`) -/

/-- `_to_vector_format`: a value array of `size` entries for a grid with `ndofs` cells / nodes -/
def toVectorFormat (size ndofs : Nat) : Except String Unit :=
  if size = 0 ∧ ndofs = 0 then .ok ()
  else if ndofs = 0 then .error "ZeroDivisionError"
  else if size % ndofs = 0 then .ok ()
  else .error "ValueError"

/-- `_build_field`: the values of the entities of one dimension that carry the key, in listing
    order; data for all or for none of them, otherwise `ValueError` -/
def buildField (vals : List (Option (List α))) : Except String (Option (List α)) :=
  let present := vals.filterMap id
  if present.length = 0 then .ok none
  else if present.length = vals.length then .ok (some present.flatten)
  else .error "ValueError"

/-- `write_vtu(time_dependent=True)` without explicit time step: the internal counter -/
def counterSteps : Nat → Nat → List Nat
  | _, 0 => []
  | c, k + 1 => c :: counterSteps (c + 1) k

/-- is the time (label value) non-decreasing in the time step: input condition of
    `pvd_index_is_latest_step`, evaluated by the driver on every case -/
def monoEntries (entries : List (Nat × Nat × φ)) : Bool :=
  entries.all (fun e => entries.all (fun e' => !(e.1 ≤ e'.1) || e.2.1 ≤ e'.2.1))

/-- is a label of the form `"%f"` produces (digits, ".", six digits; no leading zeros) -/
def wellFormedLabel (s : List Nat) : Bool := renderF (valueF s) == s

/-- `DataSavingMixin`: every step writes the time information, a vtu with the counter as time
    step and the pvd with the exported times; a restart reads the pvd, loads the time
    information and sets time and dt from the returned index.  `ws`: micro-time, time, dt. -/
def mixinRestart (ws : List (Nat × ν × ν)) : Option (Nat × TM ν) :=
  let steps := counterSteps 0 ws.length
  let entries := (ws.zip steps).map (fun p => (p.1.1, p.2, p.2))
  match pvdSelectLabels (rendered entries), ws with
  | some (idx, _), w :: _ =>
    match TM.setFromExported { time := w.2.1, dt := w.2.2, expTimes := ws.map (·.2.1), expDt := ws.map (·.2.2) } (idx : Int) with
    | some m => some (idx, m)
    | none => none
  | _, _ => none

/-! ## which time step a pvd file restores -/

/-- largest exported time-step index -/
def latest : List Nat → Option Nat
  | [] => none
  | s :: ss => match latest ss with
    | none => some s
    | some m => some (if m < s then s else m)

/-- `import_from_pvd` as the property needs it: the files of the most recent time step, and its index -/
def pvdSelect (entries : List (Nat × φ)) : Option (Nat × List φ) :=
  match latest (entries.map (·.1)) with
  | none => none
  | some m => some (m, (entries.filter (fun e => e.1 == m)).map (·.2))

/-! ### before fix 2f919c383 the labels `"%f" % time` were sorted as strings -/

/-- ASCII codes of `"%f" % n` for a natural number `n` -/
def label (n : Nat) : List Nat := (Nat.toDigits 10 n).map (·.toNat) ++ [46, 48, 48, 48, 48, 48, 48]

def lexLt : List Nat → List Nat → Bool
  | [], [] => false
  | [], _ :: _ => true
  | _ :: _, [] => false
  | a :: as, b :: bs => if a < b then true else if b < a then false else lexLt as bs

/-- `np.unique(labels)[-1]` on strings: the lexicographically largest label -/
def latestLex : List Nat → Option Nat
  | [] => none
  | s :: ss => match latestLex ss with
    | none => some s
    | some m => some (if lexLt (label m) (label s) then s else m)

end PorepyVerif.C38
