/-
Line protocol shared by every property driver (core Lean only, no Mathlib).

One JSON object per input line, one JSON value per output line.  Rationals travel
as strings "n/d" (or JSON integers); the Python side produces them with
`fractions.Fraction(float)` so every binary64 value is transported exactly.
-/
import Lean.Data.Json
open Lean

namespace PV

def ratToString (q : Rat) : String :=
  if q.den == 1 then toString q.num else s!"{q.num}/{q.den}"

def parseInt? (s : String) : Option Int := s.trimAscii.toString.toInt?

def parseRat? (s : String) : Option Rat :=
  match s.trimAscii.toString.splitOn "/" with
  | [n] => (parseInt? n).map (fun (i : Int) => (i : Rat))
  | [n, d] => do
      let n ← parseInt? n
      let d ← parseInt? d
      if d == 0 then none else some ((n : Rat) / (d : Rat))
  | _ => none

abbrev R := Except String

def jInt (j : Json) : R Int :=
  match j with
  | .num n => if n.exponent == 0 then pure n.mantissa else throw s!"not an integer: {j.compress}"
  | .str s => match parseInt? s with
      | some i => pure i
      | none => throw s!"not an integer: {s}"
  | _ => throw s!"not an integer: {j.compress}"

def jNat (j : Json) : R Nat := do
  let i ← jInt j
  if i < 0 then throw s!"negative: {i}" else pure i.toNat

def jRat (j : Json) : R Rat :=
  match j with
  | .num n => pure ((n.mantissa : Rat) / ((10 ^ n.exponent : Nat) : Rat))
  | .str s => match parseRat? s with
      | some q => pure q
      | none => throw s!"not a rational: {s}"
  | _ => throw s!"not a rational: {j.compress}"

def jBool (j : Json) : R Bool :=
  match j with
  | .bool b => pure b
  | _ => throw s!"not a bool: {j.compress}"

def jStr (j : Json) : R String :=
  match j with
  | .str s => pure s
  | _ => throw s!"not a string: {j.compress}"

def jList (f : Json → R α) (j : Json) : R (List α) :=
  match j with
  | .arr a => a.toList.mapM f
  | _ => throw s!"not a list: {j.compress}"

def jOpt (f : Json → R α) (j : Json) : R (Option α) :=
  match j with
  | .null => pure none
  | _ => some <$> f j

def field (j : Json) (k : String) : R Json :=
  match j.getObjVal? k with
  | .ok v => pure v
  | .error _ => throw s!"missing field {k}"

def fieldD (j : Json) (k : String) (d : Json) : Json :=
  match j.getObjVal? k with
  | .ok v => v
  | .error _ => d

def fInt (j : Json) (k : String) : R Int := field j k >>= jInt
def fNat (j : Json) (k : String) : R Nat := field j k >>= jNat
def fRat (j : Json) (k : String) : R Rat := field j k >>= jRat
def fBool (j : Json) (k : String) : R Bool := field j k >>= jBool
def fStr (j : Json) (k : String) : R String := field j k >>= jStr
def fInts (j : Json) (k : String) : R (List Int) := field j k >>= jList jInt
def fNats (j : Json) (k : String) : R (List Nat) := field j k >>= jList jNat
def fRats (j : Json) (k : String) : R (List Rat) := field j k >>= jList jRat
def fIntss (j : Json) (k : String) : R (List (List Int)) := field j k >>= jList (jList jInt)
def fNatss (j : Json) (k : String) : R (List (List Nat)) := field j k >>= jList (jList jNat)
def fRatss (j : Json) (k : String) : R (List (List Rat)) := field j k >>= jList (jList jRat)

def ofRat (q : Rat) : Json := .str (ratToString q)
def ofInt (i : Int) : Json := .num ⟨i, 0⟩
def ofNat (n : Nat) : Json := .num ⟨n, 0⟩
def ofList (f : α → Json) (l : List α) : Json := .arr (l.map f).toArray
def ofRats (l : List Rat) : Json := ofList ofRat l
def ofInts (l : List Int) : Json := ofList ofInt l
def ofNats (l : List Nat) : Json := ofList ofNat l
def ofOpt (f : α → Json) : Option α → Json
  | none => .null
  | some a => f a
def err (kind : String) : Json := Json.mkObj [("err", .str kind)]
def obj (kvs : List (String × Json)) : Json := Json.mkObj kvs

/-- Generic stateful driver loop: `{"op":"reset"}` restores `init` and answers `"reset"`;
    any other line is handed to `step`.  A line that does not parse, or an op `step`
    rejects, answers `{"err":"bad-op: …"}` — never a default value. -/
partial def loop (h : IO.FS.Stream) (init : σ) (step : σ → Json → R (σ × Json)) (s : σ) : IO Unit := do
  let line ← h.getLine
  if line.isEmpty then return ()
  if line.trimAscii.toString.isEmpty then loop h init step s else
  match Json.parse line with
  | .error e =>
      IO.println (err s!"bad-op: {e}").compress
      loop h init step s
  | .ok j =>
      if (j.getObjValAs? String "op").toOption == some "reset" then
        IO.println (Json.str "reset").compress
        loop h init step init
      else
        match step s j with
        | .ok (s', out) =>
            IO.println out.compress
            loop h init step s'
        | .error e =>
            IO.println (err s!"bad-op: {e}").compress
            loop h init step s

def runDriver (init : σ) (step : σ → Json → R (σ × Json)) : IO Unit := do
  loop (← IO.getStdin) init step init

/-- Driver for pure functions (no state). -/
def runPure (f : Json → R Json) : IO Unit :=
  runDriver () (fun _ j => do let o ← f j; pure ((), o))

end PV
