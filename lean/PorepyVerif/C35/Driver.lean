/- C35 line-protocol driver: `lake env lean --run PorepyVerif/C35/Driver.lean` -/
import PorepyVerif.Common.Wire
import PorepyVerif.C35.Model
open Lean PV PorepyVerif.C35

def jCsr (j : Json) : R Csr := do
  pure { nrows := ← fNat j "nrows", ncols := ← fNat j "ncols", indptr := ← fNats j "indptr",
         indices := ← fNats j "indices", data := ← fRats j "data" }

def fCsr (j : Json) (k : String) : R Csr := field j k >>= jCsr

def ofBool (b : Bool) : Json := .bool b

/-- answer for a matrix result: the raw arrays, the dense reading, and well-formedness -/
def csrOut (C : Csr) (wfIn : List Bool) : Json :=
  obj [("nrows", ofNat C.nrows), ("ncols", ofNat C.ncols), ("indptr", ofNats C.indptr),
       ("indices", ofNats C.indices), ("data", ofRats C.data),
       ("dense", ofList ofRats C.toDense), ("wf_in", ofList ofBool wfIn), ("wf_out", ofBool C.wfb)]

def exc (e : Except String Json) : Json :=
  match e with
  | .ok j => j
  | .error k => err k

def isCompressed (f : String) : Bool := f == "csr" || f == "csc"

def step (j : Json) : R Json := do
  let op ← fStr j "op"
  match op with
  | "eip" =>
    let lo ← fInts j "lo"
    let hi ← fInts j "hi"
    pure (exc ((expandIndexPointers lo hi).map (fun o => obj [("out", ofInts o)])))
  | "rlencode" =>
    let cols ← fIntss j "cols"
    pure (exc ((rlencode cols).map (fun o => obj [("vals", ofList ofInts o.1), ("num", ofInts o.2)])))
  | "rldecode" =>
    let a ← fIntss j "a"
    let n ← fInts j "n"
    pure (exc ((rldecode a n).map (fun o => obj [("out", ofList ofInts o)])))
  | "zero" =>
    let A ← fCsr j "A"
    let fmt ← fStr j "fmt"
    let want ← fStr j "want"
    let lines ← fNats j "lines"
    if fmt != want then pure (err "ValueError") else
    pure (csrOut (zeroLines A lines) [A.wfb])
  | "slice" =>
    let A ← fCsr j "A"
    let fmt ← fStr j "fmt"
    let ind ← fNats j "ind"
    if !isCompressed fmt then pure (err "ValueError") else
    pure (csrOut (sliceLines A ind) [A.wfb])
  | "slice_mask" =>
    let A ← fCsr j "A"
    let mask ← field j "mask" >>= jList jBool
    pure (csrOut (sliceLines A (whereTrue mask)) [A.wfb])
  | "slice_indices" =>
    let A ← fCsr j "A"
    let ind ← fNats j "ind"
    let r := sliceIndices A ind
    pure (obj [("indices", ofNats r.1), ("array_ind", ofNats r.2), ("wf_in", ofList ofBool [A.wfb])])
  | "slice_indices_mask" =>
    let A ← fCsr j "A"
    let mask ← field j "mask" >>= jList jBool
    pure (exc ((sliceIndicesMask A mask).map (fun r =>
      obj [("indices", ofNats r.1), ("array_ind", ofNats r.2), ("wf_in", ofList ofBool [A.wfb])])))
  | "slice_indices_int" =>
    let A ← fCsr j "A"
    let i ← fNat j "i"
    let r := sliceIndicesInt A i
    pure (obj [("indices", ofNats r.1), ("start", ofNat r.2.1), ("stop", ofNat r.2.2), ("wf_in", ofList ofBool [A.wfb])])
  | "merge" =>
    let A ← fCsr j "A"
    let B ← fCsr j "B"
    let lines ← fNats j "lines"
    let fmtA ← fStr j "fmtA"
    let fmtB ← fStr j "fmtB"
    let fmt ← fStr j "fmt"
    if fmtA != fmt || fmtB != fmt then pure (err "ValueError") else
    match mergeCheck A B lines with
    | some e => pure (err e)
    | none => pure (csrOut (mergeLines A B lines) [A.wfb, B.wfb])
  | "stack_mat" =>
    let A ← fCsr j "A"
    let B ← fCsr j "B"
    let fmtA ← fStr j "fmtA"
    let fmtB ← fStr j "fmtB"
    if !isCompressed fmtA then pure (err "ValueError") else
    if fmtA != fmtB then pure (err "ValueError") else
    if A.ncols != B.ncols then pure (err "ValueError") else
    pure (csrOut (stackMat A B) [A.wfb, B.wfb])
  | "stack_diag" =>
    let A ← fCsr j "A"
    let B ← fCsr j "B"
    let fmtA ← fStr j "fmtA"
    let fmtB ← fStr j "fmtB"
    if !isCompressed fmtA then pure (err "ValueError") else
    if fmtA != fmtB then pure (err "ValueError") else
    pure (csrOut (stackDiag A B) [A.wfb, B.wfb])
  | "from_sparse_blocks" =>
    let bs ← field j "blocks" >>= jList jCsr
    pure (exc ((fromSparseBlocks bs).map (fun C => csrOut C (bs.map (·.wfb)))))
  | "from_dense_blocks" =>
    let data ← fRats j "data"
    let bs ← fNat j "block_size"
    let nb ← fNat j "num_blocks"
    pure (exc ((fromDenseBlocks data bs nb).map (fun C => csrOut C [])))
  | "bdi" =>
    let m ← fInts j "m"
    let n ← fInts j "n"
    pure (exc ((blockDiagIndex m n).map (fun r => obj [("i", ofInts r.1), ("j", ofInts r.2)])))
  | "bdi_sq" =>
    let m ← fNats j "m"
    pure (obj [("i", ofNats (blockDiagIndexSq 0 m))])
  | "bdm" =>
    let vals ← fRats j "vals"
    let sz ← fNats j "sz"
    pure (exc ((blockDiagMatrix vals sz).map (fun C => csrOut C [])))
  | "kron" =>
    let A ← fCsr j "A"
    let nd ← fNat j "nd"
    let C := if nd = 1 then A else kronI A nd
    pure (obj [("dense", ofList ofRats C.toDense), ("nrows", ofNat C.nrows), ("ncols", ofNat C.ncols),
               ("wf_in", ofList ofBool [A.wfb]), ("wf_out", ofBool C.wfb)])
  | "nd" =>
    let ind ← fInts j "ind"
    let nd ← fNat j "nd"
    let f ← fBool j "orderF"
    pure (obj [("out", ofInts (expandIndicesNd ind nd f))])
  | "incr" =>
    let x ← fInts j "x"
    let n ← fNat j "n"
    let inc ← fInt j "increment"
    pure (obj [("out", ofInts (expandIndicesIncr x n inc))])
  | "opt" =>
    let r ← fNat j "nrows"
    let c ← fNat j "ncols"
    pure (obj [("fmt", Json.str (if optimizedIsCsc r c then "csc" else "csr"))])
  | _ => throw s!"unknown op {op}"

def main : IO Unit := runPure step
