/- C35 line-protocol driver: `lake env lean --run PorepyVerif/C35/Driver.lean` -/
import PorepyVerif.Common.Wire
import PorepyVerif.C35.Model
open Lean PV PorepyVerif.C35

def jCsr (j : Json) : R Csr := do
  pure { nrows := ← fNat j "nrows", ncols := ← fNat j "ncols", indptr := ← fNats j "indptr",
         indices := ← fNats j "indices", data := ← fRats j "data" }

def fCsr (j : Json) (k : String) : R Csr := field j k >>= jCsr

def ofBool (b : Bool) : Json := .bool b

/-- answer for a matrix result: the raw arrays, the dense line-wise reading, the dense matrix in
    ordinary orientation (`dense_std`: for csc through `Csc.toDense`, scipy's column-wise semantics),
    and well-formedness -/
def csrOutF (fmt : String) (C : Csr) (wfIn : List Bool) : Json :=
  let std := if fmt == "csc" then (Csc.ofRead C).toDense else C.toDense
  obj [("nrows", ofNat C.nrows), ("ncols", ofNat C.ncols), ("indptr", ofNats C.indptr),
       ("indices", ofNats C.indices), ("data", ofRats C.data),
       ("dense", ofList ofRats C.toDense), ("dense_std", ofList ofRats std),
       ("wf_in", ofList ofBool wfIn), ("wf_out", ofBool C.wfb)]

def csrOut (C : Csr) (wfIn : List Bool) : Json := csrOutF "csr" C wfIn

/-- decidable hypothesis of the line theorems: every line index is in range -/
def inRange (lines : List Nat) (n : Nat) : Bool := lines.all (fun i => decide (i < n))

def exc (e : Except String Json) : Json :=
  match e with
  | .ok j => j
  | .error k => err k

def isCompressed (f : String) : Bool := f == "csr" || f == "csc"

def step (j : Json) : R Json := do
  let op ← fStr j "op"
  match op with
  | "eip" =>
    let lo ← fInts j "lo"
    let hi ← fInts j "hi"
    pure (exc ((expandIndexPointers lo hi).map (fun o => obj [("out", ofInts o)])))
  | "rlencode" =>
    let cols ← fIntss j "cols"
    pure (exc ((rlencode cols).map (fun o => obj [("vals", ofList ofInts o.1), ("num", ofInts o.2)])))
  | "rldecode" =>
    let a ← fIntss j "a"
    let n ← fInts j "n"
    pure (exc ((rldecode a n).map (fun o => obj [("out", ofList ofInts o)])))
  | "zero" =>
    let A ← fCsr j "A"
    let fmt ← fStr j "fmt"
    let want ← fStr j "want"
    let lines ← fNats j "lines"
    if fmt != want then pure (err "ValueError") else
    if fmt == "csc" then pure (csrOutF fmt (zeroColumns (Csc.ofRead A) lines).read [A.wfb, inRange lines A.nrows]) else
    pure (csrOutF fmt (zeroLines A lines) [A.wfb, inRange lines A.nrows])
  | "slice" =>
    let A ← fCsr j "A"
    let fmt ← fStr j "fmt"
    let ind ← fNats j "ind"
    if !isCompressed fmt then pure (err "ValueError") else
    if fmt == "csc" then pure (csrOutF fmt (sliceCols (Csc.ofRead A) ind).read [A.wfb, inRange ind A.nrows]) else
    pure (csrOutF fmt (sliceLines A ind) [A.wfb, inRange ind A.nrows])
  | "slice_mask" =>
    let A ← fCsr j "A"
    let mask ← field j "mask" >>= jList jBool
    let fmt ← fStr j "fmt"
    if fmt == "csc" then pure (csrOutF fmt (sliceCols (Csc.ofRead A) (whereTrue mask)).read [A.wfb, decide (mask.length = A.nrows)]) else
    pure (csrOutF fmt (sliceLines A (whereTrue mask)) [A.wfb, decide (mask.length = A.nrows)])
  | "slice_indices" =>
    let A ← fCsr j "A"
    let ind ← fNats j "ind"
    let r := sliceIndices A ind
    pure (obj [("indices", ofNats r.1), ("array_ind", ofNats r.2), ("wf_in", ofList ofBool [A.wfb, inRange ind A.nrows])])
  | "slice_indices_mask" =>
    let A ← fCsr j "A"
    let mask ← field j "mask" >>= jList jBool
    pure (exc ((sliceIndicesMask A mask).map (fun r =>
      obj [("indices", ofNats r.1), ("array_ind", ofNats r.2), ("wf_in", ofList ofBool [A.wfb])])))
  | "slice_indices_int" =>
    let A ← fCsr j "A"
    let i ← fNat j "i"
    let r := sliceIndicesInt A i
    pure (obj [("indices", ofNats r.1), ("start", ofNat r.2.1), ("stop", ofNat r.2.2), ("wf_in", ofList ofBool [A.wfb])])
  | "merge" =>
    let A ← fCsr j "A"
    let B ← fCsr j "B"
    let lines ← fNats j "lines"
    let fmtA ← fStr j "fmtA"
    let fmtB ← fStr j "fmtB"
    let fmt ← fStr j "fmt"
    if fmtA != fmt || fmtB != fmt then pure (err "ValueError") else
    match mergeCheck A B lines with
    | some e => pure (err e)
    | none =>
      if fmt == "csc" then pure (csrOutF fmt (mergeCols (Csc.ofRead A) (Csc.ofRead B) lines).read [A.wfb, B.wfb, inRange lines A.nrows]) else
      pure (csrOutF fmt (mergeLines A B lines) [A.wfb, B.wfb, inRange lines A.nrows])
  | "stack_mat" =>
    let A ← fCsr j "A"
    let B ← fCsr j "B"
    let fmtA ← fStr j "fmtA"
    let fmtB ← fStr j "fmtB"
    if !isCompressed fmtA then pure (err "ValueError") else
    if fmtA != fmtB then pure (err "ValueError") else
    if A.ncols != B.ncols then pure (err "ValueError") else
    if fmtA == "csc" then pure (csrOutF fmtA (stackMatCsc (Csc.ofRead A) (Csc.ofRead B)).read [A.wfb, B.wfb]) else
    pure (csrOutF fmtA (stackMat A B) [A.wfb, B.wfb])
  | "stack_diag" =>
    let A ← fCsr j "A"
    let B ← fCsr j "B"
    let fmtA ← fStr j "fmtA"
    let fmtB ← fStr j "fmtB"
    if !isCompressed fmtA then pure (err "ValueError") else
    if fmtA != fmtB then pure (err "ValueError") else
    if fmtA == "csc" then pure (csrOutF fmtA (stackDiagCsc (Csc.ofRead A) (Csc.ofRead B)).read [A.wfb, B.wfb]) else
    pure (csrOutF fmtA (stackDiag A B) [A.wfb, B.wfb])
  | "from_sparse_blocks" =>
    let bs ← field j "blocks" >>= jList jCsr
    let fmt ← fStr j "fmt"
    if fmt == "csc" then
      pure (exc ((cscFromSparseBlocks (bs.map Csc.ofRead)).map (fun C => csrOutF fmt C.read (bs.map (·.wfb))))) else
    pure (exc ((fromSparseBlocks bs).map (fun C => csrOutF fmt C (bs.map (·.wfb)))))
  | "from_dense_blocks" =>
    let data ← fRats j "data"
    let bs ← fNat j "block_size"
    let nb ← fNat j "num_blocks"
    let fmt ← fStr j "fmt"
    if fmt == "csc" then pure (exc ((cscFromDenseBlocks data bs nb).map (fun C => csrOutF fmt C.read []))) else
    pure (exc ((fromDenseBlocks data bs nb).map (fun C => csrOutF fmt C [])))
  | "bdi" =>
    let m ← fInts j "m"
    let n ← fInts j "n"
    pure (exc ((blockDiagIndex m n).map (fun r => obj [("i", ofInts r.1), ("j", ofInts r.2)])))
  | "bdi_sq" =>
    let m ← fNats j "m"
    pure (obj [("i", ofNats (blockDiagIndexSq 0 m))])
  | "bdm" =>
    let vals ← fRats j "vals"
    let sz ← fNats j "sz"
    pure (exc ((blockDiagMatrix vals sz).map (fun C => csrOut C [])))
  | "kron" =>
    let A ← fCsr j "A"
    let nd ← fNat j "nd"
    let C := sparseKron A nd
    pure (obj [("dense", ofList ofRats C.toDense), ("nrows", ofNat C.nrows), ("ncols", ofNat C.ncols),
               ("wf_in", ofList ofBool [A.wfb]), ("wf_out", ofBool C.wfb)])
  | "nd" =>
    let ind ← fInts j "ind"
    let nd ← fNat j "nd"
    let f ← fBool j "orderF"
    pure (obj [("out", ofInts (expandIndicesNd ind nd f))])
  | "incr" =>
    let x ← fInts j "x"
    let n ← fNat j "n"
    let inc ← fInt j "increment"
    pure (obj [("out", ofInts (expandIndicesIncr x n inc))])
  | "opt" =>
    let A ← fCsr j "A"
    match optimizedStorage A with
    | .inl R => pure (obj [("fmt", Json.str "csr"), ("dense_std", ofList ofRats R.toDense)])
    | .inr C => pure (obj [("fmt", Json.str "csc"), ("dense_std", ofList ofRats C.toDense)])
  | "copy" =>
    let A ← fCsr j "A"
    let fmt ← fStr j "fmt"
    pure (csrOutF fmt (copyCsr A) [A.wfb])
  | "triplets" =>
    let A ← fCsr j "A"
    let rem ← fBool j "remove_nz"
    let t := toTriplets A rem
    pure (obj [("line", ofNats (t.map (·.1))), ("minor", ofNats (t.map (·.2.1))), ("data", ofRats (t.map (·.2.2))),
               ("dense", ofList ofRats (tripletDense t A.nrows A.ncols)), ("wf_in", ofList ofBool [A.wfb])])
  | "slice_zero" =>
    let A ← fCsr j "A"
    let fmt ← fStr j "fmt"
    let ind ← fNats j "ind"
    let lines ← fNats j "lines"
    pure (csrOutF fmt (zeroLines (sliceLines A ind) lines) [A.wfb, inRange ind A.nrows, inRange lines ind.length])
  | _ => throw s!"unknown op {op}"

def main : IO Unit := runPure step
