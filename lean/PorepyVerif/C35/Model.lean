/-
C35 — executable model of the compressed-storage utilities of
`porepy.numerics.linalg.matrix_operations` and the index helpers of
`porepy.utils.array_operations` (core Lean only).

A compressed matrix is the quintuple `Csr = {nrows, ncols, indptr, indices, data}` read row-wise.
A scipy `csc_matrix` of shape (r, c) with arrays (indptr, indices, data) is the `Csr` with
`nrows := c, ncols := r` and the same three arrays, i.e. the csr reading of the transpose; every
function below touches the three arrays in the same way for both formats, exactly as the code does.

The functions are written the way the Python code is written: index arrays are built with
`cumsum`, scatter assignments `x[idx] = v`, fancy indexing `a[idx]`, `np.insert`, `np.repeat`.
The *specifications* (`…Spec`, `toDense`, dense reference operations) are plain structural
recursions; Props.lean proves that the two agree.
-/
namespace PorepyVerif.C35

/-! ## numpy-style helpers -/

/-- running sum started at `s`; `np.cumsum l = cumsumFrom 0 l` -/
def cumsumFrom (s : Int) : List Int → List Int
  | [] => []
  | x :: xs => (s + x) :: cumsumFrom (s + x) xs

def cumsum (l : List Int) : List Int := cumsumFrom 0 l

def cumsumFromN (s : Nat) : List Nat → List Nat
  | [] => []
  | x :: xs => (s + x) :: cumsumFromN (s + x) xs

def cumsumN (l : List Nat) : List Nat := cumsumFromN 0 l

def sumN : List Nat → Nat
  | [] => 0
  | x :: xs => x + sumN xs

def sumI : List Int → Int
  | [] => 0
  | x :: xs => x + sumI xs

/-- `x[idx] = vals` for an index array and a value array (later writes win, as in numpy) -/
def scatter (x : List α) : List Nat → List α → List α
  | i :: is, v :: vs => scatter (x.set i v) is vs
  | _, _ => x

/-- `x[idx] = v` for an index array and one scalar -/
def scatterConst (x : List α) (idx : List Nat) (v : α) : List α :=
  match idx with
  | [] => x
  | i :: is => scatterConst (x.set i v) is v

/-- `a[idx]` (fancy indexing).  All callers produce in-range indices (proved under `Csr.WF`);
    the default value is never read on well-formed input. -/
def gather [Inhabited α] (a : List α) (idx : List Nat) : List α :=
  idx.map (fun k => a.getD k default)

/-- `np.arange(l, h)` -/
def rangeI (l h : Int) : List Int := (List.range (h - l).toNat).map (fun (k : Nat) => l + (k : Int))

/-- `np.repeat(a, n)` -/
def repeatSpec : List α → List Nat → List α
  | x :: a, c :: n => List.replicate c x ++ repeatSpec a n
  | _, _ => []

/-- `np.insert(arr, pos, vals)` for positions `0 ≤ pos ≤ len(arr)`: every value is placed before
    the element that had index `pos` in the *original* array; equal positions keep the order of
    `vals` (numpy sorts the positions with a stable sort). `k` is the index of the head of `arr`. -/
def npInsertFrom (k : Nat) (pv : List (Nat × α)) : List α → List α
  | [] => (pv.filter (fun p => decide (k ≤ p.1))).map (·.2)
  | a :: arr => (pv.filter (fun p => p.1 == k)).map (·.2) ++ a :: npInsertFrom (k + 1) pv arr

def npInsert (arr : List α) (pos : List Nat) (vals : List α) : List α :=
  npInsertFrom 0 (pos.zip vals) arr

/-- stable insertion sort of (key, original position) pairs: `np.argsort` -/
def insertKey (p : Nat × Nat) : List (Nat × Nat) → List (Nat × Nat)
  | [] => [p]
  | q :: l => if p.1 ≤ q.1 then p :: q :: l else q :: insertKey p l

def sortKeys : List (Nat × Nat) → List (Nat × Nat)
  | [] => []
  | p :: l => insertKey p (sortKeys l)

def enumFrom (k : Nat) : List α → List (α × Nat)
  | [] => []
  | a :: l => (a, k) :: enumFrom (k + 1) l

/-- `np.argsort(keys)` (stable) -/
def argsort (keys : List Nat) : List Nat := (sortKeys (enumFrom 0 keys)).map (·.2)

/-- `np.any(np.diff(l) < 0)` -/
def hasDescent : List Nat → Bool
  | a :: b :: l => decide (b < a) || hasDescent (b :: l)
  | _ => false

/-! ## `expand_index_pointers` -/

/-- Specification: concatenation of the ranges `[lo_k, hi_k)` (the docstring's loop). -/
def expandSpec : List Int → List Int → List Int
  | l :: lo, h :: hi => rangeI l h ++ expandSpec lo hi
  | _, _ => []

/-- The body of `expand_index_pointers` on the intervals that survive `pos_diff`, as in the code:
    fill an array of ones, overwrite the interval starts with the jump from the end of the previous
    interval (`x[0] = lo[0]; x[cumsum(num[:-1])] = lo[1:] - hi[:-1]`), cumulative sum. -/
def expandKept : List (Int × Int) → List Int
  | [] => []
  | p0 :: rest =>
    let keep := p0 :: rest
    let lo' := keep.map (·.1)
    let hi' := keep.map (fun p => p.2 - 1)
    let num : List Nat := keep.map (fun p => (p.2 - 1 - p.1 + 1).toNat)
    let x := List.replicate (sumN num) (1 : Int)
    let x := x.set 0 p0.1
    let x := scatter x (cumsumN num.dropLast) (List.zipWith (· - ·) lo'.tail hi'.dropLast)
    cumsum x

/-- after broadcasting: drop the empty intervals (`pos_diff = hi >= lo + 1`), then `expandKept` -/
def expandCore (lo hi : List Int) : List Int :=
  expandKept ((lo.zip hi).filter (fun p => decide (p.1 + 1 ≤ p.2)))

/-- `lo * np.ones(hi.size)` when `lo.size == 1`, then the same for `hi` (in this order) -/
def broadcastLoHi (lo hi : List Int) : List Int × List Int :=
  let lo1 := if lo.length = 1 then List.replicate hi.length (lo.headD 0) else lo
  let hi1 := if hi.length = 1 then List.replicate lo1.length (hi.headD 0) else hi
  (lo1, hi1)

/-- `expand_index_pointers(lo, hi)` with its `ValueError` -/
def expandIndexPointers (lo hi : List Int) : Except String (List Int) :=
  let p := broadcastLoHi lo hi
  if p.1.length ≠ p.2.length then .error "ValueError" else .ok (expandCore p.1 p.2)

/-- total version used by the matrix functions (they always pass arrays of equal length) -/
def expandIP (lo hi : List Int) : List Int :=
  let p := broadcastLoHi lo hi
  expandCore p.1 p.2

/-! ## run-length coding -/

/-- positions (counted from `k`) of the `true` entries: `np.argwhere(mask).ravel()` -/
def trueIdxFrom (k : Nat) : List Bool → List Nat
  | [] => []
  | b :: l => if b then k :: trueIdxFrom (k + 1) l else trueIdxFrom (k + 1) l

/-- `A[:, :-1] != A[:, 1:]` reduced with `any` over the rows: neighbouring columns differ -/
def neighbourDiff [DecidableEq α] : List α → List Bool
  | a :: b :: l => (!decide (a = b)) :: neighbourDiff (b :: l)
  | _ => []

/-- first differences `np.diff(prev :: l)` -/
def diffFrom (prev : Int) : List Int → List Int
  | [] => []
  | x :: l => (x - prev) :: diffFrom x l

/-- `rlencode(A)`; the argument is the list of *columns* of `A`.
    A matrix without columns makes the code raise `IndexError` (index -1 of an empty axis). -/
def rlencode [DecidableEq α] [Inhabited α] (a : List α) : Except String (List α × List Int) :=
  let i : List Int := (trueIdxFrom 0 (neighbourDiff a)).map (fun (k : Nat) => (k : Int)) ++ [(a.length : Int) - 1]
  let num := diffFrom (-1) i
  if a.length = 0 then .error "IndexError" else .ok (gather a (i.map Int.toNat), num)

/-- Specification of run-length encoding: maximal runs of equal neighbours. -/
def rleSpec [DecidableEq α] : List α → List (α × Nat)
  | [] => []
  | a :: l =>
    match rleSpec l with
    | [] => [(a, 1)]
    | (b, n) :: r => if a = b then (b, n + 1) :: r else (a, 1) :: (b, n) :: r

/-- Specification of run-length decoding: `np.repeat(A, n)` with negative counts read as 0. -/
def rldecodeSpec : List α → List Int → List α
  | x :: a, c :: n => List.replicate c.toNat x ++ rldecodeSpec a n
  | _, _ => []

/-- `A[r]` for a boolean mask -/
def maskSel : List α → List Bool → List α
  | x :: a, b :: r => if b then x :: maskSel a r else maskSel a r
  | _, _ => []

/-- `np.where(mask)[0]` / `np.flatnonzero(mask)` -/
def whereTrue (mask : List Bool) : List Nat := trueIdxFrom 0 mask

/-- `rldecode(A, n)` as coded (current /repo: entries with a count ≤ 0 are skipped in `A` and `n`):
    `r = n > 0; i = cumsum([0] ++ n[r])`, `j = zeros(i[-1]); j[i[1:-1]] = 1`,
    `B = A[flatnonzero(r)[cumsum(j)]]`.  `A` is indexed along its first axis; the only error is
    numpy's `IndexError` when a positive count sits at a position beyond the end of `A`. -/
def rldecode [Inhabited α] (a : List α) (n : List Int) : Except String (List α) :=
  let r := n.map (fun c => decide (0 < c))
  let nr : List Nat := (maskSel n r).map Int.toNat
  let i := cumsumN (0 :: nr)
  let j := List.replicate (i.getLastD 0) (0 : Nat)
  let j := scatterConst j i.tail.dropLast 1
  let idx := gather (whereTrue r) (cumsumN j)
  if idx.any (fun k => decide (a.length ≤ k)) then .error "IndexError" else .ok (gather a idx)

/-! ## compressed matrices -/

structure Csr where
  nrows : Nat
  ncols : Nat
  indptr : List Nat
  indices : List Nat
  data : List Rat
deriving DecidableEq, Repr

/-- nondecreasing -/
def monotone : List Nat → Bool
  | a :: b :: l => decide (a ≤ b) && monotone (b :: l)
  | _ => true

/-- Well-formedness of a compressed matrix (what scipy's `check_format` demands):
    `indptr` has `nrows+1` entries, starts at 0, is nondecreasing and ends at `nnz`;
    `indices` and `data` have the same length; every index is `< ncols`.
    Indices need NOT be sorted inside a row and may repeat (duplicates are summed). -/
def Csr.wfb (A : Csr) : Bool :=
  decide (A.indptr.length = A.nrows + 1) && decide (A.indptr.headD 1 = 0) && monotone A.indptr
    && decide (A.indptr.getLastD 0 = A.indices.length) && decide (A.indices.length = A.data.length)
    && A.indices.all (fun c => decide (c < A.ncols))

def Csr.WF (A : Csr) : Prop := A.wfb = true

instance (A : Csr) : Decidable A.WF := inferInstanceAs (Decidable (A.wfb = true))

/-- stored entries (column, value) of row `i`: positions `indptr[i] ≤ k < indptr[i+1]` -/
def Csr.rowEntries (A : Csr) (i : Nat) : List (Nat × Rat) :=
  ((A.indices.zip A.data).drop (A.indptr.getD i 0)).take (A.indptr.getD (i + 1) 0 - A.indptr.getD i 0)

/-- value at column `j` of a row given by its stored entries: duplicates are summed -/
def entrySum (j : Nat) : List (Nat × Rat) → Rat
  | [] => 0
  | p :: l => (if p.1 = j then p.2 else 0) + entrySum j l

def denseRow (ncols : Nat) (es : List (Nat × Rat)) : List Rat :=
  (List.range ncols).map (fun j => entrySum j es)

/-- all rows as entry lists (the "list of lists" reading) -/
def Csr.rows (A : Csr) : List (List (Nat × Rat)) := (List.range A.nrows).map A.rowEntries

/-- THE semantics of a compressed matrix: `A.toarray()` as a list of rows over ℚ. -/
def Csr.toDense (A : Csr) : List (List Rat) := A.rows.map (denseRow A.ncols)

/-- row pointers of a list of rows, started at `s` -/
def ptrsFrom (s : Nat) : List (List β) → List Nat
  | [] => [s]
  | r :: rs => s :: ptrsFrom (s + r.length) rs

/-- the compressed matrix with the given rows (inverse of `Csr.rows` on well-formed matrices) -/
def ofRows (ncols : Nat) (rs : List (List (Nat × Rat))) : Csr :=
  { nrows := rs.length, ncols := ncols, indptr := ptrsFrom 0 rs,
    indices := rs.flatten.map (·.1), data := rs.flatten.map (·.2) }

/-- `indptr[lines]` and `indptr[lines + 1]` -/
def Csr.ptrLo (A : Csr) (lines : List Nat) : List Int := lines.map (fun i => (A.indptr.getD i 0 : Int))
def Csr.ptrHi (A : Csr) (lines : List Nat) : List Int := lines.map (fun i => (A.indptr.getD (i + 1) 0 : Int))

/-- `expand_index_pointers(indptr[lines], indptr[lines + 1])`: storage positions of the lines -/
def Csr.lineIdx (A : Csr) (lines : List Nat) : List Nat :=
  (expandIP (A.ptrLo lines) (A.ptrHi lines)).map Int.toNat

/-! ### zero_rows / zero_columns -/

/-- `A.data[expand_index_pointers(indptr[rows], indptr[rows+1])] = 0` -/
def zeroLines (A : Csr) (lines : List Nat) : Csr :=
  { A with data := scatterConst A.data (A.lineIdx lines) 0 }

/-! ### slice_indices / slice_sparse_matrix -/

/-- `slice_indices(A, ind, return_array_ind=True)` = (`A.indices[array_ind]`, `array_ind`) -/
def sliceIndices (A : Csr) (ind : List Nat) : List Nat × List Nat :=
  let ai := A.lineIdx ind
  (gather A.indices ai, ai)

/-- boolean `slice_ind`: `IndexError` unless the mask has one entry per line -/
def sliceIndicesMask (A : Csr) (mask : List Bool) : Except String (List Nat × List Nat) :=
  if mask.length ≠ A.indptr.length - 1 then .error "IndexError" else .ok (sliceIndices A (whereTrue mask))

/-- scalar `slice_ind`: `array_ind = slice(indptr[i], indptr[i+1])` (returned as (start, stop)) -/
def sliceIndicesInt (A : Csr) (i : Nat) : List Nat × (Nat × Nat) :=
  let a := A.indptr.getD i 0
  let b := A.indptr.getD (i + 1) 0
  (((A.indices.drop a).take (b - a)), (a, b))

/-- `slice_sparse_matrix(A, ind)` -/
def sliceLines (A : Csr) (ind : List Nat) : Csr :=
  let idx := A.lineIdx ind
  { nrows := ind.length, ncols := A.ncols,
    indptr := (0 :: cumsum (List.zipWith (· - ·) (A.ptrHi ind) (A.ptrLo ind))).map Int.toNat,
    indices := gather A.indices idx, data := gather A.data idx }

/-! ### merge_matrices -/

/-- The argument checks of `merge_matrices` that depend on shapes and lines (format strings are
    checked in the driver): `none` = passes. -/
def mergeCheck (A B : Csr) (lines : List Nat) : Option String :=
  if A.ncols ≠ B.ncols then some "ValueError"
  else if lines.length ≠ B.nrows then some "ValueError"
  else if ¬ lines.Nodup then some "ValueError"
  else none

/-- body of `merge_matrices` once the lines are sorted -/
def mergeSorted (A B : Csr) (lines : List Nat) : Csr :=
  let indIx := A.lineIdx lines
  -- remove the old data
  let removed : List Int := List.zipWith (· - ·) (A.ptrHi lines) (A.ptrLo lines)
  let numRem := cumsum (scatter (List.replicate A.indptr.length (0 : Int)) (lines.map (· + 1)) removed)
  let indptr1 : List Int := List.zipWith (· - ·) (A.indptr.map (fun (p : Nat) => (p : Int))) numRem
  let keep := scatterConst (List.replicate A.data.length true) indIx false
  let indices1 := maskSel A.indices keep
  let data1 := maskSel A.data keep
  -- add the new
  let rep : List Int := diffFrom (B.indptr.headD 0) (B.indptr.tail.map (fun (p : Nat) => (p : Int)))
  let numAdded := cumsum (scatter (List.replicate indptr1.length (0 : Int)) (lines.map (· + 1)) rep)
  let indPos := repeatSpec (lines.map (fun l => (indptr1.getD l 0).toNat)) (rep.map Int.toNat)
  { nrows := A.nrows, ncols := A.ncols,
    indptr := (List.zipWith (· + ·) indptr1 numAdded).map Int.toNat,
    indices := npInsert indices1 indPos B.indices,
    data := npInsert data1 indPos B.data }

/-- `merge_matrices(A, B, lines, fmt)` (current /repo): unsorted lines are sorted and the lines of
    `B` permuted with the same permutation (`B[sort_ind]`, modelled by `sliceLines`). -/
def mergeLines (A B : Csr) (lines : List Nat) : Csr :=
  if hasDescent lines then
    let s := argsort lines
    mergeSorted A (sliceLines B s) (gather lines s)
  else mergeSorted A B lines

/-! ### stack_mat / stack_diag -/

/-- `stack_mat(A, B)` (in place on `A`): append the lines of `B` -/
def stackMat (A B : Csr) : Csr :=
  if B.indptr.length = 1 then A else
  { nrows := A.nrows + B.nrows, ncols := A.ncols,
    indptr := A.indptr ++ B.indptr.tail.map (· + A.indptr.getLastD 0),
    indices := A.indices ++ B.indices, data := A.data ++ B.data }

/-- the general branch of `stack_diag`: append the lines of `B` with shifted minor indices -/
def stackDiagGen (A B : Csr) : Csr :=
  { nrows := A.nrows + B.nrows, ncols := A.ncols + B.ncols,
    indptr := A.indptr ++ B.indptr.tail.map (· + A.indptr.getLastD 0),
    indices := A.indices ++ B.indices.map (· + A.ncols), data := A.data ++ B.data }

/-- `stack_diag(A, B)` = [[A, 0], [0, B]] as coded now: `if B.shape == (0, 0): return A`, else the
    general branch.  (Before commit 962d765f1 the shortcut was `B.indptr.size == 1`, which forgot the
    minor dimension of a `B` without lines; regression input corpus/C35/fixed-stack-diag-empty-B-shape.json.) -/
def stackDiag (A B : Csr) : Csr :=
  if B.nrows = 0 ∧ B.ncols = 0 then A else stackDiagGen A B

/-! ### block-diagonal construction from sparse blocks -/

/-- concatenation with running offsets (`indices_offset`, `indptr_offset` are cumulative sums) -/
def blockArrays (ioff poff : Nat) : List Csr → List Nat × List Nat × List Rat
  | [] => ([], [], [])
  | m :: ms =>
    let r := blockArrays (ioff + m.ncols) (poff + m.indptr.getLastD 0) ms
    (m.indptr.tail.map (· + poff) ++ r.1, m.indices.map (· + ioff) ++ r.2.1, m.data ++ r.2.2)

/-- `_csx_matrix_from_sparse_blocks(blocks, fmt)` for blocks already in the target format -/
def fromSparseBlocks (bs : List Csr) : Except String Csr :=
  match bs with
  | [] => .error "ValueError"        -- np.concatenate of an empty list
  | [b] => .ok b
  | _ =>
    let r := blockArrays 0 0 bs
    .ok { nrows := sumN (bs.map (·.nrows)), ncols := sumN (bs.map (·.ncols)),
          indptr := 0 :: r.1, indices := r.2.1, data := r.2.2 }

/-! ### block-diagonal construction from dense data -/

/-- `np.tile(a, n)` -/
def tile (a : List α) : Nat → List α
  | 0 => []
  | n + 1 => a ++ tile a n

/-- `_csx_matrix_from_dense_blocks(data, block_size, num_blocks, fmt)` -/
def fromDenseBlocks (data : List Rat) (bs nb : Nat) : Except String Csr :=
  if data.length ≠ bs * bs * nb then .error "ValueError"
  else if bs = 0 then .error "ZeroDivisionError"    -- np.arange with step 0
  else
    let indptr := (List.range (bs * nb + 1)).map (· * bs)
    let indices :=
      if 1 < bs then
        let base := tile (tile (List.range bs) bs) nb
        let incr := ((List.range nb).flatMap (fun b => List.replicate (bs * bs) b)).map (· * bs)
        List.zipWith (· + ·) base incr
      else List.range nb
    .ok { nrows := nb * bs, ncols := nb * bs, indptr := indptr, indices := indices, data := data }

/-! ### block_diag_index / block_diag_matrix -/

/-- `block_diag_index(m)` (square blocks, `n is None`): for every block the row range, tiled once
    per column of the block; the slices written by `retrieve_indices` are consecutive. -/
def blockDiagIndexSq (off : Nat) : List Nat → List Nat
  | [] => []
  | s :: m => tile (List.range' off s) s ++ blockDiagIndexSq (off + s) m

/-- `block_diag_index(m, n)` as coded, on top of `rldecode` and `expand_index_pointers` -/
def blockDiagIndex (m n : List Int) : Except String (List Int × List Int) := do
  let pos := cumsum (0 :: m)
  let p1 := pos.dropLast
  let p2 := pos.tail.map (· - 1)
  let p1f ← rldecode p1 n
  let p2f ← rldecode p2 n
  let i ← expandIndexPointers p1f (p2f.map (· + 1))
  let sumn := rangeI 0 (sumI n)
  let mnf ← rldecode m n
  let j ← rldecode sumn mnf
  pure (i, j)

/-- Specification: coordinates of the entries of a block-diagonal matrix with blocks `m_k × n_k`,
    block after block, inside a block column after column. -/
def bdiSpec (ro co : Nat) : List Nat → List Nat → List (Nat × Nat)
  | mk :: m, nk :: n =>
    (List.range nk).flatMap (fun c => (List.range mk).map (fun r => (ro + r, co + c)))
      ++ bdiSpec (ro + mk) (co + nk) m n
  | _, _ => []

/-- `block_diag_matrix(vals, sz)`: csr matrix with `indices = block_diag_index(sz)` and
    `indptr = [0] ++ cumsum(rldecode(sz, sz))` -/
def blockDiagMatrix (vals : List Rat) (sz : List Nat) : Except String Csr := do
  let szI := sz.map (fun (s : Nat) => (s : Int))
  let rl ← rldecode szI szI
  let n := sumN sz
  pure { nrows := n, ncols := n, indptr := (0 :: cumsum rl).map Int.toNat,
         indices := blockDiagIndexSq 0 sz, data := vals }

/-! ### Kronecker product with the identity, expand_indices_nd -/

/-- `sps.kron(A, sps.eye(nd))` in compressed form: line `i` becomes the `nd` lines `i*nd + d`,
    entry `(j, v)` of line `i` goes to column `j*nd + d` of line `i*nd + d`.
    (The code delegates to scipy; this is the reference the result is compared with.) -/
def kronI (A : Csr) (nd : Nat) : Csr :=
  ofRows (A.ncols * nd)
    (A.rows.flatMap (fun es => (List.range nd).map (fun d => es.map (fun p => (p.1 * nd + d, p.2)))))

/-- dense Kronecker product with the identity -/
def kronDense (M : List (List Rat)) (nd : Nat) : List (List Rat) :=
  M.flatMap (fun row => (List.range nd).map (fun d =>
    row.flatMap (fun v => (List.range nd).map (fun e => if e = d then v else 0))))

/-- `ravel("F")` of a matrix given by its rows, `w` = number of columns -/
def ravelF (rows : List (List Int)) (w : Nat) : List Int :=
  (List.range w).flatMap (fun k => rows.map (fun r => r.getD k 0))

/-- `expand_indices_nd(ind, nd, order)` -/
def expandIndicesNd (ind : List Int) (nd : Nat) (orderF : Bool) : List Int :=
  if nd = 1 then ind else
    let mat := (List.range nd).map (fun (d : Nat) => ind.map (fun i => (nd : Int) * i + (d : Int)))
    if orderF then ravelF mat ind.length else mat.flatten

def expandNdSpecF (ind : List Int) (nd : Nat) : List Int :=
  ind.flatMap (fun i => (List.range nd).map (fun (d : Nat) => (nd : Int) * i + (d : Int)))

def expandNdSpecC (ind : List Int) (nd : Nat) : List Int :=
  (List.range nd).flatMap (fun (d : Nat) => ind.map (fun i => (nd : Int) * i + (d : Int)))

/-- `expand_indices_add_increment(x, n, increment)` -/
def expandIndicesIncr (x : List Int) (n : Nat) (incr : Int) : List Int :=
  let mat := (List.range n).map (fun (d : Nat) => x.map (fun v => v + incr * (d : Int)))
  ravelF mat x.length

def expandIncrSpec (x : List Int) (n : Nat) (incr : Int) : List Int :=
  x.flatMap (fun v => (List.range n).map (fun (d : Nat) => v + incr * (d : Int)))

/-- `optimized_compressed_storage`: csc iff more rows than columns -/
def optimizedIsCsc (nrows ncols : Nat) : Bool := decide (ncols < nrows)

/-! ## dense reference operations -/

/-- `M[rows, :] = 0` (one row after the other; repeated rows are harmless) -/
def zeroRowsDense (M : List (List Rat)) : List Nat → List (List Rat)
  | [] => M
  | l :: ls => zeroRowsDense (M.set l ((M.getD l []).map (fun _ => 0))) ls

def sliceDense (M : List (List Rat)) (ncols : Nat) (ind : List Nat) : List (List Rat) :=
  ind.map (fun i => M.getD i (List.replicate ncols 0))

/-- `M[lines, :] = N` -/
def replaceRows (M : List (List β)) : List Nat → List (List β) → List (List β)
  | l :: lines, r :: N => replaceRows (M.set l r) lines N
  | _, _ => M

/-- [[M, 0], [0, N]] for an `_ × a` matrix `M` and an `_ × b` matrix `N` -/
def diagDense (M : List (List Rat)) (a : Nat) (N : List (List Rat)) (b : Nat) : List (List Rat) :=
  M.map (· ++ List.replicate b 0) ++ N.map (List.replicate a 0 ++ ·)

/-- block diagonal of dense blocks given with their column counts -/
def blockDiagDense : List (List (List Rat) × Nat) → List (List Rat) × Nat
  | [] => ([], 0)
  | (M, c) :: l => let r := blockDiagDense l; (diagDense M c r.1 r.2, c + r.2)

/-- consecutive chunks of length `k` -/
def chunks (k : Nat) : Nat → List α → List (List α)
  | 0, _ => []
  | n + 1, l => l.take k :: chunks k n (l.drop k)

/-- Σ sz_k² : the number of values `block_diag_matrix(vals, sz)` consumes -/
def sumSq : List Nat → Nat
  | [] => 0
  | s :: sz => s * s + sumSq sz

/-- the blocks of `block_diag_matrix(vals, sz)` as (values of the block, size) pairs -/
def varBlocks : List Nat → List Rat → List (List Rat × Nat)
  | [], _ => []
  | s :: sz, v => (v.take (s * s), s) :: varBlocks sz (v.drop (s * s))

/-! ## csc matrices: the column-wise reading

scipy's `csc_matrix` of shape (nrows, ncols) stores, for every COLUMN `j`, the entries
(row index, value) at the positions `indptr[j] ≤ k < indptr[j+1]`.  `Csc.toDense` is that semantics,
written down directly.  `Csc.read` is the csr matrix with the same three arrays (the transposed
reading); the code runs the same array manipulations on both formats, so every csc function below
is the csr function on the reading — what differs is only how the shape is assembled, exactly as
in the format branches of the code. -/

structure Csc where
  nrows : Nat
  ncols : Nat
  indptr : List Nat
  indices : List Nat
  data : List Rat
deriving DecidableEq, Repr

/-- the csr matrix with the same arrays: shape (ncols, nrows) -/
def Csc.read (C : Csc) : Csr := ⟨C.ncols, C.nrows, C.indptr, C.indices, C.data⟩

/-- the csc matrix with the same arrays as a csr matrix: shape (ncols, nrows) -/
def Csc.ofRead (R : Csr) : Csc := ⟨R.ncols, R.nrows, R.indptr, R.indices, R.data⟩

def Csc.WF (C : Csc) : Prop := C.read.WF

instance (C : Csc) : Decidable C.WF := inferInstanceAs (Decidable C.read.WF)

/-- stored entries (row, value) of column `j` -/
def Csc.colEntries (C : Csc) (j : Nat) : List (Nat × Rat) :=
  ((C.indices.zip C.data).drop (C.indptr.getD j 0)).take (C.indptr.getD (j + 1) 0 - C.indptr.getD j 0)

/-- THE semantics of a csc matrix: `C.toarray()`, entry (i, j) = sum of the values stored in column
    `j` with row index `i`. -/
def Csc.toDense (C : Csc) : List (List Rat) :=
  (List.range C.nrows).map (fun i => (List.range C.ncols).map (fun j => entrySum i (C.colEntries j)))

/-- dense transpose of a matrix with `c` columns (the column count is explicit so that matrices
    without rows keep their shape) -/
def transposeD (M : List (List Rat)) (c : Nat) : List (List Rat) :=
  (List.range c).map (fun j => M.map (fun row => row.getD j 0))

/-- `zero_columns(A, cols)` -/
def zeroColumns (C : Csc) (cols : List Nat) : Csc := Csc.ofRead (zeroLines C.read cols)

/-- `slice_sparse_matrix(A, ind)` for csc `A`: `A[:, ind]` -/
def sliceCols (C : Csc) (ind : List Nat) : Csc := Csc.ofRead (sliceLines C.read ind)

/-- `merge_matrices(A, B, lines, "csc")`: `A[:, lines] = B` -/
def mergeCols (A B : Csc) (lines : List Nat) : Csc := Csc.ofRead (mergeLines A.read B.read lines)

/-- `stack_mat(A, B)` for csc: `hstack` -/
def stackMatCsc (A B : Csc) : Csc := Csc.ofRead (stackMat A.read B.read)

/-- `stack_diag(A, B)` for csc -/
def stackDiagCsc (A B : Csc) : Csc := Csc.ofRead (stackDiag A.read B.read)

/-- `csc_matrix_from_sparse_blocks(blocks)` -/
def cscFromSparseBlocks (bs : List Csc) : Except String Csc :=
  (fromSparseBlocks (bs.map Csc.read)).map Csc.ofRead

/-- `csc_matrix_from_dense_blocks(data, block_size, num_blocks)` -/
def cscFromDenseBlocks (data : List Rat) (bs nb : Nat) : Except String Csc :=
  (fromDenseBlocks data bs nb).map Csc.ofRead

/-! ## boolean masks, sparse_kronecker_product, optimized_compressed_storage -/

/-- `sparse_kronecker_product(A, nd)`: `A` itself for `nd = 1`, else `kron(A, eye(nd))` -/
def sparseKron (A : Csr) (nd : Nat) : Csr := if nd = 1 then A else kronI A nd

/-- the compressed matrix that stores every entry of a dense matrix with `c` columns (reference for
    scipy's format conversions, which are compared on dense output only) -/
def denseToCsr (M : List (List Rat)) (c : Nat) : Csr :=
  ofRows c (M.map (fun row => (List.range c).zip row))

/-- `optimized_compressed_storage(A)`: csc if there are more rows than columns, else csr; the
    conversion itself is scipy's (`tocsc`/`tocsr`) and is represented by `denseToCsr`. -/
def optimizedStorage (A : Csr) : Csr ⊕ Csc :=
  if optimizedIsCsc A.nrows A.ncols then .inr (Csc.ofRead (denseToCsr (transposeD A.toDense A.ncols) A.nrows))
  else .inl (denseToCsr A.toDense A.ncols)

/-! ## copy, sparse_array_to_row_col_data -/

/-- `copy(A)`: a new matrix over the same three arrays (index order untouched) -/
def copyCsr (A : Csr) : Csr := ⟨A.nrows, A.ncols, A.indptr, A.indices, A.data⟩

/-- `sparse_array_to_row_col_data(A, remove_nz)`: the (line, minor index, value) triplets in storage
    order (scipy's `tocoo`: line index `i` repeated `indptr[i+1] - indptr[i]` times); with
    `remove_nz` the explicit zeros are dropped. -/
def toTriplets (A : Csr) (removeNz : Bool) : List (Nat × Nat × Rat) :=
  let lineOf := (List.range A.nrows).flatMap (fun i => List.replicate (A.indptr.getD (i + 1) 0 - A.indptr.getD i 0) i)
  let t := lineOf.zip (A.indices.zip A.data)
  if removeNz then t.filter (fun x => decide (x.2.2 ≠ 0)) else t

/-- value at (i, j) of the matrix given by triplets (duplicates summed) -/
def tripletSum (i j : Nat) : List (Nat × Nat × Rat) → Rat
  | [] => 0
  | t :: l => (if t.1 = i ∧ t.2.1 = j then t.2.2 else 0) + tripletSum i j l

def tripletDense (t : List (Nat × Nat × Rat)) (nrows ncols : Nat) : List (List Rat) :=
  (List.range nrows).map (fun i => (List.range ncols).map (fun j => tripletSum i j t))

end PorepyVerif.C35
