/-
C35 — property theorems (statements only depend on Model.lean; helper lemmas in Lemmas.lean).

Property: row/column slicing, row/column replacement, zeroing, stacking, block construction,
run-length encoding/decoding, index-pointer expansion, block-diagonal index generation and
Kronecker expansion return exactly what the equivalent dense operations return.

Every theorem has the shape  `toDense (f A …) = denseRef (toDense A) …`  (or, for the index helpers,
`f … = spec …` with `spec` the obvious structural recursion), for ALL well-formed inputs.
-/
import PorepyVerif.C35.Lemmas

namespace PorepyVerif.C35

/-! ## index-pointer expansion -/

/-- `expand_index_pointers(lo, hi)` is the concatenation of the ranges `[lo_k, hi_k)` — the loop in
    the docstring — for all integer arrays of equal length (empty and negative-length intervals,
    negative bounds included). -/
theorem expand_index_pointers_eq_ranges (lo hi : List Int) (h : lo.length = hi.length) :
    expandIndexPointers lo hi = .ok (expandSpec lo hi) := by
  have hb : broadcastLoHi lo hi = (lo, hi) := broadcastLoHi_same_length lo hi h
  simp only [expandIndexPointers, hb, h, ne_eq, not_true_eq_false, if_false, expandCore_eq_spec]

/-- … and with numpy broadcasting of a single bound; unequal lengths are the `ValueError`. -/
theorem expand_index_pointers_broadcast (lo hi : List Int) :
    expandIndexPointers lo hi =
      if (broadcastLoHi lo hi).1.length = (broadcastLoHi lo hi).2.length
      then .ok (expandSpec (broadcastLoHi lo hi).1 (broadcastLoHi lo hi).2) else .error "ValueError" := by
  simp only [expandIndexPointers, expandCore_eq_spec]
  split <;> simp_all

example : expandIndexPointers [0, 0, 0] [2, 4, 3] = .ok [0, 1, 0, 1, 2, 3, 0, 1, 2] := by decide +kernel
example : expandIndexPointers [3, -3, 5, 5] [2, -1, 7, 5] = .ok [-3, -2, 5, 6] := by decide +kernel

/-! ## run-length decoding / encoding -/

/-- `rldecode(A, n)` = `np.repeat(A, n)` (counts ≤ 0 contribute nothing), for every value list and
    every count list that is not longer than the values. -/
theorem rldecode_eq_repeat {α} [Inhabited α] (a : List α) (n : List Int) (h : n.length ≤ a.length) :
    rldecode a n = .ok (rldecodeSpec a n) := by
  have hidx := rldecode_idx n
  simp only at hidx
  have hall : (repeatSpec (whereTrue (n.map (fun c => decide (0 < c)))) (posCounts n)).any
      (fun k => decide (a.length ≤ k)) = false := by
    rw [List.any_eq_false]
    intro k hk
    have hm := mem_repeatSpec _ _ k hk
    have := trueIdxFrom_bounds 0 _ k hm
    simp only [List.length_map] at this
    simp only [decide_eq_true_eq]; omega
  simp only [rldecode, hidx, hall, gather_repeatSpec, Bool.false_eq_true, if_false]
  simp only [whereTrue]
  rw [repeatSpec_pos_eq_spec a n a 0 rfl h]

example : rldecode [1, 2, 3] [2, 0, 1] = .ok [1, 1, 3] := by decide +kernel

end PorepyVerif.C35
