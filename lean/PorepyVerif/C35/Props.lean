import PorepyVerif.C35.Lemmas

namespace PorepyVerif.C35

end PorepyVerif.C35
