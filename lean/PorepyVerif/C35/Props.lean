/-
C35 — property theorems (statements only depend on Model.lean; helper lemmas in Lemmas.lean).

Property: row/column slicing, row/column replacement, zeroing, stacking, block construction,
run-length encoding/decoding, index-pointer expansion, block-diagonal index generation and
Kronecker expansion return exactly what the equivalent dense operations return.

Every theorem has the shape  `toDense (f A …) = denseRef (toDense A) …`  (or, for the index helpers,
`f … = spec …` with `spec` the obvious structural recursion), for ALL well-formed inputs.
-/
import PorepyVerif.C35.Lemmas

namespace PorepyVerif.C35

/-! ## non-vacuity of the well-formedness predicate

`Csr.WF` is decidable; the driver evaluates it on every matrix the generator produces (`wf_in`) and
the harness fails if it is ever false.  Concrete witnesses: an empty row, unsorted and duplicate
column indices, an explicit zero; zero-size matrices. -/

example : (⟨3, 3, [0, 2, 2, 5], [2, 0, 1, 1, 0], [1, 2, 3, 4, 0]⟩ : Csr).WF := by decide +kernel
example : (⟨0, 3, [0], [], []⟩ : Csr).WF ∧ (⟨2, 0, [0, 0, 0], [], []⟩ : Csr).WF := by decide +kernel
example : (⟨3, 3, [0, 2, 2, 5], [2, 0, 1, 1, 0], [1, 2, 3, 4, 0]⟩ : Csr).toDense
    = [[2, 0, 1], [0, 0, 0], [0, 7, 0]] := by decide +kernel
/-- the hypotheses of `merge_eq_row_replacement` hold for an unsorted line list -/
example : (⟨3, 3, [0, 2, 2, 4], [0, 2, 0, 1], [1, 2, 3, 4]⟩ : Csr).WF ∧ (⟨2, 3, [0, 1, 3], [1, 0, 2], [7, 8, 9]⟩ : Csr).WF ∧
    [1, 0].length = 2 ∧ [1, 0].Nodup ∧ (∀ l ∈ [1, 0], l < 3) := by decide +kernel
/-- not well formed: decreasing `indptr`, column index out of range -/
example : ¬ (⟨2, 2, [0, 2, 1], [0, 1], [1, 2]⟩ : Csr).WF ∧ ¬ (⟨1, 2, [0, 1], [2], [1]⟩ : Csr).WF := by decide +kernel

/-! ## index-pointer expansion -/

/-- `expand_index_pointers(lo, hi)` is the concatenation of the ranges `[lo_k, hi_k)` — the loop in
    the docstring — for all integer arrays of equal length (empty and negative-length intervals,
    negative bounds included). -/
theorem expand_index_pointers_eq_ranges (lo hi : List Int) (h : lo.length = hi.length) :
    expandIndexPointers lo hi = .ok (expandSpec lo hi) :=
  expand_index_pointers_same_length lo hi h

/-- … and with numpy broadcasting of a single bound; unequal lengths are the `ValueError`. -/
theorem expand_index_pointers_broadcast (lo hi : List Int) :
    expandIndexPointers lo hi =
      if (broadcastLoHi lo hi).1.length = (broadcastLoHi lo hi).2.length
      then .ok (expandSpec (broadcastLoHi lo hi).1 (broadcastLoHi lo hi).2) else .error "ValueError" := by
  simp only [expandIndexPointers, expandCore_eq_spec]
  split <;> simp_all

example : expandIndexPointers [0, 0, 0] [2, 4, 3] = .ok [0, 1, 0, 1, 2, 3, 0, 1, 2] := by decide +kernel
example : expandIndexPointers [3, -3, 5, 5] [2, -1, 7, 5] = .ok [-3, -2, 5, 6] := by decide +kernel

/-! ## run-length decoding / encoding -/

/-- `rldecode(A, n)` = `np.repeat(A, n)` (counts ≤ 0 contribute nothing), for every value list and
    every count list that is not longer than the values. -/
theorem rldecode_eq_repeat {α} [Inhabited α] (a : List α) (n : List Int) (h : n.length ≤ a.length) :
    rldecode a n = .ok (rldecodeSpec a n) := rldecode_eq_repeat' a n h

example : rldecode [1, 2, 3] [2, 0, 1] = .ok [1, 1, 3] := by decide +kernel

/-- `rlencode(A)` returns the maximal runs of equal neighbouring columns: values and lengths. -/
theorem rlencode_eq_runs {α} [DecidableEq α] [Inhabited α] (a : List α) (h : a ≠ []) :
    rlencode a = .ok ((rleSpec a).map (·.1), (rleSpec a).map (fun p => (p.2 : Int))) := by
  obtain ⟨h1, h2⟩ := rle_main a a 0 (-1) h rfl
  have hl : a.length ≠ 0 := fun e => h (List.eq_nil_of_length_eq_zero e)
  have e : rleIdx 0 a = (trueIdxFrom 0 (neighbourDiff a)).map (fun (k : Nat) => (k : Int)) ++ [(a.length : Int) - 1] := by
    simp [rleIdx]
  rw [e] at h1 h2
  simp only [rlencode, hl, if_false, h1, h2]
  congr 2
  cases hs : (rleSpec a).map (fun p => (p.2 : Int)) with
  | nil => rfl
  | cons c cs => simp [bumpI]

/-- The runs returned by `rlencode` are maximal (neighbouring values differ), non-empty, and decode
    back to the input. -/
theorem rleSpec_characterisation {α} [DecidableEq α] (a : List α) :
    (neighbourDiff ((rleSpec a).map (·.1))).all id = true ∧ (∀ p ∈ rleSpec a, 1 ≤ p.2) ∧
    rldecodeSpec ((rleSpec a).map (·.1)) ((rleSpec a).map (fun p => (p.2 : Int))) = a :=
  ⟨(rleSpec_maximal a).1, (rleSpec_maximal a).2, rldecodeSpec_rleSpec a⟩

/-- Round trip on the real algorithms: `rldecode(*rlencode(A)) = A` for every non-empty `A`. -/
theorem rldecode_rlencode {α} [DecidableEq α] [Inhabited α] (a : List α) (h : a ≠ []) :
    ∃ v c, rlencode a = .ok (v, c) ∧ rldecode v c = .ok a := by
  refine ⟨_, _, rlencode_eq_runs a h, ?_⟩
  rw [rldecode_eq_repeat _ _ (by simp), rldecodeSpec_rleSpec]

example : rlencode [1, 1, 2, 2, 2, 1] = .ok ([1, 2, 1], [2, 3, 1]) := by decide +kernel
example : rlencode ([] : List Int) = .error "IndexError" := by decide +kernel

/-! ## stacking -/

/-- `stack_mat(A, B)` (csr: `vstack`, csc: `hstack` of the transposed reading): the dense matrix of
    the result is the dense matrix of `A` followed by the lines of `B`; the result is well formed. -/
theorem stack_mat_eq_vstack (A B : Csr) (hA : A.WF) (hB : B.WF) (hc : A.ncols = B.ncols) :
    (stackMat A B).toDense = A.toDense ++ B.toDense ∧ (stackMat A B).WF := by
  obtain ⟨RA, eA, okA, -⟩ := WF_cases A hA
  obtain ⟨RB, eB, okB, -⟩ := WF_cases B hB
  rw [← hc] at eB okB
  generalize A.ncols = nc at *
  subst eA eB
  rw [stackMat_ofRows, toDense_ofRows, toDense_ofRows, toDense_ofRows, List.map_append]
  exact ⟨rfl, WF_ofRows _ _ (RowsOk_append okA okB)⟩

/-- `stack_diag(A, B)` = `[[A, 0], [0, B]]` densely, including the shortcut `B.shape == (0, 0)` of the
    code and every `B` with no lines but a non-zero minor dimension (repaired in /repo, 962d765f1). -/
theorem stack_diag_eq_block_diag (A B : Csr) (hA : A.WF) (hB : B.WF) :
    (stackDiag A B).toDense = diagDense A.toDense A.ncols B.toDense B.ncols ∧ (stackDiag A B).WF := by
  obtain ⟨RA, eA, okA, -⟩ := WF_cases A hA
  obtain ⟨RB, eB, okB, -⟩ := WF_cases B hB
  generalize A.ncols = ncA at *
  generalize B.ncols = ncB at *
  subst eA eB
  rw [stackDiag_ofRows, toDense_ofRows, toDense_ofRows, toDense_ofRows, List.map_append]
  refine ⟨?_, WF_ofRows _ _ (RowsOk_append (RowsOk_mono okA (Nat.le_add_right _ _)) (RowsOk_shift okB))⟩
  simp only [diagDense, List.map_map]
  congr 1
  · apply List.map_congr_left
    intro r hr
    exact denseRow_add_left ncA ncB r (okA r hr)
  · apply List.map_congr_left
    intro r _
    exact denseRow_add_right ncA ncB r

example : (stackDiag ⟨1, 2, [0, 1], [1], [5]⟩ ⟨2, 1, [0, 0, 1], [0], [7]⟩).toDense
    = [[0, 5, 0], [0, 0, 0], [0, 0, 7]] := by decide +kernel

/-! ## slicing -/

/-- `slice_sparse_matrix(A, ind)`: line `k` of the result is line `ind[k]` of `A` — dense fancy
    indexing `A[ind, :]` — for every index list (unsorted, repeated, empty) in range. -/
theorem slice_eq_dense_index (A : Csr) (hA : A.WF) (ind : List Nat) (hi : ∀ i ∈ ind, i < A.nrows) :
    (sliceLines A ind).toDense = sliceDense A.toDense A.ncols ind ∧ (sliceLines A ind).WF ∧
    (sliceLines A ind).rows = ind.map (fun i => A.rows.getD i []) := by
  obtain ⟨R, eA, okA, -⟩ := WF_cases A hA
  have hn : A.nrows = R.length := by rw [eA]; rfl
  rw [hn] at hi
  generalize A.ncols = nc at *
  subst eA
  have hok : RowsOk nc (ind.map (fun i => R.getD i [])) := by
    intro r hr e he
    obtain ⟨i, hi', rfl⟩ := List.mem_map.mp hr
    have hlt := hi i hi'
    have : R.getD i [] ∈ R := by
      simp only [List.getD_eq_getElem?_getD, List.getElem?_eq_getElem hlt, Option.getD_some]
      exact List.getElem_mem hlt
    exact okA _ this e he
  rw [sliceLines_ofRows nc R ind hi, toDense_ofRows, toDense_ofRows, rows_ofRows, rows_ofRows]
  refine ⟨?_, WF_ofRows _ _ hok, rfl⟩
  simp only [sliceDense, List.map_map]
  apply List.map_congr_left
  intro i hi'
  exact (getD_map_denseRow nc R i (hi i hi')).symm

/-- boolean masks: `slice_sparse_matrix(A, mask)` slices with `np.where(mask)[0]`, which are the
    positions of the `True` entries, in increasing order and in range. -/
theorem whereTrue_spec (mask : List Bool) :
    ∀ i ∈ whereTrue mask, i < mask.length := by
  intro i hi
  have := trueIdxFrom_bounds 0 mask i hi
  omega

/-- `slice_indices(A, ind)`: the column indices stored in the lines `ind`, line after line. -/
theorem slice_indices_eq (A : Csr) (hA : A.WF) (ind : List Nat) (hi : ∀ i ∈ ind, i < A.nrows) :
    (sliceIndices A ind).1 = (ind.map (fun i => (A.rows.getD i []).map (·.1))).flatten := by
  obtain ⟨R, eA, -, -⟩ := WF_cases A hA
  have hn : A.nrows = R.length := by rw [eA]; rfl
  rw [hn] at hi
  generalize A.ncols = nc at *
  subst eA
  rw [sliceIndices_ofRows nc R ind hi, rows_ofRows, List.map_flatten, List.map_map]
  rfl

/-- … and `array_ind` (second output of `slice_indices`) lists the storage positions
    `indptr[i] … indptr[i+1]-1` of the lines, line after line (any matrix, any lines). -/
theorem slice_indices_array_ind (A : Csr) (ind : List Nat) :
    (sliceIndices A ind).2 = ind.flatMap (fun i =>
      List.range' (A.indptr.getD i 0) (A.indptr.getD (i + 1) 0 - A.indptr.getD i 0)) :=
  lineIdx_eq A ind

/-- scalar `slice_ind`: the column indices stored in line `i` and the slice `indptr[i]:indptr[i+1]`. -/
theorem slice_indices_int_eq (A : Csr) (hA : A.WF) (i : Nat) :
    sliceIndicesInt A i = ((A.rowEntries i).map (·.1), (A.indptr.getD i 0, A.indptr.getD (i + 1) 0)) := by
  obtain ⟨-, -, -, -, h5, -⟩ := WF_unpack A hA
  simp only [sliceIndicesInt, Csr.rowEntries, Prod.mk.injEq, and_true]
  rw [List.map_take, List.map_drop, List.map_fst_zip (by omega)]

example : (sliceLines ⟨3, 3, [0, 2, 2, 4], [0, 2, 0, 1], [1, 2, 3, 4]⟩ [2, 2, 0]).toDense
    = [[3, 4, 0], [3, 4, 0], [1, 0, 2]] := by decide +kernel

/-! ## zeroing -/

/-- `zero_rows(A, rows)` / `zero_columns`: densely `A[rows, :] = 0`; the sparsity structure
    (`indptr`, `indices`) is untouched; any index list (unsorted, repeated, empty) in range. -/
theorem zero_rows_eq_dense (A : Csr) (hA : A.WF) (rows : List Nat) (hi : ∀ i ∈ rows, i < A.nrows) :
    (zeroLines A rows).toDense = zeroRowsDense A.toDense rows ∧
    (zeroLines A rows).indptr = A.indptr ∧ (zeroLines A rows).indices = A.indices ∧ (zeroLines A rows).WF := by
  refine ⟨?_, rfl, rfl, ?_⟩
  · obtain ⟨R, eA, okA, -⟩ := WF_cases A hA
    have hn : A.nrows = R.length := by rw [eA]; rfl
    rw [hn] at hi
    generalize A.ncols = nc at *
    subst eA
    rw [zeroLines_ofRows nc R rows hi, toDense_ofRows, toDense_ofRows, zeroRowsR_dense nc R rows hi]
  · have hlen : ∀ (x : List Rat) (idx : List Nat) (v : Rat), (scatterConst x idx v).length = x.length := by
      intro x idx v
      induction idx generalizing x with
      | nil => rfl
      | cons i is ih => simp [scatterConst, ih]
    have hw : (zeroLines A rows).wfb = A.wfb := by simp only [Csr.wfb, zeroLines, hlen]; rfl
    show (zeroLines A rows).wfb = true
    rw [hw]; exact hA

example : (zeroLines ⟨3, 3, [0, 2, 2, 4], [0, 2, 0, 1], [1, 2, 3, 4]⟩ [2, 2, 1]).toDense
    = [[1, 0, 2], [0, 0, 0], [0, 0, 0]] := by decide +kernel

/-! ## row / column replacement -/

/-- `merge_matrices(A, B, lines, fmt)`: densely `A[lines, :] = B` (csc: `A[:, lines] = B` on the
    transposed reading), for EVERY duplicate-free line list in range — sorted or not — and the
    argument checks pass; the result is well formed.  (Current /repo: unsorted lines are sorted and
    `B` is permuted accordingly; the old failing input is `corpus/C35/merge-unsorted-lines-*.json`.) -/
theorem merge_eq_row_replacement (A B : Csr) (lines : List Nat) (hA : A.WF) (hB : B.WF)
    (hc : A.ncols = B.ncols) (hl : lines.length = B.nrows) (hnd : lines.Nodup)
    (hlt : ∀ l ∈ lines, l < A.nrows) :
    mergeCheck A B lines = none ∧
    (mergeLines A B lines).toDense = replaceRows A.toDense lines B.toDense ∧
    (mergeLines A B lines).WF := by
  refine ⟨by simp [mergeCheck, hc, hl, hnd], ?_⟩
  obtain ⟨RA, eA, okA, -⟩ := WF_cases A hA
  obtain ⟨RB, eB, okB, -⟩ := WF_cases B hB
  have hnA : A.nrows = RA.length := by rw [eA]; rfl
  have hnB : B.nrows = RB.length := by rw [eB]; rfl
  rw [hnA] at hlt
  rw [hnB] at hl
  rw [← hc] at eB okB
  generalize A.ncols = nc at *
  subst eA eB
  rw [mergeLines_ofRows nc RA RB lines hnd hlt hl, toDense_ofRows, toDense_ofRows, toDense_ofRows,
    ← replaceRows_eq_rows2 lines RA RB hnd hlt hl, replaceRows_map]
  exact ⟨rfl, WF_ofRows _ _ (by
    rw [replaceRows_eq_rows2 lines RA RB hnd hlt hl]; exact RowsOk_rows2 nc RA RB lines okA okB)⟩

/-- what `A[lines, :] = B` means entry-wise (duplicate-free `lines`): line `lines[k]` is line `k`
    of `B`, every other line is unchanged. -/
theorem replaceRows_spec (M N : List (List Rat)) (lines : List Nat) (hnd : lines.Nodup)
    (hlt : ∀ l ∈ lines, l < M.length) (hl : lines.length = N.length) (j : Nat) (hj : j < M.length) :
    (replaceRows M lines N).getD j [] = ((lines.zip N).lookup j).getD (M.getD j []) := by
  have h := replaceRows_eq_map lines M N hnd hlt hl
  rw [h]
  simp [List.getD_eq_getElem?_getD, hj]

example : (mergeLines ⟨3, 3, [0, 2, 2, 4], [0, 2, 0, 1], [1, 2, 3, 4]⟩ ⟨2, 3, [0, 1, 3], [1, 0, 2], [7, 8, 9]⟩ [1, 0]).toDense
    = [[8, 0, 9], [0, 7, 0], [3, 4, 0]] := by decide +kernel

/-! ## block-diagonal construction from sparse blocks -/

/-- `csr_matrix_from_sparse_blocks(blocks)` / `csc_…`: densely the block-diagonal matrix of the
    blocks (`sps.block_diag`), for any non-empty list of well-formed blocks — blocks with zero
    rows and/or zero columns included; an empty list is the `ValueError` of `np.concatenate`. -/
theorem from_sparse_blocks_eq_block_diag (bs : List Csr) (hbs : ∀ b ∈ bs, b.WF) (hne : bs ≠ []) :
    ∃ C, fromSparseBlocks bs = .ok C ∧
      C.toDense = (blockDiagDense (bs.map (fun b => (b.toDense, b.ncols)))).1 ∧
      C.ncols = (blockDiagDense (bs.map (fun b => (b.toDense, b.ncols)))).2 ∧ C.WF := by
  match bs, hne with
  | [b], _ =>
    refine ⟨b, rfl, ?_, ?_, hbs b List.mem_cons_self⟩
    · simp [blockDiagDense, diagDense]
    · simp [blockDiagDense]
  | b1 :: b2 :: bs', _ =>
    generalize hbl : b1 :: b2 :: bs' = bl at hbs
    let Rs := bl.map (fun b => (b.ncols, b.rows))
    have hRs : bl = Rs.map (fun p => ofRows p.1 p.2) := by
      simp only [Rs, List.map_map]
      conv => lhs; rw [← List.map_id bl]
      apply List.map_congr_left
      intro b hb
      exact (WF_eq_ofRows b (hbs b hb)).1
    have hok : ∀ p ∈ Rs, RowsOk p.1 p.2 := by
      intro p hp
      obtain ⟨b, hb, rfl⟩ := List.mem_map.mp hp
      exact (WF_eq_ofRows b (hbs b hb)).2
    have hC : fromSparseBlocks bl = .ok (ofRows (sumN (Rs.map (·.1))) (blkRows 0 Rs)) := by
      rw [← hbl]
      simp only [fromSparseBlocks]
      rw [hbl, hRs, blockArrays_ofRows Rs 0 0]
      simp only [ofRows, ← ptrsFrom_eq_cons, length_blkRows, List.map_map]
      congr 3
    refine ⟨_, hC, ?_, ?_, ?_⟩
    · obtain ⟨h1, h2⟩ := blkRows_dense Rs hok
      rw [toDense_ofRows, h1]
      simp only [Rs, List.map_map, Function.comp_def, Csr.toDense]
    · obtain ⟨h1, h2⟩ := blkRows_dense Rs hok
      show (ofRows (sumN (Rs.map (·.1))) (blkRows 0 Rs)).ncols = _
      simp only [ofRows]
      rw [← h2]
      simp only [Rs, List.map_map, Function.comp_def, Csr.toDense]
    · have := RowsOk_blkRows Rs 0 hok
      rw [Nat.zero_add] at this
      exact WF_ofRows _ _ this

theorem from_sparse_blocks_empty : fromSparseBlocks [] = .error "ValueError" := rfl

/-! ## block-diagonal construction from dense data -/

/-- `csr_matrix_from_dense_blocks(data, block_size, num_blocks)` (csc: transposed reading, i.e. the
    data are read column-wise): densely the block diagonal of the `num_blocks` square blocks obtained
    by cutting `data` into chunks of `block_size²` values, each chunk row-major; well formed.
    `num_blocks = 0` (empty matrix) and `block_size = 1` (the code's special branch) included. -/
theorem from_dense_blocks_eq_block_diag (data : List Rat) (bs nb : Nat) (hbs : 1 ≤ bs)
    (hd : data.length = bs * bs * nb) :
    ∃ C, fromDenseBlocks data bs nb = .ok C ∧
      C.toDense = (blockDiagDense ((chunks (bs * bs) nb data).map (fun d => (chunks bs bs d, bs)))).1 ∧
      C.nrows = nb * bs ∧ C.ncols = nb * bs ∧ C.WF := by
  obtain ⟨h1, h2⟩ := fromDenseBlocks_dense data bs nb hd
  refine ⟨_, fromDenseBlocks_eq_ofRows data bs nb hbs hd, h1, ?_, rfl, WF_ofRows _ _ h2⟩
  show (dbRows bs 0 nb data).length = nb * bs
  exact (dbRows_spec bs nb 0 data hd).2.2.2

/-- a data array of the wrong size is the documented `ValueError` -/
theorem from_dense_blocks_size_error (data : List Rat) (bs nb : Nat) (hd : data.length ≠ bs * bs * nb) :
    fromDenseBlocks data bs nb = .error "ValueError" := by
  simp [fromDenseBlocks, hd]

example : (fromDenseBlocks [1, 2, 3, 4, 5, 6, 7, 8] 2 2).map Csr.toDense
    = .ok [[1, 2, 0, 0], [3, 4, 0, 0], [0, 0, 5, 6], [0, 0, 7, 8]] := by decide +kernel

/-- `block_diag_matrix(vals, sz)` (blocks of different sizes `sz_k`, zero sizes allowed): densely the
    block diagonal of the blocks cut from `vals` (`sz_k²` values each, row-major); built by the code
    from `block_diag_index(sz)` and `rldecode(sz, sz)`. -/
theorem block_diag_matrix_eq_block_diag (vals : List Rat) (sz : List Nat) (hv : vals.length = sumSq sz) :
    ∃ C, blockDiagMatrix vals sz = .ok C ∧
      C.toDense = (blockDiagDense ((varBlocks sz vals).map (fun p => (chunks p.2 p.2 p.1, p.2)))).1 ∧ C.WF := by
  obtain ⟨h1, h2, h3⟩ := blockDiagMatrix_eq vals sz hv
  exact ⟨_, h1, h2, WF_ofRows _ _ h3⟩

example : (blockDiagMatrix [0, 1, 2, 3, 4] [1, 0, 2]).map Csr.toDense = .ok [[0, 0, 0], [0, 1, 2], [0, 3, 4]] := by
  decide +kernel

/-! ## Kronecker expansion, index expansion -/

/-- `sps.kron(A, eye(nd))` in compressed form has the dense Kronecker product with the identity as
    its dense matrix (every `A`, well formed or not; `nd = 0` gives the empty matrix). -/
theorem kron_identity_dense (A : Csr) (nd : Nat) : (kronI A nd).toDense = kronDense A.toDense nd :=
  kronI_dense A nd

/-- `nd = 1` (the code returns the matrix unchanged): the Kronecker product with the 1×1 identity
    is the matrix itself. -/
theorem kron_one_dense (M : List (List Rat)) : kronDense M 1 = M := by
  induction M with
  | nil => rfl
  | cons row M ih =>
    simp only [kronDense, List.flatMap_cons] at ih ⊢
    rw [ih]
    simp [List.range_succ]

/-- `expand_indices_nd(ind, nd, "F")` lists `nd*i + d` for every index `i` and `d < nd`, index by
    index (the rows of `kron(·, I_nd)` that belong to the rows `ind`); `"C"` lists them `d` by `d`. -/
theorem expand_indices_nd_eq (ind : List Int) (nd : Nat) :
    expandIndicesNd ind nd true = expandNdSpecF ind nd ∧
    (nd ≠ 1 → expandIndicesNd ind nd false = expandNdSpecC ind nd) :=
  ⟨expandIndicesNd_F ind nd, expandIndicesNd_C ind nd⟩

/-- `expand_indices_add_increment(x, n, incr)` lists `x_k + incr*d`, `d < n`, entry by entry. -/
theorem expand_indices_add_increment_eq (x : List Int) (n : Nat) (incr : Int) :
    expandIndicesIncr x n incr = expandIncrSpec x n incr := expandIndicesIncr_eq x n incr

example : expandIndicesNd [0, 1, 3] 2 true = [0, 1, 2, 3, 6, 7] := by decide +kernel
example : (kronI ⟨1, 2, [0, 2], [1, 0], [5, 7]⟩ 2).toDense = [[7, 0, 5, 0], [0, 7, 0, 5]] := by decide +kernel

/-! ## block-diagonal index generation -/

/-- `block_diag_index(m)` (square blocks): the row coordinates of the entries of the block diagonal,
    block after block and column after column inside a block. -/
theorem block_diag_index_square (m : List Nat) :
    blockDiagIndexSq 0 m = (bdiSpec 0 0 m m).map (·.1) := blockDiagIndexSq_eq 0 m

/-- `block_diag_index(m, n)` (rectangular blocks `m_k × n_k`, zero sizes allowed): the (row, column)
    coordinates of all entries of the block diagonal, block after block, column after column —
    computed by the code through `rldecode` and `expand_index_pointers`. -/
theorem block_diag_index_eq_coordinates (m n : List Nat) (h : m.length = n.length) :
    blockDiagIndex (m.map (fun (c : Nat) => (c : Int))) (n.map (fun (c : Nat) => (c : Int)))
      = .ok ((bdiSpec 0 0 m n).map (fun p => ((p.1 : Nat) : Int)),
             (bdiSpec 0 0 m n).map (fun p => ((p.2 : Nat) : Int))) :=
  blockDiagIndex_eq m n h

example : blockDiagIndex [2, 0, 1] [1, 0, 2] = .ok ([0, 1, 2, 2], [0, 0, 1, 2]) := by decide +kernel
example : bdiSpec 0 0 [2, 3] [1, 2] = [(0, 0), (1, 0), (2, 1), (3, 1), (4, 1), (2, 2), (3, 2), (4, 2)] := by
  decide +kernel

/-! ## the csc side

`Csc.toDense` is scipy's column-wise semantics written down directly.  `csc_eq_transposed_reading`
shows that it is the transpose of the row-wise semantics of the csr matrix with the same arrays, so
every csr theorem above transfers: the csc result is the transpose of the dense row operation
applied to the transpose (`transposeD M c` = transpose of a matrix with `c` columns).  For stacking
the transposes are eliminated (`hstack`, block diagonal). -/

/-- one generic lemma: column-wise reading = transpose of the row-wise reading of the same arrays -/
theorem csc_eq_transposed_reading (C : Csc) :
    C.toDense = transposeD C.read.toDense C.nrows ∧ C.read.toDense = transposeD C.toDense C.ncols :=
  ⟨csc_toDense_eq_transpose C, read_toDense C⟩

/-- transposing twice is the identity on r × c matrices (zero sizes included) -/
theorem transpose_transpose (M : List (List Rat)) (r c : Nat) (hr : M.length = r)
    (hc : ∀ row ∈ M, row.length = c) : transposeD (transposeD M c) r = M :=
  transposeD_involutive M r c hr hc

/-- `zero_columns(A, cols)`: `A[:, cols] = 0` (as the transposed row statement); structure kept -/
theorem zero_columns_eq_dense (C : Csc) (hC : C.WF) (cols : List Nat) (hi : ∀ j ∈ cols, j < C.ncols) :
    (zeroColumns C cols).toDense = transposeD (zeroRowsDense (transposeD C.toDense C.ncols) cols) C.nrows ∧
    (zeroColumns C cols).indptr = C.indptr ∧ (zeroColumns C cols).indices = C.indices ∧ (zeroColumns C cols).WF := by
  obtain ⟨h1, _, _, h4⟩ := zero_rows_eq_dense C.read hC cols hi
  refine ⟨?_, rfl, rfl, h4⟩
  rw [csc_toDense_eq_transpose, ← read_toDense]
  show transposeD (zeroLines C.read cols).toDense C.nrows = _
  rw [h1]

/-- `slice_sparse_matrix(A, ind)` for csc `A`: `A[:, ind]` -/
theorem slice_columns_eq_dense_index (C : Csc) (hC : C.WF) (ind : List Nat) (hi : ∀ j ∈ ind, j < C.ncols) :
    (sliceCols C ind).toDense = transposeD (sliceDense (transposeD C.toDense C.ncols) C.nrows ind) C.nrows ∧
    (sliceCols C ind).WF ∧ (sliceCols C ind).nrows = C.nrows ∧ (sliceCols C ind).ncols = ind.length := by
  obtain ⟨h1, h2, _⟩ := slice_eq_dense_index C.read hC ind hi
  refine ⟨?_, h2, rfl, rfl⟩
  rw [csc_toDense_eq_transpose, ← read_toDense]
  show transposeD (sliceLines C.read ind).toDense C.nrows = _
  rw [h1]
  rfl

/-- `merge_matrices(A, B, lines, "csc")`: `A[:, lines] = B` -/
theorem merge_columns_eq_replacement (A B : Csc) (lines : List Nat) (hA : A.WF) (hB : B.WF)
    (hr : A.nrows = B.nrows) (hl : lines.length = B.ncols) (hnd : lines.Nodup) (hlt : ∀ l ∈ lines, l < A.ncols) :
    (mergeCols A B lines).toDense
      = transposeD (replaceRows (transposeD A.toDense A.ncols) lines (transposeD B.toDense B.ncols)) A.nrows ∧
    (mergeCols A B lines).WF := by
  obtain ⟨_, h2, h3⟩ := merge_eq_row_replacement A.read B.read lines hA hB hr hl hnd hlt
  refine ⟨?_, h3⟩
  rw [csc_toDense_eq_transpose, ← read_toDense, ← read_toDense]
  have hn : (mergeLines A.read B.read lines).ncols = A.nrows := by
    unfold mergeLines
    split <;> rfl
  show transposeD (mergeLines A.read B.read lines).toDense (mergeLines A.read B.read lines).ncols = _
  rw [h2, hn]

/-- `stack_mat(A, B)` for csc is `hstack`: every row of `A` followed by the same row of `B` -/
theorem stack_mat_csc_eq_hstack (A B : Csc) (hA : A.WF) (hB : B.WF) (hr : A.nrows = B.nrows) :
    (stackMatCsc A B).toDense = List.zipWith (· ++ ·) A.toDense B.toDense ∧ (stackMatCsc A B).WF := by
  obtain ⟨h1, h2⟩ := stack_mat_eq_vstack A.read B.read hA hB hr
  refine ⟨?_, h2⟩
  rw [csc_toDense_eq_transpose]
  have hn : (stackMatCsc A B).nrows = A.nrows := by
    show (stackMat A.read B.read).ncols = A.nrows
    unfold stackMat
    split <;> rfl
  rw [hn]
  show transposeD (stackMat A.read B.read).toDense A.nrows = _
  rw [h1, transposeD_append, csc_toDense_eq_transpose A, csc_toDense_eq_transpose B, hr]

/-- `stack_diag(A, B)` for csc: the same dense block diagonal `[[A, 0], [0, B]]` -/
theorem stack_diag_csc_eq_block_diag (A B : Csc) (hA : A.WF) (hB : B.WF) :
    (stackDiagCsc A B).toDense = diagDense A.toDense A.ncols B.toDense B.ncols ∧ (stackDiagCsc A B).WF := by
  obtain ⟨h1, h2⟩ := stack_diag_eq_block_diag A.read B.read hA hB
  refine ⟨?_, h2⟩
  rw [csc_toDense_eq_transpose]
  have hn : (stackDiagCsc A B).nrows = A.nrows + B.nrows := by
    show (stackDiag A.read B.read).ncols = A.nrows + B.nrows
    unfold stackDiag
    split
    · next h =>
      have : B.nrows = 0 := h.2
      show A.nrows = A.nrows + B.nrows
      omega
    · rfl
  rw [hn]
  show transposeD (stackDiag A.read B.read).toDense (A.nrows + B.nrows) = _
  rw [h1]
  show transposeD (diagDense A.read.toDense A.nrows B.read.toDense B.nrows) (A.nrows + B.nrows) = _
  have ht := transposeD_diagDense A.read.toDense B.read.toDense A.nrows B.nrows (length_row_toDense A.read)
  rw [ht, length_toDense, length_toDense, ← csc_toDense_eq_transpose, ← csc_toDense_eq_transpose]
  rfl

/-- `csc_matrix_from_sparse_blocks(blocks)`: the transposed statement of the csr theorem -/
theorem csc_from_sparse_blocks_eq_block_diag (bs : List Csc) (hbs : ∀ b ∈ bs, b.WF) (hne : bs ≠ []) :
    ∃ C, cscFromSparseBlocks bs = .ok C ∧
      C.toDense = transposeD
        (blockDiagDense (bs.map (fun b => (transposeD b.toDense b.ncols, b.nrows)))).1 C.nrows ∧ C.WF := by
  obtain ⟨R, h1, h2, _, h4⟩ := from_sparse_blocks_eq_block_diag (bs.map Csc.read)
    (by intro b hb; obtain ⟨c, hc, rfl⟩ := List.mem_map.mp hb; exact hbs c hc) (by simpa using hne)
  refine ⟨Csc.ofRead R, by simp [cscFromSparseBlocks, h1, Except.map], ?_, h4⟩
  rw [csc_toDense_eq_transpose]
  show transposeD R.toDense R.ncols = _
  rw [h2, List.map_map]
  congr 3
  apply List.map_congr_left
  intro b _
  simp only [Function.comp, read_toDense]
  rfl

/-- `csc_matrix_from_dense_blocks(data, block_size, num_blocks)`: each block is filled column-wise,
    i.e. the transposed statement of the csr theorem -/
theorem csc_from_dense_blocks_eq_block_diag (data : List Rat) (bs nb : Nat) (hbs : 1 ≤ bs)
    (hd : data.length = bs * bs * nb) :
    ∃ C, cscFromDenseBlocks data bs nb = .ok C ∧
      C.toDense = transposeD
        (blockDiagDense ((chunks (bs * bs) nb data).map (fun d => (chunks bs bs d, bs)))).1 (nb * bs) ∧ C.WF := by
  obtain ⟨R, h1, h2, _, h4, h5⟩ := from_dense_blocks_eq_block_diag data bs nb hbs hd
  refine ⟨Csc.ofRead R, by simp [cscFromDenseBlocks, h1, Except.map], ?_, h5⟩
  rw [csc_toDense_eq_transpose]
  show transposeD R.toDense R.ncols = _
  rw [h2, h4]

example : (⟨2, 3, [0, 1, 1, 3], [1, 1, 0], [5, 7, 9]⟩ : Csc).toDense = [[0, 0, 9], [5, 0, 7]] := by decide +kernel
example : (stackMatCsc ⟨2, 1, [0, 1], [1], [5]⟩ ⟨2, 2, [0, 1, 2], [0, 1], [7, 9]⟩).toDense = [[0, 7, 0], [5, 0, 9]] := by
  decide +kernel

/-! ## boolean masks, sparse_kronecker_product, optimized_compressed_storage -/

/-- boolean `ind`: `slice_sparse_matrix(A, mask)` keeps exactly the lines whose mask entry is `True`
    (`A[mask, :]`), in order. -/
theorem slice_mask_eq_dense_mask (A : Csr) (hA : A.WF) (mask : List Bool) (hm : mask.length = A.nrows) :
    (sliceLines A (whereTrue mask)).toDense = maskSel A.toDense mask := by
  have hlt : ∀ i ∈ whereTrue mask, i < A.nrows := by
    intro i hi; rw [← hm]; exact whereTrue_spec mask i hi
  obtain ⟨h1, _, _⟩ := slice_eq_dense_index A hA (whereTrue mask) hlt
  rw [h1, sliceDense, whereTrue]
  exact map_getD_trueIdx A.toDense _ mask A.toDense 0 rfl (by rw [length_toDense, hm]; exact Nat.le_refl _)

/-- boolean `slice_ind` of `slice_indices`: `IndexError` unless there is one mask entry per line,
    otherwise the array version on `np.where(mask)[0]`. -/
theorem slice_indices_mask_eq (A : Csr) (mask : List Bool) :
    sliceIndicesMask A mask =
      if mask.length = A.indptr.length - 1 then .ok (sliceIndices A (whereTrue mask)) else .error "IndexError" := by
  unfold sliceIndicesMask
  split <;> simp_all

/-- `sparse_kronecker_product(A, nd)` for every `nd` (1: unchanged; 0: empty): densely `kron(A, I_nd)`. -/
theorem sparse_kronecker_product_dense (A : Csr) (nd : Nat) :
    (sparseKron A nd).toDense = kronDense A.toDense nd := by
  unfold sparseKron
  split
  · next h => subst h; exact (kron_one_dense _).symm
  · exact kronI_dense A nd

/-- `optimized_compressed_storage(A)`: csc exactly when there are more rows than columns, and the
    dense matrix is unchanged (the conversion is represented by `denseToCsr`). -/
theorem optimized_storage_spec (A : Csr) :
    (match optimizedStorage A with
      | .inl R => ¬ A.ncols < A.nrows ∧ R.toDense = A.toDense ∧ R.WF
      | .inr C => A.ncols < A.nrows ∧ C.toDense = A.toDense ∧ C.WF) := by
  unfold optimizedStorage optimizedIsCsc
  by_cases h : A.ncols < A.nrows
  · simp only [h, decide_true, if_true]
    obtain ⟨t1, t2⟩ := transposeD_shape A.toDense A.ncols
    rw [length_toDense] at t2
    obtain ⟨d1, d2⟩ := denseToCsr_dense (transposeD A.toDense A.ncols) A.nrows t2
    refine ⟨trivial, ?_, d2⟩
    rw [csc_toDense_eq_transpose]
    show transposeD (denseToCsr (transposeD A.toDense A.ncols) A.nrows).toDense A.nrows = _
    rw [d1]
    exact transposeD_involutive _ _ _ (length_toDense A) (length_row_toDense A)
  · simp only [h, decide_false, Bool.false_eq_true, if_false]
    obtain ⟨d1, d2⟩ := denseToCsr_dense A.toDense A.ncols (length_row_toDense A)
    exact ⟨not_false, d1, d2⟩

/-! ## neighbouring entry points: copy, sparse_array_to_row_col_data, chained calls -/

/-- `copy(A)` is `A` (same arrays, index order untouched) -/
theorem copy_eq (A : Csr) : copyCsr A = A := rfl

/-- `sparse_array_to_row_col_data(A, remove_nz)`: summing the returned (row, col, value) triplets
    rebuilds exactly the dense matrix, with or without the explicit zeros. -/
theorem row_col_data_rebuilds_dense (A : Csr) (hA : A.WF) (removeNz : Bool) :
    tripletDense (toTriplets A removeNz) A.nrows A.ncols = A.toDense ∧
    (removeNz = true → ∀ t ∈ toTriplets A removeNz, t.2.2 ≠ 0) := by
  refine ⟨toTriplets_dense A hA removeNz, ?_⟩
  intro h t ht
  subst h
  simp only [toTriplets, if_true, List.mem_filter, decide_eq_true_eq] at ht
  exact ht.2

example : toTriplets ⟨2, 2, [0, 2, 3], [1, 0, 1], [5, 0, 7]⟩ true = [(0, 1, 5), (1, 1, 7)] := by decide +kernel

/-- repeated operations compose: zeroing lines of a slice is the dense zeroing of the dense slice
    (the output of every proved function is well formed, so the theorems chain). -/
theorem slice_then_zero_dense (A : Csr) (hA : A.WF) (ind lines : List Nat) (hi : ∀ i ∈ ind, i < A.nrows)
    (hl : ∀ l ∈ lines, l < ind.length) :
    (zeroLines (sliceLines A ind) lines).toDense = zeroRowsDense (sliceDense A.toDense A.ncols ind) lines := by
  obtain ⟨h1, h2, _⟩ := slice_eq_dense_index A hA ind hi
  rw [(zero_rows_eq_dense (sliceLines A ind) h2 lines hl).1, h1]

end PorepyVerif.C35
