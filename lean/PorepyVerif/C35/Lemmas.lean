/-
C35 — helper lemmas (property theorems are in Props.lean).
-/
import PorepyVerif.C35.Model

deriving instance DecidableEq for Except

namespace PorepyVerif.C35

/-! ### scatter into blocks -/

theorem set_append_head {α} (a : List α) (x v : α) (c : List α) :
    (a ++ x :: c).set a.length v = a ++ v :: c := by
  induction a with
  | nil => rfl
  | cons y a ih => simp [ih]

/-- blocks `v :: b … b` of the given sizes -/
def headed {α} (b : α) : List α → List Nat → List α
  | v :: vs, c :: cs => v :: List.replicate (c - 1) b ++ headed b vs cs
  | _, _ => []

theorem cumsumFromN_dropLast (s : Nat) (l : List Nat) :
    cumsumFromN s l.dropLast = (cumsumFromN s l).dropLast := by
  induction l generalizing s with
  | nil => rfl
  | cons a l ih =>
    cases l with
    | nil => rfl
    | cons b l =>
      simp only [List.dropLast, cumsumFromN] at *
      rw [ih]

theorem replicate_succ_pred {α} (b : α) (c m : Nat) (hc : 1 ≤ c) :
    List.replicate (c + m) b = b :: (List.replicate (c - 1) b ++ List.replicate m b) := by
  obtain ⟨k, rfl⟩ : ∃ k, c = k + 1 := ⟨c - 1, by omega⟩
  have e : k + 1 + m = (k + m) + 1 := by omega
  rw [e, List.replicate_succ, Nat.add_sub_cancel, List.replicate_append_replicate]

theorem cumsumFromN_cons (s k : Nat) (l : List Nat) :
    cumsumFromN s (k :: l) = (s + k) :: cumsumFromN (s + k) l := rfl

theorem dropLast_cumsumFromN_cons2 (s k c : Nat) (cs : List Nat) :
    (cumsumFromN s (k :: c :: cs)).dropLast = (s + k) :: (cumsumFromN (s + k) (c :: cs)).dropLast := rfl

theorem scatter_blocks {α} (b : α) : ∀ (cs : List Nat) (vs pre blk : List α),
    vs.length = cs.length → (∀ c ∈ cs, 1 ≤ c) →
    scatter (pre ++ blk ++ List.replicate (sumN cs) b)
        ((cumsumFromN pre.length (blk.length :: cs)).dropLast) vs
      = pre ++ blk ++ headed b vs cs := by
  intro cs
  induction cs with
  | nil =>
    intro vs pre blk hl _
    cases vs with
    | nil => simp [cumsumFromN, scatter, headed, sumN]
    | cons v vs => simp at hl
  | cons c cs ih =>
    intro vs pre blk hl hpos
    cases vs with
    | nil => simp at hl
    | cons v vs =>
      have hc : 1 ≤ c := hpos c (List.mem_cons_self)
      have hl' : vs.length = cs.length := by simpa using hl
      have hpos' : ∀ c ∈ cs, 1 ≤ c := fun x hx => hpos x (List.mem_cons_of_mem _ hx)
      have h1 := ih vs (pre ++ blk) (v :: List.replicate (c - 1) b) hl' hpos'
      simp only [List.length_append, List.length_cons, List.length_replicate] at h1
      have e1 : c - 1 + 1 = c := by omega
      rw [e1] at h1
      rw [dropLast_cumsumFromN_cons2]
      simp only [scatter, sumN, headed]
      rw [replicate_succ_pred b c (sumN cs) hc]
      have e2 : pre.length + blk.length = (pre ++ blk).length := by simp
      rw [e2, set_append_head]
      simpa [List.append_assoc] using h1

/-! ### expand_index_pointers -/

/-- number of elements of a kept interval -/
def cnt (p : Int × Int) : Nat := (p.2 - 1 - p.1 + 1).toNat

/-- the array `x` of the code before the final cumulative sum, interval after interval:
    jump from the previous end, then ones -/
def jumps (prev : Int) : List (Int × Int) → List Int
  | [] => []
  | p :: P => (p.1 - prev) :: List.replicate (cnt p - 1) 1 ++ jumps (p.2 - 1) P

/-- the values `lo[1:] - hi[:-1]` -/
def jumpVals (prev : Int) : List (Int × Int) → List Int
  | [] => []
  | p :: P => (p.1 - prev) :: jumpVals (p.2 - 1) P

theorem zipWith_jumpVals (p0 : Int × Int) (P : List (Int × Int)) :
    List.zipWith (· - ·) (P.map (·.1)) (((p0 :: P).map (fun p => p.2 - 1)).dropLast)
      = jumpVals (p0.2 - 1) P := by
  induction P generalizing p0 with
  | nil => simp [jumpVals]
  | cons p1 P ih =>
    have := ih p1
    simp only [List.map_cons, List.dropLast, List.zipWith_cons_cons, jumpVals] at *
    rw [this]

theorem length_jumpVals (prev : Int) (P : List (Int × Int)) : (jumpVals prev P).length = P.length := by
  induction P generalizing prev with
  | nil => rfl
  | cons p P ih => simp [jumpVals, ih]

theorem headed_jumpVals (prev : Int) (P : List (Int × Int)) :
    headed 1 (jumpVals prev P) (P.map cnt) = jumps prev P := by
  induction P generalizing prev with
  | nil => rfl
  | cons p P ih => simp only [jumpVals, List.map_cons, headed, jumps, ih]

theorem cumsumFrom_replicate_one (k : Nat) (s : Int) (rest : List Int) :
    cumsumFrom s (List.replicate k 1 ++ rest)
      = (List.range k).map (fun (j : Nat) => s + 1 + (j : Int)) ++ cumsumFrom (s + k) rest := by
  induction k generalizing s with
  | zero => simp
  | succ k ih =>
    have e : s + ((k + 1 : Nat) : Int) = (s + 1) + (k : Int) := by omega
    have e2 : List.map (fun (j : Nat) => s + 1 + ((j + 1 : Nat) : Int)) (List.range k)
        = List.map (fun (j : Nat) => s + 1 + 1 + (j : Int)) (List.range k) := by
      apply List.map_congr_left; intro a _; omega
    rw [List.replicate_succ, List.cons_append, cumsumFrom, ih, e, List.range_succ_eq_map, List.map_cons,
      List.map_map]
    simp only [Function.comp_def, Nat.succ_eq_add_one, e2]
    simp

theorem rangeI_eq_nil (l h : Int) (hlh : ¬ (l + 1 ≤ h)) : rangeI l h = [] := by
  have : (h - l).toNat = 0 := by omega
  simp [rangeI, this]

theorem rangeI_cons (l h : Int) (hlh : l + 1 ≤ h) :
    rangeI l h = l :: (List.range ((h - l).toNat - 1)).map (fun (j : Nat) => l + 1 + (j : Int)) := by
  obtain ⟨k, hk⟩ : ∃ k, (h - l).toNat = k + 1 := ⟨(h - l).toNat - 1, by omega⟩
  simp only [rangeI, hk, List.range_succ_eq_map, List.map_cons, List.map_map, Nat.add_sub_cancel]
  simp only [Int.natCast_zero, Int.add_zero, Function.comp_def, Int.natCast_succ]
  congr 1
  apply List.map_congr_left
  intro a _
  omega

/-- concatenated ranges of a list of intervals -/
def rangesOf : List (Int × Int) → List Int
  | [] => []
  | p :: P => rangeI p.1 p.2 ++ rangesOf P

theorem cumsumFrom_jumps (prev : Int) (P : List (Int × Int)) (hP : ∀ p ∈ P, p.1 + 1 ≤ p.2) :
    cumsumFrom prev (jumps prev P) = rangesOf P := by
  induction P generalizing prev with
  | nil => rfl
  | cons p P ih =>
    have hp : p.1 + 1 ≤ p.2 := hP p List.mem_cons_self
    have hP' : ∀ q ∈ P, q.1 + 1 ≤ q.2 := fun q hq => hP q (List.mem_cons_of_mem _ hq)
    simp only [jumps, rangesOf, List.cons_append, cumsumFrom]
    have e0 : prev + (p.1 - prev) = p.1 := by omega
    rw [e0, cumsumFrom_replicate_one, rangeI_cons _ _ hp]
    have e1 : cnt p - 1 = (p.2 - p.1).toNat - 1 := by simp only [cnt]; omega
    have e2 : p.1 + ((cnt p - 1 : Nat) : Int) = p.2 - 1 := by simp only [cnt]; omega
    rw [e2, ih _ hP', e1]
    simp

theorem expandSpec_eq_rangesOf_filter (lo hi : List Int) :
    expandSpec lo hi = rangesOf ((lo.zip hi).filter (fun p => decide (p.1 + 1 ≤ p.2))) := by
  induction lo generalizing hi with
  | nil => simp [expandSpec, rangesOf]
  | cons l lo ih =>
    cases hi with
    | nil => simp [expandSpec, rangesOf]
    | cons h hi =>
      simp only [expandSpec, List.zip_cons_cons, List.filter_cons]
      by_cases hlh : l + 1 ≤ h
      · simp only [hlh, decide_true, if_true, rangesOf, ih]
      · simp only [hlh, decide_false, rangeI_eq_nil l h hlh, List.nil_append, ih]
        simp

theorem sumN_cons (a : Nat) (l : List Nat) : sumN (a :: l) = a + sumN l := rfl

theorem expandKept_eq (P : List (Int × Int)) (hP : ∀ p ∈ P, p.1 + 1 ≤ p.2) :
    expandKept P = rangesOf P := by
  cases P with
  | nil => rfl
  | cons p0 P =>
    have hp : p0.1 + 1 ≤ p0.2 := hP p0 List.mem_cons_self
    have hc0 : 1 ≤ cnt p0 := by simp only [cnt]; omega
    have hpos : ∀ c ∈ P.map cnt, 1 ≤ c := by
      intro c hc
      obtain ⟨q, hq, rfl⟩ := List.mem_map.mp hc
      have := hP q (List.mem_cons_of_mem _ hq)
      simp only [cnt]; omega
    simp only [expandKept]
    show cumsum (scatter ((List.replicate (sumN (cnt p0 :: P.map cnt)) (1 : Int)).set 0 p0.1)
        (cumsumN (cnt p0 :: P.map cnt).dropLast)
        (List.zipWith (· - ·) (P.map (·.1)) (((p0 :: P).map (fun p => p.2 - 1)).dropLast))) = _
    rw [zipWith_jumpVals, sumN_cons, replicate_succ_pred 1 _ _ hc0, List.set_cons_zero, cumsumN,
      cumsumFromN_dropLast]
    have h := scatter_blocks (1 : Int) (P.map cnt) (jumpVals (p0.2 - 1) P) []
      (p0.1 :: List.replicate (cnt p0 - 1) 1) (by simp [length_jumpVals]) hpos
    simp only [List.nil_append, List.length_nil, List.length_cons, List.length_replicate] at h
    have e : cnt p0 - 1 + 1 = cnt p0 := by omega
    rw [e] at h
    rw [List.cons_append] at h
    rw [h, headed_jumpVals]
    have := cumsumFrom_jumps 0 (p0 :: P) hP
    simp only [jumps, Int.sub_zero] at this
    exact this

theorem expandCore_eq_spec (lo hi : List Int) : expandCore lo hi = expandSpec lo hi := by
  rw [expandSpec_eq_rangesOf_filter, expandCore, expandKept_eq]
  intro p hp
  simpa using (List.mem_filter.mp hp).2

/-! ### rldecode -/

theorem scatterConst_eq_scatter {α} (x : List α) (idx : List Nat) (v : α) :
    scatterConst x idx v = scatter x idx (List.replicate idx.length v) := by
  induction idx generalizing x with
  | nil => rfl
  | cons i is ih => simp only [scatterConst, List.length_cons, List.replicate_succ, scatter, ih]

theorem maskSel_map_filter {α} (p : α → Bool) (l : List α) : maskSel l (l.map p) = l.filter p := by
  induction l with
  | nil => rfl
  | cons a l ih =>
    simp only [List.map_cons, maskSel, List.filter_cons, ih]

/-- block number of every decoded position -/
def blockIdx (k : Nat) : List Nat → List Nat
  | [] => []
  | c :: cs => List.replicate c k ++ blockIdx (k + 1) cs

theorem cumsumFromN_replicate_zero (k c : Nat) (rest : List Nat) :
    cumsumFromN k (List.replicate c 0 ++ rest) = List.replicate c k ++ cumsumFromN k rest := by
  induction c with
  | zero => rfl
  | succ c ih => simp only [List.replicate_succ, List.cons_append, cumsumFromN, Nat.add_zero, ih]

theorem cumsumFromN_headed (k : Nat) (cs : List Nat) (hpos : ∀ c ∈ cs, 1 ≤ c) :
    cumsumFromN k (headed 0 (List.replicate cs.length 1) cs) = blockIdx (k + 1) cs := by
  induction cs generalizing k with
  | nil => rfl
  | cons c cs ih =>
    have hc : 1 ≤ c := hpos c List.mem_cons_self
    have hpos' : ∀ c ∈ cs, 1 ≤ c := fun x hx => hpos x (List.mem_cons_of_mem _ hx)
    simp only [List.length_cons, List.replicate_succ, headed, List.cons_append, cumsumFromN, blockIdx]
    rw [cumsumFromN_replicate_zero, ih (k + 1) hpos']
    obtain ⟨m, rfl⟩ : ∃ m, c = m + 1 := ⟨c - 1, by omega⟩
    simp [List.replicate_succ]

theorem getLastD_cumsumFromN (s : Nat) (l : List Nat) :
    (s :: cumsumFromN s l).getLastD 0 = s + sumN l := by
  induction l generalizing s with
  | nil => simp [cumsumFromN, sumN]
  | cons a l ih =>
    have := ih (s + a)
    simp only [cumsumFromN, sumN, List.getLastD_cons] at *
    rw [this]; omega

theorem gather_append {α} [Inhabited α] (a : List α) (i j : List Nat) :
    gather a (i ++ j) = gather a i ++ gather a j := by simp [gather]

theorem gather_replicate {α} [Inhabited α] (a : List α) (c k : Nat) :
    gather a (List.replicate c k) = List.replicate c (a.getD k default) := by simp [gather]

theorem gather_blockIdx {α} [Inhabited α] (w : List α) (k : Nat) (cs : List Nat) :
    gather w (blockIdx k cs) = repeatSpec ((List.range cs.length).map (fun i => w.getD (k + i) default)) cs := by
  induction cs generalizing k with
  | nil => rfl
  | cons c cs ih =>
    simp only [blockIdx, gather_append, gather_replicate, List.length_cons, List.range_succ_eq_map,
      List.map_cons, List.map_map, repeatSpec, Nat.add_zero, ih]
    congr 2
    apply List.map_congr_left
    intro a _
    simp only [Function.comp_def, Nat.succ_eq_add_one]
    congr 1
    omega

theorem gather_repeatSpec {α} [Inhabited α] (a : List α) (w cs : List Nat) :
    gather a (repeatSpec w cs) = repeatSpec (gather a w) cs := by
  induction w generalizing cs with
  | nil => cases cs <;> rfl
  | cons x w ih =>
    cases cs with
    | nil => rfl
    | cons c cs =>
      simp only [repeatSpec, gather_append, gather_replicate, ih]
      simp [gather, repeatSpec]

/-- positive counts of `n` as naturals -/
def posCounts (n : List Int) : List Nat := (n.filter (fun c => decide (0 < c))).map Int.toNat

theorem trueIdxFrom_bounds (k : Nat) (m : List Bool) : ∀ x ∈ trueIdxFrom k m, k ≤ x ∧ x < k + m.length := by
  induction m generalizing k with
  | nil => intro x hx; cases hx
  | cons b m ih =>
    intro x hx
    simp only [trueIdxFrom] at hx
    have h2 : ∀ y ∈ trueIdxFrom (k + 1) m, k ≤ y ∧ y < k + (b :: m).length := by
      intro y hy
      have := ih (k + 1) y hy
      simp only [List.length_cons]; omega
    cases b with
    | true =>
      simp only [if_true] at hx
      rcases List.mem_cons.mp hx with rfl | hx
      · simp
      · exact h2 x hx
    | false =>
      simp only [Bool.false_eq_true, if_false] at hx
      exact h2 x hx

theorem length_trueIdxFrom_pos (k : Nat) (n : List Int) :
    (trueIdxFrom k (n.map (fun c => decide (0 < c)))).length = (posCounts n).length := by
  induction n generalizing k with
  | nil => rfl
  | cons c n ih =>
    simp only [List.map_cons, trueIdxFrom, posCounts, List.filter_cons]
    by_cases hc : 0 < c
    · simp only [hc, decide_true, if_true, List.length_cons, List.map_cons]
      have := ih (k + 1)
      simp only [posCounts] at this
      rw [this]
    · simp only [hc, decide_false, Bool.false_eq_true, if_false]
      have := ih (k + 1)
      simp only [posCounts] at this
      rw [this]

/-- decoding with the positive counts only, values picked at the positions of the positive counts -/
theorem repeatSpec_pos_eq_spec {α} [Inhabited α] (full : List α) :
    ∀ (n : List Int) (a : List α) (k : Nat), full.drop k = a → n.length ≤ a.length →
      repeatSpec (gather full (trueIdxFrom k (n.map (fun c => decide (0 < c))))) (posCounts n)
        = rldecodeSpec a n := by
  intro n
  induction n with
  | nil => intro a k _ _; cases a <;> rfl
  | cons c n ih =>
    intro a k hk hl
    cases a with
    | nil => simp at hl
    | cons x a =>
      have hl' : n.length ≤ a.length := by simpa using hl
      have hk' : full.drop (k + 1) = a := by
        have : full.drop (k + 1) = (full.drop k).drop 1 := by simp [List.drop_drop]
        rw [this, hk]; rfl
      have hx : full.getD k default = x := by
        have : (full.drop k).getD 0 default = x := by rw [hk]; rfl
        simpa [List.getD_eq_getElem?_getD, List.getElem?_drop] using this
      simp only [List.map_cons, trueIdxFrom, posCounts, List.filter_cons, rldecodeSpec]
      by_cases hc : 0 < c
      · simp only [hc, decide_true, if_true, List.map_cons, gather, repeatSpec]
        have := ih a (k + 1) hk' hl'
        simp only [posCounts, gather] at this
        rw [this, hx]
      · have hz : c.toNat = 0 := by omega
        simp only [hc, decide_false, Bool.false_eq_true, if_false, hz, List.replicate_zero, List.nil_append]
        have := ih a (k + 1) hk' hl'
        simp only [posCounts] at this
        exact this

theorem mem_repeatSpec {α} (w : List α) (cs : List Nat) : ∀ x ∈ repeatSpec w cs, x ∈ w := by
  induction w generalizing cs with
  | nil => intro x hx; cases cs <;> cases hx
  | cons y w ih =>
    intro x hx
    cases cs with
    | nil => cases hx
    | cons c cs =>
      simp only [repeatSpec, List.mem_append, List.mem_replicate] at hx
      rcases hx with ⟨_, rfl⟩ | hx
      · exact List.mem_cons_self
      · exact List.mem_cons_of_mem _ (ih cs x hx)

theorem posCounts_pos (n : List Int) : ∀ c ∈ posCounts n, 1 ≤ c := by
  intro c hc
  simp only [posCounts, List.mem_map, List.mem_filter] at hc
  obtain ⟨z, ⟨_, hz⟩, rfl⟩ := hc
  have : 0 < z := by simpa using hz
  omega

/-- the index vector `flatnonzero(r)[cumsum(j)]` of the code -/
theorem rldecode_idx (n : List Int) :
    let r := n.map (fun c => decide (0 < c))
    let nr : List Nat := (maskSel n r).map Int.toNat
    let i := cumsumN (0 :: nr)
    gather (whereTrue r) (cumsumN (scatterConst (List.replicate (i.getLastD 0) (0 : Nat)) i.tail.dropLast 1))
      = repeatSpec (whereTrue r) (posCounts n) := by
  intro r nr i
  have hnr : nr = posCounts n := by simp only [nr, r, maskSel_map_filter, posCounts]
  have hi : i = 0 :: cumsumFromN 0 nr := by simp only [i, cumsumN, cumsumFromN]
  have hlen : (whereTrue r).length = nr.length := by
    rw [hnr]; exact length_trueIdxFrom_pos 0 n
  rw [hi, getLastD_cumsumFromN, List.tail_cons, Nat.zero_add, hnr]
  have hpos := posCounts_pos n
  rw [hnr] at hlen
  generalize posCounts n = cs at *
  cases cs with
  | nil =>
    have : whereTrue r = [] := List.eq_nil_of_length_eq_zero (by simpa using hlen)
    simp [sumN, cumsumFromN, scatterConst, cumsumN, gather, this, repeatSpec]
  | cons c cs =>
    have hc : 1 ≤ c := hpos c List.mem_cons_self
    have hpos' : ∀ c ∈ cs, 1 ≤ c := fun x hx => hpos x (List.mem_cons_of_mem _ hx)
    rw [scatterConst_eq_scatter, sumN_cons, ← List.replicate_append_replicate]
    have h := scatter_blocks (0 : Nat) cs (List.replicate cs.length 1) [] (List.replicate c 0) (by simp) hpos'
    simp only [List.nil_append, List.length_nil, List.length_replicate] at h
    have e : ((cumsumFromN 0 (c :: cs)).dropLast).length = cs.length := by
      rw [← cumsumFromN_dropLast]
      have : ∀ (s : Nat) (l : List Nat), (cumsumFromN s l).length = l.length := by
        intro s l; induction l generalizing s with
        | nil => rfl
        | cons a l ih => simp [cumsumFromN, ih]
      rw [this]; simp
    rw [e, h, cumsumN, cumsumFromN_replicate_zero, cumsumFromN_headed 0 cs hpos', gather_append,
      gather_replicate, gather_blockIdx]
    simp only [Nat.zero_add]
    have hw : whereTrue r = (whereTrue r).getD 0 default :: (List.range cs.length).map (fun i => (whereTrue r).getD (1 + i) default) := by
      apply List.ext_getElem
      · simp [hlen]
      · intro j h1 h2
        cases j with
        | zero => simp [List.getD_eq_getElem?_getD, List.getElem?_eq_getElem h1]
        | succ j =>
          have hj : j + 1 < (whereTrue r).length := h1
          simp only [List.getElem_cons_succ, List.getElem_map, List.getElem_range, List.getD_eq_getElem?_getD]
          rw [show 1 + j = j + 1 by omega, List.getElem?_eq_getElem hj]; rfl
    conv => rhs; rw [hw]
    simp [repeatSpec]

theorem broadcastLoHi_same_length (lo hi : List Int) (h : lo.length = hi.length) :
    broadcastLoHi lo hi = (lo, hi) := by
  simp only [broadcastLoHi]
  by_cases h1 : lo.length = 1
  · have h2 : hi.length = 1 := by omega
    match lo, hi, h1, h2 with
    | [x], [y], _, _ => simp
  · have h2 : ¬ hi.length = 1 := by omega
    simp only [h1, if_false, h2]

end PorepyVerif.C35
