/-
C35 — helper lemmas (property theorems are in Props.lean).
-/
import PorepyVerif.C35.Model

deriving instance DecidableEq for Except

namespace PorepyVerif.C35

/-! ### scatter into blocks -/

theorem set_append_head {α} (a : List α) (x v : α) (c : List α) :
    (a ++ x :: c).set a.length v = a ++ v :: c := by
  induction a with
  | nil => rfl
  | cons y a ih => simp [ih]

/-- blocks `v :: b … b` of the given sizes -/
def headed {α} (b : α) : List α → List Nat → List α
  | v :: vs, c :: cs => v :: List.replicate (c - 1) b ++ headed b vs cs
  | _, _ => []

theorem cumsumFromN_dropLast (s : Nat) (l : List Nat) :
    cumsumFromN s l.dropLast = (cumsumFromN s l).dropLast := by
  induction l generalizing s with
  | nil => rfl
  | cons a l ih =>
    cases l with
    | nil => rfl
    | cons b l =>
      simp only [List.dropLast, cumsumFromN] at *
      rw [ih]

theorem replicate_succ_pred {α} (b : α) (c m : Nat) (hc : 1 ≤ c) :
    List.replicate (c + m) b = b :: (List.replicate (c - 1) b ++ List.replicate m b) := by
  obtain ⟨k, rfl⟩ : ∃ k, c = k + 1 := ⟨c - 1, by omega⟩
  have e : k + 1 + m = (k + m) + 1 := by omega
  rw [e, List.replicate_succ, Nat.add_sub_cancel, List.replicate_append_replicate]

theorem cumsumFromN_cons (s k : Nat) (l : List Nat) :
    cumsumFromN s (k :: l) = (s + k) :: cumsumFromN (s + k) l := rfl

theorem dropLast_cumsumFromN_cons2 (s k c : Nat) (cs : List Nat) :
    (cumsumFromN s (k :: c :: cs)).dropLast = (s + k) :: (cumsumFromN (s + k) (c :: cs)).dropLast := rfl

theorem scatter_blocks {α} (b : α) : ∀ (cs : List Nat) (vs pre blk : List α),
    vs.length = cs.length → (∀ c ∈ cs, 1 ≤ c) →
    scatter (pre ++ blk ++ List.replicate (sumN cs) b)
        ((cumsumFromN pre.length (blk.length :: cs)).dropLast) vs
      = pre ++ blk ++ headed b vs cs := by
  intro cs
  induction cs with
  | nil =>
    intro vs pre blk hl _
    cases vs with
    | nil => simp [cumsumFromN, scatter, headed, sumN]
    | cons v vs => simp at hl
  | cons c cs ih =>
    intro vs pre blk hl hpos
    cases vs with
    | nil => simp at hl
    | cons v vs =>
      have hc : 1 ≤ c := hpos c (List.mem_cons_self)
      have hl' : vs.length = cs.length := by simpa using hl
      have hpos' : ∀ c ∈ cs, 1 ≤ c := fun x hx => hpos x (List.mem_cons_of_mem _ hx)
      have h1 := ih vs (pre ++ blk) (v :: List.replicate (c - 1) b) hl' hpos'
      simp only [List.length_append, List.length_cons, List.length_replicate] at h1
      have e1 : c - 1 + 1 = c := by omega
      rw [e1] at h1
      rw [dropLast_cumsumFromN_cons2]
      simp only [scatter, sumN, headed]
      rw [replicate_succ_pred b c (sumN cs) hc]
      have e2 : pre.length + blk.length = (pre ++ blk).length := by simp
      rw [e2, set_append_head]
      simpa [List.append_assoc] using h1

/-! ### expand_index_pointers -/

/-- number of elements of a kept interval -/
def cnt (p : Int × Int) : Nat := (p.2 - 1 - p.1 + 1).toNat

/-- the array `x` of the code before the final cumulative sum, interval after interval:
    jump from the previous end, then ones -/
def jumps (prev : Int) : List (Int × Int) → List Int
  | [] => []
  | p :: P => (p.1 - prev) :: List.replicate (cnt p - 1) 1 ++ jumps (p.2 - 1) P

/-- the values `lo[1:] - hi[:-1]` -/
def jumpVals (prev : Int) : List (Int × Int) → List Int
  | [] => []
  | p :: P => (p.1 - prev) :: jumpVals (p.2 - 1) P

theorem zipWith_jumpVals (p0 : Int × Int) (P : List (Int × Int)) :
    List.zipWith (· - ·) (P.map (·.1)) (((p0 :: P).map (fun p => p.2 - 1)).dropLast)
      = jumpVals (p0.2 - 1) P := by
  induction P generalizing p0 with
  | nil => simp [jumpVals]
  | cons p1 P ih =>
    have := ih p1
    simp only [List.map_cons, List.dropLast, List.zipWith_cons_cons, jumpVals] at *
    rw [this]

theorem length_jumpVals (prev : Int) (P : List (Int × Int)) : (jumpVals prev P).length = P.length := by
  induction P generalizing prev with
  | nil => rfl
  | cons p P ih => simp [jumpVals, ih]

theorem headed_jumpVals (prev : Int) (P : List (Int × Int)) :
    headed 1 (jumpVals prev P) (P.map cnt) = jumps prev P := by
  induction P generalizing prev with
  | nil => rfl
  | cons p P ih => simp only [jumpVals, List.map_cons, headed, jumps, ih]

theorem cumsumFrom_replicate_one (k : Nat) (s : Int) (rest : List Int) :
    cumsumFrom s (List.replicate k 1 ++ rest)
      = (List.range k).map (fun (j : Nat) => s + 1 + (j : Int)) ++ cumsumFrom (s + k) rest := by
  induction k generalizing s with
  | zero => simp
  | succ k ih =>
    have e : s + ((k + 1 : Nat) : Int) = (s + 1) + (k : Int) := by omega
    have e2 : List.map (fun (j : Nat) => s + 1 + ((j + 1 : Nat) : Int)) (List.range k)
        = List.map (fun (j : Nat) => s + 1 + 1 + (j : Int)) (List.range k) := by
      apply List.map_congr_left; intro a _; omega
    rw [List.replicate_succ, List.cons_append, cumsumFrom, ih, e, List.range_succ_eq_map, List.map_cons,
      List.map_map]
    simp only [Function.comp_def, Nat.succ_eq_add_one, e2]
    simp

theorem rangeI_eq_nil (l h : Int) (hlh : ¬ (l + 1 ≤ h)) : rangeI l h = [] := by
  have : (h - l).toNat = 0 := by omega
  simp [rangeI, this]

theorem rangeI_cons (l h : Int) (hlh : l + 1 ≤ h) :
    rangeI l h = l :: (List.range ((h - l).toNat - 1)).map (fun (j : Nat) => l + 1 + (j : Int)) := by
  obtain ⟨k, hk⟩ : ∃ k, (h - l).toNat = k + 1 := ⟨(h - l).toNat - 1, by omega⟩
  simp only [rangeI, hk, List.range_succ_eq_map, List.map_cons, List.map_map, Nat.add_sub_cancel]
  simp only [Int.natCast_zero, Int.add_zero, Function.comp_def, Int.natCast_succ]
  congr 1
  apply List.map_congr_left
  intro a _
  omega

/-- concatenated ranges of a list of intervals -/
def rangesOf : List (Int × Int) → List Int
  | [] => []
  | p :: P => rangeI p.1 p.2 ++ rangesOf P

theorem cumsumFrom_jumps (prev : Int) (P : List (Int × Int)) (hP : ∀ p ∈ P, p.1 + 1 ≤ p.2) :
    cumsumFrom prev (jumps prev P) = rangesOf P := by
  induction P generalizing prev with
  | nil => rfl
  | cons p P ih =>
    have hp : p.1 + 1 ≤ p.2 := hP p List.mem_cons_self
    have hP' : ∀ q ∈ P, q.1 + 1 ≤ q.2 := fun q hq => hP q (List.mem_cons_of_mem _ hq)
    simp only [jumps, rangesOf, List.cons_append, cumsumFrom]
    have e0 : prev + (p.1 - prev) = p.1 := by omega
    rw [e0, cumsumFrom_replicate_one, rangeI_cons _ _ hp]
    have e1 : cnt p - 1 = (p.2 - p.1).toNat - 1 := by simp only [cnt]; omega
    have e2 : p.1 + ((cnt p - 1 : Nat) : Int) = p.2 - 1 := by simp only [cnt]; omega
    rw [e2, ih _ hP', e1]
    simp

theorem expandSpec_eq_rangesOf_filter (lo hi : List Int) :
    expandSpec lo hi = rangesOf ((lo.zip hi).filter (fun p => decide (p.1 + 1 ≤ p.2))) := by
  induction lo generalizing hi with
  | nil => simp [expandSpec, rangesOf]
  | cons l lo ih =>
    cases hi with
    | nil => simp [expandSpec, rangesOf]
    | cons h hi =>
      simp only [expandSpec, List.zip_cons_cons, List.filter_cons]
      by_cases hlh : l + 1 ≤ h
      · simp only [hlh, decide_true, if_true, rangesOf, ih]
      · simp only [hlh, decide_false, rangeI_eq_nil l h hlh, List.nil_append, ih]
        simp

theorem sumN_cons (a : Nat) (l : List Nat) : sumN (a :: l) = a + sumN l := rfl

theorem expandKept_eq (P : List (Int × Int)) (hP : ∀ p ∈ P, p.1 + 1 ≤ p.2) :
    expandKept P = rangesOf P := by
  cases P with
  | nil => rfl
  | cons p0 P =>
    have hp : p0.1 + 1 ≤ p0.2 := hP p0 List.mem_cons_self
    have hc0 : 1 ≤ cnt p0 := by simp only [cnt]; omega
    have hpos : ∀ c ∈ P.map cnt, 1 ≤ c := by
      intro c hc
      obtain ⟨q, hq, rfl⟩ := List.mem_map.mp hc
      have := hP q (List.mem_cons_of_mem _ hq)
      simp only [cnt]; omega
    simp only [expandKept]
    show cumsum (scatter ((List.replicate (sumN (cnt p0 :: P.map cnt)) (1 : Int)).set 0 p0.1)
        (cumsumN (cnt p0 :: P.map cnt).dropLast)
        (List.zipWith (· - ·) (P.map (·.1)) (((p0 :: P).map (fun p => p.2 - 1)).dropLast))) = _
    rw [zipWith_jumpVals, sumN_cons, replicate_succ_pred 1 _ _ hc0, List.set_cons_zero, cumsumN,
      cumsumFromN_dropLast]
    have h := scatter_blocks (1 : Int) (P.map cnt) (jumpVals (p0.2 - 1) P) []
      (p0.1 :: List.replicate (cnt p0 - 1) 1) (by simp [length_jumpVals]) hpos
    simp only [List.nil_append, List.length_nil, List.length_cons, List.length_replicate] at h
    have e : cnt p0 - 1 + 1 = cnt p0 := by omega
    rw [e] at h
    rw [List.cons_append] at h
    rw [h, headed_jumpVals]
    have := cumsumFrom_jumps 0 (p0 :: P) hP
    simp only [jumps, Int.sub_zero] at this
    exact this

theorem expandCore_eq_spec (lo hi : List Int) : expandCore lo hi = expandSpec lo hi := by
  rw [expandSpec_eq_rangesOf_filter, expandCore, expandKept_eq]
  intro p hp
  simpa using (List.mem_filter.mp hp).2

/-! ### rldecode -/

theorem scatterConst_eq_scatter {α} (x : List α) (idx : List Nat) (v : α) :
    scatterConst x idx v = scatter x idx (List.replicate idx.length v) := by
  induction idx generalizing x with
  | nil => rfl
  | cons i is ih => simp only [scatterConst, List.length_cons, List.replicate_succ, scatter, ih]

theorem maskSel_map_filter {α} (p : α → Bool) (l : List α) : maskSel l (l.map p) = l.filter p := by
  induction l with
  | nil => rfl
  | cons a l ih =>
    simp only [List.map_cons, maskSel, List.filter_cons, ih]

/-- block number of every decoded position -/
def blockIdx (k : Nat) : List Nat → List Nat
  | [] => []
  | c :: cs => List.replicate c k ++ blockIdx (k + 1) cs

theorem cumsumFromN_replicate_zero (k c : Nat) (rest : List Nat) :
    cumsumFromN k (List.replicate c 0 ++ rest) = List.replicate c k ++ cumsumFromN k rest := by
  induction c with
  | zero => rfl
  | succ c ih => simp only [List.replicate_succ, List.cons_append, cumsumFromN, Nat.add_zero, ih]

theorem cumsumFromN_headed (k : Nat) (cs : List Nat) (hpos : ∀ c ∈ cs, 1 ≤ c) :
    cumsumFromN k (headed 0 (List.replicate cs.length 1) cs) = blockIdx (k + 1) cs := by
  induction cs generalizing k with
  | nil => rfl
  | cons c cs ih =>
    have hc : 1 ≤ c := hpos c List.mem_cons_self
    have hpos' : ∀ c ∈ cs, 1 ≤ c := fun x hx => hpos x (List.mem_cons_of_mem _ hx)
    simp only [List.length_cons, List.replicate_succ, headed, List.cons_append, cumsumFromN, blockIdx]
    rw [cumsumFromN_replicate_zero, ih (k + 1) hpos']
    obtain ⟨m, rfl⟩ : ∃ m, c = m + 1 := ⟨c - 1, by omega⟩
    simp [List.replicate_succ]

theorem getLastD_cumsumFromN (s : Nat) (l : List Nat) :
    (s :: cumsumFromN s l).getLastD 0 = s + sumN l := by
  induction l generalizing s with
  | nil => simp [cumsumFromN, sumN]
  | cons a l ih =>
    have := ih (s + a)
    simp only [cumsumFromN, sumN, List.getLastD_cons] at *
    rw [this]; omega

theorem gather_append {α} [Inhabited α] (a : List α) (i j : List Nat) :
    gather a (i ++ j) = gather a i ++ gather a j := by simp [gather]

theorem gather_replicate {α} [Inhabited α] (a : List α) (c k : Nat) :
    gather a (List.replicate c k) = List.replicate c (a.getD k default) := by simp [gather]

theorem gather_blockIdx {α} [Inhabited α] (w : List α) (k : Nat) (cs : List Nat) :
    gather w (blockIdx k cs) = repeatSpec ((List.range cs.length).map (fun i => w.getD (k + i) default)) cs := by
  induction cs generalizing k with
  | nil => rfl
  | cons c cs ih =>
    simp only [blockIdx, gather_append, gather_replicate, List.length_cons, List.range_succ_eq_map,
      List.map_cons, List.map_map, repeatSpec, Nat.add_zero, ih]
    congr 2
    apply List.map_congr_left
    intro a _
    simp only [Function.comp_def, Nat.succ_eq_add_one]
    congr 1
    omega

theorem gather_repeatSpec {α} [Inhabited α] (a : List α) (w cs : List Nat) :
    gather a (repeatSpec w cs) = repeatSpec (gather a w) cs := by
  induction w generalizing cs with
  | nil => cases cs <;> rfl
  | cons x w ih =>
    cases cs with
    | nil => rfl
    | cons c cs =>
      simp only [repeatSpec, gather_append, gather_replicate, ih]
      simp [gather, repeatSpec]

/-- positive counts of `n` as naturals -/
def posCounts (n : List Int) : List Nat := (n.filter (fun c => decide (0 < c))).map Int.toNat

theorem trueIdxFrom_bounds (k : Nat) (m : List Bool) : ∀ x ∈ trueIdxFrom k m, k ≤ x ∧ x < k + m.length := by
  induction m generalizing k with
  | nil => intro x hx; cases hx
  | cons b m ih =>
    intro x hx
    simp only [trueIdxFrom] at hx
    have h2 : ∀ y ∈ trueIdxFrom (k + 1) m, k ≤ y ∧ y < k + (b :: m).length := by
      intro y hy
      have := ih (k + 1) y hy
      simp only [List.length_cons]; omega
    cases b with
    | true =>
      simp only [if_true] at hx
      rcases List.mem_cons.mp hx with rfl | hx
      · simp
      · exact h2 x hx
    | false =>
      simp only [Bool.false_eq_true, if_false] at hx
      exact h2 x hx

theorem length_trueIdxFrom_pos (k : Nat) (n : List Int) :
    (trueIdxFrom k (n.map (fun c => decide (0 < c)))).length = (posCounts n).length := by
  induction n generalizing k with
  | nil => rfl
  | cons c n ih =>
    simp only [List.map_cons, trueIdxFrom, posCounts, List.filter_cons]
    by_cases hc : 0 < c
    · simp only [hc, decide_true, if_true, List.length_cons, List.map_cons]
      have := ih (k + 1)
      simp only [posCounts] at this
      rw [this]
    · simp only [hc, decide_false, Bool.false_eq_true, if_false]
      have := ih (k + 1)
      simp only [posCounts] at this
      rw [this]

/-- decoding with the positive counts only, values picked at the positions of the positive counts -/
theorem repeatSpec_pos_eq_spec {α} [Inhabited α] (full : List α) :
    ∀ (n : List Int) (a : List α) (k : Nat), full.drop k = a → n.length ≤ a.length →
      repeatSpec (gather full (trueIdxFrom k (n.map (fun c => decide (0 < c))))) (posCounts n)
        = rldecodeSpec a n := by
  intro n
  induction n with
  | nil => intro a k _ _; cases a <;> rfl
  | cons c n ih =>
    intro a k hk hl
    cases a with
    | nil => simp at hl
    | cons x a =>
      have hl' : n.length ≤ a.length := by simpa using hl
      have hk' : full.drop (k + 1) = a := by
        have : full.drop (k + 1) = (full.drop k).drop 1 := by simp [List.drop_drop]
        rw [this, hk]; rfl
      have hx : full.getD k default = x := by
        have : (full.drop k).getD 0 default = x := by rw [hk]; rfl
        simpa [List.getD_eq_getElem?_getD, List.getElem?_drop] using this
      simp only [List.map_cons, trueIdxFrom, posCounts, List.filter_cons, rldecodeSpec]
      by_cases hc : 0 < c
      · simp only [hc, decide_true, if_true, List.map_cons, gather, repeatSpec]
        have := ih a (k + 1) hk' hl'
        simp only [posCounts, gather] at this
        rw [this, hx]
      · have hz : c.toNat = 0 := by omega
        simp only [hc, decide_false, Bool.false_eq_true, if_false, hz, List.replicate_zero, List.nil_append]
        have := ih a (k + 1) hk' hl'
        simp only [posCounts] at this
        exact this

theorem mem_repeatSpec {α} (w : List α) (cs : List Nat) : ∀ x ∈ repeatSpec w cs, x ∈ w := by
  induction w generalizing cs with
  | nil => intro x hx; cases cs <;> cases hx
  | cons y w ih =>
    intro x hx
    cases cs with
    | nil => cases hx
    | cons c cs =>
      simp only [repeatSpec, List.mem_append, List.mem_replicate] at hx
      rcases hx with ⟨_, rfl⟩ | hx
      · exact List.mem_cons_self
      · exact List.mem_cons_of_mem _ (ih cs x hx)

theorem posCounts_pos (n : List Int) : ∀ c ∈ posCounts n, 1 ≤ c := by
  intro c hc
  simp only [posCounts, List.mem_map, List.mem_filter] at hc
  obtain ⟨z, ⟨_, hz⟩, rfl⟩ := hc
  have : 0 < z := by simpa using hz
  omega

/-- the index vector `flatnonzero(r)[cumsum(j)]` of the code -/
theorem rldecode_idx (n : List Int) :
    let r := n.map (fun c => decide (0 < c))
    let nr : List Nat := (maskSel n r).map Int.toNat
    let i := cumsumN (0 :: nr)
    gather (whereTrue r) (cumsumN (scatterConst (List.replicate (i.getLastD 0) (0 : Nat)) i.tail.dropLast 1))
      = repeatSpec (whereTrue r) (posCounts n) := by
  intro r nr i
  have hnr : nr = posCounts n := by simp only [nr, r, maskSel_map_filter, posCounts]
  have hi : i = 0 :: cumsumFromN 0 nr := by simp only [i, cumsumN, cumsumFromN]
  have hlen : (whereTrue r).length = nr.length := by
    rw [hnr]; exact length_trueIdxFrom_pos 0 n
  rw [hi, getLastD_cumsumFromN, List.tail_cons, Nat.zero_add, hnr]
  have hpos := posCounts_pos n
  rw [hnr] at hlen
  generalize posCounts n = cs at *
  cases cs with
  | nil =>
    have : whereTrue r = [] := List.eq_nil_of_length_eq_zero (by simpa using hlen)
    simp [sumN, cumsumFromN, scatterConst, cumsumN, gather, this, repeatSpec]
  | cons c cs =>
    have hc : 1 ≤ c := hpos c List.mem_cons_self
    have hpos' : ∀ c ∈ cs, 1 ≤ c := fun x hx => hpos x (List.mem_cons_of_mem _ hx)
    rw [scatterConst_eq_scatter, sumN_cons, ← List.replicate_append_replicate]
    have h := scatter_blocks (0 : Nat) cs (List.replicate cs.length 1) [] (List.replicate c 0) (by simp) hpos'
    simp only [List.nil_append, List.length_nil, List.length_replicate] at h
    have e : ((cumsumFromN 0 (c :: cs)).dropLast).length = cs.length := by
      rw [← cumsumFromN_dropLast]
      have : ∀ (s : Nat) (l : List Nat), (cumsumFromN s l).length = l.length := by
        intro s l; induction l generalizing s with
        | nil => rfl
        | cons a l ih => simp [cumsumFromN, ih]
      rw [this]; simp
    rw [e, h, cumsumN, cumsumFromN_replicate_zero, cumsumFromN_headed 0 cs hpos', gather_append,
      gather_replicate, gather_blockIdx]
    simp only [Nat.zero_add]
    have hw : whereTrue r = (whereTrue r).getD 0 default :: (List.range cs.length).map (fun i => (whereTrue r).getD (1 + i) default) := by
      apply List.ext_getElem
      · simp [hlen]
      · intro j h1 h2
        cases j with
        | zero => simp [List.getD_eq_getElem?_getD, List.getElem?_eq_getElem h1]
        | succ j =>
          have hj : j + 1 < (whereTrue r).length := h1
          simp only [List.getElem_cons_succ, List.getElem_map, List.getElem_range, List.getD_eq_getElem?_getD]
          rw [show 1 + j = j + 1 by omega, List.getElem?_eq_getElem hj]; rfl
    conv => rhs; rw [hw]
    simp [repeatSpec]

theorem broadcastLoHi_same_length (lo hi : List Int) (h : lo.length = hi.length) :
    broadcastLoHi lo hi = (lo, hi) := by
  simp only [broadcastLoHi]
  by_cases h1 : lo.length = 1
  · have h2 : hi.length = 1 := by omega
    match lo, hi, h1, h2 with
    | [x], [y], _, _ => simp
  · have h2 : ¬ hi.length = 1 := by omega
    simp only [h1, if_false, h2]

/-! ### rlencode -/

def bumpI (d : Int) : List Int → List Int
  | [] => []
  | x :: l => (x + d) :: l

/-- the index array `i` of `rlencode` for the sub-list `a` that starts at global position `k` -/
def rleIdx {α} [DecidableEq α] (k : Nat) (a : List α) : List Int :=
  (trueIdxFrom k (neighbourDiff a)).map (fun (j : Nat) => (j : Int)) ++ [(k : Int) + (a.length : Int) - 1]

theorem rleIdx_cons_cons {α} [DecidableEq α] (k : Nat) (x y : α) (l : List α) :
    rleIdx k (x :: y :: l) = if x = y then rleIdx (k + 1) (y :: l) else (k : Int) :: rleIdx (k + 1) (y :: l) := by
  have e : (k : Int) + ((x :: y :: l).length : Int) - 1 = ((k + 1 : Nat) : Int) + ((y :: l).length : Int) - 1 := by
    simp only [List.length_cons]; omega
  unfold rleIdx
  rw [e]
  by_cases hxy : x = y
  · simp [neighbourDiff, trueIdxFrom, hxy]
  · simp [neighbourDiff, trueIdxFrom, hxy]

theorem rleSpec_cons_head {α} [DecidableEq α] (y : α) (l : List α) :
    ∃ n r, rleSpec (y :: l) = (y, n) :: r := by
  unfold rleSpec
  cases h : rleSpec l with
  | nil => exact ⟨1, [], rfl⟩
  | cons p r =>
    obtain ⟨b, n⟩ := p
    by_cases hb : y = b
    · subst hb; exact ⟨n + 1, r, by simp⟩
    · exact ⟨1, (b, n) :: r, by simp [hb]⟩

theorem getD_of_drop_eq_cons {α} [Inhabited α] (full : List α) (k : Nat) (x : α) (a : List α)
    (h : full.drop k = x :: a) : full.getD k default = x ∧ full.drop (k + 1) = a := by
  constructor
  · have : (full.drop k).getD 0 default = x := by rw [h]; rfl
    simpa [List.getD_eq_getElem?_getD, List.getElem?_drop] using this
  · have : full.drop (k + 1) = (full.drop k).drop 1 := by simp [List.drop_drop]
    rw [this, h]; rfl

theorem rle_main {α} [DecidableEq α] [Inhabited α] (full : List α) :
    ∀ (a : List α) (k : Nat) (pv : Int), a ≠ [] → full.drop k = a →
      gather full ((rleIdx k a).map Int.toNat) = (rleSpec a).map (·.1) ∧
      diffFrom pv (rleIdx k a) = bumpI ((k : Int) - 1 - pv) ((rleSpec a).map (fun p => (p.2 : Int))) := by
  intro a
  induction a with
  | nil => intro k pv h; exact absurd rfl h
  | cons x rest ih =>
    intro k pv _ hk
    obtain ⟨hx, hk'⟩ := getD_of_drop_eq_cons full k x rest hk
    cases rest with
    | nil =>
      constructor
      · have hx' : full[k]?.getD default = x := by simpa [List.getD_eq_getElem?_getD] using hx
        simp [rleIdx, neighbourDiff, trueIdxFrom, gather, rleSpec, hx']
      · simp only [rleIdx, neighbourDiff, trueIdxFrom, List.map_nil, List.nil_append, List.length_cons,
          List.length_nil, diffFrom, rleSpec, List.map_cons, bumpI]
        congr 1; omega
    | cons y rest' =>
      obtain ⟨n, r, hr⟩ := rleSpec_cons_head y rest'
      rw [rleIdx_cons_cons]
      by_cases hxy : x = y
      · obtain ⟨h1, h2⟩ := ih (k + 1) pv (by simp) hk'
        simp only [hxy, if_true]
        have hs : rleSpec (y :: y :: rest') = (y, n + 1) :: r := by
          conv => lhs; unfold rleSpec
          rw [hr]; simp
        rw [hs]
        rw [hr] at h1 h2
        refine ⟨by simpa using h1, ?_⟩
        rw [h2]
        simp only [List.map_cons, bumpI]
        congr 1
        push_cast; omega
      · obtain ⟨h1, h2⟩ := ih (k + 1) (k : Int) (by simp) hk'
        simp only [hxy, if_false]
        have hs : rleSpec (x :: y :: rest') = (x, 1) :: (y, n) :: r := by
          conv => lhs; unfold rleSpec
          rw [hr]; simp [hxy]
        rw [hs]
        rw [hr] at h1 h2
        constructor
        · simp only [List.map_cons, Int.toNat_natCast, gather] at h1 ⊢
          rw [h1, hx]
        · simp only [diffFrom, h2, List.map_cons, bumpI]
          congr 1
          · push_cast; omega
          · congr 1; push_cast; omega

/-- decoding the runs gives the list back -/
theorem rldecodeSpec_rleSpec {α} [DecidableEq α] (a : List α) :
    rldecodeSpec ((rleSpec a).map (·.1)) ((rleSpec a).map (fun p => (p.2 : Int))) = a := by
  induction a with
  | nil => rfl
  | cons x a ih =>
    unfold rleSpec
    cases h : rleSpec a with
    | nil =>
      rw [h] at ih
      simp only [List.map_nil, rldecodeSpec] at ih
      simp [rldecodeSpec, ← ih]
    | cons p r =>
      obtain ⟨b, n⟩ := p
      rw [h] at ih
      simp only [List.map_cons, rldecodeSpec, Int.toNat_natCast] at ih
      by_cases hb : x = b
      · subst hb
        simp only [if_true, List.map_cons, rldecodeSpec, Int.toNat_natCast, List.replicate_succ,
          List.cons_append, ih]
      · simp only [hb, if_false, List.map_cons, rldecodeSpec, Int.toNat_natCast, ih]
        simp

/-- runs are maximal: neighbouring values differ; and no run is empty -/
theorem rleSpec_maximal {α} [DecidableEq α] (a : List α) :
    (neighbourDiff ((rleSpec a).map (·.1))).all id = true ∧ ∀ p ∈ rleSpec a, 1 ≤ p.2 := by
  induction a with
  | nil => simp [rleSpec, neighbourDiff]
  | cons x a ih =>
    unfold rleSpec
    cases h : rleSpec a with
    | nil => simp [neighbourDiff]
    | cons p r =>
      obtain ⟨b, n⟩ := p
      rw [h] at ih
      by_cases hb : x = b
      · subst hb
        simp only [if_true]
        refine ⟨ih.1, ?_⟩
        intro p hp
        rcases List.mem_cons.mp hp with rfl | hp
        · simp
        · exact ih.2 p (List.mem_cons_of_mem _ hp)
      · simp only [hb, if_false]
        constructor
        · simp only [List.map_cons, neighbourDiff, List.all_cons]
          simp only [List.map_cons] at ih
          simp [hb, ih.1]
        · intro p hp
          rcases List.mem_cons.mp hp with rfl | hp
          · simp
          · exact ih.2 p hp

/-! ### compressed matrices as lists of rows -/

theorem zip_map_fst_snd {α β} (l : List (α × β)) : (l.map (·.1)).zip (l.map (·.2)) = l := by
  induction l with
  | nil => rfl
  | cons a l ih => simp [ih]

/-- consecutive slices `E[p_i : p_{i+1}]` -/
def splitRows {β} : List Nat → List β → List (List β)
  | a :: b :: p, E => (E.drop a).take (b - a) :: splitRows (b :: p) E
  | _, _ => []

theorem range_map_eq_splitRows {β} (E : List β) : ∀ (n : Nat) (p : List Nat), p.length = n + 1 →
    (List.range n).map (fun i => (E.drop (p.getD i 0)).take (p.getD (i + 1) 0 - p.getD i 0)) = splitRows p E := by
  intro n
  induction n with
  | zero =>
    intro p hp
    match p, hp with
    | [a], _ => rfl
  | succ n ih =>
    intro p hp
    match p, hp with
    | a :: b :: p', hp =>
      have hp' : (b :: p').length = n + 1 := by simpa using hp
      rw [List.range_succ_eq_map, List.map_cons, List.map_map, splitRows, ← ih (b :: p') hp']
      simp [Function.comp_def]

theorem rows_eq_splitRows (A : Csr) (h : A.indptr.length = A.nrows + 1) :
    A.rows = splitRows A.indptr (A.indices.zip A.data) := by
  unfold Csr.rows
  rw [← range_map_eq_splitRows _ A.nrows A.indptr h]
  rfl

theorem ptrsFrom_eq_cons {β} (s : Nat) (R : List (List β)) : ptrsFrom s R = s :: (ptrsFrom s R).tail := by
  cases R <;> rfl

theorem length_ptrsFrom {β} (s : Nat) (R : List (List β)) : (ptrsFrom s R).length = R.length + 1 := by
  induction R generalizing s with
  | nil => rfl
  | cons r R ih => simp [ptrsFrom, ih]

theorem splitRows_ptrsFrom {β} : ∀ (R : List (List β)) (s : Nat) (pre : List β), pre.length = s →
    splitRows (ptrsFrom s R) (pre ++ R.flatten) = R := by
  intro R
  induction R with
  | nil => intro s pre _; rfl
  | cons r R ih =>
    intro s pre hs
    rw [ptrsFrom, ptrsFrom_eq_cons (s + r.length) R, splitRows, ← ptrsFrom_eq_cons]
    have h1 : (List.drop s (pre ++ (r :: R).flatten)).take (s + r.length - s) = r := by
      subst hs
      simp
    rw [h1]
    have h2 := ih (s + r.length) (pre ++ r) (by simp [hs])
    simp only [List.flatten_cons, ← List.append_assoc]
    simp only [List.append_assoc] at h2 ⊢
    rw [h2]

theorem rows_ofRows (nc : Nat) (R : List (List (Nat × Rat))) : (ofRows nc R).rows = R := by
  rw [rows_eq_splitRows _ (by simp [ofRows, length_ptrsFrom])]
  simp only [ofRows, zip_map_fst_snd]
  exact splitRows_ptrsFrom R 0 [] rfl

theorem toDense_ofRows (nc : Nat) (R : List (List (Nat × Rat))) :
    (ofRows nc R).toDense = R.map (denseRow nc) := by
  simp only [Csr.toDense, rows_ofRows]
  rfl

theorem getLastD_cons_cons {α} (a b : α) (l : List α) (d d' : α) :
    (a :: b :: l).getLastD d = (b :: l).getLastD d' := by
  rw [List.getLastD_eq_getLast?, List.getLastD_eq_getLast?, List.getLast?_cons_cons]
  rw [List.getLast?_eq_some_getLast (l := b :: l) (by simp)]
  rfl

theorem monotone_head_le_last : ∀ (p : List Nat) (a : Nat), monotone (a :: p) = true → a ≤ (a :: p).getLastD 0 := by
  intro p
  induction p with
  | nil => intro a _; simp
  | cons b p ih =>
    intro a h
    simp only [monotone, Bool.and_eq_true, decide_eq_true_eq] at h
    have := ih b h.2
    rw [getLastD_cons_cons a b p 0 0]
    omega

theorem take_drop_add {β} (E : List β) (a b c : Nat) (hab : a ≤ b) (hbc : b ≤ c) :
    (E.drop a).take (b - a) ++ (E.drop b).take (c - b) = (E.drop a).take (c - a) := by
  have e : c - a = (b - a) + (c - b) := by omega
  rw [e, List.take_add, List.drop_drop]
  congr 3
  omega

theorem splitRows_monotone {β} (E : List β) : ∀ (p : List Nat) (a : Nat), monotone (a :: p) = true →
    (a :: p).getLastD 0 ≤ E.length →
    ptrsFrom a (splitRows (a :: p) E) = a :: p ∧
    (splitRows (a :: p) E).flatten = (E.drop a).take ((a :: p).getLastD 0 - a) := by
  intro p
  induction p with
  | nil => intro a _ _; simp [splitRows, ptrsFrom]
  | cons b p ih =>
    intro a hm hl
    simp only [monotone, Bool.and_eq_true, decide_eq_true_eq] at hm
    rw [getLastD_cons_cons a b p 0 0] at hl ⊢
    obtain ⟨h1, h2⟩ := ih b hm.2 hl
    have hb := monotone_head_le_last p b hm.2
    have hlen : ((E.drop a).take (b - a)).length = b - a := by
      simp only [List.length_take, List.length_drop]; omega
    constructor
    · rw [splitRows, ptrsFrom, hlen]
      have : a + (b - a) = b := by omega
      rw [this, h1]
    · rw [splitRows, List.flatten_cons, h2, take_drop_add E a b _ hm.1 hb]

/-- column indices of all stored entries are in range -/
def RowsOk (nc : Nat) (R : List (List (Nat × Rat))) : Prop := ∀ r ∈ R, ∀ e ∈ r, e.1 < nc

theorem WF_unpack (A : Csr) (h : A.WF) :
    A.indptr.length = A.nrows + 1 ∧ A.indptr.headD 1 = 0 ∧ monotone A.indptr = true ∧
    A.indptr.getLastD 0 = A.indices.length ∧ A.indices.length = A.data.length ∧
    ∀ c ∈ A.indices, c < A.ncols := by
  simpa [Csr.WF, Csr.wfb, Bool.and_eq_true, decide_eq_true_eq, List.all_eq_true, and_assoc] using h

/-- Every well-formed compressed matrix is the compressed form of its list of rows. -/
theorem WF_eq_ofRows (A : Csr) (h : A.WF) : A = ofRows A.ncols A.rows ∧ RowsOk A.ncols A.rows := by
  obtain ⟨h1, h2, h3, h4, h5, h6⟩ := WF_unpack A h
  obtain ⟨nrows, ncols, indptr, indices, data⟩ := A
  simp only at h1 h2 h3 h4 h5 h6
  match indptr, h1, h2 with
  | a :: p, h1, h2 =>
    have ha : a = 0 := by simpa using h2
    subst ha
    have hE : (indices.zip data).length = indices.length := by simp [List.length_zip, h5]
    obtain ⟨e1, e2⟩ := splitRows_monotone (indices.zip data) p 0 h3 (by rw [hE]; omega)
    have hrows := rows_eq_splitRows ⟨nrows, ncols, 0 :: p, indices, data⟩ h1
    simp only at hrows
    have hflat : (splitRows (0 :: p) (indices.zip data)).flatten = indices.zip data := by
      rw [e2, h4, Nat.sub_zero, List.drop_zero, ← hE, List.take_length]
    constructor
    · simp only [ofRows, hrows, e1, hflat]
      have hn : (splitRows (0 :: p) (indices.zip data)).length = nrows := by
        rw [← hrows]; simp [Csr.rows]
      rw [hn]
      congr 1
      · exact (List.map_fst_zip (by omega)).symm
      · exact (List.map_snd_zip (by omega)).symm
    · intro r hr e he
      rw [hrows] at hr
      have : e ∈ (splitRows (0 :: p) (indices.zip data)).flatten := List.mem_flatten.mpr ⟨r, hr, he⟩
      rw [hflat] at this
      exact h6 e.1 (List.of_mem_zip this).1

/-! ### well-formedness of `ofRows`, stacking -/

theorem ptrsFrom_shift {β} (s t : Nat) (R : List (List β)) :
    ptrsFrom (s + t) R = (ptrsFrom s R).map (· + t) := by
  induction R generalizing s with
  | nil => rfl
  | cons r R ih =>
    simp only [ptrsFrom, List.map_cons]
    rw [← ih (s + r.length)]
    congr 2
    omega

theorem ptrsFrom_append {β} (s : Nat) (R1 R2 : List (List β)) :
    ptrsFrom s (R1 ++ R2) = ptrsFrom s R1 ++ (ptrsFrom (s + R1.flatten.length) R2).tail := by
  induction R1 generalizing s with
  | nil =>
    simpa [ptrsFrom] using ptrsFrom_eq_cons s R2
  | cons r R1 ih =>
    simp only [List.cons_append, ptrsFrom, List.flatten_cons, List.length_append, ih]
    rw [Nat.add_assoc]

theorem getLastD_ptrsFrom {β} (s d : Nat) (R : List (List β)) :
    (ptrsFrom s R).getLastD d = s + R.flatten.length := by
  induction R generalizing s d with
  | nil => simp [ptrsFrom]
  | cons r R ih =>
    rw [ptrsFrom, ptrsFrom_eq_cons, getLastD_cons_cons _ _ _ d 0, ← ptrsFrom_eq_cons, ih]
    simp [Nat.add_assoc]

theorem monotone_ptrsFrom {β} (s : Nat) (R : List (List β)) : monotone (ptrsFrom s R) = true := by
  induction R generalizing s with
  | nil => rfl
  | cons r R ih =>
    rw [ptrsFrom, ptrsFrom_eq_cons, monotone, ← ptrsFrom_eq_cons, ih]
    simp

theorem WF_ofRows (nc : Nat) (R : List (List (Nat × Rat))) (h : RowsOk nc R) : (ofRows nc R).WF := by
  have h1 : (ptrsFrom 0 R).headD 1 = 0 := by rw [ptrsFrom_eq_cons]; rfl
  have h2 : ∀ c ∈ (R.flatten.map (·.1)), c < nc := by
    intro c hc
    obtain ⟨e, he, rfl⟩ := List.mem_map.mp hc
    obtain ⟨r, hr, her⟩ := List.mem_flatten.mp he
    exact h r hr e her
  simp only [Csr.WF, Csr.wfb, ofRows, Bool.and_eq_true, decide_eq_true_eq, List.all_eq_true,
    length_ptrsFrom, monotone_ptrsFrom, getLastD_ptrsFrom, List.length_map, Nat.zero_add, h1]
  exact ⟨⟨⟨⟨⟨trivial, trivial⟩, trivial⟩, trivial⟩, trivial⟩, fun x hx => decide_eq_true (h2 x hx)⟩

theorem stackMat_ofRows (nc nc2 : Nat) (R1 R2 : List (List (Nat × Rat))) :
    stackMat (ofRows nc R1) (ofRows nc2 R2) = ofRows nc (R1 ++ R2) := by
  unfold stackMat
  by_cases h : (ofRows nc2 R2).indptr.length = 1
  · rw [if_pos h]
    have : R2 = [] := by
      simp only [ofRows, length_ptrsFrom] at h
      exact List.eq_nil_of_length_eq_zero (by omega)
    subst this
    simp
  · rw [if_neg h]
    simp only [ofRows, List.length_append, List.flatten_append, List.map_append, ptrsFrom_append,
      getLastD_ptrsFrom, Nat.zero_add]
    congr 2
    have := ptrsFrom_shift 0 R1.flatten.length R2
    rw [Nat.zero_add] at this
    rw [this, List.map_tail]

def shiftRow (k : Nat) (r : List (Nat × Rat)) : List (Nat × Rat) := r.map (fun e => (e.1 + k, e.2))

theorem stackDiag_ofRows (nc1 nc2 : Nat) (R1 R2 : List (List (Nat × Rat))) :
    stackDiag (ofRows nc1 R1) (ofRows nc2 R2) = ofRows (nc1 + nc2) (R1 ++ R2.map (shiftRow nc1)) := by
  unfold stackDiag
  by_cases hz : (ofRows nc2 R2).nrows = 0 ∧ (ofRows nc2 R2).ncols = 0
  · rw [if_pos hz]
    have h1 : R2 = [] := List.eq_nil_of_length_eq_zero hz.1
    have h2 : nc2 = 0 := hz.2
    subst h1 h2
    simp
  rw [if_neg hz]
  simp only [stackDiagGen, ofRows, List.length_append, List.length_map, List.flatten_append, List.map_append,
    ptrsFrom_append, getLastD_ptrsFrom, Nat.zero_add]
  have hlen : ∀ (s : Nat) (R : List (List (Nat × Rat))), ptrsFrom s (R.map (shiftRow nc1)) = ptrsFrom s R := by
    intro s R
    induction R generalizing s with
    | nil => rfl
    | cons r R ih => simp [ptrsFrom, ih, shiftRow]
  have := ptrsFrom_shift 0 R1.flatten.length R2
  rw [Nat.zero_add] at this
  rw [hlen, this, List.map_tail]
  congr 1
  · simp [List.map_flatten, shiftRow, Function.comp_def]
  · simp [List.map_flatten, shiftRow, Function.comp_def]

/-! ### dense rows -/

theorem entrySum_eq_zero_of_ne (j : Nat) (es : List (Nat × Rat)) (h : ∀ e ∈ es, e.1 ≠ j) : entrySum j es = 0 := by
  induction es with
  | nil => rfl
  | cons e es ih =>
    have h1 : e.1 ≠ j := h e List.mem_cons_self
    simp only [entrySum, h1, if_false, ih (fun e he => h e (List.mem_cons_of_mem _ he))]
    exact Rat.add_zero 0

theorem entrySum_shift (k j : Nat) (es : List (Nat × Rat)) :
    entrySum (k + j) (shiftRow k es) = entrySum j es := by
  induction es with
  | nil => rfl
  | cons e es ih =>
    have : (e.1 + k = k + j) ↔ (e.1 = j) := by omega
    show (if e.1 + k = k + j then e.2 else 0) + entrySum (k + j) (shiftRow k es) = _
    rw [ih]
    simp only [this, entrySum]

theorem denseRow_add_left (nc1 nc2 : Nat) (es : List (Nat × Rat)) (h : ∀ e ∈ es, e.1 < nc1) :
    denseRow (nc1 + nc2) es = denseRow nc1 es ++ List.replicate nc2 0 := by
  simp only [denseRow, List.range_add, List.map_append, List.map_map]
  congr 1
  rw [List.eq_replicate_iff]
  refine ⟨by simp, ?_⟩
  intro x hx
  obtain ⟨j, _, rfl⟩ := List.mem_map.mp hx
  exact entrySum_eq_zero_of_ne _ _ (fun e he => by have := h e he; show e.1 ≠ nc1 + j; omega)

theorem denseRow_add_right (nc1 nc2 : Nat) (es : List (Nat × Rat)) :
    denseRow (nc1 + nc2) (shiftRow nc1 es) = List.replicate nc1 0 ++ denseRow nc2 es := by
  simp only [denseRow, List.range_add, List.map_append, List.map_map]
  congr 1
  · rw [List.eq_replicate_iff]
    refine ⟨by simp, ?_⟩
    intro x hx
    obtain ⟨j, hj, rfl⟩ := List.mem_map.mp hx
    have hj' : j < nc1 := List.mem_range.mp hj
    apply entrySum_eq_zero_of_ne
    intro e he
    obtain ⟨e', _, rfl⟩ := List.mem_map.mp he
    simp only; omega
  · apply List.map_congr_left
    intro j _
    simp only [Function.comp]
    exact entrySum_shift nc1 j es

/-- case analysis used by every matrix theorem: a well-formed matrix is `ofRows` of in-range rows -/
theorem WF_cases (A : Csr) (h : A.WF) : ∃ R, A = ofRows A.ncols R ∧ RowsOk A.ncols R ∧ A.rows = R :=
  ⟨A.rows, (WF_eq_ofRows A h).1, (WF_eq_ofRows A h).2, rfl⟩

theorem RowsOk_append {nc : Nat} {R1 R2 : List (List (Nat × Rat))} (h1 : RowsOk nc R1) (h2 : RowsOk nc R2) :
    RowsOk nc (R1 ++ R2) := by
  intro r hr
  rcases List.mem_append.mp hr with h | h
  · exact h1 r h
  · exact h2 r h

theorem RowsOk_mono {nc nc' : Nat} {R : List (List (Nat × Rat))} (h : RowsOk nc R) (hle : nc ≤ nc') :
    RowsOk nc' R := fun r hr e he => Nat.lt_of_lt_of_le (h r hr e he) hle

theorem RowsOk_shift {nc k : Nat} {R : List (List (Nat × Rat))} (h : RowsOk nc R) :
    RowsOk (k + nc) (R.map (shiftRow k)) := by
  intro r hr e he
  obtain ⟨r', hr', rfl⟩ := List.mem_map.mp hr
  obtain ⟨e', he', rfl⟩ := List.mem_map.mp he
  have := h r' hr' e' he'
  simp only; omega

/-! ### line positions, slicing -/

theorem expandSpec_map {ι} (f g : ι → Int) (l : List ι) :
    expandSpec (l.map f) (l.map g) = l.flatMap (fun i => rangeI (f i) (g i)) := by
  induction l with
  | nil => rfl
  | cons a l ih => simp only [List.map_cons, expandSpec, List.flatMap_cons, ih]

theorem rangeI_natCast (a b : Nat) : (rangeI (a : Int) (b : Int)).map Int.toNat = List.range' a (b - a) := by
  have e : ((b : Int) - (a : Int)).toNat = b - a := by omega
  simp only [rangeI, e, List.map_map, List.range'_eq_map_range]
  apply List.map_congr_left
  intro k _
  simp only [Function.comp]
  omega

theorem expandIP_same_length (lo hi : List Int) (h : lo.length = hi.length) :
    expandIP lo hi = expandSpec lo hi := by
  simp only [expandIP, broadcastLoHi_same_length lo hi h, expandCore_eq_spec]

/-- storage positions of the given lines: the ranges `[indptr[i], indptr[i+1])` one after the other -/
theorem lineIdx_eq (A : Csr) (lines : List Nat) :
    A.lineIdx lines = lines.flatMap (fun i =>
      List.range' (A.indptr.getD i 0) (A.indptr.getD (i + 1) 0 - A.indptr.getD i 0)) := by
  simp only [Csr.lineIdx, Csr.ptrLo, Csr.ptrHi]
  rw [expandIP_same_length _ _ (by simp), expandSpec_map, List.map_flatMap]
  congr 1
  funext i
  exact rangeI_natCast _ _

theorem gather_range' {α} [Inhabited α] (l : List α) (a n : Nat) (h : a + n ≤ l.length) :
    gather l (List.range' a n) = (l.drop a).take n := by
  apply List.ext_getElem
  · simp [gather]; omega
  · intro k h1 h2
    simp only [gather, List.length_map, List.length_range'] at h1
    simp [gather, List.getD_eq_getElem?_getD, List.getElem?_eq_getElem (show a + k < l.length by omega)]

theorem gather_flatMap {α ι} [Inhabited α] (l : List α) (f : ι → List Nat) (is : List ι) :
    gather l (is.flatMap f) = is.flatMap (fun i => gather l (f i)) := by
  induction is with
  | nil => rfl
  | cons i is ih => simp only [List.flatMap_cons, gather_append, ih]

theorem getD_ptrsFrom {β} : ∀ (R : List (List β)) (s i : Nat), i ≤ R.length →
    (ptrsFrom s R).getD i 0 = s + (R.take i).flatten.length := by
  intro R
  induction R with
  | nil => intro s i hi; have : i = 0 := by simpa using hi
           subst this; simp [ptrsFrom]
  | cons r R ih =>
    intro s i hi
    cases i with
    | zero => simp [ptrsFrom]
    | succ i =>
      have hi' : i ≤ R.length := by simpa using hi
      simp only [ptrsFrom, List.getD_cons_succ, ih _ _ hi', List.take_succ_cons, List.flatten_cons,
        List.length_append]
      omega

theorem rowEntries_ofRows (nc : Nat) (R : List (List (Nat × Rat))) (i : Nat) (hi : i < R.length) :
    (ofRows nc R).rowEntries i = R.getD i [] := by
  have h := rows_ofRows nc R
  have h2 : ((ofRows nc R).rows).getD i [] = R.getD i [] := by rw [h]
  rw [← h2]
  simp [Csr.rows, List.getD_eq_getElem?_getD, ofRows, hi]

theorem ptr_succ_ofRows (nc : Nat) (R : List (List (Nat × Rat))) (i : Nat) (hi : i < R.length) :
    (ofRows nc R).indptr.getD (i + 1) 0 = (ofRows nc R).indptr.getD i 0 + (R.getD i []).length ∧
    (ofRows nc R).indptr.getD (i + 1) 0 ≤ R.flatten.length := by
  simp only [ofRows]
  rw [getD_ptrsFrom R 0 (i + 1) (by omega), getD_ptrsFrom R 0 i (by omega)]
  have e : R.take (i + 1) = R.take i ++ [R.getD i []] := by
    rw [List.take_add_one]
    simp [List.getD_eq_getElem?_getD, List.getElem?_eq_getElem hi]
  constructor
  · rw [e]; simp
  · have : R.flatten = (R.take (i + 1)).flatten ++ (R.drop (i + 1)).flatten := by
      rw [← List.flatten_append, List.take_append_drop]
    conv => rhs; rw [this]
    rw [List.length_append]; omega

/-- what fancy indexing with the expanded line positions picks out of a storage array -/
theorem gather_lineIdx_ofRows {γ} [Inhabited γ] (nc : Nat) (R : List (List (Nat × Rat))) (f : Nat × Rat → γ)
    (lines : List Nat) (hl : ∀ i ∈ lines, i < R.length) :
    gather (R.flatten.map f) ((ofRows nc R).lineIdx lines) = ((lines.map (fun i => R.getD i [])).flatten).map f := by
  rw [lineIdx_eq, gather_flatMap]
  induction lines with
  | nil => rfl
  | cons i lines ih =>
    have hi' := hl i List.mem_cons_self
    rw [List.flatMap_cons, List.map_cons, List.flatten_cons, List.map_append,
      ih (fun j hj => hl j (List.mem_cons_of_mem _ hj))]
    congr 1
    obtain ⟨h1, h2⟩ := ptr_succ_ofRows nc R i hi'
    rw [gather_range' _ _ _ (by simp only [List.length_map]; omega)]
    have hrow := rowEntries_ofRows nc R i hi'
    simp only [Csr.rowEntries] at hrow
    have hz : (ofRows nc R).indices.zip (ofRows nc R).data = R.flatten := by
      simp only [ofRows]; exact zip_map_fst_snd _
    rw [hz] at hrow
    rw [← List.map_drop, ← List.map_take, hrow]

theorem cumsumFrom_lengths {β} (rows : List (List β)) (s : Nat) :
    (cumsumFrom (s : Int) (rows.map (fun r => (r.length : Int)))).map Int.toNat = (ptrsFrom s rows).tail := by
  induction rows generalizing s with
  | nil => rfl
  | cons r rows ih =>
    have e : (s : Int) + (r.length : Int) = ((s + r.length : Nat) : Int) := by push_cast; rfl
    simp only [List.map_cons, cumsumFrom, ptrsFrom, List.tail_cons]
    rw [e, ih (s + r.length), Int.toNat_natCast, ← ptrsFrom_eq_cons]

theorem sliceLines_ofRows (nc : Nat) (R : List (List (Nat × Rat))) (lines : List Nat)
    (hl : ∀ i ∈ lines, i < R.length) :
    sliceLines (ofRows nc R) lines = ofRows nc (lines.map (fun i => R.getD i [])) := by
  have hd : List.zipWith (· - ·) ((ofRows nc R).ptrHi lines) ((ofRows nc R).ptrLo lines)
      = (lines.map (fun i => R.getD i [])).map (fun r => (r.length : Int)) := by
    simp only [Csr.ptrHi, Csr.ptrLo, List.zipWith_map, List.zipWith_self, List.map_map]
    apply List.map_congr_left
    intro i hi
    obtain ⟨h1, _⟩ := ptr_succ_ofRows nc R i (hl i hi)
    simp only [Function.comp]
    omega
  have h1 := gather_lineIdx_ofRows nc R (·.1) lines hl
  have h2 := gather_lineIdx_ofRows nc R (·.2) lines hl
  simp only [sliceLines, hd]
  simp only [ofRows] at h1 h2 ⊢
  rw [h1, h2]
  simp only [List.length_map, List.map_cons, cumsum]
  have := cumsumFrom_lengths (lines.map (fun i => R.getD i [])) 0
  simp only [Int.natCast_zero] at this
  rw [this, Int.toNat_zero, ← ptrsFrom_eq_cons]

theorem sliceIndices_ofRows (nc : Nat) (R : List (List (Nat × Rat))) (lines : List Nat)
    (hl : ∀ i ∈ lines, i < R.length) :
    (sliceIndices (ofRows nc R) lines).1 = ((lines.map (fun i => R.getD i [])).flatten).map (·.1) := by
  have h1 := gather_lineIdx_ofRows nc R (·.1) lines hl
  simp only [sliceIndices]
  simp only [ofRows] at h1 ⊢
  exact h1

theorem getD_map_denseRow (nc : Nat) (R : List (List (Nat × Rat))) (i : Nat) (hi : i < R.length) :
    (R.map (denseRow nc)).getD i (List.replicate nc 0) = denseRow nc (R.getD i []) := by
  simp [List.getD_eq_getElem?_getD, hi]

/-! ### zeroing lines -/

theorem flatMap_congr' {α β} {l : List α} {f g : α → List β} (h : ∀ x ∈ l, f x = g x) :
    l.flatMap f = l.flatMap g := by
  induction l with
  | nil => rfl
  | cons a l ih =>
    rw [List.flatMap_cons, List.flatMap_cons, h a List.mem_cons_self,
      ih (fun x hx => h x (List.mem_cons_of_mem _ hx))]

theorem getD_map {β γ} (f : β → γ) (l : List β) (i : Nat) (d : β) : (l.map f).getD i (f d) = f (l.getD i d) := by
  simp only [List.getD_eq_getElem?_getD, List.getElem?_map]
  cases l[i]? <;> rfl

theorem scatterConst_append_idx {α} (x : List α) (i1 i2 : List Nat) (v : α) :
    scatterConst x (i1 ++ i2) v = scatterConst (scatterConst x i1 v) i2 v := by
  induction i1 generalizing x with
  | nil => rfl
  | cons i i1 ih => simp only [List.cons_append, scatterConst, ih]

theorem scatterConst_range' {α} (v : α) : ∀ (mid pre post : List α),
    scatterConst (pre ++ mid ++ post) (List.range' pre.length mid.length) v
      = pre ++ List.replicate mid.length v ++ post := by
  intro mid
  induction mid with
  | nil => intro pre post; simp [scatterConst]
  | cons x mid ih =>
    intro pre post
    have h := ih (pre ++ [v]) post
    simp only [List.length_append, List.length_cons, List.length_nil, Nat.zero_add] at h
    simp only [List.length_cons, List.range'_succ, scatterConst, List.replicate_succ]
    have e : pre ++ x :: mid ++ post = pre ++ x :: (mid ++ post) := by simp
    rw [e, set_append_head]
    have e2 : pre ++ v :: (mid ++ post) = pre ++ [v] ++ mid ++ post := by simp
    rw [e2, h]
    simp

/-- storage positions of line `i` in the flattened rows -/
def linePos {β} (R : List (List β)) (i : Nat) : List Nat :=
  List.range' (R.take i).flatten.length (R.getD i []).length

theorem linePos_congr {β γ} (R : List (List β)) (R' : List (List γ)) (h : R.map List.length = R'.map List.length)
    (i : Nat) : linePos R i = linePos R' i := by
  have h1 : (R.take i).flatten.length = (R'.take i).flatten.length := by
    simp only [List.length_flatten, List.map_take, h]
  have h2 : (R.getD i []).length = (R'.getD i []).length := by
    have e1 := getD_map List.length R i []
    have e2 := getD_map List.length R' i []
    simp only [List.length_nil] at e1 e2
    rw [← e1, ← e2, h]
  simp only [linePos, h1, h2]

/-- `R[l] = [v, …, v]` for the given lines, one after the other -/
def setLines {β} (v : β) (R : List (List β)) : List Nat → List (List β)
  | [] => R
  | l :: ls => setLines v (R.set l (List.replicate (R.getD l []).length v)) ls

theorem flatten_set {β} (R : List (List β)) (l : Nat) (r : List β) (hl : l < R.length) :
    (R.set l r).flatten = (R.take l).flatten ++ r ++ (R.drop (l + 1)).flatten := by
  rw [List.set_eq_take_append_cons_drop, if_pos hl]
  simp

theorem flatten_split {β} (R : List (List β)) (l : Nat) (hl : l < R.length) :
    R.flatten = (R.take l).flatten ++ R.getD l [] ++ (R.drop (l + 1)).flatten := by
  have := flatten_set R l (R.getD l []) hl
  rw [← this]
  congr 1
  simp [List.getD_eq_getElem?_getD, List.getElem?_eq_getElem hl]

theorem scatterConst_lines {β} (v : β) : ∀ (lines : List Nat) (R : List (List β)), (∀ i ∈ lines, i < R.length) →
    scatterConst R.flatten (lines.flatMap (linePos R)) v = (setLines v R lines).flatten := by
  intro lines
  induction lines with
  | nil => intro R _; rfl
  | cons l lines ih =>
    intro R hl
    have hl0 : l < R.length := hl l List.mem_cons_self
    rw [List.flatMap_cons, scatterConst_append_idx, setLines]
    have h1 : scatterConst R.flatten (linePos R l) v
        = (R.set l (List.replicate (R.getD l []).length v)).flatten := by
      rw [flatten_set _ _ _ hl0]
      conv => lhs; rw [flatten_split R l hl0]
      exact scatterConst_range' v _ _ _
    rw [h1]
    have hlen : (R.set l (List.replicate (R.getD l []).length v)).map List.length = R.map List.length := by
      rw [List.map_set, List.length_replicate]
      apply List.ext_getElem
      · simp
      · intro k h1 h2
        simp only [List.getElem_set, List.getElem_map]
        split
        · next h => subst h; simp [List.getD_eq_getElem?_getD, List.getElem?_eq_getElem hl0]
        · rfl
    have hpos : lines.flatMap (linePos R) = lines.flatMap (linePos (R.set l (List.replicate (R.getD l []).length v))) := by
      apply flatMap_congr'
      intro i _
      exact (linePos_congr _ _ hlen i).symm
    rw [hpos]
    apply ih
    intro i hi
    rw [List.length_set]
    exact hl i (List.mem_cons_of_mem _ hi)

theorem lineIdx_ofRows (nc : Nat) (R : List (List (Nat × Rat))) (lines : List Nat)
    (hl : ∀ i ∈ lines, i < R.length) : (ofRows nc R).lineIdx lines = lines.flatMap (linePos R) := by
  rw [lineIdx_eq]
  apply flatMap_congr'
  intro i hi
  obtain ⟨h1, _⟩ := ptr_succ_ofRows nc R i (hl i hi)
  have h0 : (ofRows nc R).indptr.getD i 0 = (R.take i).flatten.length := by
    simp only [ofRows]
    rw [getD_ptrsFrom R 0 i (by have := hl i hi; omega)]
    omega
  simp only [linePos, h1, h0]
  congr 1
  omega

/-- rows with the values of the given lines zeroed (structure kept) -/
def zeroRowsR (R : List (List (Nat × Rat))) : List Nat → List (List (Nat × Rat))
  | [] => R
  | l :: ls => zeroRowsR (R.set l ((R.getD l []).map (fun e => (e.1, (0 : Rat))))) ls

theorem zeroRowsR_fst (R : List (List (Nat × Rat))) (lines : List Nat) :
    (zeroRowsR R lines).map (List.map (·.1)) = R.map (List.map (·.1)) := by
  induction lines generalizing R with
  | nil => rfl
  | cons l lines ih =>
    rw [zeroRowsR, ih, List.map_set]
    apply List.ext_getElem
    · simp
    · intro k h1 h2
      simp only [List.getElem_set, List.getElem_map]
      split
      · next h =>
        subst h
        have hl : l < R.length := by simpa using h2
        simp [List.getD_eq_getElem?_getD, List.getElem?_eq_getElem hl, Function.comp_def]
      · rfl

theorem zeroRowsR_snd (R : List (List (Nat × Rat))) (lines : List Nat) :
    (zeroRowsR R lines).map (List.map (·.2)) = setLines 0 (R.map (List.map (·.2))) lines := by
  induction lines generalizing R with
  | nil => rfl
  | cons l lines ih =>
    rw [zeroRowsR, ih, setLines, List.map_set]
    congr 2
    have := getD_map (List.map (fun (e : Nat × Rat) => e.2)) R l []
    simp only [List.map_nil] at this
    rw [this, List.map_map, List.length_map]
    rw [List.eq_replicate_iff]
    refine ⟨by simp, ?_⟩
    intro b hb
    obtain ⟨e, _, rfl⟩ := List.mem_map.mp hb
    rfl

theorem ofRows_eq_of_maps (R R' : List (List (Nat × Rat)))
    (h1 : R.map (List.map (·.1)) = R'.map (List.map (·.1)))
    (h2 : R.map (List.map (·.2)) = R'.map (List.map (·.2))) : R = R' := by
  have e : ∀ (Q : List (List (Nat × Rat))), Q = List.zipWith List.zip (Q.map (List.map (·.1))) (Q.map (List.map (·.2))) := by
    intro Q
    induction Q with
    | nil => rfl
    | cons q Q ih => simp only [List.map_cons, List.zipWith_cons_cons, zip_map_fst_snd, ← ih]
  rw [e R, e R', h1, h2]

theorem zeroLines_ofRows (nc : Nat) (R : List (List (Nat × Rat))) (lines : List Nat)
    (hl : ∀ i ∈ lines, i < R.length) : zeroLines (ofRows nc R) lines = ofRows nc (zeroRowsR R lines) := by
  have hlen : (zeroRowsR R lines).map List.length = R.map List.length := by
    have := congrArg (List.map List.length) (zeroRowsR_fst R lines)
    simpa [List.map_map, Function.comp_def] using this
  have hp : ∀ (s : Nat) (Q Q' : List (List (Nat × Rat))), Q.map List.length = Q'.map List.length →
      ptrsFrom s Q = ptrsFrom s Q' := by
    intro s Q
    induction Q generalizing s with
    | nil => intro Q' h; cases Q' with
      | nil => rfl
      | cons q Q' => simp at h
    | cons q Q ih => intro Q' h; cases Q' with
      | nil => simp at h
      | cons q' Q' =>
        simp only [List.map_cons, List.cons.injEq] at h
        simp only [ptrsFrom, h.1, ih _ Q' h.2]
  have hidx := lineIdx_ofRows nc R lines hl
  have hpos : lines.flatMap (linePos R) = lines.flatMap (linePos (R.map (List.map (·.2)))) := by
    apply flatMap_congr'
    intro i _
    exact linePos_congr _ _ (by simp [List.map_map, Function.comp_def]) i
  have hsc := scatterConst_lines (0 : Rat) lines (R.map (List.map (·.2))) (by simpa using hl)
  simp only [zeroLines]
  rw [hidx, hpos]
  simp only [ofRows, List.map_flatten] at hsc ⊢
  rw [hsc, ← zeroRowsR_snd, ← zeroRowsR_fst R lines, hp 0 _ _ hlen]
  have : (zeroRowsR R lines).length = R.length := by
    have := congrArg List.length hlen
    simpa using this
  rw [this]

theorem entrySum_zero_vals (j : Nat) (es : List (Nat × Rat)) :
    entrySum j (es.map (fun e => (e.1, (0 : Rat)))) = 0 := by
  induction es with
  | nil => rfl
  | cons e es ih => simp only [List.map_cons, entrySum, ite_self]; rw [ih]; exact Rat.add_zero 0

theorem zeroRowsR_dense (nc : Nat) (R : List (List (Nat × Rat))) (lines : List Nat)
    (hl : ∀ i ∈ lines, i < R.length) :
    (zeroRowsR R lines).map (denseRow nc) = zeroRowsDense (R.map (denseRow nc)) lines := by
  induction lines generalizing R with
  | nil => rfl
  | cons l lines ih =>
    have hl0 : l < R.length := hl l List.mem_cons_self
    rw [zeroRowsR, zeroRowsDense, ih _ (by
      intro i hi; rw [List.length_set]; exact hl i (List.mem_cons_of_mem _ hi)), List.map_set]
    congr 2
    have hz : ∀ (es : List (Nat × Rat)), denseRow nc (es.map (fun e => (e.1, (0 : Rat)))) = List.replicate nc 0 := by
      intro es
      simp only [denseRow]
      rw [List.eq_replicate_iff]
      refine ⟨by simp, ?_⟩
      intro x hx
      obtain ⟨j, _, rfl⟩ := List.mem_map.mp hx
      exact entrySum_zero_vals j es
    rw [hz]
    have : (R.map (denseRow nc)).getD l [] = denseRow nc (R.getD l []) := by
      simp [List.getD_eq_getElem?_getD, hl0]
    rw [this]
    symm
    rw [List.eq_replicate_iff]
    refine ⟨by simp [denseRow], ?_⟩
    intro b hb
    obtain ⟨e, _, rfl⟩ := List.mem_map.mp hb
    rfl

/-! ### expand_indices_nd / add_increment / Kronecker -/

theorem ravelF_map_rows (n : Nat) (g : Nat → Int → Int) (x : List Int) :
    ravelF ((List.range n).map (fun d => x.map (g d))) x.length
      = x.flatMap (fun v => (List.range n).map (fun d => g d v)) := by
  induction x with
  | nil => simp [ravelF]
  | cons v x ih =>
    simp only [ravelF, List.length_cons, List.range_succ_eq_map, List.flatMap_cons, List.map_cons,
      List.flatMap_map, List.map_map] at ih ⊢
    congr 1

theorem flatMap_singleton_id (l : List Int) : l.flatMap (fun i => [i]) = l := by
  induction l with
  | nil => rfl
  | cons a l ih => simp [List.flatMap_cons, ih]

theorem expandIndicesNd_F (ind : List Int) (nd : Nat) :
    expandIndicesNd ind nd true = expandNdSpecF ind nd := by
  unfold expandIndicesNd expandNdSpecF
  by_cases h : nd = 1
  · subst h
    simp only [if_true]
    have : (fun (i : Int) => (List.range 1).map (fun (d : Nat) => ((1 : Nat) : Int) * i + (d : Int))) = fun i => [i] := by
      funext i; simp [List.range_succ]
    rw [this, flatMap_singleton_id]
  · simp only [h, if_false, if_true]
    exact ravelF_map_rows nd (fun d i => (nd : Int) * i + (d : Int)) ind

theorem expandIndicesNd_C (ind : List Int) (nd : Nat) (h : nd ≠ 1) :
    expandIndicesNd ind nd false = expandNdSpecC ind nd := by
  unfold expandIndicesNd expandNdSpecC
  simp only [h, if_false, Bool.false_eq_true, List.flatMap_def]

theorem expandIndicesIncr_eq (x : List Int) (n : Nat) (incr : Int) :
    expandIndicesIncr x n incr = expandIncrSpec x n incr := by
  unfold expandIndicesIncr expandIncrSpec
  exact ravelF_map_rows n (fun d v => v + incr * (d : Int)) x

theorem range_mul (a b : Nat) :
    List.range (a * b) = (List.range a).flatMap (fun j => (List.range b).map (fun e => j * b + e)) := by
  induction a with
  | zero => simp
  | succ a ih =>
    rw [Nat.succ_mul, List.range_add, ih, List.range_succ, List.flatMap_append]
    simp

theorem entrySum_kron (nd d e j : Nat) (hd : d < nd) (he : e < nd) (es : List (Nat × Rat)) :
    entrySum (j * nd + e) (es.map (fun p => (p.1 * nd + d, p.2))) = if e = d then entrySum j es else 0 := by
  induction es with
  | nil => simp [entrySum]
  | cons p es ih =>
    simp only [List.map_cons, entrySum, ih]
    have key : (p.1 * nd + d = j * nd + e) ↔ (p.1 = j ∧ e = d) := by
      constructor
      · intro h
        have h1 : (p.1 * nd + d) / nd = (j * nd + e) / nd := by rw [h]
        have h2 : (p.1 * nd + d) % nd = (j * nd + e) % nd := by rw [h]
        rw [Nat.mul_comm p.1, Nat.mul_comm j, Nat.mul_add_div (by omega), Nat.mul_add_div (by omega),
          Nat.div_eq_of_lt hd, Nat.div_eq_of_lt he] at h1
        rw [Nat.mul_comm p.1, Nat.mul_comm j, Nat.mul_add_mod, Nat.mul_add_mod, Nat.mod_eq_of_lt hd,
          Nat.mod_eq_of_lt he] at h2
        omega
      · rintro ⟨rfl, rfl⟩; rfl
    by_cases hed : e = d
    · subst hed
      simp only [if_true]
      have : (p.1 * nd + e = j * nd + e) ↔ p.1 = j := by rw [key]; simp
      simp only [this]
    · have : ¬ (p.1 * nd + d = j * nd + e) := by rw [key]; exact fun h => hed h.2
      simp only [this, hed, if_false]
      exact Rat.add_zero 0

theorem denseRow_kron (nc nd d : Nat) (hd : d < nd) (es : List (Nat × Rat)) :
    denseRow (nc * nd) (es.map (fun p => (p.1 * nd + d, p.2)))
      = (denseRow nc es).flatMap (fun v => (List.range nd).map (fun e => if e = d then v else 0)) := by
  simp only [denseRow, range_mul, List.map_flatMap, List.flatMap_map, List.map_map]
  apply flatMap_congr'
  intro j _
  apply List.map_congr_left
  intro e he
  exact entrySum_kron nd d e j hd (List.mem_range.mp he) es

theorem kronI_dense (A : Csr) (nd : Nat) : (kronI A nd).toDense = kronDense A.toDense nd := by
  rw [kronI, toDense_ofRows]
  simp only [kronDense, Csr.toDense, List.map_flatMap, List.flatMap_map, List.map_map]
  apply flatMap_congr'
  intro es _
  apply List.map_congr_left
  intro d hd
  exact denseRow_kron A.ncols nd d (List.mem_range.mp hd) es

/-! ### block-diagonal construction from sparse blocks -/

/-- rows of the block-diagonal matrix: the rows of every block, columns shifted by the running offset -/
def blkRows (ioff : Nat) : List (Nat × List (List (Nat × Rat))) → List (List (Nat × Rat))
  | [] => []
  | (nc, R) :: rest => R.map (shiftRow ioff) ++ blkRows (ioff + nc) rest

theorem ptrsFrom_map_shiftRow (k s : Nat) (R : List (List (Nat × Rat))) :
    ptrsFrom s (R.map (shiftRow k)) = ptrsFrom s R := by
  induction R generalizing s with
  | nil => rfl
  | cons r R ih => simp [ptrsFrom, ih, shiftRow]

theorem tail_append_of_ne_nil {α} (a b : List α) (h : a ≠ []) : (a ++ b).tail = a.tail ++ b := by
  cases a with
  | nil => exact absurd rfl h
  | cons x a => rfl

theorem blockArrays_ofRows : ∀ (Rs : List (Nat × List (List (Nat × Rat)))) (ioff poff : Nat),
    blockArrays ioff poff (Rs.map (fun p => ofRows p.1 p.2))
      = ((ptrsFrom poff (blkRows ioff Rs)).tail, (blkRows ioff Rs).flatten.map (·.1),
         (blkRows ioff Rs).flatten.map (·.2)) := by
  intro Rs
  induction Rs with
  | nil => intro ioff poff; rfl
  | cons p Rs ih =>
    intro ioff poff
    obtain ⟨nc, R⟩ := p
    simp only [List.map_cons, blockArrays, ih, blkRows]
    have h1 : (ofRows nc R).indptr.getLastD 0 = R.flatten.length := by
      simp only [ofRows]; rw [getLastD_ptrsFrom, Nat.zero_add]
    have h2 : (ofRows nc R).ncols = nc := rfl
    have hlen : (R.map (shiftRow ioff)).flatten.length = R.flatten.length := by
      simp [List.length_flatten, List.map_map, Function.comp_def, shiftRow]
    rw [h1, h2, ptrsFrom_append, tail_append_of_ne_nil _ _ (by rw [ptrsFrom_eq_cons]; simp),
      ptrsFrom_map_shiftRow, hlen]
    have h3 : (ofRows nc R).indptr.tail.map (· + poff) = (ptrsFrom poff R).tail := by
      have := ptrsFrom_shift 0 poff R
      rw [Nat.zero_add] at this
      simp only [ofRows]
      rw [this, List.map_tail]
    rw [h3]
    simp only [List.flatten_append, List.map_append, Prod.mk.injEq, true_and]
    constructor
    · congr 1
      simp [ofRows, List.map_flatten, shiftRow, Function.comp_def]
    · congr 1
      simp [ofRows, List.map_flatten, shiftRow, Function.comp_def]

theorem length_blkRows (ioff : Nat) (Rs : List (Nat × List (List (Nat × Rat)))) :
    (blkRows ioff Rs).length = sumN (Rs.map (fun p => p.2.length)) := by
  induction Rs generalizing ioff with
  | nil => rfl
  | cons p Rs ih => obtain ⟨nc, R⟩ := p; simp [blkRows, sumN, ih]

theorem blkRows_shift (a b : Nat) (Rs : List (Nat × List (List (Nat × Rat)))) :
    blkRows (a + b) Rs = (blkRows b Rs).map (shiftRow a) := by
  induction Rs generalizing b with
  | nil => rfl
  | cons p Rs ih =>
    obtain ⟨nc, R⟩ := p
    simp only [blkRows, List.map_append, List.map_map]
    rw [Nat.add_assoc, ih]
    congr 1
    apply List.map_congr_left
    intro r _
    simp [shiftRow, Function.comp_def, Nat.add_assoc, Nat.add_comm b a]

theorem shiftRow_zero (r : List (Nat × Rat)) : shiftRow 0 r = r := by
  simp [shiftRow]

/-- dense form of the block rows: the recursive dense block-diagonal matrix -/
theorem blkRows_dense : ∀ (Rs : List (Nat × List (List (Nat × Rat)))), (∀ p ∈ Rs, RowsOk p.1 p.2) →
    (blkRows 0 Rs).map (denseRow (sumN (Rs.map (·.1))))
      = (blockDiagDense (Rs.map (fun p => (p.2.map (denseRow p.1), p.1)))).1 ∧
    (blockDiagDense (Rs.map (fun p => (p.2.map (denseRow p.1), p.1)))).2 = sumN (Rs.map (·.1)) := by
  intro Rs
  induction Rs with
  | nil => intro _; exact ⟨rfl, rfl⟩
  | cons p Rs ih =>
    intro hok
    obtain ⟨nc, R⟩ := p
    obtain ⟨ih1, ih2⟩ := ih (fun q hq => hok q (List.mem_cons_of_mem _ hq))
    have okR : RowsOk nc R := hok (nc, R) List.mem_cons_self
    simp only [List.map_cons, blockDiagDense, blkRows, sumN, List.map_append, List.map_map, ih2, diagDense]
    refine ⟨?_, trivial⟩
    congr 1
    · apply List.map_congr_left
      intro r hr
      simp only [Function.comp, shiftRow_zero]
      exact denseRow_add_left nc _ r (okR r hr)
    · rw [← ih1]
      have := blkRows_shift nc 0 Rs
      rw [Nat.add_zero] at this
      rw [Nat.zero_add, this, List.map_map, List.map_map]
      apply List.map_congr_left
      intro r _
      simp only [Function.comp]
      exact denseRow_add_right nc _ r

theorem RowsOk_blkRows : ∀ (Rs : List (Nat × List (List (Nat × Rat)))) (ioff : Nat), (∀ p ∈ Rs, RowsOk p.1 p.2) →
    RowsOk (ioff + sumN (Rs.map (·.1))) (blkRows ioff Rs) := by
  intro Rs
  induction Rs with
  | nil => intro ioff _ r hr; cases hr
  | cons p Rs ih =>
    intro ioff hok
    obtain ⟨nc, R⟩ := p
    simp only [blkRows, List.map_cons, sumN]
    apply RowsOk_append
    · have := RowsOk_shift (k := ioff) (hok (nc, R) List.mem_cons_self)
      exact RowsOk_mono this (by simp only; omega)
    · have := ih (ioff + nc) (fun q hq => hok q (List.mem_cons_of_mem _ hq))
      rw [Nat.add_assoc] at this
      exact this

/-! ### block_diag_index for square blocks -/

theorem tile_eq_flatMap {α} (a : List α) (n : Nat) : tile a n = (List.range n).flatMap (fun _ => a) := by
  induction n with
  | zero => rfl
  | succ n ih =>
    rw [tile, ih, List.range_succ_eq_map, List.flatMap_cons, List.flatMap_map]

theorem blockDiagIndexSq_eq (off : Nat) (m : List Nat) :
    blockDiagIndexSq off m = (bdiSpec off off m m).map (·.1) := by
  induction m generalizing off with
  | nil => rfl
  | cons s m ih =>
    simp only [blockDiagIndexSq, bdiSpec, List.map_append, ih, tile_eq_flatMap, List.map_flatMap, List.map_map]
    congr 1
    apply flatMap_congr'
    intro c _
    simp [List.range'_eq_map_range, Function.comp_def]

theorem expand_index_pointers_same_length (lo hi : List Int) (h : lo.length = hi.length) :
    expandIndexPointers lo hi = .ok (expandSpec lo hi) := by
  have hb : broadcastLoHi lo hi = (lo, hi) := broadcastLoHi_same_length lo hi h
  simp only [expandIndexPointers, hb, h, ne_eq, not_true_eq_false, if_false, expandCore_eq_spec]

theorem rldecode_eq_repeat' {α} [Inhabited α] (a : List α) (n : List Int) (h : n.length ≤ a.length) :
    rldecode a n = .ok (rldecodeSpec a n) := by
  have hidx := rldecode_idx n
  simp only at hidx
  have hall : (repeatSpec (whereTrue (n.map (fun c => decide (0 < c)))) (posCounts n)).any
      (fun k => decide (a.length ≤ k)) = false := by
    rw [List.any_eq_false]
    intro k hk
    have hm := mem_repeatSpec _ _ k hk
    have := trueIdxFrom_bounds 0 _ k hm
    simp only [List.length_map] at this
    simp only [decide_eq_true_eq]; omega
  simp only [rldecode, hidx, hall, gather_repeatSpec, Bool.false_eq_true, if_false]
  simp only [whereTrue]
  rw [repeatSpec_pos_eq_spec a n a 0 rfl h]

/-! ### block_diag_index with rectangular blocks -/

theorem expandSpec_append (lo1 hi1 lo2 hi2 : List Int) (h : lo1.length = hi1.length) :
    expandSpec (lo1 ++ lo2) (hi1 ++ hi2) = expandSpec lo1 hi1 ++ expandSpec lo2 hi2 := by
  induction lo1 generalizing hi1 with
  | nil => cases hi1 with
    | nil => simp [expandSpec]
    | cons _ _ => simp at h
  | cons l lo1 ih => cases hi1 with
    | nil => simp at h
    | cons x hi1 =>
      simp only [List.cons_append, expandSpec, List.append_assoc]
      rw [ih hi1 (by simpa using h)]

theorem expandSpec_replicate (c : Nat) (a b : Int) :
    expandSpec (List.replicate c a) (List.replicate c b) = (List.range c).flatMap (fun _ => rangeI a b) := by
  induction c with
  | zero => rfl
  | succ c ih =>
    simp only [List.replicate_succ, expandSpec, ih, List.range_succ_eq_map, List.flatMap_cons, List.flatMap_map]

theorem rldecodeSpec_append {α} (a1 a2 : List α) (n1 n2 : List Int) (h : a1.length = n1.length) :
    rldecodeSpec (a1 ++ a2) (n1 ++ n2) = rldecodeSpec a1 n1 ++ rldecodeSpec a2 n2 := by
  induction a1 generalizing n1 with
  | nil => cases n1 with
    | nil => simp [rldecodeSpec]
    | cons _ _ => simp at h
  | cons x a1 ih => cases n1 with
    | nil => simp at h
    | cons c n1 =>
      simp only [List.cons_append, rldecodeSpec, List.append_assoc]
      rw [ih n1 (by simpa using h)]

theorem rldecodeSpec_replicate {α} (a : List α) (c : Int) :
    rldecodeSpec a (List.replicate a.length c) = a.flatMap (fun x => List.replicate c.toNat x) := by
  induction a with
  | nil => rfl
  | cons x a ih => simp only [List.length_cons, List.replicate_succ, rldecodeSpec, ih, List.flatMap_cons]

theorem length_rldecodeSpec {α} (a : List α) (n : List Nat) (h : n.length ≤ a.length) :
    (rldecodeSpec a (n.map (fun (c : Nat) => (c : Int)))).length = sumN n := by
  induction n generalizing a with
  | nil => cases a <;> rfl
  | cons c n ih => cases a with
    | nil => simp at h
    | cons x a =>
      simp only [List.map_cons, rldecodeSpec, List.length_append, List.length_replicate, Int.toNat_natCast,
        sumN, ih a (by simpa using h)]

theorem rangeI_nat (a k : Nat) : rangeI (a : Int) ((a : Int) + (k : Int)) = (List.range k).map (fun (r : Nat) => ((a + r : Nat) : Int)) := by
  have e : ((a : Int) + (k : Int) - (a : Int)).toNat = k := by omega
  simp only [rangeI, e]
  apply List.map_congr_left
  intro r _
  push_cast; rfl

theorem rangeI_split (a : Int) (x y : Nat) :
    rangeI a (a + ((x : Int) + (y : Int))) = rangeI a (a + (x : Int)) ++ rangeI (a + (x : Int)) (a + (x : Int) + (y : Int)) := by
  have e1 : (a + ((x : Int) + (y : Int)) - a).toNat = x + y := by omega
  have e2 : (a + (x : Int) - a).toNat = x := by omega
  have e3 : (a + (x : Int) + (y : Int) - (a + (x : Int))).toNat = y := by omega
  simp only [rangeI, e1, e2, e3, List.range_add, List.map_append, List.map_map]
  congr 1
  apply List.map_congr_left
  intro r _
  simp only [Function.comp]
  push_cast; omega

theorem sumI_natCast (n : List Nat) : sumI (n.map (fun (c : Nat) => (c : Int))) = ((sumN n : Nat) : Int) := by
  induction n with
  | nil => rfl
  | cons c n ih => simp only [List.map_cons, sumI, sumN, ih]; push_cast; rfl

theorem dropLast_cons_cons {α} (a b : α) (l : List α) : (a :: b :: l).dropLast = a :: (b :: l).dropLast := rfl

theorem cumsumFrom_cons' (s x : Int) (l : List Int) : cumsumFrom s (x :: l) = (s + x) :: cumsumFrom (s + x) l := rfl

theorem bdi_rows : ∀ (m n : List Nat) (ro co : Nat), m.length = n.length →
    expandSpec
        (rldecodeSpec (((ro : Int) :: cumsumFrom (ro : Int) (m.map (fun (c : Nat) => (c : Int)))).dropLast)
          (n.map (fun (c : Nat) => (c : Int))))
        ((rldecodeSpec ((cumsumFrom (ro : Int) (m.map (fun (c : Nat) => (c : Int)))).map (· - 1))
          (n.map (fun (c : Nat) => (c : Int)))).map (· + 1))
      = (bdiSpec ro co m n).map (fun p => ((p.1 : Nat) : Int)) := by
  intro m
  induction m with
  | nil => intro n ro co h; cases n with
    | nil => rfl
    | cons _ _ => simp at h
  | cons mk m ih =>
    intro n ro co h
    cases n with
    | nil => simp at h
    | cons nk n =>
      have h' : m.length = n.length := by simpa using h
      have e0 : (ro : Int) + (mk : Int) = ((ro + mk : Nat) : Int) := by push_cast; rfl
      have ih' := ih n (ro + mk) (co + nk) h'
      rw [← e0] at ih'
      simp only [List.map_cons, cumsumFrom_cons', dropLast_cons_cons, rldecodeSpec, Int.toNat_natCast,
        List.map_append, List.map_replicate, bdiSpec]
      rw [expandSpec_append _ _ _ _ (by simp), ih', expandSpec_replicate]
      congr 1
      rw [List.map_flatMap]
      apply flatMap_congr'
      intro c _
      have e1 : (ro : Int) + (mk : Int) - 1 + 1 = (ro : Int) + (mk : Int) := by omega
      rw [e1, rangeI_nat, List.map_map]
      rfl

theorem bdi_cols : ∀ (m n : List Nat) (ro co : Nat), m.length = n.length →
    rldecodeSpec (rangeI (co : Int) ((co : Int) + sumI (n.map (fun (c : Nat) => (c : Int)))))
        (rldecodeSpec (m.map (fun (c : Nat) => (c : Int))) (n.map (fun (c : Nat) => (c : Int))))
      = (bdiSpec ro co m n).map (fun p => ((p.2 : Nat) : Int)) := by
  intro m
  induction m with
  | nil => intro n ro co h; cases n with
    | nil => simp [rldecodeSpec, bdiSpec]
    | cons _ _ => simp at h
  | cons mk m ih =>
    intro n ro co h
    cases n with
    | nil => simp at h
    | cons nk n =>
      have h' : m.length = n.length := by simpa using h
      have e0 : (co : Int) + (nk : Int) = ((co + nk : Nat) : Int) := by push_cast; rfl
      have ih' := ih n (ro + mk) (co + nk) h'
      rw [← e0] at ih'
      simp only [List.map_cons, sumI, rldecodeSpec, Int.toNat_natCast, bdiSpec, List.map_append]
      rw [sumI_natCast, rangeI_split]
      rw [sumI_natCast] at ih'
      have hl : (rangeI (co : Int) ((co : Int) + (nk : Int))).length = (List.replicate nk ((mk : Nat) : Int)).length := by
        rw [rangeI_nat]; simp
      rw [rldecodeSpec_append _ _ _ _ hl, ih']
      congr 1
      have hl2 : (rangeI (co : Int) ((co : Int) + (nk : Int))).length = nk := by rw [rangeI_nat]; simp
      have hrep := rldecodeSpec_replicate (rangeI (co : Int) ((co : Int) + (nk : Int))) ((mk : Nat) : Int)
      rw [hl2] at hrep
      rw [hrep]
      rw [rangeI_nat, List.flatMap_map, List.map_flatMap]
      apply flatMap_congr'
      intro c _
      simp [List.map_const', Function.comp_def]

theorem blockDiagIndex_eq (m n : List Nat) (h : m.length = n.length) :
    blockDiagIndex (m.map (fun (c : Nat) => (c : Int))) (n.map (fun (c : Nat) => (c : Int)))
      = .ok ((bdiSpec 0 0 m n).map (fun p => ((p.1 : Nat) : Int)), (bdiSpec 0 0 m n).map (fun p => ((p.2 : Nat) : Int))) := by
  have hlc : ∀ (s : Int) (l : List Int), (cumsumFrom s l).length = l.length := by
    intro s l; induction l generalizing s with
    | nil => rfl
    | cons a l ih => simp [cumsumFrom, ih]
  have hpos : cumsum (0 :: m.map (fun (c : Nat) => (c : Int))) = (0 : Int) :: cumsumFrom 0 (m.map (fun (c : Nat) => (c : Int))) := by
    simp [cumsum, cumsumFrom]
  have h1 : (n.map (fun (c : Nat) => (c : Int))).length ≤ ((0 : Int) :: cumsumFrom 0 (m.map (fun (c : Nat) => (c : Int)))).dropLast.length := by
    simp [hlc, h]
  have h2 : (n.map (fun (c : Nat) => (c : Int))).length ≤ ((cumsumFrom 0 (m.map (fun (c : Nat) => (c : Int)))).map (· - 1)).length := by
    simp [hlc, h]
  have h3 : (n.map (fun (c : Nat) => (c : Int))).length ≤ (m.map (fun (c : Nat) => (c : Int))).length := by simp [h]
  have h4 : (rldecodeSpec (m.map (fun (c : Nat) => (c : Int))) (n.map (fun (c : Nat) => (c : Int)))).length
      ≤ (rangeI 0 (sumI (n.map (fun (c : Nat) => (c : Int))))).length := by
    rw [length_rldecodeSpec _ _ (by simp [h]), sumI_natCast]
    simp [rangeI]
  have r1 := bdi_rows m n 0 0 h
  have r2 := bdi_cols m n 0 0 h
  simp only [Int.natCast_zero, Int.zero_add] at r1 r2
  simp only [blockDiagIndex, hpos, List.tail_cons, bind, Except.bind, rldecode_eq_repeat' _ _ h1,
    rldecode_eq_repeat' _ _ h2, rldecode_eq_repeat' _ _ h3, rldecode_eq_repeat' _ _ h4]
  rw [expand_index_pointers_same_length]
  · simp only [r1, r2, pure, Except.pure]
  · simp [length_rldecodeSpec, hlc, h]

/-! ### merge_matrices: vector lemmas -/

theorem length_scatter {α} (x : List α) (idx : List Nat) (vals : List α) : (scatter x idx vals).length = x.length := by
  induction idx generalizing x vals with
  | nil => cases vals <;> rfl
  | cons i is ih => cases vals with
    | nil => rfl
    | cons v vs => simp [scatter, ih]

theorem lookup_zip_of_not_mem {β} (j : Nat) (idx : List Nat) (vals : List β) (h : j ∉ idx) :
    (idx.zip vals).lookup j = none := by
  induction idx generalizing vals with
  | nil => rfl
  | cons i is ih => cases vals with
    | nil => rfl
    | cons v vs =>
      have h1 : j ≠ i := fun e => h (e ▸ List.mem_cons_self)
      have h2 : j ∉ is := fun e => h (List.mem_cons_of_mem _ e)
      simp only [List.zip_cons_cons, List.lookup_cons]
      have : (j == i) = false := by simpa using h1
      rw [this]; exact ih vs h2

theorem scatter_eq_map {α} (z : α) : ∀ (idx : List Nat) (vals x : List α), idx.Nodup → (∀ i ∈ idx, i < x.length) →
    idx.length = vals.length →
    scatter x idx vals = (List.range x.length).map (fun j => ((idx.zip vals).lookup j).getD (x.getD j z)) := by
  intro idx
  induction idx with
  | nil =>
    intro vals x _ _ _
    cases vals with
    | nil =>
      simp only [scatter, List.zip_nil_left, List.lookup_nil, Option.getD_none]
      apply List.ext_getElem
      · simp
      · intro k h1 h2
        simp only [List.length_map, List.length_range] at h2
        simp [List.getD_eq_getElem?_getD, List.getElem?_eq_getElem h1]
    | cons _ _ => simp at *
  | cons i is ih =>
    intro vals x hnd hlt hlen
    cases vals with
    | nil => simp at hlen
    | cons v vs =>
      have hi : i < x.length := hlt i List.mem_cons_self
      have hnd' := (List.nodup_cons.mp hnd)
      rw [scatter, ih vs (x.set i v) hnd'.2 (by
        intro k hk; rw [List.length_set]; exact hlt k (List.mem_cons_of_mem _ hk)) (by simpa using hlen),
        List.length_set]
      apply List.map_congr_left
      intro j hj
      have hj' : j < x.length := List.mem_range.mp hj
      simp only [List.zip_cons_cons, List.lookup_cons]
      by_cases hji : j = i
      · subst hji
        rw [lookup_zip_of_not_mem j is vs hnd'.1]
        simp [List.getD_eq_getElem?_getD, hj']
      · have : (j == i) = false := by simpa using hji
        rw [this]
        simp only [List.getD_eq_getElem?_getD]
        rw [List.getElem?_set_ne (fun e => hji e.symm)]

theorem scatter_succ {α} (a : α) (x : List α) (idx : List Nat) (vals : List α) :
    scatter (a :: x) (idx.map (· + 1)) vals = a :: scatter x idx vals := by
  induction idx generalizing x vals with
  | nil => cases vals <;> rfl
  | cons i is ih => cases vals with
    | nil => rfl
    | cons v vs => simp only [List.map_cons, scatter, List.set_cons_succ, ih]

theorem lookup_zip_map {β} (j : Nat) (idx : List Nat) (g : Nat → β) :
    (idx.zip (idx.map g)).lookup j = if j ∈ idx then some (g j) else none := by
  induction idx with
  | nil => rfl
  | cons i is ih =>
    simp only [List.map_cons, List.zip_cons_cons, List.lookup_cons, List.mem_cons]
    by_cases hji : j = i
    · subst hji; simp
    · have : (j == i) = false := by simpa using hji
      rw [this, ih]
      simp [hji]

theorem cumsumFrom_sub (a b : List Int) (s t : Int) (h : a.length = b.length) :
    List.zipWith (· - ·) (cumsumFrom s a) (cumsumFrom t b) = cumsumFrom (s - t) (List.zipWith (· - ·) a b) := by
  induction a generalizing b s t with
  | nil => cases b <;> rfl
  | cons x a ih => cases b with
    | nil => simp at h
    | cons y b =>
      simp only [cumsumFrom, List.zipWith_cons_cons]
      rw [ih b _ _ (by simpa using h)]
      have : s + x - (t + y) = s - t + (x - y) := by omega
      rw [this]

theorem cumsumFrom_add (a b : List Int) (s t : Int) (h : a.length = b.length) :
    List.zipWith (· + ·) (cumsumFrom s a) (cumsumFrom t b) = cumsumFrom (s + t) (List.zipWith (· + ·) a b) := by
  induction a generalizing b s t with
  | nil => cases b <;> rfl
  | cons x a ih => cases b with
    | nil => simp at h
    | cons y b =>
      simp only [cumsumFrom, List.zipWith_cons_cons]
      rw [ih b _ _ (by simpa using h)]
      have : s + x + (t + y) = s + t + (x + y) := by omega
      rw [this]

theorem ptrsFrom_cast {β} (s : Nat) (R : List (List β)) :
    (ptrsFrom s R).map (fun (p : Nat) => (p : Int)) = (s : Int) :: cumsumFrom (s : Int) (R.map (fun r => (r.length : Int))) := by
  induction R generalizing s with
  | nil => rfl
  | cons r R ih =>
    have e : (s : Int) + (r.length : Int) = ((s + r.length : Nat) : Int) := by push_cast; rfl
    simp only [ptrsFrom, List.map_cons, cumsumFrom, ih, e]

theorem map_eq_range_map {β γ} (f : β → γ) (l : List β) (d : β) :
    l.map f = (List.range l.length).map (fun j => f (l.getD j d)) := by
  apply List.ext_getElem
  · simp
  · intro k h1 h2
    simp only [List.length_map] at h1
    simp [List.getD_eq_getElem?_getD, h1]

theorem length_cumsumFrom (s : Int) (l : List Int) : (cumsumFrom s l).length = l.length := by
  induction l generalizing s with
  | nil => rfl
  | cons a l ih => simp [cumsumFrom, ih]

/-! ### merge_matrices: np.insert at row starts -/

/-- (position, value) pairs that insert `ins_j` at the start of row `j`, rows given as (ins_j, a_j) -/
def pairsFrom {β} (s : Nat) : List (List β × List β) → List (Nat × β)
  | [] => []
  | (ins, a) :: rest => ins.map (fun v => (s, v)) ++ pairsFrom (s + a.length) rest

theorem pairsFrom_ge {β} (s : Nat) (rows : List (List β × List β)) : ∀ q ∈ pairsFrom s rows, s ≤ q.1 := by
  induction rows generalizing s with
  | nil => intro q hq; cases hq
  | cons p rows ih =>
    obtain ⟨ins, a⟩ := p
    intro q hq
    simp only [pairsFrom, List.mem_append, List.mem_map] at hq
    rcases hq with ⟨v, _, rfl⟩ | hq
    · exact Nat.le_refl _
    · have := ih (s + a.length) q hq; omega

theorem filter_eq_nil_of_forall {β} (p : β → Bool) (l : List β) (h : ∀ x ∈ l, p x = false) : l.filter p = [] := by
  rw [List.filter_eq_nil_iff]
  intro x hx
  simp [h x hx]

theorem filter_eq_self_of_forall {β} (p : β → Bool) (l : List β) (h : ∀ x ∈ l, p x = true) : l.filter p = l := by
  rw [List.filter_eq_self]
  exact h

theorem npInsert_rows {β} : ∀ (rows : List (List β × List β)) (s : Nat) (dead : List (Nat × β)) (pend : List β),
    (∀ q ∈ dead, q.1 < s) →
    npInsertFrom s (dead ++ pend.map (fun v => (s, v)) ++ pairsFrom s rows) ((rows.map (·.2)).flatten)
      = pend ++ (rows.map (fun p => p.1 ++ p.2)).flatten := by
  intro rows
  induction rows with
  | nil =>
    intro s dead pend hdead
    simp only [pairsFrom, List.append_nil, List.map_nil, List.flatten_nil, npInsertFrom, List.filter_append,
      List.map_append]
    rw [filter_eq_nil_of_forall _ dead (by intro q hq; have := hdead q hq; simp; omega),
      filter_eq_self_of_forall _ _ (by intro q hq; obtain ⟨v, _, rfl⟩ := List.mem_map.mp hq; simp)]
    simp [List.map_map, Function.comp_def]
  | cons p rows ih =>
    obtain ⟨ins, a⟩ := p
    induction a generalizing ins with
    | nil =>
      intro s dead pend hdead
      have := ih s dead (pend ++ ins) hdead
      simp only [List.map_append, List.append_assoc] at this
      simp only [pairsFrom, List.length_nil, Nat.add_zero, List.map_cons, List.flatten_cons, List.nil_append,
        List.append_nil, List.append_assoc]
      rw [this]
    | cons x a iha =>
      intro s dead pend hdead
      simp only [pairsFrom, List.map_cons, List.flatten_cons, List.cons_append, npInsertFrom, List.length_cons]
      -- the values emitted at position s
      have hf : ((dead ++ pend.map (fun v => (s, v)) ++ (ins.map (fun v => (s, v)) ++ pairsFrom (s + (a.length + 1)) rows)).filter
          (fun p => p.1 == s)).map (·.2) = pend ++ ins := by
        simp only [List.filter_append, List.map_append]
        rw [filter_eq_nil_of_forall _ dead (by intro q hq; have := hdead q hq; simp; omega),
          filter_eq_self_of_forall _ (pend.map _) (by intro q hq; obtain ⟨v, _, rfl⟩ := List.mem_map.mp hq; simp),
          filter_eq_self_of_forall _ (ins.map _) (by intro q hq; obtain ⟨v, _, rfl⟩ := List.mem_map.mp hq; simp),
          filter_eq_nil_of_forall _ (pairsFrom _ rows) (by
            intro q hq; have := pairsFrom_ge _ _ q hq; simp; omega)]
        simp [List.map_map, Function.comp_def]
      rw [hf]
      have hrec := iha [] (s + 1) (dead ++ pend.map (fun v => (s, v)) ++ ins.map (fun v => (s, v))) [] (by
        intro q hq
        simp only [List.mem_append, List.mem_map] at hq
        rcases hq with (hq | ⟨v, _, rfl⟩) | ⟨v, _, rfl⟩
        · have := hdead q hq; omega
        · simp
        · simp)
      simp only [List.map_nil, List.append_nil, pairsFrom, List.nil_append, List.map_cons, List.flatten_cons] at hrec
      have e : s + (a.length + 1) = s + 1 + a.length := by omega
      rw [e]
      simp only [List.append_assoc] at hrec ⊢
      rw [hrec]
      simp

theorem zip_repeatSpec_flatten {β} (P : List Nat) (RB : List (List β)) (h : P.length = RB.length) :
    (repeatSpec P (RB.map List.length)).zip RB.flatten
      = (List.zipWith (fun p r => r.map (fun v => (p, v))) P RB).flatten := by
  induction P generalizing RB with
  | nil => cases RB with
    | nil => rfl
    | cons _ _ => simp at h
  | cons p P ih => cases RB with
    | nil => simp at h
    | cons r RB =>
      simp only [List.map_cons, repeatSpec, List.flatten_cons, List.zipWith_cons_cons]
      rw [List.zip_append (by simp), ih RB (by simpa using h)]
      congr 1
      clear ih h
      induction r with
      | nil => rfl
      | cons v r ihr => simp [List.replicate_succ, ihr]

/-! ### re-indexing sorted lines by rows -/

theorem lookup_cons_ne {β} (j i : Nat) (v : β) (l : List (Nat × β)) (h : j ≠ i) :
    List.lookup j ((i, v) :: l) = List.lookup j l := by
  have : (j == i) = false := by simpa using h
  simp [List.lookup_cons, this]

theorem reindex_sorted {β γ} (h : Nat → Option β → List γ) (hnone : ∀ j, h j none = []) :
    ∀ (n j : Nat) (lines : List Nat) (vals : List β), lines.length = vals.length →
      lines.Pairwise (· < ·) → (∀ l ∈ lines, j ≤ l ∧ l < j + n) →
      (List.range' j n).flatMap (fun k => h k ((lines.zip vals).lookup k))
        = (lines.zip vals).flatMap (fun p => h p.1 (some p.2)) := by
  intro n
  induction n with
  | zero =>
    intro j lines vals _ _ hr
    cases lines with
    | nil => rfl
    | cons l ls => have := hr l List.mem_cons_self; omega
  | succ n ih =>
    intro j lines vals hlen hs hr
    rw [List.range'_succ, List.flatMap_cons]
    cases lines with
    | nil => 
      simp only [List.zip_nil_left, List.lookup_nil, hnone, List.nil_append, List.flatMap_nil]
      have := ih (j + 1) [] [] rfl List.Pairwise.nil (by intro l hl; cases hl)
      simpa [hnone] using this
    | cons l ls => cases vals with
      | nil => simp at hlen
      | cons b bs =>
        have hlen' : ls.length = bs.length := by simpa using hlen
        have hs' := List.pairwise_cons.mp hs
        by_cases hlj : l = j
        · subst hlj
          have hrest : ∀ k ∈ ls, l + 1 ≤ k ∧ k < l + 1 + n := by
            intro k hk
            have h1 := hs'.1 k hk
            have h2 := hr k (List.mem_cons_of_mem _ hk)
            omega
          have := ih (l + 1) ls bs hlen' hs'.2 hrest
          simp only [List.zip_cons_cons, List.flatMap_cons, List.lookup_cons, beq_self_eq_true]
          rw [← this]
          congr 1
          apply flatMap_congr'
          intro k hk
          have hk' := List.mem_range'_1.mp hk
          have hkl : (k == l) = false := by
            have : k ≠ l := by omega
            simpa using this
          simp only [hkl]
        · have hl := hr l List.mem_cons_self
          have hjl : j < l := by omega
          have hnot : j ∉ (l :: ls) := by
            intro hmem
            rcases List.mem_cons.mp hmem with e | e
            · omega
            · have := hs'.1 j e; omega
          rw [lookup_zip_of_not_mem j (l :: ls) (b :: bs) hnot, hnone, List.nil_append]
          exact ih (j + 1) (l :: ls) (b :: bs) hlen hs (by
            intro k hk
            have := hr k hk
            rcases List.mem_cons.mp hk with e | e
            · omega
            · have := hs'.1 k e; omega)

/-! ### merge_matrices: the pieces of `mergeSorted` on `ofRows` -/

/-- rows of `A` with the replaced lines emptied -/
def rows1 (RA : List (List (Nat × Rat))) (lines : List Nat) : List (List (Nat × Rat)) :=
  (List.range RA.length).map (fun j => if j ∈ lines then [] else RA.getD j [])

/-- rows of `A` with line `lines[k]` replaced by row `k` of `B` -/
def rows2 (RA : List (List (Nat × Rat))) (lines : List Nat) (RB : List (List (Nat × Rat))) : List (List (Nat × Rat)) :=
  (List.range RA.length).map (fun j => ((lines.zip RB).lookup j).getD (RA.getD j []))

theorem getD_replicate {α} (n j : Nat) (z : α) : (List.replicate n z).getD j z = z := by
  simp only [List.getD_eq_getElem?_getD, List.getElem?_replicate]
  split <;> rfl

theorem cumsum_scatter_zeros (n : Nat) (lines : List Nat) (vals : List Int) (hnd : lines.Nodup)
    (hlt : ∀ l ∈ lines, l < n) (hlen : lines.length = vals.length) :
    cumsum (scatter (List.replicate (n + 1) (0 : Int)) (lines.map (· + 1)) vals)
      = 0 :: cumsumFrom 0 ((List.range n).map (fun j => ((lines.zip vals).lookup j).getD 0)) := by
  rw [List.replicate_succ, scatter_succ, scatter_eq_map (0 : Int) lines vals _ hnd (by simpa using hlt) hlen]
  simp only [List.length_replicate, getD_replicate, cumsum, cumsumFrom, Int.add_zero]

theorem lookup_zip_map_right {β γ} (f : β → γ) (j : Nat) (idx : List Nat) (vals : List β) :
    (idx.zip (vals.map f)).lookup j = ((idx.zip vals).lookup j).map f := by
  induction idx generalizing vals with
  | nil => rfl
  | cons i is ih => cases vals with
    | nil => rfl
    | cons v vs =>
      simp only [List.map_cons, List.zip_cons_cons, List.lookup_cons]
      cases (j == i) with
      | true => rfl
      | false => exact ih vs

theorem lookup_isSome_of_mem {β} (j : Nat) (idx : List Nat) (vals : List β) (h : j ∈ idx) (hlen : idx.length = vals.length) :
    ∃ b, (idx.zip vals).lookup j = some b := by
  induction idx generalizing vals with
  | nil => cases h
  | cons i is ih => cases vals with
    | nil => simp at hlen
    | cons v vs =>
      simp only [List.zip_cons_cons, List.lookup_cons]
      by_cases hji : j = i
      · subst hji; exact ⟨v, by simp⟩
      · have : (j == i) = false := by simpa using hji
        rw [this]
        rcases List.mem_cons.mp h with e | e
        · exact absurd e hji
        · exact ih vs e (by simpa using hlen)

theorem diffFrom_cumsumFrom (s : Int) (l : List Int) : diffFrom s (cumsumFrom s l) = l := by
  induction l generalizing s with
  | nil => rfl
  | cons a l ih => simp only [cumsumFrom, diffFrom, ih]; congr 1; omega

theorem length_rows1 (RA : List (List (Nat × Rat))) (lines : List Nat) : (rows1 RA lines).length = RA.length := by
  simp [rows1]

theorem length_rows2 (RA : List (List (Nat × Rat))) (lines : List Nat) (RB) : (rows2 RA lines RB).length = RA.length := by
  simp [rows2]

/-- (b) `indptr[lines+1] - indptr[lines]` -/
theorem removed_ofRows (nc : Nat) (RA : List (List (Nat × Rat))) (lines : List Nat) (hlt : ∀ l ∈ lines, l < RA.length) :
    List.zipWith (· - ·) ((ofRows nc RA).ptrHi lines) ((ofRows nc RA).ptrLo lines)
      = lines.map (fun l => ((RA.getD l []).length : Int)) := by
  simp only [Csr.ptrHi, Csr.ptrLo, List.zipWith_map, List.zipWith_self]
  apply List.map_congr_left
  intro i hi
  obtain ⟨h1, _⟩ := ptr_succ_ofRows nc RA i (hlt i hi)
  omega

/-- (c)+(d) `indptr - num_rem` -/
theorem indptr1_ofRows (nc : Nat) (RA : List (List (Nat × Rat))) (lines : List Nat) (hnd : lines.Nodup)
    (hlt : ∀ l ∈ lines, l < RA.length) :
    List.zipWith (· - ·) ((ofRows nc RA).indptr.map (fun (p : Nat) => (p : Int)))
      (cumsum (scatter (List.replicate (ofRows nc RA).indptr.length (0 : Int)) (lines.map (· + 1))
        (lines.map (fun l => ((RA.getD l []).length : Int)))))
      = (ptrsFrom 0 (rows1 RA lines)).map (fun (p : Nat) => (p : Int)) := by
  have hl : (ofRows nc RA).indptr.length = RA.length + 1 := by simp [ofRows, length_ptrsFrom]
  rw [hl, cumsum_scatter_zeros RA.length lines _ hnd hlt (by simp)]
  simp only [ofRows, ptrsFrom_cast, Int.natCast_zero, List.zipWith_cons_cons, Int.sub_self]
  rw [cumsumFrom_sub _ _ _ _ (by simp), Int.sub_self]
  congr 2
  rw [map_eq_range_map (fun r => (r.length : Int)) RA [], List.zipWith_map, List.zipWith_self, rows1, List.map_map]
  apply List.map_congr_left
  intro j _
  simp only [lookup_zip_map, Function.comp]
  by_cases hj : j ∈ lines
  · simp [hj]
  · simp [hj]

/-- (f) `diff(B.indptr)` -/
theorem rep_ofRows (nc : Nat) (RB : List (List (Nat × Rat))) :
    diffFrom ((ofRows nc RB).indptr.headD 0) ((ofRows nc RB).indptr.tail.map (fun (p : Nat) => (p : Int)))
      = RB.map (fun r => (r.length : Int)) := by
  have h := ptrsFrom_cast 0 RB
  have h0 : (ofRows nc RB).indptr.headD 0 = 0 := by simp only [ofRows]; rw [ptrsFrom_eq_cons]; rfl
  have ht : (ofRows nc RB).indptr.tail.map (fun (p : Nat) => (p : Int)) = cumsumFrom 0 (RB.map (fun r => (r.length : Int))) := by
    have := congrArg List.tail h
    simpa [ofRows, List.map_tail] using this
  rw [h0, ht]
  exact diffFrom_cumsumFrom 0 _

/-- (g)+(h) `indptr1 + num_added` -/
theorem indptr2_ofRows (RA : List (List (Nat × Rat))) (lines : List Nat) (RB : List (List (Nat × Rat)))
    (hnd : lines.Nodup) (hlt : ∀ l ∈ lines, l < RA.length) (hlen : lines.length = RB.length) :
    (List.zipWith (· + ·) ((ptrsFrom 0 (rows1 RA lines)).map (fun (p : Nat) => (p : Int)))
      (cumsum (scatter (List.replicate ((ptrsFrom 0 (rows1 RA lines)).map (fun (p : Nat) => (p : Int))).length (0 : Int))
        (lines.map (· + 1)) (RB.map (fun r => (r.length : Int)))))).map Int.toNat
      = ptrsFrom 0 (rows2 RA lines RB) := by
  have hl : ((ptrsFrom 0 (rows1 RA lines)).map (fun (p : Nat) => (p : Int))).length = RA.length + 1 := by
    simp [length_ptrsFrom, length_rows1]
  rw [hl, cumsum_scatter_zeros RA.length lines _ hnd hlt (by simpa using hlen)]
  have hgoal : (ptrsFrom 0 (rows2 RA lines RB)) = ((ptrsFrom 0 (rows2 RA lines RB)).map (fun (p : Nat) => (p : Int))).map Int.toNat := by
    simp [List.map_map, Function.comp_def]
  rw [hgoal]
  congr 1
  simp only [ptrsFrom_cast, Int.natCast_zero, List.zipWith_cons_cons, Int.add_zero]
  rw [cumsumFrom_add _ _ _ _ (by simp [length_rows1]), Int.add_zero]
  congr 2
  simp only [rows1, rows2, List.map_map, List.zipWith_map, List.zipWith_self]
  apply List.map_congr_left
  intro j _
  simp only [Function.comp, lookup_zip_map_right]
  by_cases hj : j ∈ lines
  · obtain ⟨b, hb⟩ := lookup_isSome_of_mem j lines RB hj hlen
    simp [hj, hb]
  · simp [hj, lookup_zip_of_not_mem j lines RB hj]

/-! ### merge_matrices: removing the old entries -/

theorem setLines_eq_map {β} (v : β) : ∀ (lines : List Nat) (R : List (List β)), (∀ l ∈ lines, l < R.length) →
    setLines v R lines = (List.range R.length).map (fun j =>
      if j ∈ lines then List.replicate (R.getD j []).length v else R.getD j []) := by
  intro lines
  induction lines with
  | nil =>
    intro R _
    simp only [setLines, List.not_mem_nil, if_false]
    have := map_eq_range_map (fun (r : List β) => r) R []
    simpa using this
  | cons l lines ih =>
    intro R hlt
    have hl : l < R.length := hlt l List.mem_cons_self
    rw [setLines, ih _ (by intro k hk; rw [List.length_set]; exact hlt k (List.mem_cons_of_mem _ hk)), List.length_set]
    apply List.map_congr_left
    intro j hj
    have hj' : j < R.length := List.mem_range.mp hj
    by_cases hjl : j = l
    · subst hjl
      have e : (R.set j (List.replicate (R.getD j []).length v)).getD j [] = List.replicate (R.getD j []).length v := by
        simp [List.getD_eq_getElem?_getD, hj']
      simp only [e, List.mem_cons, true_or, if_true, List.length_replicate, ite_self]
    · have e : (R.set l (List.replicate (R.getD l []).length v)).getD j [] = R.getD j [] := by
        simp only [List.getD_eq_getElem?_getD]
        rw [List.getElem?_set_ne (fun e => hjl e.symm)]
      simp only [e, List.mem_cons, hjl, false_or]

theorem maskSel_map {β γ} (f : β → γ) (l : List β) (m : List Bool) : maskSel (l.map f) m = (maskSel l m).map f := by
  induction l generalizing m with
  | nil => cases m <;> rfl
  | cons x l ih => cases m with
    | nil => rfl
    | cons b m => cases b <;> simp [maskSel, ih]

theorem maskSel_append {β} (l1 l2 : List β) (m1 m2 : List Bool) (h : l1.length = m1.length) :
    maskSel (l1 ++ l2) (m1 ++ m2) = maskSel l1 m1 ++ maskSel l2 m2 := by
  induction l1 generalizing m1 with
  | nil => cases m1 with
    | nil => rfl
    | cons _ _ => simp at h
  | cons x l1 ih => cases m1 with
    | nil => simp at h
    | cons b m1 =>
      have := ih m1 (by simpa using h)
      cases b <;> simp [maskSel, this]

theorem maskSel_replicate_true {β} (l : List β) : maskSel l (List.replicate l.length true) = l := by
  induction l with
  | nil => rfl
  | cons x l ih => simp [List.replicate_succ, maskSel, ih]

theorem maskSel_replicate_false {β} (l : List β) : maskSel l (List.replicate l.length false) = [] := by
  induction l with
  | nil => rfl
  | cons x l ih => simp [List.replicate_succ, maskSel, ih]

theorem maskSel_rows {β} (n : Nat) (r : Nat → List β) (m : Nat → List Bool) (h : ∀ j, (r j).length = (m j).length) :
    maskSel ((List.range n).map r).flatten ((List.range n).map m).flatten
      = ((List.range n).map (fun j => maskSel (r j) (m j))).flatten := by
  induction n with
  | zero => rfl
  | succ n ih =>
    simp only [List.range_succ, List.map_append, List.flatten_append, List.map_cons, List.map_nil,
      List.flatten_cons, List.flatten_nil, List.append_nil]
    rw [maskSel_append _ _ _ _ (by
      simp only [List.length_flatten, List.map_map]
      congr 1
      apply List.map_congr_left
      intro j _
      exact h j), ih]

theorem replicate_flatten_length {β} (R : List (List β)) :
    List.replicate R.flatten.length true = (R.map (fun r => List.replicate r.length true)).flatten := by
  induction R with
  | nil => rfl
  | cons r R ih =>
    simp only [List.flatten_cons, List.length_append, List.map_cons, ← ih, List.replicate_append_replicate]

/-- (e) the kept storage entries are the rows of `A` outside the replaced lines -/
theorem kept_ofRows {γ} (nc : Nat) (RA : List (List (Nat × Rat))) (f : Nat × Rat → γ) (lines : List Nat)
    (hlt : ∀ l ∈ lines, l < RA.length) :
    maskSel (RA.flatten.map f)
        (scatterConst (List.replicate (RA.flatten.map f).length true) ((ofRows nc RA).lineIdx lines) false)
      = (rows1 RA lines).flatten.map f := by
  rw [lineIdx_ofRows nc RA lines hlt, List.length_map, replicate_flatten_length]
  have hpos : lines.flatMap (linePos RA) = lines.flatMap (linePos (RA.map (fun r => List.replicate r.length true))) := by
    apply flatMap_congr'
    intro i _
    exact linePos_congr _ _ (by simp [List.map_map, Function.comp_def]) i
  rw [hpos, scatterConst_lines false lines _ (by simpa using hlt), setLines_eq_map false lines _ (by simpa using hlt),
    maskSel_map]
  congr 1
  have hRA : RA = (List.range RA.length).map (fun j => RA.getD j []) := by
    have := map_eq_range_map (fun (r : List (Nat × Rat)) => r) RA []
    simpa using this
  conv => lhs; arg 1; rw [hRA]
  simp only [List.length_map]
  rw [maskSel_rows]
  · simp only [rows1]
    congr 1
    apply List.map_congr_left
    intro j hj
    have hj' : j < RA.length := List.mem_range.mp hj
    have e : (RA.map (fun r => List.replicate r.length true)).getD j [] = List.replicate (RA.getD j []).length true := by
      simp [List.getD_eq_getElem?_getD, hj']
    rw [e]
    by_cases hjl : j ∈ lines
    · simp only [hjl, if_true, List.length_replicate, maskSel_replicate_false]
    · simp only [hjl, if_false, maskSel_replicate_true]
  · intro j
    by_cases hj' : j < RA.length
    · have e : (RA.map (fun r => List.replicate r.length true)).getD j [] = List.replicate (RA.getD j []).length true := by
        simp [List.getD_eq_getElem?_getD, hj']
      rw [e]
      split <;> simp
    · have e : (RA.map (fun r => List.replicate r.length true)).getD j [] = [] := by
        simp [List.getD_eq_getElem?_getD, Nat.not_lt.mp hj']
      have e2 : RA.getD j [] = [] := by simp [List.getD_eq_getElem?_getD, Nat.not_lt.mp hj']
      rw [e, e2]
      split <;> simp

/-! ### merge_matrices: inserting the new entries -/

theorem pairsFrom_range' {β} (P : Nat → Nat) (g : Nat → List β × List β) :
    ∀ (n j : Nat), (∀ k, j ≤ k → k < j + n → P (k + 1) = P k + (g k).2.length) →
      pairsFrom (P j) ((List.range' j n).map g)
        = (List.range' j n).flatMap (fun k => (g k).1.map (fun v => (P k, v))) := by
  intro n
  induction n with
  | zero => intro j _; rfl
  | succ n ih =>
    intro j hP
    rw [List.range'_succ, List.map_cons, List.flatMap_cons]
    have : pairsFrom (P j) (g j :: (List.range' (j + 1) n).map g)
        = (g j).1.map (fun v => (P j, v)) ++ pairsFrom (P j + (g j).2.length) ((List.range' (j + 1) n).map g) := by
      cases hg : g j with
      | mk ins a => rfl
    rw [this, ← hP j (Nat.le_refl _) (by omega), ih (j + 1) (by intro k h1 h2; exact hP k (by omega) (by omega))]

theorem flatten_zipWith_eq_flatMap_zip {α β γ} (f : α → β → List γ) (l1 : List α) (l2 : List β) :
    (List.zipWith f l1 l2).flatten = (l1.zip l2).flatMap (fun p => f p.1 p.2) := by
  induction l1 generalizing l2 with
  | nil => rfl
  | cons a l1 ih => cases l2 with
    | nil => rfl
    | cons b l2 => simp only [List.zipWith_cons_cons, List.flatten_cons, List.zip_cons_cons, List.flatMap_cons, ih]

/-- (i) `np.insert` of the rows of `B` at the starts of the emptied lines rebuilds the merged rows -/
theorem inserted_ofRows {γ} (RA : List (List (Nat × Rat))) (lines : List Nat) (RB : List (List (Nat × Rat)))
    (f : Nat × Rat → γ) (hs : lines.Pairwise (· < ·)) (hlt : ∀ l ∈ lines, l < RA.length)
    (hlen : lines.length = RB.length) :
    npInsert ((rows1 RA lines).flatten.map f)
        (repeatSpec (lines.map (fun l => (((ptrsFrom 0 (rows1 RA lines)).map (fun (p : Nat) => (p : Int))).getD l 0).toNat))
          ((RB.map (fun r => (r.length : Int))).map Int.toNat))
        (RB.flatten.map f)
      = (rows2 RA lines RB).flatten.map f := by
  let n := RA.length
  let P : Nat → Nat := fun k => (ptrsFrom 0 (rows1 RA lines)).getD k 0
  let g : Nat → List γ × List γ := fun j =>
    ((((lines.zip RB).lookup j).getD []).map f, (if j ∈ lines then [] else RA.getD j []).map f)
  have hP : ∀ l, (((ptrsFrom 0 (rows1 RA lines)).map (fun (p : Nat) => (p : Int))).getD l 0).toNat = P l := by
    intro l
    have := getD_map (fun (p : Nat) => (p : Int)) (ptrsFrom 0 (rows1 RA lines)) l 0
    simp only [Int.natCast_zero] at this
    rw [this]; simp [P]
  have hreps : (RB.map (fun r => (r.length : Int))).map Int.toNat = (RB.map (List.map f)).map List.length := by
    simp [List.map_map, Function.comp_def]
  have hvals : RB.flatten.map f = (RB.map (List.map f)).flatten := by rw [List.map_flatten]
  have hPsucc : ∀ k, 0 ≤ k → k < 0 + n → P (k + 1) = P k + (g k).2.length := by
    intro k _ hk
    have hk' : k < (rows1 RA lines).length := by rw [length_rows1]; omega
    obtain ⟨h1, _⟩ := ptr_succ_ofRows 0 (rows1 RA lines) k hk'
    simp only [ofRows] at h1
    simp only [P, g, h1, List.length_map]
    congr 1
    simp only [rows1, List.getD_eq_getElem?_getD]
    rw [List.getElem?_map, List.getElem?_range (by omega : k < RA.length)]
    rfl
  simp only [hP, hreps, hvals, npInsert]
  rw [zip_repeatSpec_flatten _ _ (by simpa using hlen)]
  -- the pairs, row by row
  have hpairs : (List.zipWith (fun p r => r.map (fun v => (p, v))) (lines.map P) (RB.map (List.map f))).flatten
      = pairsFrom 0 ((List.range n).map g) := by
    have h0 : P 0 = 0 := by simp only [P]; rw [ptrsFrom_eq_cons]; rfl
    have hpr := pairsFrom_range' P g n 0 hPsucc
    rw [h0] at hpr
    rw [List.range_eq_range', hpr]
    have := reindex_sorted (fun k (o : Option (List (Nat × Rat))) => ((o.getD []).map f).map (fun v => (P k, v)))
      (by intro j; rfl) n 0 lines RB hlen hs (by intro l hl; have := hlt l hl; omega)
    simp only [g]
    rw [this, List.zipWith_map, flatten_zipWith_eq_flatMap_zip]
    rfl
  rw [hpairs]
  have hins := npInsert_rows ((List.range n).map g) 0 [] [] (by intro q hq; cases hq)
  simp only [List.map_nil, List.append_nil, List.nil_append, List.map_map] at hins
  have ha : (rows1 RA lines).flatten.map f = ((List.range n).map ((fun p => p.2) ∘ g)).flatten := by
    simp only [rows1, List.map_flatten, List.map_map]
    rfl
  rw [ha, hins]
  simp only [rows2, List.map_flatten, List.map_map]
  congr 1
  apply List.map_congr_left
  intro j _
  simp only [Function.comp, g]
  by_cases hj : j ∈ lines
  · obtain ⟨b, hb⟩ := lookup_isSome_of_mem j lines RB hj hlen
    simp [hj, hb]
  · simp [hj, lookup_zip_of_not_mem j lines RB hj]

theorem mergeSorted_ofRows (nc : Nat) (RA RB : List (List (Nat × Rat))) (lines : List Nat)
    (hs : lines.Pairwise (· < ·)) (hlt : ∀ l ∈ lines, l < RA.length) (hlen : lines.length = RB.length) :
    mergeSorted (ofRows nc RA) (ofRows nc RB) lines = ofRows nc (rows2 RA lines RB) := by
  have hnd : lines.Nodup := hs.imp (fun h => Nat.ne_of_lt h)
  simp only [mergeSorted]
  rw [removed_ofRows nc RA lines hlt, indptr1_ofRows nc RA lines hnd hlt, rep_ofRows nc RB]
  rw [indptr2_ofRows RA lines RB hnd hlt hlen]
  have hk1 := kept_ofRows nc RA (·.1) lines hlt
  have hk2 := kept_ofRows nc RA (·.2) lines hlt
  have hi1 := inserted_ofRows RA lines RB (·.1) hs hlt hlen
  have hi2 := inserted_ofRows RA lines RB (·.2) hs hlt hlen
  simp only [ofRows, List.length_map] at hk1 hk2 hi1 hi2 ⊢
  rw [hk1, hk2, hi1, hi2, length_rows2]

/-! ### merge_matrices: row replacement, unsorted lines -/

theorem replaceRows_eq_rows2 : ∀ (lines : List Nat) (RA RB : List (List (Nat × Rat))), lines.Nodup →
    (∀ l ∈ lines, l < RA.length) → lines.length = RB.length →
    replaceRows RA lines RB = rows2 RA lines RB := by
  intro lines
  induction lines with
  | nil =>
    intro RA RB _ _ hlen
    cases RB with
    | nil =>
      simp only [replaceRows, rows2, List.zip_nil_left, List.lookup_nil, Option.getD_none]
      have := map_eq_range_map (fun (r : List (Nat × Rat)) => r) RA []
      simpa using this
    | cons _ _ => simp at hlen
  | cons l lines ih =>
    intro RA RB hnd hlt hlen
    cases RB with
    | nil => simp at hlen
    | cons b RB =>
      have hnd' := List.nodup_cons.mp hnd
      have hl : l < RA.length := hlt l List.mem_cons_self
      rw [replaceRows, ih (RA.set l b) RB hnd'.2 (by
        intro k hk; rw [List.length_set]; exact hlt k (List.mem_cons_of_mem _ hk)) (by simpa using hlen)]
      simp only [rows2, List.length_set]
      apply List.map_congr_left
      intro j hj
      have hj' : j < RA.length := List.mem_range.mp hj
      simp only [List.zip_cons_cons, List.lookup_cons]
      by_cases hjl : j = l
      · subst hjl
        rw [lookup_zip_of_not_mem j lines RB hnd'.1]
        simp [List.getD_eq_getElem?_getD, hj']
      · have : (j == l) = false := by simpa using hjl
        rw [this]
        simp only [List.getD_eq_getElem?_getD]
        rw [List.getElem?_set_ne (fun e => hjl e.symm)]

theorem replaceRows_map {β γ} (f : List β → List γ) : ∀ (lines : List Nat) (M N : List (List β)),
    (replaceRows M lines N).map f = replaceRows (M.map f) lines (N.map f) := by
  intro lines
  induction lines with
  | nil => intro M N; cases N <;> rfl
  | cons l lines ih =>
    intro M N
    cases N with
    | nil => rfl
    | cons b N => simp only [replaceRows, List.map_cons, ih, List.map_set]

/-- lookups agree on permuted association lists with distinct keys -/
theorem lookup_perm {β} (j : Nat) {l1 l2 : List (Nat × β)} (hp : l1.Perm l2) (hnd : (l1.map (·.1)).Nodup) :
    l1.lookup j = l2.lookup j := by
  induction hp with
  | nil => rfl
  | cons x _ ih =>
    obtain ⟨k, v⟩ := x
    simp only [List.map_cons, List.nodup_cons] at hnd
    simp only [List.lookup_cons]
    cases (j == k) with
    | true => rfl
    | false => exact ih hnd.2
  | swap x y l =>
    obtain ⟨k1, v1⟩ := x
    obtain ⟨k2, v2⟩ := y
    simp only [List.map_cons, List.nodup_cons, List.mem_cons, not_or] at hnd
    simp only [List.lookup_cons]
    by_cases h1 : j = k1
    · by_cases h2 : j = k2
      · exact absurd (h1.symm.trans h2).symm hnd.1.1
      · have e1 : (j == k1) = true := by simpa using h1
        have e2 : (j == k2) = false := by simpa using h2
        simp [e1, e2]
    · have e1 : (j == k1) = false := by simpa using h1
      simp [e1]
  | trans h12 _ ih1 ih2 =>
    have hnd2 := (h12.map (·.1)).nodup_iff.mp hnd
    rw [ih1 hnd, ih2 hnd2]

theorem perm_insertKey (p : Nat × Nat) (l : List (Nat × Nat)) : (insertKey p l).Perm (p :: l) := by
  induction l with
  | nil => exact List.Perm.refl _
  | cons q l ih =>
    simp only [insertKey]
    split
    · exact List.Perm.refl _
    · exact (List.Perm.cons q ih).trans (List.Perm.swap p q l)

theorem perm_sortKeys (l : List (Nat × Nat)) : (sortKeys l).Perm l := by
  induction l with
  | nil => exact List.Perm.refl _
  | cons p l ih => exact (perm_insertKey p (sortKeys l)).trans (List.Perm.cons p ih)

theorem sorted_insertKey (p : Nat × Nat) (l : List (Nat × Nat)) (h : l.Pairwise (fun a b => a.1 ≤ b.1)) :
    (insertKey p l).Pairwise (fun a b => a.1 ≤ b.1) := by
  induction l with
  | nil => simp [insertKey]
  | cons q l ih =>
    have h' := List.pairwise_cons.mp h
    simp only [insertKey]
    split
    · next hpq =>
      refine List.pairwise_cons.mpr ⟨?_, h⟩
      intro a ha
      rcases List.mem_cons.mp ha with rfl | ha
      · exact hpq
      · exact Nat.le_trans hpq (h'.1 a ha)
    · next hpq =>
      refine List.pairwise_cons.mpr ⟨?_, ih h'.2⟩
      intro a ha
      have := (perm_insertKey p l).mem_iff.mp ha
      rcases List.mem_cons.mp this with rfl | ha
      · omega
      · exact h'.1 a ha

theorem sorted_sortKeys (l : List (Nat × Nat)) : (sortKeys l).Pairwise (fun a b => a.1 ≤ b.1) := by
  induction l with
  | nil => exact List.Pairwise.nil
  | cons p l ih => exact sorted_insertKey p _ ih

theorem enumFrom_fst {α} (k : Nat) (l : List α) : (enumFrom k l).map (·.1) = l := by
  induction l generalizing k with
  | nil => rfl
  | cons a l ih => simp [enumFrom, ih]

theorem enumFrom_spec {α} [Inhabited α] (k : Nat) (l : List α) :
    ∀ p ∈ enumFrom k l, k ≤ p.2 ∧ p.2 < k + l.length ∧ l.getD (p.2 - k) default = p.1 := by
  induction l generalizing k with
  | nil => intro p hp; cases hp
  | cons a l ih =>
    intro p hp
    simp only [enumFrom, List.mem_cons] at hp
    rcases hp with rfl | hp
    · simp
    · obtain ⟨h1, h2, h3⟩ := ih (k + 1) p hp
      refine ⟨by omega, by simp only [List.length_cons]; omega, ?_⟩
      have : p.2 - k = (p.2 - (k + 1)) + 1 := by omega
      rw [this, List.getD_cons_succ, h3]

theorem hasDescent_false_sorted : ∀ (l : List Nat), hasDescent l = false → l.Pairwise (· ≤ ·) := by
  intro l
  induction l with
  | nil => intro _; exact List.Pairwise.nil
  | cons a l ih =>
    intro h
    cases l with
    | nil => simp
    | cons b l =>
      simp only [hasDescent, Bool.or_eq_false_iff, decide_eq_false_iff_not, Nat.not_lt] at h
      have hb := ih h.2
      refine List.pairwise_cons.mpr ⟨?_, hb⟩
      intro c hc
      rcases List.mem_cons.mp hc with rfl | hc
      · exact h.1
      · exact Nat.le_trans h.1 ((List.pairwise_cons.mp hb).1 c hc)

theorem strict_of_sorted_nodup (l : List Nat) (h1 : l.Pairwise (· ≤ ·)) (h2 : l.Nodup) : l.Pairwise (· < ·) := by
  have := h1.and h2
  exact this.imp (fun h => Nat.lt_of_le_of_ne h.1 h.2)

theorem enumFrom_zip {β} (RB : List (List β)) : ∀ (l : List Nat) (k : Nat), l.length + k = RB.length →
    (enumFrom k l).map (fun p => (p.1, RB.getD p.2 [])) = l.zip (RB.drop k) := by
  intro l
  induction l with
  | nil => intro k _; rfl
  | cons a l ih =>
    intro k h
    have hk : k < RB.length := by simp only [List.length_cons] at h; omega
    have hd : RB.drop k = RB.getD k [] :: RB.drop (k + 1) := by
      rw [List.drop_eq_getElem_cons hk]
      simp [List.getD_eq_getElem?_getD, hk]
    rw [hd]
    simp only [enumFrom, List.map_cons, List.zip_cons_cons]
    rw [ih (k + 1) (by simp only [List.length_cons] at h; omega)]

theorem mergeLines_ofRows (nc : Nat) (RA RB : List (List (Nat × Rat))) (lines : List Nat)
    (hnd : lines.Nodup) (hlt : ∀ l ∈ lines, l < RA.length) (hlen : lines.length = RB.length) :
    mergeLines (ofRows nc RA) (ofRows nc RB) lines = ofRows nc (rows2 RA lines RB) := by
  unfold mergeLines
  by_cases hd : hasDescent lines = true
  · rw [if_pos hd]
    let S := sortKeys (enumFrom 0 lines)
    have hperm : S.Perm (enumFrom 0 lines) := perm_sortKeys _
    have hspec : ∀ p ∈ S, p.2 < lines.length ∧ lines.getD p.2 default = p.1 := by
      intro p hp
      have := enumFrom_spec 0 lines p (hperm.mem_iff.mp hp)
      simp only [Nat.sub_zero, Nat.zero_add] at this
      exact ⟨this.2.1, this.2.2⟩
    have hs : argsort lines = S.map (·.2) := rfl
    have hg : gather lines (argsort lines) = S.map (·.1) := by
      rw [hs]
      simp only [gather, List.map_map]
      apply List.map_congr_left
      intro p hp
      exact (hspec p hp).2
    have hfst : (S.map (·.1)).Perm lines := by
      have := hperm.map (·.1)
      rwa [enumFrom_fst] at this
    have hnd' : (S.map (·.1)).Nodup := hfst.nodup_iff.mpr hnd
    have hsorted : (S.map (·.1)).Pairwise (· < ·) := by
      apply strict_of_sorted_nodup _ _ hnd'
      rw [List.pairwise_map]
      exact sorted_sortKeys _
    have hslice : sliceLines (ofRows nc RB) (argsort lines) = ofRows nc ((argsort lines).map (fun i => RB.getD i [])) := by
      apply sliceLines_ofRows
      intro i hi
      rw [hs] at hi
      obtain ⟨p, hp, rfl⟩ := List.mem_map.mp hi
      rw [← hlen]; exact (hspec p hp).1
    show mergeSorted (ofRows nc RA) (sliceLines (ofRows nc RB) (argsort lines)) (gather lines (argsort lines)) = _
    rw [hslice, hg, mergeSorted_ofRows nc RA _ _ hsorted (by
      intro l hl; exact hlt l (hfst.mem_iff.mp hl)) (by simp [hs])]
    congr 1
    simp only [rows2]
    apply List.map_congr_left
    intro j _
    congr 1
    have hz1 : (S.map (·.1)).zip ((argsort lines).map (fun i => RB.getD i []))
        = S.map (fun p => (p.1, RB.getD p.2 [])) := by
      rw [hs, List.map_map]
      clear hperm hspec hg hfst hnd' hsorted hslice hs
      induction S with
      | nil => rfl
      | cons p S ih => simp only [List.map_cons, List.zip_cons_cons, ih, Function.comp]
    have hz2 : lines.zip RB = (enumFrom 0 lines).map (fun p => (p.1, RB.getD p.2 [])) := by
      rw [enumFrom_zip RB lines 0 (by omega)]; rfl
    rw [hz1, hz2]
    apply lookup_perm j (hperm.map _)
    rw [List.map_map]
    exact hnd'
  · rw [if_neg hd]
    have hd' : hasDescent lines = false := by simpa using hd
    exact mergeSorted_ofRows nc RA RB lines
      (strict_of_sorted_nodup _ (hasDescent_false_sorted _ hd') hnd) hlt hlen

theorem lookup_some_mem {β} (j : Nat) (b : β) (l : List (Nat × β)) (h : l.lookup j = some b) : (j, b) ∈ l := by
  induction l with
  | nil => simp at h
  | cons p l ih =>
    obtain ⟨k, v⟩ := p
    simp only [List.lookup_cons] at h
    by_cases hjk : j = k
    · subst hjk
      simp only [beq_self_eq_true, Option.some.injEq] at h
      subst h
      exact List.mem_cons_self
    · have : (j == k) = false := by simpa using hjk
      rw [this] at h
      exact List.mem_cons_of_mem _ (ih h)

theorem RowsOk_rows2 (nc : Nat) (RA RB : List (List (Nat × Rat))) (lines : List Nat)
    (hA : RowsOk nc RA) (hB : RowsOk nc RB) : RowsOk nc (rows2 RA lines RB) := by
  intro r hr
  simp only [rows2] at hr
  obtain ⟨j, hj, rfl⟩ := List.mem_map.mp hr
  have hj' : j < RA.length := List.mem_range.mp hj
  cases hlk : (lines.zip RB).lookup j with
  | none =>
    simp only [Option.getD_none]
    apply hA
    simp only [List.getD_eq_getElem?_getD, List.getElem?_eq_getElem hj', Option.getD_some]
    exact List.getElem_mem hj'
  | some b =>
    simp only [Option.getD_some]
    apply hB
    have : (j, b) ∈ lines.zip RB := lookup_some_mem j b _ hlk
    exact (List.of_mem_zip this).2

theorem replaceRows_eq_map {β} : ∀ (lines : List Nat) (RA RB : List (List β)), lines.Nodup →
    (∀ l ∈ lines, l < RA.length) → lines.length = RB.length →
    replaceRows RA lines RB
      = (List.range RA.length).map (fun j => ((lines.zip RB).lookup j).getD (RA.getD j [])) := by
  intro lines
  induction lines with
  | nil =>
    intro RA RB _ _ hlen
    cases RB with
    | nil =>
      simp only [replaceRows, List.zip_nil_left, List.lookup_nil, Option.getD_none]
      have := map_eq_range_map (fun (r : List β) => r) RA []
      simpa using this
    | cons _ _ => simp at hlen
  | cons l lines ih =>
    intro RA RB hnd hlt hlen
    cases RB with
    | nil => simp at hlen
    | cons b RB =>
      have hnd' := List.nodup_cons.mp hnd
      have hl : l < RA.length := hlt l List.mem_cons_self
      rw [replaceRows, ih (RA.set l b) RB hnd'.2 (by
        intro k hk; rw [List.length_set]; exact hlt k (List.mem_cons_of_mem _ hk)) (by simpa using hlen)]
      simp only [List.length_set]
      apply List.map_congr_left
      intro j hj
      have hj' : j < RA.length := List.mem_range.mp hj
      simp only [List.zip_cons_cons, List.lookup_cons]
      by_cases hjl : j = l
      · subst hjl
        rw [lookup_zip_of_not_mem j lines RB hnd'.1]
        simp [List.getD_eq_getElem?_getD, hj']
      · have : (j == l) = false := by simpa using hjl
        rw [this]
        simp only [List.getD_eq_getElem?_getD]
        rw [List.getElem?_set_ne (fun e => hjl e.symm)]

/-! ### block-diagonal construction from dense data -/

theorem tile_map {α β} (f : α → β) (a : List α) (n : Nat) : (tile a n).map f = tile (a.map f) n := by
  induction n with
  | zero => rfl
  | succ n ih => simp only [tile, List.map_append, ih]

theorem length_tile {α} (a : List α) (n : Nat) : (tile a n).length = n * a.length := by
  induction n with
  | zero => simp [tile]
  | succ n ih => simp only [tile, List.length_append, ih, Nat.succ_mul]; omega

theorem zipWith_add_replicate (X : List Nat) (c : Nat) :
    List.zipWith (· + ·) X (List.replicate X.length c) = X.map (· + c) := by
  induction X with
  | nil => rfl
  | cons x X ih => simp only [List.length_cons, List.replicate_succ, List.zipWith_cons_cons, List.map_cons, ih]

theorem zipWith_append' {α β γ} (f : α → β → γ) (a1 a2 : List α) (b1 b2 : List β) (h : a1.length = b1.length) :
    List.zipWith f (a1 ++ a2) (b1 ++ b2) = List.zipWith f a1 b1 ++ List.zipWith f a2 b2 := by
  induction a1 generalizing b1 with
  | nil => cases b1 with
    | nil => rfl
    | cons _ _ => simp at h
  | cons x a1 ih => cases b1 with
    | nil => simp at h
    | cons y b1 => simp only [List.cons_append, List.zipWith_cons_cons, ih b1 (by simpa using h)]

/-- the index array of `_csx_matrix_from_dense_blocks` for blocks `b0 … b0+nb-1` -/
theorem dense_indices (bs : Nat) : ∀ (nb b0 : Nat),
    List.zipWith (· + ·) (tile (tile (List.range bs) bs) nb)
        (((List.range' b0 nb).flatMap (fun b => List.replicate (bs * bs) b)).map (· * bs))
      = (List.range' b0 nb).flatMap (fun b => tile (List.range' (b * bs) bs) bs) := by
  intro nb
  induction nb with
  | zero => intro b0; rfl
  | succ nb ih =>
    intro b0
    have hX : (tile (List.range bs) bs).length = bs * bs := by simp [length_tile]
    rw [tile, List.range'_succ, List.flatMap_cons, List.flatMap_cons, List.map_append,
      zipWith_append' _ _ _ _ _ (by simp [hX]), ih (b0 + 1)]
    congr 1
    rw [List.map_replicate, ← hX, zipWith_add_replicate, tile_map]
    congr 1
    rw [List.range'_eq_map_range]
    apply List.map_congr_left
    intro k _
    omega

/-- rows of `nb` dense blocks of size `bs`, first block number `b0`: row-major data, columns
    `b*bs … b*bs+bs-1` -/
def dbRows (bs : Nat) : Nat → Nat → List Rat → List (List (Nat × Rat))
  | _, 0, _ => []
  | b0, nb + 1, d =>
    (chunks bs bs (d.take (bs * bs))).map (fun row => (List.range' (b0 * bs) bs).zip row)
      ++ dbRows bs (b0 + 1) nb (d.drop (bs * bs))

theorem chunks_spec {α} (k : Nat) : ∀ (n : Nat) (l : List α), l.length = n * k →
    (chunks k n l).flatten = l ∧ (∀ r ∈ chunks k n l, r.length = k) ∧ (chunks k n l).length = n := by
  intro n
  induction n with
  | zero =>
    intro l h
    have : l = [] := List.eq_nil_of_length_eq_zero (by simpa using h)
    subst this
    refine ⟨rfl, ?_, rfl⟩
    intro r hr
    cases hr
  | succ n ih =>
    intro l h
    have hk : k ≤ l.length := by rw [h, Nat.succ_mul]; omega
    obtain ⟨h1, h2, h3⟩ := ih (l.drop k) (by rw [List.length_drop, h, Nat.succ_mul]; omega)
    refine ⟨?_, ?_, ?_⟩
    · simp only [chunks, List.flatten_cons, h1, List.take_append_drop]
    · intro r hr
      simp only [chunks, List.mem_cons] at hr
      rcases hr with rfl | hr
      · simp [List.length_take]; omega
      · exact h2 r hr
    · simp [chunks, h3]

theorem dbRows_spec (bs : Nat) : ∀ (nb b0 : Nat) (d : List Rat), d.length = bs * bs * nb →
    (dbRows bs b0 nb d).flatten.map (·.2) = d ∧
    (dbRows bs b0 nb d).flatten.map (·.1) = (List.range' b0 nb).flatMap (fun b => tile (List.range' (b * bs) bs) bs) ∧
    (∀ r ∈ dbRows bs b0 nb d, r.length = bs) ∧ (dbRows bs b0 nb d).length = nb * bs := by
  intro nb
  induction nb with
  | zero =>
    intro b0 d h
    have : d = [] := List.eq_nil_of_length_eq_zero (by simpa using h)
    subst this
    refine ⟨rfl, rfl, ?_, by simp [dbRows]⟩
    intro r hr
    cases hr
  | succ nb ih =>
    intro b0 d h
    have hlen : bs * bs ≤ d.length := by rw [h, Nat.mul_succ]; omega
    obtain ⟨i1, i2, i3, i4⟩ := ih (b0 + 1) (d.drop (bs * bs)) (by rw [List.length_drop, h, Nat.mul_succ]; omega)
    obtain ⟨c1, c2, c3⟩ := chunks_spec bs bs (d.take (bs * bs)) (by rw [List.length_take]; omega)
    have hz2 : ∀ (rows : List (List Rat)), (∀ r ∈ rows, r.length = bs) →
        ((rows.map (fun row => (List.range' (b0 * bs) bs).zip row)).flatten).map (·.2) = rows.flatten := by
      intro rows hr
      induction rows with
      | nil => rfl
      | cons r rows ihr =>
        simp only [List.map_cons, List.flatten_cons, List.map_append]
        rw [ihr (fun x hx => hr x (List.mem_cons_of_mem _ hx)),
          List.map_snd_zip (by simp [hr r List.mem_cons_self])]
    have hz1 : ∀ (rows : List (List Rat)), (∀ r ∈ rows, r.length = bs) →
        ((rows.map (fun row => (List.range' (b0 * bs) bs).zip row)).flatten).map (·.1)
          = tile (List.range' (b0 * bs) bs) rows.length := by
      intro rows hr
      induction rows with
      | nil => rfl
      | cons r rows ihr =>
        simp only [List.map_cons, List.flatten_cons, List.map_append, List.length_cons, tile]
        rw [ihr (fun x hx => hr x (List.mem_cons_of_mem _ hx)),
          List.map_fst_zip (by simp [hr r List.mem_cons_self])]
    refine ⟨?_, ?_, ?_, ?_⟩
    · simp only [dbRows, List.flatten_append, List.map_append, i1, hz2 _ c2, c1, List.take_append_drop]
    · simp only [dbRows, List.flatten_append, List.map_append, i2, hz1 _ c2, c3, List.range'_succ, List.flatMap_cons]
    · intro r hr
      simp only [dbRows, List.mem_append, List.mem_map] at hr
      rcases hr with ⟨row, hrow, rfl⟩ | hr
      · simp [List.length_zip, c2 row hrow]
      · exact i3 r hr
    · simp only [dbRows, List.length_append, List.length_map, c3, i4, Nat.succ_mul]; omega

theorem ptrsFrom_uniform {β} (c : Nat) : ∀ (rows : List (List β)) (s : Nat), (∀ r ∈ rows, r.length = c) →
    ptrsFrom s rows = (List.range (rows.length + 1)).map (fun i => s + i * c) := by
  intro rows
  induction rows with
  | nil => intro s _; simp [ptrsFrom]
  | cons r rows ih =>
    intro s h
    rw [ptrsFrom, ih (s + r.length) (fun x hx => h x (List.mem_cons_of_mem _ hx)), h r List.mem_cons_self]
    simp only [List.length_cons]
    conv => rhs; rw [List.range_succ_eq_map, List.map_cons, List.map_map]
    simp only [Nat.zero_mul, Nat.add_zero, List.cons.injEq, true_and]
    apply List.map_congr_left
    intro i _
    simp only [Function.comp, Nat.succ_eq_add_one, Nat.add_mul, Nat.one_mul]
    omega

theorem fromDenseBlocks_eq_ofRows (data : List Rat) (bs nb : Nat) (hbs : 1 ≤ bs) (hd : data.length = bs * bs * nb) :
    fromDenseBlocks data bs nb = .ok (ofRows (nb * bs) (dbRows bs 0 nb data)) := by
  obtain ⟨s1, s2, s3, s4⟩ := dbRows_spec bs nb 0 data hd
  have h0 : bs ≠ 0 := by omega
  simp only [fromDenseBlocks, hd, ne_eq, not_true_eq_false, if_false, h0]
  congr 1
  simp only [ofRows, s1, s2, s4]
  congr 1
  · rw [ptrsFrom_uniform bs _ 0 s3, s4, Nat.mul_comm nb bs]
    apply List.map_congr_left
    intro i _
    omega
  · by_cases h1 : 1 < bs
    · rw [if_pos h1]
      have := dense_indices bs nb 0
      rw [← List.range_eq_range'] at this
      rw [← List.range_eq_range']
      exact this
    · rw [if_neg h1]
      have hb : bs = 1 := by omega
      subst hb
      rw [← List.range_eq_range']
      clear s1 s2 s3 s4 hd
      induction nb with
      | zero => rfl
      | succ nb ih =>
        rw [List.range_succ, List.flatMap_append, ← ih]
        simp [tile, List.range'_succ]

theorem entrySum_zip_range' (j : Nat) : ∀ (row : List Rat) (s : Nat),
    entrySum j ((List.range' s row.length).zip row)
      = if s ≤ j ∧ j < s + row.length then row.getD (j - s) 0 else 0 := by
  intro row
  induction row with
  | nil => intro s; simp [entrySum]
  | cons x row ih =>
    intro s
    simp only [List.length_cons, List.range'_succ, List.zip_cons_cons, entrySum, ih (s + 1)]
    by_cases h1 : s = j
    · subst h1
      have : ¬ (s + 1 ≤ s ∧ s < s + 1 + row.length) := by omega
      simp only [this, if_false, if_true, Nat.le_refl, true_and, Nat.sub_self, List.getD_cons_zero,
        show s < s + (row.length + 1) by omega]
      exact Rat.add_zero x
    · simp only [h1, if_false]
      by_cases h2 : s + 1 ≤ j ∧ j < s + 1 + row.length
      · have h3 : s ≤ j ∧ j < s + (row.length + 1) := by omega
        have e : j - s = (j - (s + 1)) + 1 := by omega
        simp only [h2, h3, and_self, if_true, e, List.getD_cons_succ]
        exact Rat.zero_add _
      · have h3 : ¬ (s ≤ j ∧ j < s + (row.length + 1)) := by omega
        simp only [h2, h3, if_false]
        exact Rat.add_zero 0

theorem denseRow_zip_range (row : List Rat) : denseRow row.length ((List.range row.length).zip row) = row := by
  apply List.ext_getElem
  · simp [denseRow]
  · intro j h1 h2
    have hj : j < row.length := by simpa [denseRow] using h1
    simp only [denseRow, List.getElem_map, List.getElem_range]
    rw [List.range_eq_range', entrySum_zip_range' j row 0]
    simp [hj, List.getD_eq_getElem?_getD]

theorem shiftRow_zip_range (k n : Nat) (row : List Rat) :
    shiftRow k ((List.range n).zip row) = (List.range' k n).zip row := by
  simp only [shiftRow]
  rw [List.range'_eq_map_range]
  induction (List.range n) generalizing row with
  | nil => rfl
  | cons a l ih => cases row with
    | nil => rfl
    | cons x row =>
      simp only [List.zip_cons_cons, List.map_cons]
      rw [ih row, Nat.add_comm]

/-- the blocks of `_csx_matrix_from_dense_blocks` as (column count, rows) pairs -/
def denseBlocks (bs nb : Nat) (data : List Rat) : List (Nat × List (List (Nat × Rat))) :=
  (chunks (bs * bs) nb data).map (fun d => (bs, (chunks bs bs d).map (fun row => (List.range bs).zip row)))

theorem dbRows_eq_blkRows (bs : Nat) : ∀ (nb b0 : Nat) (data : List Rat),
    dbRows bs b0 nb data = blkRows (b0 * bs) (denseBlocks bs nb data) := by
  intro nb
  induction nb with
  | zero => intro b0 data; rfl
  | succ nb ih =>
    intro b0 data
    simp only [dbRows, denseBlocks, chunks, List.map_cons, blkRows, List.map_map]
    rw [ih (b0 + 1) (data.drop (bs * bs))]
    congr 1
    · apply List.map_congr_left
      intro row _
      simp only [Function.comp, shiftRow_zip_range]
    · simp only [denseBlocks, Nat.succ_mul]

theorem length_chunks {α} (k : Nat) (n : Nat) (l : List α) : (chunks k n l).length = n := by
  induction n generalizing l with
  | zero => rfl
  | succ n ih => simp [chunks, ih]

theorem chunks_lengths {α} (k : Nat) : ∀ (n : Nat) (l : List α), l.length = n * k → ∀ r ∈ chunks k n l, r.length = k :=
  fun n l h => (chunks_spec k n l h).2.1

theorem fromDenseBlocks_dense (data : List Rat) (bs nb : Nat) (hd : data.length = bs * bs * nb) :
    (ofRows (nb * bs) (dbRows bs 0 nb data)).toDense
      = (blockDiagDense ((chunks (bs * bs) nb data).map (fun d => (chunks bs bs d, bs)))).1 ∧
    RowsOk (nb * bs) (dbRows bs 0 nb data) := by
  have hRs := dbRows_eq_blkRows bs nb 0 data
  rw [Nat.zero_mul] at hRs
  have hok : ∀ p ∈ denseBlocks bs nb data, RowsOk p.1 p.2 := by
    intro p hp
    simp only [denseBlocks, List.mem_map] at hp
    obtain ⟨d, _, rfl⟩ := hp
    intro r hr e he
    obtain ⟨row, _, rfl⟩ := List.mem_map.mp hr
    have := (List.of_mem_zip he).1
    exact List.mem_range.mp this
  have hsum : sumN ((denseBlocks bs nb data).map (·.1)) = nb * bs := by
    simp only [denseBlocks, List.map_map, Function.comp_def]
    have : ∀ (l : List (List Rat)), sumN (l.map (fun _ => bs)) = l.length * bs := by
      intro l; induction l with
      | nil => simp [sumN]
      | cons a l ih => simp only [List.map_cons, sumN, ih, List.length_cons, Nat.succ_mul]; omega
    rw [this, length_chunks]
  obtain ⟨h1, _⟩ := blkRows_dense (denseBlocks bs nb data) hok
  rw [hsum] at h1
  constructor
  · rw [toDense_ofRows, hRs, h1]
    congr 2
    simp only [denseBlocks, List.map_map]
    apply List.map_congr_left
    intro d hdm
    have hdl : d.length = bs * bs := chunks_lengths (bs * bs) nb data (by rw [hd, Nat.mul_comm]) d hdm
    simp only [Function.comp, Prod.mk.injEq, and_true, List.map_map]
    have hrows := chunks_lengths bs bs d hdl
    conv => rhs; rw [← List.map_id (chunks bs bs d)]
    apply List.map_congr_left
    intro row hrow
    have hl := hrows row hrow
    simp only [Function.comp, id]
    have := denseRow_zip_range row
    rw [hl] at this
    exact this
  · have := RowsOk_blkRows (denseBlocks bs nb data) 0 hok
    rw [Nat.zero_add, hsum, ← hRs] at this
    exact this

/-! ### block_diag_matrix -/

/-- rows of `block_diag_matrix(vals, sz)`: block after block, each block row-major -/
def bdmRows : Nat → List Nat → List Rat → List (List (Nat × Rat))
  | _, [], _ => []
  | off, s :: sz, v =>
    (chunks s s (v.take (s * s))).map (fun row => (List.range' off s).zip row) ++ bdmRows (off + s) sz (v.drop (s * s))

theorem bdmRows_spec : ∀ (sz : List Nat) (off : Nat) (v : List Rat), v.length = sumSq sz →
    (bdmRows off sz v).flatten.map (·.2) = v ∧
    (bdmRows off sz v).flatten.map (·.1) = blockDiagIndexSq off sz ∧
    (bdmRows off sz v).map (fun r => (r.length : Int))
      = rldecodeSpec (sz.map (fun (s : Nat) => (s : Int))) (sz.map (fun (s : Nat) => (s : Int))) ∧
    (bdmRows off sz v).length = sumN sz := by
  intro sz
  induction sz with
  | nil =>
    intro off v h
    have : v = [] := List.eq_nil_of_length_eq_zero (by simpa [sumSq] using h)
    subst this
    exact ⟨rfl, rfl, rfl, rfl⟩
  | cons s sz ih =>
    intro off v h
    simp only [sumSq] at h
    obtain ⟨i1, i2, i3, i4⟩ := ih (off + s) (v.drop (s * s)) (by rw [List.length_drop, h]; omega)
    obtain ⟨c1, c2, c3⟩ := chunks_spec s s (v.take (s * s)) (by rw [List.length_take]; omega)
    have hz2 : ∀ (rows : List (List Rat)), (∀ r ∈ rows, r.length = s) →
        ((rows.map (fun row => (List.range' off s).zip row)).flatten).map (·.2) = rows.flatten := by
      intro rows hr
      induction rows with
      | nil => rfl
      | cons r rows ihr =>
        simp only [List.map_cons, List.flatten_cons, List.map_append]
        rw [ihr (fun x hx => hr x (List.mem_cons_of_mem _ hx)),
          List.map_snd_zip (by simp [hr r List.mem_cons_self])]
    have hz1 : ∀ (rows : List (List Rat)), (∀ r ∈ rows, r.length = s) →
        ((rows.map (fun row => (List.range' off s).zip row)).flatten).map (·.1)
          = tile (List.range' off s) rows.length := by
      intro rows hr
      induction rows with
      | nil => rfl
      | cons r rows ihr =>
        simp only [List.map_cons, List.flatten_cons, List.map_append, List.length_cons, tile]
        rw [ihr (fun x hx => hr x (List.mem_cons_of_mem _ hx)),
          List.map_fst_zip (by simp [hr r List.mem_cons_self])]
    have hz3 : ∀ (rows : List (List Rat)), (∀ r ∈ rows, r.length = s) →
        (rows.map (fun row => (List.range' off s).zip row)).map (fun r => (r.length : Int))
          = List.replicate rows.length (s : Int) := by
      intro rows hr
      rw [List.eq_replicate_iff]
      refine ⟨by simp, ?_⟩
      intro b hb
      simp only [List.map_map, List.mem_map] at hb
      obtain ⟨row, hrow, rfl⟩ := hb
      simp [List.length_zip, hr row hrow]
    refine ⟨?_, ?_, ?_, ?_⟩
    · simp only [bdmRows, List.flatten_append, List.map_append, i1, hz2 _ c2, c1, List.take_append_drop]
    · simp only [bdmRows, List.flatten_append, List.map_append, i2, hz1 _ c2, c3, blockDiagIndexSq]
    · simp only [bdmRows, List.map_append, i3, hz3 _ c2, c3, List.map_cons, rldecodeSpec, Int.toNat_natCast]
    · simp only [bdmRows, List.length_append, List.length_map, c3, i4, sumN]

theorem bdmRows_eq_blkRows : ∀ (sz : List Nat) (off : Nat) (v : List Rat),
    bdmRows off sz v = blkRows off ((varBlocks sz v).map (fun p =>
      (p.2, (chunks p.2 p.2 p.1).map (fun row => (List.range p.2).zip row)))) := by
  intro sz
  induction sz with
  | nil => intro off v; rfl
  | cons s sz ih =>
    intro off v
    simp only [bdmRows, varBlocks, List.map_cons, blkRows, List.map_map, ih]
    congr 1
    apply List.map_congr_left
    intro row _
    simp only [Function.comp, shiftRow_zip_range]

theorem varBlocks_sizes : ∀ (sz : List Nat) (v : List Rat), v.length = sumSq sz →
    (∀ p ∈ varBlocks sz v, p.1.length = p.2 * p.2) ∧ sumN ((varBlocks sz v).map (·.2)) = sumN sz := by
  intro sz
  induction sz with
  | nil =>
    intro v _
    refine ⟨?_, rfl⟩
    intro p hp
    cases hp
  | cons s sz ih =>
    intro v h
    simp only [sumSq] at h
    obtain ⟨i1, i2⟩ := ih (v.drop (s * s)) (by rw [List.length_drop, h]; omega)
    constructor
    · intro p hp
      simp only [varBlocks, List.mem_cons] at hp
      rcases hp with rfl | hp
      · simp only [List.length_take]; omega
      · exact i1 p hp
    · simp only [varBlocks, List.map_cons, sumN, i2]

theorem blockDiagMatrix_eq (vals : List Rat) (sz : List Nat) (hv : vals.length = sumSq sz) :
    blockDiagMatrix vals sz = .ok (ofRows (sumN sz) (bdmRows 0 sz vals)) ∧
    (ofRows (sumN sz) (bdmRows 0 sz vals)).toDense
      = (blockDiagDense ((varBlocks sz vals).map (fun p => (chunks p.2 p.2 p.1, p.2)))).1 ∧
    RowsOk (sumN sz) (bdmRows 0 sz vals) := by
  obtain ⟨s1, s2, s3, s4⟩ := bdmRows_spec sz 0 vals hv
  obtain ⟨v1, v2⟩ := varBlocks_sizes sz vals hv
  let Rs := (varBlocks sz vals).map (fun p => (p.2, (chunks p.2 p.2 p.1).map (fun row => (List.range p.2).zip row)))
  have hRs : bdmRows 0 sz vals = blkRows 0 Rs := bdmRows_eq_blkRows sz 0 vals
  have hok : ∀ p ∈ Rs, RowsOk p.1 p.2 := by
    intro p hp
    simp only [Rs, List.mem_map] at hp
    obtain ⟨q, _, rfl⟩ := hp
    intro r hr e he
    obtain ⟨row, _, rfl⟩ := List.mem_map.mp hr
    exact List.mem_range.mp (List.of_mem_zip he).1
  have hsum : sumN (Rs.map (·.1)) = sumN sz := by
    simp only [Rs, List.map_map, Function.comp_def]
    exact v2
  refine ⟨?_, ?_, ?_⟩
  · simp only [blockDiagMatrix, bind, Except.bind, rldecode_eq_repeat' _ _ (Nat.le_refl _), pure, Except.pure]
    congr 1
    simp only [ofRows, s1, s2, s4]
    congr 1
    rw [← s3, List.map_cons, cumsum]
    have := cumsumFrom_lengths (bdmRows 0 sz vals) 0
    simp only [Int.natCast_zero] at this
    rw [this, Int.toNat_zero, ← ptrsFrom_eq_cons]
  · obtain ⟨h1, _⟩ := blkRows_dense Rs hok
    rw [hsum] at h1
    rw [toDense_ofRows, hRs, h1]
    congr 2
    simp only [Rs, List.map_map]
    apply List.map_congr_left
    intro p hp
    have hpl := v1 p hp
    simp only [Function.comp, Prod.mk.injEq, and_true, List.map_map]
    have hrows := chunks_lengths p.2 p.2 p.1 hpl
    conv => rhs; rw [← List.map_id (chunks p.2 p.2 p.1)]
    apply List.map_congr_left
    intro row hrow
    have hl := hrows row hrow
    simp only [Function.comp, id]
    have := denseRow_zip_range row
    rw [hl] at this
    exact this
  · have := RowsOk_blkRows Rs 0 hok
    rw [Nat.zero_add, hsum, ← hRs] at this
    exact this

/-! ### csc = transposed reading -/

theorem length_toDense (A : Csr) : A.toDense.length = A.nrows := by simp [Csr.toDense, Csr.rows]

theorem length_row_toDense (A : Csr) : ∀ row ∈ A.toDense, row.length = A.ncols := by
  intro row h
  simp only [Csr.toDense, List.mem_map] at h
  obtain ⟨es, _, rfl⟩ := h
  simp [denseRow]

theorem getD_denseRow (n i : Nat) (es : List (Nat × Rat)) (hi : i < n) : (denseRow n es).getD i 0 = entrySum i es := by
  simp [denseRow, List.getD_eq_getElem?_getD, hi]

/-- scipy's column-wise semantics of a csc matrix is the transpose of the row-wise semantics of the
    csr matrix with the same arrays -/
theorem csc_toDense_eq_transpose (C : Csc) : C.toDense = transposeD C.read.toDense C.nrows := by
  simp only [Csc.toDense, transposeD, Csr.toDense, Csr.rows, List.map_map]
  apply List.map_congr_left
  intro i hi
  apply List.map_congr_left
  intro j _
  simp only [Function.comp]
  have := getD_denseRow C.read.ncols i (C.read.rowEntries j) (List.mem_range.mp hi)
  rw [this]
  rfl

theorem transposeD_involutive (M : List (List Rat)) (r c : Nat) (hr : M.length = r)
    (hc : ∀ row ∈ M, row.length = c) : transposeD (transposeD M c) r = M := by
  subst hr
  simp only [transposeD, List.map_map]
  apply List.ext_getElem
  · simp
  · intro i h1 h2
    simp only [List.getElem_map, List.getElem_range]
    have hi : i < M.length := h2
    have hrow := hc M[i] (List.getElem_mem hi)
    apply List.ext_getElem
    · simp [hrow]
    · intro j h3 h4
      simp [List.getD_eq_getElem?_getD, hi, List.getElem?_eq_getElem (show j < M[i].length from h4)]

theorem read_toDense (C : Csc) : C.read.toDense = transposeD C.toDense C.ncols := by
  rw [csc_toDense_eq_transpose]
  exact (transposeD_involutive _ _ _ (length_toDense C.read) (length_row_toDense C.read)).symm

theorem transposeD_append (X Y : List (List Rat)) (r : Nat) :
    transposeD (X ++ Y) r = List.zipWith (· ++ ·) (transposeD X r) (transposeD Y r) := by
  simp only [transposeD, List.map_append, List.zipWith_map, List.zipWith_self]

/-! ### boolean masks -/

theorem map_getD_trueIdx {β} (full : List β) (d : β) : ∀ (mask : List Bool) (a : List β) (k : Nat),
    full.drop k = a → mask.length ≤ a.length →
    (trueIdxFrom k mask).map (fun i => full.getD i d) = maskSel a mask := by
  intro mask
  induction mask with
  | nil => intro a k _ _; cases a <;> rfl
  | cons b mask ih =>
    intro a k hk hl
    cases a with
    | nil => simp at hl
    | cons x a =>
      have hk' : full.drop (k + 1) = a := by
        have : full.drop (k + 1) = (full.drop k).drop 1 := by simp [List.drop_drop]
        rw [this, hk]; rfl
      have hx : full.getD k d = x := by
        have : (full.drop k).getD 0 d = x := by rw [hk]; rfl
        simpa [List.getD_eq_getElem?_getD, List.getElem?_drop] using this
      have := ih a (k + 1) hk' (by simpa using hl)
      cases b with
      | false => simp only [trueIdxFrom, Bool.false_eq_true, if_false, maskSel, this]
      | true => simp only [trueIdxFrom, if_true, List.map_cons, maskSel, this, hx]

theorem denseToCsr_dense (M : List (List Rat)) (c : Nat) (h : ∀ row ∈ M, row.length = c) :
    (denseToCsr M c).toDense = M ∧ (denseToCsr M c).WF := by
  constructor
  · rw [denseToCsr, toDense_ofRows, List.map_map]
    conv => rhs; rw [← List.map_id M]
    apply List.map_congr_left
    intro row hrow
    have hl := h row hrow
    simp only [Function.comp, id]
    have := denseRow_zip_range row
    rw [hl] at this
    exact this
  · apply WF_ofRows
    intro r hr e he
    obtain ⟨row, _, rfl⟩ := List.mem_map.mp hr
    exact List.mem_range.mp (List.of_mem_zip he).1

theorem transposeD_shape (M : List (List Rat)) (c : Nat) :
    (transposeD M c).length = c ∧ ∀ row ∈ transposeD M c, row.length = M.length := by
  constructor
  · simp [transposeD]
  · intro row h
    simp only [transposeD, List.mem_map] at h
    obtain ⟨j, _, rfl⟩ := h
    simp

theorem getD_append_left' (r s : List Rat) (j : Nat) (h : j < r.length) : (r ++ s).getD j 0 = r.getD j 0 := by
  simp [List.getD_eq_getElem?_getD, List.getElem?_append_left h]

theorem getD_append_right' (r s : List Rat) (j : Nat) : (r ++ s).getD (r.length + j) 0 = s.getD j 0 := by
  simp [List.getD_eq_getElem?_getD, List.getElem?_append_right (Nat.le_add_right _ _)]

theorem getD_replicate_zero (n j : Nat) : (List.replicate n (0 : Rat)).getD j 0 = 0 := getD_replicate n j 0

/-- the dense block diagonal commutes with transposition -/
theorem transposeD_diagDense (X Y : List (List Rat)) (a b : Nat) (hX : ∀ row ∈ X, row.length = a) :
    transposeD (diagDense X a Y b) (a + b) = diagDense (transposeD X a) X.length (transposeD Y b) Y.length := by
  simp only [transposeD, diagDense, List.range_add, List.map_append, List.map_map]
  congr 1
  · apply List.map_congr_left
    intro j hj
    have hj' : j < a := List.mem_range.mp hj
    simp only [Function.comp]
    congr 1
    · apply List.map_congr_left
      intro row hrow
      exact getD_append_left' row _ j (by rw [hX row hrow]; exact hj')
    · rw [List.eq_replicate_iff]
      refine ⟨by simp, ?_⟩
      intro v hv
      obtain ⟨row, _, rfl⟩ := List.mem_map.mp hv
      show (List.replicate a 0 ++ row).getD j 0 = 0
      rw [getD_append_left' (List.replicate a 0) row j (by simpa using hj')]
      exact getD_replicate_zero a j
  · apply List.map_congr_left
    intro j _
    simp only [Function.comp]
    congr 1
    · rw [List.eq_replicate_iff]
      refine ⟨by simp, ?_⟩
      intro v hv
      obtain ⟨row, hrow, rfl⟩ := List.mem_map.mp hv
      have := getD_append_right' row (List.replicate b 0) j
      rw [hX row hrow] at this
      show (row ++ List.replicate b 0).getD (a + j) 0 = 0
      rw [this]
      exact getD_replicate_zero b j
    · apply List.map_congr_left
      intro row _
      have := getD_append_right' (List.replicate a 0) row j
      rw [List.length_replicate] at this
      exact this

theorem tripletSum_append (i j : Nat) (a b : List (Nat × Nat × Rat)) :
    tripletSum i j (a ++ b) = tripletSum i j a + tripletSum i j b := by
  induction a with
  | nil => simp [tripletSum, Rat.zero_add]
  | cons t a ih => simp only [List.cons_append, tripletSum, ih, Rat.add_assoc]

theorem tripletSum_tagged (i j k : Nat) (r : List (Nat × Rat)) :
    tripletSum i j (r.map (fun e => (k, e))) = if k = i then entrySum j r else 0 := by
  induction r with
  | nil => simp [tripletSum, entrySum]
  | cons e r ih =>
    simp only [List.map_cons, tripletSum, ih, entrySum]
    by_cases h : k = i
    · simp [h]
    · simp [h, Rat.add_zero]

theorem tripletSum_rows (i j : Nat) : ∀ (R : List (List (Nat × Rat))) (s : Nat),
    tripletSum i j ((List.zipWith (fun k r => r.map (fun e => (k, e))) (List.range' s R.length) R).flatten)
      = if s ≤ i ∧ i < s + R.length then entrySum j (R.getD (i - s) []) else 0 := by
  intro R
  induction R with
  | nil =>
    intro s
    simp only [List.length_nil, List.range'_zero, List.zipWith_nil_left, List.flatten_nil, tripletSum]
    split
    · next h => omega
    · rfl
  | cons r R ih =>
    intro s
    simp only [List.length_cons, List.range'_succ, List.zipWith_cons_cons, List.flatten_cons,
      tripletSum_append, tripletSum_tagged, ih (s + 1)]
    by_cases h1 : s = i
    · subst h1
      have : ¬ (s + 1 ≤ s ∧ s < s + 1 + R.length) := by omega
      simp [this, Rat.add_zero]
    · by_cases h2 : s + 1 ≤ i ∧ i < s + 1 + R.length
      · have h3 : s ≤ i ∧ i < s + (R.length + 1) := by omega
        have e : i - s = (i - (s + 1)) + 1 := by omega
        simp [h1, h2, h3, e, Rat.zero_add]
      · have h3 : ¬ (s ≤ i ∧ i < s + (R.length + 1)) := by omega
        simp [h1, h2, h3, Rat.zero_add]

theorem tripletSum_filter (i j : Nat) (t : List (Nat × Nat × Rat)) :
    tripletSum i j (t.filter (fun x => decide (x.2.2 ≠ 0))) = tripletSum i j t := by
  induction t with
  | nil => rfl
  | cons x t ih =>
    by_cases h : x.2.2 = 0
    · have hd : decide (x.2.2 ≠ 0) = false := by simp [h]
      rw [List.filter_cons, hd]
      simp only [Bool.false_eq_true, if_false, tripletSum, ih, h, ite_self, Rat.zero_add]
    · have hd : decide (x.2.2 ≠ 0) = true := by simp [h]
      rw [List.filter_cons, hd]
      simp only [if_true, tripletSum, ih]

theorem toTriplets_ofRows (nc : Nat) (R : List (List (Nat × Rat))) :
    toTriplets (ofRows nc R) false
      = (List.zipWith (fun k r => r.map (fun e => (k, e))) (List.range' 0 R.length) R).flatten := by
  have hline : (List.range (ofRows nc R).nrows).flatMap (fun i =>
      List.replicate ((ofRows nc R).indptr.getD (i + 1) 0 - (ofRows nc R).indptr.getD i 0) i)
      = repeatSpec (List.range R.length) (R.map List.length) := by
    have hrep : ∀ (P : List Nat) (L : List Nat), P.length = L.length →
        repeatSpec P L = (List.zipWith (fun p c => List.replicate c p) P L).flatten := by
      intro P
      induction P with
      | nil => intro L _; cases L <;> rfl
      | cons p P ihp => intro L h; cases L with
        | nil => simp at h
        | cons c L => simp [repeatSpec, ihp L (by simpa using h)]
    rw [hrep _ _ (by simp)]
    show (List.range R.length).flatMap _ = _
    rw [List.flatten_eq_flatMap, map_eq_range_map List.length R [], List.zipWith_map_right, List.zipWith_self,
      List.flatMap_map]
    apply flatMap_congr'
    intro i hi
    obtain ⟨h1, _⟩ := ptr_succ_ofRows nc R i (List.mem_range.mp hi)
    simp only [id, h1, List.length_range]
    congr 1
    omega
  simp only [toTriplets, Bool.false_eq_true, if_false]
  rw [hline]
  have hz : (ofRows nc R).indices.zip (ofRows nc R).data = R.flatten := by
    simp only [ofRows]; exact zip_map_fst_snd _
  rw [hz, zip_repeatSpec_flatten _ _ (by simp), List.range_eq_range']

theorem toTriplets_dense (A : Csr) (hA : A.WF) (b : Bool) :
    tripletDense (toTriplets A b) A.nrows A.ncols = A.toDense := by
  obtain ⟨R, eA, _, -⟩ := WF_cases A hA
  have hn : A.nrows = R.length := by rw [eA]; rfl
  have hfil : ∀ i j, tripletSum i j (toTriplets A b) = tripletSum i j (toTriplets A false) := by
    intro i j
    cases b with
    | false => rfl
    | true =>
      have : toTriplets A true = (toTriplets A false).filter (fun x => decide (x.2.2 ≠ 0)) := by
        simp [toTriplets]
      rw [this, tripletSum_filter]
  rw [hn]
  generalize A.ncols = nc at *
  subst eA
  rw [toDense_ofRows]
  simp only [tripletDense, hfil, toTriplets_ofRows]
  apply List.ext_getElem
  · simp
  · intro i h1 h2
    have hi : i < R.length := by simpa using h1
    simp only [List.getElem_map, List.getElem_range, denseRow]
    apply List.map_congr_left
    intro j _
    rw [tripletSum_rows i j R 0]
    simp [hi, List.getD_eq_getElem?_getD]

end PorepyVerif.C35
