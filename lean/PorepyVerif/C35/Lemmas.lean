/-
C35 — helper lemmas (property theorems are in Props.lean).
-/
import PorepyVerif.C35.Model

namespace PorepyVerif.C35

/-! ### scatter into blocks -/

theorem set_append_head {α} (a : List α) (x v : α) (c : List α) :
    (a ++ x :: c).set a.length v = a ++ v :: c := by
  induction a with
  | nil => rfl
  | cons y a ih => simp [ih]

/-- blocks `v :: b … b` of the given sizes -/
def headed {α} (b : α) : List α → List Nat → List α
  | v :: vs, c :: cs => v :: List.replicate (c - 1) b ++ headed b vs cs
  | _, _ => []

theorem cumsumFromN_dropLast (s : Nat) (l : List Nat) :
    cumsumFromN s l.dropLast = (cumsumFromN s l).dropLast := by
  induction l generalizing s with
  | nil => rfl
  | cons a l ih =>
    cases l with
    | nil => rfl
    | cons b l =>
      simp only [List.dropLast, cumsumFromN] at *
      rw [ih]

theorem replicate_succ_pred {α} (b : α) (c m : Nat) (hc : 1 ≤ c) :
    List.replicate (c + m) b = b :: (List.replicate (c - 1) b ++ List.replicate m b) := by
  obtain ⟨k, rfl⟩ : ∃ k, c = k + 1 := ⟨c - 1, by omega⟩
  have e : k + 1 + m = (k + m) + 1 := by omega
  rw [e, List.replicate_succ, Nat.add_sub_cancel, List.replicate_append_replicate]

theorem cumsumFromN_cons (s k : Nat) (l : List Nat) :
    cumsumFromN s (k :: l) = (s + k) :: cumsumFromN (s + k) l := rfl

theorem dropLast_cumsumFromN_cons2 (s k c : Nat) (cs : List Nat) :
    (cumsumFromN s (k :: c :: cs)).dropLast = (s + k) :: (cumsumFromN (s + k) (c :: cs)).dropLast := rfl

theorem scatter_blocks {α} (b : α) : ∀ (cs : List Nat) (vs pre blk : List α),
    vs.length = cs.length → (∀ c ∈ cs, 1 ≤ c) →
    scatter (pre ++ blk ++ List.replicate (sumN cs) b)
        ((cumsumFromN pre.length (blk.length :: cs)).dropLast) vs
      = pre ++ blk ++ headed b vs cs := by
  intro cs
  induction cs with
  | nil =>
    intro vs pre blk hl _
    cases vs with
    | nil => simp [cumsumFromN, scatter, headed, sumN]
    | cons v vs => simp at hl
  | cons c cs ih =>
    intro vs pre blk hl hpos
    cases vs with
    | nil => simp at hl
    | cons v vs =>
      have hc : 1 ≤ c := hpos c (List.mem_cons_self)
      have hl' : vs.length = cs.length := by simpa using hl
      have hpos' : ∀ c ∈ cs, 1 ≤ c := fun x hx => hpos x (List.mem_cons_of_mem _ hx)
      have h1 := ih vs (pre ++ blk) (v :: List.replicate (c - 1) b) hl' hpos'
      simp only [List.length_append, List.length_cons, List.length_replicate] at h1
      have e1 : c - 1 + 1 = c := by omega
      rw [e1] at h1
      rw [dropLast_cumsumFromN_cons2]
      simp only [scatter, sumN, headed]
      rw [replicate_succ_pred b c (sumN cs) hc]
      have e2 : pre.length + blk.length = (pre ++ blk).length := by simp
      rw [e2, set_append_head]
      simpa [List.append_assoc] using h1

/-! ### expand_index_pointers -/

/-- number of elements of a kept interval -/
def cnt (p : Int × Int) : Nat := (p.2 - 1 - p.1 + 1).toNat

/-- the array `x` of the code before the final cumulative sum, interval after interval:
    jump from the previous end, then ones -/
def jumps (prev : Int) : List (Int × Int) → List Int
  | [] => []
  | p :: P => (p.1 - prev) :: List.replicate (cnt p - 1) 1 ++ jumps (p.2 - 1) P

/-- the values `lo[1:] - hi[:-1]` -/
def jumpVals (prev : Int) : List (Int × Int) → List Int
  | [] => []
  | p :: P => (p.1 - prev) :: jumpVals (p.2 - 1) P

theorem zipWith_jumpVals (p0 : Int × Int) (P : List (Int × Int)) :
    List.zipWith (· - ·) (P.map (·.1)) (((p0 :: P).map (fun p => p.2 - 1)).dropLast)
      = jumpVals (p0.2 - 1) P := by
  induction P generalizing p0 with
  | nil => simp [jumpVals]
  | cons p1 P ih =>
    have := ih p1
    simp only [List.map_cons, List.dropLast, List.zipWith_cons_cons, jumpVals] at *
    rw [this]

theorem headed_jumpVals (prev : Int) (P : List (Int × Int)) :
    headed 1 (jumpVals prev P) (P.map cnt) = jumps prev P := by
  induction P generalizing prev with
  | nil => rfl
  | cons p P ih => simp only [jumpVals, List.map_cons, headed, jumps, ih]

theorem cumsumFrom_replicate_one (k : Nat) (s : Int) (rest : List Int) :
    cumsumFrom s (List.replicate k 1 ++ rest)
      = (List.range k).map (fun (j : Nat) => s + 1 + (j : Int)) ++ cumsumFrom (s + k) rest := by
  induction k generalizing s with
  | zero => simp
  | succ k ih =>
    rw [List.replicate_succ, List.cons_append, cumsumFrom, ih, List.range_succ_eq_map, List.map_cons,
      List.map_map]
    simp only [Int.natCast_zero, Int.add_zero, List.cons_append, Function.comp_def, Int.natCast_succ]
    congr 1
    · congr 1
      apply List.map_congr_left
      intro a _
      omega
    · congr 1
      omega

theorem rangeI_eq_nil (l h : Int) (hlh : ¬ (l + 1 ≤ h)) : rangeI l h = [] := by
  have : (h - l).toNat = 0 := by omega
  simp [rangeI, this]

theorem rangeI_cons (l h : Int) (hlh : l + 1 ≤ h) :
    rangeI l h = l :: (List.range ((h - l).toNat - 1)).map (fun (j : Nat) => l + 1 + (j : Int)) := by
  obtain ⟨k, hk⟩ : ∃ k, (h - l).toNat = k + 1 := ⟨(h - l).toNat - 1, by omega⟩
  simp only [rangeI, hk, List.range_succ_eq_map, List.map_cons, List.map_map, Nat.add_sub_cancel]
  simp only [Int.natCast_zero, Int.add_zero, Function.comp_def, Int.natCast_succ]
  congr 1
  apply List.map_congr_left
  intro a _
  omega

/-- concatenated ranges of a list of intervals -/
def rangesOf : List (Int × Int) → List Int
  | [] => []
  | p :: P => rangeI p.1 p.2 ++ rangesOf P

theorem cumsumFrom_jumps (prev : Int) (P : List (Int × Int)) (hP : ∀ p ∈ P, p.1 + 1 ≤ p.2) :
    cumsumFrom prev (jumps prev P) = rangesOf P := by
  induction P generalizing prev with
  | nil => rfl
  | cons p P ih =>
    have hp : p.1 + 1 ≤ p.2 := hP p List.mem_cons_self
    have hP' : ∀ q ∈ P, q.1 + 1 ≤ q.2 := fun q hq => hP q (List.mem_cons_of_mem _ hq)
    simp only [jumps, rangesOf, cumsumFrom]
    have e0 : prev + (p.1 - prev) = p.1 := by omega
    rw [e0, cumsumFrom_replicate_one, rangeI_cons _ _ hp]
    have e1 : cnt p - 1 = (p.2 - p.1).toNat - 1 := by simp only [cnt]; omega
    have e2 : p.1 + ((cnt p - 1 : Nat) : Int) = p.2 - 1 := by simp only [cnt]; omega
    rw [e2, ih _ hP', e1]
    simp

theorem expandSpec_eq_rangesOf_filter (lo hi : List Int) :
    expandSpec lo hi = rangesOf ((lo.zip hi).filter (fun p => decide (p.1 + 1 ≤ p.2))) := by
  induction lo generalizing hi with
  | nil => simp [expandSpec, rangesOf]
  | cons l lo ih =>
    cases hi with
    | nil => simp [expandSpec, rangesOf]
    | cons h hi =>
      simp only [expandSpec, List.zip_cons_cons, List.filter_cons]
      by_cases hlh : l + 1 ≤ h
      · simp only [hlh, decide_true, if_true, rangesOf, ih]
      · simp only [hlh, decide_false, rangeI_eq_nil l h hlh, List.nil_append, ih]
        simp

theorem sumN_cons (a : Nat) (l : List Nat) : sumN (a :: l) = a + sumN l := rfl

theorem expandKept_eq (P : List (Int × Int)) (hP : ∀ p ∈ P, p.1 + 1 ≤ p.2) :
    expandKept P = rangesOf P := by
  cases P with
  | nil => rfl
  | cons p0 P =>
    have hp : p0.1 + 1 ≤ p0.2 := hP p0 List.mem_cons_self
    have hc0 : 1 ≤ cnt p0 := by simp only [cnt]; omega
    have hpos : ∀ c ∈ P.map cnt, 1 ≤ c := by
      intro c hc
      obtain ⟨q, hq, rfl⟩ := List.mem_map.mp hc
      have := hP q (List.mem_cons_of_mem _ hq)
      simp only [cnt]; omega
    simp only [expandKept]
    show cumsum (scatter ((List.replicate (sumN (cnt p0 :: P.map cnt)) (1 : Int)).set 0 p0.1)
        (cumsumN (cnt p0 :: P.map cnt).dropLast)
        (List.zipWith (· - ·) (P.map (·.1)) (((p0 :: P).map (fun p => p.2 - 1)).dropLast))) = _
    rw [zipWith_jumpVals, sumN_cons, replicate_succ_pred 1 _ _ hc0, List.set_cons_zero, cumsumN,
      cumsumFromN_dropLast]
    have h := scatter_blocks (1 : Int) (P.map cnt) (jumpVals (p0.2 - 1) P) []
      (p0.1 :: List.replicate (cnt p0 - 1) 1) (by
        clear hpos hP
        induction P generalizing p0 with
        | nil => rfl
        | cons q P ih => simp [jumpVals, ih q]) hpos
    simp only [List.nil_append, List.length_nil, List.length_cons, List.length_replicate] at h
    have e : cnt p0 - 1 + 1 = cnt p0 := by omega
    rw [e] at h
    rw [List.cons_append] at h
    rw [h, headed_jumpVals]
    have := cumsumFrom_jumps 0 (p0 :: P) hP
    simp only [jumps, Int.sub_zero] at this
    exact this

theorem expandCore_eq_spec (lo hi : List Int) : expandCore lo hi = expandSpec lo hi := by
  rw [expandSpec_eq_rangesOf_filter, expandCore, expandKept_eq]
  intro p hp
  simpa using (List.mem_filter.mp hp).2

end PorepyVerif.C35
