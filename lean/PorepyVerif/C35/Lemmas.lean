/-
C35 — helper lemmas (property theorems are in Props.lean).
-/
import PorepyVerif.C35.Model

namespace PorepyVerif.C35

end PorepyVerif.C35
