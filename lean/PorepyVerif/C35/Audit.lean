import PorepyVerif.C35.Props
