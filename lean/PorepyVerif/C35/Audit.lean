import PorepyVerif.C35.Props
#print axioms PorepyVerif.C35.expand_index_pointers_eq_ranges
#print axioms PorepyVerif.C35.expand_index_pointers_broadcast
#print axioms PorepyVerif.C35.rldecode_eq_repeat
#print axioms PorepyVerif.C35.rlencode_eq_runs
#print axioms PorepyVerif.C35.rleSpec_characterisation
#print axioms PorepyVerif.C35.rldecode_rlencode
#print axioms PorepyVerif.C35.stack_mat_eq_vstack
#print axioms PorepyVerif.C35.stack_diag_eq_block_diag
#print axioms PorepyVerif.C35.slice_eq_dense_index
#print axioms PorepyVerif.C35.whereTrue_spec
#print axioms PorepyVerif.C35.slice_indices_eq
#print axioms PorepyVerif.C35.zero_rows_eq_dense
