import PorepyVerif.C37.Props
#print axioms PorepyVerif.C37.blockdiag_inv
#print axioms PorepyVerif.C37.blockdiag_isUnit_iff
#print axioms PorepyVerif.C37.perm_inv
#print axioms PorepyVerif.C37.perm_isUnit_iff
#print axioms PorepyVerif.C37.permuted_blockdiag_inv
#print axioms PorepyVerif.C37.closed_pattern_blockdiag
#print axioms PorepyVerif.C37.components_give_blocks
#print axioms PorepyVerif.C37.gaussJordan_left_inverse
#print axioms PorepyVerif.C37.gaussJordan_correct_partial
#print axioms PorepyVerif.C37.invertAll_correct
#print axioms PorepyVerif.C37.components_closed
#print axioms PorepyVerif.C37.components_minimal
#print axioms PorepyVerif.C37.components_partition
#print axioms PorepyVerif.C37.permSearch_blocks_square
#print axioms PorepyVerif.C37.blockDiag_layout
