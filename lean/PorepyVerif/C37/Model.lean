/-
C37 — executable model of the block-diagonal inverters of
`porepy.numerics.linalg.matrix_operations` (core Lean only, numbers are exact rationals).

  invert_diagonal_blocks (python / numba path)   ↦ `invertDiagonalBlocks`
  block_diag_index / block_diag_matrix           ↦ `blockDiagIndex`, `blockDiagIndptr`, `blockDiagData`
  generate_permutation_to_block_diag_matrix      ↦ `permSearch`
  invert_permuted_block_diag_matrix              ↦ `invertPermuted`

A dense matrix is a list of rows.  The compressed input of the real code (`indptr`, `indices`,
`data`, csr or csc) is read with scipy's value semantics (`toDense`: duplicates add up, explicit
zeros are zeros, the order inside a row is irrelevant).  `np.linalg.inv` of one dense block is
modelled by an exact Gauss–Jordan elimination `inverse` that returns `none` when no pivot is found
(LAPACK's "singular matrix").  `networkx.connected_components` of the bipartite row/column pattern
graph is modelled by label merging over the list of edges (`labels`), a fold without fuel.
-/
namespace PorepyVerif.C37

abbrev Vec := List Rat
abbrev Mat := List (List Rat)

/-! ## dense linear algebra on lists -/

def zeros (n : Nat) : Vec := List.replicate n 0

/-- `i`-th unit vector of length `n` (the zero vector if `i ≥ n`) -/
def unitVec (n i : Nat) : Vec := (List.range n).map (fun j => if j = i then 1 else 0)

def identity (n : Nat) : Mat := (List.range n).map (unitVec n)

def vadd (a b : Vec) : Vec := List.zipWith (· + ·) a b
def vsub (a b : Vec) : Vec := List.zipWith (· - ·) a b
def smul (c : Rat) (a : Vec) : Vec := a.map (c * ·)

/-- row vector times matrix, `b · A = Σ_k b_k • A_k`, result of width `w` -/
def vecMat (w : Nat) : Vec → Mat → Vec
  | b :: bs, a :: as => vadd (smul b a) (vecMat w bs as)
  | _, _ => zeros w

/-- matrix product `B · A` for `A` of width `w` -/
def matMul (w : Nat) (B A : Mat) : Mat := B.map (fun b => vecMat w b A)

def entry (A : Mat) (i j : Nat) : Rat := (A.getD i []).getD j 0

/-- every row has length `n` and there are `n` rows -/
def isSquare (n : Nat) (A : Mat) : Bool := A.length == n && A.all (fun r => r.length == n)

/-! ## Gauss–Jordan inverse

A work row is `(rest, b)`: `rest` = the not yet eliminated columns `k, k+1, …` of the left part
of the augmented matrix `[A | I]`, `b` = the full right part.  Column `k` of the rows already
finished (`done`, in pivot order) is eliminated like that of every other row, so that at the end
the left part is the identity and `done.map (·.2)` is the inverse. -/

abbrev Row := Vec × Vec

/-- first row (in list order) whose leading entry is non-zero, and the remaining rows -/
def extractPivot : List Row → Option (Row × List Row)
  | [] => none
  | r :: rs =>
    match r.1 with
    | [] => none
    | h :: _ =>
      if h ≠ 0 then some (r, rs)
      else match extractPivot rs with
        | none => none
        | some (p, rest) => some (p, r :: rest)

/-- subtract `h ×` (normalised pivot row `p`) from row `r`, where `h` is the leading entry of `r`;
    the leading column is dropped -/
def elimRow (p : Row) (r : Row) : Row :=
  match r.1 with
  | [] => r
  | h :: t => (vsub t (smul h p.1), vsub r.2 (smul h p.2))

def gjLoop : Nat → List Row → List Row → Option (List Row)
  | 0, done, todo => if todo.isEmpty then some done else none
  | fuel + 1, done, todo =>
    match todo with
    | [] => some done
    | _ :: _ =>
      match extractPivot todo with
      | none => none
      | some (p, rest) =>
        match p.1 with
        | [] => none
        | c :: pt =>
          let pn : Row := (smul c⁻¹ pt, smul c⁻¹ p.2)
          gjLoop fuel (done.map (elimRow pn) ++ [pn]) (rest.map (elimRow pn))

/-- exact inverse of a square matrix, `none` = no pivot (singular) or not square -/
def inverse (A : Mat) : Option Mat :=
  let n := A.length
  if isSquare n A then
    (gjLoop n [] (A.zip (identity n))).map (fun rows => rows.map (·.2))
  else none

/-! ## compressed storage → dense -/

def modifyAt (f : α → α) : Nat → List α → List α
  | _, [] => []
  | 0, x :: xs => f x :: xs
  | i + 1, x :: xs => x :: modifyAt f i xs

def addAt (A : Mat) (i j : Nat) (v : Rat) : Mat := modifyAt (modifyAt (· + v) j) i A

/-- `np.repeat(np.arange(n), np.diff(indptr))`: the major index of every stored entry -/
def majorIndex : Nat → List Nat → List Nat
  | i, a :: b :: rest => List.replicate (b - a) i ++ majorIndex (i + 1) (b :: rest)
  | _, _ => []

/-- dense value of a compressed matrix (csr: major = row; csc: major = column) -/
def toDense (csr : Bool) (nrows ncols : Nat) (indptr indices : List Nat) (data : Vec) : Mat :=
  let major := majorIndex 0 indptr
  ((major.zip indices).zip data).foldl
    (fun A t => if csr then addAt A t.1.1 t.1.2 t.2 else addAt A t.1.2 t.1.1 t.2)
    (List.replicate nrows (zeros ncols))

/-! ## invert_diagonal_blocks -/

def extractBlock (A : Mat) (o s : Nat) : Mat := ((A.drop o).take s).map (fun r => (r.drop o).take s)

/-- the diagonal blocks with the given sizes, starting at offset `o` -/
def extractBlocks (A : Mat) : Nat → List Nat → List Mat
  | _, [] => []
  | o, s :: ss => extractBlock A o s :: extractBlocks A (o + s) ss

/-- `mapM inverse`, written out -/
def invertAll : List Mat → Option (List Mat)
  | [] => some []
  | B :: Bs =>
    match inverse B with
    | none => none
    | some X => match invertAll Bs with
      | none => none
      | some Xs => some (X :: Xs)

/-- `block_diag_index(sz)` (the `n is None` branch): column indices of the csr block-diagonal
    matrix with full square blocks -/
def blockDiagIndex : Nat → List Nat → List Nat
  | _, [] => []
  | o, s :: ss => (List.replicate s (List.range' o s)).flatten ++ blockDiagIndex (o + s) ss

def cumsumFrom (s : Nat) : List Nat → List Nat
  | [] => []
  | x :: xs => (s + x) :: cumsumFrom (s + x) xs

/-- `rldecode(sz, sz)` -/
def rowLengths (sz : List Nat) : List Nat := sz.flatMap (fun s => List.replicate s s)

/-- `indptr` of `block_diag_matrix` -/
def blockDiagIndptr (sz : List Nat) : List Nat := 0 :: cumsumFrom 0 (rowLengths sz)

/-- `data` of `block_diag_matrix`: the blocks row-major, one after the other -/
def blockDiagData (blocks : List Mat) : Vec := blocks.flatMap (fun B => B.flatten)

/-- dense block-diagonal matrix of total size `n` from square blocks, starting at offset `o` -/
def denseBlockDiag (n : Nat) : Nat → List Mat → Mat
  | _, [] => []
  | o, B :: Bs =>
    B.map (fun r => zeros o ++ r ++ zeros (n - o - B.length)) ++ denseBlockDiag n (o + B.length) Bs

structure BlockInverse where
  sizes : List Nat
  blocks : List Mat
  indices : List Nat
  indptr : List Nat
  data : Vec
  dense : Mat

/-- `invert_diagonal_blocks(mat, s)`; `none` = a block is singular (`LinAlgError` / `ValueError`).
    Blocks of size 0 are dropped first, as in the code. -/
def invertDiagonalBlocks (A : Mat) (s : List Nat) : Option BlockInverse :=
  let sz := s.filter (· > 0)
  match invertAll (extractBlocks A 0 sz) with
  | none => none
  | some inv =>
    some { sizes := sz, blocks := inv, indices := blockDiagIndex 0 sz, indptr := blockDiagIndptr sz,
           data := blockDiagData inv, dense := denseBlockDiag (sz.foldl (· + ·) 0) 0 inv }

/-! ## generate_permutation_to_block_diag_matrix -/

/-- positions of the non-zero entries, row-major: the edges `(i, j)` ≙ `(i, n + j)` of the graph -/
def rowEdges (i : Nat) : Nat → Vec → List (Nat × Nat)
  | _, [] => []
  | j, v :: vs => if v ≠ 0 then (i, j) :: rowEdges i (j + 1) vs else rowEdges i (j + 1) vs

def edgesFrom : Nat → Mat → List (Nat × Nat)
  | _, [] => []
  | i, r :: rs => rowEdges i 0 r ++ edgesFrom (i + 1) rs

def edges (A : Mat) : List (Nat × Nat) := edgesFrom 0 A

def relabel (a b : Nat) (lab : List Nat) : List Nat := lab.map (fun l => if l = b then a else l)

/-- join the classes of row node `e.1` and column node `n + e.2` -/
def mergeEdge (n : Nat) (lab : List Nat) (e : Nat × Nat) : List Nat :=
  match lab[e.1]?, lab[n + e.2]? with
  | some a, some b => relabel a b lab
  | _, _ => lab

/-- class label of every node (`0 … n-1` rows, `n … 2n-1` columns) after joining along all edges -/
def labels (n : Nat) (es : List (Nat × Nat)) : List Nat := es.foldl (mergeEdge n) (List.range (2 * n))

def rowsOf (n : Nat) (lab : List Nat) (l : Nat) : List Nat := (List.range n).filter (fun i => lab[i]? == some l)
def colsOf (n : Nat) (lab : List Nat) (l : Nat) : List Nat := (List.range n).filter (fun j => lab[n + j]? == some l)

/-- all label classes as (sorted rows, sorted columns) -/
def groups (n : Nat) (lab : List Nat) : List (List Nat × List Nat) :=
  (List.range (2 * n)).map (fun l => (rowsOf n lab l, colsOf n lab l))

/-- the connected components of the graph `G` of the code: `G` only has the nodes that carry an
    edge, so its components are the classes containing a row and a column -/
def components (n : Nat) (lab : List Nat) : List (List Nat × List Nat) :=
  (groups n lab).filter (fun g => !g.1.isEmpty && !g.2.isEmpty)

structure PermResult where
  blocks : List (List Nat × List Nat)
  rowPerm : List Nat
  colPerm : List Nat
  sizes : List Nat

inductive PermError where
  | valueError      -- empty in one direction only, or not square
  | assertionError  -- a component with different numbers of rows and columns
deriving DecidableEq, Repr

/-- `generate_permutation_to_block_diag_matrix` for a matrix of shape `(nrows, ncols)`.
    The order of the components is by label here and by networkx's traversal in the code;
    everything else (sorting inside a block, the single-component shortcut, all-zero rows as
    trailing 1×1 blocks paired with the column of the same index) is as coded. -/
def permSearch (nrows ncols : Nat) (A : Mat) : Except PermError PermResult :=
  if (nrows == 0) != (ncols == 0) then .error .valueError
  else if nrows != ncols then .error .valueError
  else
    let n := nrows
    let comps := components n (labels n (edges A))
    if comps.length == 1 then
      .ok { blocks := [(List.range n, List.range n)], rowPerm := List.range n, colPerm := List.range n, sizes := [n] }
    else if comps.any (fun c => c.1.length != c.2.length) then .error .assertionError
    else
      let used := comps.flatMap (·.1)
      let missing := (List.range n).filter (fun i => !used.contains i)
      let blocks := comps ++ missing.map (fun i => ([i], [i]))
      .ok { blocks := blocks, rowPerm := blocks.flatMap (·.1), colPerm := blocks.flatMap (·.2),
            sizes := blocks.map (·.1.length) }

/-! ## invert_permuted_block_diag_matrix -/

/-- `A[row_perm, :][:, col_perm]` -/
def permute (A : Mat) (rp cp : List Nat) : Mat := rp.map (fun i => cp.map (fun j => entry A i j))

/-- `Z[col_perm[k], row_perm[l]] = X[k, l]` -/
def unpermute (n : Nat) (X : Mat) (rp cp : List Nat) : Mat :=
  (List.range n).map (fun i => (List.range n).map (fun j => entry X (cp.idxOf i) (rp.idxOf j)))

/-- `invert_permuted_block_diag_matrix(A, row_perm, col_perm, block_sizes)`; `none` = singular block -/
def invertPermuted (n : Nat) (A : Mat) (rp cp sizes : List Nat) : Option Mat :=
  match invertDiagonalBlocks (permute A rp cp) sizes with
  | none => none
  | some r => some (unpermute n r.dense rp cp)

/-! ## decidable input conditions of the pipeline theorems (evaluated by the driver on every case) -/

/-- `l` is a permutation of `0 … n-1` -/
def isPermOfRange (n : Nat) (l : List Nat) : Bool :=
  l.length == n && (List.range n).all (fun i => l.contains i)

/-- `B` is block diagonal with the given (positive) sizes: it equals the block-diagonal assembly
    of its own diagonal blocks -/
def isBlockDiag (n : Nat) (B : Mat) (sz : List Nat) : Bool :=
  decide (B = denseBlockDiag n 0 (extractBlocks B 0 sz))

/-- hypotheses of `invertDiagonalBlocks_correct` -/
def blockHyp (n : Nat) (A : Mat) (sizes : List Nat) : Bool :=
  isSquare n A && decide ((sizes.filter (· > 0)).sum = n) && isBlockDiag n A (sizes.filter (· > 0))

/-- hypotheses of `invertPermuted_correct` -/
def pipelineHyp (n : Nat) (A : Mat) (rp cp sizes : List Nat) : Bool :=
  isPermOfRange n rp && isPermOfRange n cp && decide ((sizes.filter (· > 0)).sum = n) &&
    isBlockDiag n (permute A rp cp) (sizes.filter (· > 0))

/-! ## neighbouring entry points -/

inductive InvError where
  | singular       -- LinAlgError (python) / ValueError (numba)
  | unknownMethod  -- ValueError("Unknown type of block inverter")
  | badFormat      -- TypeError("Sparse array type not implemented")
deriving DecidableEq, Repr

/-- `invert_diagonal_blocks(mat, s, method)` with its option handling (numba available): the
    method is selected first (`None` = numba), the storage format is checked inside the selected
    inverter; both inverters compute the same function. -/
def invertDiagonalBlocksOpt (fmtOk : Bool) (method : Option String) (A : Mat) (s : List Nat) :
    Except InvError BlockInverse :=
  if method == none || method == some "numba" || method == some "python" then
    if !fmtOk then .error .badFormat
    else match invertDiagonalBlocks A s with
      | none => .error .singular
      | some r => .ok r
  else .error .unknownMethod

/-- `block_diag_index(m, n)` (two-argument branch): row and column indices of the block-diagonal
    pattern with full `m_k × n_k` blocks, column by column -/
def blockDiagIndexRect : Nat → Nat → List Nat → List Nat → List Nat × List Nat
  | ro, co, m :: ms, n :: ns =>
    let rest := blockDiagIndexRect (ro + m) (co + n) ms ns
    ((List.replicate n (List.range' ro m)).flatten ++ rest.1,
     (List.range' co n).flatMap (fun c => List.replicate m c) ++ rest.2)
  | _, _, _, _ => ([], [])

end PorepyVerif.C37
