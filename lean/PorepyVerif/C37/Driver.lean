/- C37 line-protocol driver: `lake env lean --run PorepyVerif/C37/Driver.lean`

Every op carries the compressed matrix exactly as it is handed to the real code:
  {"op":…, "fmt":"csr"|"csc", "nrows":…, "ncols":…, "indptr":[…], "indices":[…], "data":["n/d",…], …}
ops:
  invert   + "sizes"                          → {"indices","indptr","data","dense"} | {"err":"singular"}
  perm                                        → {"blocks","row_perm","col_perm","sizes"} | {"err":"ValueError"|"AssertionError"}
  invperm  + "row_perm","col_perm","sizes"    → {"dense"} | {"err":"singular"}
  pinv     (perm, then invperm with its result) → {"dense"} | {"err":"singular"|"ValueError"|"AssertionError"}
  invert_opt + "sizes","method","fmt_ok"      → as invert | {"err":"ValueError"|"TypeError"|"singular"}
  bdi      {"m":[…],"n":[…]} (no matrix)       → {"i","j"}
Answers that carry an inverse also carry "hyp_ok": the decidable hypothesis (`blockHyp` /
`pipelineHyp`) of the `_checked` pipeline theorems, evaluated on this very input.
Whenever an inverse is returned the driver re-checks A·X = I and X·A = I exactly over the
rationals and answers {"err":"model-failure"} otherwise.  This is redundancy: the identities are
theorems (`invertDiagonalBlocks_correct`, `invertPermuted_correct` in Props.lean).
-/
import PorepyVerif.Common.Wire
import PorepyVerif.C37.Model
open Lean PV PorepyVerif.C37

def readMat (j : Json) : R (Nat × Nat × Mat) := do
  let fmt ← fStr j "fmt"
  let nr ← fNat j "nrows"
  let nc ← fNat j "ncols"
  let indptr ← fNats j "indptr"
  let indices ← fNats j "indices"
  let data ← fRats j "data"
  if fmt != "csr" && fmt != "csc" then throw s!"unknown format {fmt}" else
  let csr := fmt == "csr"
  if indptr.length != (if csr then nr else nc) + 1 then throw "indptr length" else
  if indices.length != data.length then throw "indices/data length" else
  if indptr.getLast? != some data.length then throw "indptr end" else
  pure (nr, nc, toDense csr nr nc indptr indices data)

def ofMat (A : Mat) : Json := ofList ofRats A

/-- exact two-sided check of a computed inverse -/
def isInverse (n : Nat) (A X : Mat) : Bool :=
  matMul n A X == identity n && matMul n X A == identity n

def step (_ : Unit) (j : Json) : R (Unit × Json) := do
  let op ← fStr j "op"
  if op == "bdi" then
    -- block_diag_index(m, n), two-argument branch
    let m ← fNats j "m"
    let n ← fNats j "n"
    if m.length != n.length then throw "bdi: lengths" else
    let r := blockDiagIndexRect 0 0 m n
    return ((), obj [("i", ofNats r.1), ("j", ofNats r.2)])
  let (nr, nc, A) ← readMat j
  match op with
  | "invert" =>
    let sizes ← fNats j "sizes"
    if nr != nc then throw "invert: not square" else
    match invertDiagonalBlocks A sizes with
    | none => pure ((), err "singular")
    | some r =>
      let m := r.sizes.foldl (· + ·) 0
      -- the inverse is compared with the leading m×m part (m = n on every well-formed case)
      let Am := (A.take m).map (·.take m)
      if !isInverse m Am r.dense then pure ((), err "model-failure") else
      pure ((), obj [("indices", ofNats r.indices), ("indptr", ofNats r.indptr),
                     ("data", ofRats r.data), ("dense", ofMat r.dense),
                     ("hyp_ok", Json.bool (blockHyp nr A sizes))])
  | "invert_opt" =>
    -- option handling: "method" (string or null), "fmt_ok" (the real input is csr/csc)
    let sizes ← fNats j "sizes"
    let fmtOk ← fBool j "fmt_ok"
    let method ← field j "method" >>= jOpt jStr
    match invertDiagonalBlocksOpt fmtOk method A sizes with
    | .error .singular => pure ((), err "singular")
    | .error .unknownMethod => pure ((), err "ValueError")
    | .error .badFormat => pure ((), err "TypeError")
    | .ok r =>
      pure ((), obj [("indices", ofNats r.indices), ("indptr", ofNats r.indptr),
                     ("data", ofRats r.data), ("dense", ofMat r.dense),
                     ("hyp_ok", Json.bool (blockHyp nr A sizes))])
  | "perm" =>
    match permSearch nr nc A with
    | .error .valueError => pure ((), err "ValueError")
    | .error .assertionError => pure ((), err "AssertionError")
    | .ok r =>
      pure ((), obj [("blocks", ofList (fun b => ofList ofNats [b.1, b.2]) r.blocks),
                     ("row_perm", ofNats r.rowPerm), ("col_perm", ofNats r.colPerm),
                     ("sizes", ofNats r.sizes)])
  | "invperm" =>
    let rp ← fNats j "row_perm"
    let cp ← fNats j "col_perm"
    let sizes ← fNats j "sizes"
    if nr != nc then throw "invperm: not square" else
    match invertPermuted nr A rp cp sizes with
    | none => pure ((), err "singular")
    | some X =>
      if !isInverse nr A X then pure ((), err "model-failure") else
      pure ((), obj [("dense", ofMat X), ("hyp_ok", Json.bool (pipelineHyp nr A rp cp sizes))])
  | "pinv" =>
    if nr != nc then throw "pinv: not square" else
    match permSearch nr nc A with
    | .error .valueError => pure ((), err "ValueError")
    | .error .assertionError => pure ((), err "AssertionError")
    | .ok p =>
      match invertPermuted nr A p.rowPerm p.colPerm p.sizes with
      | none => pure ((), err "singular")
      | some X =>
        if !isInverse nr A X then pure ((), err "model-failure") else
        pure ((), obj [("dense", ofMat X),
                       ("hyp_ok", Json.bool (pipelineHyp nr A p.rowPerm p.colPerm p.sizes))])
  | _ => throw s!"unknown op {op}"

def main : IO Unit := runDriver () step
