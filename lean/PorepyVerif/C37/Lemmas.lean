import PorepyVerif.C37.Model
import Mathlib.Tactic.Ring
import Mathlib.Algebra.Order.Field.Rat
import Mathlib.Logic.Relation
import Mathlib.Data.List.Nodup
import Mathlib.Data.List.Perm.Subperm

namespace PorepyVerif.C37

/-! ### vectors -/

@[simp] theorem length_zeros (n : Nat) : (zeros n).length = n := by simp [zeros]
@[simp] theorem length_smul (c : Rat) (a : Vec) : (smul c a).length = a.length := by simp [smul]
@[simp] theorem length_vadd (a b : Vec) : (vadd a b).length = min a.length b.length := by simp [vadd]
@[simp] theorem length_vsub (a b : Vec) : (vsub a b).length = min a.length b.length := by simp [vsub]
@[simp] theorem length_unitVec (n i : Nat) : (unitVec n i).length = n := by simp [unitVec]

theorem zeros_succ (n : Nat) : zeros (n + 1) = 0 :: zeros n := rfl
theorem zeros_succ' (n : Nat) : zeros (n + 1) = zeros n ++ [0] := by
  simp [zeros, List.replicate_succ']

@[simp] theorem smul_nil (c : Rat) : smul c [] = [] := rfl
@[simp] theorem smul_cons (c x : Rat) (a : Vec) : smul c (x :: a) = (c * x) :: smul c a := rfl
@[simp] theorem vadd_nil_left (b : Vec) : vadd [] b = [] := rfl
@[simp] theorem vadd_nil_right (a : Vec) : vadd a [] = [] := by cases a <;> rfl
@[simp] theorem vadd_cons (x y : Rat) (a b : Vec) : vadd (x :: a) (y :: b) = (x + y) :: vadd a b := rfl
@[simp] theorem vsub_nil_left (b : Vec) : vsub [] b = [] := rfl
@[simp] theorem vsub_nil_right (a : Vec) : vsub a [] = [] := by cases a <;> rfl
@[simp] theorem vsub_cons (x y : Rat) (a b : Vec) : vsub (x :: a) (y :: b) = (x - y) :: vsub a b := rfl

theorem smul_zeros (c : Rat) (n : Nat) : smul c (zeros n) = zeros n := by
  induction n with
  | zero => rfl
  | succ n ih => simp [zeros_succ, ih]

theorem smul_append (c : Rat) (a b : Vec) : smul c (a ++ b) = smul c a ++ smul c b := by
  simp [smul]

theorem vadd_zeros_right (a : Vec) : vadd a (zeros a.length) = a := by
  induction a with
  | nil => rfl
  | cons x a ih => simp [zeros_succ, ih]

theorem vadd_zeros_left (a : Vec) : vadd (zeros a.length) a = a := by
  induction a with
  | nil => rfl
  | cons x a ih => simp [zeros_succ, ih]

theorem vsub_zeros_right (a : Vec) : vsub a (zeros a.length) = a := by
  induction a with
  | nil => rfl
  | cons x a ih => simp [zeros_succ, ih]

theorem smul_zero_left (a : Vec) : smul 0 a = zeros a.length := by
  induction a with
  | nil => rfl
  | cons x a ih => simp [zeros_succ, ih]

theorem smul_one (a : Vec) : smul 1 a = a := by
  induction a with
  | nil => rfl
  | cons x a ih => simp [ih]

theorem vsub_append (a b c d : Vec) (h : a.length = c.length) :
    vsub (a ++ b) (c ++ d) = vsub a c ++ vsub b d := by
  unfold vsub
  exact List.zipWith_append h

/-- the pointwise identity behind linearity of `vecMat` under `r - h • p` -/
theorem vsub_vadd_smul (b c h : Rat) (a X Y : Vec) :
    vsub (vadd (smul b a) X) (smul h (vadd (smul c a) Y))
      = vadd (smul (b - h * c) a) (vsub X (smul h Y)) := by
  induction a generalizing X Y with
  | nil => simp
  | cons x a ih =>
    cases X with
    | nil => simp
    | cons p X =>
      cases Y with
      | nil => simp
      | cons q Y =>
        simp only [smul_cons, vadd_cons, vsub_cons, ih]
        congr 1
        ring

theorem smul_vadd_smul (b c : Rat) (a X : Vec) :
    smul c (vadd (smul b a) X) = vadd (smul (c * b) a) (smul c X) := by
  induction a generalizing X with
  | nil => simp
  | cons x a ih =>
    cases X with
    | nil => simp
    | cons p X =>
      simp only [smul_cons, vadd_cons, ih]
      congr 1
      ring

/-! ### vecMat -/

@[simp] theorem vecMat_nil_left (w : Nat) (A : Mat) : vecMat w [] A = zeros w := by
  cases A <;> rfl
@[simp] theorem vecMat_nil_right (w : Nat) (b : Vec) : vecMat w b [] = zeros w := by
  cases b <;> rfl
@[simp] theorem vecMat_cons (w : Nat) (b : Rat) (bs : Vec) (a : Vec) (as : Mat) :
    vecMat w (b :: bs) (a :: as) = vadd (smul b a) (vecMat w bs as) := rfl

theorem length_vecMat (w : Nat) (b : Vec) (A : Mat) (hA : ∀ a ∈ A, a.length = w) :
    (vecMat w b A).length = w := by
  induction b generalizing A with
  | nil => simp
  | cons x b ih =>
    cases A with
    | nil => simp
    | cons a A =>
      simp only [vecMat_cons, length_vadd, length_smul]
      rw [ih A (fun a' h => hA a' (List.mem_cons_of_mem _ h)), hA a List.mem_cons_self]
      simp

theorem vsub_zeros_smul_zeros (h : Rat) (w : Nat) : vsub (zeros w) (smul h (zeros w)) = zeros w := by
  rw [smul_zeros]
  have := vsub_zeros_right (zeros w)
  simpa using this

theorem vecMat_vsub_smul (w : Nat) (h : Rat) (b c : Vec) (A : Mat) (hl : b.length = c.length) :
    vecMat w (vsub b (smul h c)) A = vsub (vecMat w b A) (smul h (vecMat w c A)) := by
  induction b generalizing c A with
  | nil =>
    cases c with
    | nil => simp [vsub_zeros_smul_zeros]
    | cons y c => simp at hl
  | cons x b ih =>
    cases c with
    | nil => simp at hl
    | cons y c =>
      cases A with
      | nil => simp [vsub_zeros_smul_zeros]
      | cons a A =>
        simp only [smul_cons, vsub_cons, vecMat_cons]
        rw [ih c A (by simpa using hl), vsub_vadd_smul]

theorem vecMat_smul (w : Nat) (c : Rat) (b : Vec) (A : Mat) :
    vecMat w (smul c b) A = smul c (vecMat w b A) := by
  induction b generalizing A with
  | nil => simp [smul_zeros]
  | cons x b ih =>
    cases A with
    | nil => simp [smul_zeros]
    | cons a A =>
      simp only [smul_cons, vecMat_cons, ih, smul_vadd_smul]


/-! ### unit vectors and the identity -/

theorem unitVec_succ (k i : Nat) : unitVec (k + 1) i = unitVec k i ++ [if k = i then 1 else 0] := by
  simp [unitVec, List.range_succ]

theorem unitVec_ge (k i : Nat) (h : k ≤ i) : unitVec k i = zeros k := by
  induction k with
  | zero => rfl
  | succ k ih =>
    rw [unitVec_succ, ih (by omega), zeros_succ']
    have : k ≠ i := by omega
    simp [this]

theorem unitVec_succ_lt (k i : Nat) (h : i < k) : unitVec (k + 1) i = unitVec k i ++ [0] := by
  rw [unitVec_succ]
  have : k ≠ i := by omega
  simp [this]

theorem unitVec_succ_self (k : Nat) : unitVec (k + 1) k = zeros k ++ [1] := by
  rw [unitVec_succ, unitVec_ge k k (Nat.le_refl k)]
  simp

theorem unitVec_zero_succ (n : Nat) : unitVec (n + 1) 0 = 1 :: zeros n := by
  simp only [unitVec, List.range_succ_eq_map, List.map_cons, List.map_map]
  simp [zeros, Function.comp_def]
  all_goals exact List.eq_replicate_iff.mpr ⟨by simp, by simp⟩

theorem unitVec_succ_succ (n i : Nat) : unitVec (n + 1) (i + 1) = 0 :: unitVec n i := by
  simp only [unitVec, List.range_succ_eq_map, List.map_cons, List.map_map]
  simp [Function.comp_def]

theorem identity_succ (n : Nat) :
    identity (n + 1) = (1 :: zeros n) :: (identity n).map (fun e => 0 :: e) := by
  simp only [identity, List.range_succ_eq_map, List.map_cons, List.map_map, unitVec_zero_succ]
  congr 1
  apply List.map_congr_left
  intro i _
  simp [unitVec_succ_succ]

theorem vecMat_zeros (w k : Nat) (A : Mat) (hA : ∀ a ∈ A, a.length = w) : vecMat w (zeros k) A = zeros w := by
  induction k generalizing A with
  | zero => simp [zeros]
  | succ k ih =>
    cases A with
    | nil => simp
    | cons a A =>
      rw [zeros_succ, vecMat_cons, ih A (fun a' h => hA a' (List.mem_cons_of_mem _ h)), smul_zero_left,
        hA a List.mem_cons_self]
      have := vadd_zeros_left (zeros w)
      simpa using this

/-- the rows of `[A | I]`: the right part `e` reproduces the left part `a` -/
theorem zip_identity_rows (w : Nat) (A : Mat) (hA : ∀ a ∈ A, a.length = w) :
    ∀ r ∈ A.zip (identity A.length), vecMat w r.2 A = r.1 ∧ r.2.length = A.length := by
  induction A with
  | nil => simp
  | cons a A ih =>
    have hA' : ∀ a' ∈ A, a'.length = w := fun a' h => hA a' (List.mem_cons_of_mem _ h)
    have ha : a.length = w := hA a List.mem_cons_self
    intro r hr
    rw [List.length_cons, identity_succ, List.zip_cons_cons] at hr
    rcases List.mem_cons.mp hr with rfl | hr
    · constructor
      · show vecMat w (1 :: zeros A.length) (a :: A) = a
        rw [vecMat_cons, vecMat_zeros w _ A hA', smul_one, ← ha]
        exact vadd_zeros_right a
      · simp
    · rw [List.zip_map_right] at hr
      obtain ⟨r', hr', rfl⟩ := List.mem_map.mp hr
      obtain ⟨h1, h2⟩ := ih hA' r' hr'
      constructor
      · show vecMat w (0 :: r'.2) (a :: A) = r'.1
        rw [vecMat_cons, smul_zero_left, h1, ha]
        have hl : r'.1.length = w := by rw [← h1]; exact length_vecMat w _ A hA'
        rw [← hl]
        exact vadd_zeros_left r'.1
      · simp [h2]



/-! ### the Gauss–Jordan loop -/

/-- row invariant: the right part `b` reproduces, through the original matrix, the (virtual) full
    left part `pre ++ rest` -/
def RowOK (n : Nat) (A0 : Mat) (pre : Vec) (r : Row) : Prop :=
  r.2.length = n ∧ vecMat n r.2 A0 = pre ++ r.1

theorem extractPivot_spec (todo : List Row) (p : Row) (rest : List Row)
    (h : extractPivot todo = some (p, rest)) :
    p ∈ todo ∧ (∀ r ∈ rest, r ∈ todo) ∧ rest.length + 1 = todo.length ∧
      ∃ c pt, p.1 = c :: pt ∧ c ≠ 0 := by
  induction todo generalizing p rest with
  | nil => simp [extractPivot] at h
  | cons r rs ih =>
    unfold extractPivot at h
    split at h
    · simp at h
    · rename_i hd tl hr
      split at h
      · rename_i hne
        simp only [Option.some.injEq, Prod.mk.injEq] at h
        obtain ⟨rfl, rfl⟩ := h
        exact ⟨List.mem_cons_self, fun r hr => List.mem_cons_of_mem _ hr, rfl, hd, tl, hr, hne⟩
      · split at h
        · simp at h
        · rename_i p' rest' hrec
          simp only [Option.some.injEq, Prod.mk.injEq] at h
          obtain ⟨rfl, rfl⟩ := h
          obtain ⟨h1, h2, h3, h4⟩ := ih p' rest' hrec
          refine ⟨List.mem_cons_of_mem _ h1, ?_, by simp [← h3], h4⟩
          intro x hx
          rcases List.mem_cons.mp hx with rfl | hx
          · exact List.mem_cons_self
          · exact List.mem_cons_of_mem _ (h2 x hx)

theorem norm_step (n : Nat) (A0 : Mat) (k : Nat) (p : Row) (c : Rat) (pt : Vec)
    (hp : RowOK n A0 (zeros k) p) (hp1 : p.1 = c :: pt) (hc : c ≠ 0) :
    RowOK n A0 (zeros k ++ [1]) (smul c⁻¹ pt, smul c⁻¹ p.2) := by
  obtain ⟨hl, hv⟩ := hp
  refine ⟨by simp [hl], ?_⟩
  show vecMat n (smul c⁻¹ p.2) A0 = (zeros k ++ [1]) ++ smul c⁻¹ pt
  rw [vecMat_smul, hv, hp1, smul_append, smul_zeros, smul_cons]
  have : c⁻¹ * c = 1 := inv_mul_cancel₀ hc
  rw [this]
  simp

theorem elim_step (n : Nat) (A0 : Mat) (k : Nat) (pn r : Row) (pre : Vec)
    (hpn : RowOK n A0 (zeros k ++ [1]) pn) (hr : RowOK n A0 pre r) (hpre : pre.length = k)
    (hne : r.1 ≠ []) : RowOK n A0 (pre ++ [0]) (elimRow pn r) := by
  obtain ⟨hl, hv⟩ := hr
  obtain ⟨hlp, hvp⟩ := hpn
  cases hr1 : r.1 with
  | nil => exact absurd hr1 hne
  | cons h t =>
    unfold elimRow
    simp only [hr1]
    refine ⟨by simp [hl, hlp], ?_⟩
    show vecMat n (vsub r.2 (smul h pn.2)) A0 = (pre ++ [0]) ++ vsub t (smul h pn.1)
    rw [vecMat_vsub_smul n h r.2 pn.2 A0 (by rw [hl, hlp]), hv, hvp, hr1]
    rw [List.append_assoc, smul_append, smul_zeros, vsub_append _ _ _ _ (by simp [hpre])]
    rw [← hpre, vsub_zeros_right]
    simp



theorem rowOK_rest_length (n : Nat) (A0 : Mat) (hA0 : ∀ a ∈ A0, a.length = n) (pre : Vec) (r : Row)
    (h : RowOK n A0 pre r) : pre.length + r.1.length = n := by
  have := length_vecMat n r.2 A0 hA0
  rw [h.2] at this
  simpa using this

theorem gjLoop_spec (n : Nat) (A0 : Mat) (hA0 : ∀ a ∈ A0, a.length = n) :
    ∀ (fuel : Nat) (done todo res : List Row),
      (∀ i (h : i < done.length), RowOK n A0 (unitVec done.length i) done[i]) →
      (∀ r ∈ todo, RowOK n A0 (zeros done.length) r) →
      done.length + todo.length = n →
      gjLoop fuel done todo = some res →
      res.length = n ∧ ∀ i (h : i < res.length), res[i].2.length = n ∧ vecMat n res[i].2 A0 = unitVec n i := by
  intro fuel
  induction fuel with
  | zero =>
    intro done todo res hdone htodo hcount hres
    unfold gjLoop at hres
    split at hres
    · rename_i hemp
      simp only [Option.some.injEq] at hres
      subst hres
      have ht : todo = [] := by simpa using hemp
      subst ht
      have hk : done.length = n := by simpa using hcount
      refine ⟨hk, fun i h => ?_⟩
      obtain ⟨hl2, hv⟩ := hdone i h
      refine ⟨hl2, ?_⟩
      have hlen := rowOK_rest_length n A0 hA0 _ _ (hdone i h)
      have : done[i].1 = [] := by
        apply List.eq_nil_of_length_eq_zero
        simp at hlen; omega
      rw [hv, this, hk]; simp
    · simp at hres
  | succ fuel ih =>
    intro done todo res hdone htodo hcount hres
    unfold gjLoop at hres
    split at hres
    · simp only [Option.some.injEq] at hres
      subst hres
      have hk : done.length = n := by simpa using hcount
      refine ⟨hk, fun i h => ?_⟩
      obtain ⟨hl2, hv⟩ := hdone i h
      refine ⟨hl2, ?_⟩
      have hlen := rowOK_rest_length n A0 hA0 _ _ (hdone i h)
      have : done[i].1 = [] := by
        apply List.eq_nil_of_length_eq_zero
        simp at hlen; omega
      rw [hv, this, hk]; simp
    · rename_i t ts
      split at hres
      · simp at hres
      · rename_i p rest hpiv
        obtain ⟨hpmem, hrest, hrl, c, pt, hp1, hc⟩ := extractPivot_spec _ p rest hpiv
        rw [hp1] at hres
        simp only at hres
        have hpOK := htodo p hpmem
        have hplen := rowOK_rest_length n A0 hA0 _ _ hpOK
        have hkn : done.length < n := by
          rw [hp1] at hplen; simp at hplen; omega
        have hpn := norm_step n A0 done.length p c pt hpOK hp1 hc
        -- every row still has a leading entry
        have hne : ∀ pre (r : Row), pre.length = done.length → RowOK n A0 pre r → r.1 ≠ [] := by
          intro pre r hpre hr hnil
          have := rowOK_rest_length n A0 hA0 _ _ hr
          rw [hnil, hpre] at this; simp at this; omega
        refine ih _ _ res ?_ ?_ ?_ hres
        · intro i h
          simp only [List.length_append, List.length_map, List.length_cons, List.length_nil] at h ⊢
          by_cases hi : i < done.length
          · rw [List.getElem_append_left (by simpa using hi), List.getElem_map]
            rw [unitVec_succ_lt _ _ hi]
            exact elim_step n A0 done.length _ _ _ hpn (hdone i hi) (by simp)
              (hne _ _ (by simp) (hdone i hi))
          · have hie : i = done.length := by omega
            subst hie
            rw [List.getElem_append_right (by simp)]
            simp only [List.length_map, Nat.sub_self, List.getElem_cons_zero]
            rw [unitVec_succ_self]
            exact hpn
        · intro r hr
          obtain ⟨r', hr', rfl⟩ := List.mem_map.mp hr
          simp only [List.length_append, List.length_map, List.length_cons, List.length_nil]
          rw [zeros_succ']
          exact elim_step n A0 done.length _ _ _ hpn (htodo r' (hrest r' hr')) (by simp)
            (hne _ _ (by simp) (htodo r' (hrest r' hr')))
        · simp only [List.length_append, List.length_map, List.length_cons, List.length_nil]
          simp only [List.length_cons] at hcount hrl
          omega


theorem isSquare_iff (n : Nat) (A : Mat) : isSquare n A = true ↔ A.length = n ∧ ∀ a ∈ A, a.length = n := by
  simp [isSquare]

@[simp] theorem length_identity (n : Nat) : (identity n).length = n := by simp [identity]

theorem inverse_some (A B : Mat) (h : inverse A = some B) :
    (∀ a ∈ A, a.length = A.length) ∧
      ∃ res, gjLoop A.length [] (A.zip (identity A.length)) = some res ∧ B = res.map (·.2) := by
  unfold inverse at h
  simp only at h
  split at h
  · rename_i hsq
    obtain ⟨_, hrows⟩ := (isSquare_iff _ _).mp hsq
    refine ⟨hrows, ?_⟩
    cases hg : gjLoop A.length [] (A.zip (identity A.length)) with
    | none => simp [hg] at h
    | some res =>
      simp only [hg, Option.map_some, Option.some.injEq] at h
      exact ⟨res, rfl, h.symm⟩
  · simp at h

/-- list-level statement: the rows `b_i` of the computed inverse satisfy `b_i · A = e_i` -/
theorem inverse_left (A B : Mat) (h : inverse A = some B) :
    matMul A.length B A = identity A.length := by
  obtain ⟨hrows, res, hg, rfl⟩ := inverse_some A B h
  have hspec := gjLoop_spec A.length A hrows A.length [] (A.zip (identity A.length)) res
    (by intro i h; simp at h)
    (by
      intro r hr
      obtain ⟨h1, h2⟩ := zip_identity_rows A.length A hrows r hr
      exact ⟨h2, by simpa [zeros] using h1⟩)
    (by simp)
    hg
  obtain ⟨hlen, hrow⟩ := hspec
  unfold matMul identity
  apply List.ext_getElem
  · simp [hlen]
  · intro i h1 h2
    simp only [List.getElem_map, List.getElem_range]
    exact (hrow i (by simpa using h1)).2

theorem inverse_length (A B : Mat) (h : inverse A = some B) :
    B.length = A.length ∧ ∀ b ∈ B, b.length = A.length := by
  have h1 := inverse_left A B h
  have hl : B.length = A.length := by
    have := congrArg List.length h1
    simpa [matMul] using this
  refine ⟨hl, ?_⟩
  obtain ⟨hrows, res, hg, rfl⟩ := inverse_some A B h
  have hspec := gjLoop_spec A.length A hrows A.length [] (A.zip (identity A.length)) res
    (by intro i h; simp at h)
    (by
      intro r hr
      obtain ⟨h1, h2⟩ := zip_identity_rows A.length A hrows r hr
      exact ⟨h2, by simpa [zeros] using h1⟩)
    (by simp)
    hg
  intro b hb
  obtain ⟨r, hr, rfl⟩ := List.mem_map.mp hb
  obtain ⟨i, hi, rfl⟩ := List.getElem_of_mem hr
  exact (hspec.2 i hi).1



/-! ### label merging = connected components -/

theorem getElem?_relabel (a b : Nat) (lab : List Nat) (u : Nat) :
    (relabel a b lab)[u]? = lab[u]?.map (fun l => if l = b then a else l) := by
  simp [relabel]

@[simp] theorem length_relabel (a b : Nat) (lab : List Nat) : (relabel a b lab).length = lab.length := by
  simp [relabel]

@[simp] theorem length_mergeEdge (n : Nat) (lab : List Nat) (e : Nat × Nat) :
    (mergeEdge n lab e).length = lab.length := by
  unfold mergeEdge
  split <;> simp

theorem length_labels (n : Nat) (es : List (Nat × Nat)) : (labels n es).length = 2 * n := by
  unfold labels
  suffices ∀ lab : List Nat, (es.foldl (mergeEdge n) lab).length = lab.length by simp [this]
  induction es with
  | nil => intro lab; rfl
  | cons e es ih => intro lab; simp [ih]

/-- node-level edge relation of the bipartite graph: row node `i` — column node `n + j` -/
def Edge (n : Nat) (es : List (Nat × Nat)) (u v : Nat) : Prop := ∃ e ∈ es, u = e.1 ∧ v = n + e.2

/-- connectivity in the (undirected) graph -/
def Conn (n : Nat) (es : List (Nat × Nat)) : Nat → Nat → Prop := Relation.EqvGen (Edge n es)

/-- invariant of the fold: labels are node names, equal labels imply connectivity -/
structure LabInv (n : Nat) (es : List (Nat × Nat)) (lab : List Nat) : Prop where
  len : lab.length = 2 * n
  bound : ∀ (u l : Nat), lab[u]? = some l → l < 2 * n
  sound : ∀ (u v l : Nat), lab[u]? = some l → lab[v]? = some l → Conn n es u v

theorem labInv_init (n : Nat) (es : List (Nat × Nat)) : LabInv n es (List.range (2 * n)) where
  len := by simp
  bound := by
    intro u l h
    rw [List.getElem?_eq_some_iff] at h
    obtain ⟨h1, h2⟩ := h
    simp at h1 h2
    omega
  sound := by
    intro u v l hu hv
    rw [List.getElem?_eq_some_iff] at hu hv
    obtain ⟨h1, h2⟩ := hu
    obtain ⟨h3, h4⟩ := hv
    simp at h2 h4
    subst h2
    subst h4
    exact Relation.EqvGen.refl _



theorem mergeEdge_eq_map (n : Nat) (lab : List Nat) (e : Nat × Nat) :
    ∃ f : Nat → Nat, ∀ u : Nat, (mergeEdge n lab e)[u]? = lab[u]?.map f := by
  unfold mergeEdge
  split
  · rename_i a b _ _
    exact ⟨fun l => if l = b then a else l, fun u => getElem?_relabel a b lab u⟩
  · exact ⟨id, fun u => by simp⟩

/-- merging never separates nodes that already share a label -/
theorem mergeEdge_keeps (n : Nat) (lab : List Nat) (e : Nat × Nat) (u v : Nat)
    (h : lab[u]? = lab[v]?) : (mergeEdge n lab e)[u]? = (mergeEdge n lab e)[v]? := by
  obtain ⟨f, hf⟩ := mergeEdge_eq_map n lab e
  rw [hf, hf, h]

theorem foldl_keeps (n : Nat) (es : List (Nat × Nat)) (lab : List Nat) (u v : Nat)
    (h : lab[u]? = lab[v]?) :
    (es.foldl (mergeEdge n) lab)[u]? = (es.foldl (mergeEdge n) lab)[v]? := by
  induction es generalizing lab with
  | nil => exact h
  | cons e es ih => exact ih _ (mergeEdge_keeps n lab e u v h)

/-- merging joins the two end points of the edge -/
theorem mergeEdge_joins (n : Nat) (lab : List Nat) (e : Nat × Nat)
    (h1 : e.1 < lab.length) (h2 : n + e.2 < lab.length) :
    (mergeEdge n lab e)[e.1]? = (mergeEdge n lab e)[n + e.2]? := by
  unfold mergeEdge
  have e1 : lab[e.1]? = some lab[e.1] := List.getElem?_eq_getElem h1
  have e2 : lab[n + e.2]? = some lab[n + e.2] := List.getElem?_eq_getElem h2
  rw [e1, e2]
  simp only [getElem?_relabel, e1, e2, Option.map_some]
  simp

theorem foldl_closed (n : Nat) (es : List (Nat × Nat)) (lab : List Nat) (hlen : lab.length = 2 * n)
    (hr : ∀ e ∈ es, e.1 < n ∧ e.2 < n) :
    ∀ e ∈ es, (es.foldl (mergeEdge n) lab)[e.1]? = (es.foldl (mergeEdge n) lab)[n + e.2]? := by
  induction es generalizing lab with
  | nil => intro e he; cases he
  | cons e0 es ih =>
    intro e he
    rw [List.foldl_cons]
    rcases List.mem_cons.mp he with rfl | he
    · apply foldl_keeps
      have := hr e List.mem_cons_self
      exact mergeEdge_joins n lab e (by omega) (by omega)
    · exact ih _ (by simp [hlen]) (fun e' he' => hr e' (List.mem_cons_of_mem _ he')) e he

theorem labInv_merge (n : Nat) (es : List (Nat × Nat)) (lab : List Nat) (h : LabInv n es lab)
    (e : Nat × Nat) (he : e ∈ es) : LabInv n es (mergeEdge n lab e) := by
  unfold mergeEdge
  split
  · rename_i a b ha hb
    refine ⟨by simp [h.len], ?_, ?_⟩
    · intro u l hu
      rw [getElem?_relabel] at hu
      cases hx : lab[u]? with
      | none => simp [hx] at hu
      | some x =>
        simp only [hx, Option.map_some, Option.some.injEq] at hu
        split at hu
        · subst hu; exact h.bound _ _ ha
        · subst hu; exact h.bound _ _ hx
    · intro u v l hu hv
      rw [getElem?_relabel] at hu hv
      have hedge : Conn n es e.1 (n + e.2) := Relation.EqvGen.rel _ _ ⟨e, he, rfl, rfl⟩
      cases hx : lab[u]? with
      | none => simp [hx] at hu
      | some x =>
        cases hy : lab[v]? with
        | none => simp [hy] at hv
        | some y =>
          simp only [hx, hy, Option.map_some, Option.some.injEq] at hu hv
          by_cases hxb : x = b <;> by_cases hyb : y = b
          · subst hxb; subst hyb; exact h.sound u v _ hx hy
          · -- u is in the class of the column node, v in the class of the row node
            simp only [hxb, hyb, if_true, if_false] at hu hv
            subst hxb
            have hya : y = a := by rw [hv, ← hu]
            subst hya
            exact Relation.EqvGen.trans _ _ _ (h.sound u (n + e.2) _ hx hb)
              (Relation.EqvGen.trans _ _ _ (Relation.EqvGen.symm _ _ hedge) (h.sound e.1 v _ ha hy))
          · simp only [hxb, hyb, if_true, if_false] at hu hv
            subst hyb
            have hxa : x = a := by rw [hu, ← hv]
            subst hxa
            exact Relation.EqvGen.trans _ _ _ (h.sound u e.1 _ hx ha)
              (Relation.EqvGen.trans _ _ _ hedge (h.sound (n + e.2) v _ hb hy))
          · simp only [hxb, hyb, if_false] at hu hv
            have : x = y := by rw [hu, hv]
            subst this
            exact h.sound u v _ hx hy
  · exact h

theorem labInv_foldl (n : Nat) (es0 es : List (Nat × Nat)) (hsub : ∀ e ∈ es, e ∈ es0) (lab : List Nat)
    (h : LabInv n es0 lab) : LabInv n es0 (es.foldl (mergeEdge n) lab) := by
  induction es generalizing lab with
  | nil => exact h
  | cons e es ih =>
    exact ih (fun e' he' => hsub e' (List.mem_cons_of_mem _ he')) _
      (labInv_merge n es0 lab h e (hsub e List.mem_cons_self))

theorem labInv_labels (n : Nat) (es : List (Nat × Nat)) : LabInv n es (labels n es) :=
  labInv_foldl n es es (fun _ h => h) _ (labInv_init n es)

theorem labels_closed (n : Nat) (es : List (Nat × Nat)) (hr : ∀ e ∈ es, e.1 < n ∧ e.2 < n) :
    ∀ e ∈ es, (labels n es)[e.1]? = (labels n es)[n + e.2]? :=
  foldl_closed n es _ (by simp) hr



/-! ### the edge list -/

theorem entry_eq' (L : Mat) (i j : Nat) : entry L i j = (L[i]?.getD [])[j]?.getD 0 := by
  simp [entry]

theorem mem_rowEdges (i j0 : Nat) (vs : Vec) (a b : Nat) :
    (a, b) ∈ rowEdges i j0 vs ↔ a = i ∧ ∃ k, b = j0 + k ∧ vs[k]?.getD 0 ≠ 0 := by
  induction vs generalizing j0 with
  | nil => simp [rowEdges]
  | cons v vs ih =>
    unfold rowEdges
    split
    · rename_i hv
      rw [List.mem_cons, ih]
      constructor
      · rintro (h | ⟨rfl, k, rfl, hk⟩)
        · simp only [Prod.mk.injEq] at h
          obtain ⟨rfl, rfl⟩ := h
          exact ⟨rfl, 0, rfl, by simpa using hv⟩
        · exact ⟨rfl, k + 1, by omega, by simpa using hk⟩
      · rintro ⟨rfl, k, rfl, hk⟩
        cases k with
        | zero => left; rfl
        | succ k => right; exact ⟨rfl, k, by omega, by simpa using hk⟩
    · rename_i hv
      have hv0 : v = 0 := by simpa using hv
      rw [ih]
      constructor
      · rintro ⟨rfl, k, rfl, hk⟩
        exact ⟨rfl, k + 1, by omega, by simpa using hk⟩
      · rintro ⟨rfl, k, rfl, hk⟩
        cases k with
        | zero => simp [hv0] at hk
        | succ k => exact ⟨rfl, k, by omega, by simpa using hk⟩

theorem mem_edgesFrom (i0 : Nat) (rs : Mat) (a b : Nat) :
    (a, b) ∈ edgesFrom i0 rs ↔ ∃ k, a = i0 + k ∧ (rs[k]?.getD [])[b]?.getD 0 ≠ 0 := by
  induction rs generalizing i0 with
  | nil => simp [edgesFrom]
  | cons r rs ih =>
    unfold edgesFrom
    rw [List.mem_append, mem_rowEdges, ih]
    constructor
    · rintro (⟨rfl, k, rfl, hk⟩ | ⟨k, rfl, hk⟩)
      · exact ⟨0, rfl, by simpa using hk⟩
      · exact ⟨k + 1, by omega, by simpa using hk⟩
    · rintro ⟨k, rfl, hk⟩
      cases k with
      | zero => left; exact ⟨rfl, b, by omega, by simpa using hk⟩
      | succ k => right; exact ⟨k, by omega, by simpa using hk⟩

theorem mem_edges (A : Mat) (i j : Nat) : (i, j) ∈ edges A ↔ entry A i j ≠ 0 := by
  unfold edges
  rw [mem_edgesFrom, entry_eq']
  constructor
  · rintro ⟨k, rfl, hk⟩; simpa using hk
  · intro h; exact ⟨i, by omega, h⟩

theorem entry_ne_zero_lt (n : Nat) (A : Mat) (hsq : isSquare n A = true) (i j : Nat) (h : entry A i j ≠ 0) :
    i < n ∧ j < n := by
  obtain ⟨hl, hr⟩ := (isSquare_iff n A).mp hsq
  rw [entry_eq'] at h
  by_cases hi : i < A.length
  · have hrow : A[i]? = some A[i] := List.getElem?_eq_getElem hi
    rw [hrow] at h
    simp only [Option.getD_some] at h
    have hlen : A[i].length = n := hr _ (List.getElem_mem hi)
    by_cases hj : j < A[i].length
    · exact ⟨by omega, by rw [← hlen]; exact hj⟩
    · have hn : A[i][j]? = none := List.getElem?_eq_none (by omega)
      rw [hn] at h
      simp at h
  · have hn : A[i]? = none := List.getElem?_eq_none (by omega)
    rw [hn] at h
    simp at h

theorem edges_lt (n : Nat) (A : Mat) (hsq : isSquare n A = true) :
    ∀ e ∈ edges A, e.1 < n ∧ e.2 < n := by
  intro e he
  exact entry_ne_zero_lt n A hsq e.1 e.2 ((mem_edges A e.1 e.2).mp he)


end PorepyVerif.C37
