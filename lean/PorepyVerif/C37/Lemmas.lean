/-
C37 — helper lemmas (property theorems are in Props.lean).

  * vectors / `vecMat`: linearity of `b ↦ b·A` on lists, without length side conditions where possible
  * Gauss–Jordan: row invariant `RowOK` (the right part of a work row reproduces, through the original
    matrix, the virtual full left part `prefix ++ rest`), `gjLoop_spec`, `inverse_left`
  * label merging: `LabInv` (labels are node names; equal labels ⇒ connected), `labels_closed`
  * components / `permSearch`: disjointness, `permSearch_cases`, permutation lemmas
  * `toMatrix`: reading of a list of rows as a Mathlib matrix, `toMatrix_mul_of_matMul`
  * block structure of Mathlib matrices: `sum_fibre`, `closed_block_mul_right/left`, `card_le_of_mul_eq_one`
  * csr layout: `layoutRows`, `layout_entries`, `layout_rowLengths`
  * completeness: `dot`, `TrivialKernel`, annihilator invariant `ann_step`, `gjLoop_complete`,
    `inverse_complete_list`, `trivialKernel_of_det`
  * pipeline: `dbd_mul` (block-diagonal product on lists), `listEquiv`, `toMatrix_permute/unpermute`,
    `invertDiagonalBlocks_left`, `invertPermuted_left`
-/
import PorepyVerif.C37.Model
import Mathlib.Tactic.Ring
import Mathlib.Algebra.Order.Field.Rat
import Mathlib.Logic.Relation
import Mathlib.Data.List.Nodup
import Mathlib.Data.List.Perm.Subperm
import Mathlib.LinearAlgebra.Matrix.NonsingularInverse
import Mathlib.Algebra.BigOperators.Intervals
import Mathlib.Data.Matrix.Block
import Mathlib.LinearAlgebra.Matrix.Rank

namespace PorepyVerif.C37

/-! ### vectors -/

@[simp] theorem length_zeros (n : Nat) : (zeros n).length = n := by simp [zeros]
@[simp] theorem length_smul (c : Rat) (a : Vec) : (smul c a).length = a.length := by simp [smul]
@[simp] theorem length_vadd (a b : Vec) : (vadd a b).length = min a.length b.length := by simp [vadd]
@[simp] theorem length_vsub (a b : Vec) : (vsub a b).length = min a.length b.length := by simp [vsub]
@[simp] theorem length_unitVec (n i : Nat) : (unitVec n i).length = n := by simp [unitVec]

theorem zeros_succ (n : Nat) : zeros (n + 1) = 0 :: zeros n := rfl
theorem zeros_succ' (n : Nat) : zeros (n + 1) = zeros n ++ [0] := by
  simp [zeros, List.replicate_succ']

@[simp] theorem smul_nil (c : Rat) : smul c [] = [] := rfl
@[simp] theorem smul_cons (c x : Rat) (a : Vec) : smul c (x :: a) = (c * x) :: smul c a := rfl
@[simp] theorem vadd_nil_left (b : Vec) : vadd [] b = [] := rfl
@[simp] theorem vadd_nil_right (a : Vec) : vadd a [] = [] := by cases a <;> rfl
@[simp] theorem vadd_cons (x y : Rat) (a b : Vec) : vadd (x :: a) (y :: b) = (x + y) :: vadd a b := rfl
@[simp] theorem vsub_nil_left (b : Vec) : vsub [] b = [] := rfl
@[simp] theorem vsub_nil_right (a : Vec) : vsub a [] = [] := by cases a <;> rfl
@[simp] theorem vsub_cons (x y : Rat) (a b : Vec) : vsub (x :: a) (y :: b) = (x - y) :: vsub a b := rfl

theorem smul_zeros (c : Rat) (n : Nat) : smul c (zeros n) = zeros n := by
  induction n with
  | zero => rfl
  | succ n ih => simp [zeros_succ, ih]

theorem smul_append (c : Rat) (a b : Vec) : smul c (a ++ b) = smul c a ++ smul c b := by
  simp [smul]

theorem vadd_zeros_right (a : Vec) : vadd a (zeros a.length) = a := by
  induction a with
  | nil => rfl
  | cons x a ih => simp [zeros_succ, ih]

theorem vadd_zeros_left (a : Vec) : vadd (zeros a.length) a = a := by
  induction a with
  | nil => rfl
  | cons x a ih => simp [zeros_succ, ih]

theorem vsub_zeros_right (a : Vec) : vsub a (zeros a.length) = a := by
  induction a with
  | nil => rfl
  | cons x a ih => simp [zeros_succ, ih]

theorem smul_zero_left (a : Vec) : smul 0 a = zeros a.length := by
  induction a with
  | nil => rfl
  | cons x a ih => simp [zeros_succ, ih]

theorem smul_one (a : Vec) : smul 1 a = a := by
  induction a with
  | nil => rfl
  | cons x a ih => simp [ih]

theorem vsub_append (a b c d : Vec) (h : a.length = c.length) :
    vsub (a ++ b) (c ++ d) = vsub a c ++ vsub b d := by
  unfold vsub
  exact List.zipWith_append h

/-- the pointwise identity behind linearity of `vecMat` under `r - h • p` -/
theorem vsub_vadd_smul (b c h : Rat) (a X Y : Vec) :
    vsub (vadd (smul b a) X) (smul h (vadd (smul c a) Y))
      = vadd (smul (b - h * c) a) (vsub X (smul h Y)) := by
  induction a generalizing X Y with
  | nil => simp
  | cons x a ih =>
    cases X with
    | nil => simp
    | cons p X =>
      cases Y with
      | nil => simp
      | cons q Y =>
        simp only [smul_cons, vadd_cons, vsub_cons, ih]
        congr 1
        ring

theorem smul_vadd_smul (b c : Rat) (a X : Vec) :
    smul c (vadd (smul b a) X) = vadd (smul (c * b) a) (smul c X) := by
  induction a generalizing X with
  | nil => simp
  | cons x a ih =>
    cases X with
    | nil => simp
    | cons p X =>
      simp only [smul_cons, vadd_cons, ih]
      congr 1
      ring

/-! ### vecMat -/

@[simp] theorem vecMat_nil_left (w : Nat) (A : Mat) : vecMat w [] A = zeros w := by
  cases A <;> rfl
@[simp] theorem vecMat_nil_right (w : Nat) (b : Vec) : vecMat w b [] = zeros w := by
  cases b <;> rfl
@[simp] theorem vecMat_cons (w : Nat) (b : Rat) (bs : Vec) (a : Vec) (as : Mat) :
    vecMat w (b :: bs) (a :: as) = vadd (smul b a) (vecMat w bs as) := rfl

theorem length_vecMat (w : Nat) (b : Vec) (A : Mat) (hA : ∀ a ∈ A, a.length = w) :
    (vecMat w b A).length = w := by
  induction b generalizing A with
  | nil => simp
  | cons x b ih =>
    cases A with
    | nil => simp
    | cons a A =>
      simp only [vecMat_cons, length_vadd, length_smul]
      rw [ih A (fun a' h => hA a' (List.mem_cons_of_mem _ h)), hA a List.mem_cons_self]
      simp

theorem vsub_zeros_smul_zeros (h : Rat) (w : Nat) : vsub (zeros w) (smul h (zeros w)) = zeros w := by
  rw [smul_zeros]
  have := vsub_zeros_right (zeros w)
  simpa using this

theorem vecMat_vsub_smul (w : Nat) (h : Rat) (b c : Vec) (A : Mat) (hl : b.length = c.length) :
    vecMat w (vsub b (smul h c)) A = vsub (vecMat w b A) (smul h (vecMat w c A)) := by
  induction b generalizing c A with
  | nil =>
    cases c with
    | nil => simp [vsub_zeros_smul_zeros]
    | cons y c => simp at hl
  | cons x b ih =>
    cases c with
    | nil => simp at hl
    | cons y c =>
      cases A with
      | nil => simp [vsub_zeros_smul_zeros]
      | cons a A =>
        simp only [smul_cons, vsub_cons, vecMat_cons]
        rw [ih c A (by simpa using hl), vsub_vadd_smul]

theorem vecMat_smul (w : Nat) (c : Rat) (b : Vec) (A : Mat) :
    vecMat w (smul c b) A = smul c (vecMat w b A) := by
  induction b generalizing A with
  | nil => simp [smul_zeros]
  | cons x b ih =>
    cases A with
    | nil => simp [smul_zeros]
    | cons a A =>
      simp only [smul_cons, vecMat_cons, ih, smul_vadd_smul]


/-! ### unit vectors and the identity -/

theorem unitVec_succ (k i : Nat) : unitVec (k + 1) i = unitVec k i ++ [if k = i then 1 else 0] := by
  simp [unitVec, List.range_succ]

theorem unitVec_ge (k i : Nat) (h : k ≤ i) : unitVec k i = zeros k := by
  induction k with
  | zero => rfl
  | succ k ih =>
    rw [unitVec_succ, ih (by omega), zeros_succ']
    have : k ≠ i := by omega
    simp [this]

theorem unitVec_succ_lt (k i : Nat) (h : i < k) : unitVec (k + 1) i = unitVec k i ++ [0] := by
  rw [unitVec_succ]
  have : k ≠ i := by omega
  simp [this]

theorem unitVec_succ_self (k : Nat) : unitVec (k + 1) k = zeros k ++ [1] := by
  rw [unitVec_succ, unitVec_ge k k (Nat.le_refl k)]
  simp

theorem unitVec_zero_succ (n : Nat) : unitVec (n + 1) 0 = 1 :: zeros n := by
  simp only [unitVec, List.range_succ_eq_map, List.map_cons, List.map_map]
  simp [zeros, Function.comp_def]

theorem unitVec_succ_succ (n i : Nat) : unitVec (n + 1) (i + 1) = 0 :: unitVec n i := by
  simp only [unitVec, List.range_succ_eq_map, List.map_cons, List.map_map]
  simp [Function.comp_def]

theorem identity_succ (n : Nat) :
    identity (n + 1) = (1 :: zeros n) :: (identity n).map (fun e => 0 :: e) := by
  simp only [identity, List.range_succ_eq_map, List.map_cons, List.map_map, unitVec_zero_succ]
  congr 1
  apply List.map_congr_left
  intro i _
  simp [unitVec_succ_succ]

theorem vecMat_zeros (w k : Nat) (A : Mat) (hA : ∀ a ∈ A, a.length = w) : vecMat w (zeros k) A = zeros w := by
  induction k generalizing A with
  | zero => simp [zeros]
  | succ k ih =>
    cases A with
    | nil => simp
    | cons a A =>
      rw [zeros_succ, vecMat_cons, ih A (fun a' h => hA a' (List.mem_cons_of_mem _ h)), smul_zero_left,
        hA a List.mem_cons_self]
      have := vadd_zeros_left (zeros w)
      simpa using this

/-- the rows of `[A | I]`: the right part `e` reproduces the left part `a` -/
theorem zip_identity_rows (w : Nat) (A : Mat) (hA : ∀ a ∈ A, a.length = w) :
    ∀ r ∈ A.zip (identity A.length), vecMat w r.2 A = r.1 ∧ r.2.length = A.length := by
  induction A with
  | nil => simp
  | cons a A ih =>
    have hA' : ∀ a' ∈ A, a'.length = w := fun a' h => hA a' (List.mem_cons_of_mem _ h)
    have ha : a.length = w := hA a List.mem_cons_self
    intro r hr
    rw [List.length_cons, identity_succ, List.zip_cons_cons] at hr
    rcases List.mem_cons.mp hr with rfl | hr
    · constructor
      · show vecMat w (1 :: zeros A.length) (a :: A) = a
        rw [vecMat_cons, vecMat_zeros w _ A hA', smul_one, ← ha]
        exact vadd_zeros_right a
      · simp
    · rw [List.zip_map_right] at hr
      obtain ⟨r', hr', rfl⟩ := List.mem_map.mp hr
      obtain ⟨h1, h2⟩ := ih hA' r' hr'
      constructor
      · show vecMat w (0 :: r'.2) (a :: A) = r'.1
        rw [vecMat_cons, smul_zero_left, h1, ha]
        have hl : r'.1.length = w := by rw [← h1]; exact length_vecMat w _ A hA'
        rw [← hl]
        exact vadd_zeros_left r'.1
      · simp [h2]



/-! ### the Gauss–Jordan loop -/

/-- row invariant: the right part `b` reproduces, through the original matrix, the (virtual) full
    left part `pre ++ rest` -/
def RowOK (n : Nat) (A0 : Mat) (pre : Vec) (r : Row) : Prop :=
  r.2.length = n ∧ vecMat n r.2 A0 = pre ++ r.1

theorem extractPivot_spec (todo : List Row) (p : Row) (rest : List Row)
    (h : extractPivot todo = some (p, rest)) :
    p ∈ todo ∧ (∀ r ∈ rest, r ∈ todo) ∧ rest.length + 1 = todo.length ∧
      ∃ c pt, p.1 = c :: pt ∧ c ≠ 0 := by
  induction todo generalizing p rest with
  | nil => simp [extractPivot] at h
  | cons r rs ih =>
    unfold extractPivot at h
    split at h
    · simp at h
    · rename_i hd tl hr
      split at h
      · rename_i hne
        simp only [Option.some.injEq, Prod.mk.injEq] at h
        obtain ⟨rfl, rfl⟩ := h
        exact ⟨List.mem_cons_self, fun r hr => List.mem_cons_of_mem _ hr, rfl, hd, tl, hr, hne⟩
      · split at h
        · simp at h
        · rename_i p' rest' hrec
          simp only [Option.some.injEq, Prod.mk.injEq] at h
          obtain ⟨rfl, rfl⟩ := h
          obtain ⟨h1, h2, h3, h4⟩ := ih p' rest' hrec
          refine ⟨List.mem_cons_of_mem _ h1, ?_, by simp [← h3], h4⟩
          intro x hx
          rcases List.mem_cons.mp hx with rfl | hx
          · exact List.mem_cons_self
          · exact List.mem_cons_of_mem _ (h2 x hx)

theorem norm_step (n : Nat) (A0 : Mat) (k : Nat) (p : Row) (c : Rat) (pt : Vec)
    (hp : RowOK n A0 (zeros k) p) (hp1 : p.1 = c :: pt) (hc : c ≠ 0) :
    RowOK n A0 (zeros k ++ [1]) (smul c⁻¹ pt, smul c⁻¹ p.2) := by
  obtain ⟨hl, hv⟩ := hp
  refine ⟨by simp [hl], ?_⟩
  show vecMat n (smul c⁻¹ p.2) A0 = (zeros k ++ [1]) ++ smul c⁻¹ pt
  rw [vecMat_smul, hv, hp1, smul_append, smul_zeros, smul_cons]
  have : c⁻¹ * c = 1 := inv_mul_cancel₀ hc
  rw [this]
  simp

theorem elim_step (n : Nat) (A0 : Mat) (k : Nat) (pn r : Row) (pre : Vec)
    (hpn : RowOK n A0 (zeros k ++ [1]) pn) (hr : RowOK n A0 pre r) (hpre : pre.length = k)
    (hne : r.1 ≠ []) : RowOK n A0 (pre ++ [0]) (elimRow pn r) := by
  obtain ⟨hl, hv⟩ := hr
  obtain ⟨hlp, hvp⟩ := hpn
  cases hr1 : r.1 with
  | nil => exact absurd hr1 hne
  | cons h t =>
    unfold elimRow
    simp only [hr1]
    refine ⟨by simp [hl, hlp], ?_⟩
    show vecMat n (vsub r.2 (smul h pn.2)) A0 = (pre ++ [0]) ++ vsub t (smul h pn.1)
    rw [vecMat_vsub_smul n h r.2 pn.2 A0 (by rw [hl, hlp]), hv, hvp, hr1]
    rw [List.append_assoc, smul_append, smul_zeros, vsub_append _ _ _ _ (by simp [hpre])]
    rw [← hpre, vsub_zeros_right]
    simp



theorem rowOK_rest_length (n : Nat) (A0 : Mat) (hA0 : ∀ a ∈ A0, a.length = n) (pre : Vec) (r : Row)
    (h : RowOK n A0 pre r) : pre.length + r.1.length = n := by
  have := length_vecMat n r.2 A0 hA0
  rw [h.2] at this
  simpa using this

theorem gjLoop_spec (n : Nat) (A0 : Mat) (hA0 : ∀ a ∈ A0, a.length = n) :
    ∀ (fuel : Nat) (done todo res : List Row),
      (∀ i (h : i < done.length), RowOK n A0 (unitVec done.length i) done[i]) →
      (∀ r ∈ todo, RowOK n A0 (zeros done.length) r) →
      done.length + todo.length = n →
      gjLoop fuel done todo = some res →
      res.length = n ∧ ∀ i (h : i < res.length), res[i].2.length = n ∧ vecMat n res[i].2 A0 = unitVec n i := by
  intro fuel
  induction fuel with
  | zero =>
    intro done todo res hdone htodo hcount hres
    unfold gjLoop at hres
    split at hres
    · rename_i hemp
      simp only [Option.some.injEq] at hres
      subst hres
      have ht : todo = [] := by simpa using hemp
      subst ht
      have hk : done.length = n := by simpa using hcount
      refine ⟨hk, fun i h => ?_⟩
      obtain ⟨hl2, hv⟩ := hdone i h
      refine ⟨hl2, ?_⟩
      have hlen := rowOK_rest_length n A0 hA0 _ _ (hdone i h)
      have : done[i].1 = [] := by
        apply List.eq_nil_of_length_eq_zero
        simp at hlen; omega
      rw [hv, this, hk]; simp
    · simp at hres
  | succ fuel ih =>
    intro done todo res hdone htodo hcount hres
    unfold gjLoop at hres
    split at hres
    · simp only [Option.some.injEq] at hres
      subst hres
      have hk : done.length = n := by simpa using hcount
      refine ⟨hk, fun i h => ?_⟩
      obtain ⟨hl2, hv⟩ := hdone i h
      refine ⟨hl2, ?_⟩
      have hlen := rowOK_rest_length n A0 hA0 _ _ (hdone i h)
      have : done[i].1 = [] := by
        apply List.eq_nil_of_length_eq_zero
        simp at hlen; omega
      rw [hv, this, hk]; simp
    · rename_i t ts
      split at hres
      · simp at hres
      · rename_i p rest hpiv
        obtain ⟨hpmem, hrest, hrl, c, pt, hp1, hc⟩ := extractPivot_spec _ p rest hpiv
        rw [hp1] at hres
        simp only at hres
        have hpOK := htodo p hpmem
        have hplen := rowOK_rest_length n A0 hA0 _ _ hpOK
        have hkn : done.length < n := by
          rw [hp1] at hplen; simp at hplen; omega
        have hpn := norm_step n A0 done.length p c pt hpOK hp1 hc
        -- every row still has a leading entry
        have hne : ∀ pre (r : Row), pre.length = done.length → RowOK n A0 pre r → r.1 ≠ [] := by
          intro pre r hpre hr hnil
          have := rowOK_rest_length n A0 hA0 _ _ hr
          rw [hnil, hpre] at this; simp at this; omega
        refine ih _ _ res ?_ ?_ ?_ hres
        · intro i h
          simp only [List.length_append, List.length_map, List.length_cons, List.length_nil] at h ⊢
          by_cases hi : i < done.length
          · rw [List.getElem_append_left (by simpa using hi), List.getElem_map]
            rw [unitVec_succ_lt _ _ hi]
            exact elim_step n A0 done.length _ _ _ hpn (hdone i hi) (by simp)
              (hne _ _ (by simp) (hdone i hi))
          · have hie : i = done.length := by omega
            subst hie
            rw [List.getElem_append_right (by simp)]
            simp only [List.length_map, Nat.sub_self, List.getElem_cons_zero]
            rw [unitVec_succ_self]
            exact hpn
        · intro r hr
          obtain ⟨r', hr', rfl⟩ := List.mem_map.mp hr
          simp only [List.length_append, List.length_map, List.length_cons, List.length_nil]
          rw [zeros_succ']
          exact elim_step n A0 done.length _ _ _ hpn (htodo r' (hrest r' hr')) (by simp)
            (hne _ _ (by simp) (htodo r' (hrest r' hr')))
        · simp only [List.length_append, List.length_map, List.length_cons, List.length_nil]
          simp only [List.length_cons] at hcount hrl
          omega


theorem isSquare_iff (n : Nat) (A : Mat) : isSquare n A = true ↔ A.length = n ∧ ∀ a ∈ A, a.length = n := by
  simp [isSquare]

@[simp] theorem length_identity (n : Nat) : (identity n).length = n := by simp [identity]

theorem inverse_some (A B : Mat) (h : inverse A = some B) :
    (∀ a ∈ A, a.length = A.length) ∧
      ∃ res, gjLoop A.length [] (A.zip (identity A.length)) = some res ∧ B = res.map (·.2) := by
  unfold inverse at h
  simp only at h
  split at h
  · rename_i hsq
    obtain ⟨_, hrows⟩ := (isSquare_iff _ _).mp hsq
    refine ⟨hrows, ?_⟩
    cases hg : gjLoop A.length [] (A.zip (identity A.length)) with
    | none => simp [hg] at h
    | some res =>
      simp only [hg, Option.map_some, Option.some.injEq] at h
      exact ⟨res, rfl, h.symm⟩
  · simp at h

/-- list-level statement: the rows `b_i` of the computed inverse satisfy `b_i · A = e_i` -/
theorem inverse_left (A B : Mat) (h : inverse A = some B) :
    matMul A.length B A = identity A.length := by
  obtain ⟨hrows, res, hg, rfl⟩ := inverse_some A B h
  have hspec := gjLoop_spec A.length A hrows A.length [] (A.zip (identity A.length)) res
    (by intro i h; simp at h)
    (by
      intro r hr
      obtain ⟨h1, h2⟩ := zip_identity_rows A.length A hrows r hr
      exact ⟨h2, by simpa [zeros] using h1⟩)
    (by simp)
    hg
  obtain ⟨hlen, hrow⟩ := hspec
  unfold matMul identity
  apply List.ext_getElem
  · simp [hlen]
  · intro i h1 h2
    simp only [List.getElem_map, List.getElem_range]
    exact (hrow i (by simpa using h1)).2

theorem inverse_length (A B : Mat) (h : inverse A = some B) :
    B.length = A.length ∧ ∀ b ∈ B, b.length = A.length := by
  have h1 := inverse_left A B h
  have hl : B.length = A.length := by
    have := congrArg List.length h1
    simpa [matMul] using this
  refine ⟨hl, ?_⟩
  obtain ⟨hrows, res, hg, rfl⟩ := inverse_some A B h
  have hspec := gjLoop_spec A.length A hrows A.length [] (A.zip (identity A.length)) res
    (by intro i h; simp at h)
    (by
      intro r hr
      obtain ⟨h1, h2⟩ := zip_identity_rows A.length A hrows r hr
      exact ⟨h2, by simpa [zeros] using h1⟩)
    (by simp)
    hg
  intro b hb
  obtain ⟨r, hr, rfl⟩ := List.mem_map.mp hb
  obtain ⟨i, hi, rfl⟩ := List.getElem_of_mem hr
  exact (hspec.2 i hi).1



/-! ### label merging = connected components -/

theorem getElem?_relabel (a b : Nat) (lab : List Nat) (u : Nat) :
    (relabel a b lab)[u]? = lab[u]?.map (fun l => if l = b then a else l) := by
  simp [relabel]

@[simp] theorem length_relabel (a b : Nat) (lab : List Nat) : (relabel a b lab).length = lab.length := by
  simp [relabel]

@[simp] theorem length_mergeEdge (n : Nat) (lab : List Nat) (e : Nat × Nat) :
    (mergeEdge n lab e).length = lab.length := by
  unfold mergeEdge
  split <;> simp

theorem length_labels (n : Nat) (es : List (Nat × Nat)) : (labels n es).length = 2 * n := by
  unfold labels
  suffices ∀ lab : List Nat, (es.foldl (mergeEdge n) lab).length = lab.length by simp [this]
  induction es with
  | nil => intro lab; rfl
  | cons e es ih => intro lab; simp [ih]

/-- node-level edge relation of the bipartite graph: row node `i` — column node `n + j` -/
def Edge (n : Nat) (es : List (Nat × Nat)) (u v : Nat) : Prop := ∃ e ∈ es, u = e.1 ∧ v = n + e.2

/-- connectivity in the (undirected) graph -/
def Conn (n : Nat) (es : List (Nat × Nat)) : Nat → Nat → Prop := Relation.EqvGen (Edge n es)

/-- invariant of the fold: labels are node names, equal labels imply connectivity -/
structure LabInv (n : Nat) (es : List (Nat × Nat)) (lab : List Nat) : Prop where
  len : lab.length = 2 * n
  bound : ∀ (u l : Nat), lab[u]? = some l → l < 2 * n
  sound : ∀ (u v l : Nat), lab[u]? = some l → lab[v]? = some l → Conn n es u v

theorem labInv_init (n : Nat) (es : List (Nat × Nat)) : LabInv n es (List.range (2 * n)) where
  len := by simp
  bound := by
    intro u l h
    rw [List.getElem?_eq_some_iff] at h
    obtain ⟨h1, h2⟩ := h
    simp at h1 h2
    omega
  sound := by
    intro u v l hu hv
    rw [List.getElem?_eq_some_iff] at hu hv
    obtain ⟨h1, h2⟩ := hu
    obtain ⟨h3, h4⟩ := hv
    simp at h2 h4
    subst h2
    subst h4
    exact Relation.EqvGen.refl _



theorem mergeEdge_eq_map (n : Nat) (lab : List Nat) (e : Nat × Nat) :
    ∃ f : Nat → Nat, ∀ u : Nat, (mergeEdge n lab e)[u]? = lab[u]?.map f := by
  unfold mergeEdge
  split
  · rename_i a b _ _
    exact ⟨fun l => if l = b then a else l, fun u => getElem?_relabel a b lab u⟩
  · exact ⟨id, fun u => by simp⟩

/-- merging never separates nodes that already share a label -/
theorem mergeEdge_keeps (n : Nat) (lab : List Nat) (e : Nat × Nat) (u v : Nat)
    (h : lab[u]? = lab[v]?) : (mergeEdge n lab e)[u]? = (mergeEdge n lab e)[v]? := by
  obtain ⟨f, hf⟩ := mergeEdge_eq_map n lab e
  rw [hf, hf, h]

theorem foldl_keeps (n : Nat) (es : List (Nat × Nat)) (lab : List Nat) (u v : Nat)
    (h : lab[u]? = lab[v]?) :
    (es.foldl (mergeEdge n) lab)[u]? = (es.foldl (mergeEdge n) lab)[v]? := by
  induction es generalizing lab with
  | nil => exact h
  | cons e es ih => exact ih _ (mergeEdge_keeps n lab e u v h)

/-- merging joins the two end points of the edge -/
theorem mergeEdge_joins (n : Nat) (lab : List Nat) (e : Nat × Nat)
    (h1 : e.1 < lab.length) (h2 : n + e.2 < lab.length) :
    (mergeEdge n lab e)[e.1]? = (mergeEdge n lab e)[n + e.2]? := by
  unfold mergeEdge
  have e1 : lab[e.1]? = some lab[e.1] := List.getElem?_eq_getElem h1
  have e2 : lab[n + e.2]? = some lab[n + e.2] := List.getElem?_eq_getElem h2
  rw [e1, e2]
  simp only [getElem?_relabel, e1, e2, Option.map_some]
  simp

theorem foldl_closed (n : Nat) (es : List (Nat × Nat)) (lab : List Nat) (hlen : lab.length = 2 * n)
    (hr : ∀ e ∈ es, e.1 < n ∧ e.2 < n) :
    ∀ e ∈ es, (es.foldl (mergeEdge n) lab)[e.1]? = (es.foldl (mergeEdge n) lab)[n + e.2]? := by
  induction es generalizing lab with
  | nil => intro e he; cases he
  | cons e0 es ih =>
    intro e he
    rw [List.foldl_cons]
    rcases List.mem_cons.mp he with rfl | he
    · apply foldl_keeps
      have := hr e List.mem_cons_self
      exact mergeEdge_joins n lab e (by omega) (by omega)
    · exact ih _ (by simp [hlen]) (fun e' he' => hr e' (List.mem_cons_of_mem _ he')) e he

theorem labInv_merge (n : Nat) (es : List (Nat × Nat)) (lab : List Nat) (h : LabInv n es lab)
    (e : Nat × Nat) (he : e ∈ es) : LabInv n es (mergeEdge n lab e) := by
  unfold mergeEdge
  split
  · rename_i a b ha hb
    refine ⟨by simp [h.len], ?_, ?_⟩
    · intro u l hu
      rw [getElem?_relabel] at hu
      cases hx : lab[u]? with
      | none => simp [hx] at hu
      | some x =>
        simp only [hx, Option.map_some, Option.some.injEq] at hu
        split at hu
        · subst hu; exact h.bound _ _ ha
        · subst hu; exact h.bound _ _ hx
    · intro u v l hu hv
      rw [getElem?_relabel] at hu hv
      have hedge : Conn n es e.1 (n + e.2) := Relation.EqvGen.rel _ _ ⟨e, he, rfl, rfl⟩
      cases hx : lab[u]? with
      | none => simp [hx] at hu
      | some x =>
        cases hy : lab[v]? with
        | none => simp [hy] at hv
        | some y =>
          simp only [hx, hy, Option.map_some, Option.some.injEq] at hu hv
          by_cases hxb : x = b <;> by_cases hyb : y = b
          · subst hxb; subst hyb; exact h.sound u v _ hx hy
          · -- u is in the class of the column node, v in the class of the row node
            simp only [hxb, hyb, if_true, if_false] at hu hv
            subst hxb
            have hya : y = a := by rw [hv, ← hu]
            subst hya
            exact Relation.EqvGen.trans _ _ _ (h.sound u (n + e.2) _ hx hb)
              (Relation.EqvGen.trans _ _ _ (Relation.EqvGen.symm _ _ hedge) (h.sound e.1 v _ ha hy))
          · simp only [hxb, hyb, if_true, if_false] at hu hv
            subst hyb
            have hxa : x = a := by rw [hu, ← hv]
            subst hxa
            exact Relation.EqvGen.trans _ _ _ (h.sound u e.1 _ hx ha)
              (Relation.EqvGen.trans _ _ _ hedge (h.sound (n + e.2) v _ hb hy))
          · simp only [hxb, hyb, if_false] at hu hv
            have : x = y := by rw [hu, hv]
            subst this
            exact h.sound u v _ hx hy
  · exact h

theorem labInv_foldl (n : Nat) (es0 es : List (Nat × Nat)) (hsub : ∀ e ∈ es, e ∈ es0) (lab : List Nat)
    (h : LabInv n es0 lab) : LabInv n es0 (es.foldl (mergeEdge n) lab) := by
  induction es generalizing lab with
  | nil => exact h
  | cons e es ih =>
    exact ih (fun e' he' => hsub e' (List.mem_cons_of_mem _ he')) _
      (labInv_merge n es0 lab h e (hsub e List.mem_cons_self))

theorem labInv_labels (n : Nat) (es : List (Nat × Nat)) : LabInv n es (labels n es) :=
  labInv_foldl n es es (fun _ h => h) _ (labInv_init n es)

theorem labels_closed (n : Nat) (es : List (Nat × Nat)) (hr : ∀ e ∈ es, e.1 < n ∧ e.2 < n) :
    ∀ e ∈ es, (labels n es)[e.1]? = (labels n es)[n + e.2]? :=
  foldl_closed n es _ (by simp) hr



/-! ### the edge list -/

theorem entry_eq' (L : Mat) (i j : Nat) : entry L i j = (L[i]?.getD [])[j]?.getD 0 := by
  simp [entry]

theorem mem_rowEdges (i j0 : Nat) (vs : Vec) (a b : Nat) :
    (a, b) ∈ rowEdges i j0 vs ↔ a = i ∧ ∃ k, b = j0 + k ∧ vs[k]?.getD 0 ≠ 0 := by
  induction vs generalizing j0 with
  | nil => simp [rowEdges]
  | cons v vs ih =>
    unfold rowEdges
    split
    · rename_i hv
      rw [List.mem_cons, ih]
      constructor
      · rintro (h | ⟨rfl, k, rfl, hk⟩)
        · simp only [Prod.mk.injEq] at h
          obtain ⟨rfl, rfl⟩ := h
          exact ⟨rfl, 0, rfl, by simpa using hv⟩
        · exact ⟨rfl, k + 1, by omega, by simpa using hk⟩
      · rintro ⟨rfl, k, rfl, hk⟩
        cases k with
        | zero => left; rfl
        | succ k => right; exact ⟨rfl, k, by omega, by simpa using hk⟩
    · rename_i hv
      have hv0 : v = 0 := by simpa using hv
      rw [ih]
      constructor
      · rintro ⟨rfl, k, rfl, hk⟩
        exact ⟨rfl, k + 1, by omega, by simpa using hk⟩
      · rintro ⟨rfl, k, rfl, hk⟩
        cases k with
        | zero => simp [hv0] at hk
        | succ k => exact ⟨rfl, k, by omega, by simpa using hk⟩

theorem mem_edgesFrom (i0 : Nat) (rs : Mat) (a b : Nat) :
    (a, b) ∈ edgesFrom i0 rs ↔ ∃ k, a = i0 + k ∧ (rs[k]?.getD [])[b]?.getD 0 ≠ 0 := by
  induction rs generalizing i0 with
  | nil => simp [edgesFrom]
  | cons r rs ih =>
    unfold edgesFrom
    rw [List.mem_append, mem_rowEdges, ih]
    constructor
    · rintro (⟨rfl, k, rfl, hk⟩ | ⟨k, rfl, hk⟩)
      · exact ⟨0, rfl, by simpa using hk⟩
      · exact ⟨k + 1, by omega, by simpa using hk⟩
    · rintro ⟨k, rfl, hk⟩
      cases k with
      | zero => left; exact ⟨rfl, b, by omega, by simpa using hk⟩
      | succ k => right; exact ⟨k, by omega, by simpa using hk⟩

theorem mem_edges (A : Mat) (i j : Nat) : (i, j) ∈ edges A ↔ entry A i j ≠ 0 := by
  unfold edges
  rw [mem_edgesFrom, entry_eq']
  constructor
  · rintro ⟨k, rfl, hk⟩; simpa using hk
  · intro h; exact ⟨i, by omega, h⟩

theorem entry_ne_zero_lt (n : Nat) (A : Mat) (hsq : isSquare n A = true) (i j : Nat) (h : entry A i j ≠ 0) :
    i < n ∧ j < n := by
  obtain ⟨hl, hr⟩ := (isSquare_iff n A).mp hsq
  rw [entry_eq'] at h
  by_cases hi : i < A.length
  · have hrow : A[i]? = some A[i] := List.getElem?_eq_getElem hi
    rw [hrow] at h
    simp only [Option.getD_some] at h
    have hlen : A[i].length = n := hr _ (List.getElem_mem hi)
    by_cases hj : j < A[i].length
    · exact ⟨by omega, by rw [← hlen]; exact hj⟩
    · have hn : A[i][j]? = none := List.getElem?_eq_none (by omega)
      rw [hn] at h
      simp at h
  · have hn : A[i]? = none := List.getElem?_eq_none (by omega)
    rw [hn] at h
    simp at h

theorem edges_lt (n : Nat) (A : Mat) (hsq : isSquare n A = true) :
    ∀ e ∈ edges A, e.1 < n ∧ e.2 < n := by
  intro e he
  exact entry_ne_zero_lt n A hsq e.1 e.2 ((mem_edges A e.1 e.2).mp he)



/-! ### label classes, components -/

theorem mem_rowsOf (n : Nat) (lab : List Nat) (l i : Nat) :
    i ∈ rowsOf n lab l ↔ i < n ∧ lab[i]? = some l := by
  simp [rowsOf]

theorem mem_colsOf (n : Nat) (lab : List Nat) (l j : Nat) :
    j ∈ colsOf n lab l ↔ j < n ∧ lab[n + j]? = some l := by
  simp [colsOf]

theorem nodup_rowsOf (n : Nat) (lab : List Nat) (l : Nat) : (rowsOf n lab l).Nodup :=
  List.Nodup.filter _ List.nodup_range

theorem nodup_colsOf (n : Nat) (lab : List Nat) (l : Nat) : (colsOf n lab l).Nodup :=
  List.Nodup.filter _ List.nodup_range

theorem mem_components (n : Nat) (lab : List Nat) (c : List Nat × List Nat) :
    c ∈ components n lab ↔
      ∃ l, l < 2 * n ∧ c = (rowsOf n lab l, colsOf n lab l) ∧ c.1 ≠ [] ∧ c.2 ≠ [] := by
  simp only [components, groups, List.mem_filter, List.mem_map, List.mem_range, Bool.and_eq_true,
    Bool.not_eq_true', List.isEmpty_eq_false_iff]
  constructor
  · rintro ⟨⟨l, hl, rfl⟩, h1, h2⟩
    exact ⟨l, hl, rfl, h1, h2⟩
  · rintro ⟨l, hl, rfl, h1, h2⟩
    exact ⟨⟨l, hl, rfl⟩, h1, h2⟩

/-- different label classes are disjoint (rows) -/
theorem rowsOf_disjoint (n : Nat) (lab : List Nat) (l l' : Nat) (h : l ≠ l') :
    List.Disjoint (rowsOf n lab l) (rowsOf n lab l') := by
  intro i h1 h2
  rw [mem_rowsOf] at h1 h2
  rw [h1.2] at h2
  exact h (Option.some.inj h2.2)

theorem colsOf_disjoint (n : Nat) (lab : List Nat) (l l' : Nat) (h : l ≠ l') :
    List.Disjoint (colsOf n lab l) (colsOf n lab l') := by
  intro i h1 h2
  rw [mem_colsOf] at h1 h2
  rw [h1.2] at h2
  exact h (Option.some.inj h2.2)

theorem pairwise_groups (n : Nat) (lab : List Nat) :
    (groups n lab).Pairwise (fun g g' => List.Disjoint g.1 g'.1 ∧ List.Disjoint g.2 g'.2) := by
  unfold groups
  rw [List.pairwise_map]
  exact List.Pairwise.imp
    (fun {l l'} (hl : l < l') => ⟨rowsOf_disjoint n lab l l' (by omega), colsOf_disjoint n lab l l' (by omega)⟩)
    List.pairwise_lt_range

theorem pairwise_components (n : Nat) (lab : List Nat) :
    (components n lab).Pairwise (fun g g' => List.Disjoint g.1 g'.1 ∧ List.Disjoint g.2 g'.2) :=
  List.Pairwise.sublist List.filter_sublist (pairwise_groups n lab)

theorem nodup_components_rows (n : Nat) (lab : List Nat) : ((components n lab).flatMap (·.1)).Nodup := by
  rw [List.nodup_flatMap]
  constructor
  · intro c hc
    obtain ⟨l, _, rfl, _⟩ := (mem_components n lab c).mp hc
    exact nodup_rowsOf n lab l
  · exact List.Pairwise.imp (fun h => h.1) (pairwise_components n lab)

theorem nodup_components_cols (n : Nat) (lab : List Nat) : ((components n lab).flatMap (·.2)).Nodup := by
  rw [List.nodup_flatMap]
  constructor
  · intro c hc
    obtain ⟨l, _, rfl, _⟩ := (mem_components n lab c).mp hc
    exact nodup_colsOf n lab l
  · exact List.Pairwise.imp (fun h => h.2) (pairwise_components n lab)

theorem components_rows_lt (n : Nat) (lab : List Nat) : ∀ i ∈ (components n lab).flatMap (·.1), i < n := by
  intro i hi
  obtain ⟨c, hc, hic⟩ := List.mem_flatMap.mp hi
  obtain ⟨l, _, rfl, _⟩ := (mem_components n lab c).mp hc
  exact ((mem_rowsOf n lab l i).mp hic).1

theorem components_cols_lt (n : Nat) (lab : List Nat) : ∀ j ∈ (components n lab).flatMap (·.2), j < n := by
  intro j hj
  obtain ⟨c, hc, hjc⟩ := List.mem_flatMap.mp hj
  obtain ⟨l, _, rfl, _⟩ := (mem_components n lab c).mp hc
  exact ((mem_colsOf n lab l j).mp hjc).1

/-- every non-zero entry lies inside one component -/
theorem components_closed_aux (n : Nat) (A : Mat) (hsq : isSquare n A = true) (i j : Nat)
    (h : entry A i j ≠ 0) :
    ∃ c ∈ components n (labels n (edges A)), i ∈ c.1 ∧ j ∈ c.2 := by
  obtain ⟨hi, hj⟩ := entry_ne_zero_lt n A hsq i j h
  have hmem : (i, j) ∈ edges A := (mem_edges A i j).mpr h
  have hcl := labels_closed n (edges A) (edges_lt n A hsq) (i, j) hmem
  have hlen := length_labels n (edges A)
  have hil : i < (labels n (edges A)).length := by omega
  have e1 : (labels n (edges A))[i]? = some (labels n (edges A))[i] := List.getElem?_eq_getElem hil
  have hb := (labInv_labels n (edges A)).bound _ _ e1
  refine ⟨(rowsOf n (labels n (edges A)) (labels n (edges A))[i], colsOf n (labels n (edges A)) (labels n (edges A))[i]), ?_, ?_, ?_⟩
  · rw [mem_components]
    refine ⟨_, hb, rfl, ?_, ?_⟩
    · exact List.ne_nil_of_mem ((mem_rowsOf _ _ _ _).mpr ⟨hi, e1⟩)
    · exact List.ne_nil_of_mem ((mem_colsOf _ _ _ _).mpr ⟨hj, by rw [← hcl]; exact e1⟩)
  · exact (mem_rowsOf _ _ _ _).mpr ⟨hi, e1⟩
  · exact (mem_colsOf _ _ _ _).mpr ⟨hj, by rw [← hcl]; exact e1⟩

/-- nodes of a block, in the numbering of the graph (rows `i`, columns `n + j`) -/
def blockNodes (n : Nat) (c : List Nat × List Nat) : List Nat := c.1 ++ c.2.map (n + ·)

theorem components_minimal_aux (n : Nat) (es : List (Nat × Nat)) (c : List Nat × List Nat)
    (hc : c ∈ components n (labels n es)) (u v : Nat) (hu : u ∈ blockNodes n c) (hv : v ∈ blockNodes n c) :
    Conn n es u v := by
  obtain ⟨l, _, rfl, _⟩ := (mem_components _ _ c).mp hc
  have key : ∀ w, w ∈ blockNodes n (rowsOf n (labels n es) l, colsOf n (labels n es) l) →
      (labels n es)[w]? = some l := by
    intro w hw
    rcases List.mem_append.mp hw with h | h
    · exact ((mem_rowsOf _ _ _ _).mp h).2
    · obtain ⟨j, hj, rfl⟩ := List.mem_map.mp h
      exact ((mem_colsOf _ _ _ _).mp hj).2
  exact (labInv_labels n es).sound u v l (key u hu) (key v hv)



/-! ### permSearch -/

/-- the rows that are in no component (all-zero rows) -/
def missingRows (n : Nat) (comps : List (List Nat × List Nat)) : List Nat :=
  (List.range n).filter (fun i => !(comps.flatMap (·.1)).contains i)

theorem permSearch_cases (n : Nat) (A : Mat) (r : PermResult) (h : permSearch n n A = .ok r) :
    let comps := components n (labels n (edges A))
    (comps.length = 1 ∧ r.blocks = [(List.range n, List.range n)] ∧ r.rowPerm = List.range n ∧
        r.colPerm = List.range n ∧ r.sizes = [n]) ∨
    (comps.length ≠ 1 ∧ (∀ c ∈ comps, c.1.length = c.2.length) ∧
      r.blocks = comps ++ (missingRows n comps).map (fun i => ([i], [i])) ∧
      r.rowPerm = r.blocks.flatMap (·.1) ∧ r.colPerm = r.blocks.flatMap (·.2) ∧
      r.sizes = r.blocks.map (·.1.length)) := by
  intro comps
  unfold permSearch at h
  simp only [bne_self_eq_false, Bool.false_eq_true, if_false] at h
  by_cases h1 : comps.length = 1
  · left
    have : (components n (labels n (edges A))).length = 1 := h1
    simp only [this, beq_self_eq_true, if_true, Except.ok.injEq] at h
    subst h
    exact ⟨h1, rfl, rfl, rfl, rfl⟩
  · right
    have hne : ((components n (labels n (edges A))).length == 1) = false := by
      simpa using h1
    simp only [hne, Bool.false_eq_true, if_false] at h
    split at h
    · cases h
    · rename_i hany
      simp only [Except.ok.injEq] at h
      subst h
      refine ⟨h1, ?_, rfl, rfl, rfl, rfl⟩
      intro c hc
      by_contra hcon
      apply hany
      simp only [List.any_eq_true, bne_iff_ne, ne_eq]
      exact ⟨c, hc, hcon⟩



theorem flatMap_fst_blocks (comps : List (List Nat × List Nat)) (ms : List Nat) :
    (comps ++ ms.map (fun i => ([i], [i]))).flatMap (·.1) = comps.flatMap (·.1) ++ ms := by
  rw [List.flatMap_append]
  congr 1
  induction ms with
  | nil => rfl
  | cons m ms ih => simp [List.flatMap_cons, ih]

theorem flatMap_snd_blocks (comps : List (List Nat × List Nat)) (ms : List Nat) :
    (comps ++ ms.map (fun i => ([i], [i]))).flatMap (·.2) = comps.flatMap (·.2) ++ ms := by
  rw [List.flatMap_append]
  congr 1
  induction ms with
  | nil => rfl
  | cons m ms ih => simp [List.flatMap_cons, ih]

theorem mem_missingRows (n : Nat) (comps : List (List Nat × List Nat)) (i : Nat) :
    i ∈ missingRows n comps ↔ i < n ∧ i ∉ comps.flatMap (·.1) := by
  simp [missingRows]

theorem rowPerm_perm_aux (n : Nat) (lab : List Nat) :
    ((components n lab).flatMap (·.1) ++ missingRows n (components n lab)).Perm (List.range n) := by
  rw [List.perm_ext_iff_of_nodup _ List.nodup_range]
  · intro i
    rw [List.mem_append, List.mem_range, mem_missingRows]
    constructor
    · rintro (h | h)
      · exact components_rows_lt n lab i h
      · exact h.1
    · intro hi
      by_cases hu : i ∈ (components n lab).flatMap (·.1)
      · exact Or.inl hu
      · exact Or.inr ⟨hi, hu⟩
  · rw [List.nodup_append]
    refine ⟨nodup_components_rows n lab, List.Nodup.filter _ List.nodup_range, ?_⟩
    intro a ha b hb hab
    subst hab
    exact ((mem_missingRows _ _ _).mp hb).2 ha

theorem sum_length_eq (comps : List (List Nat × List Nat)) (h : ∀ c ∈ comps, c.1.length = c.2.length) :
    (comps.flatMap (·.1)).length = (comps.flatMap (·.2)).length := by
  induction comps with
  | nil => rfl
  | cons c cs ih =>
    simp only [List.flatMap_cons, List.length_append]
    rw [h c List.mem_cons_self, ih (fun c' hc' => h c' (List.mem_cons_of_mem _ hc'))]

/-- a duplicate-free list of `n` numbers below `n` is a permutation of `0 … n-1` -/
theorem perm_range_of_nodup (n : Nat) (l : List Nat) (hnd : l.Nodup) (hlt : ∀ i ∈ l, i < n)
    (hlen : l.length = n) : l.Perm (List.range n) := by
  have hsub : l.Subperm (List.range n) :=
    List.Nodup.subperm hnd (fun i hi => List.mem_range.mpr (hlt i hi))
  exact hsub.perm_of_length_le (by simp [hlen])



/-! ### reading a list of rows as a Mathlib matrix -/

/-- the `n × n` Mathlib matrix of a list of rows -/
def toMatrix (n : Nat) (L : Mat) : Matrix (Fin n) (Fin n) ℚ := fun i j => entry L i j


theorem getD_zeros (w j : Nat) : (zeros w)[j]?.getD 0 = 0 := by
  simp only [zeros, List.getElem?_replicate]
  split <;> rfl

theorem getD_smul (c : Rat) (a : Vec) (j : Nat) : (smul c a)[j]?.getD 0 = c * a[j]?.getD 0 := by
  induction a generalizing j with
  | nil => simp
  | cons x a ih => cases j <;> simp [ih]

theorem getD_vadd (a b : Vec) (h : a.length = b.length) (j : Nat) :
    (vadd a b)[j]?.getD 0 = a[j]?.getD 0 + b[j]?.getD 0 := by
  induction a generalizing b j with
  | nil => cases b <;> simp_all
  | cons x a ih =>
    cases b with
    | nil => simp at h
    | cons y b =>
      cases j with
      | zero => simp
      | succ j => simpa using ih b (by simpa using h) j

theorem getD_unitVec (n i j : Nat) (hj : j < n) : (unitVec n i)[j]?.getD 0 = if j = i then 1 else 0 := by
  simp [unitVec, hj]

theorem getD_vecMat (w : Nat) (b : Vec) (A : Mat) (hA : ∀ a ∈ A, a.length = w) (hl : b.length = A.length)
    (j : Nat) :
    (vecMat w b A)[j]?.getD 0 = ∑ k ∈ Finset.range A.length, b[k]?.getD 0 * (A[k]?.getD [])[j]?.getD 0 := by
  induction b generalizing A with
  | nil =>
    cases A with
    | nil => simp [getD_zeros]
    | cons a A => simp at hl
  | cons x b ih =>
    cases A with
    | nil => simp at hl
    | cons a A =>
      have hA' : ∀ a' ∈ A, a'.length = w := fun a' h => hA a' (List.mem_cons_of_mem _ h)
      rw [vecMat_cons, getD_vadd _ _ (by simp [length_vecMat w b A hA', hA a List.mem_cons_self]),
        getD_smul, ih A hA' (by simpa using hl), List.length_cons, Finset.sum_range_succ']
      simp [add_comm]

theorem toMatrix_mul_of_matMul (n : Nat) (A B : Mat) (hA : A.length = n) (hAr : ∀ a ∈ A, a.length = n)
    (hB : B.length = n) (hBr : ∀ b ∈ B, b.length = n) (h : matMul n B A = identity n) :
    toMatrix n B * toMatrix n A = 1 := by
  ext i j
  simp only [Matrix.mul_apply, toMatrix, entry_eq']
  have hi : (i : Nat) < B.length := by rw [hB]; exact i.2
  have hrow : vecMat n (B[(i : Nat)]?.getD []) A = unitVec n i := by
    have h1 : (matMul n B A)[(i : Nat)]? = (identity n)[(i : Nat)]? := by rw [h]
    simpa [matMul, identity, hi, i.2] using h1
  have hbl : (B[(i : Nat)]?.getD []).length = A.length := by
    rw [hA]; apply hBr
    simp [hi]
  have := getD_vecMat n (B[(i : Nat)]?.getD []) A hAr hbl j
  rw [hrow, getD_unitVec n i j j.2, hA, Finset.sum_range] at this
  rw [← this, Matrix.one_apply]
  simp [Fin.ext_iff, eq_comm]


/-! ### block structure of Mathlib matrices -/

section Algebra
open Matrix
variable {K : Type*} [Field K]
variable {n : Type*} [Fintype n] [DecidableEq n]
variable {ι : Type*} [DecidableEq ι]

omit [DecidableEq n] in
/-- sum over all indices = sum over the fibre when the summand vanishes outside the fibre -/
theorem sum_fibre (g : n → ι) (k : ι) (h : n → K) (h0 : ∀ j, g j ≠ k → h j = 0) :
    ∑ j : {j // g j = k}, h j.1 = ∑ j, h j := by
  rw [← Finset.sum_subtype (Finset.univ.filter (fun j => g j = k)) (by simp) h]
  rw [Finset.sum_filter]
  apply Finset.sum_congr rfl
  intro j _
  by_cases hj : g j = k
  · simp [hj]
  · simp [hj, h0 j hj]

/-- if `A * B = 1` and the pattern of `A` respects the classifications `f` (rows) and `g` (columns),
    then the `k`-block of `A` times the transposed-position block of `B` is the identity -/
theorem closed_block_mul_right (A B : Matrix n n K) (f g : n → ι)
    (hcl : ∀ i j, A i j ≠ 0 → f i = g j) (hAB : A * B = 1) (k : ι) :
    A.submatrix (Subtype.val : {i // f i = k} → n) (Subtype.val : {j // g j = k} → n)
      * B.submatrix (Subtype.val : {j // g j = k} → n) (Subtype.val : {i // f i = k} → n) = 1 := by
  ext ⟨i, hi⟩ ⟨i', hi'⟩
  simp only [Matrix.mul_apply, Matrix.submatrix_apply]
  rw [sum_fibre g k (fun j => A i j * B j i')]
  · have := congrFun (congrFun hAB i) i'
    simp only [Matrix.mul_apply] at this
    rw [this]
    simp [Matrix.one_apply, Subtype.ext_iff]
  · intro j hj
    have : A i j = 0 := by
      by_contra hne
      exact hj ((hcl i j hne).symm.trans hi)
    simp [this]

theorem closed_block_mul_left (A B : Matrix n n K) (f g : n → ι)
    (hcl : ∀ i j, A i j ≠ 0 → f i = g j) (hBA : B * A = 1) (k : ι) :
    B.submatrix (Subtype.val : {j // g j = k} → n) (Subtype.val : {i // f i = k} → n)
      * A.submatrix (Subtype.val : {i // f i = k} → n) (Subtype.val : {j // g j = k} → n) = 1 := by
  ext ⟨j, hj⟩ ⟨j', hj'⟩
  simp only [Matrix.mul_apply, Matrix.submatrix_apply]
  rw [sum_fibre f k (fun i => B j i * A i j')]
  · have := congrFun (congrFun hBA j) j'
    simp only [Matrix.mul_apply] at this
    rw [this]
    simp [Matrix.one_apply, Subtype.ext_iff]
  · intro i hi
    have : A i j' = 0 := by
      by_contra hne
      exact hi ((hcl i j' hne).trans hj')
    simp [this]

/-- `M * N = 1` for rectangular `M : R × C`, `N : C × R` forces `|R| ≤ |C|` -/
theorem card_le_of_mul_eq_one {R C : Type*} [Fintype R] [Fintype C] [DecidableEq R]
    (M : Matrix R C K) (N : Matrix C R K) (h : M * N = 1) : Fintype.card R ≤ Fintype.card C := by
  have h1 : (M * N).rank = Fintype.card R := by rw [h, Matrix.rank_one]
  calc Fintype.card R = (M * N).rank := h1.symm
    _ ≤ M.rank := Matrix.rank_mul_le_left M N
    _ ≤ Fintype.card C := Matrix.rank_le_card_width M

end Algebra

/-! ### the csr layout of `block_diag_matrix` -/

/-- row-wise listing `(column, value)` of a block-diagonal matrix with full blocks: the rows of
    block `B` (offset `o`) carry the columns `o … o + |B| - 1` -/
def layoutRows : Nat → List Mat → List (List (Nat × Rat))
  | _, [] => []
  | o, B :: Bs => B.map (fun r => (List.range' o B.length).zip r) ++ layoutRows (o + B.length) Bs

/-- every block is square -/
def SquareBlocks (blocks : List Mat) : Prop := ∀ B ∈ blocks, ∀ r ∈ B, r.length = B.length

theorem length_replicate_flatten_eq {α β : Type} (R : List α) (B : List (List β))
    (h : ∀ r ∈ B, r.length = R.length) :
    ((List.replicate B.length R).flatten).length = B.flatten.length := by
  induction B with
  | nil => rfl
  | cons r B ih =>
    simp only [List.length_cons, List.replicate_succ, List.flatten_cons, List.length_append]
    rw [ih (fun r' hr' => h r' (List.mem_cons_of_mem _ hr')), h r List.mem_cons_self]

theorem zip_replicate_flatten {α β : Type} (R : List α) (B : List (List β))
    (h : ∀ r ∈ B, r.length = R.length) :
    ((List.replicate B.length R).flatten).zip B.flatten = (B.map (fun r => R.zip r)).flatten := by
  induction B with
  | nil => rfl
  | cons r B ih =>
    simp only [List.length_cons, List.replicate_succ, List.flatten_cons, List.map_cons]
    rw [List.zip_append (h r List.mem_cons_self).symm,
      ih (fun r' hr' => h r' (List.mem_cons_of_mem _ hr'))]

theorem layout_entries (o : Nat) (blocks : List Mat) (hsq : SquareBlocks blocks) :
    (blockDiagIndex o (blocks.map List.length)).zip (blockDiagData blocks)
      = (layoutRows o blocks).flatten ∧
    (blockDiagIndex o (blocks.map List.length)).length = (blockDiagData blocks).length := by
  induction blocks generalizing o with
  | nil => exact ⟨rfl, rfl⟩
  | cons B Bs ih =>
    have hB : ∀ r ∈ B, r.length = (List.range' o B.length).length := by
      intro r hr; rw [List.length_range']; exact hsq B List.mem_cons_self r hr
    obtain ⟨ih1, ih2⟩ := ih (o + B.length) (fun B' hB' => hsq B' (List.mem_cons_of_mem _ hB'))
    have hlen := length_replicate_flatten_eq (List.range' o B.length) B hB
    simp only [List.map_cons, blockDiagIndex, blockDiagData, List.flatMap_cons, layoutRows,
      List.flatten_append]
    constructor
    · rw [List.zip_append hlen, zip_replicate_flatten _ B hB]
      congr 1
    · rw [List.length_append, List.length_append, hlen]
      congr 1

theorem layout_rowLengths (o : Nat) (blocks : List Mat) (hsq : SquareBlocks blocks) :
    rowLengths (blocks.map List.length) = (layoutRows o blocks).map List.length := by
  induction blocks generalizing o with
  | nil => rfl
  | cons B Bs ih =>
    simp only [List.map_cons, rowLengths, List.flatMap_cons, layoutRows, List.map_append, List.map_map]
    congr 1
    · apply List.ext_getElem
      · simp
      · intro i h1 h2
        simp only [List.getElem_replicate, List.getElem_map, Function.comp_apply, List.length_zip,
          List.length_range']
        have hi : i < B.length := by simpa using h1
        have : B[i].length = B.length := hsq B List.mem_cons_self _ (List.getElem_mem hi)
        omega
    · exact ih (o + B.length) (fun B' hB' => hsq B' (List.mem_cons_of_mem _ hB'))


theorem invertAll_forall₂ (Bs Xs : List Mat) (h : invertAll Bs = some Xs) :
    List.Forall₂ (fun B X => inverse B = some X) Bs Xs := by
  induction Bs generalizing Xs with
  | nil =>
    simp only [invertAll, Option.some.injEq] at h
    subst h
    exact List.Forall₂.nil
  | cons B Bs ih =>
    unfold invertAll at h
    split at h
    · cases h
    · rename_i X hX
      split at h
      · cases h
      · rename_i Xs' hXs
        simp only [Option.some.injEq] at h
        subst h
        exact List.Forall₂.cons hX (ih Xs' hXs)

theorem forall₂_inverse_square (Bs Xs : List Mat)
    (h : List.Forall₂ (fun B X => inverse B = some X) Bs Xs) :
    SquareBlocks Xs ∧ Xs.map List.length = Bs.map List.length := by
  induction h with
  | nil => exact ⟨fun B hB => absurd hB List.not_mem_nil, rfl⟩
  | cons hX _ ih =>
    rename_i B X Bs Xs _
    obtain ⟨h1, h2⟩ := inverse_length B X hX
    constructor
    · intro Y hY
      rcases List.mem_cons.mp hY with rfl | hY
      · intro r hr; rw [h2 r hr, h1]
      · exact ih.1 Y hY
    · simp [h1, ih.2]

theorem extractBlocks_lengths (A : Mat) (o : Nat) (ss : List Nat) (h : o + ss.sum ≤ A.length) :
    (extractBlocks A o ss).map List.length = ss := by
  induction ss generalizing o with
  | nil => rfl
  | cons s ss ih =>
    simp only [List.sum_cons] at h
    simp only [extractBlocks, List.map_cons, extractBlock, List.length_map, List.length_take,
      List.length_drop]
    rw [ih (o + s) (by omega)]
    congr 1
    omega



/-! ### completeness of the Gauss–Jordan loop -/

/-- dot product (truncating to the shorter list) -/
def dot : Vec → Vec → Rat
  | a :: as, x :: xs => a * x + dot as xs
  | _, _ => 0

@[simp] theorem dot_nil_left (x : Vec) : dot [] x = 0 := rfl
@[simp] theorem dot_nil_right (a : Vec) : dot a [] = 0 := by cases a <;> rfl
@[simp] theorem dot_cons (a x : Rat) (as xs : Vec) : dot (a :: as) (x :: xs) = a * x + dot as xs := rfl

theorem dot_zeros_left (k : Nat) (x : Vec) : dot (zeros k) x = 0 := by
  induction k generalizing x with
  | zero => rfl
  | succ k ih => cases x <;> simp [zeros_succ, ih]

theorem dot_zeros_right (a : Vec) (k : Nat) : dot a (zeros k) = 0 := by
  induction k generalizing a with
  | zero => simp [zeros]
  | succ k ih => cases a <;> simp [zeros_succ, ih]

theorem dot_append (a b c d : Vec) (h : a.length = c.length) :
    dot (a ++ b) (c ++ d) = dot a c + dot b d := by
  induction a generalizing c with
  | nil => cases c <;> simp_all
  | cons x a ih =>
    cases c with
    | nil => simp at h
    | cons y c => simp [ih c (by simpa using h)]; ring

theorem dot_smul (c : Rat) (a x : Vec) : dot (smul c a) x = c * dot a x := by
  induction a generalizing x with
  | nil => simp
  | cons y a ih => cases x <;> simp [ih]; ring

theorem dot_vsub_smul (h : Rat) (a b x : Vec) (hl : a.length = b.length) :
    dot (vsub a (smul h b)) x = dot a x - h * dot b x := by
  induction a generalizing b x with
  | nil => cases b <;> simp_all
  | cons y a ih =>
    cases b with
    | nil => simp at hl
    | cons z b =>
      cases x with
      | nil => simp
      | cons w x => simp [ih b x (by simpa using hl)]; ring

/-- `e_i · c = c_i` -/
theorem dot_unitVec (k i : Nat) (cs : Vec) (hk : cs.length = k) (hi : i < k) :
    dot (unitVec k i) cs = cs[i]?.getD 0 := by
  induction k generalizing i cs with
  | zero => omega
  | succ k ih =>
    cases cs with
    | nil => simp at hk
    | cons c cs =>
      cases i with
      | zero => simp [unitVec_zero_succ, dot_zeros_left]
      | succ i => simp [unitVec_succ_succ, ih i cs (by simpa using hk) (by omega)]

/-- list-level non-singularity: the only vector orthogonal to all rows is zero -/
def TrivialKernel (n : Nat) (A : Mat) : Prop :=
  ∀ x : Vec, x.length = n → (∀ a ∈ A, dot a x = 0) → x = zeros n

theorem extractPivot_mem (todo : List Row) (p : Row) (rest : List Row)
    (h : extractPivot todo = some (p, rest)) : ∀ r ∈ todo, r = p ∨ r ∈ rest := by
  induction todo generalizing p rest with
  | nil => simp [extractPivot] at h
  | cons r rs ih =>
    unfold extractPivot at h
    split at h
    · simp at h
    · split at h
      · simp only [Option.some.injEq, Prod.mk.injEq] at h
        obtain ⟨rfl, rfl⟩ := h
        intro x hx
        rcases List.mem_cons.mp hx with rfl | hx
        · exact Or.inl rfl
        · exact Or.inr hx
      · split at h
        · simp at h
        · rename_i p' rest' hrec
          simp only [Option.some.injEq, Prod.mk.injEq] at h
          obtain ⟨rfl, rfl⟩ := h
          intro x hx
          rcases List.mem_cons.mp hx with rfl | hx
          · exact Or.inr List.mem_cons_self
          · rcases ih p' rest' hrec x hx with h1 | h1
            · exact Or.inl h1
            · exact Or.inr (List.mem_cons_of_mem _ h1)

/-- if no pivot is found although every row still has a leading entry, all leading entries are 0 -/
theorem extractPivot_none (todo : List Row) (hne : ∀ r ∈ todo, r.1 ≠ [])
    (h : extractPivot todo = none) : ∀ r ∈ todo, ∃ t, r.1 = 0 :: t := by
  induction todo with
  | nil => intro r hr; cases hr
  | cons r rs ih =>
    unfold extractPivot at h
    split at h
    · rename_i hnil
      exact absurd hnil (hne r List.mem_cons_self)
    · rename_i hd tl hr
      split at h
      · simp at h
      · rename_i hz
        have hz0 : hd = 0 := by simpa using hz
        split at h
        · rename_i hrec
          intro x hx
          rcases List.mem_cons.mp hx with rfl | hx
          · exact ⟨tl, by rw [hr, hz0]⟩
          · exact ih (fun r' hr' => hne r' (List.mem_cons_of_mem _ hr')) hrec x hx
        · simp at h



theorem elimRow_snd (pn r : Row) (h : Rat) (t : Vec) (hr : r.1 = h :: t) :
    (elimRow pn r).2 = vsub r.2 (smul h pn.2) := by
  unfold elimRow
  simp [hr]

/-- one elimination step does not enlarge the common annihilator of the (full) rows -/
theorem ann_step (n : Nat) (A0 : Mat) (hA0 : ∀ a ∈ A0, a.length = n) (pn r : Row) (x : Vec)
    (hpn : pn.2.length = n) (hr : r.2.length = n) (hne : r.1 ≠ [])
    (h1 : dot (vecMat n pn.2 A0) x = 0) (h2 : dot (vecMat n (elimRow pn r).2 A0) x = 0) :
    dot (vecMat n r.2 A0) x = 0 := by
  cases hr1 : r.1 with
  | nil => exact absurd hr1 hne
  | cons h t =>
    rw [elimRow_snd pn r h t hr1, vecMat_vsub_smul n h r.2 pn.2 A0 (by rw [hr, hpn]),
      dot_vsub_smul _ _ _ _ (by rw [length_vecMat n _ A0 hA0, length_vecMat n _ A0 hA0]), h1] at h2
    simpa using h2

theorem gjLoop_complete (n : Nat) (A0 : Mat) (hA0 : ∀ a ∈ A0, a.length = n)
    (hker : TrivialKernel n A0) :
    ∀ (fuel : Nat) (done todo : List Row),
      (∀ i (h : i < done.length), RowOK n A0 (unitVec done.length i) done[i]) →
      (∀ r ∈ todo, RowOK n A0 (zeros done.length) r) →
      done.length + todo.length = n → todo.length ≤ fuel →
      (∀ x : Vec, (∀ r ∈ done ++ todo, dot (vecMat n r.2 A0) x = 0) → ∀ a ∈ A0, dot a x = 0) →
      ∃ res, gjLoop fuel done todo = some res := by
  intro fuel
  induction fuel with
  | zero =>
    intro done todo _ _ _ hfuel _
    have : todo = [] := List.eq_nil_of_length_eq_zero (by omega)
    subst this
    exact ⟨done, by simp [gjLoop]⟩
  | succ fuel ih =>
    intro done todo hdone htodo hcount hfuel hann
    unfold gjLoop
    cases todo with
    | nil => exact ⟨done, rfl⟩
    | cons t ts =>
      simp only
      have hkn : done.length < n := by simp only [List.length_cons] at hcount; omega
      have hne : ∀ pre (r : Row), pre.length = done.length → RowOK n A0 pre r → r.1 ≠ [] := by
        intro pre r hpre hr hnil
        have := rowOK_rest_length n A0 hA0 _ _ hr
        rw [hnil, hpre] at this; simp at this; omega
      cases hpiv : extractPivot (t :: ts) with
      | none =>
        exfalso
        have hz := extractPivot_none (t :: ts) (fun r hr => hne _ r (by simp) (htodo r hr)) hpiv
        -- the vector (heads of the finished rows, -1, 0, …, 0) is orthogonal to every row
        let cs : Vec := done.map (fun r => r.1.headD 0)
        let x : Vec := cs ++ ((-1 : Rat) :: zeros (n - done.length - 1))
        have hcs : cs.length = done.length := by simp [cs]
        have hxlen : x.length = n := by simp [x, cs]; omega
        have hall : ∀ r ∈ done ++ (t :: ts), dot (vecMat n r.2 A0) x = 0 := by
          intro r hr
          rcases List.mem_append.mp hr with hrd | hrt
          · obtain ⟨i, hi, rfl⟩ := List.getElem_of_mem hrd
            obtain ⟨_, hv⟩ := hdone i hi
            have hne1 := hne _ _ (by simp) (hdone i hi)
            cases h1 : done[i].1 with
            | nil => exact absurd h1 hne1
            | cons c tl =>
              rw [hv, h1, dot_append _ _ _ _ (by simp [hcs]), dot_unitVec _ _ _ hcs hi]
              have : cs[i]?.getD 0 = c := by simp [cs, hi, h1]
              rw [this, dot_cons, dot_zeros_right]
              ring
          · obtain ⟨tl, htl⟩ := hz r hrt
            obtain ⟨_, hv⟩ := htodo r hrt
            rw [hv, htl, dot_append _ _ _ _ (by simp [hcs]), dot_zeros_left, dot_cons, dot_zeros_right]
            ring
        have hx0 := hker x hxlen (hann x hall)
        have h1 : x[done.length]? = some (-1) := by
          simp only [x]
          rw [List.getElem?_append_right (by simp [hcs])]
          simp [hcs]
        rw [hx0] at h1
        simp [zeros, hkn] at h1
      | some pr =>
        obtain ⟨p, rest⟩ := pr
        simp only
        obtain ⟨hpmem, hrest, hrl, c, pt, hp1, hc⟩ := extractPivot_spec _ p rest hpiv
        rw [hp1]
        simp only
        have hpOK := htodo p hpmem
        have hpn := norm_step n A0 done.length p c pt hpOK hp1 hc
        refine ih _ _ ?_ ?_ ?_ ?_ ?_
        · intro i h
          simp only [List.length_append, List.length_map, List.length_cons, List.length_nil] at h ⊢
          by_cases hi : i < done.length
          · rw [List.getElem_append_left (by simpa using hi), List.getElem_map]
            rw [unitVec_succ_lt _ _ hi]
            exact elim_step n A0 done.length _ _ _ hpn (hdone i hi) (by simp)
              (hne _ _ (by simp) (hdone i hi))
          · have hie : i = done.length := by omega
            subst hie
            rw [List.getElem_append_right (by simp)]
            simp only [List.length_map, Nat.sub_self, List.getElem_cons_zero]
            rw [unitVec_succ_self]
            exact hpn
        · intro r hr
          obtain ⟨r', hr', rfl⟩ := List.mem_map.mp hr
          simp only [List.length_append, List.length_map, List.length_cons, List.length_nil]
          rw [zeros_succ']
          exact elim_step n A0 done.length _ _ _ hpn (htodo r' (hrest r' hr')) (by simp)
            (hne _ _ (by simp) (htodo r' (hrest r' hr')))
        · simp only [List.length_append, List.length_map, List.length_cons, List.length_nil]
          simp only [List.length_cons] at hcount hrl
          omega
        · simp only [List.length_map]
          simp only [List.length_cons] at hfuel hrl
          omega
        · intro x hx a ha
          apply hann x _ a ha
          -- x annihilates the normalised pivot row, hence the pivot row
          have hpnx : dot (vecMat n (smul c⁻¹ p.2) A0) x = 0 :=
            hx (smul c⁻¹ pt, smul c⁻¹ p.2) (by simp)
          have hpx : dot (vecMat n p.2 A0) x = 0 := by
            rw [vecMat_smul, dot_smul] at hpnx
            rcases mul_eq_zero.mp hpnx with h0 | h0
            · exact absurd (inv_eq_zero.mp h0) hc
            · exact h0
          have hstep : ∀ r : Row, r.2.length = n → r.1 ≠ [] →
              elimRow (smul c⁻¹ pt, smul c⁻¹ p.2) r ∈
                (done.map (elimRow (smul c⁻¹ pt, smul c⁻¹ p.2)) ++ [(smul c⁻¹ pt, smul c⁻¹ p.2)]) ++
                  rest.map (elimRow (smul c⁻¹ pt, smul c⁻¹ p.2)) →
              dot (vecMat n r.2 A0) x = 0 := by
            intro r hr2 hr1 hmem
            exact ann_step n A0 hA0 _ r x hpn.1 hr2 hr1 hpnx (hx _ hmem)
          intro r hr
          rcases List.mem_append.mp hr with hrd | hrt
          · obtain ⟨i, hi, rfl⟩ := List.getElem_of_mem hrd
            exact hstep _ (hdone i hi).1 (hne _ _ (by simp) (hdone i hi))
              (by simp only [List.mem_append, List.mem_map]; exact Or.inl (Or.inl ⟨_, List.getElem_mem hi, rfl⟩))
          · rcases extractPivot_mem _ p rest hpiv r hrt with rfl | hrr
            · exact hpx
            · exact hstep r (htodo r hrt).1 (hne _ _ (by simp) (htodo r hrt))
                (by simp only [List.mem_append, List.mem_map]; exact Or.inr ⟨r, hrr, rfl⟩)



theorem inverse_complete_list (A : Mat) (hsq : isSquare A.length A = true)
    (hker : TrivialKernel A.length A) : ∃ B, inverse A = some B := by
  obtain ⟨_, hrows⟩ := (isSquare_iff _ _).mp hsq
  have hloop := gjLoop_complete A.length A hrows hker A.length [] (A.zip (identity A.length))
    (by intro i h; simp at h)
    (by
      intro r hr
      obtain ⟨h1, h2⟩ := zip_identity_rows A.length A hrows r hr
      exact ⟨h2, by simpa [zeros] using h1⟩)
    (by simp) (by simp)
    (by
      intro x hx a ha
      obtain ⟨i, hi, rfl⟩ := List.getElem_of_mem ha
      have hmem : (A[i], (identity A.length)[i]'(by simpa using hi)) ∈ A.zip (identity A.length) := by
        have : (A.zip (identity A.length))[i]'(by simpa using hi) = (A[i], (identity A.length)[i]'(by simpa using hi)) := by
          simp
        rw [← this]; exact List.getElem_mem _
      have h1 := (zip_identity_rows A.length A hrows _ hmem).1
      have h2 := hx _ (by simpa using hmem)
      rw [h1] at h2
      exact h2)
  obtain ⟨res, hres⟩ := hloop
  exact ⟨res.map (·.2), by simp [inverse, hsq, hres]⟩

/-- `dot` as a finite sum -/
theorem dot_eq_sum (a x : Vec) :
    dot a x = ∑ j ∈ Finset.range a.length, a[j]?.getD 0 * x[j]?.getD 0 := by
  induction a generalizing x with
  | nil => simp
  | cons y a ih =>
    cases x with
    | nil => simp
    | cons w x =>
      rw [dot_cons, ih x, List.length_cons, Finset.sum_range_succ']
      simp [add_comm]

/-- a matrix with non-zero determinant has, read as a list of rows, a trivial kernel -/
theorem trivialKernel_of_det (n : Nat) (A : Mat) (hsq : isSquare n A = true)
    (hdet : IsUnit (toMatrix n A).det) : TrivialKernel n A := by
  obtain ⟨hl, hrows⟩ := (isSquare_iff _ _).mp hsq
  intro x hx hall
  have hv : Matrix.mulVec (toMatrix n A) (fun j : Fin n => x[(j : Nat)]?.getD 0) = 0 := by
    funext i
    have hi : (i : Nat) < A.length := by rw [hl]; exact i.2
    have := hall A[(i : Nat)] (List.getElem_mem hi)
    rw [dot_eq_sum, hrows _ (List.getElem_mem hi), Finset.sum_range] at this
    simp only [Matrix.mulVec, dotProduct, toMatrix, entry_eq', Pi.zero_apply]
    refine Eq.trans ?_ this
    apply Finset.sum_congr rfl
    intro j _
    simp [hi]
  have h0 := Matrix.eq_zero_of_mulVec_eq_zero hdet.ne_zero hv
  apply List.ext_getElem
  · simp [hx]
  · intro j h1 h2
    have := congrFun h0 ⟨j, by omega⟩
    simp only [Pi.zero_apply] at this
    simp [zeros] at this ⊢
    simpa [h1] using this



/-! ### block-diagonal product on lists -/

theorem vadd_append (a b c d : Vec) (h : a.length = c.length) :
    vadd (a ++ b) (c ++ d) = vadd a c ++ vadd b d := by
  unfold vadd
  exact List.zipWith_append h

theorem vadd_zeros_zeros (k : Nat) : vadd (zeros k) (zeros k) = zeros k := by
  have := vadd_zeros_left (zeros k)
  simpa using this

/-- zero coefficients in front skip the corresponding rows -/
theorem vecMat_zeros_append (w : Nat) (P M : Mat) (v : Vec) (hP : ∀ r ∈ P, r.length = w)
    (hM : ∀ r ∈ M, r.length = w) :
    vecMat w (zeros P.length ++ v) (P ++ M) = vecMat w v M := by
  induction P with
  | nil => simp [zeros]
  | cons p P ih =>
    rw [List.length_cons, zeros_succ, List.cons_append, List.cons_append, vecMat_cons,
      ih (fun r h => hP r (List.mem_cons_of_mem _ h)), smul_zero_left, hP p List.mem_cons_self]
    have hl : (vecMat w v M).length = w := length_vecMat w v M hM
    have := vadd_zeros_left (vecMat w v M)
    rwa [hl] at this

/-- zero coefficients behind, and the rows they would multiply, can be dropped -/
theorem vecMat_append_zeros (w : Nat) (x : Vec) (M1 M2 : Mat) (t : Nat) (hx : x.length = M1.length)
    (h1 : ∀ r ∈ M1, r.length = w) (h2 : ∀ r ∈ M2, r.length = w) :
    vecMat w (x ++ zeros t) (M1 ++ M2) = vecMat w x M1 := by
  induction x generalizing M1 with
  | nil =>
    cases M1 with
    | nil => simp [vecMat_zeros w t M2 h2]
    | cons m M1 => simp at hx
  | cons c x ih =>
    cases M1 with
    | nil => simp at hx
    | cons m M1 =>
      simp only [List.cons_append, vecMat_cons]
      rw [ih M1 (by simpa using hx) (fun r h => h1 r (List.mem_cons_of_mem _ h))]

theorem zeros_add3 (o s t : Nat) : zeros (o + s + t) = zeros o ++ zeros s ++ zeros t := by
  simp only [zeros, List.replicate_append_replicate]

/-- coefficients times padded rows = padded (coefficients times rows) -/
theorem vecMat_map_pad (o s t : Nat) (x : Vec) (B : Mat) (hB : ∀ r ∈ B, r.length = s) :
    vecMat (o + s + t) x (B.map (fun r => zeros o ++ r ++ zeros t))
      = zeros o ++ vecMat s x B ++ zeros t := by
  induction x generalizing B with
  | nil => simp only [vecMat_nil_left]; exact zeros_add3 o s t
  | cons c x ih =>
    cases B with
    | nil => simp only [List.map_nil, vecMat_nil_right]; exact zeros_add3 o s t
    | cons b B =>
      simp only [List.map_cons, vecMat_cons]
      rw [ih B (fun r h => hB r (List.mem_cons_of_mem _ h)), smul_append, smul_append, smul_zeros,
        smul_zeros]
      have hb : b.length = s := hB b List.mem_cons_self
      have hl : (vecMat s x B).length = s := length_vecMat s x B (fun r h => hB r (List.mem_cons_of_mem _ h))
      rw [vadd_append _ _ _ _ (by simp [hb, hl]), vadd_append _ _ _ _ (by simp), vadd_zeros_zeros,
        vadd_zeros_zeros]

theorem unitVec_append_zeros (s q t : Nat) (hq : q < s) : unitVec s q ++ zeros t = unitVec (s + t) q := by
  induction t with
  | zero => simp [zeros]
  | succ t ih =>
    rw [zeros_succ', ← List.append_assoc, ih, ← Nat.add_assoc, unitVec_succ_lt _ _ (by omega)]

theorem zeros_append_unitVec (o m q : Nat) : zeros o ++ unitVec m q = unitVec (o + m) (o + q) := by
  induction o with
  | zero => simp [zeros]
  | succ o ih =>
    rw [zeros_succ, List.cons_append, ih, show o + 1 + m = (o + m) + 1 by omega,
      show o + 1 + q = (o + q) + 1 by omega, unitVec_succ_succ]

theorem pad_unitVec (o s t q : Nat) (hq : q < s) :
    zeros o ++ unitVec s q ++ zeros t = unitVec (o + s + t) (o + q) := by
  rw [List.append_assoc, unitVec_append_zeros s q t hq, zeros_append_unitVec, Nat.add_assoc]



/-- a block together with its (left) inverse, both square of the same size -/
def GoodPair (B X : Mat) : Prop :=
  matMul B.length X B = identity B.length ∧ X.length = B.length ∧
    (∀ r ∈ B, r.length = B.length) ∧ (∀ r ∈ X, r.length = B.length)

theorem denseBlockDiag_width (n : Nat) (Bs : List Mat) (hsq : SquareBlocks Bs) (o : Nat)
    (h : o + (Bs.map List.length).sum ≤ n) : ∀ r ∈ denseBlockDiag n o Bs, r.length = n := by
  induction Bs generalizing o with
  | nil => intro r hr; cases hr
  | cons B Bs ih =>
    simp only [List.map_cons, List.sum_cons] at h
    intro r hr
    simp only [denseBlockDiag, List.mem_append, List.mem_map] at hr
    rcases hr with ⟨b, hb, rfl⟩ | hr
    · have := hsq B List.mem_cons_self b hb
      simp [this]; omega
    · exact ih (fun B' hB' => hsq B' (List.mem_cons_of_mem _ hB')) (o + B.length) (by omega) r hr

theorem denseBlockDiag_length (n : Nat) (Bs : List Mat) (o : Nat) :
    (denseBlockDiag n o Bs).length = (Bs.map List.length).sum := by
  induction Bs generalizing o with
  | nil => rfl
  | cons B Bs ih => simp [denseBlockDiag, ih]

theorem goodPair_square (Bs Xs : List Mat) (hF : List.Forall₂ GoodPair Bs Xs) :
    SquareBlocks Bs ∧ Xs.map List.length = Bs.map List.length := by
  induction hF with
  | nil => exact ⟨fun B hB => absurd hB List.not_mem_nil, rfl⟩
  | cons h _ ih =>
    constructor
    · intro B' hB'
      rcases List.mem_cons.mp hB' with rfl | hB'
      · exact h.2.2.1
      · exact ih.1 B' hB'
    · simp [h.2.1, ih.2]

theorem dbd_mul (n : Nat) (Bs Xs : List Mat) (hF : List.Forall₂ GoodPair Bs Xs) :
    ∀ (o : Nat) (P : Mat), P.length = o → (∀ r ∈ P, r.length = n) →
      o + (Bs.map List.length).sum = n →
      (denseBlockDiag n o Xs).map (fun y => vecMat n y (P ++ denseBlockDiag n o Bs))
        = (List.range' o (Bs.map List.length).sum).map (unitVec n) := by
  induction hF with
  | nil => intro o P _ _ _; rfl
  | cons hBX hrest ih =>
    rename_i B X Bs Xs
    intro o P hPl hPw hsum
    subst hPl
    obtain ⟨hmul, hXl, hBr, hXr⟩ := hBX
    simp only [List.map_cons, List.sum_cons] at hsum ⊢
    have hsqBs := (goodPair_square Bs Xs hrest).1
    have hn : n = P.length + B.length + (n - P.length - B.length) := by omega
    have hpadw : ∀ r ∈ B.map (fun r => zeros P.length ++ r ++ zeros (n - P.length - B.length)), r.length = n := by
      intro r hr
      obtain ⟨b, hb, rfl⟩ := List.mem_map.mp hr
      simp [hBr b hb]; omega
    have hrestw := denseBlockDiag_width n Bs hsqBs (P.length + B.length) (by omega)
    simp only [denseBlockDiag, List.map_append, List.map_map, hXl]
    rw [← List.range'_append_1, List.map_append]
    congr 1
    · -- the rows of the first block
      have hrow : ∀ x ∈ X,
          ((fun y => vecMat n y (P ++ (B.map (fun r => zeros P.length ++ r ++ zeros (n - P.length - B.length)) ++
              denseBlockDiag n (P.length + B.length) Bs))) ∘
            fun r => zeros P.length ++ r ++ zeros (n - P.length - B.length)) x
          = zeros P.length ++ vecMat B.length x B ++ zeros (n - P.length - B.length) := by
        intro x hx
        simp only [Function.comp_apply]
        rw [List.append_assoc,
          vecMat_zeros_append n P _ _ hPw (by
            intro r hr
            rcases List.mem_append.mp hr with h | h
            · exact hpadw r h
            · exact hrestw r h),
          vecMat_append_zeros n x _ _ _ (by simp [hXr x hx]) hpadw hrestw]
        have := vecMat_map_pad P.length B.length (n - P.length - B.length) x B hBr
        rw [← hn] at this
        exact this
      rw [List.map_congr_left hrow]
      have h1 : X.map (fun x => zeros P.length ++ vecMat B.length x B ++ zeros (n - P.length - B.length))
          = (matMul B.length X B).map (fun u => zeros P.length ++ u ++ zeros (n - P.length - B.length)) := by
        simp [matMul, List.map_map, Function.comp_def]
      rw [h1, hmul, identity, List.map_map, List.range'_eq_map_range, List.map_map]
      apply List.map_congr_left
      intro q hq
      simp only [Function.comp_apply]
      rw [pad_unitVec P.length B.length (n - P.length - B.length) q (List.mem_range.mp hq), ← hn]
    · have := ih (P.length + B.length) (P ++ B.map (fun r => zeros P.length ++ r ++ zeros (n - P.length - B.length)))
        (by simp)
        (by
          intro r hr
          rcases List.mem_append.mp hr with h | h
          · exact hPw r h
          · exact hpadw r h)
        (by omega)
      rw [List.append_assoc] at this
      exact this



section Perm
open Matrix

/-! ### permutations given as lists -/

theorem perm_range_facts (n : Nat) (l : List Nat) (h : l.Perm (List.range n)) :
    l.length = n ∧ l.Nodup ∧ (∀ i, i ∈ l ↔ i < n) := by
  refine ⟨by simpa using h.length_eq, h.nodup_iff.mpr List.nodup_range, ?_⟩
  intro i
  rw [h.mem_iff, List.mem_range]

/-- the bijection `k ↦ l[k]` of `Fin n` described by a list that is a permutation of `0 … n-1` -/
def listEquiv (n : Nat) (l : List Nat) (h : l.Perm (List.range n)) : Fin n ≃ Fin n where
  toFun k := ⟨l[(k : Nat)]'(by rw [(perm_range_facts n l h).1]; exact k.2),
    ((perm_range_facts n l h).2.2 _).mp (List.getElem_mem _)⟩
  invFun i := ⟨l.idxOf (i : Nat),
    lt_of_lt_of_eq (List.idxOf_lt_length_of_mem (((perm_range_facts n l h).2.2 _).mpr i.2))
      (perm_range_facts n l h).1⟩
  left_inv k := by
    apply Fin.ext
    simp only
    exact (perm_range_facts n l h).2.1.idxOf_getElem _ _
  right_inv i := by
    apply Fin.ext
    simp only
    exact List.getElem_idxOf _

theorem listEquiv_apply (n : Nat) (l : List Nat) (h : l.Perm (List.range n)) (k : Fin n) :
    ((listEquiv n l h k : Fin n) : Nat) = l[(k : Nat)]?.getD 0 := by
  have : (k : Nat) < l.length := by rw [(perm_range_facts n l h).1]; exact k.2
  simp [listEquiv, this]

theorem listEquiv_symm_apply (n : Nat) (l : List Nat) (h : l.Perm (List.range n)) (i : Fin n) :
    (((listEquiv n l h).symm i : Fin n) : Nat) = l.idxOf (i : Nat) := rfl

theorem entry_permute (A : Mat) (rp cp : List Nat) (k l : Nat) (hk : k < rp.length) (hl : l < cp.length) :
    entry (permute A rp cp) k l = entry A (rp[k]?.getD 0) (cp[l]?.getD 0) := by
  rw [entry_eq']
  simp [permute, hk, hl]

theorem entry_unpermute (n : Nat) (Y : Mat) (rp cp : List Nat) (i j : Nat) (hi : i < n) (hj : j < n) :
    entry (unpermute n Y rp cp) i j = entry Y (cp.idxOf i) (rp.idxOf j) := by
  rw [entry_eq']
  simp [unpermute, hi, hj]

theorem toMatrix_permute (n : Nat) (A : Mat) (rp cp : List Nat) (hr : rp.Perm (List.range n))
    (hc : cp.Perm (List.range n)) :
    toMatrix n (permute A rp cp) = (toMatrix n A).submatrix (listEquiv n rp hr) (listEquiv n cp hc) := by
  ext k l
  simp only [toMatrix, Matrix.submatrix_apply]
  rw [entry_permute A rp cp k l (by rw [(perm_range_facts n rp hr).1]; exact k.2)
    (by rw [(perm_range_facts n cp hc).1]; exact l.2), listEquiv_apply, listEquiv_apply]

theorem toMatrix_unpermute (n : Nat) (Y : Mat) (rp cp : List Nat) (hr : rp.Perm (List.range n))
    (hc : cp.Perm (List.range n)) :
    toMatrix n (unpermute n Y rp cp)
      = (toMatrix n Y).submatrix (listEquiv n cp hc).symm (listEquiv n rp hr).symm := by
  ext i j
  simp only [toMatrix, Matrix.submatrix_apply]
  rw [entry_unpermute n Y rp cp i j i.2 j.2, listEquiv_symm_apply, listEquiv_symm_apply]

/-- un-permuting a left inverse of the permuted matrix gives a left inverse of the matrix -/
theorem unpermute_left_inverse {n : Nat} (A Y : Matrix (Fin n) (Fin n) ℚ) (er ec : Fin n ≃ Fin n)
    (h : Y * A.submatrix er ec = 1) : Y.submatrix ec.symm er.symm * A = 1 := by
  have hA : A = (A.submatrix er ec).submatrix er.symm ec.symm := by simp
  rw [hA, Matrix.submatrix_mul_equiv, h, Matrix.submatrix_one_equiv]



theorem foldl_add_eq_sum (l : List Nat) (a : Nat) : l.foldl (· + ·) a = a + l.sum := by
  induction l generalizing a with
  | nil => simp
  | cons x l ih => simp [ih]; omega

theorem forall₂_goodPair (Bs Xs : List Mat)
    (h : List.Forall₂ (fun B X => inverse B = some X) Bs Xs) : List.Forall₂ GoodPair Bs Xs := by
  refine List.Forall₂.imp ?_ h
  intro B X hBX
  obtain ⟨h1, h2⟩ := inverse_length B X hBX
  exact ⟨inverse_left B X hBX, h1, (inverse_some B X hBX).1, h2⟩

/-- The list-level identity that the driver also checks at run time: the assembled block-diagonal
    inverse times the block-diagonal matrix is the identity. -/
theorem invertDiagonalBlocks_left (n : Nat) (Bm : Mat) (sizes : List Nat) (r : BlockInverse)
    (hlen : Bm.length = n)
    (hsz : (sizes.filter (· > 0)).sum = n)
    (hbd : Bm = denseBlockDiag n 0 (extractBlocks Bm 0 (sizes.filter (· > 0))))
    (h : invertDiagonalBlocks Bm sizes = some r) :
    matMul n r.dense Bm = identity n ∧ r.dense.length = n ∧ (∀ y ∈ r.dense, y.length = n) := by
  unfold invertDiagonalBlocks at h
  simp only at h
  split at h
  · cases h
  · rename_i inv hinv
    simp only [Option.some.injEq] at h
    subst h
    simp only
    rw [foldl_add_eq_sum, Nat.zero_add, hsz]
    have hF := invertAll_forall₂ _ _ hinv
    have hG := forall₂_goodPair _ _ hF
    obtain ⟨hsqX, hlenX⟩ := forall₂_inverse_square _ _ hF
    have hBl : (extractBlocks Bm 0 (sizes.filter (· > 0))).map List.length = sizes.filter (· > 0) :=
      extractBlocks_lengths Bm 0 _ (by omega)
    have hmul := dbd_mul n _ _ hG 0 [] rfl (by simp) (by rw [hBl]; omega)
    rw [List.nil_append, ← hbd, hBl, hsz, ← List.range_eq_range'] at hmul
    refine ⟨hmul, ?_, ?_⟩
    · rw [denseBlockDiag_length, hlenX, hBl, hsz]
    · exact denseBlockDiag_width n inv hsqX 0 (by rw [hlenX, hBl]; omega)

theorem invertPermuted_left (n : Nat) (A : Mat) (rp cp sizes : List Nat) (X : Mat)
    (hr : rp.Perm (List.range n)) (hc : cp.Perm (List.range n))
    (hsz : (sizes.filter (· > 0)).sum = n)
    (hbd : permute A rp cp
      = denseBlockDiag n 0 (extractBlocks (permute A rp cp) 0 (sizes.filter (· > 0))))
    (h : invertPermuted n A rp cp sizes = some X) :
    toMatrix n X * toMatrix n A = 1 := by
  unfold invertPermuted at h
  split at h
  · cases h
  · rename_i r hr'
    simp only [Option.some.injEq] at h
    subst h
    have hBl : (permute A rp cp).length = n := by simp [permute, (perm_range_facts n rp hr).1]
    have hBw : ∀ b ∈ permute A rp cp, b.length = n := by
      intro b hb
      simp only [permute, List.mem_map] at hb
      obtain ⟨i, _, rfl⟩ := hb
      simp [(perm_range_facts n cp hc).1]
    obtain ⟨hmul, hYl, hYw⟩ := invertDiagonalBlocks_left n _ sizes r hBl hsz hbd hr'
    have hM := toMatrix_mul_of_matMul n (permute A rp cp) r.dense hBl hBw hYl hYw hmul
    rw [toMatrix_permute n A rp cp hr hc] at hM
    rw [toMatrix_unpermute n r.dense rp cp hr hc]
    exact unpermute_left_inverse _ _ _ _ hM


end Perm


theorem isPermOfRange_perm (n : Nat) (l : List Nat) (h : isPermOfRange n l = true) :
    l.Perm (List.range n) := by
  simp only [isPermOfRange, Bool.and_eq_true, beq_iff_eq, List.all_eq_true, List.mem_range,
    List.contains_iff_mem] at h
  obtain ⟨hl, hall⟩ := h
  have hsub : (List.range n).Subperm l :=
    List.Nodup.subperm List.nodup_range (fun i hi => hall i (List.mem_range.mp hi))
  exact (hsub.perm_of_length_le (by simp [hl])).symm

theorem blockDiagIndexRect_square (o : Nat) (sz : List Nat) :
    (blockDiagIndexRect o o sz sz).1 = blockDiagIndex o sz := by
  induction sz generalizing o with
  | nil => rfl
  | cons s ss ih => simp [blockDiagIndexRect, blockDiagIndex, ih]

theorem blockDiagIndexRect_lengths (ro co : Nat) (m n : List Nat) :
    (blockDiagIndexRect ro co m n).1.length = (blockDiagIndexRect ro co m n).2.length := by
  induction m generalizing ro co n with
  | nil => simp [blockDiagIndexRect]
  | cons a m ih =>
    cases n with
    | nil => simp [blockDiagIndexRect]
    | cons b n =>
      simp only [blockDiagIndexRect, List.length_append, ih]
      congr 1
      simp [List.length_flatMap, Nat.mul_comm]


end PorepyVerif.C37
